import CkptVerif.Proofs.DiskOneReadSeq
/-!
# Plans with one-read disk checkpoints

State of a reversal: the adjoint stands at `a`; forward states are available under *tags*
(`ram e`: a RAM checkpoint at `e`, `disk e`: a disk checkpoint at `e`, `work e`: working storage).

A plan is a list of entries with increasing bases, the first at `0`:
* `ownH t b` / `ownD t b`: the state under tag `t` is carried to `b` (price `uf·(b - pos t)`) and kept
  in a RAM unit (`H`, *consuming*) or written to disk again (`D`, price `wr`);
* `dskN e b`: the disk checkpoint `e` is read when its turn comes and carried to `b`;
* `chH b` / `chD b`: the sweep that produced the previous non-`dskN` entry goes on to `b`.
The gaps are priced by `XiG`.
-/
namespace Ckpt.LB7

inductive Tag | ram (e : Nat) | work (e : Nat) | disk (e : Nat)
deriving DecidableEq, Repr

def Tag.pos : Tag → Nat
  | .ram e => e | .work e => e | .disk e => e

inductive Ent
  | ownH (t : Tag) (b : Nat)
  | ownD (t : Tag) (b : Nat)
  | dskN (e b : Nat)
  | chH (b : Nat)
  | chD (b : Nat)
deriving DecidableEq, Repr

namespace Ent

def base : Ent → Nat
  | ownH _ b => b | ownD _ b => b | dskN _ b => b | chH b => b | chD b => b

/-- held in a RAM unit while the gaps above are reversed -/
def cons : Ent → Bool
  | ownH _ _ => true | chH _ => true | _ => false

def paysWr : Ent → Bool
  | ownD _ _ => true | chD _ => true | _ => false

/-- the sweep that produces the entry can go on -/
def sets : Ent → Bool
  | dskN _ _ => false | _ => true

def isCh : Ent → Bool
  | chH _ => true | chD _ => true | _ => false

def tag? : Ent → Option Tag
  | ownH t _ => some t | ownD t _ => some t | dskN e _ => some (.disk e) | _ => none

/-- the source lies at or below the base -/
def srcLe : Ent → Prop
  | ownH t b => t.pos ≤ b | ownD t b => t.pos ≤ b | dskN e b => e ≤ b | _ => True

end Ent

section
variable (uf wr : Nat)

def fee (cp : Option Nat) : Ent → Nat
  | .ownH t b => uf * (b - t.pos)
  | .ownD t b => uf * (b - t.pos)
  | .dskN e b => uf * (b - e)
  | .chH b => match cp with | some c => uf * (b - c) | none => 0
  | .chD b => match cp with | some c => uf * (b - c) | none => 0

def cpStep (cp : Option Nat) (E : Ent) : Option Nat := if E.sets then some E.base else cp

def feeSum : Option Nat → List Ent → Nat
  | _, [] => 0
  | cp, E :: rest => fee uf cp E + feeSum (cpStep cp E) rest

def ChainOk : Option Nat → List Ent → Prop
  | _, [] => True
  | cp, E :: rest => (E.isCh = true → cp.isSome = true) ∧ ChainOk (cpStep cp E) rest

def cpAfter (cp : Option Nat) (P : List Ent) : Option Nat := P.foldl cpStep cp

def wrSum (P : List Ent) : Nat := (P.map (fun E => if E.paysWr then wr else 0)).sum

def seqOf (P : List Ent) : List (Nat × Bool) := P.map (fun E => (E.base, E.cons))

def tags (P : List Ent) : List Tag := P.filterMap Ent.tag?

def SrcLe (P : List Ent) : Prop := ∀ E ∈ P, E.srcLe

noncomputable def val (cm : Nat) (P : List Ent) (a : Nat) : Nat :=
  feeSum uf none P + wrSum wr P + XiG uf wr cm (seqOf P) a

structure PlanOk (cm a : Nat) (Av : Tag → Prop) (P : List Ent) : Prop where
  seq : SeqOk cm (seqOf P) a
  head : 0 < a → ∃ E rest, P = E :: rest ∧ E.base = 0
  src : SrcLe P
  chain : ChainOk none P
  nodup : (tags P).Nodup
  avail : ∀ t ∈ tags P, Av t

/-- some plan costs at most `n` -/
def DReach (cm : Nat) (Av : Tag → Prop) (a n : Nat) : Prop :=
  ∃ P, PlanOk cm a Av P ∧ val uf wr cm P a ≤ n

/-! ## basic list facts -/

theorem cpAfter_nil (cp : Option Nat) : cpAfter cp [] = cp := rfl
theorem cpAfter_cons (cp : Option Nat) (E : Ent) (P : List Ent) :
    cpAfter cp (E :: P) = cpAfter (cpStep cp E) P := rfl
theorem cpAfter_append (cp : Option Nat) (A B : List Ent) :
    cpAfter cp (A ++ B) = cpAfter (cpAfter cp A) B := by
  unfold cpAfter; rw [List.foldl_append]

theorem feeSum_append (cp : Option Nat) (A B : List Ent) :
    feeSum uf cp (A ++ B) = feeSum uf cp A + feeSum uf (cpAfter cp A) B := by
  induction A generalizing cp with
  | nil => simp [feeSum, cpAfter_nil]
  | cons E A ih => rw [List.cons_append, feeSum, feeSum, ih, cpAfter_cons]; omega

theorem ChainOk_append (cp : Option Nat) (A B : List Ent) :
    ChainOk cp (A ++ B) ↔ ChainOk cp A ∧ ChainOk (cpAfter cp A) B := by
  induction A generalizing cp with
  | nil => simp [ChainOk, cpAfter_nil]
  | cons E A ih => rw [List.cons_append, ChainOk, ChainOk, ih, cpAfter_cons, and_assoc]

theorem wrSum_append (A B : List Ent) : wrSum wr (A ++ B) = wrSum wr A + wrSum wr B := by
  unfold wrSum; rw [List.map_append, List.sum_append]

theorem wrSum_cons (E : Ent) (A : List Ent) :
    wrSum wr (E :: A) = (if E.paysWr then wr else 0) + wrSum wr A := by
  unfold wrSum; rw [List.map_cons, List.sum_cons]

theorem seqOf_append (A B : List Ent) : seqOf (A ++ B) = seqOf A ++ seqOf B := by
  unfold seqOf; rw [List.map_append]

theorem seqOf_cons (E : Ent) (A : List Ent) : seqOf (E :: A) = (E.base, E.cons) :: seqOf A := rfl

theorem tags_append (A B : List Ent) : tags (A ++ B) = tags A ++ tags B := by
  unfold tags; rw [List.filterMap_append]

theorem tags_cons (E : Ent) (A : List Ent) :
    tags (E :: A) = (match E.tag? with | some t => [t] | none => []) ++ tags A := by
  unfold tags
  rw [List.filterMap_cons]
  cases E.tag? <;> rfl

/-! ## the sweep pointer -/

/-- `cp'` is at least as far up as `cp` -/
def cpLe : Option Nat → Option Nat → Prop
  | none, _ => True
  | some _, none => False
  | some c, some c' => c ≤ c'

theorem cpLe_refl (cp : Option Nat) : cpLe cp cp := by
  cases cp <;> simp [cpLe]

theorem cpLe_step {cp cp' : Option Nat} (h : cpLe cp cp') (E : Ent) :
    cpLe (cpStep cp E) (cpStep cp' E) := by
  unfold cpStep
  split
  · simp [cpLe]
  · exact h

theorem fee_mono {cp cp' : Option Nat} (h : cpLe cp cp') (E : Ent)
    (hc : E.isCh = true → cp.isSome = true) : fee uf cp' E ≤ fee uf cp E := by
  cases E with
  | chH b =>
    cases cp with
    | none => simp [Ent.isCh] at hc
    | some c =>
      cases cp' with
      | none => simp [cpLe] at h
      | some c' =>
        simp only [cpLe] at h
        simp only [fee]
        exact Nat.mul_le_mul_left uf (by omega)
  | chD b =>
    cases cp with
    | none => simp [Ent.isCh] at hc
    | some c =>
      cases cp' with
      | none => simp [cpLe] at h
      | some c' =>
        simp only [cpLe] at h
        simp only [fee]
        exact Nat.mul_le_mul_left uf (by omega)
  | _ => exact le_refl _

theorem isSome_of_cpLe {cp cp' : Option Nat} (h : cpLe cp cp') (hs : cp.isSome = true) :
    cp'.isSome = true := by
  cases cp with
  | none => simp at hs
  | some c => cases cp' with
    | none => simp [cpLe] at h
    | some c' => rfl

/-- a sweep pointer further up: chains stay fine, fees do not grow -/
theorem feeSum_mono : ∀ (P : List Ent) (cp cp' : Option Nat), cpLe cp cp' → ChainOk cp P →
    ChainOk cp' P ∧ feeSum uf cp' P ≤ feeSum uf cp P ∧ cpLe (cpAfter cp P) (cpAfter cp' P) := by
  intro P
  induction P with
  | nil => intro cp cp' h _; exact ⟨trivial, le_refl _, h⟩
  | cons E P ih =>
    intro cp cp' h hc
    obtain ⟨h1, h2⟩ := hc
    obtain ⟨i1, i2, i3⟩ := ih _ _ (cpLe_step h E) h2
    refine ⟨⟨fun hE => isSome_of_cpLe h (h1 hE), i1⟩, ?_, i3⟩
    have := fee_mono uf h E h1
    simp only [feeSum]
    omega

/-- no entry before the first own entry continues a sweep from below -/
def NoChainHead : List Ent → Prop
  | [] => True
  | .dskN _ _ :: rest => NoChainHead rest
  | .chH _ :: _ => False
  | .chD _ :: _ => False
  | _ :: _ => True

theorem feeSum_noChainHead : ∀ (P : List Ent) (cp cp' : Option Nat), NoChainHead P →
    feeSum uf cp P = feeSum uf cp' P ∧ (ChainOk cp P → ChainOk cp' P) ∧
      (cpAfter cp P = cpAfter cp' P ∨ (∀ E ∈ P, E.sets = false)) := by
  intro P
  induction P with
  | nil => intro cp cp' _; exact ⟨rfl, fun _ => trivial, Or.inr (by simp)⟩
  | cons E P ih =>
    intro cp cp' h
    cases E with
    | dskN e b =>
      obtain ⟨i1, i2, i3⟩ := ih cp cp' h
      refine ⟨?_, ?_, ?_⟩
      · simp only [feeSum, fee, cpStep, Ent.sets]
        simp only [Bool.false_eq_true, if_false]
        rw [i1]
      · intro hc
        obtain ⟨h1, h2⟩ := hc
        refine ⟨by simp [Ent.isCh], ?_⟩
        simp only [cpStep, Ent.sets, Bool.false_eq_true, if_false] at h2 ⊢
        exact i2 h2
      · simp only [cpAfter_cons, cpStep, Ent.sets, Bool.false_eq_true, if_false]
        rcases i3 with i3 | i3
        · exact Or.inl i3
        · right
          intro E hE
          rcases List.mem_cons.mp hE with rfl | hE
          · rfl
          · exact i3 E hE
    | chH b => exact absurd h (by simp [NoChainHead])
    | chD b => exact absurd h (by simp [NoChainHead])
    | ownH t b =>
      exact ⟨rfl, fun hc => ⟨by simp [Ent.isCh], hc.2⟩, Or.inl rfl⟩
    | ownD t b =>
      exact ⟨rfl, fun hc => ⟨by simp [Ent.isCh], hc.2⟩, Or.inl rfl⟩

/-! ## trivial plans, fewer available states -/

theorem planOk_nil (cm : Nat) (Av : Tag → Prop) : PlanOk cm 0 Av [] :=
  { seq := trivial
    head := fun h => absurd h (lt_irrefl _)
    src := fun E hE => absurd hE List.not_mem_nil
    chain := trivial
    nodup := List.nodup_nil
    avail := fun t ht => absurd ht List.not_mem_nil }

theorem dreach_final (cm : Nat) (Av : Tag → Prop) : DReach uf wr cm Av 0 0 :=
  ⟨[], planOk_nil cm Av, by simp [val, feeSum, wrSum, seqOf, XiG]⟩

theorem PlanOk.mono {cm a : Nat} {Av Av' : Tag → Prop} {P : List Ent} (h : PlanOk cm a Av P)
    (hAv : ∀ t, Av t → Av' t) : PlanOk cm a Av' P :=
  { h with avail := fun t ht => hAv t (h.avail t ht) }

theorem dreach_mono {cm a n : Nat} {Av Av' : Tag → Prop} (hAv : ∀ t, Av t → Av' t)
    (h : DReach uf wr cm Av a n) : DReach uf wr cm Av' a n := by
  obtain ⟨P, hP, hv⟩ := h
  exact ⟨P, hP.mono hAv, hv⟩

/-! ## order of the bases -/

theorem SeqOk_pairwise : ∀ (s : List (Nat × Bool)) (k a : Nat), SeqOk k s a →
    s.Pairwise (fun p q => p.1 < q.1) := by
  intro s
  induction s with
  | nil => intro _ _ _; exact List.Pairwise.nil
  | cons p rest ih =>
    intro k a h
    rw [SeqOk_cons] at h
    obtain ⟨h1, _, h3⟩ := h
    have hp := ih _ a h3
    refine List.Pairwise.cons ?_ hp
    intro q hq
    cases rest with
    | nil => cases hq
    | cons r rest' =>
      simp only [nextB] at h1
      rcases List.mem_cons.mp hq with rfl | hq'
      · exact h1
      · have := (List.pairwise_cons.mp hp).1 q hq'
        omega

theorem bases_pairwise {cm a : Nat} {P : List Ent} (h : SeqOk cm (seqOf P) a) :
    P.Pairwise (fun X Y => X.base < Y.base) := by
  have := SeqOk_pairwise _ _ _ h
  unfold seqOf at this
  rw [List.pairwise_map] at this
  exact this

theorem bases_lt {cm a : Nat} {P : List Ent} (h : SeqOk cm (seqOf P) a) : ∀ E ∈ P, E.base < a := by
  intro E hE
  have := SeqOk_lt _ _ _ h (E.base, E.cons) (by unfold seqOf; exact List.mem_map.mpr ⟨E, hE, rfl⟩)
  exact this

/-- the sweep pointer is the old one or the base of an entry passed -/
theorem cpAfter_cases : ∀ (A : List Ent) (cp : Option Nat),
    cpAfter cp A = cp ∨ ∃ E ∈ A, cpAfter cp A = some E.base := by
  intro A
  induction A with
  | nil => intro cp; exact Or.inl rfl
  | cons X A ih =>
    intro cp
    rw [cpAfter_cons]
    rcases ih (cpStep cp X) with h | ⟨E, hE, h⟩
    · rw [h]
      unfold cpStep
      split
      · exact Or.inr ⟨X, List.mem_cons_self .., rfl⟩
      · exact Or.inl rfl
    · exact Or.inr ⟨E, List.mem_cons_of_mem _ hE, h⟩

theorem cpLe_of_below (A : List Ent) (b : Nat) (h : ∀ E ∈ A, E.base ≤ b) :
    cpLe (cpAfter none A) (some b) := by
  rcases cpAfter_cases A none with h0 | ⟨E, hE, h0⟩
  · rw [h0]; trivial
  · rw [h0]; exact h E hE

/-- after an entry that sets the pointer, the pointer stays at or above its base -/
theorem cpAfter_ge (M : List Ent) (b : Nat) (h : ∀ E ∈ M, b ≤ E.base) :
    ∃ c, cpAfter (some b) M = some c ∧ b ≤ c := by
  rcases cpAfter_cases M (some b) with h0 | ⟨E, hE, h0⟩
  · exact ⟨b, h0, le_refl _⟩
  · exact ⟨E.base, h0, h E hE⟩

/-! ## replacing one entry by another with the same base and the same consumption -/

theorem val_split (cm a : Nat) (A C : List Ent) (E : Ent) :
    val uf wr cm (A ++ E :: C) a =
      feeSum uf none A + fee uf (cpAfter none A) E + feeSum uf (cpStep (cpAfter none A) E) C +
      (wrSum wr A + (if E.paysWr then wr else 0) + wrSum wr C) +
      XiG uf wr cm (seqOf (A ++ E :: C)) a := by
  unfold val
  rw [feeSum_append, feeSum, wrSum_append, wrSum_cons]
  omega

theorem replace_entry {cm a : Nat} {Av Av' : Tag → Prop} (A C : List Ent) (E E' : Ent)
    (hP : PlanOk cm a Av (A ++ E :: C))
    (hb : E'.base = E.base) (hc : E'.cons = E.cons) (hsrc : E'.srcLe)
    (hch : E'.isCh = true → (cpAfter none A).isSome = true)
    (hcp : cpLe (cpStep (cpAfter none A) E) (cpStep (cpAfter none A) E'))
    (hnd : (tags (A ++ E' :: C)).Nodup) (hav : ∀ t ∈ tags (A ++ E' :: C), Av' t) :
    PlanOk cm a Av' (A ++ E' :: C) ∧
      val uf wr cm (A ++ E' :: C) a + fee uf (cpAfter none A) E + (if E.paysWr then wr else 0) ≤
        val uf wr cm (A ++ E :: C) a + fee uf (cpAfter none A) E' + (if E'.paysWr then wr else 0) := by
  have hseq : seqOf (A ++ E' :: C) = seqOf (A ++ E :: C) := by
    rw [seqOf_append, seqOf_append, seqOf_cons, seqOf_cons, hb, hc]
  have hchain := hP.chain
  rw [ChainOk_append, ChainOk] at hchain
  obtain ⟨hcA, _, hcC⟩ := hchain
  obtain ⟨m1, m2, _⟩ := feeSum_mono uf C _ _ hcp hcC
  refine ⟨⟨by rw [hseq]; exact hP.seq, ?_, ?_, ?_, hnd, hav⟩, ?_⟩
  · intro ha
    obtain ⟨X, rest, hX, hX0⟩ := hP.head ha
    cases A with
    | nil =>
      simp only [List.nil_append, List.cons.injEq] at hX ⊢
      exact ⟨E', C, ⟨rfl, rfl⟩, by rw [hb, hX.1]; exact hX0⟩
    | cons Y A' =>
      simp only [List.cons_append, List.cons.injEq] at hX ⊢
      exact ⟨Y, _, ⟨rfl, rfl⟩, by rw [hX.1]; exact hX0⟩
  · intro X hX
    rcases List.mem_append.mp hX with hX | hX
    · exact hP.src X (List.mem_append_left _ hX)
    · rcases List.mem_cons.mp hX with rfl | hX
      · exact hsrc
      · exact hP.src X (List.mem_append_right _ (List.mem_cons_of_mem _ hX))
  · rw [ChainOk_append, ChainOk]
    exact ⟨hcA, hch, m1⟩
  · rw [val_split, val_split, hseq]
    omega

/-- the tags of a plan in which one entry is replaced -/
theorem tags_replace (A C : List Ent) (E : Ent) :
    tags (A ++ E :: C) = tags A ++ ((match E.tag? with | some t => [t] | none => []) ++ tags C) := by
  rw [tags_append, tags_cons]

/-- an entry with a given tag -/
theorem exists_of_tag_mem {P : List Ent} {t : Tag} (h : t ∈ tags P) :
    ∃ A E C, P = A ++ E :: C ∧ E.tag? = some t := by
  unfold tags at h
  obtain ⟨E, hE, ht⟩ := List.mem_filterMap.mp h
  obtain ⟨A, C, rfl⟩ := List.append_of_mem hE
  exact ⟨A, E, C, rfl, ht⟩


/-! ## one sweep serves two entries: the upper one is chained -/

/-- an own entry -/
def Ent.isOwn : Ent → Bool
  | .ownH _ _ => true | .ownD _ _ => true | _ => false

/-- the chained entry with the same base and kind -/
def Ent.toCh : Ent → Ent
  | .ownH _ b => .chH b | .ownD _ b => .chD b | E => E

theorem isOwn_cases {E : Ent} (h : E.isOwn = true) : ∃ t b, E = .ownH t b ∨ E = .ownD t b := by
  cases E with
  | ownH t b => exact ⟨t, b, Or.inl rfl⟩
  | ownD t b => exact ⟨t, b, Or.inr rfl⟩
  | _ => simp [Ent.isOwn] at h

theorem tags_toCh_sub (A C : List Ent) (E : Ent) (hE : E.isOwn = true) :
    ∀ t ∈ tags (A ++ E.toCh :: C), t ∈ tags (A ++ E :: C) ∧ (E.tag? = some t → False ∨ t ∈ tags A ∨ t ∈ tags C) := by
  intro t ht
  obtain ⟨t0, b, rfl | rfl⟩ := isOwn_cases hE <;>
  · rw [tags_replace] at ht ⊢
    simp only [Ent.toCh, Ent.tag?, List.nil_append, List.mem_append] at ht ⊢
    rcases ht with ht | ht
    · exact ⟨Or.inl ht, fun _ => Or.inr (Or.inl ht)⟩
    · exact ⟨Or.inr (Or.inr ht), fun _ => Or.inr (Or.inr ht)⟩

theorem chain_upper {cm a : Nat} {Av : Tag → Prop} (A M C : List Ent) (E1 E2 : Ent)
    (hP : PlanOk cm a Av (A ++ E1 :: M ++ E2 :: C)) (h1 : E1.sets = true) (h2 : E2.isOwn = true) :
    PlanOk cm a Av (A ++ E1 :: M ++ E2.toCh :: C) ∧
      val uf wr cm (A ++ E1 :: M ++ E2.toCh :: C) a + fee uf none E2 ≤
        val uf wr cm (A ++ E1 :: M ++ E2 :: C) a + uf * (E2.base - E1.base) ∧
      (∀ t ∈ tags (A ++ E1 :: M ++ E2.toCh :: C), t ∈ tags (A ++ E1 :: M ++ E2 :: C) ∧ E2.tag? ≠ some t) := by
  have hpw := bases_pairwise hP.seq
  -- the pointer at `E2`
  have hM : ∀ X ∈ M, E1.base ≤ X.base := by
    intro X hX
    rw [List.pairwise_append] at hpw
    have := hpw.1
    rw [List.pairwise_append] at this
    have := this.2.1
    rw [List.pairwise_cons] at this
    exact le_of_lt (this.1 X hX)
  have hcpA : cpAfter none (A ++ E1 :: M) = cpAfter (some E1.base) M := by
    rw [cpAfter_append, cpAfter_cons]
    unfold cpStep
    rw [if_pos h1]
  obtain ⟨c, hc, hcb⟩ := cpAfter_ge M E1.base hM
  have hnd := hP.nodup
  have hsub := tags_toCh_sub (A ++ E1 :: M) C E2 h2
  -- the tag of E2 occurs once
  have htag2 : ∀ t, E2.tag? = some t → t ∉ tags (A ++ E1 :: M) ∧ t ∉ tags C := by
    intro t ht
    rw [tags_replace, ht] at hnd
    rw [List.nodup_append] at hnd
    obtain ⟨_, hn2, hn3⟩ := hnd
    simp only [List.singleton_append, List.nodup_cons] at hn2
    refine ⟨fun hin => hn3 t hin t (by simp) rfl, hn2.1⟩
  obtain ⟨t, b, rfl | rfl⟩ := isOwn_cases h2
  · have := replace_entry uf wr (A ++ E1 :: M) C (.ownH t b) (.chH b) hP rfl rfl trivial
      (fun _ => by rw [hcpA, hc]; rfl) (by simp [cpStep, Ent.sets, cpLe, Ent.base])
      (by
        rw [tags_replace] at hnd ⊢
        simp only [Ent.tag?, List.nil_append]
        simp only [Ent.tag?, List.singleton_append] at hnd
        rw [List.nodup_append] at hnd ⊢
        exact ⟨hnd.1, (List.nodup_cons.mp hnd.2.1).2, fun x hx y hy => hnd.2.2 x hx y (List.mem_cons_of_mem _ hy)⟩)
      (fun t' ht' => hP.avail t' ((hsub t' ht').1))
    refine ⟨this.1, ?_, ?_⟩
    · have hv := this.2
      clear this
      rw [hcpA, hc] at hv
      have e1 : fee uf (some c) (Ent.chH b) = uf * (b - c) := rfl
      have e2 : fee uf (some c) (Ent.ownH t b) = uf * (b - t.pos) := rfl
      have e3 : fee uf none (Ent.ownH t b) = uf * (b - t.pos) := rfl
      have e4 : (if (Ent.chH b).paysWr = true then wr else 0) = 0 := rfl
      have e5 : (if (Ent.ownH t b).paysWr = true then wr else 0) = 0 := rfl
      rw [e1, e2, e4, e5] at hv
      have h6 : uf * (b - c) ≤ uf * (b - E1.base) := Nat.mul_le_mul_left uf (by omega)
      show val uf wr cm (A ++ E1 :: M ++ Ent.chH b :: C) a + fee uf none (Ent.ownH t b) ≤
        val uf wr cm (A ++ E1 :: M ++ Ent.ownH t b :: C) a + uf * (b - E1.base)
      rw [e3]
      omega
    · intro t' ht'
      refine ⟨(hsub t' ht').1, ?_⟩
      intro heq
      simp only [Ent.tag?, Option.some.injEq] at heq
      subst heq
      have := htag2 t rfl
      rcases (hsub t ht').2 rfl with h | h | h
      · exact h
      · exact this.1 h
      · exact this.2 h
  · have := replace_entry uf wr (A ++ E1 :: M) C (.ownD t b) (.chD b) hP rfl rfl trivial
      (fun _ => by rw [hcpA, hc]; rfl) (by simp [cpStep, Ent.sets, cpLe, Ent.base])
      (by
        rw [tags_replace] at hnd ⊢
        simp only [Ent.tag?, List.nil_append]
        simp only [Ent.tag?, List.singleton_append] at hnd
        rw [List.nodup_append] at hnd ⊢
        exact ⟨hnd.1, (List.nodup_cons.mp hnd.2.1).2, fun x hx y hy => hnd.2.2 x hx y (List.mem_cons_of_mem _ hy)⟩)
      (fun t' ht' => hP.avail t' ((hsub t' ht').1))
    refine ⟨this.1, ?_, ?_⟩
    · have hv := this.2
      clear this
      rw [hcpA, hc] at hv
      have e1 : fee uf (some c) (Ent.chD b) = uf * (b - c) := rfl
      have e2 : fee uf (some c) (Ent.ownD t b) = uf * (b - t.pos) := rfl
      have e3 : fee uf none (Ent.ownD t b) = uf * (b - t.pos) := rfl
      have e4 : (if (Ent.chD b).paysWr = true then wr else 0) = wr := rfl
      have e5 : (if (Ent.ownD t b).paysWr = true then wr else 0) = wr := rfl
      rw [e1, e2, e4, e5] at hv
      have h6 : uf * (b - c) ≤ uf * (b - E1.base) := Nat.mul_le_mul_left uf (by omega)
      show val uf wr cm (A ++ E1 :: M ++ Ent.chD b :: C) a + fee uf none (Ent.ownD t b) ≤
        val uf wr cm (A ++ E1 :: M ++ Ent.ownD t b :: C) a + uf * (b - E1.base)
      rw [e3]
      omega
    · intro t' ht'
      refine ⟨(hsub t' ht').1, ?_⟩
      intro heq
      simp only [Ent.tag?, Option.some.injEq] at heq
      subst heq
      have := htag2 t rfl
      rcases (hsub t ht').2 rfl with h | h | h
      · exact h
      · exact this.1 h
      · exact this.2 h


/-! ## a state available under another tag, at or below the old position -/

/-- the own entry with another tag -/
def Ent.retag (t0 : Tag) : Ent → Ent
  | .ownH _ b => .ownH t0 b | .ownD _ b => .ownD t0 b | E => E

theorem isOwn_of_tag {E : Ent} {t : Tag} (h : E.tag? = some t) (hN : ∀ e b, E = .dskN e b → False) :
    E.isOwn = true := by
  cases E with
  | dskN e b => exact absurd rfl (hN e b)
  | ownH _ _ => rfl
  | ownD _ _ => rfl
  | chH _ => simp [Ent.tag?] at h
  | chD _ => simp [Ent.tag?] at h

theorem retag_one {cm a : Nat} {Av Av' : Tag → Prop} (t0 t1 : Tag) (hpos : t0.pos ≤ t1.pos) (h0 : Av t0)
    (P : List Ent) (hP : PlanOk cm a Av' P)
    (htags : ∀ t ∈ tags P, t = t1 ∨ (Av t ∧ t ≠ t0))
    (hN : ∀ e b, Ent.dskN e b ∈ P → Tag.disk e ≠ t1) :
    ∃ P₁, PlanOk cm a Av P₁ ∧ val uf wr cm P₁ a ≤ val uf wr cm P a + uf * (t1.pos - t0.pos) ∧
      (∀ e b, Ent.dskN e b ∈ P₁ → Ent.dskN e b ∈ P) := by
  by_cases hin : t1 ∈ tags P
  · obtain ⟨A, E, C, rfl, hE⟩ := exists_of_tag_mem hin
    have hown : E.isOwn = true := isOwn_of_tag hE (by
      intro e b he
      subst he
      simp only [Ent.tag?, Option.some.injEq] at hE
      exact hN e b (by simp) hE)
    have hnd := hP.nodup
    rw [tags_replace, hE] at hnd
    rw [List.nodup_append] at hnd
    obtain ⟨ndA, ndEC, ndx⟩ := hnd
    simp only [List.singleton_append, List.nodup_cons] at ndEC
    have hA : ∀ t ∈ tags A, Av t ∧ t ≠ t0 := by
      intro t ht
      rcases htags t (by rw [tags_replace]; exact List.mem_append_left _ ht) with h | h
      · subst h; exact absurd rfl (ndx t ht t (by simp))
      · exact h
    have hC : ∀ t ∈ tags C, Av t ∧ t ≠ t0 := by
      intro t ht
      rcases htags t (by rw [tags_replace]; simp [ht]) with h | h
      · subst h; exact absurd ht ndEC.1
      · exact h
    have hsrcE := hP.src E (by simp)
    obtain ⟨t, b, rfl | rfl⟩ := isOwn_cases hown
    · simp only [Ent.tag?, Option.some.injEq] at hE
      subst hE
      have := replace_entry uf wr (Av' := Av) A C (.ownH t b) (.ownH t0 b) hP rfl rfl
        (by simp only [Ent.srcLe] at hsrcE ⊢; omega) (by simp [Ent.isCh])
        (by simp [cpStep, Ent.sets, cpLe, Ent.base])
        (by
          rw [tags_replace]
          simp only [Ent.tag?, List.singleton_append]
          rw [List.nodup_append]
          refine ⟨ndA, List.nodup_cons.mpr ⟨fun h => (hC t0 h).2 rfl, ndEC.2⟩, ?_⟩
          intro x hx y hy
          rcases List.mem_cons.mp hy with rfl | hy
          · exact (hA x hx).2
          · exact ndx x hx y (List.mem_cons_of_mem _ hy))
        (by
          intro t' ht'
          rw [tags_replace] at ht'
          simp only [Ent.tag?, List.singleton_append, List.mem_append, List.mem_cons] at ht'
          rcases ht' with h | rfl | h
          · exact (hA t' h).1
          · exact h0
          · exact (hC t' h).1)
      refine ⟨_, this.1, ?_, ?_⟩
      · have hv := this.2
        simp only [fee, Ent.paysWr, Bool.false_eq_true, if_false, Nat.add_zero] at hv
        simp only [Ent.srcLe] at hsrcE
        have : uf * (b - t0.pos) = uf * (b - t.pos) + uf * (t.pos - t0.pos) := by
          rw [← Nat.mul_add]; congr 1; omega
        omega
      · intro e b' hm
        simp only [List.mem_append, List.mem_cons] at hm ⊢
        rcases hm with h | h | h
        · exact Or.inl h
        · cases h
        · exact Or.inr (Or.inr h)
    · simp only [Ent.tag?, Option.some.injEq] at hE
      subst hE
      have := replace_entry uf wr (Av' := Av) A C (.ownD t b) (.ownD t0 b) hP rfl rfl
        (by simp only [Ent.srcLe] at hsrcE ⊢; omega) (by simp [Ent.isCh])
        (by simp [cpStep, Ent.sets, cpLe, Ent.base])
        (by
          rw [tags_replace]
          simp only [Ent.tag?, List.singleton_append]
          rw [List.nodup_append]
          refine ⟨ndA, List.nodup_cons.mpr ⟨fun h => (hC t0 h).2 rfl, ndEC.2⟩, ?_⟩
          intro x hx y hy
          rcases List.mem_cons.mp hy with rfl | hy
          · exact (hA x hx).2
          · exact ndx x hx y (List.mem_cons_of_mem _ hy))
        (by
          intro t' ht'
          rw [tags_replace] at ht'
          simp only [Ent.tag?, List.singleton_append, List.mem_append, List.mem_cons] at ht'
          rcases ht' with h | rfl | h
          · exact (hA t' h).1
          · exact h0
          · exact (hC t' h).1)
      refine ⟨_, this.1, ?_, ?_⟩
      · have hv := this.2
        simp only [fee, Ent.paysWr, if_true] at hv
        simp only [Ent.srcLe] at hsrcE
        have : uf * (b - t0.pos) = uf * (b - t.pos) + uf * (t.pos - t0.pos) := by
          rw [← Nat.mul_add]; congr 1; omega
        omega
      · intro e b' hm
        simp only [List.mem_append, List.mem_cons] at hm ⊢
        rcases hm with h | h | h
        · exact Or.inl h
        · cases h
        · exact Or.inr (Or.inr h)
  · refine ⟨P, ⟨hP.seq, hP.head, hP.src, hP.chain, hP.nodup, ?_⟩, by omega, fun _ _ h => h⟩
    intro t ht
    rcases htags t ht with h | h
    · subst h; exact absurd ht hin
    · exact h.1

theorem dskN_mem_toCh {A C : List Ent} {E : Ent} (hE : E.isOwn = true) {e b : Nat}
    (h : Ent.dskN e b ∈ A ++ E.toCh :: C) : Ent.dskN e b ∈ A ++ E :: C := by
  simp only [List.mem_append, List.mem_cons] at h ⊢
  rcases h with h | h | h
  · exact Or.inl h
  · obtain ⟨t, b', rfl | rfl⟩ := isOwn_cases hE <;> simp [Ent.toCh] at h
  · exact Or.inr (Or.inr h)

/-- **Two tags for one**: a plan that uses the states under `t1` (at the position of `t0`) and
`t2` (further up) is turned into a plan that uses `t0` only, at the price of the distance. -/
theorem merge_two {cm a : Nat} {Av Av' : Tag → Prop} (t0 t1 t2 : Tag)
    (h01 : t0.pos = t1.pos) (h12 : t1.pos ≤ t2.pos) (h0 : Av t0) (hne : t1 ≠ t2)
    (P : List Ent) (hP : PlanOk cm a Av' P)
    (htags : ∀ t ∈ tags P, t = t1 ∨ t = t2 ∨ (Av t ∧ t ≠ t0))
    (hN : ∀ e b, Ent.dskN e b ∈ P → Tag.disk e ≠ t1 ∧ Tag.disk e ≠ t2) :
    ∃ P₁, PlanOk cm a Av P₁ ∧ val uf wr cm P₁ a ≤ val uf wr cm P a + uf * (t2.pos - t0.pos) := by
  by_cases hin2 : t2 ∈ tags P
  · by_cases hin1 : t1 ∈ tags P
    · -- both are used
      obtain ⟨A, E, C, rfl, hE⟩ := exists_of_tag_mem hin1
      have hEown : E.isOwn = true := isOwn_of_tag hE (by
        intro e b he; subst he
        simp only [Ent.tag?, Option.some.injEq] at hE
        exact (hN e b (by simp)).1 hE)
      have hin2' := hin2
      rw [tags_replace, hE] at hin2'
      simp only [List.singleton_append, List.mem_append, List.mem_cons] at hin2'
      rcases hin2' with hA | hEq | hC
      · -- the entry of `t2` lies below: chain `E`
        obtain ⟨A', Q, M, rfl, hQ⟩ := exists_of_tag_mem hA
        have hQown : Q.isOwn = true := isOwn_of_tag hQ (by
          intro e b he; subst he
          simp only [Ent.tag?, Option.some.injEq] at hQ
          exact (hN e b (by simp)).2 hQ)
        have hP' : PlanOk cm a Av' (A' ++ Q :: M ++ E :: C) := by
          have e : A' ++ Q :: M ++ E :: C = (A' ++ Q :: M) ++ E :: C := rfl
          rw [e]; exact hP
        have hQsets : Q.sets = true := by
          obtain ⟨t, b, rfl | rfl⟩ := isOwn_cases hQown <;> rfl
        obtain ⟨c1, c2, c3⟩ := chain_upper uf wr A' M C Q E hP' hQsets hEown
        obtain ⟨P₁, r1, r2, _⟩ := retag_one uf wr (Av := Av) t0 t2 (by omega) h0 _ c1
          (by
            intro t ht
            obtain ⟨m1, m2⟩ := c3 t ht
            rcases htags t m1 with h | h | h
            · subst h; exact absurd hE m2
            · exact Or.inl h
            · exact Or.inr h)
          (by
            intro e b hm
            exact (hN e b (dskN_mem_toCh (A := A' ++ Q :: M) hEown hm)).2)
        refine ⟨P₁, r1, ?_⟩
        have hsQ := hP'.src Q (by simp)
        have hsE := hP'.src E (by simp)
        have hpw := bases_pairwise hP'.seq
        have hlt : Q.base < E.base := by
          rw [List.pairwise_append] at hpw
          have := hpw.2.2 Q (by simp) E (by simp)
          exact this
        obtain ⟨tq, bq, rfl | rfl⟩ := isOwn_cases hQown <;>
        obtain ⟨te, be, rfl | rfl⟩ := isOwn_cases hEown <;>
        · simp only [Ent.tag?, Option.some.injEq] at hQ hE
          subst hQ hE
          simp only [fee, Ent.base, Ent.srcLe] at c2 hsQ hsE hlt
          have : uf * (be - bq) ≤ uf * (be - te.pos) := Nat.mul_le_mul_left uf (by omega)
          omega
      · exact absurd hEq.symm hne
      · -- the entry of `t2` lies above: chain it
        obtain ⟨M, Q, C', rfl, hQ⟩ := exists_of_tag_mem hC
        have hQown : Q.isOwn = true := isOwn_of_tag hQ (by
          intro e b he; subst he
          simp only [Ent.tag?, Option.some.injEq] at hQ
          exact (hN e b (by simp)).2 hQ)
        have hP' : PlanOk cm a Av' (A ++ E :: M ++ Q :: C') := by
          have e : A ++ E :: M ++ Q :: C' = A ++ E :: (M ++ Q :: C') := by simp
          rw [e]; exact hP
        have hEsets : E.sets = true := by
          obtain ⟨t, b, rfl | rfl⟩ := isOwn_cases hEown <;> rfl
        obtain ⟨c1, c2, c3⟩ := chain_upper uf wr A M C' E Q hP' hEsets hQown
        obtain ⟨P₁, r1, r2, _⟩ := retag_one uf wr (Av := Av) t0 t1 (by omega) h0 _ c1
          (by
            intro t ht
            obtain ⟨m1, m2⟩ := c3 t ht
            have e : A ++ E :: M ++ Q :: C' = A ++ E :: (M ++ Q :: C') := by simp
            rw [e] at m1
            rcases htags t m1 with h | h | h
            · exact Or.inl h
            · subst h; exact absurd hQ m2
            · exact Or.inr h)
          (by
            intro e b hm
            have := dskN_mem_toCh (A := A ++ E :: M) hQown hm
            have e' : A ++ E :: M ++ Q :: C' = A ++ E :: (M ++ Q :: C') := by simp
            rw [e'] at this
            exact (hN e b this).1)
        refine ⟨P₁, r1, ?_⟩
        have hsQ := hP'.src Q (by simp)
        have hsE := hP'.src E (by simp)
        have hpw := bases_pairwise hP'.seq
        have hlt : E.base < Q.base := by
          rw [List.pairwise_append] at hpw
          have := hpw.2.2 E (by simp) Q (by simp)
          exact this
        have e' : A ++ E :: M ++ Q :: C' = A ++ E :: (M ++ Q :: C') := by simp
        rw [e'] at c2
        obtain ⟨tq, bq, rfl | rfl⟩ := isOwn_cases hQown <;>
        obtain ⟨te, be, rfl | rfl⟩ := isOwn_cases hEown <;>
        · simp only [Ent.tag?, Option.some.injEq] at hQ hE
          subst hQ hE
          simp only [fee, Ent.base, Ent.srcLe] at c2 hsQ hsE hlt
          have h7 : uf * (bq - be) ≤ uf * (bq - tq.pos) + uf * (tq.pos - t0.pos) := by
            rw [← Nat.mul_add]; exact Nat.mul_le_mul_left uf (by omega)
          have h8 : uf * (te.pos - t0.pos) = 0 := by rw [h01]; simp
          omega
    · -- only `t2` is used
      obtain ⟨P₁, r1, r2, _⟩ := retag_one uf wr (Av := Av) t0 t2 (by omega) h0 P hP
        (by
          intro t ht
          rcases htags t ht with h | h | h
          · subst h; exact absurd ht hin1
          · exact Or.inl h
          · exact Or.inr h)
        (fun e b hm => (hN e b hm).2)
      exact ⟨P₁, r1, r2⟩
  · -- `t2` is not used
    obtain ⟨P₁, r1, r2, _⟩ := retag_one uf wr (Av := Av) t0 t1 (by omega) h0 P hP
      (by
        intro t ht
        rcases htags t ht with h | h | h
        · exact Or.inl h
        · subst h; exact absurd ht hin2
        · exact Or.inr h)
      (fun e b hm => (hN e b hm).1)
    refine ⟨P₁, r1, ?_⟩
    have h8 : uf * (t1.pos - t0.pos) = 0 := by rw [h01]; simp
    omega


/-! ## a disk checkpoint that is read at once -/

theorem dskN_to_ownD {cm a : Nat} {Av : Tag → Prop} (A C : List Ent) (e b : Nat)
    (hP : PlanOk cm a Av (A ++ .dskN e b :: C)) :
    PlanOk cm a Av (A ++ .ownD (.disk e) b :: C) ∧
      val uf wr cm (A ++ .ownD (.disk e) b :: C) a ≤ val uf wr cm (A ++ .dskN e b :: C) a + wr ∧
      tags (A ++ .ownD (.disk e) b :: C) = tags (A ++ .dskN e b :: C) := by
  have hpw := bases_pairwise hP.seq
  have hA : ∀ X ∈ A, X.base ≤ b := by
    intro X hX
    rw [List.pairwise_append] at hpw
    have := hpw.2.2 X hX (.dskN e b) (by simp)
    exact le_of_lt this
  have htags : tags (A ++ .ownD (.disk e) b :: C) = tags (A ++ .dskN e b :: C) := by
    rw [tags_replace, tags_replace]; rfl
  have := replace_entry uf wr (Av' := Av) A C (.dskN e b) (.ownD (.disk e) b) hP rfl rfl
    (by have := hP.src (.dskN e b) (by simp); exact this) (by simp [Ent.isCh])
    (by
      have := cpLe_of_below A b hA
      simpa [cpStep, Ent.sets, Ent.base] using this)
    (by rw [htags]; exact hP.nodup) (by rw [htags]; exact hP.avail)
  refine ⟨this.1, ?_, htags⟩
  have hv := this.2
  have e1 : fee uf (cpAfter none A) (.dskN e b) = uf * (b - e) := rfl
  have e2 : fee uf (cpAfter none A) (.ownD (.disk e) b) = uf * (b - e) := rfl
  have e3 : (if (Ent.dskN e b).paysWr = true then wr else 0) = 0 := rfl
  have e4 : (if (Ent.ownD (.disk e) b).paysWr = true then wr else 0) = wr := rfl
  rw [e1, e2, e3, e4] at hv
  omega

/-! ## the disk checkpoints under a sweep move up by one place -/

def AllN (Ns : List Ent) : Prop := ∀ E ∈ Ns, ∃ e b, E = .dskN e b

def nextBase (rest : List Ent) (q : Nat) : Nat :=
  match rest with | [] => q | E :: _ => E.base

/-- every disk checkpoint is carried to the base of the next one, the last one to `q` -/
def shiftUp : List Ent → Nat → List Ent
  | [], _ => []
  | .dskN e _ :: rest, q => .dskN e (nextBase rest q) :: shiftUp rest q
  | E :: rest, q => E :: shiftUp rest q

theorem AllN.tail {E : Ent} {Ns : List Ent} (h : AllN (E :: Ns)) : AllN Ns :=
  fun X hX => h X (List.mem_cons_of_mem _ hX)

theorem shiftUp_seq : ∀ (Ns : List Ent) (q : Nat), AllN Ns → Ns ≠ [] →
    seqOf Ns ++ [(q, false)] = (nextBase Ns q, false) :: seqOf (shiftUp Ns q) := by
  intro Ns
  induction Ns with
  | nil => intro q _ h; exact absurd rfl h
  | cons N Ns ih =>
    intro q hall _
    obtain ⟨e, b, rfl⟩ := hall _ (List.mem_cons_self ..)
    cases Ns with
    | nil => rfl
    | cons N' Ns' =>
      have := ih q hall.tail (by simp)
      simp only [seqOf_cons, List.cons_append, shiftUp, nextBase, Ent.base, Ent.cons] at this ⊢
      rw [this]

theorem shiftUp_cp (Ns : List Ent) (q : Nat) (hall : AllN Ns) (cp : Option Nat) :
    cpAfter cp (shiftUp Ns q) = cp ∧ cpAfter cp Ns = cp := by
  induction Ns with
  | nil => exact ⟨rfl, rfl⟩
  | cons N Ns ih =>
    obtain ⟨e, b, rfl⟩ := hall _ (List.mem_cons_self ..)
    have := ih hall.tail
    simp only [shiftUp, cpAfter_cons, cpStep, Ent.sets, Bool.false_eq_true, if_false]
    exact this

theorem shiftUp_tags (Ns : List Ent) (q : Nat) (hall : AllN Ns) : tags (shiftUp Ns q) = tags Ns := by
  induction Ns with
  | nil => rfl
  | cons N Ns ih =>
    obtain ⟨e, b, rfl⟩ := hall _ (List.mem_cons_self ..)
    simp only [shiftUp, tags_cons, Ent.tag?]
    rw [ih hall.tail]

theorem shiftUp_wr (Ns : List Ent) (q : Nat) (hall : AllN Ns) :
    wrSum wr (shiftUp Ns q) = 0 ∧ wrSum wr Ns = 0 := by
  induction Ns with
  | nil => exact ⟨rfl, rfl⟩
  | cons N Ns ih =>
    obtain ⟨e, b, rfl⟩ := hall _ (List.mem_cons_self ..)
    have := ih hall.tail
    simp only [shiftUp, wrSum_cons, Ent.paysWr, Bool.false_eq_true, if_false]
    omega

theorem shiftUp_chain (Ns : List Ent) (q : Nat) (hall : AllN Ns) (cp : Option Nat) :
    ChainOk cp (shiftUp Ns q) := by
  induction Ns with
  | nil => trivial
  | cons N Ns ih =>
    obtain ⟨e, b, rfl⟩ := hall _ (List.mem_cons_self ..)
    simp only [shiftUp, ChainOk, Ent.isCh, Bool.false_eq_true, false_implies, true_and, cpStep,
      Ent.sets, if_false]
    exact ih hall.tail

/-- fees after the shift: the whole stretch from the first old base to `q` is paid once more -/
theorem shiftUp_fee : ∀ (Ns : List Ent) (q : Nat) (cp : Option Nat), AllN Ns → SrcLe Ns →
    (Ns ++ [Ent.chH q]).Pairwise (fun X Y => X.base < Y.base) →
    feeSum uf cp (shiftUp Ns q) = feeSum uf cp Ns + uf * (q - nextBase Ns q) ∧ SrcLe (shiftUp Ns q) := by
  intro Ns
  induction Ns with
  | nil => intro q cp _ _ _; simp [shiftUp, feeSum, nextBase, SrcLe]
  | cons N Ns ih =>
    intro q cp hall hsrc hpw
    obtain ⟨e, b, rfl⟩ := hall _ (List.mem_cons_self ..)
    have heb : e ≤ b := hsrc _ (List.mem_cons_self ..)
    rw [List.cons_append, List.pairwise_cons] at hpw
    obtain ⟨hlt, hpw'⟩ := hpw
    obtain ⟨i1, i2⟩ := ih q cp hall.tail (fun X hX => hsrc X (List.mem_cons_of_mem _ hX)) hpw'
    have hnb : b < nextBase Ns q := by
      cases Ns with
      | nil => exact hlt (.chH q) (by simp)
      | cons N' Ns' => exact hlt N' (by simp)
    have hnq : nextBase Ns q ≤ q := by
      cases Ns with
      | nil => exact le_refl _
      | cons N' Ns' =>
        have := (List.pairwise_cons.mp hpw').1 (.chH q) (by simp)
        exact le_of_lt this
    refine ⟨?_, ?_⟩
    · have hc1 : ∀ x, cpStep cp (.dskN e x) = cp := fun x => by simp [cpStep, Ent.sets]
      show fee uf cp (.dskN e (nextBase Ns q)) + feeSum uf (cpStep cp (.dskN e (nextBase Ns q))) (shiftUp Ns q) =
        fee uf cp (.dskN e b) + feeSum uf (cpStep cp (.dskN e b)) Ns + uf * (q - b)
      rw [hc1, hc1, i1]
      show uf * (nextBase Ns q - e) + (feeSum uf cp Ns + uf * (q - nextBase Ns q)) =
        uf * (b - e) + feeSum uf cp Ns + uf * (q - b)
      have e1 : uf * (nextBase Ns q - e) = uf * (b - e) + uf * (nextBase Ns q - b) := by
        rw [← Nat.mul_add]; congr 1; omega
      have e2 : uf * (q - b) = uf * (nextBase Ns q - b) + uf * (q - nextBase Ns q) := by
        rw [← Nat.mul_add]; congr 1; omega
      omega
    · intro X hX
      simp only [shiftUp, List.mem_cons] at hX
      rcases hX with rfl | hX
      · show e ≤ nextBase Ns q
        omega
      · exact i2 X hX


/-- the gaps when the chained entry `Y` above `B` and the disk checkpoints `Ns` is given up -/
theorem seq_remove_last (Ns : List Ent) (hNs : AllN Ns) (bB bY : Nat) (cB cY : Bool)
    (sC : List (Nat × Bool)) (a k : Nat)
    (h : SeqOk k ((bB, cB) :: (seqOf Ns ++ (bY, cY) :: sC)) a) :
    SeqOk k ((bB, cB) :: (seqOf (shiftUp Ns bY) ++ sC)) a ∧
      XiG uf wr k ((bB, cB) :: (seqOf (shiftUp Ns bY) ++ sC)) a ≤
        XiG uf wr k ((bB, cB) :: (seqOf Ns ++ (bY, cY) :: sC)) a + (wr + uf * (nextBase Ns bY - bB)) ∧
      (cB = true → XiG uf wr k ((bB, cB) :: (seqOf (shiftUp Ns bY) ++ sC)) a ≤
        XiG uf wr k ((bB, cB) :: (seqOf Ns ++ (bY, cY) :: sC)) a + uf * (nextBase Ns bY - bB)) := by
  cases Ns with
  | nil =>
    simp only [seqOf, List.map_nil, List.nil_append, shiftUp, nextBase] at h ⊢
    obtain ⟨r1, r2⟩ := XiG_remove_P2 uf wr k bB bY cB cY sC a h
    refine ⟨r1, r2, ?_⟩
    intro hc
    subst hc
    exact (XiG_remove_P1 uf wr k bB bY cY sC a h).2
  | cons N Ns' =>
    obtain ⟨e, p1, rfl⟩ := hNs _ (List.mem_cons_self ..)
    have hs := shiftUp_seq (.dskN e p1 :: Ns') bY hNs (by simp)
    have e1 : seqOf (.dskN e p1 :: Ns') ++ (bY, cY) :: sC
        = (p1, false) :: (seqOf Ns' ++ (bY, cY) :: sC) := rfl
    have e2 : seqOf (shiftUp (.dskN e p1 :: Ns') bY) = seqOf Ns' ++ [(bY, false)] := by
      have e3 : seqOf (.dskN e p1 :: Ns') ++ [(bY, false)] = (p1, false) :: (seqOf Ns' ++ [(bY, false)]) := rfl
      rw [e3] at hs
      have : nextBase (.dskN e p1 :: Ns') bY = p1 := rfl
      rw [this] at hs
      exact (List.cons.inj hs).2.symm
    have enb : nextBase (.dskN e p1 :: Ns') bY = p1 := rfl
    rw [e1] at h ⊢
    rw [e2, enb]
    have e4 : seqOf Ns' ++ [(bY, false)] ++ sC = seqOf Ns' ++ (bY, false) :: sC := by simp
    rw [e4]
    -- drop the flag of `Y`
    have hfl : FlagLe (seqOf Ns' ++ (bY, false) :: sC) (seqOf Ns' ++ (bY, cY) :: sC) := by
      generalize seqOf Ns' = L
      induction L with
      | nil => exact FlagLe.cons bY false cY sC sC (by simp) (FlagLe.refl sC)
      | cons p L ih => exact FlagLe.cons p.1 p.2 p.2 _ _ (fun h => h) ih
    have hfl2 : FlagLe ((bB, cB) :: (seqOf Ns' ++ (bY, false) :: sC))
        ((bB, cB) :: (seqOf Ns' ++ (bY, cY) :: sC)) :=
      FlagLe.cons bB cB cB _ _ (fun h => h) hfl
    obtain ⟨r1, r2⟩ := XiG_remove_P2 uf wr k bB p1 cB false (seqOf Ns' ++ (bY, cY) :: sC) a h
    obtain ⟨m1, m2⟩ := XiG_mono uf wr _ _ k k a (le_refl _) hfl2 r1
    refine ⟨m1, by omega, ?_⟩
    intro hc
    subst hc
    have := (XiG_remove_P1 uf wr k bB p1 false (seqOf Ns' ++ (bY, cY) :: sC) a h).2
    omega

theorem nextBase_bounds (Ns : List Ent) (B Y : Ent)
    (hpw : (B :: Ns ++ [Y]).Pairwise (fun X Y => X.base < Y.base)) :
    B.base < nextBase Ns Y.base ∧ nextBase Ns Y.base ≤ Y.base := by
  cases Ns with
  | nil =>
    simp only [List.cons_append, List.nil_append, List.pairwise_cons] at hpw
    exact ⟨hpw.1 Y (by simp), le_refl _⟩
  | cons N Ns' =>
    simp only [List.cons_append, List.pairwise_cons] at hpw
    exact ⟨hpw.1 N (by simp), le_of_lt (hpw.2.1 Y (by simp))⟩

/-- **The last entry of a sweep is given up**: the disk checkpoints passed by the sweep move up. -/
theorem remove_last {cm a : Nat} {Av : Tag → Prop} (A Ns C : List Ent) (B Y : Ent)
    (hP : PlanOk cm a Av (A ++ B :: Ns ++ Y :: C)) (hB : B.sets = true) (hNs : AllN Ns)
    (hY : Y.isCh = true) (hC : NoChainHead C) :
    PlanOk cm a Av (A ++ B :: shiftUp Ns Y.base ++ C) ∧
      val uf wr cm (A ++ B :: shiftUp Ns Y.base ++ C) a + (if Y.paysWr then wr else 0) ≤
        val uf wr cm (A ++ B :: Ns ++ Y :: C) a + wr ∧
      (B.cons = true → val uf wr cm (A ++ B :: shiftUp Ns Y.base ++ C) a + (if Y.paysWr then wr else 0) ≤
        val uf wr cm (A ++ B :: Ns ++ Y :: C) a) := by
  have hpw := bases_pairwise hP.seq
  -- order facts
  have hpw2 : (B :: Ns ++ [Y]).Pairwise (fun X Y => X.base < Y.base) := by
    have e : A ++ B :: Ns ++ Y :: C = A ++ ((B :: Ns ++ [Y]) ++ C) := by simp
    rw [e, List.pairwise_append] at hpw
    have := hpw.2.1
    rw [List.pairwise_append] at this
    exact this.1
  obtain ⟨hnb1, hnb2⟩ := nextBase_bounds Ns B Y hpw2
  have hpwN : (Ns ++ [Ent.chH Y.base]).Pairwise (fun X Y => X.base < Y.base) := by
    rw [List.cons_append, List.pairwise_cons] at hpw2
    have h2 := hpw2.2
    rw [List.pairwise_append] at h2 ⊢
    refine ⟨h2.1, List.pairwise_singleton _ _, ?_⟩
    intro x hx y hy
    rw [List.mem_singleton] at hy
    subst hy
    exact h2.2.2 x hx Y (by simp)
  have hsrcN : SrcLe Ns := fun X hX => hP.src X (by simp [hX])
  -- the pieces of the old plan
  have hchain := hP.chain
  have eold : A ++ B :: Ns ++ Y :: C = A ++ (B :: (Ns ++ (Y :: C))) := by simp
  have enew : A ++ B :: shiftUp Ns Y.base ++ C = A ++ (B :: (shiftUp Ns Y.base ++ C)) := by simp
  rw [eold] at hchain
  rw [ChainOk_append, ChainOk, ChainOk_append, ChainOk] at hchain
  obtain ⟨hcA, hcB, _, _, hcC⟩ := hchain
  have hstepB : cpStep (cpAfter none A) B = some B.base := by unfold cpStep; rw [if_pos hB]
  rw [hstepB, (shiftUp_cp Ns Y.base hNs _).2] at hcC
  have hstepY : cpStep (some B.base) Y = some Y.base := by
    unfold cpStep
    have : Y.sets = true := by cases Y <;> simp_all [Ent.isCh, Ent.sets]
    rw [if_pos this]
  rw [hstepY] at hcC
  obtain ⟨nf1, nf2, _⟩ := feeSum_noChainHead uf C (some Y.base) (some B.base) hC
  obtain ⟨sf1, sf2⟩ := shiftUp_fee uf Ns Y.base (some B.base) hNs hsrcN hpwN
  -- sequences
  have hseqold : seqOf (A ++ B :: Ns ++ Y :: C) =
      seqOf A ++ ((B.base, B.cons) :: (seqOf Ns ++ (Y.base, Y.cons) :: seqOf C)) := by
    rw [eold, seqOf_append, seqOf_cons, seqOf_append, seqOf_cons]
  have hseqnew : seqOf (A ++ B :: shiftUp Ns Y.base ++ C) =
      seqOf A ++ ((B.base, B.cons) :: (seqOf (shiftUp Ns Y.base) ++ seqOf C)) := by
    rw [enew, seqOf_append, seqOf_cons, seqOf_append]
  have hseq := hP.seq
  rw [hseqold] at hseq
  have hpre2 := seq_prefix uf wr (wr + uf * (nextBase Ns Y.base - B.base))
    ((B.base, B.cons) :: (seqOf Ns ++ (Y.base, Y.cons) :: seqOf C))
    ((B.base, B.cons) :: (seqOf (shiftUp Ns Y.base) ++ seqOf C)) a (fun _ => rfl) (by simp)
    (fun k hk => by
      obtain ⟨q1, q2, _⟩ := seq_remove_last uf wr Ns hNs B.base Y.base B.cons Y.cons (seqOf C) a k hk
      exact ⟨q1, q2⟩) (seqOf A) cm hseq
  -- fees
  have hfee : feeSum uf none (A ++ B :: Ns ++ Y :: C) =
      feeSum uf none (A ++ B :: shiftUp Ns Y.base ++ C) + uf * (nextBase Ns Y.base - B.base) := by
    rw [eold, enew, feeSum_append, feeSum_append, feeSum, feeSum, hstepB, feeSum_append, feeSum_append,
      feeSum, (shiftUp_cp Ns Y.base hNs _).2, (shiftUp_cp Ns Y.base hNs _).1, hstepY, sf1, nf1]
    have hfy : fee uf (some B.base) Y = uf * (Y.base - B.base) := by
      cases Y <;> simp_all [Ent.isCh, fee, Ent.base]
    rw [hfy]
    have e1 : uf * (Y.base - B.base) = uf * (nextBase Ns Y.base - B.base) + uf * (Y.base - nextBase Ns Y.base) := by
      rw [← Nat.mul_add]; congr 1; omega
    omega
  have hwr : wrSum wr (A ++ B :: Ns ++ Y :: C) =
      wrSum wr (A ++ B :: shiftUp Ns Y.base ++ C) + (if Y.paysWr then wr else 0) := by
    rw [eold, enew, wrSum_append, wrSum_append, wrSum_cons, wrSum_cons, wrSum_append, wrSum_append,
      wrSum_cons, (shiftUp_wr wr Ns Y.base hNs).1, (shiftUp_wr wr Ns Y.base hNs).2]
    omega
  have htags : tags (A ++ B :: shiftUp Ns Y.base ++ C) = tags (A ++ B :: Ns ++ Y :: C) := by
    rw [eold, enew, tags_append, tags_append, tags_cons, tags_cons, tags_append, tags_append, tags_cons,
      shiftUp_tags Ns Y.base hNs]
    have : Y.tag? = none := by cases Y <;> simp_all [Ent.isCh, Ent.tag?]
    rw [this]
    simp
  refine ⟨⟨by rw [hseqnew]; exact hpre2.1, ?_, ?_, ?_, by rw [htags]; exact hP.nodup,
    by rw [htags]; exact hP.avail⟩, ?_, ?_⟩
  · intro ha
    obtain ⟨X, rest, hX, hX0⟩ := hP.head ha
    cases A with
    | nil =>
      simp only [List.nil_append, List.cons_append, List.cons.injEq] at hX ⊢
      exact ⟨B, _, ⟨rfl, rfl⟩, by rw [hX.1]; exact hX0⟩
    | cons Z A' =>
      simp only [List.cons_append, List.cons.injEq] at hX ⊢
      exact ⟨Z, _, ⟨rfl, rfl⟩, by rw [hX.1]; exact hX0⟩
  · intro X hX
    simp only [List.mem_append, List.mem_cons] at hX
    rcases hX with (hX | hX | hX) | hX
    · exact hP.src X (by simp [hX])
    · subst hX; exact hP.src _ (by simp)
    · exact sf2 X hX
    · exact hP.src X (by simp [hX])
  · rw [enew, ChainOk_append, ChainOk, ChainOk_append, hstepB, (shiftUp_cp Ns Y.base hNs _).1]
    exact ⟨hcA, hcB, shiftUp_chain Ns Y.base hNs _, nf2 hcC⟩
  · have h2 := hpre2.2
    rw [← hseqold, ← hseqnew] at h2
    unfold val
    omega
  · intro hBc
    have hpre1 := seq_prefix uf wr (uf * (nextBase Ns Y.base - B.base))
      ((B.base, B.cons) :: (seqOf Ns ++ (Y.base, Y.cons) :: seqOf C))
      ((B.base, B.cons) :: (seqOf (shiftUp Ns Y.base) ++ seqOf C)) a (fun _ => rfl) (by simp)
      (fun k hk => by
        obtain ⟨q1, _, q3⟩ := seq_remove_last uf wr Ns hNs B.base Y.base B.cons Y.cons (seqOf C) a k hk
        exact ⟨q1, q3 hBc⟩) (seqOf A) cm hseq
    have h2 := hpre1.2
    rw [← hseqold, ← hseqnew] at h2
    unfold val
    omega


/-! ## entries that differ in kind only -/

/-- same base, same fee, same effect on the sweep pointer -/
def SameFee (E E' : Ent) : Prop :=
  E.base = E'.base ∧ E.sets = E'.sets ∧ E.isCh = E'.isCh ∧ E.srcLe = E'.srcLe ∧ E.tag? = E'.tag? ∧
    ∀ cp, fee uf cp E = fee uf cp E'

theorem SameFee.refl (E : Ent) : SameFee uf E E := ⟨rfl, rfl, rfl, rfl, rfl, fun _ => rfl⟩

theorem sameFee_list : ∀ (P P' : List Ent), List.Forall₂ (SameFee uf) P P' → ∀ cp,
    feeSum uf cp P = feeSum uf cp P' ∧ (ChainOk cp P ↔ ChainOk cp P') ∧ tags P = tags P' ∧
      (SrcLe P → SrcLe P') := by
  intro P P' h
  induction h with
  | nil => intro cp; exact ⟨rfl, Iff.rfl, rfl, fun h => h⟩
  | @cons E E' P P' hE _ ih =>
    intro cp
    obtain ⟨hb, hs, hc, hsl, ht, hf⟩ := hE
    have hstep : cpStep cp E = cpStep cp E' := by unfold cpStep; rw [hs, hb]
    obtain ⟨i1, i2, i3, i4⟩ := ih (cpStep cp E)
    refine ⟨?_, ?_, ?_, ?_⟩
    · simp only [feeSum]; rw [hf cp, ← hstep, i1]
    · simp only [ChainOk]; rw [hc, ← hstep, i2]
    · rw [tags_cons, tags_cons, ht, i3]
    · intro hsrc X hX
      rcases List.mem_cons.mp hX with rfl | hX
      · rw [← hsl]; exact hsrc E (List.mem_cons_self ..)
      · exact i4 (fun Y hY => hsrc Y (List.mem_cons_of_mem _ hY)) X hX

theorem forall₂_refl_sameFee (L : List Ent) : List.Forall₂ (SameFee uf) L L := by
  induction L with
  | nil => exact List.Forall₂.nil
  | cons E L ih => exact List.Forall₂.cons (SameFee.refl uf E) ih

/-- `B` consuming, not paying -/
def Ent.toD : Ent → Ent
  | .ownH t b => .ownD t b | .chH b => .chD b | E => E

def Ent.toH : Ent → Ent
  | .ownD t b => .ownH t b | .chD b => .chH b | E => E

theorem sameFee_toD (E : Ent) : SameFee uf E E.toD := by
  cases E <;> exact ⟨rfl, rfl, rfl, rfl, rfl, fun _ => rfl⟩

theorem sameFee_toH (E : Ent) : SameFee uf E E.toH := by
  cases E <;> exact ⟨rfl, rfl, rfl, rfl, rfl, fun _ => rfl⟩

theorem seqOf_allN (Ns : List Ent) (h : AllN Ns) : ∀ p ∈ seqOf Ns, p.2 = false := by
  intro p hp
  unfold seqOf at hp
  obtain ⟨E, hE, rfl⟩ := List.mem_map.mp hp
  obtain ⟨e, b, rfl⟩ := h E hE
  rfl

/-- **Swap**: a consuming entry followed (in its sweep) by a disk entry: the lower one goes to disk,
the upper one is held in RAM. -/
theorem swap_good {cm a : Nat} {Av : Tag → Prop} (A Ns C : List Ent) (B : Ent) (q : Nat)
    (hP : PlanOk cm a Av (A ++ B :: Ns ++ .chD q :: C)) (hB : B.cons = true) (hNs : AllN Ns) :
    PlanOk cm a Av (A ++ B.toD :: Ns ++ .chH q :: C) ∧
      val uf wr cm (A ++ B.toD :: Ns ++ .chH q :: C) a ≤ val uf wr cm (A ++ B :: Ns ++ .chD q :: C) a := by
  have eold : A ++ B :: Ns ++ .chD q :: C = A ++ (B :: (Ns ++ (.chD q :: C))) := by simp
  have enew : A ++ B.toD :: Ns ++ .chH q :: C = A ++ (B.toD :: (Ns ++ (.chH q :: C))) := by simp
  have hf2 : List.Forall₂ (SameFee uf) (A ++ (B :: (Ns ++ (.chD q :: C))))
      (A ++ (B.toD :: (Ns ++ (.chH q :: C)))) := by
    apply List.rel_append (forall₂_refl_sameFee uf A)
    apply List.Forall₂.cons (sameFee_toD uf B)
    apply List.rel_append (forall₂_refl_sameFee uf Ns)
    exact List.Forall₂.cons (sameFee_toH uf (.chD q)) (forall₂_refl_sameFee uf C)
  obtain ⟨f1, f2, f3, f4⟩ := sameFee_list uf _ _ hf2 none
  have hBc : B.toD.cons = false ∧ B.toD.base = B.base := by
    cases B <;> simp_all [Ent.cons, Ent.toD, Ent.base]
  have hseqold : seqOf (A ++ B :: Ns ++ .chD q :: C) =
      seqOf A ++ ((B.base, true) :: seqOf Ns ++ (q, false) :: seqOf C) := by
    rw [eold, seqOf_append, seqOf_cons, seqOf_append, seqOf_cons, hB]; rfl
  have hseqnew : seqOf (A ++ B.toD :: Ns ++ .chH q :: C) =
      seqOf A ++ ((B.base, false) :: seqOf Ns ++ (q, true) :: seqOf C) := by
    rw [enew, seqOf_append, seqOf_cons, seqOf_append, seqOf_cons, hBc.1, hBc.2]; rfl
  have hseq := hP.seq
  rw [hseqold] at hseq
  have hpre := seq_prefix uf wr 0 ((B.base, true) :: seqOf Ns ++ (q, false) :: seqOf C)
    ((B.base, false) :: seqOf Ns ++ (q, true) :: seqOf C) a (fun _ => rfl) (by simp)
    (fun k hk => by
      obtain ⟨q1, q2⟩ := XiG_bubble uf wr (seqOf Ns) (seqOf_allN Ns hNs) k B.base q (seqOf C) a hk
      exact ⟨q1, by omega⟩) (seqOf A) cm hseq
  have hwr : wrSum wr (A ++ B.toD :: Ns ++ .chH q :: C) = wrSum wr (A ++ B :: Ns ++ .chD q :: C) := by
    rw [eold, enew, wrSum_append, wrSum_append, wrSum_cons, wrSum_cons, wrSum_append, wrSum_append,
      wrSum_cons, wrSum_cons]
    have h1 : B.paysWr = false ∧ B.toD.paysWr = true := by
      cases B <;> simp_all [Ent.cons, Ent.toD, Ent.paysWr]
    rw [h1.1, h1.2]
    simp only [Ent.paysWr, if_true, Bool.false_eq_true, if_false]
    omega
  refine ⟨⟨by rw [hseqnew]; exact hpre.1, ?_, ?_, ?_, ?_, ?_⟩, ?_⟩
  · intro ha
    obtain ⟨X, rest, hX, hX0⟩ := hP.head ha
    cases A with
    | nil =>
      simp only [List.nil_append, List.cons_append, List.cons.injEq] at hX ⊢
      exact ⟨B.toD, _, ⟨rfl, rfl⟩, by rw [hBc.2, hX.1]; exact hX0⟩
    | cons Z A' =>
      simp only [List.cons_append, List.cons.injEq] at hX ⊢
      exact ⟨Z, _, ⟨rfl, rfl⟩, by rw [hX.1]; exact hX0⟩
  · rw [enew]; exact f4 (by rw [← eold]; exact hP.src)
  · rw [enew]; exact f2.mp (by rw [← eold]; exact hP.chain)
  · rw [enew, ← f3, ← eold]; exact hP.nodup
  · rw [enew, ← f3, ← eold]; exact hP.avail
  · unfold val
    have h2 := hpre.2
    rw [← hseqold, ← hseqnew] at h2
    rw [hwr]
    have : feeSum uf none (A ++ B.toD :: Ns ++ .chH q :: C) = feeSum uf none (A ++ B :: Ns ++ .chD q :: C) := by
      rw [eold, enew]; exact f1.symm
    omega

/-! ## a disk checkpoint read at its turn instead of at once -/

theorem flagLe_append {A' A C' C : List (Nat × Bool)} (h1 : FlagLe A' A) (h2 : FlagLe C' C) :
    FlagLe (A' ++ C') (A ++ C) := by
  induction h1 with
  | nil => exact h2
  | cons b c' c s' s hc _ ih => exact FlagLe.cons b c' c _ _ hc ih

theorem own_to_dskN {cm a : Nat} {Av : Tag → Prop} (A C : List Ent) (E : Ent) (e b : Nat)
    (hE : E = .ownH (.disk e) b ∨ E = .ownD (.disk e) b)
    (hP : PlanOk cm a Av (A ++ E :: C)) (hC : NoChainHead C) :
    PlanOk cm a Av (A ++ .dskN e b :: C) ∧
      val uf wr cm (A ++ .dskN e b :: C) a + (if E.paysWr then wr else 0) ≤ val uf wr cm (A ++ E :: C) a := by
  have hEb : E.base = b ∧ E.tag? = some (.disk e) ∧ E.srcLe = (e ≤ b) ∧ E.sets = true ∧
      ∀ cp, fee uf cp E = uf * (b - e) := by
    rcases hE with rfl | rfl <;> exact ⟨rfl, rfl, rfl, rfl, fun _ => rfl⟩
  obtain ⟨hb, ht, hsl, hs, hf⟩ := hEb
  have hfl : FlagLe (seqOf (A ++ .dskN e b :: C)) (seqOf (A ++ E :: C)) := by
    rw [seqOf_append, seqOf_append, seqOf_cons, seqOf_cons]
    apply flagLe_append (FlagLe.refl _)
    rw [hb]
    exact FlagLe.cons b false E.cons _ _ (by simp) (FlagLe.refl _)
  obtain ⟨m1, m2⟩ := XiG_mono uf wr _ _ cm cm a (le_refl _) hfl hP.seq
  have hchain := hP.chain
  rw [ChainOk_append, ChainOk] at hchain
  obtain ⟨hcA, _, hcC⟩ := hchain
  have hstep : cpStep (cpAfter none A) E = some b := by unfold cpStep; rw [if_pos hs, hb]
  have hstepN : cpStep (cpAfter none A) (.dskN e b) = cpAfter none A := by simp [cpStep, Ent.sets]
  rw [hstep] at hcC
  obtain ⟨nf1, nf2, _⟩ := feeSum_noChainHead uf C (some b) (cpAfter none A) hC
  have htags : tags (A ++ .dskN e b :: C) = tags (A ++ E :: C) := by
    rw [tags_replace, tags_replace, ht]; rfl
  refine ⟨⟨m1, ?_, ?_, ?_, by rw [htags]; exact hP.nodup, by rw [htags]; exact hP.avail⟩, ?_⟩
  · intro ha
    obtain ⟨X, rest, hX, hX0⟩ := hP.head ha
    cases A with
    | nil =>
      simp only [List.nil_append, List.cons.injEq] at hX ⊢
      exact ⟨_, C, ⟨rfl, rfl⟩, by show b = 0; rw [← hb, hX.1]; exact hX0⟩
    | cons Z A' =>
      simp only [List.cons_append, List.cons.injEq] at hX ⊢
      exact ⟨Z, _, ⟨rfl, rfl⟩, by rw [hX.1]; exact hX0⟩
  · intro X hX
    simp only [List.mem_append, List.mem_cons] at hX
    rcases hX with hX | rfl | hX
    · exact hP.src X (by simp [hX])
    · have := hP.src E (by simp)
      rw [hsl] at this
      exact this
    · exact hP.src X (by simp [hX])
  · rw [ChainOk_append, ChainOk, hstepN]
    exact ⟨hcA, by simp [Ent.isCh], nf2 hcC⟩
  · rw [val_split, val_split, hstep, hstepN, hf, nf1]
    have : fee uf (cpAfter none A) (.dskN e b) = uf * (b - e) := rfl
    rw [this]
    have : (if (Ent.dskN e b).paysWr = true then wr else 0) = 0 := rfl
    rw [this]
    omega


/-! ## counting, scanning -/

def Tag.isDisk : Tag → Bool
  | .disk _ => true | _ => false

def Ent.isDN : Ent → Bool
  | .dskN _ _ => true | .chD _ => true | _ => false

/-- an own entry whose tag is not a disk checkpoint -/
def Ent.isRamHead : Ent → Bool
  | .ownH t _ => !t.isDisk | .ownD t _ => !t.isDisk | _ => false

def consCount (P : List Ent) : Nat := (P.filter Ent.cons).length
def heads (P : List Ent) : Nat := (P.filter Ent.isRamHead).length

theorem consCount_append (A B : List Ent) : consCount (A ++ B) = consCount A + consCount B := by
  unfold consCount; rw [List.filter_append, List.length_append]
theorem heads_append (A B : List Ent) : heads (A ++ B) = heads A + heads B := by
  unfold heads; rw [List.filter_append, List.length_append]
theorem consCount_cons (E : Ent) (A : List Ent) :
    consCount (E :: A) = (if E.cons then 1 else 0) + consCount A := by
  unfold consCount; rw [List.filter_cons]; split <;> simp <;> omega
theorem heads_cons (E : Ent) (A : List Ent) :
    heads (E :: A) = (if E.isRamHead then 1 else 0) + heads A := by
  unfold heads; rw [List.filter_cons]; split <;> simp <;> omega

theorem consCount_eq_countT (P : List Ent) : countT (seqOf P) = consCount P := by
  induction P with
  | nil => rfl
  | cons E P ih => rw [seqOf_cons, countT_cons, consCount_cons, ih]

theorem allN_counts (Ns : List Ent) (h : AllN Ns) : consCount Ns = 0 ∧ heads Ns = 0 := by
  induction Ns with
  | nil => exact ⟨rfl, rfl⟩
  | cons N Ns ih =>
    obtain ⟨e, b, rfl⟩ := h _ (List.mem_cons_self ..)
    have := ih h.tail
    rw [consCount_cons, heads_cons]
    simp [Ent.cons, Ent.isRamHead, this]

theorem dn_counts (T : List Ent) (h : ∀ X ∈ T, X.isDN = true) : consCount T = 0 ∧ heads T = 0 := by
  induction T with
  | nil => exact ⟨rfl, rfl⟩
  | cons X T ih =>
    have := ih (fun Y hY => h Y (List.mem_cons_of_mem _ hY))
    have hX := h X (List.mem_cons_self ..)
    rw [consCount_cons, heads_cons]
    cases X <;> simp_all [Ent.cons, Ent.isRamHead, Ent.isDN]

theorem allN_isDN {Ns : List Ent} (h : AllN Ns) : ∀ X ∈ Ns, X.isDN = true := by
  intro X hX
  obtain ⟨e, b, rfl⟩ := h X hX
  rfl

theorem shiftUp_allN (Ns : List Ent) (q : Nat) (h : AllN Ns) : AllN (shiftUp Ns q) := by
  induction Ns with
  | nil => intro X hX; cases hX
  | cons N Ns ih =>
    obtain ⟨e, b, rfl⟩ := h _ (List.mem_cons_self ..)
    intro X hX
    simp only [shiftUp, List.mem_cons] at hX
    rcases hX with rfl | hX
    · exact ⟨_, _, rfl⟩
    · exact ih h.tail X hX

theorem shiftUp_length (Ns : List Ent) (q : Nat) : (shiftUp Ns q).length = Ns.length := by
  induction Ns with
  | nil => rfl
  | cons N Ns ih => cases N <;> simp [shiftUp, ih]

theorem noChainHead_append {Ns C : List Ent} (h : AllN Ns) (hC : NoChainHead C) : NoChainHead (Ns ++ C) := by
  induction Ns with
  | nil => exact hC
  | cons N Ns ih =>
    obtain ⟨e, b, rfl⟩ := h _ (List.mem_cons_self ..)
    exact ih h.tail

/-- the last entry with a property -/
theorem exists_last (p : Ent → Bool) : ∀ (L : List Ent), (∃ X ∈ L, p X = true) →
    ∃ A B T, L = A ++ B :: T ∧ p B = true ∧ ∀ X ∈ T, p X = false := by
  intro L
  induction L with
  | nil => rintro ⟨X, hX, _⟩; cases hX
  | cons Y L ih =>
    intro h
    by_cases hL : ∃ X ∈ L, p X = true
    · obtain ⟨A, B, T, rfl, hB, hT⟩ := ih hL
      exact ⟨Y :: A, B, T, rfl, hB, hT⟩
    · have hall : ∀ X ∈ L, p X = false := by
        intro X hX
        cases hp : p X with
        | false => rfl
        | true => exact absurd ⟨X, hX, hp⟩ hL
      obtain ⟨X, hX, hpX⟩ := h
      rcases List.mem_cons.mp hX with rfl | hX'
      · exact ⟨[], X, L, rfl, hpX, hall⟩
      · rw [hall X hX'] at hpX; cases hpX

theorem not_sets_isN {E : Ent} (h : E.sets = false) : ∃ e b, E = .dskN e b := by
  cases E <;> simp_all [Ent.sets]

/-- the entry that ends the sweep is given up; what lies between stays disk-like -/
theorem drop_top {cm a : Nat} {Av : Tag → Prop} (A T C : List Ent) (B Y : Ent)
    (hP : PlanOk cm a Av (A ++ B :: T ++ Y :: C)) (hB : B.sets = true)
    (hT : ∀ X ∈ T, X.isDN = true) (hY : Y.isCh = true) (hC : NoChainHead C) :
    ∃ T', (∀ X ∈ T', X.isDN = true) ∧ T'.length = T.length ∧ PlanOk cm a Av (A ++ B :: T' ++ C) ∧
      val uf wr cm (A ++ B :: T' ++ C) a + (if Y.paysWr then wr else 0) ≤
        val uf wr cm (A ++ B :: T ++ Y :: C) a + wr := by
  obtain ⟨A₂, B₂, Ns₂, hdec, hB₂, hNs₂⟩ := exists_last Ent.sets (B :: T) ⟨B, by simp, hB⟩
  have hNs : AllN Ns₂ := fun X hX => not_sets_isN (hNs₂ X hX)
  have e1 : A ++ B :: T ++ Y :: C = (A ++ A₂) ++ B₂ :: Ns₂ ++ Y :: C := by
    have : A ++ B :: T ++ Y :: C = A ++ (B :: T) ++ Y :: C := by simp
    rw [this, hdec]; simp
  rw [e1] at hP
  obtain ⟨r1, r2, _⟩ := remove_last uf wr (A ++ A₂) Ns₂ C B₂ Y hP hB₂ hNs hY hC
  cases A₂ with
  | nil =>
    simp only [List.nil_append, List.cons.injEq] at hdec
    obtain ⟨rfl, rfl⟩ := hdec
    refine ⟨shiftUp T Y.base, allN_isDN (shiftUp_allN T Y.base hNs), shiftUp_length T Y.base, ?_, ?_⟩
    · simpa using r1
    · rw [e1]; simpa using r2
  | cons Z A₂' =>
    simp only [List.cons_append, List.cons.injEq] at hdec
    obtain ⟨rfl, rfl⟩ := hdec
    refine ⟨A₂' ++ B₂ :: shiftUp Ns₂ Y.base, ?_, ?_, ?_, ?_⟩
    · intro X hX
      simp only [List.mem_append, List.mem_cons] at hX
      rcases hX with hX | rfl | hX
      · exact hT X (by simp [hX])
      · exact hT X (by simp)
      · exact allN_isDN (shiftUp_allN Ns₂ Y.base hNs) X hX
    · simp [shiftUp_length]
    · have e2 : A ++ B :: (A₂' ++ B₂ :: shiftUp Ns₂ Y.base) ++ C
          = A ++ B :: A₂' ++ B₂ :: shiftUp Ns₂ Y.base ++ C := by simp
      rw [e2]; exact r1
    · have e2 : A ++ B :: (A₂' ++ B₂ :: shiftUp Ns₂ Y.base) ++ C
          = A ++ B :: A₂' ++ B₂ :: shiftUp Ns₂ Y.base ++ C := by simp
      rw [e2, e1]; exact r2

/-- all chained disk entries of a sweep are given up -/
theorem strip_tail {cm a : Nat} {Av : Tag → Prop} : ∀ (n : Nat) (T : List Ent), T.length = n →
    ∀ (A C : List Ent) (B : Ent), B.sets = true → (∀ X ∈ T, X.isDN = true) → NoChainHead C →
    PlanOk cm a Av (A ++ B :: T ++ C) →
    ∃ Ns', AllN Ns' ∧ PlanOk cm a Av (A ++ B :: Ns' ++ C) ∧
      val uf wr cm (A ++ B :: Ns' ++ C) a ≤ val uf wr cm (A ++ B :: T ++ C) a := by
  intro n
  induction n with
  | zero =>
    intro T hlen A C B _ _ _ hP
    have : T = [] := List.eq_nil_of_length_eq_zero hlen
    subst this
    exact ⟨[], fun X hX => absurd hX List.not_mem_nil, hP, le_refl _⟩
  | succ n ih =>
    intro T hlen A C B hB hT hC hP
    rcases List.eq_nil_or_concat T with h0 | ⟨T₁, X, hTX⟩
    · subst h0; simp at hlen
    rw [List.concat_eq_append] at hTX
    subst hTX
    have hlen1 : T₁.length = n := by simp at hlen; omega
    have hT1 : ∀ Y ∈ T₁, Y.isDN = true := fun Y hY => hT Y (by simp [hY])
    have hX := hT X (by simp)
    cases X with
    | dskN e b =>
      have e1 : A ++ B :: (T₁ ++ [Ent.dskN e b]) ++ C = A ++ B :: T₁ ++ (Ent.dskN e b :: C) := by simp
      rw [e1] at hP
      obtain ⟨Ns', h1, h2, h3⟩ := ih T₁ hlen1 A (Ent.dskN e b :: C) B hB hT1 hC hP
      refine ⟨Ns' ++ [Ent.dskN e b], ?_, ?_, ?_⟩
      · intro Y hY
        rcases List.mem_append.mp hY with hY | hY
        · exact h1 Y hY
        · rw [List.mem_singleton] at hY; exact ⟨e, b, hY⟩
      · have e2 : A ++ B :: (Ns' ++ [Ent.dskN e b]) ++ C = A ++ B :: Ns' ++ (Ent.dskN e b :: C) := by simp
        rw [e2]; exact h2
      · have e2 : A ++ B :: (Ns' ++ [Ent.dskN e b]) ++ C = A ++ B :: Ns' ++ (Ent.dskN e b :: C) := by simp
        rw [e2, e1]; exact h3
    | chD q =>
      have e1 : A ++ B :: (T₁ ++ [Ent.chD q]) ++ C = A ++ B :: T₁ ++ Ent.chD q :: C := by simp
      rw [e1] at hP
      obtain ⟨T', d1, d2, d3, d4⟩ := drop_top uf wr A T₁ C B (.chD q) hP hB hT1 rfl hC
      obtain ⟨Ns', h1, h2, h3⟩ := ih T' (by omega) A C B hB d1 hC d3
      refine ⟨Ns', h1, h2, ?_⟩
      rw [e1]
      simp only [Ent.paysWr, if_true] at d4
      omega
    | ownH _ _ => simp [Ent.isDN] at hX
    | ownD _ _ => simp [Ent.isDN] at hX
    | chH _ => simp [Ent.isDN] at hX


theorem cons_sets {E : Ent} (h : E.cons = true) : E.sets = true := by
  cases E <;> simp_all [Ent.cons, Ent.sets]

theorem toD_counts {B : Ent} (h : B.cons = true) :
    B.toD.cons = false ∧ B.toD.isRamHead = B.isRamHead := by
  cases B <;> simp_all [Ent.cons, Ent.toD, Ent.isRamHead]

/-- a consuming entry, then (in the same sweep) disk entries, then a consuming entry at the end:
one of the two RAM units is saved -/
theorem chain_tail {cm a : Nat} {Av : Tag → Prop} : ∀ (T A Ns C : List Ent) (B : Ent) (q : Nat),
    B.cons = true → AllN Ns → (∀ X ∈ T, X.isDN = true) → NoChainHead C →
    PlanOk cm a Av (A ++ B :: Ns ++ T ++ .chH q :: C) →
    ∃ Q₁, PlanOk cm a Av (Q₁ ++ C) ∧
      val uf wr cm (Q₁ ++ C) a ≤ val uf wr cm (A ++ B :: Ns ++ T ++ .chH q :: C) a ∧
      consCount Q₁ + 1 = consCount (A ++ B :: Ns ++ T ++ [.chH q]) ∧
      heads Q₁ = heads (A ++ B :: Ns ++ T ++ [.chH q]) := by
  intro T
  induction T with
  | nil =>
    intro A Ns C B q hB hNs _ hC hP
    simp only [List.append_nil] at hP ⊢
    obtain ⟨r1, _, r3⟩ := remove_last uf wr A Ns C B (.chH q) hP (cons_sets hB) hNs rfl hC
    refine ⟨A ++ B :: shiftUp Ns q, r1, ?_, ?_, ?_⟩
    · have := r3 hB
      simp only [Ent.paysWr, Bool.false_eq_true, if_false, Nat.add_zero] at this
      exact this
    · have h1 := allN_counts _ (shiftUp_allN Ns q hNs)
      have h2 := allN_counts _ hNs
      simp only [consCount_append, consCount_cons, h1.1, h2.1, Ent.cons]
      simp [consCount]
    · have h1 := allN_counts _ (shiftUp_allN Ns q hNs)
      have h2 := allN_counts _ hNs
      simp only [heads_append, heads_cons, h1.2, h2.2, Ent.isRamHead]
      simp [heads]
  | cons X T ih =>
    intro A Ns C B q hB hNs hT hC hP
    have hX := hT X (List.mem_cons_self ..)
    have hT' : ∀ Y ∈ T, Y.isDN = true := fun Y hY => hT Y (List.mem_cons_of_mem _ hY)
    cases X with
    | dskN e b =>
      have e1 : A ++ B :: Ns ++ (Ent.dskN e b :: T) ++ Ent.chH q :: C
          = A ++ B :: (Ns ++ [Ent.dskN e b]) ++ T ++ Ent.chH q :: C := by simp
      have e2 : A ++ B :: Ns ++ (Ent.dskN e b :: T) ++ [Ent.chH q]
          = A ++ B :: (Ns ++ [Ent.dskN e b]) ++ T ++ [Ent.chH q] := by simp
      rw [e1] at hP
      rw [e1, e2]
      apply ih A (Ns ++ [Ent.dskN e b]) C B q hB ?_ hT' hC hP
      intro Y hY
      rcases List.mem_append.mp hY with hY | hY
      · exact hNs Y hY
      · rw [List.mem_singleton] at hY; exact ⟨e, b, hY⟩
    | chD d =>
      have e1 : A ++ B :: Ns ++ (Ent.chD d :: T) ++ Ent.chH q :: C
          = A ++ B :: Ns ++ Ent.chD d :: (T ++ Ent.chH q :: C) := by simp
      rw [e1] at hP
      obtain ⟨s1, s2⟩ := swap_good uf wr A Ns (T ++ Ent.chH q :: C) B d hP hB hNs
      have e3 : A ++ B.toD :: Ns ++ Ent.chH d :: (T ++ Ent.chH q :: C)
          = (A ++ B.toD :: Ns) ++ Ent.chH d :: [] ++ T ++ Ent.chH q :: C := by simp
      rw [e3] at s1 s2
      obtain ⟨Q₁, q1, q2, q3, q4⟩ := ih (A ++ B.toD :: Ns) [] C (.chH d) q rfl
        (fun Y hY => absurd hY List.not_mem_nil) hT' hC s1
      have h2 := allN_counts _ hNs
      have h3 := toD_counts hB
      have c1 : consCount [Ent.chH d] = 1 := rfl
      have c2 : consCount (Ent.chD d :: T) = consCount T := by rw [consCount_cons]; simp [Ent.cons]
      have c3 : heads [Ent.chH d] = 0 := rfl
      have c4 : heads (Ent.chD d :: T) = heads T := by rw [heads_cons]; simp [Ent.isRamHead]
      have hcB : consCount (B :: Ns) = 1 + consCount Ns := by rw [consCount_cons, hB]; rfl
      have hcBD : consCount (B.toD :: Ns) = consCount Ns := by rw [consCount_cons, h3.1]; simp
      have hhB : heads (B.toD :: Ns) = heads (B :: Ns) := by rw [heads_cons, heads_cons, h3.2]
      refine ⟨Q₁, q1, by rw [e1]; omega, ?_, ?_⟩
      · rw [q3]
        simp only [consCount_append, c1, c2, hcB, hcBD]
        omega
      · rw [q4]
        simp only [heads_append, c3, c4, hhB]
        omega
    | ownH _ _ => simp [Ent.isDN] at hX
    | ownD _ _ => simp [Ent.isDN] at hX
    | chH _ => simp [Ent.isDN] at hX

/-- a sweep that starts from a disk checkpoint read at once, and holds one RAM unit at its end:
the checkpoint is read at its turn instead -/
theorem disk_head_chain {cm a : Nat} {Av : Tag → Prop} (A T C : List Ent) (e b q : Nat)
    (hT : ∀ X ∈ T, X.isDN = true) (hC : NoChainHead C)
    (hP : PlanOk cm a Av (A ++ .ownD (.disk e) b :: T ++ .chH q :: C)) :
    ∃ Ns', AllN Ns' ∧ PlanOk cm a Av (A ++ .dskN e b :: Ns' ++ C) ∧
      val uf wr cm (A ++ .dskN e b :: Ns' ++ C) a ≤
        val uf wr cm (A ++ .ownD (.disk e) b :: T ++ .chH q :: C) a := by
  obtain ⟨T', d1, _, d3, d4⟩ := drop_top uf wr A T C (.ownD (.disk e) b) (.chH q) hP rfl hT rfl hC
  obtain ⟨Ns', h1, h2, h3⟩ := strip_tail uf wr T'.length T' rfl A C (.ownD (.disk e) b) rfl d1 hC d3
  have e1 : A ++ Ent.ownD (.disk e) b :: Ns' ++ C = A ++ Ent.ownD (.disk e) b :: (Ns' ++ C) := by simp
  rw [e1] at h2
  obtain ⟨o1, o2⟩ := own_to_dskN uf wr A (Ns' ++ C) (.ownD (.disk e) b) e b (Or.inr rfl) h2
    (noChainHead_append h1 hC)
  refine ⟨Ns', h1, by simpa using o1, ?_⟩
  have e2 : A ++ Ent.dskN e b :: Ns' ++ C = A ++ Ent.dskN e b :: (Ns' ++ C) := by simp
  rw [e2]
  rw [← e1] at o2
  simp only [Ent.paysWr, if_true, Bool.false_eq_true, if_false, Nat.add_zero] at o2 d4
  omega

theorem dn_cp_none : ∀ (L : List Ent), (∀ X ∈ L, X.isDN = true) → ChainOk none L → cpAfter none L = none := by
  intro L
  induction L with
  | nil => intro _ _; rfl
  | cons X L ih =>
    intro hL hc
    have hX := hL X (List.mem_cons_self ..)
    cases X with
    | dskN e b =>
      have : cpStep none (Ent.dskN e b) = none := by simp [cpStep, Ent.sets]
      rw [cpAfter_cons, this]
      rw [ChainOk, this] at hc
      exact ih (fun Y hY => hL Y (List.mem_cons_of_mem _ hY)) hc.2
    | chD q =>
      have := hc.1 rfl
      simp at this
    | ownH _ _ => simp [Ent.isDN] at hX
    | ownD _ _ => simp [Ent.isDN] at hX
    | chH _ => simp [Ent.isDN] at hX

theorem exists_nonDN {L : List Ent} (hc : ChainOk none L) (hs : (cpAfter none L).isSome = true) :
    ∃ X ∈ L, X.isDN = false := by
  by_contra hno
  have hall : ∀ X ∈ L, X.isDN = true := by
    intro X hX
    cases h : X.isDN with
    | true => rfl
    | false => exact absurd ⟨X, hX, h⟩ hno
  rw [dn_cp_none L hall hc] at hs
  simp at hs

theorem exists_setter {L : List Ent} (hs : (cpAfter none L).isSome = true) : ∃ X ∈ L, X.sets = true := by
  rcases cpAfter_cases L none with h | ⟨E, hE, h⟩
  · rw [h] at hs; simp at hs
  · by_contra hno
    have hall : ∀ X ∈ L, X.sets = false := by
      intro X hX
      cases hx : X.sets with
      | false => rfl
      | true => exact absurd ⟨X, hX, hx⟩ hno
    have : ∀ (L : List Ent) cp, (∀ X ∈ L, X.sets = false) → cpAfter cp L = cp := by
      intro L
      induction L with
      | nil => intro cp _; rfl
      | cons Y L ih =>
        intro cp hL
        rw [cpAfter_cons]
        have : cpStep cp Y = cp := by unfold cpStep; rw [hL Y (List.mem_cons_self ..)]; simp
        rw [this]
        exact ih cp (fun Z hZ => hL Z (List.mem_cons_of_mem _ hZ))
    rw [this L none hall] at hs
    simp at hs

/-- **One RAM unit less**: as long as more entries are held in RAM than sweeps start from RAM or
working storage, one of them can be given up at no cost. -/
theorem reduce_cons {cm a : Nat} {Av : Tag → Prop} : ∀ (n : Nat) (Q C : List Ent), Q.length ≤ n →
    NoChainHead C → PlanOk cm a Av (Q ++ C) → heads Q < consCount Q →
    ∃ Q₁, PlanOk cm a Av (Q₁ ++ C) ∧ val uf wr cm (Q₁ ++ C) a ≤ val uf wr cm (Q ++ C) a ∧
      consCount Q₁ < consCount Q ∧ heads Q₁ ≤ heads Q := by
  intro n
  induction n with
  | zero =>
    intro Q C hlen _ _ hlt
    have : Q = [] := List.eq_nil_of_length_eq_zero (by omega)
    subst this
    simp [heads, consCount] at hlt
  | succ n ih =>
    intro Q C hlen hC hP hlt
    rcases List.eq_nil_or_concat Q with h0 | ⟨Q', Z, hQ⟩
    · subst h0; simp [heads, consCount] at hlt
    rw [List.concat_eq_append] at hQ
    subst hQ
    have hlen' : Q'.length ≤ n := by simp at hlen; omega
    have eQC : Q' ++ [Z] ++ C = Q' ++ (Z :: C) := by simp
    rw [consCount_append, heads_append, consCount_cons, heads_cons] at hlt
    have hc0 : consCount ([] : List Ent) = 0 := rfl
    have hh0 : heads ([] : List Ent) = 0 := rfl
    rw [hc0, hh0] at hlt
    -- the chain condition at `Z`
    have hchain := hP.chain
    rw [eQC, ChainOk_append, ChainOk] at hchain
    obtain ⟨hcQ', hcZ, _⟩ := hchain
    -- peeling `Z` off
    have peel : NoChainHead (Z :: C) → heads Q' < consCount Q' →
        ∃ Q₁, PlanOk cm a Av (Q₁ ++ C) ∧ val uf wr cm (Q₁ ++ C) a ≤ val uf wr cm (Q' ++ [Z] ++ C) a ∧
          consCount Q₁ < consCount (Q' ++ [Z]) ∧ heads Q₁ ≤ heads (Q' ++ [Z]) := by
      intro hnc hlt'
      rw [eQC] at hP
      obtain ⟨Q₁, q1, q2, q3, q4⟩ := ih Q' (Z :: C) hlen' hnc hP hlt'
      refine ⟨Q₁ ++ [Z], by simpa using q1, by simpa using q2, ?_, ?_⟩
      · simp only [consCount_append]; omega
      · simp only [heads_append]; omega
    cases Z with
    | dskN e b =>
      simp only [Ent.cons, Ent.isRamHead, Bool.false_eq_true, if_false] at hlt
      exact peel hC (by omega)
    | ownH t b =>
      simp only [Ent.cons, Ent.isRamHead, if_true] at hlt
      cases t with
      | disk e =>
        have hP2 := hP
        rw [eQC] at hP2
        obtain ⟨o1, o2⟩ := own_to_dskN uf wr Q' C (.ownH (.disk e) b) e b (Or.inl rfl) hP2 hC
        refine ⟨Q' ++ [.dskN e b], by simpa using o1, ?_, ?_, ?_⟩
        · rw [eQC]
          have : Q' ++ [Ent.dskN e b] ++ C = Q' ++ Ent.dskN e b :: C := by simp
          rw [this]; omega
        · simp only [consCount_append, consCount_cons, Ent.cons, hc0]; simp
        · simp only [heads_append, heads_cons, Ent.isRamHead, hh0, Tag.isDisk]; simp
      | ram e =>
        simp only [Tag.isDisk, Bool.not_false, if_true] at hlt
        exact peel trivial (by omega)
      | work e =>
        simp only [Tag.isDisk, Bool.not_false, if_true] at hlt
        exact peel trivial (by omega)
    | ownD t b =>
      simp only [Ent.cons, Bool.false_eq_true, if_false] at hlt
      exact peel trivial (by split at hlt <;> omega)
    | chD q =>
      simp only [Ent.cons, Ent.isRamHead, Bool.false_eq_true, if_false] at hlt
      obtain ⟨X, hX, hXs⟩ := exists_setter (hcZ rfl)
      obtain ⟨A₂, B₂, Ns₂, rfl, hB₂, hNs₂⟩ := exists_last Ent.sets Q' ⟨X, hX, hXs⟩
      have hNs : AllN Ns₂ := fun Y hY => not_sets_isN (hNs₂ Y hY)
      have e1 : A₂ ++ B₂ :: Ns₂ ++ [Ent.chD q] ++ C = A₂ ++ B₂ :: Ns₂ ++ Ent.chD q :: C := by simp
      rw [e1] at hP
      obtain ⟨r1, r2, _⟩ := remove_last uf wr A₂ Ns₂ C B₂ (.chD q) hP hB₂ hNs rfl hC
      have hcnt : consCount (A₂ ++ B₂ :: shiftUp Ns₂ q) = consCount (A₂ ++ B₂ :: Ns₂) ∧
          heads (A₂ ++ B₂ :: shiftUp Ns₂ q) = heads (A₂ ++ B₂ :: Ns₂) := by
        have h1 := allN_counts _ (shiftUp_allN Ns₂ q hNs)
        have h2 := allN_counts _ hNs
        simp only [consCount_append, consCount_cons, heads_append, heads_cons, h1.1, h1.2, h2.1, h2.2]
        simp
      obtain ⟨Q₁, q1, q2, q3, q4⟩ := ih (A₂ ++ B₂ :: shiftUp Ns₂ q) C
        (by simp [shiftUp_length] at hlen' ⊢; omega) hC r1 (by rw [hcnt.1, hcnt.2]; omega)
      refine ⟨Q₁, q1, ?_, ?_, ?_⟩
      · rw [e1]
        simp only [Ent.paysWr, if_true, Ent.base] at r2
        omega
      · simp only [consCount_append, consCount_cons, Ent.cons, hc0] at q3 hcnt ⊢
        omega
      · simp only [heads_append, heads_cons, Ent.isRamHead, hh0] at q4 hcnt ⊢
        omega
    | chH q =>
      simp only [Ent.cons, Ent.isRamHead, if_true, Bool.false_eq_true, if_false] at hlt
      obtain ⟨X, hX, hXd⟩ := exists_nonDN hcQ' (hcZ rfl)
      obtain ⟨A, B, T, rfl, hBd, hTd⟩ := exists_last (fun E => !E.isDN) Q' ⟨X, hX, by simp [hXd]⟩
      have hT : ∀ Y ∈ T, Y.isDN = true := by
        intro Y hY; have := hTd Y hY; simpa using this
      have hBd' : B.isDN = false := by simpa using hBd
      have hTc := dn_counts T hT
      have e1 : A ++ B :: T ++ [Ent.chH q] ++ C = A ++ B :: [] ++ T ++ Ent.chH q :: C := by simp
      have e1' : A ++ B :: T ++ [Ent.chH q] = A ++ B :: [] ++ T ++ [Ent.chH q] := by simp
      by_cases hBc : B.cons = true
      · rw [e1] at hP
        obtain ⟨Q₁, q1, q2, q3, q4⟩ := chain_tail uf wr T A [] C B q hBc
          (fun Y hY => absurd hY List.not_mem_nil) hT hC hP
        exact ⟨Q₁, q1, by rw [e1]; exact q2, by rw [e1']; omega, by rw [e1']; omega⟩
      · cases B with
        | ownD t b =>
          cases t with
          | disk e =>
            have e2 : A ++ Ent.ownD (.disk e) b :: T ++ [Ent.chH q] ++ C
                = A ++ Ent.ownD (.disk e) b :: T ++ Ent.chH q :: C := by simp
            rw [e2] at hP
            obtain ⟨Ns', h1, h2, h3⟩ := disk_head_chain uf wr A T C e b q hT hC hP
            have hNc := allN_counts _ h1
            refine ⟨A ++ Ent.dskN e b :: Ns', h2, by rw [e2]; exact h3, ?_, ?_⟩
            · simp only [consCount_append, consCount_cons, Ent.cons, hNc.1, hTc.1, hc0]; simp
            · simp only [heads_append, heads_cons, Ent.isRamHead, hNc.2, hTc.2, hh0, Tag.isDisk]; simp
          | ram e =>
            have e2 : A ++ Ent.ownD (.ram e) b :: T ++ [Ent.chH q] ++ C
                = A ++ (Ent.ownD (.ram e) b :: T ++ Ent.chH q :: C) := by simp
            rw [e2] at hP
            simp only [consCount_append, consCount_cons, heads_append, heads_cons, Ent.cons, Ent.isRamHead,
              Tag.isDisk, hTc.1, hTc.2] at hlt
            obtain ⟨Q₁, q1, q2, q3, q4⟩ := ih A (Ent.ownD (.ram e) b :: T ++ Ent.chH q :: C)
              (by simp at hlen'; omega) trivial hP (by simp at hlt; omega)
            refine ⟨Q₁ ++ Ent.ownD (.ram e) b :: T ++ [Ent.chH q], by simpa using q1, ?_, ?_, ?_⟩
            · rw [e2]; simpa using q2
            · simp only [consCount_append, consCount_cons, Ent.cons, hTc.1, hc0]; omega
            · simp only [heads_append, heads_cons, Ent.isRamHead, Tag.isDisk, hTc.2, hh0]; omega
          | work e =>
            have e2 : A ++ Ent.ownD (.work e) b :: T ++ [Ent.chH q] ++ C
                = A ++ (Ent.ownD (.work e) b :: T ++ Ent.chH q :: C) := by simp
            rw [e2] at hP
            simp only [consCount_append, consCount_cons, heads_append, heads_cons, Ent.cons, Ent.isRamHead,
              Tag.isDisk, hTc.1, hTc.2] at hlt
            obtain ⟨Q₁, q1, q2, q3, q4⟩ := ih A (Ent.ownD (.work e) b :: T ++ Ent.chH q :: C)
              (by simp at hlen'; omega) trivial hP (by simp at hlt; omega)
            refine ⟨Q₁ ++ Ent.ownD (.work e) b :: T ++ [Ent.chH q], by simpa using q1, ?_, ?_, ?_⟩
            · rw [e2]; simpa using q2
            · simp only [consCount_append, consCount_cons, Ent.cons, hTc.1, hc0]; omega
            · simp only [heads_append, heads_cons, Ent.isRamHead, Tag.isDisk, hTc.2, hh0]; omega
        | ownH _ _ => simp [Ent.cons] at hBc
        | chH _ => simp [Ent.cons] at hBc
        | dskN _ _ => simp [Ent.isDN] at hBd'
        | chD _ => simp [Ent.isDN] at hBd'


/-! ## the turn-around -/

theorem heads_eq_tags (P : List Ent) : heads P = ((tags P).filter (fun t => !t.isDisk)).length := by
  induction P with
  | nil => rfl
  | cons E P ih =>
    rw [heads_cons, tags_cons, List.filter_append, List.length_append, ih]
    cases E with
    | ownH t b => cases t <;> simp [Ent.isRamHead, Ent.tag?, Tag.isDisk]
    | ownD t b => cases t <;> simp [Ent.isRamHead, Ent.tag?, Tag.isDisk]
    | dskN e b => simp [Ent.isRamHead, Ent.tag?, Tag.isDisk]
    | chH b => simp [Ent.isRamHead, Ent.tag?]
    | chD b => simp [Ent.isRamHead, Ent.tag?]

theorem heads_le {cm a : Nat} {Av : Tag → Prop} (L : List Tag) (hL : L.length ≤ cm)
    (hAv : ∀ t, Av t → t.isDisk = true ∨ t ∈ L) {P : List Ent} (hP : PlanOk cm a Av P) : heads P ≤ cm := by
  rw [heads_eq_tags]
  have hnd : ((tags P).filter (fun t => !t.isDisk)).Nodup := hP.nodup.filter _
  have hsub : (tags P).filter (fun t => !t.isDisk) ⊆ L := by
    intro t ht
    rw [List.mem_filter] at ht
    rcases hAv t (hP.avail t ht.1) with h | h
    · rw [h] at ht; simp at ht
    · exact h
  have := (hnd.subperm hsub).length_le
  omega

theorem reduce_all {cm a : Nat} {Av : Tag → Prop} (hheads : ∀ P, PlanOk cm a Av P → heads P ≤ cm) :
    ∀ (k : Nat) (P : List Ent), consCount P ≤ k → PlanOk cm a Av P →
    ∃ P', PlanOk cm a Av P' ∧ val uf wr cm P' a ≤ val uf wr cm P a ∧ consCount P' ≤ cm := by
  intro k
  induction k with
  | zero => intro P hk hP; exact ⟨P, hP, le_refl _, by omega⟩
  | succ k ih =>
    intro P hk hP
    by_cases hc : consCount P ≤ cm
    · exact ⟨P, hP, le_refl _, hc⟩
    · have hh := hheads P hP
      obtain ⟨Q₁, q1, q2, q3, _⟩ := reduce_cons uf wr P.length P [] (le_refl _) trivial
        (by simpa using hP) (by omega)
      simp only [List.append_nil] at q1 q2
      obtain ⟨P', p1, p2, p3⟩ := ih Q₁ (by omega) q1
      exact ⟨P', p1, by omega, p3⟩

theorem append_top {cm a : Nat} {Av Av' : Tag → Prop} (ha : 1 ≤ a) (P : List Ent)
    (hP : PlanOk cm (a - 1) Av' P) (hc : consCount P ≤ cm) (hAv : ∀ t, Av' t → Av t)
    (hw : Av (.work (a - 1))) (hnw : Tag.work (a - 1) ∉ tags P) :
    PlanOk cm a Av (P ++ [.ownH (.work (a - 1)) (a - 1)]) ∧
      val uf wr cm (P ++ [.ownH (.work (a - 1)) (a - 1)]) a = val uf wr cm P (a - 1) + uf := by
  have hs := XiG_snoc uf wr (seqOf P) cm a ha hP.seq (by rw [consCount_eq_countT]; exact hc)
  have hseq : seqOf (P ++ [.ownH (.work (a - 1)) (a - 1)]) = seqOf P ++ [(a - 1, true)] := by
    rw [seqOf_append]; rfl
  refine ⟨⟨by rw [hseq]; exact hs.1, ?_, ?_, ?_, ?_, ?_⟩, ?_⟩
  · intro _
    by_cases h0 : 0 < a - 1
    · obtain ⟨E, rest, hE, hE0⟩ := hP.head h0
      subst hE
      exact ⟨E, rest ++ [_], rfl, hE0⟩
    · cases P with
      | nil => exact ⟨_, [], rfl, by show a - 1 = 0; omega⟩
      | cons E rest =>
        have := bases_lt hP.seq E (List.mem_cons_self ..)
        omega
  · intro X hX
    rcases List.mem_append.mp hX with hX | hX
    · exact hP.src X hX
    · rw [List.mem_singleton] at hX; subst hX; exact le_refl _
  · rw [ChainOk_append]
    exact ⟨hP.chain, by simp [ChainOk, Ent.isCh]⟩
  · rw [tags_append]
    have : tags [Ent.ownH (.work (a - 1)) (a - 1)] = [.work (a - 1)] := rfl
    rw [this, List.nodup_append]
    refine ⟨hP.nodup, List.nodup_singleton _, ?_⟩
    intro x hx y hy
    rw [List.mem_singleton] at hy
    subst hy
    intro h
    subst h
    exact hnw hx
  · intro t ht
    rw [tags_append] at ht
    rcases List.mem_append.mp ht with h | h
    · exact hAv t (hP.avail t h)
    · have : tags [Ent.ownH (.work (a - 1)) (a - 1)] = [.work (a - 1)] := rfl
      rw [this, List.mem_singleton] at h
      subst h; exact hw
  · unfold val
    rw [hseq, hs.2, feeSum_append, wrSum_append]
    have e1 : feeSum uf (cpAfter none P) [Ent.ownH (.work (a - 1)) (a - 1)] = 0 := by
      simp [feeSum, fee, Tag.pos]
    have e2 : wrSum wr [Ent.ownH (.work (a - 1)) (a - 1)] = 0 := by simp [wrSum, Ent.paysWr]
    rw [e1, e2]
    omega

/-- **The turn-around**: the state `a - 1` stands in working storage; the step `a - 1 → a` is taken and
reversed.  Afterwards at most `cm` RAM checkpoints (the tags `L`) and any number of disk checkpoints
are available. -/
theorem dreach_turn {cm a n : Nat} {Av Av' : Tag → Prop} (ha : 1 ≤ a) (hw : Av (.work (a - 1)))
    (L : List Tag) (hL : L.length ≤ cm)
    (hAv : ∀ t, Av' t → Av t ∧ (t.isDisk = true ∨ t ∈ L) ∧ t ≠ .work (a - 1))
    (h : DReach uf wr cm Av' (a - 1) n) : DReach uf wr cm Av a (n + uf) := by
  obtain ⟨P, hP, hv⟩ := h
  obtain ⟨P', p1, p2, p3⟩ := reduce_all uf wr
    (fun Q hQ => heads_le L hL (fun t ht => (hAv t ht).2.1) hQ) (consCount P) P (le_refl _) hP
  obtain ⟨q1, q2⟩ := append_top uf wr (Av := Av) ha P' p1 p3 (fun t ht => (hAv t ht).1) hw
    (fun hin => (hAv _ (p1.avail _ hin)).2.2 rfl)
  exact ⟨_, q1, by omega⟩


/-! ## the very beginning: one state, in working storage -/

theorem toH_facts {B : Ent} (h : B.paysWr = true) :
    B.toH.cons = true ∧ B.cons = false ∧ B.toH.paysWr = false ∧ B.toH.base = B.base ∧ B.sets = true := by
  cases B <;> simp_all [Ent.paysWr, Ent.toH, Ent.cons, Ent.base, Ent.sets]

/-- the top entry `Y` is held in RAM, the entry `B` below it went to disk: `B` is held instead -/
theorem top_convert {cm a : Nat} {Av : Tag → Prop} (A : List Ent) (B : Ent) (q : Nat)
    (hP : PlanOk cm a Av (A ++ [B, .chH q])) (hB : B.paysWr = true) :
    PlanOk cm a Av (A ++ [B.toH]) ∧ val uf wr cm (A ++ [B.toH]) a ≤ val uf wr cm (A ++ [B, .chH q]) a := by
  obtain ⟨t1, t2, t3, t4, t5⟩ := toH_facts hB
  have hf2 : List.Forall₂ (SameFee uf) (A ++ [B]) (A ++ [B.toH]) :=
    List.rel_append (forall₂_refl_sameFee uf A) (List.Forall₂.cons (sameFee_toH uf B) List.Forall₂.nil)
  obtain ⟨f1, f2, f3, f4⟩ := sameFee_list uf _ _ hf2 none
  have eold : A ++ [B, .chH q] = (A ++ [B]) ++ [.chH q] := by simp
  have hseqold : seqOf (A ++ [B, .chH q]) = seqOf A ++ [(B.base, false), (q, true)] := by
    rw [seqOf_append]
    show seqOf A ++ [(B.base, B.cons), (q, true)] = _
    rw [t2]
  have hseqnew : seqOf (A ++ [B.toH]) = seqOf A ++ [(B.base, true)] := by
    rw [seqOf_append]
    show seqOf A ++ [(B.toH.base, B.toH.cons)] = _
    rw [t1, t4]
  have hseq := hP.seq
  rw [hseqold] at hseq
  have hpre := seq_prefix uf wr (wr + uf * (q - B.base)) [(B.base, false), (q, true)] [(B.base, true)] a
    (fun _ => rfl) (by simp)
    (fun k hk => by
      obtain ⟨r1, r2⟩ := XiG_remove_P2 uf wr k B.base q false true [] a hk
      exact ⟨by simpa [SeqOk] using r1, by simpa [XiG] using r2⟩) (seqOf A) cm hseq
  have hchain := hP.chain
  rw [eold, ChainOk_append] at hchain
  have hcp : cpAfter none (A ++ [B]) = some B.base := by
    rw [cpAfter_append, cpAfter_cons, cpAfter_nil]
    unfold cpStep; rw [if_pos t5]
  refine ⟨⟨by rw [hseqnew]; exact hpre.1, ?_, ?_, ?_, ?_, ?_⟩, ?_⟩
  · intro ha
    obtain ⟨X, rest, hX, hX0⟩ := hP.head ha
    cases A with
    | nil =>
      simp only [List.nil_append, List.cons.injEq] at hX ⊢
      exact ⟨B.toH, [], ⟨rfl, rfl⟩, by rw [t4, hX.1]; exact hX0⟩
    | cons Z A' =>
      simp only [List.cons_append, List.cons.injEq] at hX ⊢
      exact ⟨Z, _, ⟨rfl, rfl⟩, by rw [hX.1]; exact hX0⟩
  · exact f4 (fun X hX => hP.src X (by rw [eold]; exact List.mem_append_left _ hX))
  · exact f2.mp hchain.1
  · rw [← f3]
    have := hP.nodup
    rw [eold, tags_append] at this
    exact (List.nodup_append.mp this).1
  · intro t ht
    rw [← f3] at ht
    exact hP.avail t (by rw [eold, tags_append]; exact List.mem_append_left _ ht)
  · have h2 := hpre.2
    rw [← hseqold, ← hseqnew] at h2
    have e1 : feeSum uf (some B.base) [Ent.chH q] = uf * (q - B.base) := by simp [feeSum, fee]
    have e2 : wrSum wr [Ent.chH q] = 0 := by simp [wrSum, Ent.paysWr]
    have e3 : wrSum wr (A ++ [B]) = wrSum wr (A ++ [B.toH]) + wr := by
      rw [wrSum_append, wrSum_append, wrSum_cons, wrSum_cons, hB, t3]
      simp [wrSum]
    have hfo : feeSum uf none (A ++ [B, .chH q]) = feeSum uf none (A ++ [B.toH]) + uf * (q - B.base) := by
      rw [eold, feeSum_append, hcp, e1, f1]
    have hwo : wrSum wr (A ++ [B, .chH q]) = wrSum wr (A ++ [B.toH]) + wr := by
      rw [eold, wrSum_append, e2, e3]; omega
    unfold val
    rw [hfo, hwo]
    omega

/-- plans at the very beginning: one own entry, the rest is chained -/
def InitShape (P : List Ent) : Prop := ∃ E0 L, P = E0 :: L ∧ E0.isOwn = true ∧ ∀ X ∈ L, X.isCh = true

theorem initShape_snoc {A : List Ent} {B Y : Ent} (h : InitShape (A ++ [B, Y])) :
    InitShape (A ++ [B]) ∧ Y.isCh = true ∧ B.sets = true ∧ (B.paysWr = true → InitShape (A ++ [B.toH])) := by
  obtain ⟨E0, L, hE, hown, hL⟩ := h
  cases A with
  | nil =>
    simp only [List.nil_append, List.cons.injEq] at hE
    obtain ⟨rfl, rfl⟩ := hE
    refine ⟨⟨B, [], rfl, hown, by simp⟩, hL Y (by simp), ?_, ?_⟩
    · obtain ⟨t, b, rfl | rfl⟩ := isOwn_cases hown <;> rfl
    · intro _
      refine ⟨B.toH, [], rfl, ?_, by simp⟩
      obtain ⟨t, b, rfl | rfl⟩ := isOwn_cases hown <;> rfl
  | cons Z A' =>
    simp only [List.cons_append, List.cons.injEq] at hE
    obtain ⟨rfl, rfl⟩ := hE
    have hBch : B.isCh = true := hL B (by simp)
    refine ⟨⟨Z, A' ++ [B], rfl, hown, ?_⟩, hL Y (by simp), ?_, ?_⟩
    · intro X hX
      exact hL X (by
        rcases List.mem_append.mp hX with h | h
        · exact List.mem_append_left _ h
        · rw [List.mem_singleton] at h; subst h; simp)
    · cases B <;> simp_all [Ent.isCh, Ent.sets]
    · intro _
      refine ⟨Z, A' ++ [B.toH], rfl, hown, ?_⟩
      intro X hX
      rcases List.mem_append.mp hX with h | h
      · exact hL X (List.mem_append_left _ h)
      · rw [List.mem_singleton] at h; subst h
        cases B <;> simp_all [Ent.isCh, Ent.toH]

theorem init_bound {cm N : Nat} {Av : Tag → Prop} (hN : 1 ≤ N) : ∀ (m : Nat) (P : List Ent),
    P.length = m → InitShape P → PlanOk cm N Av P → Gd uf wr cm N ≤ val uf wr cm P N := by
  intro m
  induction m with
  | zero =>
    intro P hlen hsh _
    obtain ⟨E0, L, rfl, _, _⟩ := hsh
    simp at hlen
  | succ m ih =>
    intro P hlen hsh hP
    rcases List.eq_nil_or_concat P with h0 | ⟨P₁, Y, hPY⟩
    · subst h0; simp at hlen
    rw [List.concat_eq_append] at hPY
    subst hPY
    rcases List.eq_nil_or_concat P₁ with h1 | ⟨A, B, hAB⟩
    · -- a single entry
      subst h1
      obtain ⟨X, rest, hX, hX0⟩ := hP.head (by omega)
      simp only [List.nil_append, List.cons.injEq] at hX
      obtain ⟨rfl, _⟩ := hX
      unfold val
      have : XiG uf wr cm (seqOf ([] ++ [Y])) N = Gd uf wr cm N := by
        simp [seqOf, XiG, hX0]
      rw [this]
      omega
    · rw [List.concat_eq_append] at hAB
      subst hAB
      have e1 : A ++ [B] ++ [Y] = A ++ [B, Y] := by simp
      rw [e1] at hsh hP ⊢
      obtain ⟨s1, s2, s3, s4⟩ := initShape_snoc hsh
      have hlen1 : (A ++ [B]).length = m := by simp at hlen ⊢; omega
      have e2 : A ++ [B, Y] = A ++ B :: [] ++ Y :: [] := by simp
      cases Y with
      | chD q =>
        rw [e2] at hP
        obtain ⟨r1, r2, _⟩ := remove_last uf wr A [] [] B (.chD q) hP s3
          (fun X hX => absurd hX List.not_mem_nil) rfl trivial
        simp only [shiftUp, List.append_nil] at r1 r2
        have := ih (A ++ [B]) hlen1 s1 r1
        rw [e2]
        simp only [Ent.paysWr, if_true] at r2
        omega
      | chH q =>
        by_cases hBc : B.cons = true
        · rw [e2] at hP
          obtain ⟨r1, _, r3⟩ := remove_last uf wr A [] [] B (.chH q) hP s3
            (fun X hX => absurd hX List.not_mem_nil) rfl trivial
          have r3' := r3 hBc
          simp only [shiftUp, List.append_nil] at r1 r3'
          have := ih (A ++ [B]) hlen1 s1 r1
          rw [e2]
          simp only [Ent.paysWr, Bool.false_eq_true, if_false, Nat.add_zero] at r3'
          omega
        · have hBp : B.paysWr = true := by
            cases B with
            | ownH _ _ => simp [Ent.cons] at hBc
            | chH _ => simp [Ent.cons] at hBc
            | dskN _ _ => simp [Ent.sets] at s3
            | ownD _ _ => rfl
            | chD _ => rfl
          obtain ⟨c1, c2⟩ := top_convert uf wr A B q hP hBp
          have := ih (A ++ [B.toH]) (by simp at hlen1 ⊢; omega) (s4 hBp) c1
          omega
      | ownH _ _ => simp [Ent.isCh] at s2
      | ownD _ _ => simp [Ent.isCh] at s2
      | dskN _ _ => simp [Ent.isCh] at s2

/-- **At the very beginning** only the state `0` in working storage is available: every plan costs at
least `Gd cm N`. -/
theorem dreach_init {cm N n : Nat} {Av : Tag → Prop} (hN : 1 ≤ N) (hAv : ∀ t, Av t → t = .work 0)
    (h : DReach uf wr cm Av N n) : Gd uf wr cm N ≤ n := by
  obtain ⟨P, hP, hv⟩ := h
  obtain ⟨E0, L, rfl, _⟩ := hP.head (by omega)
  have hsh : InitShape (E0 :: L) := by
    have hc := hP.chain
    have hE0 : E0.isOwn = true := by
      cases E0 with
      | ownH _ _ => rfl
      | ownD _ _ => rfl
      | dskN e b =>
        have := hAv _ (hP.avail (.disk e) (by simp [tags, Ent.tag?]))
        cases this
      | chH _ => have := hc.1 rfl; simp at this
      | chD _ => have := hc.1 rfl; simp at this
    refine ⟨E0, L, rfl, hE0, ?_⟩
    intro X hX
    cases hXt : X.tag? with
    | none => cases X <;> simp_all [Ent.tag?, Ent.isCh]
    | some t =>
      exfalso
      obtain ⟨t0, b0, hE⟩ := isOwn_cases hE0
      have ht0 : E0.tag? = some t0 := by rcases hE with rfl | rfl <;> rfl
      have hnd := hP.nodup
      rw [tags_cons, ht0] at hnd
      simp only [List.singleton_append, List.nodup_cons] at hnd
      have htL : t ∈ tags L := by
        unfold tags; exact List.mem_filterMap.mpr ⟨X, hX, hXt⟩
      have h1 := hAv t (hP.avail t (by rw [tags_cons]; exact List.mem_append_right _ htL))
      have h2 := hAv t0 (hP.avail t0 (by rw [tags_cons, ht0]; simp))
      rw [h1, ← h2] at htL
      exact hnd.1 htL
  have := init_bound uf wr hN (E0 :: L).length (E0 :: L) rfl hsh hP
  omega


-- PART12
end

end Ckpt.LB7
