import CkptVerif.Proofs.Cost
import CkptVerif.Proofs.HOptTables
import CkptVerif.Proofs.HRevolveOk
import CkptVerif.Proofs.RevolveCost
/-!
# HRevolve: the cost of the model stream is the table value (C07)

For the context `hCtxOf N c0 c1 c` (RAM free, DISK write `wd`, DISK read `rd`):

* `hRs … lo hi K cm` costs `opt[K][hi-lo-1][cm] + (hi-lo)·uf`;
* `hAs … lo hi K cm pending` costs `optp[K][hi-lo-1][cm] + (hi-lo)·uf`, plus the write of the
  pending checkpoint (`w K`) if there is one; the read that preceded a just-loaded state
  (`pending = none`) is paid by the caller;
* `hrevolve_cost`, and "more disk units never cost more".
-/
namespace Ckpt.RC
open Ckpt List

/-! ## minima -/

theorem ominList_eq_of (L : List (Option Nat)) (x : Option Nat) (hx : x ∈ L)
    (hmin : ∀ y ∈ L, ole x y = true) : ominList L = x :=
  ole_antisymm (ominList_le L x hx) (hmin _ (ominList_mem L (ne_nil_of_mem hx)))

theorem ominList_append_lt (cands : List (Option Nat)) (o : Option Nat) (hne : cands ≠ [])
    (h : olt (ominList cands) o = true) : ominList (cands ++ [o]) = ominList cands := by
  apply ominList_eq_of
  · exact mem_append_left _ (ominList_mem cands hne)
  · intro y hy
    rcases mem_append.1 hy with hy | hy
    · exact ominList_le cands y hy
    · rw [mem_singleton.1 hy]; exact ole_of_olt h

theorem ominList_append_ge (cands : List (Option Nat)) (o : Option Nat)
    (h : ¬ olt (ominList cands) o = true) : ominList (cands ++ [o]) = o := by
  have hle : ole o (ominList cands) = true := by simpa [ole] using h
  apply ominList_eq_of
  · simp
  · intro y hy
    rcases mem_append.1 hy with hy | hy
    · exact ole_trans hle (ominList_le cands y hy)
    · rw [mem_singleton.1 hy]; exact ole_refl _

theorem ominList_cons_lt (cands : List (Option Nat)) (o : Option Nat) (hne : cands ≠ [])
    (h : olt (ominList cands) o = true) : ominList (o :: cands) = ominList cands := by
  apply ominList_eq_of
  · exact mem_cons_of_mem _ (ominList_mem cands hne)
  · intro y hy
    rcases mem_cons.1 hy with rfl | hy
    · exact ole_of_olt h
    · exact ominList_le cands y hy

theorem ominList_cons_ge (cands : List (Option Nat)) (o : Option Nat)
    (h : ¬ olt (ominList cands) o = true) : ominList (o :: cands) = o := by
  have hle : ole o (ominList cands) = true := by simpa [ole] using h
  apply ominList_eq_of
  · simp
  · intro y hy
    rcases mem_cons.1 hy with rfl | hy
    · exact ole_refl _
    · exact ole_trans hle (ominList_le cands y hy)

/-! ## the cost of the building blocks -/

/-- the write cost of the pending checkpoint -/
def pw (c : Costs) : Option Nat → Nat
  | none => 0
  | some K => if K = 0 then 0 else c.wd

theorem cost_evBase (c : Costs) (x : HCtx) (lo hi : Nat) (spine : Bool) :
    cost c (evBase x lo hi spine) = (hi - lo) * c.uf + (hi - lo) * c.ub := by
  cases spine <;> simp [evBase, evCost]

theorem evCost_evFwd (c : Costs) (x : HCtx) (lo tgt hi : Nat) (p : Option Nat) :
    evCost c (evFwd x lo tgt hi p) = (tgt - lo) * c.uf + pw c p := by
  cases p with
  | none => simp [evFwd, evCost, pw]
  | some K =>
    by_cases hK : K = 0
    · subst hK; simp [evFwd, evCost, pw, lvl]
    · simp [evFwd, evCost, pw, lvl, hK]

theorem evCost_evLoad (c : Costs) (b : Bool) (n K r : Nat) :
    evCost c (evLoad b n (lvl K) r) = if K = 0 then 0 else c.rd := by
  by_cases hK : K = 0
  · subst hK; cases b <;> simp [evLoad, evCost, lvl]
  · cases b <;> simp [evLoad, evCost, lvl, hK]

theorem evCost_evLoad_ram (c : Costs) (b : Bool) (n r : Nat) :
    evCost c (evLoad b n .ram r) = 0 := by
  cases b <;> simp [evLoad, evCost]

theorem cost_flatMap (c : Costs) {α : Type} (f : α → List Ev) : ∀ L : List α,
    cost c (L.flatMap f) = (L.map (fun x => cost c (f x))).sum
  | [] => rfl
  | a :: L => by rw [flatMap_cons, cost_append, cost_flatMap c f L, map_cons, sum_cons]

/-- `Σ_{idx < l} ((idx + 2)·uf + ub)` -/
theorem loop_sum (uf ub : Nat) : ∀ l,
    ((List.range l).map (fun idx => (idx + 2) * uf + ub)).sum = l * ub + (l * (l + 1) / 2 + l) * uf
  | 0 => by simp
  | l + 1 => by
    rw [range_succ, map_append, sum_append, loop_sum uf ub l, tri_succ]
    simp
    ring

/-! ## the table of `hCtxOf`, rows `l = 0, 1` -/

section tab
variable (N c0 c1 : Nat) (c : Costs)

local notation "HT" => hoptTable (N - 1) c0 c1 0 c.wd 0 c.rd c.ub c.uf

theorem ht_tab : (hCtxOf N c0 c1 c).tab = HT := rfl

theorem ht_opt0_l1 (hc0 : 1 ≤ c0) (h1 : 1 ≤ N - 1) (m : Nat) (hm1 : 1 ≤ m) (hm : m ≤ c0) :
    (HT).optp 0 1 m = some (c.uf + 2 * c.ub) ∧ (HT).opt 0 1 m = some (c.uf + 2 * c.ub) := by
  obtain ⟨a, b⟩ := hopt0_row1 (N - 1) c0 c1 0 c.wd 0 c.rd c.ub c.uf hc0 h1 m hm1 hm
  rw [a, b]; simp

theorem ht_optp1_l1 (hc0 : 1 ≤ c0) (h1 : 1 ≤ N - 1) (m : Nat) (hm1 : 1 ≤ m) (hm : m ≤ c1) :
    (HT).optp 1 1 m = some (c.uf + 2 * c.ub) := by
  have h := (hopt1_rec (N - 1) c0 c1 0 c.wd 0 c.rd c.ub c.uf 1 m (le_refl _) h1 hm1 hm).1
  rw [h, (ht_opt0_l1 N c0 c1 c hc0 h1 c0 hc0 (le_refl _)).2]
  rfl

theorem ht_opt1_l1 (hc0 : 1 ≤ c0) (h1 : 1 ≤ N - 1) (m : Nat) (hm : m ≤ c1) :
    (HT).opt 1 1 m = some (c.uf + 2 * c.ub) := by
  rcases Nat.eq_zero_or_pos m with rfl | hm1
  · rw [(hopt1_row1_col0 (N - 1) c0 c1 0 c.wd 0 c.rd c.ub c.uf h1).2]; simp
  · have h := (hopt1_rec (N - 1) c0 c1 0 c.wd 0 c.rd c.ub c.uf 1 m (le_refl _) h1 hm1 hm).2
    rw [h, ht_optp1_l1 N c0 c1 c hc0 h1 m hm1 hm, (ht_opt0_l1 N c0 c1 c hc0 h1 c0 hc0 (le_refl _)).2]
    simp [omin, oadd, olt]

end tab

/-! ## the cost of the two mutually recursive generators -/

theorem hcost_main (N c0 c1 : Nat) (c : Costs) (hc0 : 1 ≤ c0) : ∀ fuel : Nat,
    (∀ (lo hi K cm : Nat) (spine : Bool) (evs : List Ev), K ≤ 1 → cm ≤ cv (hCtxOf N c0 c1 c) K →
      lo < hi → hi - lo - 1 ≤ N - 1 →
      hRs (hCtxOf N c0 c1 c) fuel lo hi K cm spine = some evs →
      ∃ v, (hCtxOf N c0 c1 c).tab.opt K (hi - lo - 1) cm = some v ∧
        cost c evs = v + (hi - lo) * c.uf) ∧
    (∀ (lo hi K cm : Nat) (spine : Bool) (pending : Option Nat) (evs : List Ev), K ≤ 1 →
      cm ≤ cv (hCtxOf N c0 c1 c) K → (pending = none ∨ pending = some K) →
      lo < hi → hi - lo - 1 ≤ N - 1 →
      hAs (hCtxOf N c0 c1 c) fuel lo hi K cm spine pending = some evs →
      ∃ v, (hCtxOf N c0 c1 c).tab.optp K (hi - lo - 1) cm = some v ∧
        cost c evs = v + (hi - lo) * c.uf + pw c pending) := by
  intro fuel
  induction fuel with
  | zero =>
    exact ⟨fun _ _ _ _ _ _ _ _ _ _ h => by simp [hRs] at h,
      fun _ _ _ _ _ _ _ _ _ _ _ _ h => by simp [hAs] at h⟩
  | succ fuel ih =>
    obtain ⟨ihR, ihA⟩ := ih
    constructor
    · -- hRs
      intro lo hi K cm spine evs hK hcm hlt hl h
      have hcm0 : K = 0 → cm ≤ c0 := by rintro rfl; exact hcm
      have hcm1' : K = 1 → cm ≤ c1 := by rintro rfl; exact hcm
      rw [hRs_succ] at h
      rw [ht_tab]
      by_cases h0 : hi - lo - 1 = 0
      · rw [if_pos h0] at h
        injection h with h
        have e : hi - lo = 1 := by omega
        rw [h0, ← h, cost_evBase, e]
        refine ⟨c.ub, ?_, by omega⟩
        obtain rfl | rfl : K = 0 ∨ K = 1 := by omega
        · exact (hopt0_row0 (N - 1) c0 c1 0 c.wd 0 c.rd c.ub c.uf hc0 cm (hcm0 rfl)).2
        · exact (hopt1_row0 (N - 1) c0 c1 0 c.wd 0 c.rd c.ub c.uf cm (hcm1' rfl)).2
      rw [if_neg h0] at h
      by_cases hz : K = 0 ∧ cm = 0
      · rw [if_pos hz] at h; cases h
      rw [if_neg hz] at h
      by_cases h1 : hi - lo - 1 = 1
      · rw [if_pos h1] at h
        injection h with h
        have e : hi - lo = 2 := by omega
        have e1 : hi - (lo + 1) = 1 := by omega
        refine ⟨c.uf + 2 * c.ub, ?_, ?_⟩
        · rw [h1]
          obtain rfl | rfl : K = 0 ∨ K = 1 := by omega
          · exact (ht_opt0_l1 N c0 c1 c hc0 (by omega) cm (by omega) (hcm0 rfl)).2
          · exact ht_opt1_l1 N c0 c1 c hc0 (by omega) cm (hcm1' rfl)
        · rw [← h]
          simp only [cost_append, cost_cons, cost_nil, cost_evBase, evCost_evFwd, evCost_evLoad_ram,
            e, e1, pw]
          simp
          omega
      rw [if_neg h1] at h
      have hl2 : 2 ≤ hi - lo - 1 := by omega
      by_cases hK0 : K = 0
      · subst hK0
        rw [if_pos rfl] at h
        have hcm1 : 1 ≤ cm := by
          rcases Nat.eq_zero_or_pos cm with h | h
          · exact absurd ⟨rfl, h⟩ hz
          · exact h
        obtain ⟨v, hv, hc⟩ := ihA lo hi 0 cm spine (some 0) evs (by omega) hcm (Or.inr rfl) hlt hl h
        rw [ht_tab] at hv
        refine ⟨v, ?_, by simpa [pw] using hc⟩
        rcases Nat.eq_or_lt_of_le hcm1 with rfl | hcm2
        · obtain ⟨a, b⟩ := hopt0_col1 (N - 1) c0 c1 0 c.wd 0 c.rd c.ub c.uf hc0 _ hl2 hl
          rw [a] at hv
          rw [b, ← hv]; simp
        · have b := (hopt0_rec (N - 1) c0 c1 0 c.wd 0 c.rd c.ub c.uf hc0 _ cm hl2 hl hcm2 (hcm0 rfl)).2
          rw [b, hv]; simp [oadd]
      · rw [if_neg hK0] at h
        have hK1 : K = 1 := by omega
        subst hK1
        by_cases hlt' : olt (oadd (some ((hCtxOf N c0 c1 c).w 1)) ((hCtxOf N c0 c1 c).tab.optp 1 (hi - lo - 1) cm))
            ((hCtxOf N c0 c1 c).tab.opt (1 - 1) (hi - lo - 1) (cv (hCtxOf N c0 c1 c) (1 - 1))) = true
        · rw [if_pos hlt'] at h
          obtain ⟨v, hv, hc⟩ := ihA lo hi 1 cm spine (some 1) evs (by omega) hcm (Or.inr rfl) hlt hl h
          rw [ht_tab] at hv
          have hcm1 : 1 ≤ cm := by
            rcases Nat.eq_zero_or_pos cm with h0' | h0'
            · subst h0'
              rw [(hopt1_col0 (N - 1) c0 c1 0 c.wd 0 c.rd c.ub c.uf _ hl2 hl).1] at hv
              cases hv
            · exact h0'
          have b := (hopt1_rec (N - 1) c0 c1 0 c.wd 0 c.rd c.ub c.uf _ cm (by omega) hl hcm1 (hcm1' rfl)).2
          refine ⟨c.wd + v, ?_, by simp [pw] at hc; omega⟩
          rw [b, hv]
          rw [ht_tab, hv] at hlt'
          change olt (oadd (some c.wd) (some v)) (HTab.opt _ 0 (hi - lo - 1) c0) = true at hlt'
          unfold omin
          rw [if_pos hlt']
          rfl
        · rw [if_neg hlt'] at h
          obtain ⟨v, hv, hc⟩ := ihR lo hi (1 - 1) (cv (hCtxOf N c0 c1 c) (1 - 1)) spine evs (by omega)
            (le_refl _) hlt hl h
          rw [ht_tab] at hv
          change HTab.opt _ 0 (hi - lo - 1) c0 = some v at hv
          refine ⟨v, ?_, hc⟩
          rcases Nat.eq_zero_or_pos cm with h0' | hcm1
          · subst h0'
            rw [(hopt1_col0 (N - 1) c0 c1 0 c.wd 0 c.rd c.ub c.uf _ hl2 hl).2, hv]
          · have b := (hopt1_rec (N - 1) c0 c1 0 c.wd 0 c.rd c.ub c.uf _ cm (by omega) hl hcm1 (hcm1' rfl)).2
            rw [b]
            rw [ht_tab] at hlt'
            change ¬ olt (oadd (some c.wd) (HTab.optp _ 1 (hi - lo - 1) cm))
              (HTab.opt _ 0 (hi - lo - 1) c0) = true at hlt'
            unfold omin
            rw [if_neg hlt', hv]
    · -- hAs
      intro lo hi K cm spine pending evs hK hcm hp hlt hl h
      have hcm0 : K = 0 → cm ≤ c0 := by rintro rfl; exact hcm
      have hcm1' : K = 1 → cm ≤ c1 := by rintro rfl; exact hcm
      have hpw : pending = some K → pw c pending = if K = 0 then 0 else c.wd := by
        rintro rfl; rfl
      rw [hAs_succ] at h
      rw [ht_tab]
      by_cases hc : cm = 0
      · rw [if_pos hc] at h; cases h
      rw [if_neg hc] at h
      have hcmpos : 1 ≤ cm := by omega
      by_cases h0 : hi - lo - 1 = 0
      · rw [if_pos h0] at h
        rcases hp with rfl | rfl
        · simp only [Option.isSome_none, Bool.false_eq_true, if_false] at h
          injection h with h
          have e : hi - lo = 1 := by omega
          rw [h0, ← h, cost_evBase, e]
          refine ⟨c.ub, ?_, by simp [pw]; omega⟩
          obtain rfl | rfl : K = 0 ∨ K = 1 := by omega
          · exact (hopt0_row0 (N - 1) c0 c1 0 c.wd 0 c.rd c.ub c.uf hc0 cm (hcm0 rfl)).1
          · exact (hopt1_row0 (N - 1) c0 c1 0 c.wd 0 c.rd c.ub c.uf cm (hcm1' rfl)).1
        · simp at h
      rw [if_neg h0] at h
      by_cases h1 : hi - lo - 1 = 1
      · rw [if_pos h1] at h
        rcases hp with rfl | rfl
        · simp only [Option.isSome_none, Bool.false_eq_true, if_false] at h
          have e : hi - lo = 2 := by omega
          have e1 : hi - (lo + 1) = 1 := by omega
          refine ⟨c.uf + 2 * c.ub, ?_, ?_⟩
          · rw [h1]
            obtain rfl | rfl : K = 0 ∨ K = 1 := by omega
            · exact (ht_opt0_l1 N c0 c1 c hc0 (by omega) cm hcmpos (hcm0 rfl)).1
            · exact ht_optp1_l1 N c0 c1 c hc0 (by omega) cm hcmpos (hcm1' rfl)
          · by_cases hw : (hCtxOf N c0 c1 c).w 0 + (hCtxOf N c0 c1 c).rr 0 < (hCtxOf N c0 c1 c).rr K
            · rw [if_pos hw] at h
              injection h with h
              rw [← h]
              simp only [cost_append, cost_cons, cost_nil, cost_evBase, evCost_evFwd,
                evCost_evLoad_ram, e, e1, pw]
              simp
              omega
            · rw [if_neg hw] at h
              injection h with h
              rw [← h]
              have hr0 : (if K = 0 then 0 else c.rd) = 0 := by
                obtain rfl | rfl : K = 0 ∨ K = 1 := by omega
                · rfl
                · simp [hCtxOf] at hw; simp [hw]
              simp only [cost_append, cost_cons, cost_nil, cost_evBase, evCost_evFwd,
                evCost_evLoad, e, e1, pw, hr0]
              simp
              omega
        · simp at h
      rw [if_neg h1] at h
      have hl2 : 2 ≤ hi - lo - 1 := by omega
      by_cases hloop : K = 0 ∧ cm = 1
      · -- one RAM unit: the quadratic loop
        rw [if_pos hloop] at h
        obtain ⟨rfl, rfl⟩ := hloop
        injection h with h
        have hpw0 : pw c pending = 0 := by rcases hp with rfl | rfl <;> rfl
        obtain ⟨a, _⟩ := hopt0_col1 (N - 1) c0 c1 0 c.wd 0 c.rd c.ub c.uf hc0 _ hl2 hl
        refine ⟨_, a, ?_⟩
        rw [← h, hpw0]
        have hbody : ∀ idx, cost c
            ((if idx ≠ hi - lo - 1 - 1 then
                [evLoad true lo .ram ((hCtxOf N c0 c1 c).N - (lo + idx + 2))] else []) ++
              [evFwd (hCtxOf N c0 c1 c) lo (lo + idx + 1) (lo + idx + 2)
                (if idx = hi - lo - 1 - 1 then pending else none)] ++
              evBase (hCtxOf N c0 c1 c) (lo + idx + 1) (lo + idx + 2)
                (spine && decide (idx = hi - lo - 1 - 1))) = (idx + 2) * c.uf + c.ub := by
          intro idx
          have e1 : lo + idx + 1 - lo = idx + 1 := by omega
          have e2 : lo + idx + 2 - (lo + idx + 1) = 1 := by omega
          by_cases hi' : idx = hi - lo - 1 - 1
          · simp only [hi', ne_eq, not_true_eq_false, if_false, if_true, nil_append, cost_append,
              cost_cons, cost_nil, cost_evBase, evCost_evFwd, hpw0]
            rw [← hi', e1, e2]; ring
          · simp only [hi', ne_eq, not_false_eq_true, if_true, if_false, cost_append, cost_cons,
              cost_nil, cost_evBase, evCost_evFwd, evCost_evLoad_ram, pw]
            rw [e1, e2]; ring
        have e3 : lo + 1 - lo = 1 := by omega
        rw [cost_append, cost_append, cost_flatMap]
        simp only [hbody, cost_cons, cost_nil, cost_evBase, evCost_evLoad_ram, e3]
        rw [map_reverse, sum_reverse, loop_sum]
        have e4 : hi - lo = hi - lo - 1 + 1 := by omega
        generalize hi - lo - 1 = l at e4 ⊢
        rw [e4]
        ring
      rw [if_neg hloop] at h
      by_cases hs : hSplit (hCtxOf N c0 c1 c) K cm (hi - lo - 1) = true
      · -- split
        rw [if_pos hs] at h
        have hjr := hSplit_range (hCtxOf N c0 c1 c) K cm (hi - lo - 1) hl2
        have hne : hCands (hCtxOf N c0 c1 c) K cm (hi - lo - 1) ≠ [] := by
          intro h'
          have := congrArg List.length h'
          simp [hCands] at this
          omega
        have hget := argminO_get _ hne
        generalize hj : argminO (hCands (hCtxOf N c0 c1 c) K cm (hi - lo - 1)) = j at h hjr hget
        obtain ⟨hj1, hj2⟩ := hjr
        split at h
        · cases h
        · rename_i right hright
          split at h
          · cases h
          · rename_i left hleft
            injection h with h
            obtain ⟨vr, hvr, hcr⟩ := ihR (lo + j) hi K (cm - 1) spine right hK (by omega) (by omega)
              (by omega) hright
            obtain ⟨vl, hvl, hcl⟩ := ihA lo (lo + j) K cm false none left hK hcm (Or.inl rfl) (by omega)
              (by omega) hleft
            have e1 : hi - (lo + j) - 1 = hi - lo - 1 - j := by omega
            have e2 : lo + j - lo - 1 = j - 1 := by omega
            have e3 : lo + j - lo = j := by omega
            rw [e1] at hvr
            rw [e2] at hvl
            rw [e3] at hcl
            -- the candidate at the chosen position
            rw [hCands, getElem?_map, getElem?_range' (by omega)] at hget
            simp only [Option.map_some, Option.some.injEq] at hget
            have e4 : 1 + 1 * (j - 1) = j := by omega
            rw [e4, hvr, hvl, ← hCands] at hget
            have hpwp : pw c pending = pw c pending := rfl
            have hsplit : (hi - lo) * c.uf = j * c.uf + (hi - (lo + j)) * c.uf := by
              rw [← Nat.add_mul]; congr 1; omega
            obtain rfl | rfl : K = 0 ∨ K = 1 := by omega
            · have hcm2 : 2 ≤ cm := by
                rcases Nat.lt_or_ge cm 2 with h' | h'
                · exact absurd ⟨rfl, by omega⟩ hloop
                · exact h'
              have hT : (hoptTable (N - 1) c0 c1 0 c.wd 0 c.rd c.ub c.uf).optp 0 (hi - lo - 1) cm =
                  ominList (hCands (hCtxOf N c0 c1 c) 0 cm (hi - lo - 1) ++
                    [hOther (hCtxOf N c0 c1 c) 0 (hi - lo - 1)]) :=
                (hopt0_rec (N - 1) c0 c1 0 c.wd 0 c.rd c.ub c.uf hc0 _ cm hl2 hl hcm2 (hcm0 rfl)).1
              rw [hT, ominList_append_lt _ _ hne hs, ← hget]
              refine ⟨_, rfl, ?_⟩
              rw [← h]
              simp only [cost_append, cost_cons, cost_nil, evCost_evFwd, evCost_evLoad, hcr, hcl, e3,
                hsplit, pw]
              simp [hCtxOf]
              omega
            · have hT : (hoptTable (N - 1) c0 c1 0 c.wd 0 c.rd c.ub c.uf).optp 1 (hi - lo - 1) cm =
                  ominList (hOther (hCtxOf N c0 c1 c) 1 (hi - lo - 1) ::
                    hCands (hCtxOf N c0 c1 c) 1 cm (hi - lo - 1)) :=
                (hopt1_rec (N - 1) c0 c1 0 c.wd 0 c.rd c.ub c.uf _ cm (by omega) hl hcmpos (hcm1' rfl)).1
              rw [hT, ominList_cons_lt _ _ hne hs, ← hget]
              refine ⟨_, rfl, ?_⟩
              rw [← h]
              simp only [cost_append, cost_cons, cost_nil, evCost_evFwd, evCost_evLoad, hcr, hcl, e3,
                hsplit, pw]
              simp [hCtxOf]
              omega
      · rw [if_neg hs] at h
        by_cases hK0 : K = 0
        · subst hK0
          rw [if_pos rfl] at h
          have hcm2 : 2 ≤ cm := by
            rcases Nat.lt_or_ge cm 2 with h' | h'
            · exact absurd ⟨rfl, by omega⟩ hloop
            · exact h'
          obtain ⟨v, hv, hcst⟩ := ihA lo hi 0 1 spine pending evs (by omega) hc0 hp hlt hl h
          rw [ht_tab] at hv
          have hT : (hoptTable (N - 1) c0 c1 0 c.wd 0 c.rd c.ub c.uf).optp 0 (hi - lo - 1) cm =
              ominList (hCands (hCtxOf N c0 c1 c) 0 cm (hi - lo - 1) ++
                [hOther (hCtxOf N c0 c1 c) 0 (hi - lo - 1)]) :=
            (hopt0_rec (N - 1) c0 c1 0 c.wd 0 c.rd c.ub c.uf hc0 _ cm hl2 hl hcm2 (hcm0 rfl)).1
          rw [hT, ominList_append_ge _ _ hs]
          exact ⟨v, hv, hcst⟩
        · rw [if_neg hK0] at h
          have hK1 : K = 1 := by omega
          subst hK1
          rcases hp with rfl | rfl
          · simp only [Option.isSome_none, Bool.false_eq_true, if_false] at h
            obtain ⟨v, hv, hcst⟩ := ihR lo hi (1 - 1) (cv (hCtxOf N c0 c1 c) (1 - 1)) spine evs (by omega)
              (le_refl _) hlt hl h
            rw [ht_tab] at hv
            have hT : (hoptTable (N - 1) c0 c1 0 c.wd 0 c.rd c.ub c.uf).optp 1 (hi - lo - 1) cm =
                ominList (hOther (hCtxOf N c0 c1 c) 1 (hi - lo - 1) ::
                  hCands (hCtxOf N c0 c1 c) 1 cm (hi - lo - 1)) :=
              (hopt1_rec (N - 1) c0 c1 0 c.wd 0 c.rd c.ub c.uf _ cm (by omega) hl hcmpos (hcm1' rfl)).1
            rw [hT, ominList_cons_ge _ _ hs]
            exact ⟨v, hv, by simpa [pw] using hcst⟩
          · simp at h

/-! ## the table entries do not depend on the number of disk columns built -/

section indep
variable (lmax c0 c1 c1' w0 w1 r0 r1 ub uf : Nat)

theorem hopt1_indep (hcc : c1 ≤ c1') : ∀ m, m ≤ c1 → ∀ l, l ≤ lmax →
    (hoptTable lmax c0 c1 w0 w1 r0 r1 ub uf).opt 1 l m =
      (hoptTable lmax c0 c1' w0 w1 r0 r1 ub uf).opt 1 l m ∧
    (hoptTable lmax c0 c1 w0 w1 r0 r1 ub uf).optp 1 l m =
      (hoptTable lmax c0 c1' w0 w1 r0 r1 ub uf).optp 1 l m := by
  have e0 : ∀ l m, (hoptTable lmax c0 c1 w0 w1 r0 r1 ub uf).opt 0 l m =
      (hoptTable lmax c0 c1' w0 w1 r0 r1 ub uf).opt 0 l m := by
    intro l m; rw [hopt_opt0, hopt_opt0]
  intro m
  induction m with
  | zero =>
    intro _ l hl
    rcases Nat.lt_or_ge l 2 with hl2 | hl2
    · rcases Nat.eq_zero_or_pos l with rfl | hl1
      · obtain ⟨a, b⟩ := hopt1_row0 lmax c0 c1 w0 w1 r0 r1 ub uf 0 (Nat.zero_le _)
        obtain ⟨a', b'⟩ := hopt1_row0 lmax c0 c1' w0 w1 r0 r1 ub uf 0 (Nat.zero_le _)
        rw [a, b, a', b']; exact ⟨rfl, rfl⟩
      · have : l = 1 := by omega
        subst this
        obtain ⟨a, b⟩ := hopt1_row1_col0 lmax c0 c1 w0 w1 r0 r1 ub uf hl
        obtain ⟨a', b'⟩ := hopt1_row1_col0 lmax c0 c1' w0 w1 r0 r1 ub uf hl
        rw [a, b, a', b']; exact ⟨rfl, rfl⟩
    · obtain ⟨a, b⟩ := hopt1_col0 lmax c0 c1 w0 w1 r0 r1 ub uf l hl2 hl
      obtain ⟨a', b'⟩ := hopt1_col0 lmax c0 c1' w0 w1 r0 r1 ub uf l hl2 hl
      rw [a, b, a', b', e0]; exact ⟨rfl, rfl⟩
  | succ m ihm =>
    intro hm l
    induction l using Nat.strong_induction_on with
    | _ l ihl =>
      intro hl
      rcases Nat.eq_zero_or_pos l with rfl | hl1
      · obtain ⟨a, b⟩ := hopt1_row0 lmax c0 c1 w0 w1 r0 r1 ub uf (m + 1) hm
        obtain ⟨a', b'⟩ := hopt1_row0 lmax c0 c1' w0 w1 r0 r1 ub uf (m + 1) (by omega)
        rw [a, b, a', b']; exact ⟨rfl, rfl⟩
      · obtain ⟨p1, o1⟩ := hopt1_rec lmax c0 c1 w0 w1 r0 r1 ub uf l (m + 1) hl1 hl (by omega) hm
        obtain ⟨p2, o2⟩ := hopt1_rec lmax c0 c1' w0 w1 r0 r1 ub uf l (m + 1) hl1 hl (by omega) (by omega)
        have hp : (hoptTable lmax c0 c1 w0 w1 r0 r1 ub uf).optp 1 l (m + 1) =
            (hoptTable lmax c0 c1' w0 w1 r0 r1 ub uf).optp 1 l (m + 1) := by
          rw [p1, p2, e0]
          congr 2
          apply map_congr_left
          intro j hj
          have hjr := mem_range'_1.1 hj
          rw [Nat.add_sub_cancel, (ihm (by omega) (l - j) (by omega)).1,
            (ihl (j - 1) (by omega) (by omega)).2]
        exact ⟨by rw [o1, o2, e0, hp], hp⟩

end indep

/-! ## the stream of `HRevolveCheckpointSchedule` -/

/-- C07 for HRevolve: the cost of the stream is the table entry `opt[1][N-1][c1]` (plus the `N` steps
of the initial forward sweep); the entry is finite. -/
theorem hrevolve_cost (N c0 c1 : Nat) (c : Costs) (hN : 1 ≤ N) (hc0 : 1 ≤ c0) (evs : List Ev)
    (h : hrevolveEvs N c0 c1 c = .ok evs) :
    ∃ v, (hoptTable (N - 1) c0 c1 0 c.wd 0 c.rd c.ub c.uf).opt 1 (N - 1) c1 = some v ∧
      cost c evs = v + N * c.uf := by
  rw [hrevolveEvs_eq] at h
  have hres := resolveLoads_hR (hCtxOf N c0 c1 c) (4 * N + 8) 0 N 1 c1 true (le_refl _)
  cases hr : hR (hCtxOf N c0 c1 c) (4 * N + 8) 0 N 1 c1 true with
  | none => rw [hr] at h; cases h
  | some ops =>
    rw [hr] at h hres
    injection h with h
    rw [Option.map_some] at hres
    obtain ⟨v, hv, hc⟩ := (hcost_main N c0 c1 c hc0 (4 * N + 8)).1 0 N 1 c1 true (resolveLoads ops)
      (le_refl _) (le_refl _) (by omega) (by omega) hres.symm
    rw [ht_tab] at hv
    refine ⟨v, hv, ?_⟩
    rw [← h, cost_append, hc]
    simp [evCost]

theorem hrevolve_cost_getD (N c0 c1 : Nat) (c : Costs) (hN : 1 ≤ N) (hc0 : 1 ≤ c0) (evs : List Ev)
    (h : hrevolveEvs N c0 c1 c = .ok evs) :
    cost c evs =
      ((hoptTable (N - 1) c0 c1 0 c.wd 0 c.rd c.ub c.uf).opt 1 (N - 1) c1).getD 0 + N * c.uf := by
  obtain ⟨v, hv, hc⟩ := hrevolve_cost N c0 c1 c hN hc0 evs h
  rw [hv, hc]; rfl

/-- C07: more disk units never cost more -/
theorem hrevolve_more_disk (N c0 c1 c1' : Nat) (c : Costs) (hN : 1 ≤ N) (hc0 : 1 ≤ c0)
    (hcc : c1 ≤ c1') (evs evs' : List Ev) (h : hrevolveEvs N c0 c1 c = .ok evs)
    (h' : hrevolveEvs N c0 c1' c = .ok evs') : cost c evs' ≤ cost c evs := by
  obtain ⟨v, hv, hc⟩ := hrevolve_cost N c0 c1 c hN hc0 evs h
  obtain ⟨v', hv', hc'⟩ := hrevolve_cost N c0 c1' c hN hc0 evs' h'
  have hanti := hopt1_antitone (N - 1) c0 c1' 0 c.wd 0 c.rd c.ub c.uf hc0 (N - 1) c1 c1' (le_refl _)
    hcc (le_refl _)
  rw [← (hopt1_indep (N - 1) c0 c1 c1' 0 c.wd 0 c.rd c.ub c.uf hcc c1 (le_refl _) (N - 1)
    (le_refl _)).1, hv, hv'] at hanti
  have : v' ≤ v := by simpa [ole, olt] using hanti
  omega

/-- C07: HRevolve with any number of disk units never costs more than with none, which is the
level-0 (RAM only) optimum -/
theorem hrevolve_le_level0 (N c0 c1 : Nat) (c : Costs) (hN : 1 ≤ N) (hc0 : 1 ≤ c0) (evs : List Ev)
    (h : hrevolveEvs N c0 c1 c = .ok evs) :
    ∃ v0, (hoptTable (N - 1) c0 c1 0 c.wd 0 c.rd c.ub c.uf).opt 0 (N - 1) c0 = some v0 ∧
      cost c evs ≤ v0 + N * c.uf := by
  obtain ⟨v, hv, hc⟩ := hrevolve_cost N c0 c1 c hN hc0 evs h
  have hle := hopt1_le_level0 (N - 1) c0 c1 0 c.wd 0 c.rd c.ub c.uf hc0 (N - 1) c1 (le_refl _) (le_refl _)
  obtain ⟨v0, hv0⟩ := Option.isSome_iff_exists.1
    (hopt0_isSome (N - 1) c0 c1 0 c.wd 0 c.rd c.ub c.uf hc0 (N - 1) c0 (le_refl _) hc0 (le_refl _)).2
  rw [hv, hv0] at hle
  have : v ≤ v0 := by simpa [ole, olt] using hle
  exact ⟨v0, hv0, by omega⟩

-- a concrete instance: N = 9, one RAM unit, 2 disk units, wd = 2, rd = 1: cost 34 + 9
example : (match hrevolveEvs 9 1 2 ⟨1, 1, 2, 1⟩ with | .ok e => cost ⟨1, 1, 2, 1⟩ e | .error _ => 0) =
    ((hoptTable 8 1 2 0 2 0 1 1 1).opt 1 8 2).getD 0 + 9 := by decide +kernel

end Ckpt.RC
