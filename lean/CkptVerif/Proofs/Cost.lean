import CkptVerif.Model.Revolve
/-! # The cost of a stream

`uf`/`ub` per forward/backward step, `wd` per checkpoint written to DISK, `rd` per checkpoint read
from DISK; RAM transfers are free (the cost model of the Revolve family). -/
namespace Ckpt.RC

def evCost (c : Costs) (e : Ev) : Nat :=
  match e.act with
  | .forward n0 n1 _ _ st => (n1 - n0) * c.uf + (if st = .disk then c.wd else 0)
  | .reverse n1 n0 _ => (n1 - n0) * c.ub
  | .copy _ src _ => if src = .disk then c.rd else 0
  | .move _ src _ => if src = .disk then c.rd else 0
  | _ => 0

def cost (c : Costs) (evs : List Ev) : Nat := (evs.map (evCost c)).sum

@[simp] theorem cost_nil (c : Costs) : cost c [] = 0 := rfl

@[simp] theorem cost_cons (c : Costs) (e : Ev) (evs : List Ev) :
    cost c (e :: evs) = evCost c e + cost c evs := by
  simp [cost]

@[simp] theorem cost_append (c : Costs) (as bs : List Ev) :
    cost c (as ++ bs) = cost c as + cost c bs := by
  simp [cost]

theorem cost_singleton (c : Costs) (e : Ev) : cost c [e] = evCost c e := by simp

example : cost ⟨3, 5, 7, 11⟩
    [⟨.forward 0 2 true false .disk, 2, 0⟩, ⟨.forward 2 3 false true .work, 3, 0⟩,
     ⟨.reverse 3 2 true, 3, 1⟩, ⟨.move 0 .disk .work, 0, 1⟩] = (2 * 3 + 7) + 3 + 5 + 11 := by decide

end Ckpt.RC
