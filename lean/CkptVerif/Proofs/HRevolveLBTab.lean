import CkptVerif.Proofs.LBPlans
import CkptVerif.Model.Revolve
import Mathlib.Tactic
/-!
# Achievable costs of hierarchical (two-level) reversal strategies

`A c false k n m v`  ("T"):  `v` is the cost (forward steps at `uf`, disk writes at `wd`, disk reads at `rd`;
the `ub` per reversed step is left out) of a hierarchical strategy that reverses `n` steps, the first
state being in working storage, with `k` free RAM units and `m` free DISK units.
`A c true k n m v`  ("T'"): the same when the first state is in working storage AND already stored on
DISK in one of the `m` units (`m ≥ 1`).

The constructors are the recurrences of the two-level H-Revolve table (with `c0 := k` RAM units);
for `k = 0` the last step of a split may be a single step (no storage needed for it).

Main results: monotonicity in `k` and `m`, `T' ≤ T`, the increment lemmas and the **RAM recurrence
inequality** `star`: `T_k(n,m) ≤ j·uf + T_k(j,m) + T_{k-1}(n-j,m)`.
-/
namespace Ckpt.HLB
open Ckpt.GW

/-- all-RAM cost of `n` steps with `k` RAM units (meaningful for `k ≥ 1` or `n = 1`) -/
def Rr (c : Costs) (n k : Nat) : Nat := c.uf * gwT n k

theorem Rr_one (c : Costs) (k : Nat) : Rr c 1 k = c.uf := by
  unfold Rr; rw [gwT_one]; omega

theorem Rr_rec (c : Costs) (n k i : Nat) (hk : 1 ≤ k) (h1 : 1 ≤ i) (h2 : i < n)
    (h0 : k = 1 → n - i = 1) : Rr c n k ≤ i * c.uf + Rr c i k + Rr c (n - i) (k - 1) := by
  unfold Rr
  have h := Nat.mul_le_mul_left c.uf (gwT_rec_le1 n k i hk h1 h2 h0)
  have e : c.uf * (i + gwT i k + gwT (n - i) (k - 1)) =
      i * c.uf + c.uf * gwT i k + c.uf * gwT (n - i) (k - 1) := by ring
  omega

theorem Rr_anti (c : Costs) (n k : Nat) (hk : 1 ≤ k) (hn : 1 ≤ n) : Rr c n (k + 1) ≤ Rr c n k := by
  unfold Rr
  exact Nat.mul_le_mul_left c.uf (gwT_anti k hk n hn)

theorem Rr_ge (c : Costs) (n k : Nat) (hn : 1 ≤ n) : c.uf ≤ Rr c n k := by
  unfold Rr
  have := gwT_ge n k
  calc c.uf = c.uf * 1 := by omega
    _ ≤ c.uf * gwT n k := Nat.mul_le_mul_left c.uf (by omega)

/-- achievable costs; the `Bool` says whether the first state is already on DISK -/
inductive A (c : Costs) : Bool → Nat → Nat → Nat → Nat → Prop
  | t_one (k m : Nat) : A c false k 1 m c.uf
  | t_ram (k n m : Nat) (hk : 1 ≤ k) (hn : 2 ≤ n) : A c false k n m (Rr c n k)
  | t_disk (k n m v : Nat) (hm : 1 ≤ m) (h : A c true k n m v) : A c false k n m (c.wd + v)
  | p_one (k m : Nat) (hm : 1 ≤ m) : A c true k 1 m c.uf
  | p_ram (k n m : Nat) (hk : 1 ≤ k) (hn : 2 ≤ n) (hm : 1 ≤ m) : A c true k n m (Rr c n k)
  | p_split (k n m j v1 v2 : Nat) (hm : 1 ≤ m) (hj1 : 1 ≤ j) (hj2 : j < n) (hjk : 1 ≤ k → j + 2 ≤ n)
      (h1 : A c false k (n - j) (m - 1) v1) (h2 : A c true k j m v2) :
      A c true k n m (j * c.uf + v1 + c.rd + v2)

theorem A_false_inv {c : Costs} {k n m v : Nat} (h : A c false k n m v) :
    (n = 1 ∧ v = c.uf) ∨ (1 ≤ k ∧ 2 ≤ n ∧ v = Rr c n k) ∨
      (1 ≤ m ∧ ∃ v', A c true k n m v' ∧ v = c.wd + v') := by
  cases h with
  | t_one => exact Or.inl ⟨rfl, rfl⟩
  | t_ram _ _ _ hk hn => exact Or.inr (Or.inl ⟨hk, hn, rfl⟩)
  | t_disk _ _ _ v' hm h' => exact Or.inr (Or.inr ⟨hm, v', h', rfl⟩)

theorem A_true_inv {c : Costs} {k n m v : Nat} (h : A c true k n m v) :
    1 ≤ m ∧ ((n = 1 ∧ v = c.uf) ∨ (1 ≤ k ∧ 2 ≤ n ∧ v = Rr c n k) ∨
      ∃ j v1 v2, 1 ≤ j ∧ j < n ∧ (1 ≤ k → j + 2 ≤ n) ∧ A c false k (n - j) (m - 1) v1 ∧
        A c true k j m v2 ∧ v = j * c.uf + v1 + c.rd + v2) := by
  cases h with
  | p_one _ _ hm => exact ⟨hm, Or.inl ⟨rfl, rfl⟩⟩
  | p_ram _ _ _ hk hn hm => exact ⟨hm, Or.inr (Or.inl ⟨hk, hn, rfl⟩)⟩
  | p_split _ _ _ j v1 v2 hm hj1 hj2 hjk h1 h2 =>
    exact ⟨hm, Or.inr (Or.inr ⟨j, v1, v2, hj1, hj2, hjk, h1, h2, rfl⟩)⟩

/-- the number of steps is positive -/
theorem A_pos {c : Costs} {p : Bool} {k n m v : Nat} (h : A c p k n m v) : 1 ≤ n := by
  induction h with
  | t_one => exact le_refl _
  | t_ram _ _ _ _ hn => omega
  | t_disk _ _ _ _ _ _ ih => exact ih
  | p_one => exact le_refl _
  | p_ram _ _ _ _ hn _ => omega
  | p_split _ _ _ _ _ _ _ hj1 hj2 _ _ _ _ _ => omega

/-- every achievable cost is at least one forward step -/
theorem A_ge_uf {c : Costs} {p : Bool} {k n m v : Nat} (h : A c p k n m v) : c.uf ≤ v := by
  induction h with
  | t_one => exact le_refl _
  | t_ram _ n _ _ hn => exact Rr_ge c n _ (by omega)
  | t_disk _ _ _ _ _ _ ih => omega
  | p_one => exact le_refl _
  | p_ram _ n _ _ hn _ => exact Rr_ge c n _ (by omega)
  | p_split _ _ _ _ _ _ _ _ _ _ _ _ ih1 ih2 => omega

/-- all-RAM strategy, `n ≥ 1` -/
theorem A_ram' (c : Costs) (k n m : Nat) (hk : 1 ≤ k) (hn : 1 ≤ n) : A c false k n m (Rr c n k) := by
  rcases Nat.eq_or_lt_of_le hn with h1 | h2
  · subst h1; rw [Rr_one]; exact A.t_one k m
  · exact A.t_ram k n m hk h2

theorem Ap_ram' (c : Costs) (k n m : Nat) (hk : 1 ≤ k) (hn : 1 ≤ n) (hm : 1 ≤ m) :
    A c true k n m (Rr c n k) := by
  rcases Nat.eq_or_lt_of_le hn with h1 | h2
  · subst h1; rw [Rr_one]; exact A.p_one k m hm
  · exact A.p_ram k n m hk h2 hm

/-- the all-RAM value as an achievable cost (`k ≥ 1`, or a single step) -/
theorem A_R (c : Costs) (k n m : Nat) (h : 1 ≤ k ∨ n = 1) (hn : 1 ≤ n) : A c false k n m (Rr c n k) := by
  rcases Nat.eq_or_lt_of_le hn with h1 | h2
  · subst h1; rw [Rr_one]; exact A.t_one k m
  · rcases h with hk | h1
    · exact A.t_ram k n m hk h2
    · omega

/-! ## monotonicity in the number of disk units, `T' ≤ T` -/

theorem A_mono_m {c : Costs} {p : Bool} {k n m v : Nat} (h : A c p k n m v) :
    ∃ v', v' ≤ v ∧ A c p k n (m + 1) v' := by
  induction h with
  | t_one k m => exact ⟨_, le_refl _, A.t_one k (m + 1)⟩
  | t_ram k n m hk hn => exact ⟨_, le_refl _, A.t_ram k n (m + 1) hk hn⟩
  | t_disk k n m v hm _ ih =>
    obtain ⟨v', hv, h'⟩ := ih
    exact ⟨c.wd + v', by omega, A.t_disk k n (m + 1) v' (by omega) h'⟩
  | p_one k m hm => exact ⟨_, le_refl _, A.p_one k (m + 1) (by omega)⟩
  | p_ram k n m hk hn hm => exact ⟨_, le_refl _, A.p_ram k n (m + 1) hk hn (by omega)⟩
  | p_split k n m j v1 v2 hm hj1 hj2 hjk h1 h2 ih1 ih2 =>
    obtain ⟨w1, hw1, g1⟩ := ih1
    obtain ⟨w2, hw2, g2⟩ := ih2
    have e : m - 1 + 1 = m + 1 - 1 := by omega
    rw [e] at g1
    exact ⟨j * c.uf + w1 + c.rd + w2, by omega,
      A.p_split k n (m + 1) j w1 w2 (by omega) hj1 hj2 hjk g1 g2⟩

/-- a strategy that does not need the disk copy of the first state can ignore it -/
theorem prime_le {c : Costs} {k n m v : Nat} (h : A c false k n m v) (hm : 1 ≤ m) :
    ∃ v', v' ≤ v ∧ A c true k n m v' := by
  rcases A_false_inv h with ⟨rfl, rfl⟩ | ⟨hk, hn, rfl⟩ | ⟨_, v', h', rfl⟩
  · exact ⟨_, le_refl _, A.p_one k m hm⟩
  · exact ⟨_, le_refl _, A.p_ram k n m hk hn hm⟩
  · exact ⟨v', by omega, h'⟩

/-! ## the RAM recurrence inequality -/

/-- `T_k(n,m) ≤ j·uf + T_k(j,m) + T_{k-1}(n-j,m)` for totals of `n` steps -/
def Star (c : Costs) (n : Nat) : Prop :=
  ∀ k m j v1 v2, 1 ≤ k → 1 ≤ j → j < n → A c false k j m v1 → A c false (k - 1) (n - j) m v2 →
    ∃ v, A c false k n m v ∧ v ≤ j * c.uf + v1 + v2

/-- a RAM unit is at least as good as the disk unit holding the first state -/
theorem wex (c : Costs) (N : Nat) (hS : ∀ n, n < N → Star c n) :
    ∀ j, j < N → ∀ k m w, 1 ≤ k → A c true (k - 1) j m w →
      ∃ w', w' ≤ w ∧ A c false k j (m - 1) w' := by
  intro j
  induction j using Nat.strong_induction_on with
  | _ j ih =>
    intro hjN k m w hk h
    obtain ⟨hm, hcase⟩ := A_true_inv h
    rcases hcase with ⟨rfl, rfl⟩ | ⟨hk1, hj, rfl⟩ | ⟨j', a1, a2, hj1, hj2, _, h1, h2, rfl⟩
    · exact ⟨_, le_refl _, A.t_one k (m - 1)⟩
    · refine ⟨Rr c j k, ?_, A.t_ram k j (m - 1) hk hj⟩
      have := Rr_anti c j (k - 1) hk1 (by omega)
      have e : k - 1 + 1 = k := by omega
      rw [e] at this
      exact this
    · obtain ⟨a2', ha2, g2⟩ := ih j' hj2 (by omega) k m a2 hk h2
      obtain ⟨v, hv, hle⟩ := hS j hjN k (m - 1) j' a2' a1 hk hj1 hj2 g2 h1
      exact ⟨v, by omega, hv⟩

/-- normal forms of the cost of the right part -/
theorem v2norm (c : Costs) (N : Nat) (hS : ∀ n, n < N → Star c n) :
    ∀ n', n' < N → ∀ k m v2, 1 ≤ k → A c false (k - 1) n' m v2 →
      (n' = 1 ∧ c.uf ≤ v2) ∨ (2 ≤ k ∧ 2 ≤ n' ∧ Rr c n' (k - 1) ≤ v2) ∨
      (1 ≤ m ∧ 2 ≤ n' ∧ ∃ w, A c false k n' (m - 1) w ∧ c.wd + w + c.rd ≤ v2) := by
  intro n' hn' k m v2 hk h
  rcases A_false_inv h with ⟨rfl, rfl⟩ | ⟨hk1, hn, rfl⟩ | ⟨hm, v', hp, rfl⟩
  · exact Or.inl ⟨rfl, le_refl _⟩
  · exact Or.inr (Or.inl ⟨by omega, hn, le_refl _⟩)
  · obtain ⟨_, hcase⟩ := A_true_inv hp
    rcases hcase with ⟨rfl, rfl⟩ | ⟨hk1, hn, rfl⟩ | ⟨j', w1, w2, hj1, hj2, _, h1, h2, rfl⟩
    · exact Or.inl ⟨rfl, by omega⟩
    · exact Or.inr (Or.inl ⟨by omega, hn, by omega⟩)
    · obtain ⟨w2', hw2, g2⟩ := wex c N hS j' (by omega) k m w2 hk h2
      obtain ⟨w, hw, hle⟩ := hS n' hn' k (m - 1) j' w2' w1 hk hj1 hj2 g2 h1
      exact Or.inr (Or.inr ⟨hm, by omega, w, hw, by omega⟩)

theorem mul_split (a b u : Nat) (h : a ≤ b) : a * u + (b - a) * u = b * u := by
  rw [← Nat.add_mul]; congr 1; omega

/-- the recurrence inequality when the first state is on disk and the right part is all-RAM -/
theorem ss (c : Costs) (N : Nat) (hS : ∀ n, n < N → Star c n) (k m n j v1 : Nat) (hnN : n ≤ N)
    (hk : 1 ≤ k) (hj1 : 1 ≤ j) (hj2 : j < n) (h0 : k = 1 → n - j = 1) (h : A c true k j m v1) :
    ∃ v', A c true k n m v' ∧ v' ≤ j * c.uf + v1 + Rr c (n - j) (k - 1) := by
  obtain ⟨hm, hcase⟩ := A_true_inv h
  rcases hcase with ⟨rfl, rfl⟩ | ⟨_, _, rfl⟩ | ⟨j', w1, w2, hj1', hj2', hjk', h1, h2, rfl⟩
  · refine ⟨Rr c n k, A.p_ram k n m hk (by omega) hm, ?_⟩
    have := Rr_rec c n k 1 hk (le_refl _) hj2 h0
    rw [Rr_one] at this
    omega
  · exact ⟨Rr c n k, A.p_ram k n m hk (by omega) hm, Rr_rec c n k j hk hj1 hj2 h0⟩
  · have hR : A c false (k - 1) (n - j' - (j - j')) (m - 1) (Rr c (n - j) (k - 1)) := by
      have e : n - j' - (j - j') = n - j := by omega
      rw [e]
      apply A_R
      · by_cases hk1 : k = 1
        · right; exact h0 hk1
        · left; omega
      · omega
    obtain ⟨w1', hw1, hle⟩ := hS (n - j') (by omega) k (m - 1) (j - j') w1 _ hk (by omega) (by omega) h1 hR
    refine ⟨j' * c.uf + w1' + c.rd + w2,
      A.p_split k n m j' w1' w2 hm hj1' (by omega) (fun hk' => by have := hjk' hk'; omega) hw1 h2, ?_⟩
    have := mul_split j' j c.uf (by omega)
    omega

theorem star_step (c : Costs) (N : Nat) (hS : ∀ n, n < N → Star c n) : Star c N := by
  intro k m j v1 v2 hk hj1 hj2 h1 h2
  -- the case "right part all-RAM (or a single step)"
  have ramcase : Rr c (N - j) (k - 1) ≤ v2 → (k = 1 → N - j = 1) →
      ∃ v, A c false k N m v ∧ v ≤ j * c.uf + v1 + v2 := by
    intro hR h0
    rcases A_false_inv h1 with ⟨rfl, rfl⟩ | ⟨_, _, rfl⟩ | ⟨hm, v1', hp, rfl⟩
    · refine ⟨Rr c N k, A.t_ram k N m hk (by omega), ?_⟩
      have := Rr_rec c N k 1 hk (le_refl _) hj2 h0
      rw [Rr_one] at this
      omega
    · refine ⟨Rr c N k, A.t_ram k N m hk (by omega), ?_⟩
      have := Rr_rec c N k j hk hj1 hj2 h0
      omega
    · obtain ⟨v', hv', hle⟩ := ss c N hS k m N j v1' (le_refl _) hk hj1 hj2 h0 hp
      exact ⟨c.wd + v', A.t_disk k N m v' hm hv', by omega⟩
  rcases v2norm c N hS (N - j) (by omega) k m v2 hk h2 with ⟨hn1, hv2⟩ | ⟨hk2, hn2, hv2⟩ |
      ⟨hm, hn2, w, hw, hv2⟩
  · apply ramcase
    · rw [hn1, Rr_one]; exact hv2
    · intro _; exact hn1
  · apply ramcase hv2
    intro hk1; omega
  · obtain ⟨u, hu, hpu⟩ := prime_le h1 hm
    refine ⟨c.wd + (j * c.uf + w + c.rd + u),
      A.t_disk k N m _ hm (A.p_split k N m j w u hm hj1 hj2 (fun _ => by omega) hw hpu), by omega⟩

theorem star (c : Costs) : ∀ n, Star c n := by
  intro n
  induction n using Nat.strong_induction_on with
  | _ n ih => exact star_step c n ih

/-! ## increments, general splits, monotonicity in the number of RAM units -/

theorem inc_T {c : Costs} {k n m v : Nat} (h : A c false k n m v) (hk : 1 ≤ k) :
    ∃ v', A c false k (n + 1) m v' ∧ v' ≤ v + n * c.uf + c.uf := by
  have hn := A_pos h
  have h1 : A c false (k - 1) (n + 1 - n) m c.uf := by
    have e : n + 1 - n = 1 := by omega
    rw [e]; exact A.t_one _ _
  obtain ⟨v', hv', hle⟩ := star c (n + 1) k m n v c.uf hk hn (by omega) h h1
  exact ⟨v', hv', by omega⟩

theorem inc_P {c : Costs} {k n m v : Nat} (h : A c true k n m v) (hk : 1 ≤ k) :
    ∃ v', A c true k (n + 1) m v' ∧ v' ≤ v + n * c.uf + c.uf := by
  obtain ⟨hm, hcase⟩ := A_true_inv h
  rcases hcase with ⟨rfl, rfl⟩ | ⟨_, hn, rfl⟩ | ⟨j, v1, v2, hj1, hj2, hjk, h1, h2, rfl⟩
  · refine ⟨Rr c 2 k, A.p_ram k 2 m hk (le_refl _) hm, ?_⟩
    unfold Rr; rw [gwT_two k hk]; omega
  · refine ⟨Rr c (n + 1) k, A.p_ram k (n + 1) m hk (by omega) hm, ?_⟩
    have := Rr_rec c (n + 1) k n hk (by omega) (by omega) (fun _ => by omega)
    have e : n + 1 - n = 1 := by omega
    rw [e, Rr_one] at this
    omega
  · obtain ⟨v1', hv1, hle⟩ := inc_T h1 hk
    have e : n - j + 1 = n + 1 - j := by omega
    rw [e] at hv1
    have hjk' := hjk hk
    refine ⟨j * c.uf + v1' + c.rd + v2,
      A.p_split k (n + 1) m j v1' v2 hm hj1 (by omega) (fun _ => by omega) hv1 h2, ?_⟩
    have : (n - j) * c.uf ≤ n * c.uf := Nat.mul_le_mul_right _ (by omega)
    omega

/-- a split whose right part may be a single step, for every `k` -/
theorem p_split_le {c : Costs} {k j n' m v1 v2 : Nat} (h2 : A c true k j m v2)
    (h1 : A c false k n' (m - 1) v1) :
    ∃ p, A c true k (j + n') m p ∧ p ≤ j * c.uf + v1 + c.rd + v2 := by
  have hj := A_pos h2
  have hn' := A_pos h1
  obtain ⟨hm, _⟩ := A_true_inv h2
  by_cases hcase : 1 ≤ k ∧ n' = 1
  · obtain ⟨hk, rfl⟩ := hcase
    obtain ⟨p, hp, hle⟩ := inc_P h2 hk
    have := A_ge_uf h1
    exact ⟨p, hp, by omega⟩
  · have e : j + n' - j = n' := by omega
    refine ⟨_, A.p_split k (j + n') m j v1 v2 hm hj (by omega) (fun hk => by omega) (by rw [e]; exact h1) h2,
      le_refl _⟩

theorem A_mono_k {c : Costs} {p : Bool} {k n m v : Nat} (h : A c p k n m v) :
    ∃ v', v' ≤ v ∧ A c p (k + 1) n m v' := by
  induction h with
  | t_one k m => exact ⟨_, le_refl _, A.t_one (k + 1) m⟩
  | t_ram k n m hk hn => exact ⟨_, Rr_anti c n k hk (by omega), A.t_ram (k + 1) n m (by omega) hn⟩
  | t_disk k n m v hm _ ih =>
    obtain ⟨v', hv, h'⟩ := ih
    exact ⟨c.wd + v', by omega, A.t_disk (k + 1) n m v' hm h'⟩
  | p_one k m hm => exact ⟨_, le_refl _, A.p_one (k + 1) m hm⟩
  | p_ram k n m hk hn hm =>
    exact ⟨_, Rr_anti c n k hk (by omega), A.p_ram (k + 1) n m (by omega) hn hm⟩
  | p_split k n m j v1 v2 hm hj1 hj2 hjk h1 h2 ih1 ih2 =>
    obtain ⟨w1, hw1, g1⟩ := ih1
    obtain ⟨w2, hw2, g2⟩ := ih2
    obtain ⟨p, hp, hle⟩ := p_split_le g2 g1
    have e : j + (n - j) = n := by omega
    rw [e] at hp
    exact ⟨p, by omega, hp⟩

theorem A_mono {c : Costs} {p : Bool} {k n m v : Nat} (h : A c p k n m v) :
    ∀ k' m', k ≤ k' → m ≤ m' → ∃ v', v' ≤ v ∧ A c p k' n m' v' := by
  intro k' m' hk hm
  obtain ⟨dk, rfl⟩ := Nat.exists_eq_add_of_le hk
  obtain ⟨dm, rfl⟩ := Nat.exists_eq_add_of_le hm
  clear hk hm
  induction dk with
  | zero =>
    induction dm with
    | zero => exact ⟨v, le_refl _, h⟩
    | succ d ih =>
      obtain ⟨v', hv, h'⟩ := ih
      obtain ⟨v'', hv', h''⟩ := A_mono_m h'
      exact ⟨v'', by omega, h''⟩
  | succ d ih =>
    obtain ⟨v', hv, h'⟩ := ih
    obtain ⟨v'', hv', h''⟩ := A_mono_k h'
    exact ⟨v'', by omega, h''⟩

end Ckpt.HLB

#print axioms Ckpt.HLB.star
#print axioms Ckpt.HLB.A_mono
