import CkptVerif.Proofs.RevolveOptimal
import CkptVerif.Proofs.DiskCost
import CkptVerif.Proofs.HRevolveCost
import CkptVerif.Proofs.SegLabels
/-!
# C07 for DiskRevolve / HRevolve: in which sense the DP values are optima

`Proofs/RevolveOptimal.lean` proves that the value of the memory-only table `opt0` is a lower bound
for the cost of EVERY complete stream the executor accepts (restart data only).  The same statement for
the Disk-Revolve table `optInf` (the variant `one_read_disk = True` the library uses) and for the
H-Revolve table `hopt` is **false**; this file contains the kernel-checked counterexamples and the
exact boundary found by exhaustive search (`/tmp/agentG/search`, Dijkstra over the executor's rules):

* `cexCopyToDisk` (N = 4, one RAM unit, `uf,ub,wd,rd = 1,1,2,0`): the cost model of
  `Proofs/Cost.lean` charges `wd` only for checkpoints a `Forward` writes to DISK; a `Copy RAM → DISK`
  is free.  A stream that uses it costs 13 < 14 = `optInf + N·uf` = cost of the DiskRevolve stream; the
  same stream beats the H-Revolve table for one disk unit.  This is a gap of the cost model, closed by
  `obsCostT` (which charges `wd` for every transfer into DISK).
* `cexMultiRead` (N = 6, one RAM unit): the disk checkpoint at step 0 is read twice (a `Copy` out of
  DISK, later the `Move`).  With `uf,ub,wd,rd = 1,1,2,0` it costs 22 < 23, with `3,1,5,1` (all costs
  positive) 55 < 57 — also for `obsCostT`: `optInf` (one read per disk checkpoint) is NOT a lower bound
  over all accepted streams, in any reasonable cost model.  N = 6 is the smallest such N.
* `diskRevolve_oneRead`: the DiskRevolve stream never copies out of DISK and never transfers into
  DISK: it lies in the class `OneRead` ("each disk checkpoint is written by a `Forward` and read once,
  by the `Move` that removes it").

Found by exhaustive search, NOT proved (stated as `Prop`s below, never used as hypotheses):
* `DiskOneReadOptimal`: in the class `OneRead` the table `optInf` IS a lower bound
  (`cm = 1`: `N ≤ 8`, `cm = 2`: `N ≤ 7`, 20 cost vectors with `uf ≠ ub`, `wd ≠ rd`, zero and large
  disk costs); with `diskRevolve_attains` (proved): "DiskRevolve attains the optimum of the class
  `OneRead`".
* over ALL accepted streams the minimum of `obsCostT` is the library's multi-read table
  (`get_opt_inf_table(…, one_read_disk=False)`), same range; the two tables differ from `N = 6` on
  (`cm = 1`) and only when `wd > uf`;
* `HRevolveOptimalT`: `hopt[1][N-1][c1] + N·uf` is the minimum of `obsCostT` over all accepted streams
  of `cfgHRevolve c0 c1 N` (`(c0, c1) ∈ {(1,1), (1,2), (1,3), (2,1), (2,2)}`, `N ≤ 10`, same cost
  vectors); for `c1 = 0` this is proved (`Proofs/HRevolveNoDisk.lean`).
-/
namespace Ckpt.LB7
open Ckpt.RC Ckpt.GW

/-! ## the transfer-aware cost, and the class `OneRead` -/

/-- the action puts a stored checkpoint into DISK by a `Copy`/`Move` (not by a `Forward`) -/
def transfersToDisk : Action → Bool
  | .copy _ _ dst => decide (dst = .disk)
  | .move _ _ dst => decide (dst = .disk)
  | _ => false

/-- the action reads a DISK checkpoint and leaves it on DISK -/
def copiesFromDisk : Action → Bool
  | .copy _ src _ => decide (src = .disk)
  | _ => false

/-- `actCost` plus `wd` for a transfer into DISK -/
def actCostT (c : Costs) (a : Action) : Nat := actCost c a + (if transfersToDisk a then c.wd else 0)

/-- transfer-aware cost of a stream: `uf`/`ub` per forward/reversed step, `wd` per checkpoint that
arrives on DISK (by `Forward`, `Copy` or `Move`), `rd` per `Copy`/`Move` out of DISK -/
def obsCostT (c : Costs) (os : List Obs) : Nat := (os.map (fun o => actCostT c o.act)).sum

theorem obsCostT_cons (c : Costs) (o : Obs) (os : List Obs) :
    obsCostT c (o :: os) = actCostT c o.act + obsCostT c os := by
  unfold obsCostT; rw [List.map_cons, List.sum_cons]

theorem obsCost_le_obsCostT (c : Costs) (os : List Obs) : obsCost c os ≤ obsCostT c os := by
  induction os with
  | nil => exact le_refl _
  | cons o os ih =>
    rw [obsCost_cons, obsCostT_cons]
    unfold actCostT
    omega

/-- without transfers into DISK the two costs agree -/
theorem obsCostT_eq_obsCost (c : Costs) (os : List Obs)
    (h : ∀ o ∈ os, transfersToDisk o.act = false) : obsCostT c os = obsCost c os := by
  induction os with
  | nil => rfl
  | cons o os ih =>
    rw [obsCost_cons, obsCostT_cons, ih (fun o' ho' => h o' (List.mem_cons_of_mem _ ho'))]
    unfold actCostT
    rw [h o (List.mem_cons_self ..)]
    simp

/-- each disk checkpoint is written by a `Forward` and read once, by the `Move` that removes it -/
def OneRead (os : List Obs) : Prop :=
  ∀ o ∈ os, copiesFromDisk o.act = false ∧ transfersToDisk o.act = false

/-- the executor accepts the stream, the adjoint calculation is complete, restart data only -/
def Accepted (cfg : Cfg) (os : List Obs) : Prop :=
  (run cfg os).2 = [] ∧ finished cfg (run cfg os).1 = true ∧ ∀ o ∈ os, storesDeps o.act = false

instance (cfg : Cfg) (os : List Obs) : Decidable (Accepted cfg os) := by
  unfold Accepted; infer_instance

instance (os : List Obs) : Decidable (OneRead os) := by
  unfold OneRead; infer_instance

/-! ## the DiskRevolve stream lies in `OneRead` -/

theorem revSeg_noDisk (N : Nat) (t : Array (Array Nat)) (uf cm : Nat) (spine : Bool) (lo hi : Nat)
    (evs : List Ev) (h : revSeg N t uf cm spine lo hi = some evs) (e : Ev) (he : e ∈ evs) :
    touches .disk e.act = false := by
  unfold revSeg at h
  cases ht : touches .disk e.act with
  | false => rfl
  | true =>
    rcases segWith_touches' h e he .disk ht with h' | ⟨_, _, h'⟩
    · cases h'
    · cases h'

theorem noDisk_oneRead {a : Action} (h : touches .disk a = false) :
    copiesFromDisk a = false ∧ transfersToDisk a = false := by
  cases a with
  | copy n src dst =>
    simp only [touches, Bool.or_eq_false_iff, decide_eq_false_iff_not] at h
    simp [copiesFromDisk, transfersToDisk, h.1, h.2]
  | move n src dst =>
    simp only [touches, Bool.or_eq_false_iff, decide_eq_false_iff_not] at h
    simp [copiesFromDisk, transfersToDisk, h.2]
  | _ => exact ⟨rfl, rfl⟩

theorem diskSeg_oneRead (N : Nat) (t0 : Array (Array Nat)) (tinf : Array Nat) (cm uf wr : Nat) :
    ∀ (fuel : Nat) (spine : Bool) (lo hi : Nat) (evs : List Ev),
      diskSeg N t0 tinf cm uf wr fuel spine lo hi = some evs →
      ∀ e ∈ evs, copiesFromDisk e.act = false ∧ transfersToDisk e.act = false := by
  intro fuel
  induction fuel with
  | zero => intro _ _ _ evs h; simp [diskSeg] at h
  | succ fuel ih =>
    intro spine lo hi evs h
    unfold diskSeg at h
    dsimp only at h
    split at h
    · rename_i hcond
      split at h
      · cases h
      · rename_i right hright
        split at h
        · cases h
        · rename_i left hleft
          injection h with h
          subst h
          intro e he
          simp only [List.mem_append, List.mem_singleton] at he
          rcases he with ((he | he) | he) | he
          · subst he; exact ⟨rfl, rfl⟩
          · exact ih _ _ _ _ hright e he
          · subst he; exact ⟨rfl, rfl⟩
          · exact noDisk_oneRead (revSeg_noDisk _ _ _ _ _ _ _ _ hleft e he)
    · intro e he
      exact noDisk_oneRead (revSeg_noDisk _ _ _ _ _ _ _ _ h e he)

/-- **the DiskRevolve stream reads each disk checkpoint once**: no `Copy` out of DISK, no transfer
into DISK -/
theorem diskRevolve_oneRead (N cm : Nat) (c : Costs) (evs : List Ev)
    (h : diskRevolveEvs N cm c = .ok evs) :
    ∀ e ∈ evs, copiesFromDisk e.act = false ∧ transfersToDisk e.act = false := by
  unfold diskRevolveEvs at h
  dsimp only at h
  split at h
  · cases h
  · rename_i seg hseg
    injection h with h
    subst h
    intro e he
    rcases List.mem_append.mp he with he | he
    · exact diskSeg_oneRead _ _ _ _ _ _ _ _ _ _ _ hseg e he
    · rw [List.mem_singleton] at he; subst he; exact ⟨rfl, rfl⟩

/-- in terms of observations -/
theorem diskRevolve_obs_oneRead (N cm : Nat) (c : Costs) (evs : List Ev)
    (h : diskRevolveEvs N cm c = .ok evs) (os : List Obs) (hos : os.map (·.act) = evs.map (·.act)) :
    OneRead os := by
  intro o ho
  have : o.act ∈ evs.map (·.act) := by rw [← hos]; exact List.mem_map.mpr ⟨o, ho, rfl⟩
  obtain ⟨e, he, hea⟩ := List.mem_map.mp this
  rw [← hea]
  exact diskRevolve_oneRead N cm c evs h e he

/-! ## the DiskRevolve stream is an accepted member of `OneRead` whose cost is the table value -/

theorem diskSeg_noStoresDeps (N : Nat) (t0 : Array (Array Nat)) (tinf : Array Nat) (cm uf wr : Nat) :
    ∀ (fuel : Nat) (spine : Bool) (lo hi : Nat) (evs : List Ev),
      diskSeg N t0 tinf cm uf wr fuel spine lo hi = some evs → ∀ e ∈ evs, storesDeps e.act = false := by
  intro fuel
  induction fuel with
  | zero => intro _ _ _ evs h; simp [diskSeg] at h
  | succ fuel ih =>
    intro spine lo hi evs h
    unfold diskSeg at h
    dsimp only at h
    split at h
    · split at h
      · cases h
      · rename_i right hright
        split at h
        · cases h
        · rename_i left hleft
          injection h with h
          subst h
          intro e he
          simp only [List.mem_append, List.mem_singleton] at he
          rcases he with ((he | he) | he) | he
          · subst he; rfl
          · exact ih _ _ _ _ hright e he
          · subst he; rfl
          · unfold revSeg at hleft
            exact segWith_noStoresDeps _ _ _ _ _ _ _ _ _ _ _ _ hleft e he
    · intro e he
      unfold revSeg at h
      exact segWith_noStoresDeps _ _ _ _ _ _ _ _ _ _ _ _ h e he

/-- **attainment**: the observations of the DiskRevolve stream are accepted for `cfgDiskRevolve cm N`,
complete, restart data only, in the class `OneRead`, and cost exactly the table value -/
theorem diskRevolve_attains (N cm : Nat) (c : Costs) (hN : 1 ≤ N) (hcm : 1 ≤ cm) :
    ∃ evs os, diskRevolveEvs N cm c = .ok evs ∧ os.map (·.act) = evs.map (·.act) ∧
      Accepted (cfgDiskRevolve cm N) os ∧ OneRead os ∧
      obsCost c os = (optInfTable (N - 1) cm c.uf c.ub (c.wd + c.rd)
        (opt0Table (N - 1) cm c.uf c.ub)).getD (N - 1) 0 + N * c.uf := by
  obtain ⟨evs, sn, hevs, hclean⟩ := diskRevolve_clean N cm c hN hcm
  have hseg : diskSeg N (opt0Table (N - 1) cm c.uf c.ub)
      (optInfTable (N - 1) cm c.uf c.ub (c.wd + c.rd) (opt0Table (N - 1) cm c.uf c.ub)) cm c.uf
      (c.wd + c.rd) (N + 1) true 0 N = some evs := by
    unfold diskRevolveEvs at hevs
    dsimp only at hevs
    split at hevs
    · cases hevs
    · rename_i seg hseg
      injection hevs with hevs
      rw [hseg, List.append_cancel_right hevs]
  have hacts : (evs.map (Ev.obs · N) ++ [(⟨.endReverse, 1, N, some N, true, true⟩ : Obs)]).map (·.act)
      = (evs ++ [(⟨.endReverse, 1, N⟩ : Ev)]).map (·.act) := by
    rw [List.map_append, List.map_append, List.map_map]
    rfl
  refine ⟨_, _, hevs, hacts, ⟨hclean.run_viols, ?_, ?_⟩,
    diskRevolve_obs_oneRead N cm c _ hevs _ hacts, ?_⟩
  · rw [hclean.run_state]; rfl
  · intro o ho
    rcases List.mem_append.mp ho with ho | ho
    · obtain ⟨e, he, rfl⟩ := List.mem_map.mp ho
      exact diskSeg_noStoresDeps _ _ _ _ _ _ _ _ _ _ _ hseg e he
    · rw [List.mem_singleton] at ho; subst ho; rfl
  · rw [obsCost_eq_cost c _ _ hacts]
    exact diskRevolve_cost N cm c hN hcm _ hevs

/-! ## counterexample 1: the free `Copy RAM → DISK` -/

/-- N = 4, one RAM unit: the RAM checkpoint of step 0 is copied to DISK (free in `obsCost`), the RAM
unit is reused for step 1, and step 0 comes back from DISK by a `Move` -/
def cexCopyToDisk : List Obs :=
  [⟨.forward 0 3 true false .ram, 3, 0, some 4, false, true⟩,
   ⟨.forward 3 4 false true .work, 4, 0, some 4, false, true⟩,
   ⟨.endForward, 4, 0, some 4, false, true⟩,
   ⟨.reverse 4 3 true, 4, 1, some 4, false, true⟩,
   ⟨.copy 0 .ram .disk, 4, 1, some 4, false, true⟩,
   ⟨.move 0 .ram .work, 0, 1, some 4, false, true⟩,
   ⟨.forward 0 1 false false .none, 1, 1, some 4, false, true⟩,
   ⟨.forward 1 2 true false .ram, 2, 1, some 4, false, true⟩,
   ⟨.forward 2 3 false true .work, 3, 1, some 4, false, true⟩,
   ⟨.reverse 3 2 true, 3, 2, some 4, false, true⟩,
   ⟨.move 1 .ram .work, 1, 2, some 4, false, true⟩,
   ⟨.forward 1 2 false true .work, 2, 2, some 4, false, true⟩,
   ⟨.reverse 2 1 true, 2, 3, some 4, false, true⟩,
   ⟨.move 0 .disk .work, 0, 3, some 4, false, true⟩,
   ⟨.forward 0 1 false true .work, 1, 3, some 4, false, true⟩,
   ⟨.reverse 1 0 true, 1, 4, some 4, false, true⟩,
   ⟨.endReverse, 1, 4, some 4, true, true⟩]

/-- the cost vector `uf, ub, wd, rd = 1, 1, 2, 0` -/
def c1120 : Costs := ⟨1, 1, 2, 0⟩
/-- a cost vector with all costs positive: `uf, ub, wd, rd = 3, 1, 5, 1` -/
def c3151 : Costs := ⟨3, 1, 5, 1⟩

theorem cexCopyToDisk_accepted : Accepted (cfgDiskRevolve 1 4) cexCopyToDisk := by decide +kernel

theorem cexCopyToDisk_accepted_h : Accepted (cfgHRevolve 1 1 4) cexCopyToDisk := by decide +kernel

theorem cexCopyToDisk_cost : obsCost c1120 cexCopyToDisk = 13 ∧ obsCostT c1120 cexCopyToDisk = 15 ∧
    (∀ o ∈ cexCopyToDisk, copiesFromDisk o.act = false) := by decide +kernel

theorem optInf_4 : (optInfTable 3 1 1 1 (2 + 0) (opt0Table 3 1 1 1)).getD 3 0 + 4 * 1 = 14 := by
  decide +kernel

theorem hopt_4 : (hoptTable 3 1 1 0 2 0 0 1 1).opt 1 3 1 = some 10 := by decide +kernel

/-- the stream `cexCopyToDisk` is accepted for `cfgDiskRevolve 1 4`, complete, restart data only, reads
its disk checkpoint once, and its `obsCost` is below the cost of the DiskRevolve stream -/
theorem cexCopyToDisk_beats_diskRevolve (evs : List Ev) (h : diskRevolveEvs 4 1 c1120 = .ok evs) :
    obsCost c1120 cexCopyToDisk < cost c1120 evs := by
  rw [diskRevolve_cost 4 1 c1120 (by decide) (by decide) evs h, cexCopyToDisk_cost.1]
  show 13 < (optInfTable 3 1 1 1 (2 + 0) (opt0Table 3 1 1 1)).getD 3 0 + 4 * 1
  rw [optInf_4]
  decide

/-- … and below the cost of the HRevolve stream with one disk unit -/
theorem cexCopyToDisk_beats_hrevolve (evs : List Ev) (h : hrevolveEvs 4 1 1 c1120 = .ok evs) :
    obsCost c1120 cexCopyToDisk < cost c1120 evs := by
  obtain ⟨v, hv, hc⟩ := hrevolve_cost 4 1 1 c1120 (by decide) (by decide) evs h
  have : v = 10 := by
    have h4 := hopt_4
    change (hoptTable 3 1 1 0 2 0 0 1 1).opt 1 3 1 = some v at hv
    rw [h4] at hv
    exact (Option.some.inj hv).symm
  rw [hc, cexCopyToDisk_cost.1, this]
  decide

/-! ## counterexample 2: a disk checkpoint read twice -/

/-- N = 6, one RAM unit: disk checkpoint at 0, RAM checkpoint at 3; after `[3, 6)` is reversed the disk
checkpoint is read by a `Copy` (it stays on DISK), the RAM unit takes step 1, and the disk checkpoint is
read a second time (the `Move`) for the last step -/
def cexMultiRead : List Obs :=
  [⟨.forward 0 3 true false .disk, 3, 0, some 6, false, true⟩,
   ⟨.forward 3 5 true false .ram, 5, 0, some 6, false, true⟩,
   ⟨.forward 5 6 false true .work, 6, 0, some 6, false, true⟩,
   ⟨.endForward, 6, 0, some 6, false, true⟩,
   ⟨.reverse 6 5 true, 6, 1, some 6, false, true⟩,
   ⟨.copy 3 .ram .work, 3, 1, some 6, false, true⟩,
   ⟨.forward 3 4 false false .none, 4, 1, some 6, false, true⟩,
   ⟨.forward 4 5 false true .work, 5, 1, some 6, false, true⟩,
   ⟨.reverse 5 4 true, 5, 2, some 6, false, true⟩,
   ⟨.move 3 .ram .work, 3, 2, some 6, false, true⟩,
   ⟨.forward 3 4 false true .work, 4, 2, some 6, false, true⟩,
   ⟨.reverse 4 3 true, 4, 3, some 6, false, true⟩,
   ⟨.copy 0 .disk .work, 0, 3, some 6, false, true⟩,
   ⟨.forward 0 1 false false .none, 1, 3, some 6, false, true⟩,
   ⟨.forward 1 2 true false .ram, 2, 3, some 6, false, true⟩,
   ⟨.forward 2 3 false true .work, 3, 3, some 6, false, true⟩,
   ⟨.reverse 3 2 true, 3, 4, some 6, false, true⟩,
   ⟨.move 1 .ram .work, 1, 4, some 6, false, true⟩,
   ⟨.forward 1 2 false true .work, 2, 4, some 6, false, true⟩,
   ⟨.reverse 2 1 true, 2, 5, some 6, false, true⟩,
   ⟨.move 0 .disk .work, 0, 5, some 6, false, true⟩,
   ⟨.forward 0 1 false true .work, 1, 5, some 6, false, true⟩,
   ⟨.reverse 1 0 true, 1, 6, some 6, false, true⟩,
   ⟨.endReverse, 1, 6, some 6, true, true⟩]

theorem cexMultiRead_accepted : Accepted (cfgDiskRevolve 1 6) cexMultiRead := by decide +kernel

theorem cexMultiRead_cost :
    obsCost c1120 cexMultiRead = 22 ∧ obsCostT c1120 cexMultiRead = 22 ∧
    obsCost c3151 cexMultiRead = 55 ∧ obsCostT c3151 cexMultiRead = 55 ∧
    (∀ o ∈ cexMultiRead, transfersToDisk o.act = false) ∧ ¬ OneRead cexMultiRead := by
  decide +kernel

theorem optInf_6_c1120 :
    (optInfTable 5 1 1 1 (2 + 0) (opt0Table 5 1 1 1)).getD 5 0 + 6 * 1 = 23 := by decide +kernel

theorem optInf_6_c3151 :
    (optInfTable 5 1 3 1 (5 + 1) (opt0Table 5 1 3 1)).getD 5 0 + 6 * 3 = 57 := by decide +kernel

/-- `cexMultiRead` is accepted for `cfgDiskRevolve 1 6`, complete, restart data only, without any
transfer into DISK, and cheaper than the DiskRevolve stream (22 < 23) -/
theorem cexMultiRead_beats_diskRevolve (evs : List Ev) (h : diskRevolveEvs 6 1 c1120 = .ok evs) :
    obsCostT c1120 cexMultiRead < cost c1120 evs := by
  rw [diskRevolve_cost 6 1 c1120 (by decide) (by decide) evs h, cexMultiRead_cost.2.1]
  show 22 < (optInfTable 5 1 1 1 (2 + 0) (opt0Table 5 1 1 1)).getD 5 0 + 6 * 1
  rw [optInf_6_c1120]
  decide

/-- the same with all four costs positive (55 < 57) -/
theorem cexMultiRead_beats_diskRevolve_pos (evs : List Ev) (h : diskRevolveEvs 6 1 c3151 = .ok evs) :
    obsCostT c3151 cexMultiRead < cost c3151 evs := by
  rw [diskRevolve_cost 6 1 c3151 (by decide) (by decide) evs h, cexMultiRead_cost.2.2.2.1]
  show 55 < (optInfTable 5 1 3 1 (5 + 1) (opt0Table 5 1 3 1)).getD 5 0 + 6 * 3
  rw [optInf_6_c3151]
  decide

/-! ## the refuted statements -/

/-- the Disk-Revolve table value, plus the first sweep -/
def optInfVal (N cm : Nat) (c : Costs) : Nat :=
  (optInfTable (N - 1) cm c.uf c.ub (c.wd + c.rd) (opt0Table (N - 1) cm c.uf c.ub)).getD (N - 1) 0
    + N * c.uf

/-- **`optInf` is not a lower bound over all accepted streams**, not even for the transfer-aware cost and
positive costs -/
theorem optInf_not_lowerBound :
    ¬ ∀ (N cm : Nat) (c : Costs) (os : List Obs), 1 ≤ N → 1 ≤ cm → 0 < c.uf → 0 < c.ub → 0 < c.wd →
        0 < c.rd → Accepted (cfgDiskRevolve cm N) os → optInfVal N cm c ≤ obsCostT c os := by
  intro h
  have := h 6 1 c3151 cexMultiRead (by decide) (by decide) (by decide) (by decide) (by decide)
    (by decide) cexMultiRead_accepted
  rw [cexMultiRead_cost.2.2.2.1] at this
  have e : optInfVal 6 1 c3151 = 57 := optInf_6_c3151
  rw [e] at this
  exact absurd this (by decide)

/-- **the DiskRevolve stream is not cost-optimal among all accepted streams** -/
theorem diskRevolve_not_optimal :
    ¬ ∀ (N cm : Nat) (c : Costs) (evs : List Ev) (os : List Obs), 1 ≤ N → 1 ≤ cm → 0 < c.uf →
        diskRevolveEvs N cm c = .ok evs → Accepted (cfgDiskRevolve cm N) os →
        cost c evs ≤ obsCostT c os := by
  intro h
  cases hd : diskRevolveEvs 6 1 c3151 with
  | error e =>
    have : (diskRevolveEvs 6 1 c3151).isOk = true := by decide +kernel
    rw [hd] at this
    cases this
  | ok evs =>
    have h1 := h 6 1 c3151 evs cexMultiRead (by decide) (by decide) (by decide) hd cexMultiRead_accepted
    have h2 := cexMultiRead_beats_diskRevolve_pos evs hd
    omega

/-- **with the cost model of `Proofs/Cost.lean` the H-Revolve table is not a lower bound** (the free
`Copy RAM → DISK`) -/
theorem hopt_not_lowerBound_obsCost :
    ¬ ∀ (N c0 c1 v : Nat) (c : Costs) (os : List Obs), 1 ≤ N → 1 ≤ c0 → 0 < c.uf →
        (hoptTable (N - 1) c0 c1 0 c.wd 0 c.rd c.ub c.uf).opt 1 (N - 1) c1 = some v →
        Accepted (cfgHRevolve c0 c1 N) os → v + N * c.uf ≤ obsCost c os := by
  intro h
  have := h 4 1 1 10 c1120 cexCopyToDisk (by decide) (by decide) (by decide) hopt_4
    cexCopyToDisk_accepted_h
  rw [cexCopyToDisk_cost.1] at this
  exact absurd this (by decide)

/-! ## what exhaustive search finds to be true (NOT proved; never used as a hypothesis) -/

/-- in the class `OneRead` the Disk-Revolve table is a lower bound: DiskRevolve attains the optimum of
that class.  Exhaustive search: `cm = 1`, `N ≤ 8`; `cm = 2`, `N ≤ 7`; 20 cost vectors. -/
def DiskOneReadOptimal : Prop :=
  ∀ (N cm : Nat) (c : Costs) (os : List Obs), 1 ≤ N → 1 ≤ cm → 0 < c.uf →
    Accepted (cfgDiskRevolve cm N) os → OneRead os → optInfVal N cm c ≤ obsCost c os

/-- the H-Revolve table is a lower bound for the transfer-aware cost of every accepted stream.
Exhaustive search: `(c0, c1) ∈ {(1,1), (1,2), (1,3), (2,1), (2,2)}`, `N ≤ 10`; 20 cost vectors. -/
def HRevolveOptimalT : Prop :=
  ∀ (N c0 c1 v : Nat) (c : Costs) (os : List Obs), 1 ≤ N → 1 ≤ c0 → 0 < c.uf →
    (hoptTable (N - 1) c0 c1 0 c.wd 0 c.rd c.ub c.uf).opt 1 (N - 1) c1 = some v →
    Accepted (cfgHRevolve c0 c1 N) os → v + N * c.uf ≤ obsCostT c os

/-! ## what IS proved for the two-level classes: a (not tight) lower bound -/

/-- every complete accepted stream of `cfgHRevolve c0 c1 N` costs at least what the binomial optimum
with `c0 + c1` free units costs -/
theorem hrevolve_cost_ge (N c0 c1 : Nat) (c : Costs) (hN : 1 ≤ N) (os : List Obs)
    (h : Accepted (cfgHRevolve c0 c1 N) os) :
    c.uf * (N + extraCell N (clampS N (c0 + c1))) + c.ub * N ≤ obsCost c os :=
  cost_lowerBound (cfg := cfgHRevolve c0 c1 N) (s := c0 + c1) ⟨⟨c0, c1, rfl, rfl, rfl⟩, rfl, rfl, rfl⟩
    hN c os h.1 h.2.1 h.2.2

end Ckpt.LB7

#print axioms Ckpt.LB7.diskRevolve_oneRead
#print axioms Ckpt.LB7.diskRevolve_attains
#print axioms Ckpt.LB7.cexCopyToDisk_beats_diskRevolve
#print axioms Ckpt.LB7.cexCopyToDisk_beats_hrevolve
#print axioms Ckpt.LB7.cexMultiRead_beats_diskRevolve
#print axioms Ckpt.LB7.cexMultiRead_beats_diskRevolve_pos
#print axioms Ckpt.LB7.optInf_not_lowerBound
#print axioms Ckpt.LB7.diskRevolve_not_optimal
#print axioms Ckpt.LB7.hopt_not_lowerBound_obsCost
#print axioms Ckpt.LB7.hrevolve_cost_ge
