import CkptVerif.Proofs.TwoLevelOk
/-!
# The observation lists of `BasicOk`/`TwoLevelOk` are the `act` lines of the canonical trace

`Sched.canon` (Model/Machine.lean) drives the step machine as tests/test_validity.py drives a
schedule object.  Here: for the online schedules the observations on its `act` lines are exactly
the lists whose acceptance is proved in `BasicOk.lean` and `TwoLevelOk.lean`, for all parameters.
-/
namespace Ckpt.On

theorem actLines_append (a b : List Line) : actLines (a ++ b) = actLines a ++ actLines b :=
  List.filterMap_append

/-- machine state in the online forward loop -/
def MF (n r : Nat) (st : Bool) : MSt := ⟨n, r, none, st, false, .fwd⟩
/-- machine state just after `finalize` -/
def MFin (N r : Nat) : MSt := ⟨N, r, some N, true, false, .fwd⟩
/-- machine state while the generator runs with `max_n` known -/
def MR (n r N : Nat) (st : Bool) (todo : List Ev) (done : Nat) : MSt := ⟨n, r, some N, st, false, .run todo done⟩

section
variable (s : Sched) (N k : Nat)

/-- one `next()` in the online forward loop, not reaching `N` -/
theorem canonLoop_fwd_lt (fuel n r : Nat) (st : Bool) (seen : Nat) (used : Bool)
    (hfa : (s.fwdEv n).act ≠ .endReverse ∧ (s.fwdEv n).act ≠ .endForward)
    (hlt : (s.fwdEv n).n < N) :
    actLines (s.canonLoop N k (fuel + 1) (MF n r st) seen used)
      = fwdObs N (s.fwdEv n) :: actLines (s.canonLoop N k fuel (MF (s.fwdEv n).n (s.fwdEv n).r true) seen used) := by
  have h1 : ¬ N ≤ (s.fwdEv n).n := by omega
  have h2 : min (s.fwdEv n).n N = (s.fwdEv n).n := by omega
  simp [Sched.canonLoop, Sched.next, MF, h1, h2, hfa.1, hfa.2, fwdObs, actLines]

/-- the `next()` of the online forward loop that reaches `N`: the client finalises -/
theorem canonLoop_fwd_ge (fuel n r : Nat) (st : Bool) (seen : Nat) (used : Bool)
    (hfa : (s.fwdEv n).act ≠ .endReverse ∧ (s.fwdEv n).act ≠ .endForward)
    (hN : 1 ≤ N) (hge : N ≤ (s.fwdEv n).n) :
    actLines (s.canonLoop N k (fuel + 1) (MF n r st) seen used)
      = fwdObs N (s.fwdEv n) :: actLines (s.canonLoop N k fuel (MFin N (s.fwdEv n).r) seen used) := by
  have h3 : ¬ ((N : Int) < 1) := by omega
  have h4 : ((s.fwdEv n).n : Int) ≥ (N : Int) := by omega
  simp [Sched.canonLoop, Sched.next, MF, MFin, hge, hfa.1, hfa.2, fwdObs, actLines, finalize, h3, h4]

/-- the events still to come once `e` has been taken -/
def restOf (rest again : List Ev) : List Ev := match rest with | [] => again | _ => rest

/-- does the generator return after event `e`? (`fin` of `Sched.after`) -/
def _root_.Ckpt.Sched.finAt (s : Sched) (e : Ev) (done : Nat) : Bool :=
  match s.passes with
  | none => false
  | some 0 => e.act = .endForward
  | some k => decide (k ≤ (if e.act = .endReverse then done + 1 else done))

theorem after_notFin (e : Ev) (rest : List Ev) (done : Nat) (h : s.finAt e done = false) :
    s.after N e rest done
      = (.run (restOf rest (s.again N)) (if e.act = .endReverse then done + 1 else done), false) := by
  unfold Sched.finAt at h
  unfold Sched.after
  rcases hp : s.passes with _ | _ | k <;> rw [hp] at h <;> cases rest <;> simp [restOf] at h ⊢ <;> simp [h]

theorem after_fin (e : Ev) (rest : List Ev) (done : Nat) (h : s.finAt e done = true) :
    s.after N e rest done = (.stopped, true) := by
  unfold Sched.finAt at h
  unfold Sched.after
  rcases hp : s.passes with _ | _ | k <;> rw [hp] at h <;> simp at h ⊢ <;> simp [h]

theorem actLines_act (o : Obs) (ls : List Line) : actLines (.act o :: ls) = o :: actLines ls := rfl

theorem actLines_usesIf (c : Prop) [Decidable c] : actLines (if c then [s.usesLine] else []) = [] := by
  split <;> rfl

/-- the first `next()` after `finalize` -/
theorem canonLoop_first (fuel r : Nat) (seen : Nat) (used : Bool) (e : Ev) (rest : List Ev)
    (hfirst : s.first N = .ok (e :: rest)) (he : e.act ≠ .endReverse) (hnf : s.finAt e 0 = false) :
    ∃ used', actLines (s.canonLoop N k (fuel + 1) (MFin N r) seen used)
      = Ev.obs e N :: actLines (s.canonLoop N k fuel (MR e.n e.r N true (restOf rest (s.again N)) 0) seen used') := by
  refine ⟨used || (decide (e.act = .endForward) && !used), ?_⟩
  simp [Sched.canonLoop, Sched.next, after_notFin s N e rest 0 hnf, MFin, MR, hfirst, he, Ev.obs, actLines_append,
    actLines_act, actLines_usesIf]

theorem restOf_cons (rest again : List Ev) (h : rest ≠ []) : restOf rest again = rest := by
  cases rest with
  | nil => exact absurd rfl h
  | cons _ _ => rfl

/-- nothing is observed once the generator has returned -/
theorem canonLoop_stopped (fuel : Nat) (m : MSt) (seen : Nat) (used : Bool) (hm : m.phase = .stopped) :
    actLines (s.canonLoop N k fuel m seen used) = [] := by
  cases fuel with
  | zero => rfl
  | succ fuel =>
    obtain ⟨n, r, mx, st, ex, ph⟩ := m
    simp only at hm
    subst hm
    simp [Sched.canonLoop, Sched.next, actLines, MSt.line, Sched.usesLine]

/-- a `next()` with `max_n` known that yields neither the last event of a calculation nor the
last event of the stream -/
theorem canonLoop_run_mid (fuel n r : Nat) (st : Bool) (seen : Nat) (used : Bool) (e : Ev) (rest : List Ev)
    (done : Nat) (hrest : rest ≠ []) (he : e.act ≠ .endReverse) (hnf : s.finAt e done = false) :
    ∃ used', actLines (s.canonLoop N k (fuel + 1) (MR n r N st (e :: rest) done) seen used)
      = Ev.obs e N :: actLines (s.canonLoop N k fuel (MR e.n e.r N true rest done) seen used') := by
  refine ⟨used || (decide (e.act = .endForward) && !used), ?_⟩
  simp [Sched.canonLoop, Sched.next, after_notFin s N e rest done hnf, MR, he, Ev.obs, actLines_append,
    actLines_act, actLines_usesIf, restOf_cons rest (s.again N) hrest]

/-- the `EndReverse` of a calculation after which another one may follow: the client stops
there if it has seen enough -/
theorem canonLoop_run_er (fuel n r : Nat) (st : Bool) (seen : Nat) (used : Bool) (e : Ev)
    (done : Nat) (he : e.act = .endReverse) (hnf : s.finAt e done = false) :
    actLines (s.canonLoop N k (fuel + 1) (MR n r N st [e] done) seen used)
      = Ev.obs e N :: (if seen + 1 ≥ k then []
          else actLines (s.canonLoop N k fuel (MR e.n e.r N true (s.again N) (done + 1)) (seen + 1) used)) := by
  by_cases hk : seen + 1 ≥ k
  · simp [Sched.canonLoop, Sched.next, after_notFin s N e [] done hnf, MR, he, Ev.obs,
      hk, restOf, actLines, Sched.usesLine]
  · simp [Sched.canonLoop, Sched.next, after_notFin s N e [] done hnf, MR, he, Ev.obs,
      actLines_act, hk, restOf]

/-- the last event of the stream -/
theorem canonLoop_run_fin (fuel n r : Nat) (st : Bool) (seen : Nat) (used : Bool) (e : Ev) (rest : List Ev)
    (done : Nat) (hf : s.finAt e done = true) :
    actLines (s.canonLoop N k (fuel + 1) (MR n r N st (e :: rest) done) seen used)
      = [⟨e.act, e.n, e.r, some N, true, true⟩] := by
  simp [Sched.canonLoop, Sched.next, after_fin s N e rest done hf, MR, actLines_append,
    actLines_act, actLines_usesIf, canonLoop_stopped]

/-- the first `next()` after `finalize` yields the last event of the stream -/
theorem canonLoop_first_fin (fuel r : Nat) (seen : Nat) (used : Bool) (e : Ev) (rest : List Ev)
    (hfirst : s.first N = .ok (e :: rest)) (hf : s.finAt e 0 = true) :
    actLines (s.canonLoop N k (fuel + 1) (MFin N r) seen used) = [⟨e.act, e.n, e.r, some N, true, true⟩] := by
  simp [Sched.canonLoop, Sched.next, after_fin s N e rest 0 hf, MFin, hfirst, actLines_append,
    actLines_act, actLines_usesIf, canonLoop_stopped]

theorem finAt_none (hp : s.passes = none) (e : Ev) (done : Nat) : s.finAt e done = false := by
  unfold Sched.finAt; rw [hp]

/-- the online forward loop: `d+1` Forwards from position `pos j`, the last one reaching `N` -/
theorem canonLoop_fwd_list (pos : Nat → Nat) (q : Nat)
    (hfa : ∀ n, (s.fwdEv n).act ≠ .endReverse ∧ (s.fwdEv n).act ≠ .endForward)
    (hnext : ∀ j, (s.fwdEv (pos j)).n = pos (j + 1))
    (hlt : ∀ i, i + 1 < q → pos (i + 1) < N) (hge : N ≤ pos q) (hN : 1 ≤ N) (seen : Nat) (used : Bool) (f' : Nat) :
    ∀ (d j r : Nat) (st : Bool), j + d + 1 = q →
      ∃ r', actLines (s.canonLoop N k (d + 1 + f') (MF (pos j) r st) seen used)
        = (List.range' j (d + 1)).map (fun j => fwdObs N (s.fwdEv (pos j)))
          ++ actLines (s.canonLoop N k f' (MFin N r') seen used) := by
  intro d
  induction d with
  | zero =>
    intro j r st hj
    refine ⟨(s.fwdEv (pos j)).r, ?_⟩
    have e : 0 + 1 + f' = f' + 1 := by omega
    rw [e, canonLoop_fwd_ge s N k f' (pos j) r st seen used (hfa _) hN (by rw [hnext]; rw [← hj] at hge; exact hge)]
    rfl
  | succ d ih =>
    intro j r st hj
    obtain ⟨r', h⟩ := ih (j + 1) (s.fwdEv (pos j)).r true (by omega)
    refine ⟨r', ?_⟩
    have e : d + 1 + 1 + f' = (d + 1 + f') + 1 := by omega
    rw [e, canonLoop_fwd_lt s N k _ (pos j) r st seen used (hfa _) (by rw [hnext]; exact hlt j (by omega)),
      hnext, h, List.range'_succ (s := j) (n := d + 1)]
    rfl

/-- events with `max_n` known that are followed by further events of the same calculation -/
theorem canonLoop_run_prefix (done : Nat) (seen : Nat) (f' : Nat) (rest : List Ev) (hrest : rest ≠ []) :
    ∀ (t : List Ev) (n r : Nat) (st used : Bool),
      (∀ e ∈ t, e.act ≠ .endReverse) → (∀ e ∈ t, s.finAt e done = false) →
      ∃ n' r' st' used', actLines (s.canonLoop N k (t.length + f') (MR n r N st (t ++ rest) done) seen used)
        = t.map (Ev.obs · N) ++ actLines (s.canonLoop N k f' (MR n' r' N st' rest done) seen used') := by
  intro t
  induction t with
  | nil =>
    intro n r st used _ _
    refine ⟨n, r, st, used, ?_⟩
    simp
  | cons e t ih =>
    intro n r st used ht hnf
    obtain ⟨used1, h1⟩ := canonLoop_run_mid s N k (t.length + f') n r st seen used e (t ++ rest) done
      (by simp [hrest]) (ht e (List.mem_cons_self)) (hnf e (List.mem_cons_self))
    obtain ⟨n', r', st', used', h2⟩ := ih e.n e.r true used1
      (fun e' he' => ht e' (List.mem_cons_of_mem _ he')) (fun e' he' => hnf e' (List.mem_cons_of_mem _ he'))
    refine ⟨n', r', st', used', ?_⟩
    have e1 : (e :: t).length + f' = (t.length + f') + 1 := by simp; omega
    rw [e1, List.cons_append, h1, h2]
    rfl

/-- the adjoint calculations of a schedule that permits arbitrarily many: the rest of the current
one, then `j` further ones -/
theorem canonLoop_run_passes (hp : s.passes = none) (agI : List Ev) (agL : Ev)
    (hag : s.again N = agI ++ [agL]) (hagL : agL.act = .endReverse) (hagI : ∀ e ∈ agI, e.act ≠ .endReverse)
    (extra : Nat) :
    ∀ (j seen : Nat) (t : List Ev) (er : Ev) (n r : Nat) (st used : Bool) (done : Nat),
      seen + j + 1 = k → er.act = .endReverse → (∀ e ∈ t, e.act ≠ .endReverse) →
      actLines (s.canonLoop N k (t.length + 1 + j * (agI.length + 1) + extra)
          (MR n r N st (t ++ [er]) done) seen used)
        = (t ++ [er]).map (Ev.obs · N) ++ (List.replicate j ((s.again N).map (Ev.obs · N))).flatten := by
  intro j
  induction j with
  | zero =>
    intro seen t er n r st used done hk her ht
    obtain ⟨n', r', st', used', h⟩ := canonLoop_run_prefix s N k done seen (1 + extra) [er] (by simp) t n r st used ht
      (fun e _ => finAt_none s hp e done)
    have e1 : t.length + 1 + 0 * (agI.length + 1) + extra = t.length + (1 + extra) := by omega
    have e2 : 1 + extra = extra + 1 := by omega
    rw [e1, h, e2, canonLoop_run_er s N k extra n' r' st' seen used' er done her (finAt_none s hp er done)]
    have hk' : seen + 1 ≥ k := by omega
    simp [hk']
  | succ j ih =>
    intro seen t er n r st used done hk her ht
    obtain ⟨n', r', st', used', h⟩ := canonLoop_run_prefix s N k done seen
      (1 + ((j + 1) * (agI.length + 1) + extra)) [er] (by simp) t n r st used ht
      (fun e _ => finAt_none s hp e done)
    have e1 : t.length + 1 + (j + 1) * (agI.length + 1) + extra
        = t.length + (1 + ((j + 1) * (agI.length + 1) + extra)) := by omega
    have e2 : 1 + ((j + 1) * (agI.length + 1) + extra) = (agI.length + 1 + j * (agI.length + 1) + extra) + 1 := by
      rw [Nat.succ_mul]; omega
    rw [e1, h, e2, canonLoop_run_er s N k _ n' r' st' seen used' er done her (finAt_none s hp er done)]
    have hk' : ¬ seen + 1 ≥ k := by omega
    rw [if_neg hk', hag, ih (seen + 1) agI agL er.n er.r true used' (done + 1) (by omega) hagL hagI]
    simp [List.replicate_succ, hag]

/-- **The act lines of the canonical trace of an online schedule permitting arbitrarily many
adjoint calculations**: the online forward events from positions `pos 0 = 0, pos 1, …` (reported
`n` clipped to `N`, `max_n` known from the Forward that reaches `N`), then `first N`, then `k-1`
times `again N`. -/
theorem canon_acts_repeating (fuel : Nat) (hp : s.passes = none) (h0 : s.maxN0 = none)
    (hfa : ∀ n, (s.fwdEv n).act ≠ .endReverse ∧ (s.fwdEv n).act ≠ .endForward)
    (pos : Nat → Nat) (q : Nat) (hpos0 : pos 0 = 0) (hnext : ∀ j, (s.fwdEv (pos j)).n = pos (j + 1))
    (hq : 1 ≤ q) (hlt : ∀ i, i + 1 < q → pos (i + 1) < N) (hge : N ≤ pos q) (hN : 1 ≤ N) (hk : 1 ≤ k)
    (ef : Ev) (t : List Ev) (er : Ev) (hfirst : s.first N = .ok (ef :: (t ++ [er])))
    (hef : ef.act ≠ .endReverse) (her : er.act = .endReverse) (ht : ∀ e ∈ t, e.act ≠ .endReverse)
    (agI : List Ev) (agL : Ev) (hag : s.again N = agI ++ [agL]) (hagL : agL.act = .endReverse)
    (hagI : ∀ e ∈ agI, e.act ≠ .endReverse)
    (hfuel : q + (t.length + 2) + (k - 1) * (agI.length + 1) ≤ fuel) :
    actLines (s.canon N k fuel)
      = (List.range q).map (fun j => fwdObs N (s.fwdEv (pos j))) ++ (ef :: (t ++ [er])).map (Ev.obs · N)
        ++ (List.replicate (k - 1) ((s.again N).map (Ev.obs · N))).flatten := by
  obtain ⟨extra, rfl⟩ := Nat.exists_eq_add_of_le hfuel
  have hinit : s.init = MF (pos 0) 0 false := by simp [Sched.init, MF, h0, hpos0]
  have hcanon : actLines (s.canon N k (q + (t.length + 2) + (k - 1) * (agI.length + 1) + extra))
      = actLines (s.canonLoop N k (q + (t.length + 2) + (k - 1) * (agI.length + 1) + extra) s.init 0 false) := by
    simp [Sched.canon, actLines, MSt.line, Sched.usesLine]
  rw [hcanon, hinit]
  have e1 : q + (t.length + 2) + (k - 1) * (agI.length + 1) + extra
      = (q - 1) + 1 + ((t.length + 1 + (k - 1) * (agI.length + 1) + extra) + 1) := by omega
  obtain ⟨r', h1⟩ := canonLoop_fwd_list s N k pos q hfa hnext hlt hge hN 0 false
    ((t.length + 1 + (k - 1) * (agI.length + 1) + extra) + 1) (q - 1) 0 0 false (by omega)
  obtain ⟨used', h2⟩ := canonLoop_first s N k (t.length + 1 + (k - 1) * (agI.length + 1) + extra) r' 0 false ef
    (t ++ [er]) hfirst hef (finAt_none s hp ef 0)
  rw [restOf_cons _ _ (by simp)] at h2
  have h3 := canonLoop_run_passes s N k hp agI agL hag hagL hagI extra (k - 1) 0 t er ef.n ef.r true used' 0
    (by omega) her ht
  have e2 : q - 1 + 1 = q := by omega
  rw [e1, h1, h2, h3, e2, List.range_eq_range']
  simp

theorem canon_start (fuel : Nat) (h0 : s.maxN0 = none) :
    actLines (s.canon N k fuel) = actLines (s.canonLoop N k fuel (MF 0 0 false) 0 false) := by
  simp [Sched.canon, actLines, MSt.line, Sched.usesLine, Sched.init, MF, h0]

end

/-! ## events other than `EndReverse` -/

def NoER (evs : List Ev) : Prop := ∀ e ∈ evs, e.act ≠ .endReverse

theorem NoER.nil : NoER [] := by intro e he; simp at he

theorem NoER.cons {e : Ev} {evs : List Ev} (h : e.act ≠ .endReverse) (hs : NoER evs) : NoER (e :: evs) := by
  intro e' he'
  rcases List.mem_cons.mp he' with rfl | h'
  · exact h
  · exact hs e' h'

theorem NoER.append {a b : List Ev} (ha : NoER a) (hb : NoER b) : NoER (a ++ b) := by
  intro e he
  rcases List.mem_append.mp he with h | h
  · exact ha e h
  · exact hb e h

theorem segWith_noER (N : Nat) (σ : Nat → Nat → Option Nat) (S : Nat) (alloc : Nat → Storage) (persist : Bool) :
    ∀ (fuel : Nat) (sd sp : Bool) (lo hi d : Nat) (evs : List Ev),
      segWith N σ S alloc persist fuel sd sp lo hi d = some evs → NoER evs := by
  intro fuel
  induction fuel with
  | zero => intro _ _ _ _ _ evs h; simp [segWith] at h
  | succ fuel ih =>
    intro sd sp lo hi d evs h
    unfold segWith at h
    by_cases hb : hi = lo + 1
    · simp only [hb, if_true] at h
      injection h with h
      subst h
      refine NoER.append (NoER.append (NoER.append ?_ ?_) ?_) ?_
      · split
        · refine NoER.cons ?_ NoER.nil
          split <;> simp
        · exact NoER.nil
      · exact NoER.cons (by simp) NoER.nil
      · split
        · exact NoER.cons (by simp) NoER.nil
        · exact NoER.nil
      · exact NoER.cons (by simp) NoER.nil
    · simp only [hb, if_false] at h
      rcases hσ : σ (hi - lo) (S - d) with _ | a
      · rw [hσ] at h; simp at h
      · rw [hσ] at h
        dsimp only at h
        rcases hr : segWith N σ S alloc persist fuel false sp (lo + a) hi (d + 1) with _ | right
        · rw [hr] at h; simp at h
        · rw [hr] at h
          dsimp only at h
          rcases hl : segWith N σ S alloc persist fuel true false lo (lo + a) d with _ | left
          · rw [hl] at h; simp at h
          · rw [hl] at h
            dsimp only at h
            injection h with h
            subst h
            refine NoER.append (NoER.append ?_ (ih _ _ _ _ _ _ hr)) (ih _ _ _ _ _ _ hl)
            split
            · exact NoER.cons (by simp) (NoER.cons (by simp) NoER.nil)
            · exact NoER.cons (by simp) NoER.nil

theorem twoLevelBlocks_noER (N p b : Nat) (st : Storage) (traj : Traj) :
    ∀ (blk : Nat) (evs : List Ev), twoLevelBlocks N p b st traj blk = some evs → NoER evs := by
  intro blk
  induction blk with
  | zero => intro evs h; simp [twoLevelBlocks] at h; subst h; exact NoER.nil
  | succ blk ih =>
    intro evs h
    unfold twoLevelBlocks at h
    dsimp only at h
    rcases hs : segWith N (fun m k => nAdvance m k traj) (b + 1) (fun d => if d = 0 then Storage.disk else st) true
        (min (blk * p + p) N - blk * p + 1) true false (blk * p) (min (blk * p + p) N) 0 with _ | seg
    · rw [hs] at h; simp at h
    · rw [hs] at h
      dsimp only at h
      rcases hr : twoLevelBlocks N p b st traj blk with _ | rest
      · rw [hr] at h; simp at h
      · rw [hr] at h
        dsimp only at h
        injection h with h
        subst h
        exact NoER.append (segWith_noER _ _ _ _ _ _ _ _ _ _ _ _ hs) (ih _ hr)

/-! ## TwoLevel -/

/-- **TwoLevel**: `twoLevelObs` is the list of observations on the `act` lines of the canonical
trace, for all valid parameters (and enough fuel for the trace to be complete). -/
theorem twoLevel_canon (p b N k fuel : Nat) (st : Storage) (traj : Traj) (hp : 1 ≤ p)
    (hst : st = .ram ∨ st = .disk) (hN : 1 ≤ N) (hk : 1 ≤ k)
    (hfuel : ceilDiv N p + 1 + k * (twoLevelPass N p b st traj).length ≤ fuel) :
    twoLevelObs p b st traj N k = some (actLines ((twoLevelS p b st traj).canon N k fuel)) := by
  obtain ⟨⟨evs, hevs⟩, _⟩ := twoLevel_pass p b N st traj hp hst hN 0 (some N)
  have hpass : twoLevelPass N p b st traj = evs ++ [⟨.endReverse, 1, 0⟩] := by
    simp only [twoLevelPass, hevs]
  have hfirst : (twoLevelS p b st traj).first N = .ok (⟨.endForward, N, 0⟩ :: (evs ++ [⟨.endReverse, 1, 0⟩])) := by
    simp only [twoLevelS, hevs, hpass]
  have hno := twoLevelBlocks_noER N p b st traj _ evs hevs
  have hlen : (twoLevelPass N p b st traj).length = evs.length + 1 := by rw [hpass]; simp
  have hk' : k * (evs.length + 1) = (k - 1) * (evs.length + 1) + (evs.length + 1) := by
    obtain ⟨k', rfl⟩ := Nat.exists_eq_add_of_le hk
    rw [Nat.add_comm 1 k', Nat.add_sub_cancel, Nat.succ_mul]
  have h := canon_acts_repeating (twoLevelS p b st traj) N k fuel rfl rfl
    (fun n => ⟨by simp [twoLevelS], by simp [twoLevelS]⟩)
    (fun j => j * p) (ceilDiv N p) (by simp)
    (fun j => by simp [twoLevelS, Nat.succ_mul])
    (ceilDiv_pos N p hp hN) (fun i hi => ceilDiv_lt N p (i + 1) hN (by omega)) (ceilDiv_ge N p hp) hN hk
    ⟨.endForward, N, 0⟩ evs ⟨.endReverse, 1, 0⟩ hfirst (by simp) rfl hno
    evs ⟨.endReverse, 1, 0⟩ hpass rfl hno (by rw [hlen, hk'] at hfuel; omega)
  rw [h]
  simp only [twoLevelObs, twoLevelSched_ok p b st traj hp hst, hfirst]
  rfl

/-! ## SingleMemory -/

/-- **SingleMemory**: `singleMemoryObs` is the list of observations on the `act` lines of the
canonical trace. -/
theorem singleMemory_canon (N k fuel : Nat) (hN : 1 ≤ N) (hmax : N ≤ maxsize) (hk : 1 ≤ k)
    (hfuel : 2 * k + 2 ≤ fuel) :
    actLines (singleMemorySched.canon N k fuel) = singleMemoryObs N k := by
  have h := canon_acts_repeating singleMemorySched N k fuel rfl rfl
    (fun n => ⟨by simp [singleMemorySched], by simp [singleMemorySched]⟩)
    (fun j => j * maxsize) 1 (by simp)
    (fun j => by simp [singleMemorySched, Nat.succ_mul])
    (le_refl _) (fun i hi => by omega) (by simpa using hmax) hN hk
    ⟨.endForward, N, 0⟩ [⟨.reverse N 0 false, N, N⟩] ⟨.endReverse, N, 0⟩ rfl (by simp) rfl
    (NoER.cons (by simp) NoER.nil)
    [⟨.reverse N 0 false, N, N⟩] ⟨.endReverse, N, 0⟩ rfl rfl (NoER.cons (by simp) NoER.nil)
    (by simp; omega)
  rw [h]
  obtain ⟨k', rfl⟩ := Nat.exists_eq_add_of_le hk
  simp [singleMemoryObs, singleMemoryPass, singleMemorySched, fwdObs, Ev.obs, hmax, Nat.add_comm 1 k',
    List.replicate_succ]

/-! ## SingleDisk -/

/-- the reverse loop of SingleDisk without its final `EndReverse` -/
def singleDiskBody (move : Bool) (N : Nat) : Nat → List Ev
  | 0 => []
  | k+1 =>
    ⟨if move then .move k .disk .work else .copy k .disk .work, k, N - (k+1)⟩ ::
    ⟨.reverse (k+1) k true, k, N - k⟩ :: singleDiskBody move N k

theorem singleDiskPass_eq (move : Bool) (N j : Nat) :
    singleDiskPass move N j = singleDiskBody move N j ++ [⟨.endReverse, 0, if move then N else 0⟩] := by
  induction j with
  | zero => rfl
  | succ j ih => simp only [singleDiskPass, singleDiskBody, ih, List.cons_append]

theorem singleDiskBody_noER (move : Bool) (N j : Nat) : NoER (singleDiskBody move N j) := by
  induction j with
  | zero => exact NoER.nil
  | succ j ih =>
    refine NoER.cons ?_ (NoER.cons (by simp) ih)
    cases move <;> simp

theorem singleDiskBody_length (move : Bool) (N j : Nat) : (singleDiskBody move N j).length = 2 * j := by
  induction j with
  | zero => rfl
  | succ j ih => simp only [singleDiskBody, List.length_cons, ih]; omega

theorem singleDiskFwdObs_eq (move : Bool) (N : Nat) :
    (List.range N).map (fun j => fwdObs N ((singleDiskSched move).fwdEv j)) = singleDiskFwdObs N := by
  unfold singleDiskFwdObs
  apply List.map_congr_left
  intro j hj
  have hj' : j < N := List.mem_range.mp hj
  have h1 : min (j + 1) N = j + 1 := by omega
  by_cases h : j + 1 = N
  · simp [fwdObs, singleDiskSched, h]
  · have h2 : ¬ N ≤ j + 1 := by omega
    simp [fwdObs, singleDiskSched, h, h1, h2]

/-- **SingleDisk, `move_data = False`**: `singleDiskObs false` is the list of observations on the
`act` lines of the canonical trace. -/
theorem singleDisk_copy_canon (N k fuel : Nat) (hN : 1 ≤ N) (hk : 1 ≤ k)
    (hfuel : N + 1 + k * (2 * N + 1) ≤ fuel) :
    actLines ((singleDiskSched false).canon N k fuel) = singleDiskObs false N k := by
  have hk' : k * (2 * N + 1) = (k - 1) * (2 * N + 1) + (2 * N + 1) := by
    obtain ⟨k', rfl⟩ := Nat.exists_eq_add_of_le hk
    rw [Nat.add_comm 1 k', Nat.add_sub_cancel, Nat.succ_mul]
  have h := canon_acts_repeating (singleDiskSched false) N k fuel rfl rfl
    (fun n => ⟨by simp [singleDiskSched], by simp [singleDiskSched]⟩)
    (fun j => j) N rfl (fun j => by simp [singleDiskSched]) hN (fun i hi => hi) (le_refl _) hN hk
    ⟨.endForward, N, 0⟩ (singleDiskBody false N N) ⟨.endReverse, 0, 0⟩
    (by simp [singleDiskSched, singleDiskPass_eq]) (by simp) rfl (singleDiskBody_noER false N N)
    (singleDiskBody false N N) ⟨.endReverse, 0, 0⟩
    (by simp [singleDiskSched, singleDiskPass_eq]) rfl (singleDiskBody_noER false N N)
    (by rw [singleDiskBody_length]; rw [hk'] at hfuel; omega)
  rw [h, singleDiskFwdObs_eq]
  obtain ⟨k', rfl⟩ := Nat.exists_eq_add_of_le hk
  have hobs : (fun e : Ev => sdObs false N e) = (fun e => Ev.obs e N) := by
    funext e; simp [sdObs, Ev.obs]
  simp [singleDiskObs, singleDiskPassObs, singleDiskSched, singleDiskPass_eq, Nat.add_comm 1 k',
    List.replicate_succ, hobs, sdObs, Ev.obs]

/-- **SingleDisk, `move_data = True`**: `singleDiskObs true` is the list of observations on the
`act` lines of the canonical trace — one adjoint calculation, whatever number was asked for. -/
theorem singleDisk_move_canon (N k fuel : Nat) (hN : 1 ≤ N) (hfuel : 3 * N + 2 ≤ fuel) :
    actLines ((singleDiskSched true).canon N k fuel) = singleDiskObs true N k := by
  obtain ⟨extra, rfl⟩ := Nat.exists_eq_add_of_le hfuel
  have hfin : ∀ e : Ev, e.act ≠ .endReverse → (singleDiskSched true).finAt e 0 = false := by
    intro e he; simp [Sched.finAt, singleDiskSched, he]
  have e1 : 3 * N + 2 + extra = (N - 1) + 1 + ((2 * N + (extra + 1)) + 1) := by omega
  obtain ⟨r', h1⟩ := canonLoop_fwd_list (singleDiskSched true) N k (fun j => j) N
    (fun n => ⟨by simp [singleDiskSched], by simp [singleDiskSched]⟩) (fun j => by simp [singleDiskSched])
    (fun i hi => hi) (le_refl _) hN 0 false ((2 * N + (extra + 1)) + 1) (N - 1) 0 0 false (by omega)
  obtain ⟨used1, h2⟩ := canonLoop_first (singleDiskSched true) N k (2 * N + (extra + 1)) r' 0 false
    ⟨.endForward, N, 0⟩ (singleDiskBody true N N ++ [⟨.endReverse, 0, N⟩])
    (by simp [singleDiskSched, singleDiskPass_eq]) (by simp) (hfin _ (by simp))
  rw [restOf_cons _ _ (by simp)] at h2
  obtain ⟨n', r'', st', used2, h3⟩ := canonLoop_run_prefix (singleDiskSched true) N k 0 0 (extra + 1)
    [⟨.endReverse, 0, N⟩] (by simp) (singleDiskBody true N N) N 0 true used1 (singleDiskBody_noER true N N)
    (fun e he => hfin e (singleDiskBody_noER true N N e he))
  rw [singleDiskBody_length] at h3
  have h4 := canonLoop_run_fin (singleDiskSched true) N k extra n' r'' st' 0 used2 ⟨.endReverse, 0, N⟩ [] 0
    (by simp [Sched.finAt, singleDiskSched])
  have e2 : N - 1 + 1 = N := by omega
  rw [canon_start _ _ _ _ rfl, e1, h1, h2, h3, h4, e2, List.range_eq_range'.symm, singleDiskFwdObs_eq]
  simp [singleDiskObs, singleDiskPassObs, singleDiskPass_eq, sdObs, Ev.obs]
  exact singleDiskBody_noER true N N

/-! ## None -/

/-- **None**: `noneObs` is the list of observations on the `act` lines of the canonical trace. -/
theorem none_canon (N k fuel : Nat) (hN : 1 ≤ N) (hmax : N ≤ maxsize) (hfuel : 2 ≤ fuel) :
    actLines (noneSched.canon N k fuel) = noneObs N := by
  obtain ⟨extra, rfl⟩ := Nat.exists_eq_add_of_le hfuel
  have e1 : 2 + extra = 0 + 1 + (extra + 1) := by omega
  obtain ⟨r', h1⟩ := canonLoop_fwd_list noneSched N k (fun j => j * maxsize) 1
    (fun n => ⟨by simp [noneSched], by simp [noneSched]⟩) (fun j => by simp [noneSched, Nat.succ_mul])
    (fun i hi => by omega) (by simpa using hmax) hN 0 false (extra + 1) 0 0 0 false (by omega)
  have h2 := canonLoop_first_fin noneSched N k extra r' 0 false ⟨.endForward, N, 0⟩ [] rfl
    (by simp [Sched.finAt, noneSched])
  rw [canon_start _ _ _ _ rfl, e1]
  simp only [Nat.zero_mul] at h1
  rw [h1, h2]
  simp [noneObs, noneSched, fwdObs, hmax]

/-! ## acceptance of the canonical traces -/

/-- SingleMemory: the `act` lines of the canonical trace are accepted -/
theorem singleMemory_canon_clean (N k fuel : Nat) (hN : 1 ≤ N) (hmax : N ≤ maxsize) (hk : 1 ≤ k)
    (hfuel : 2 * k + 2 ≤ fuel) :
    Clean (cfgSingleMemory N) (XS.init (cfgSingleMemory N)) (actLines (singleMemorySched.canon N k fuel))
      (X (some N) 0 none (some (0, N)) [] true k []) := by
  rw [singleMemory_canon N k fuel hN hmax hk hfuel]
  exact singleMemory_clean N k hN hmax hk

/-- SingleDisk, `move_data = False`: the `act` lines of the canonical trace are accepted -/
theorem singleDisk_copy_canon_clean (N k fuel : Nat) (hN : 1 ≤ N) (hk : 1 ≤ k)
    (hfuel : N + 1 + k * (2 * N + 1) ≤ fuel) :
    Clean (cfgSingleDisk false N) (XS.init (cfgSingleDisk false N))
      (actLines ((singleDiskSched false).canon N k fuel))
      (X none 0 none none (diskCps N) true k (diskCps N)) := by
  rw [singleDisk_copy_canon N k fuel hN hk hfuel]
  exact singleDisk_copy_clean N k hN hk

/-- SingleDisk, `move_data = True`: the `act` lines of the canonical trace are accepted -/
theorem singleDisk_move_canon_clean (N k fuel : Nat) (hN : 1 ≤ N) (hk : 1 ≤ k) (hfuel : 3 * N + 2 ≤ fuel) :
    Clean (cfgSingleDisk true N) (XS.init (cfgSingleDisk true N))
      (actLines ((singleDiskSched true).canon N k fuel))
      (X none N none none [] true 1 (diskCps N)) := by
  rw [singleDisk_move_canon N k fuel hN hfuel]
  exact singleDisk_move_clean N k hN hk

/-- None: the `act` lines of the canonical trace are accepted -/
theorem none_canon_clean (N k fuel : Nat) (hN : 1 ≤ N) (hmax : N ≤ maxsize) (hfuel : 2 ≤ fuel) :
    Clean (cfgNone N) (XS.init (cfgNone N)) (actLines (noneSched.canon N k fuel))
      (X (some N) 0 none none [] true 0 []) := by
  rw [none_canon N k fuel hN hmax hfuel]
  exact none_clean N hN hmax

/-- TwoLevel: construction succeeds and the `act` lines of the canonical trace are accepted -/
theorem twoLevel_canon_clean (p b N k fuel : Nat) (st : Storage) (traj : Traj) (hp : 1 ≤ p)
    (hst : st = .ram ∨ st = .disk) (hN : 1 ≤ N) (hk : 1 ≤ k)
    (hfuel : ceilDiv N p + 1 + k * (twoLevelPass N p b st traj).length ≤ fuel) :
    ∃ s, twoLevelSched p b st traj = .ok s ∧
      Clean (cfgTwoLevel p b st N) (XS.init (cfgTwoLevel p b st N)) (actLines (s.canon N k fuel))
        (X (some 1) 0 none none (sweepCps p N (ceilDiv N p)) true k (sweepCps p N (ceilDiv N p))) := by
  refine ⟨twoLevelS p b st traj, twoLevelSched_ok p b st traj hp hst, ?_⟩
  obtain ⟨obs, hobs, hclean⟩ := twoLevel_clean p b N k st traj hp hst hN hk
  rw [twoLevel_canon p b N k fuel st traj hp hst hN hk hfuel] at hobs
  injection hobs with hobs
  rw [hobs]
  exact hclean

example : ∃ s, twoLevelSched 3 2 .ram .maximum = .ok s ∧
    Clean (cfgTwoLevel 3 2 .ram 10) (XS.init (cfgTwoLevel 3 2 .ram 10)) (actLines (s.canon 10 2 500))
      (X (some 1) 0 none none (sweepCps 3 10 4) true 2 (sweepCps 3 10 4)) :=
  twoLevel_canon_clean 3 2 10 2 500 .ram .maximum (by omega) (Or.inl rfl) (by omega) (by omega) (by decide)

end Ckpt.On
