import CkptVerif.Proofs.MultistageOk
import CkptVerif.Proofs.TopK
import CkptVerif.Proofs.OfflineGlue
import CkptVerif.Proofs.SegLabels
import CkptVerif.Spec.Configs
/-!
# MultistageCheckpointSchedule end to end, for all valid parameters

(a) the dry run of `allocate_snapshots` never fails (the depth discipline of binomial segments);
(b) the `storage` tuple computed by `__init__` is a RAM/DISK labelling within the budgets;
(c) the canonical trace of the model object passes the whole monitor.
-/
namespace Ckpt

/-! ## (a) the dry run -/

theorem dryRun_append (S : Nat) : ∀ (a b : List Ev) (top : Nat) (w : List Nat),
    dryRun S (a ++ b) top w = (dryRun S a top w).bind (fun p => dryRun S b p.1 p.2) := by
  intro a
  induction a with
  | nil => intro b top w; rfl
  | cons e es ih =>
    intro b top w
    simp only [List.cons_append, dryRun]
    split <;> (try split) <;> first | rfl | exact ih _ _ _

/-- a stream on which the dry run started at depth `t` succeeds and ends at depth `t'` -/
def DryOk (S : Nat) (evs : List Ev) (t t' : Nat) : Prop :=
  ∀ w, ∃ w', dryRun S evs t w = some (t', w')

theorem DryOk.append {S : Nat} {a b : List Ev} {t t' t'' : Nat} (h1 : DryOk S a t t')
    (h2 : DryOk S b t' t'') : DryOk S (a ++ b) t t'' := by
  intro w
  obtain ⟨w1, e1⟩ := h1 w
  obtain ⟨w2, e2⟩ := h2 w1
  exact ⟨w2, by rw [dryRun_append, e1]; exact e2⟩

theorem DryOk.nil (S t : Nat) : DryOk S [] t t := fun w => ⟨w, rfl⟩

theorem dryOk_plain (S t : Nat) (n0 n1 : Nat) (wa : Bool) (st : Storage) (n r : Nat) :
    DryOk S [⟨.forward n0 n1 false wa st, n, r⟩] t t := fun w => ⟨w, rfl⟩

theorem dryOk_write (S t : Nat) (n0 n1 : Nat) (wa : Bool) (st : Storage) (n r : Nat) (h : t + 1 ≤ S) :
    DryOk S [⟨.forward n0 n1 true wa st, n, r⟩] t (t + 1) := by
  intro w
  refine ⟨w.modify t (· + 1), ?_⟩
  simp only [dryRun]
  rw [if_neg (by omega)]

theorem dryOk_copy (S t : Nat) (n0 : Nat) (src dst : Storage) (n r : Nat) :
    DryOk S [⟨.copy n0 src dst, n, r⟩] (t + 1) (t + 1) := by
  intro w
  refine ⟨w.modify t (· + 1), ?_⟩
  simp only [dryRun]
  rw [if_neg (by omega)]
  rfl

theorem dryOk_move_work (S t : Nat) (n0 : Nat) (src : Storage) (n r : Nat) :
    DryOk S [⟨.move n0 src .work, n, r⟩] (t + 1) t := by
  intro w
  refine ⟨w.modify t (· + 1), ?_⟩
  simp only [dryRun]
  rw [if_neg (by omega)]
  rfl

theorem dryOk_reverse (S t : Nat) (n1 n0 : Nat) (c : Bool) (n r : Nat) :
    DryOk S [⟨.reverse n1 n0 c, n, r⟩] t t := fun w => ⟨w, rfl⟩

theorem dryOk_endForward (S t : Nat) (n r : Nat) :
    DryOk S [⟨.endForward, n, r⟩] t t := fun w => ⟨w, rfl⟩

/-- **Depth discipline of a binomial segment** (`persist = false`): the stream exists, and the
dry run of `allocate_snapshots` enters with `d` (+1 if the checkpoint for `lo` is stored) units in
use, never needs more than `S`, never pops an empty stack, and leaves with `d` units in use. -/
theorem segWith_dryOk (N : Nat) (σ : Nat → Nat → Option Nat) (S : Nat) (alloc : Nat → Storage)
    (hrange : ∀ m k, 2 ≤ m → 1 ≤ k → ∃ a, σ m k = some a ∧ 1 ≤ a ∧ a ≤ m - 1)
    (hone : ∀ m, 2 ≤ m → σ m 1 = some (m - 1)) :
    ∀ (fuel : Nat) (stored spine : Bool) (lo hi d : Nat),
      hi - lo ≤ fuel → lo < hi → (lo + 2 ≤ hi → d + 1 ≤ S) →
      ∃ evs, segWith N σ S alloc false fuel stored spine lo hi d = some evs ∧
        DryOk S evs (d + if stored then 1 else 0) d := by
  intro fuel
  induction fuel with
  | zero => intro _ _ lo hi _ h1 h2; omega
  | succ fuel ih =>
    intro stored spine lo hi d hfuel hlt hd
    unfold segWith
    by_cases hbase : hi = lo + 1
    · simp only [hbase, if_true]
      refine ⟨_, rfl, ?_⟩
      simp only [Bool.false_eq_true, false_and, if_false]
      have htail : DryOk S ([(⟨.forward lo (lo + 1) false true .work, lo + 1, N - (lo + 1)⟩ : Ev)] ++
          (if spine = true then [(⟨.endForward, lo + 1, N - (lo + 1)⟩ : Ev)] else []) ++
          [⟨.reverse (lo + 1) lo true, lo + 1, N - (lo + 1) + 1⟩]) d d := by
        refine ((dryOk_plain S d _ _ _ _ _ _).append ?_).append (dryOk_reverse S d _ _ _ _ _)
        cases spine
        · exact DryOk.nil S d
        · exact dryOk_endForward S d _ _
      cases stored
      · simpa using htail
      · simp only [if_true, List.append_assoc] at htail ⊢
        exact (dryOk_move_work S d _ _ _ _).append htail
    · simp only [hbase, if_false]
      have h2 : lo + 2 ≤ hi := by omega
      have hdS := hd h2
      obtain ⟨a, ha, ha1, ha2⟩ := hrange (hi - lo) (S - d) (by omega) (by omega)
      rw [ha]; dsimp only
      have hright_units : lo + a + 2 ≤ hi → (d + 1) + 1 ≤ S := by
        intro h
        by_contra hc
        have hS1 : S - d = 1 := by omega
        rw [hS1, hone _ (by omega)] at ha
        injection ha with ha; omega
      obtain ⟨right, hright, dright⟩ := ih false spine (lo + a) hi (d + 1) (by omega) (by omega)
        hright_units
      obtain ⟨left, hleft, dleft⟩ := ih true false lo (lo + a) d (by omega) (by omega)
        (fun _ => hdS)
      rw [hright]; dsimp only
      rw [hleft]; dsimp only
      refine ⟨_, rfl, ?_⟩
      simp only [Bool.false_eq_true, if_false, Nat.add_zero, if_true] at dright dleft
      refine (DryOk.append ?_ dright).append dleft
      cases stored
      · simp only [Bool.false_eq_true, if_false, Nat.add_zero]
        exact dryOk_write S d _ _ _ _ _ _ hdS
      · simp only [if_true]
        exact (dryOk_copy S d _ _ _ _ _).append (dryOk_plain S (d + 1) _ _ _ _ _ _)

/-- the stream `allocate_snapshots` walks exists and its dry run succeeds with an empty stack -/
theorem multistageSeg_dryOk (N S : Nat) (alloc : Nat → Storage) (traj : Traj) (h1 : 1 ≤ N)
    (hS : 2 ≤ N → 1 ≤ S) :
    ∃ evs, multistageSeg N S alloc traj = some evs ∧ DryOk S evs 0 0 := by
  obtain ⟨evs, hseg, hdry⟩ := segWith_dryOk N (fun m k => nAdvance m k traj) S alloc
    (fun m k hm hk => nAdvance_range m k traj hm hk) (fun m hm => nAdvance_one m traj (by omega))
    N false true 0 N 0 (by omega) (by omega) (by intro h; have := hS (by omega); omega)
  refine ⟨evs ++ [⟨.endReverse, 1, N⟩], by unfold multistageSeg; rw [hseg]; rfl, ?_⟩
  simp only [Bool.false_eq_true, if_false, Nat.add_zero] at hdry
  exact hdry.append (fun w => ⟨w, rfl⟩)

/-- **(a)** `allocate_snapshots` never raises: whenever there is at least one unit for `N ≥ 2`. -/
theorem allocate_isSome (N ram disk : Nat) (traj : Traj) (h1 : 1 ≤ N)
    (hS : 2 ≤ N → 1 ≤ ram + disk) : ∃ w alloc, allocate N ram disk traj = some (w, alloc) := by
  obtain ⟨evs, hseg, hdry⟩ := multistageSeg_dryOk N
    (min (min ram (N - 1) + min disk (N - 1)) (N - 1)) (fun _ => .ram) traj h1
    (by intro h; have := hS h; omega)
  obtain ⟨w', hw'⟩ := hdry (List.replicate (min (min ram (N - 1) + min disk (N - 1)) (N - 1)) 0)
  unfold allocate
  simp only [hseg, hw']
  simp

/-! ## (b) the `storage` tuple of `__init__` -/

theorem count_ram_add_count_disk (l : List Storage) (h : ∀ x ∈ l, x = .ram ∨ x = .disk) :
    l.count .ram + l.count .disk = l.length := by
  induction l with
  | nil => rfl
  | cons a l ih =>
    have ih' := ih (fun x hx => h x (List.mem_cons_of_mem _ hx))
    rcases h a (by simp) with rfl | rfl <;> simp <;> omega

/-- **(b)** the storage tuple is a RAM/DISK labelling of `min (ram + disk) (N - 1)` stack
positions with at most `ram` RAM and at most `disk` DISK labels. -/
theorem multistageStorage_spec (N ram disk : Nat) (traj : Traj) (hN : 1 ≤ N) :
    ∃ storage, multistageStorage N ram disk traj = some storage ∧
      (∀ x ∈ storage, x.isStore = true) ∧ storage.count .ram ≤ ram ∧
      storage.count .disk ≤ disk ∧ storage.length = min (ram + disk) (N - 1) := by
  unfold multistageStorage
  simp only
  by_cases hr : min ram (N - 1) = 0
  · rw [if_pos hr]
    refine ⟨_, rfl, ?_, ?_, ?_, ?_⟩
    · intro x hx; rw [List.eq_of_mem_replicate hx]; rfl
    · simp [List.count_replicate]
    · simp
    · rw [List.length_replicate]; omega
  · rw [if_neg hr]
    by_cases hd : min disk (N - 1) = 0
    · rw [if_pos hd]
      refine ⟨_, rfl, ?_, ?_, ?_, ?_⟩
      · intro x hx; rw [List.eq_of_mem_replicate hx]; rfl
      · simp
      · simp [List.count_replicate]
      · rw [List.length_replicate]; omega
    · rw [if_neg hd]
      obtain ⟨w, alloc, hall⟩ := allocate_isSome N (min ram (N - 1)) (min disk (N - 1)) traj hN
        (by intro _; omega)
      obtain ⟨hwlen, hshape⟩ := allocate_shape _ _ _ _ _ _ hall
      obtain ⟨hlen, hcr, _, _⟩ := allocate_spec _ _ _ _ _ _ hall
      have hmem : ∀ x ∈ alloc, x = .ram ∨ x = .disk := by
        intro x hx
        rw [hshape, List.mem_map] at hx
        obtain ⟨i, _, rfl⟩ := hx
        split
        · exact .inl rfl
        · exact .inr rfl
      have hsum := count_ram_add_count_disk alloc hmem
      rw [hall]
      refine ⟨alloc, rfl, ?_, ?_, ?_, ?_⟩
      · intro x hx; rcases hmem x hx with rfl | rfl <;> rfl
      · omega
      · omega
      · omega

/-! ## (c) end to end -/

theorem mem_of_getD_eq {storage : List Storage} {d : Nat} {st : Storage}
    (h : storage.getD d .none = st) (hst : st ≠ .none) : st ∈ storage := by
  by_cases hd : d < storage.length
  · have : storage.getD d .none = storage[d] := by simp [List.getD, hd]
    rw [this] at h; rw [← h]; exact List.getElem_mem hd
  · have : storage.getD d .none = .none := by simp [List.getD, Nat.le_of_not_lt hd]
    rw [this] at h; exact absurd h.symm hst

/-- **(c) Multistage end to end.**  For every valid parameter tuple the model object exists, its
generator produces a stream `evs` (ending in `EndReverse`), and the canonical trace recorded by the
canonical client — for any requested number `k` of adjoint calculations and any fuel at least
`evs.length + 4` — passes the whole monitor: no violation of C01, C02, C03, C04, C08, C09, C11,
C12, C18. -/
theorem multistage_monitor_clean (N ram disk : Nat) (traj : Traj)
    (hv : validMultistage N ram disk = true) :
    ∃ s evs, multistageSched N ram disk traj = .ok s ∧
      multistageEvs N ram disk traj = .ok evs ∧
      ∀ k fuel, evs.length + 4 ≤ fuel →
        monitor (cfgMultistage ram disk N) k (s.canon N k fuel) = [] := by
  simp only [validMultistage, Bool.and_eq_true, Bool.or_eq_true, decide_eq_true_eq] at hv
  obtain ⟨h1, hunit⟩ := hv
  obtain ⟨storage, hsto, hstore, hcr, hcd, hlen⟩ := multistageStorage_spec N ram disk traj h1
  have hunits : 2 ≤ N → 1 ≤ storage.length := by
    intro h; rw [hlen]; rcases hunit with h' | h' <;> omega
  obtain ⟨evs, sn, hseg, hclean⟩ := multistage_clean (cfgMultistage ram disk N) N storage traj
    rfl rfl rfl h1 hunits hstore (by simpa [withinOpt, cfgMultistage] using hcr)
    (by simpa [withinOpt, cfgMultistage] using hcd)
  -- the generator's stream
  have hevs : multistageEvs N ram disk traj = .ok (evs ++ [⟨.endReverse, 1, N⟩]) := by
    unfold multistageEvs
    rw [if_neg (by omega), hsto]
    simp only
    rw [if_neg (by intro h; have := hunits (by omega); omega), hseg]
  -- the segment behind it
  have hsw : segWith N (fun m k => nAdvance m k traj) storage.length
      (fun d => storage.getD d .none) false N false true 0 N 0 = some evs := by
    unfold multistageSeg at hseg
    cases hs : segWith N (fun m k => nAdvance m k traj) storage.length
        (fun d => storage.getD d .none) false N false true 0 N 0 with
    | none => rw [hs] at hseg; cases hseg
    | some evs' =>
      rw [hs] at hseg
      simp only [Option.map_some, Option.some.injEq] at hseg
      rw [List.append_cancel_right hseg]
  have hs : multistageSched N ram disk traj = .ok (offlineSched N (multistageEvs N ram disk traj)
      (fun st => match st with
        | .ram => some (storage.contains .ram)
        | .disk => some (storage.contains .disk)
        | _ => some false)) := by
    unfold multistageSched
    rw [if_neg (by omega), hsto]
    rfl
  refine ⟨_, _, hs, hevs, ?_⟩
  · intro k fuel hfuel
    rw [hevs]
    apply offline_end_to_end (cfgMultistage ram disk N) N k fuel evs 1 _ _ rfl rfl rfl
      (by rw [List.length_append, List.length_singleton] at hfuel; omega)
      (segWith_no_endReverse hsw) hclean
    · intro st; cases st <;> rfl
    · rintro ⟨e, he, ht⟩
      obtain ⟨d', _, hd'⟩ := segWith_touches hsw e he .ram (.inl rfl) ht
      have : Storage.ram ∈ storage := mem_of_getD_eq hd' (by simp)
      simp [this]
    · rintro ⟨e, he, ht⟩
      obtain ⟨d', _, hd'⟩ := segWith_touches hsw e he .disk (.inr rfl) ht
      have : Storage.disk ∈ storage := mem_of_getD_eq hd' (by simp)
      simp [this]

/-- the same with the fuel bound existentially quantified: some `fuel0` (namely the length of the
generator's stream plus 4) such that every fuel `≥ fuel0` works -/
theorem multistage_monitor_clean' (N ram disk : Nat) (traj : Traj)
    (hv : validMultistage N ram disk = true) :
    ∃ s fuel0, multistageSched N ram disk traj = .ok s ∧
      ∀ k fuel, fuel0 ≤ fuel → monitor (cfgMultistage ram disk N) k (s.canon N k fuel) = [] := by
  obtain ⟨s, evs, hs, _, h⟩ := multistage_monitor_clean N ram disk traj hv
  exact ⟨s, evs.length + 4, hs, h⟩

/-! ### non-vacuity -/

example : validMultistage 6 2 2 = true := by decide
example : ∃ s evs, multistageSched 6 2 2 .revolve = .ok s ∧
    multistageEvs 6 2 2 .revolve = .ok evs ∧
    ∀ k fuel, evs.length + 4 ≤ fuel → monitor (cfgMultistage 2 2 6) k (s.canon 6 k fuel) = [] :=
  multistage_monitor_clean 6 2 2 .revolve (by decide)
example : validMultistage 1 0 0 = true := by decide
example : validMultistage 40 0 3 = true := by decide

end Ckpt

section AxiomCheck
open Ckpt
#print axioms segWith_dryOk
#print axioms allocate_isSome
#print axioms multistageStorage_spec
#print axioms multistage_monitor_clean
#print axioms multistage_monitor_clean'
end AxiomCheck
