import CkptVerif.Proofs.RevolveCost
import CkptVerif.Proofs.StepCount
import CkptVerif.Proofs.MultistageSteps
import CkptVerif.Proofs.PeriodicOps
import CkptVerif.Proofs.RevolveOk
/-!
# Revolve advances the forward over exactly the Griewank–Walther optimum number of steps (C05)

* `opt0_eq_extra`: the memory-only cost table is the step count,
  `opt0[m][l] = (l+1)·ub + uf · E(l+1, min(m, l))` with `E = optimal_extra_steps`;
* `revolveSplit_attains`: for `uf > 0` the split chosen by Revolve attains the minimum of the
  recurrence of `E`;
* `revSeg_fwdSteps`, `revolve_fwdSteps`, `periodic_segments_fwdSteps`.
-/
namespace Ckpt.RC
open Ckpt Ckpt.GW

/-! ## monotonicity of the optimum in the number of steps -/

/-- one more step costs at least one more forward step -/
theorem gwT_succ_ge (k : Nat) (hk : 1 ≤ k) : ∀ a, 1 ≤ a → gwT a k + 1 ≤ gwT (a + 1) k := by
  induction k, hk using Nat.le_induction with
  | base =>
    intro a ha
    rcases Nat.eq_or_lt_of_le ha with rfl | h2
    · rw [gwT_one, gwT_two 1 (le_refl _)]; omega
    · rw [gwT_k1 a h2, gwT_k1 (a + 1) (by omega), Nat.add_sub_cancel, GW.tri_succ a]
      omega
  | succ k hk ihk =>
    intro a
    induction a using Nat.strong_induction_on with
    | _ a iha =>
      intro ha
      rcases Nat.eq_or_lt_of_le ha with rfl | h2
      · rw [gwT_one, gwT_two (k + 1) (by omega)]; omega
      · obtain ⟨i, hi1, hi2, he⟩ := gwT_rec_attained (a + 1) (k + 1) (by omega) (by omega)
        rw [Nat.add_sub_cancel] at he
        rcases Nat.eq_or_lt_of_le hi1 with rfl | hi
        · -- split 1: compare with split 1 of `a`
          have hle := gwT_rec_le a (k + 1) 1 (by omega) (by omega) (le_refl _) (by omega)
          rw [Nat.add_sub_cancel, gwT_one] at hle
          rw [gwT_one, Nat.add_sub_cancel] at he
          have := ihk (a - 1) (by omega)
          have e : a - 1 + 1 = a := by omega
          rw [e] at this
          omega
        · -- split i ≥ 2: compare with split i - 1 of `a`
          have hle := gwT_rec_le a (k + 1) (i - 1) (by omega) (by omega) (by omega) (by omega)
          rw [Nat.add_sub_cancel] at hle
          have := iha (i - 1) (by omega) (by omega)
          have e1 : i - 1 + 1 = i := by omega
          have e2 : a - (i - 1) = a + 1 - i := by omega
          rw [e1] at this
          rw [e2] at hle
          omega

/-- `E(n, min(k, n-1))` is monotone in `n` -/
theorem extra_mono (k n : Nat) (hk : 1 ≤ k) (hn : 1 ≤ n) :
    extraCell n (clampS n k) ≤ extraCell (n + 1) (clampS (n + 1) k) := by
  have := gwT_succ_ge k hk n hn
  unfold gwT at this
  omega

/-- the recurrence of `E` in clamped form: every split is an upper bound -/
theorem extra_rec_le (m n i : Nat) (hm : 2 ≤ m) (hn : 2 ≤ n) (h1 : 1 ≤ i) (h2 : i < n) :
    extraCell n (clampS n m) ≤
      i + extraCell i (clampS i m) + extraCell (n - i) (clampS (n - i) (m - 1)) := by
  have := gwT_rec_le n m i hn hm h1 h2
  unfold gwT at this
  omega

/-- for `n ≥ 3` the minimum is attained at some split `i ≤ n - 2` (the split `n - 1` never beats
`n - 2`): this is the range of candidates of the cost table -/
theorem extra_rec_attained (m n : Nat) (hm : 2 ≤ m) (hn : 3 ≤ n) :
    ∃ i, 1 ≤ i ∧ i ≤ n - 2 ∧ extraCell n (clampS n m) =
      i + extraCell i (clampS i m) + extraCell (n - i) (clampS (n - i) (m - 1)) := by
  obtain ⟨i, h1, h2, he⟩ := gwT_rec_attained n m (by omega) hm
  unfold gwT at he
  by_cases hi : i ≤ n - 2
  · exact ⟨i, h1, hi, by omega⟩
  · have hin : i = n - 1 := by omega
    subst hin
    refine ⟨n - 2, by omega, le_refl _, ?_⟩
    have hle := extra_rec_le m n (n - 2) hm (by omega) (by omega) (by omega)
    have e1 : n - (n - 1) = 1 := by omega
    have e2 : n - (n - 2) = 2 := by omega
    rw [e1, extraCell_le_one 1 _ (le_refl _)] at he
    rw [e2] at hle ⊢
    have hc : clampS 2 (m - 1) = 1 := by unfold clampS; omega
    rw [hc, extraCell_s1 2 (le_refl _)] at hle ⊢
    have hmono := extra_mono m (n - 2) (by omega) (by omega)
    have e3 : n - 2 + 1 = n - 1 := by omega
    rw [e3] at hmono
    omega

/-! ## (a) the table is the step count -/

/-- `opt0[m][l] = (l+1)·ub + uf · E(l+1, min(m, l))` -/
theorem opt0_eq_extra (lmax mmax uf ub : Nat) : ∀ (l m : Nat), l ≤ lmax → 1 ≤ m → m ≤ mmax →
    opt0Get (opt0Table lmax mmax uf ub) m l =
      (l + 1) * ub + uf * extraCell (l + 1) (clampS (l + 1) m) := by
  intro l
  induction l using Nat.strong_induction_on with
  | _ l ih =>
    intro m hl hm1 hm
    rcases Nat.lt_or_ge l 2 with hl2 | hl2
    · rcases Nat.eq_zero_or_pos l with rfl | hpos
      · rw [opt0Get_zero _ _ _ _ _ hm, extraCell_le_one 1 _ (le_refl _)]; simp
      · have : l = 1 := by omega
        subst this
        have hc : clampS (1 + 1) m = 1 := by unfold clampS; omega
        rw [opt0Get_one _ _ _ _ _ hm1 hm, hc, extraCell_s1 2 (le_refl _)]
        simp; omega
    · rcases Nat.eq_or_lt_of_le hm1 with rfl | hm2
      · have hc : clampS (l + 1) 1 = 1 := by unfold clampS; omega
        rw [opt0Get_row1 _ _ _ _ _ hm hl2 hl, hc, extraCell_s1 (l + 1) (by omega), Nat.add_sub_cancel,
          Nat.mul_comm (l + 1) l, Nat.mul_comm _ uf]
      · -- the recurrence
        obtain ⟨hle, j, hj1, hj2, heq⟩ := opt0Get_rec_index lmax mmax uf ub m l hm2 hm hl2 hl
        -- the table entries on the right-hand sides, by the induction hypothesis
        have hR : ∀ j, 1 ≤ j → j ≤ l - 1 →
            j * uf + opt0Get (opt0Table lmax mmax uf ub) (m - 1) (l - j) +
              opt0Get (opt0Table lmax mmax uf ub) m (j - 1) =
            (l + 1) * ub + uf * (j + extraCell j (clampS j m) +
              extraCell (l + 1 - j) (clampS (l + 1 - j) (m - 1))) := by
          intro j hj1 hj2
          rw [ih (l - j) (by omega) (m - 1) (by omega) (by omega) (by omega),
            ih (j - 1) (by omega) m (by omega) hm1 hm]
          have e1 : l - j + 1 = l + 1 - j := by omega
          have e2 : j - 1 + 1 = j := by omega
          rw [e1, e2]
          obtain ⟨r, rfl⟩ : ∃ r, l = j + r := ⟨l - j, by omega⟩
          have e3 : j + r + 1 - j = r + 1 := by omega
          rw [e3]
          ring
        apply le_antisymm
        · obtain ⟨i, hi1, hi2, hie⟩ := extra_rec_attained m (l + 1) hm2 (by omega)
          have := hle i hi1 (by omega)
          rw [hR i hi1 (by omega), ← hie] at this
          exact this
        · rw [heq, hR j hj1 hj2]
          apply Nat.add_le_add_left
          apply Nat.mul_le_mul_left
          exact extra_rec_le m (l + 1) j hm2 (by omega) hj1 (by omega)

/-- in terms of the total: `opt0[m][l] + (l+1)·uf = (l+1)·ub + uf · (optimal number of forward steps)` -/
theorem opt0_eq_gwT (lmax mmax uf ub l m : Nat) (hl : l ≤ lmax) (hm1 : 1 ≤ m) (hm : m ≤ mmax) :
    opt0Get (opt0Table lmax mmax uf ub) m l + (l + 1) * uf = (l + 1) * ub + uf * gwT (l + 1) m := by
  rw [opt0_eq_extra lmax mmax uf ub l m hl hm1 hm]
  unfold gwT
  ring

/-! ## (b) Revolve's split attains the minimum -/

theorem revolveSplit_attains (lmax mmax uf ub m k : Nat) (huf : 0 < uf) (hm : 2 ≤ m)
    (hml : m - 1 ≤ lmax) (hk1 : 1 ≤ k) (hk : k ≤ mmax) :
    ∃ a, revolveSplit (opt0Table lmax mmax uf ub) uf m k = some a ∧ 1 ≤ a ∧ a ≤ m - 1 ∧
      a + extraCell a (clampS a k) + extraCell (m - a) (clampS (m - a) (k - 1)) =
        extraCell m (clampS m k) := by
  obtain ⟨a, ha, _, _⟩ := revolveSplit_range (opt0Table lmax mmax uf ub) uf m k hm hk1
  obtain ⟨_, ha1, ha2, hbell⟩ := revolveSplit_bellman lmax mmax uf ub m k a hm hml hk ha
  refine ⟨a, ha, ha1, ha2, ?_⟩
  rcases Nat.eq_or_lt_of_le hk1 with rfl | hk2
  · -- one unit: the split is forced
    have := revolveSplit_one (opt0Table lmax mmax uf ub) uf m hm
    rw [this] at ha
    injection ha with ha
    subst ha
    have e1 : m - (m - 1) = 1 := by omega
    have hc : clampS m 1 = 1 := by unfold clampS; omega
    rw [e1, extraCell_le_one 1 _ (le_refl _), hc, extraCell_s1 m hm]
    rcases Nat.eq_or_lt_of_le hm with rfl | hm3
    · rw [extraCell_le_one _ _ (by omega)]
    · have hc' : clampS (m - 1) 1 = 1 := by unfold clampS; omega
      rw [hc', extraCell_s1 (m - 1) (by omega)]
      have := GW.tri_succ (m - 1)
      have e : m - 1 + 1 = m := by omega
      rw [e] at this
      omega
  · -- at least two units: cancel `uf` in the table recurrence
    rw [opt0_eq_extra lmax mmax uf ub (m - 1) k hml hk1 hk,
      opt0_eq_extra lmax mmax uf ub (m - 1 - a) (k - 1) (by omega) (by omega) (by omega),
      opt0_eq_extra lmax mmax uf ub (a - 1) k (by omega) hk1 hk] at hbell
    have e1 : m - 1 + 1 = m := by omega
    have e2 : m - 1 - a + 1 = m - a := by omega
    have e3 : a - 1 + 1 = a := by omega
    rw [e1, e2, e3] at hbell
    obtain ⟨r, rfl⟩ : ∃ r, m = a + r := ⟨m - a, by omega⟩
    have e4 : a + r - a = r := by omega
    rw [e4] at hbell ⊢
    have : uf * extraCell (a + r) (clampS (a + r) k) =
        uf * (a + extraCell a (clampS a k) + extraCell r (clampS r (k - 1))) := by
      have h2 : (a + r) * ub = r * ub + a * ub := by ring
      have h3 : uf * (a + extraCell a (clampS a k) + extraCell r (clampS r (k - 1))) =
          a * uf + uf * extraCell a (clampS a k) + uf * extraCell r (clampS r (k - 1)) := by ring
      omega
    exact (Nat.eq_of_mul_eq_mul_left huf this).symm

/-- a total split function that agrees with Revolve's where the table is defined and attains the
minimum everywhere (outside the table: `n_advance`) -/
def totalSplit (lmax mmax uf ub : Nat) (m k : Nat) : Option Nat :=
  if k = 0 then none
  else if m - 1 ≤ lmax ∧ k ≤ mmax then revolveSplit (opt0Table lmax mmax uf ub) uf m k
  else nAdvance m k .maximum

theorem totalSplit_attainsMin (lmax mmax uf ub : Nat) (huf : 0 < uf) :
    AttainsMin (totalSplit lmax mmax uf ub) := by
  intro m k hm hk
  unfold totalSplit
  rw [if_neg (by omega)]
  by_cases h : m - 1 ≤ lmax ∧ k ≤ mmax
  · rw [if_pos h]; exact revolveSplit_attains lmax mmax uf ub m k huf hm h.1 hk h.2
  · rw [if_neg h]; exact nAdvance_attainsMin .maximum m k hm hk

theorem totalSplit_eq (lmax mmax uf ub m k : Nat) (hm : m - 1 ≤ lmax) (hk : k ≤ mmax) :
    revolveSplit (opt0Table lmax mmax uf ub) uf m k = totalSplit lmax mmax uf ub m k := by
  unfold totalSplit
  by_cases hk0 : k = 0
  · rw [if_pos hk0, hk0]; simp [revolveSplit]
  · rw [if_neg hk0, if_pos ⟨hm, hk⟩]

theorem totalSplit_range (lmax mmax uf ub : Nat) (huf : 0 < uf) (m k a : Nat) (hm : 2 ≤ m)
    (h : totalSplit lmax mmax uf ub m k = some a) : 1 ≤ a ∧ a ≤ m - 1 := by
  by_cases hk0 : k = 0
  · unfold totalSplit at h; rw [if_pos hk0] at h; cases h
  · obtain ⟨a', ha', h1, h2, _⟩ := totalSplit_attainsMin lmax mmax uf ub huf m k hm (by omega)
    rw [ha'] at h; injection h with h; subst h; exact ⟨h1, h2⟩

/-- `segWith` only queries its split function at sizes `≤ hi - lo` and unit counts `≤ S` -/
theorem segWith_congr (N : Nat) (σ σ' : Nat → Nat → Option Nat) (S : Nat) (alloc : Nat → Storage)
    (persist : Bool) (M : Nat) (h : ∀ m k, m ≤ M → k ≤ S → σ m k = σ' m k)
    (hr : ∀ m k a, 2 ≤ m → σ' m k = some a → 1 ≤ a ∧ a ≤ m - 1) :
    ∀ (fuel : Nat) (stored spine : Bool) (lo hi d : Nat), lo < hi → hi - lo ≤ M →
      segWith N σ S alloc persist fuel stored spine lo hi d =
        segWith N σ' S alloc persist fuel stored spine lo hi d := by
  intro fuel
  induction fuel with
  | zero => intro _ _ _ _ _ _ _; rfl
  | succ fuel ih =>
    intro stored spine lo hi d hlt hM
    unfold segWith
    dsimp only
    split
    · rfl
    · rw [h (hi - lo) (S - d) hM (Nat.sub_le _ _)]
      cases hs : σ' (hi - lo) (S - d) with
      | none => rfl
      | some a =>
        have ha := hr _ _ _ (by omega) hs
        dsimp only
        rw [ih false spine (lo + a) hi (d + 1) (by omega) (by omega),
          ih true false lo (lo + a) d (by omega) (by omega)]

/-! ## (c) the streams -/

/-- each memory-only Revolve segment advances the forward over exactly the optimum number of steps -/
theorem revSeg_fwdSteps (N lmax mmax cm uf ub : Nat) (huf : 0 < uf) (hcm1 : 1 ≤ cm) (hcm : cm ≤ mmax)
    (spine : Bool) (lo hi : Nat) (evs : List Ev)
    (h : revSeg N (opt0Table lmax mmax uf ub) uf cm spine lo hi = some evs)
    (hlt : lo < hi) (hl : hi - lo - 1 ≤ lmax) :
    fwdSteps evs = (hi - lo) + extraCell (hi - lo) (clampS (hi - lo) cm) := by
  unfold revSeg at h
  have hA := totalSplit_attainsMin lmax mmax uf ub huf
  rw [segWith_congr N (revolveSplit (opt0Table lmax mmax uf ub) uf) (totalSplit lmax mmax uf ub) cm
    (fun _ => Storage.ram) false (hi - lo)
    (fun m k hm hk => totalSplit_eq lmax mmax uf ub m k (by omega) (by omega))
    (fun m k a hm hs => totalSplit_range lmax mmax uf ub huf m k a hm hs)
    _ _ _ _ _ _ hlt (le_refl _)] at h
  have := segWith_fwdSteps' hA h hlt (Or.inr (by omega))
  simpa using this

/-- C05 for Revolve -/
theorem revolve_fwdSteps (N cm : Nat) (c : Costs) (hN : 1 ≤ N) (hcm : 1 ≤ cm) (huf : 0 < c.uf)
    (evs : List Ev) (h : revolveEvs N cm c = .ok evs) :
    fwdSteps evs = N + extraCell N (clampS N cm) := by
  unfold revolveEvs at h
  dsimp only at h
  split at h
  · cases h
  · rename_i seg hseg
    injection h with h
    have := revSeg_fwdSteps N (N - 1) cm cm c.uf c.ub huf hcm (le_refl _) true 0 N seg hseg
      (by omega) (by omega)
    rw [← h, fwdSteps_append, this]
    simp [fwdSteps, evFwd]

/-- C19: PeriodicDiskRevolve reverses each of its segments (the tail `[q·mx, N)` and every block
`[b·mx, (b+1)·mx)`) with the memory-only Revolve optimum number of forward steps -/
theorem periodic_segments_fwdSteps (N cm : Nat) (c : Costs) (mx : Nat) (evs : List Ev) (hN : 1 ≤ N)
    (hcm : 1 ≤ cm) (huf : 0 < c.uf)
    (hmx : mxrr cm c.uf (c.wd + c.rd) = some mx) (h : periodicEvs N cm c = .ok evs) :
    let q := (N - 2) / mx
    let t0 := opt0Table (max (N - 1) (mx + 1)) cm c.uf c.ub
    (∃ mid, revSeg N t0 c.uf cm true (q * mx) N = some mid ∧
      fwdSteps mid = (N - q * mx) + extraCell (N - q * mx) (clampS (N - q * mx) cm)) ∧
    ∀ b, b < q → ∃ seg, revSeg N t0 c.uf cm false (b * mx) ((b + 1) * mx) = some seg ∧
      fwdSteps seg = mx + extraCell mx (clampS mx cm) := by
  intro q t0
  obtain ⟨hmx1, hq1, hq2, mid, hmid, hsegs, _⟩ := periodic_structure N cm c mx evs hN hmx h
  constructor
  · exact ⟨mid, hmid, revSeg_fwdSteps N _ cm cm c.uf c.ub huf hcm (le_refl _) true _ _ mid hmid hq1
      (by omega)⟩
  · intro b hb
    refine ⟨_, hsegs b hb, ?_⟩
    have e : (b + 1) * mx - b * mx = mx := by rw [Nat.succ_mul]; omega
    have := revSeg_fwdSteps N _ cm cm c.uf c.ub huf hcm (le_refl _) false _ _ _ (hsegs b hb)
      (by rw [Nat.succ_mul]; omega) (by rw [e]; omega)
    rw [e] at this
    exact this

-- concrete instance: N = 10 steps, 3 RAM units: 10 + E(10,3) = 25 forward steps
example : (match revolveEvs 10 3 ⟨2, 3, 5, 7⟩ with | .ok evs => fwdSteps evs | .error _ => 0) = 25 := by
  decide +kernel

end Ckpt.RC
