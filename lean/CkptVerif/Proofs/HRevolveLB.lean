import CkptVerif.Proofs.DiskCounterexamples
import CkptVerif.Proofs.HRevolveLBLink
import CkptVerif.Proofs.HRevolveLBPlans
/-!
# C07 for HRevolve with DISK units: optimality among all LIFO (top-restart) schedules

`Ckpt.LB7.HRevolveOptimalT` (stated in `Proofs/DiskCounterexamples.lean`) says that the value of the
two-level H-Revolve table is a lower bound for the transfer-aware cost of EVERY accepted stream of
`cfgHRevolve c0 c1 N`.  This file proves it for every accepted stream that obeys the **LIFO
discipline** (`Lifo`): each `Copy`/`Move` loads the most recently stored checkpoint that is still
stored into WORK (no direct RAM ↔ DISK transfers, no restart from an older checkpoint while a newer
one is stored).  Nothing else is assumed: the checkpoints may be placed in RAM and on DISK in any
order, read any number of times (`Copy` out of DISK), dropped early, …  All schedules of the Revolve
family (Revolve, DiskRevolve, PeriodicDiskRevolve, HRevolve) are LIFO.

Proof: backward induction along the stream with the potential of `Proofs/HRevolveLBPlans.lean`
(cheapest *stack plan* from the current executor state, priced by achievable hierarchical costs
`HLB.A`), the RAM recurrence inequality `HLB.star`, and the link `HLB.table_le` to `hoptTable`.

OPEN: the statement `HRevolveOptimalT` itself, i.e. without the hypothesis `Lifo` (streams that
restart from an older checkpoint while newer ones are stored, or that copy/move checkpoints directly
between RAM and DISK).  An exhaustive search over an abstract machine with these moves (all
`(c0, c1) ∈ {(1,1),(2,1),(1,2)}`, `N ≤ 13`, `(2,2),(3,1),(1,3)`, `N ≤ 12`, `(2,3),(3,2)`, `N ≤ 11`,
12 cost vectors) found no counterexample.
-/
namespace Ckpt.LB7
open Ckpt.RC Ckpt.GW Ckpt.Mean Ckpt.HLB

/-! ## the LIFO discipline -/

/-- the action obeys the LIFO discipline in state `x`: a `Copy`/`Move` loads the head of the list of
stored checkpoints (the most recently stored one) into WORK -/
def lifoAct (x : XS) : Action → Bool
  | .copy n src dst => decide (dst = .work) &&
      (match x.cps with | cp :: _ => decide (cp.n = n ∧ cp.st = src) | [] => false)
  | .move n src dst => decide (dst = .work) &&
      (match x.cps with | cp :: _ => decide (cp.n = n ∧ cp.st = src) | [] => false)
  | _ => true

def lifoFrom (cfg : Cfg) : XS → List Obs → Bool
  | _, [] => true
  | x, o :: os => lifoAct x o.act && lifoFrom cfg (nextState cfg x o.act) os

/-- every `Copy`/`Move` of the stream loads the most recently stored checkpoint into WORK -/
def Lifo (cfg : Cfg) (os : List Obs) : Prop := lifoFrom cfg (XS.init cfg) os = true

instance (cfg : Cfg) (os : List Obs) : Decidable (Lifo cfg os) := by unfold Lifo; infer_instance

/-! ## the cost without the reversed steps -/

def actCostF (c : Costs) : Action → Nat
  | .reverse _ _ _ => 0
  | a => actCostT c a

def obsCostF (c : Costs) (os : List Obs) : Nat := (os.map (fun o => actCostF c o.act)).sum

theorem obsCostF_cons (c : Costs) (o : Obs) (os : List Obs) :
    obsCostF c (o :: os) = actCostF c o.act + obsCostF c os := by
  unfold obsCostF; rw [List.map_cons, List.sum_cons]

theorem actCostT_split (c : Costs) (a : Action) : actCostT c a = actCostF c a + c.ub * actRev a := by
  cases a <;> simp [actCostT, actCostF, actCost, actRev, transfersToDisk, Nat.mul_comm]

theorem obsCostT_split (c : Costs) (os : List Obs) :
    obsCostT c os = obsCostF c os + c.ub * obsRevSteps os := by
  induction os with
  | nil => rfl
  | cons o os ih =>
    rw [obsCostT_cons, obsCostF_cons, obsRevSteps_cons, ih, actCostT_split, Nat.mul_add]
    omega

/-! ## the abstract stack of an executor state -/

/-- position and level of the stored checkpoints, most recent first -/
def stk (x : XS) : List Src := x.cps.map (fun cp => (cp.n, decide (cp.st = .disk)))

theorem nR_map (l : List Cp) (h : ∀ cp ∈ l, cp.st.isStore = true) :
    nR (l.map (fun cp => (cp.n, decide (cp.st = .disk)))) = countSt l .ram := by
  induction l with
  | nil => rfl
  | cons cp l ih =>
    have hcp := h cp (List.mem_cons_self ..)
    have ih' := ih (fun c' hc' => h c' (List.mem_cons_of_mem _ hc'))
    rw [List.map_cons, Ckpt.Mean.countSt_cons]
    cases hs : cp.st <;> simp [hs, Storage.isStore] at hcp ⊢
    · rw [nR_cons_ram, ih']; omega
    · rw [nR_cons_disk, ih']

theorem nD_map (l : List Cp) (h : ∀ cp ∈ l, cp.st.isStore = true) :
    nD (l.map (fun cp => (cp.n, decide (cp.st = .disk)))) = countSt l .disk := by
  induction l with
  | nil => rfl
  | cons cp l ih =>
    have hcp := h cp (List.mem_cons_self ..)
    have ih' := ih (fun c' hc' => h c' (List.mem_cons_of_mem _ hc'))
    rw [List.map_cons, Ckpt.Mean.countSt_cons]
    cases hs : cp.st <;> simp [hs, Storage.isStore] at hcp ⊢
    · rw [nD_cons_ram, ih']
    · rw [nD_cons_disk, ih']; omega

/-- what is needed besides `GW.Inv`: the budgets, restart data in every checkpoint, distinct keys -/
structure Inv2 (c0 c1 : Nat) (x : XS) : Prop where
  capR : countSt x.cps .ram ≤ c0
  capD : countSt x.cps .disk ≤ c1
  ics : ∀ cp ∈ x.cps, 0 < cp.ics
  keys : (x.cps.map (fun cp => (cp.n, cp.st))).Nodup

/-- the potential: a stack plan for the current state costs at most `n` -/
def PotH (c : Costs) (c0 c1 : Nat) (cfg : Cfg) (x : XS) (n : Nat) : Prop :=
  (Flagged cfg x → HLB.Reach c c0 c1 (stk x) x.fwd (cfg.N - x.r - 1) n) ∧
  (¬ Flagged cfg x → HLB.Reach c c0 c1 (stk x) x.fwd (cfg.N - x.r) n)

theorem cfgHyp_h (c0 c1 N : Nat) : CfgHyp (cfgHRevolve c0 c1 N) (c0 + c1) :=
  ⟨⟨c0, c1, rfl, rfl, rfl⟩, rfl, rfl, rfl⟩

/-! ## the steps of the executor -/

theorem fwd_clean2_h {cfg : Cfg} {x : XS} {n0 n1 : Nat} {wi wa : Bool} {st : Storage}
    (hfin : x.fin = true) (h : actViols cfg x (.forward n0 n1 wi wa st) = []) :
    st.isStore = true → findCp x.cps n0 st = none := by
  have hclip : clip cfg x n1 = n1 := by simp [clip, hfin]
  simp only [actViols, hclip, List.append_eq_nil_iff, chk_nil_iff] at h
  obtain ⟨⟨⟨⟨⟨⟨_, _⟩, _⟩, _⟩, _⟩, h6⟩, _⟩ := h
  intro hs
  rw [if_pos hs] at h6
  simp only [List.append_eq_nil_iff, chk_nil_iff] at h6
  have := h6.1.2
  simpa using this

theorem not_flagged_of_fwd {cfg : Cfg} {s : Nat} {x : XS} (hinv : GW.Inv cfg s x) {n0 n1 : Nat}
    (hfwd : x.fwd = some n0) (hlt : n0 < n1) (hle : n1 ≤ cfg.N - x.r) : ¬ Flagged cfg x := by
  rintro ⟨ha, hd⟩
  rcases hinv.deps with h0 | ⟨p, hp1, hp2, hp3⟩
  · rw [h0] at hd; cases hd
  · rw [hp1] at hd
    simp only [Option.some.injEq, Prod.mk.injEq] at hd
    have := hp3 (by omega)
    rw [hfwd] at this
    simp only [Option.some.injEq] at this
    omega

theorem step_forwardH {c : Costs} {c0 c1 N : Nat} {x : XS}
    (hinv : GW.Inv (cfgHRevolve c0 c1 N) (c0 + c1) x) (hinv2 : Inv2 c0 c1 x)
    {n0 n1 : Nat} {wi wa : Bool} {st : Storage}
    (h : actViols (cfgHRevolve c0 c1 N) x (.forward n0 n1 wi wa st) = [])
    (hnd : storesDeps (.forward n0 n1 wi wa st) = false) :
    Inv2 c0 c1 (nextState (cfgHRevolve c0 c1 N) x (.forward n0 n1 wi wa st)) ∧
    ∀ m, PotH c c0 c1 (cfgHRevolve c0 c1 N) (nextState (cfgHRevolve c0 c1 N) x (.forward n0 n1 wi wa st)) m →
      PotH c c0 c1 (cfgHRevolve c0 c1 N) x (m + actCostF c (.forward n0 n1 wi wa st)) := by
  set cfg := cfgHRevolve c0 c1 N with hcfg
  obtain ⟨hlt, hfwd, hle, hstore, hwork⟩ := fwd_clean hinv.fin h
  have hfind := fwd_clean2_h hinv.fin h
  have hclip : clip cfg x n1 = n1 := by simp [clip, hinv.fin]
  have hN : cfg.N = N := rfl
  generalize hx' : nextState cfg x (.forward n0 n1 wi wa st) = x'
  have e_fwd : x'.fwd = some n1 := by rw [← hx']; simp only [nextState, hclip]
  have e_r : x'.r = x.r := by rw [← hx']; rfl
  have e_deps : x'.wDeps = if st = .work ∧ wa = true then some (n0, n1) else none := by
    rw [← hx']; simp only [nextState, hclip]
  have e_cps : x'.cps = if st.isStore = true
      then { n := n0, st := st, ics := if wi = true then n1 - n0 else 0,
             deps := if wa = true then n1 - n0 else 0 } :: x.cps else x.cps := by
    rw [← hx']; simp only [nextState, hclip]
  have hstore_false : st.isStore = true → wa = false := by
    intro hs
    simp only [storesDeps, hs, Bool.and_true] at hnd
    exact hnd
  have hnf : ¬ Flagged cfg x := not_flagged_of_fwd hinv hfwd hlt hle
  have hcost : actCostF c (.forward n0 n1 wi wa st) = (n1 - n0) * c.uf + (if st = .disk then c.wd else 0) := by
    simp [actCostF, actCostT, actCost, transfersToDisk]
  by_cases hs : st.isStore = true
  · -- a checkpoint is written at `n0`
    have hwa := hstore_false hs
    obtain ⟨hwiwa, hbud⟩ := hstore hs
    have hwi : wi = true := by rcases hwiwa with h1 | h1; exact h1; rw [hwa] at h1; cases h1
    rw [if_pos hs] at e_cps
    have hbud' := (Ckpt.Mean.withinBudget_iff.mp hbud)
    have hcR := hbud'.1 c0 rfl
    have hcD := hbud'.2 c1 rfl
    rw [Ckpt.Mean.countSt_cons] at hcR hcD
    have hnone := hfind hs
    have hInv2 : Inv2 c0 c1 x' := by
      refine ⟨?_, ?_, ?_, ?_⟩
      · rw [e_cps, Ckpt.Mean.countSt_cons]; exact hcR
      · rw [e_cps, Ckpt.Mean.countSt_cons]; exact hcD
      · intro cp hcp
        rw [e_cps] at hcp
        rcases List.mem_cons.mp hcp with rfl | hcp
        · simp [hwi]; omega
        · exact hinv2.ics cp hcp
      · rw [e_cps, List.map_cons, List.nodup_cons]
        refine ⟨?_, hinv2.keys⟩
        intro hmem
        obtain ⟨cp, hcp, hkey⟩ := List.mem_map.mp hmem
        simp only [Prod.mk.injEq] at hkey
        unfold findCp at hnone
        rw [List.find?_eq_none] at hnone
        have := hnone cp hcp
        simp [hkey.1, hkey.2] at this
    refine ⟨hInv2, ?_⟩
    intro m hp
    have hnf' : ¬ Flagged cfg x' := by
      rintro ⟨_, hd⟩
      rw [e_deps, if_neg (by rintro ⟨h1, _⟩; rw [h1] at hs; cases hs)] at hd
      cases hd
    have hr := hp.2 hnf'
    rw [e_r, e_fwd] at hr
    have hstk : stk x' = (n0, decide (st = .disk)) :: stk x := by
      unfold stk; rw [e_cps, List.map_cons]
    rw [hstk] at hr
    refine ⟨fun hf => absurd hf hnf, fun _ => ?_⟩
    rw [hfwd, hcost]
    have h1 := HLB.reach_adv (c := c) (c0 := c0) (c1 := c1) (f := n0) (le_of_lt hlt) hr
    have hcap : if decide (st = .disk) then nD (stk x) + 1 ≤ c1 else nR (stk x) + 1 ≤ c0 := by
      have hR : nR (stk x) = countSt x.cps .ram := nR_map x.cps (fun cp hcp => (hinv.cps cp hcp).2)
      have hD : nD (stk x) = countSt x.cps .disk := nD_map x.cps (fun cp hcp => (hinv.cps cp hcp).2)
      cases hst : st <;> simp [hst, Storage.isStore] at hs hcR hcD ⊢
      · rw [hR]; omega
      · rw [hD]; omega
    have h2 := HLB.reach_store hcap h1
    refine HLB.reach_weaken h2 ?_
    have : (if decide (st = .disk) = true then c.wd else 0) = (if st = .disk then c.wd else 0) := by
      by_cases hd : st = .disk <;> simp [hd]
    rw [this]
    omega
  · -- no checkpoint is written
    rw [if_neg hs] at e_cps
    have hInv2 : Inv2 c0 c1 x' := by
      refine ⟨by rw [e_cps]; exact hinv2.capR, by rw [e_cps]; exact hinv2.capD,
        by rw [e_cps]; exact hinv2.ics, by rw [e_cps]; exact hinv2.keys⟩
    refine ⟨hInv2, ?_⟩
    intro m hp
    have hstk : stk x' = stk x := by unfold stk; rw [e_cps]
    have hnd' : (if st = .disk then c.wd else 0) = 0 := by
      have : st ≠ .disk := by intro hd; rw [hd] at hs; exact hs rfl
      simp [this]
    refine ⟨fun hf => absurd hf hnf, fun _ => ?_⟩
    rw [hfwd, hcost, hnd']
    by_cases hw : st = .work ∧ wa = true
    · -- the turn-around
      obtain ⟨h1, h2⟩ := hwork hw.1 hw.2 rfl
      have hfl : Flagged cfg x' := by
        refine ⟨by rw [e_r]; omega, ?_⟩
        rw [e_deps, if_pos hw, e_r]
        have : cfg.N - x.r - 1 = n0 := by omega
        rw [this, ← h2]
      have hr := hp.1 hfl
      rw [e_r, e_fwd, hstk] at hr
      have hdead := HLB.reach_dead hr (by omega)
      have hturn := HLB.reach_turn (a := cfg.N - x.r) (by omega) hdead
      have ea : cfg.N - x.r - 1 = n0 := by omega
      rw [ea] at hturn
      have e1 : n1 - n0 = 1 := by omega
      rw [e1]
      refine HLB.reach_weaken hturn (by omega)
    · have hnf' : ¬ Flagged cfg x' := by
        rintro ⟨_, hd⟩
        rw [e_deps, if_neg hw] at hd
        cases hd
      have hr := hp.2 hnf'
      rw [e_r, e_fwd, hstk] at hr
      exact HLB.reach_weaken (HLB.reach_adv (f := n0) (le_of_lt hlt) hr) (by omega)

theorem step_reverseH {c : Costs} {c0 c1 N : Nat} {x : XS}
    (hinv : GW.Inv (cfgHRevolve c0 c1 N) (c0 + c1) x) (hinv2 : Inv2 c0 c1 x)
    {n1 n0 : Nat} {cl : Bool} (h : actViols (cfgHRevolve c0 c1 N) x (.reverse n1 n0 cl) = []) :
    Inv2 c0 c1 (nextState (cfgHRevolve c0 c1 N) x (.reverse n1 n0 cl)) ∧
    ∀ m, PotH c c0 c1 (cfgHRevolve c0 c1 N) (nextState (cfgHRevolve c0 c1 N) x (.reverse n1 n0 cl)) m →
      PotH c c0 c1 (cfgHRevolve c0 c1 N) x (m + actCostF c (.reverse n1 n0 cl)) := by
  set cfg := cfgHRevolve c0 c1 N with hcfg
  simp only [actViols, List.append_eq_nil_iff, chk_nil_iff, decide_eq_true_eq] at h
  obtain ⟨⟨⟨hlt, _⟩, hn1⟩, hcov⟩ := h
  obtain ⟨p, q, hw, hp, hq⟩ := covers_iff.mp hcov
  rcases hinv.deps with h0 | ⟨p', hw', hle', hfw'⟩
  · rw [h0] at hw; cases hw
  rw [hw'] at hw
  simp only [Option.some.injEq, Prod.mk.injEq] at hw
  obtain ⟨rfl, rfl⟩ := hw
  have ha : cfg.N - x.r = p' + 1 := by omega
  have hn0 : n0 = p' := by omega
  have hfl : Flagged cfg x := ⟨by omega, by rw [hw', ha]; rfl⟩
  generalize hx' : nextState cfg x (.reverse n1 n0 cl) = x'
  have e_r : x'.r = x.r + 1 := by rw [← hx']; show x.r + (n1 - n0) = _; omega
  have e_cps : x'.cps = x.cps := by rw [← hx']; rfl
  have e_fwd : x'.fwd = x.fwd := by rw [← hx']; rfl
  have e_deps : x'.wDeps = if cl = true then none else x.wDeps := by rw [← hx']; rfl
  have hnf' : ¬ Flagged cfg x' := by
    rintro ⟨h1, h2⟩
    rw [e_deps] at h2
    split at h2
    · cases h2
    · rw [hw', e_r] at h2
      simp only [Option.some.injEq, Prod.mk.injEq] at h2
      omega
  refine ⟨⟨by rw [e_cps]; exact hinv2.capR, by rw [e_cps]; exact hinv2.capD,
    by rw [e_cps]; exact hinv2.ics, by rw [e_cps]; exact hinv2.keys⟩, ?_⟩
  intro m hp
  have := hp.2 hnf'
  have hstk : stk x' = stk x := by unfold stk; rw [e_cps]
  rw [hstk, e_fwd, e_r] at this
  have e : cfg.N - (x.r + 1) = cfg.N - x.r - 1 := by omega
  rw [e] at this
  have hc : actCostF c (.reverse n1 n0 cl) = 0 := rfl
  rw [hc, Nat.add_zero]
  exact ⟨fun _ => this, fun hf => absurd hfl hf⟩

theorem findCp_head {cp : Cp} {rest : List Cp} {n : Nat} {src : Storage} (h1 : cp.n = n)
    (h2 : cp.st = src) : findCp (cp :: rest) n src = some cp := by
  unfold findCp
  rw [List.find?_cons]
  simp [h1, h2]

theorem eraseCp_head {cp : Cp} {rest : List Cp} {n : Nat} {src : Storage} (h1 : cp.n = n)
    (h2 : cp.st = src) (hk : ((cp :: rest).map (fun cp => (cp.n, cp.st))).Nodup) :
    eraseCp (cp :: rest) n src = rest := by
  unfold eraseCp
  rw [List.map_cons, List.nodup_cons] at hk
  rw [List.filter_cons]
  have : decide (¬ (cp.n = n ∧ cp.st = src)) = false := by simp [h1, h2]
  rw [this]
  simp only [Bool.false_eq_true, if_false]
  rw [List.filter_eq_self]
  intro c' hc'
  simp only [decide_eq_true_eq]
  rintro ⟨e1, e2⟩
  apply hk.1
  apply List.mem_map.mpr
  exact ⟨c', hc', by rw [e1, e2, h1, h2]⟩

theorem lifo_head {x : XS} {n : Nat} {src dst : Storage}
    (h : (decide (dst = .work) &&
      (match x.cps with | cp :: _ => decide (cp.n = n ∧ cp.st = src) | [] => false)) = true) :
    dst = .work ∧ ∃ cp rest, x.cps = cp :: rest ∧ cp.n = n ∧ cp.st = src := by
  rw [Bool.and_eq_true] at h
  obtain ⟨h1, h2⟩ := h
  refine ⟨by simpa using h1, ?_⟩
  cases hc : x.cps with
  | nil => rw [hc] at h2; cases h2
  | cons cp rest =>
    rw [hc] at h2
    simp only [decide_eq_true_eq] at h2
    exact ⟨cp, rest, rfl, h2.1, h2.2⟩

/-- `Copy` and `Move` of the head checkpoint into WORK -/
theorem step_loadH {c : Costs} {c0 c1 N : Nat} {x : XS}
    (hinv : GW.Inv (cfgHRevolve c0 c1 N) (c0 + c1) x) (hinv2 : Inv2 c0 c1 x)
    {n : Nat} {src : Storage} {cp : Cp} {rest : List Cp} (hcps : x.cps = cp :: rest) (hn : cp.n = n)
    (hsrc : cp.st = src) (hw : x.wDeps = none) (keep : Bool) (x' : XS)
    (hx' : x' = { x with cps := if keep then x.cps else rest,
                         fwd := if cp.ics > 0 then some n else none,
                         wIcs := if cp.ics > 0 then some (n, n + cp.ics) else none,
                         wDeps := if cp.deps > 0 then some (n, n + cp.deps) else none }) :
    Inv2 c0 c1 x' ∧
    ∀ m, PotH c c0 c1 (cfgHRevolve c0 c1 N) x' m →
      PotH c c0 c1 (cfgHRevolve c0 c1 N) x (m + (if src = .disk then c.rd else 0)) := by
  set cfg := cfgHRevolve c0 c1 N with hcfg
  have hmem : cp ∈ x.cps := by rw [hcps]; exact List.mem_cons_self ..
  have hd0 := (hinv.cps cp hmem).1
  have hics := hinv2.ics cp hmem
  have e_fwd : x'.fwd = some n := by rw [hx']; simp [hics]
  have e_deps : x'.wDeps = none := by rw [hx']; simp [hd0]
  have e_r : x'.r = x.r := by rw [hx']
  have e_cps : x'.cps = if keep then x.cps else rest := by rw [hx']
  have hnf : ¬ Flagged cfg x := by rintro ⟨_, hd⟩; rw [hw] at hd; cases hd
  have hnf' : ¬ Flagged cfg x' := by rintro ⟨_, hd⟩; rw [e_deps] at hd; cases hd
  have hInv2 : Inv2 c0 c1 x' := by
    cases keep with
    | true =>
      simp only [if_true] at e_cps
      exact ⟨by rw [e_cps]; exact hinv2.capR, by rw [e_cps]; exact hinv2.capD,
        by rw [e_cps]; exact hinv2.ics, by rw [e_cps]; exact hinv2.keys⟩
    | false =>
      simp only [Bool.false_eq_true, if_false] at e_cps
      have hR := hinv2.capR
      have hD := hinv2.capD
      have hk := hinv2.keys
      rw [hcps] at hR hD hk
      rw [Ckpt.Mean.countSt_cons] at hR hD
      rw [List.map_cons, List.nodup_cons] at hk
      refine ⟨by rw [e_cps]; omega, by rw [e_cps]; omega, ?_, by rw [e_cps]; exact hk.2⟩
      intro c' hc'
      rw [e_cps] at hc'
      exact hinv2.ics c' (by rw [hcps]; exact List.mem_cons_of_mem _ hc')
  refine ⟨hInv2, ?_⟩
  intro m hp
  have hr := hp.2 hnf'
  rw [e_r, e_fwd] at hr
  refine ⟨fun hf => absurd hf hnf, fun _ => ?_⟩
  have hstkx : stk x = (n, decide (src = .disk)) :: stk { x with cps := rest } := by
    unfold stk; rw [hcps, List.map_cons, hn, hsrc]
  have hld : ldc c (decide (src = .disk)) = (if src = .disk then c.rd else 0) := by
    unfold ldc; by_cases hd : src = .disk <;> simp [hd]
  rw [← hld, hstkx]
  cases keep with
  | true =>
    have hstk' : stk x' = (n, decide (src = .disk)) :: stk { x with cps := rest } := by
      unfold stk; rw [e_cps]; simp only [if_true]; rw [hcps, List.map_cons, hn, hsrc]
    rw [hstk'] at hr
    exact HLB.reach_loadCopy hr
  | false =>
    have hstk' : stk x' = stk { x with cps := rest } := by
      unfold stk; rw [e_cps]; simp
    rw [hstk'] at hr
    exact HLB.reach_loadMove hr

theorem step_copyH {c : Costs} {c0 c1 N : Nat} {x : XS}
    (hinv : GW.Inv (cfgHRevolve c0 c1 N) (c0 + c1) x) (hinv2 : Inv2 c0 c1 x)
    {n : Nat} {src dst : Storage} (h : actViols (cfgHRevolve c0 c1 N) x (.copy n src dst) = [])
    (hl : lifoAct x (.copy n src dst) = true) :
    Inv2 c0 c1 (nextState (cfgHRevolve c0 c1 N) x (.copy n src dst)) ∧
    ∀ m, PotH c c0 c1 (cfgHRevolve c0 c1 N) (nextState (cfgHRevolve c0 c1 N) x (.copy n src dst)) m →
      PotH c c0 c1 (cfgHRevolve c0 c1 N) x (m + actCostF c (.copy n src dst)) := by
  obtain ⟨hdst, cp, rest, hcps, hn, hsrc⟩ := lifo_head hl
  subst hdst
  obtain ⟨c', hf, hwork, _⟩ := load_clean (show actViols.loadViols (cfgHRevolve c0 c1 N) x n src .work = [] from h)
  have hf' : findCp x.cps n src = some cp := by rw [hcps]; exact findCp_head hn hsrc
  have hcost : actCostF c (.copy n src .work) = (if src = .disk then c.rd else 0) := by
    simp [actCostF, actCostT, actCost, transfersToDisk]
  rw [hcost]
  exact step_loadH hinv hinv2 hcps hn hsrc (hwork rfl) true _
    (by simp only [nextState, hf', Storage.isStore]; simp)

theorem step_moveH {c : Costs} {c0 c1 N : Nat} {x : XS}
    (hinv : GW.Inv (cfgHRevolve c0 c1 N) (c0 + c1) x) (hinv2 : Inv2 c0 c1 x)
    {n : Nat} {src dst : Storage} (h : actViols (cfgHRevolve c0 c1 N) x (.move n src dst) = [])
    (hl : lifoAct x (.move n src dst) = true) :
    Inv2 c0 c1 (nextState (cfgHRevolve c0 c1 N) x (.move n src dst)) ∧
    ∀ m, PotH c c0 c1 (cfgHRevolve c0 c1 N) (nextState (cfgHRevolve c0 c1 N) x (.move n src dst)) m →
      PotH c c0 c1 (cfgHRevolve c0 c1 N) x (m + actCostF c (.move n src dst)) := by
  obtain ⟨hdst, cp, rest, hcps, hn, hsrc⟩ := lifo_head hl
  subst hdst
  obtain ⟨c', hf, hwork, _⟩ := load_clean (show actViols.loadViols (cfgHRevolve c0 c1 N) x n src .work = [] from h)
  have hf' : findCp x.cps n src = some cp := by rw [hcps]; exact findCp_head hn hsrc
  have her : eraseCp x.cps n src = rest := by
    rw [hcps]; exact eraseCp_head hn hsrc (by rw [← hcps]; exact hinv2.keys)
  have hcost : actCostF c (.move n src .work) = (if src = .disk then c.rd else 0) := by
    simp [actCostF, actCostT, actCost, transfersToDisk]
  rw [hcost]
  exact step_loadH hinv hinv2 hcps hn hsrc (hwork rfl) false _
    (by simp only [nextState, hf', her, Storage.isStore]; simp)

theorem step_endForwardH {c : Costs} {c0 c1 N : Nat} {x : XS} (hinv2 : Inv2 c0 c1 x) :
    Inv2 c0 c1 (nextState (cfgHRevolve c0 c1 N) x .endForward) ∧
    ∀ m, PotH c c0 c1 (cfgHRevolve c0 c1 N) (nextState (cfgHRevolve c0 c1 N) x .endForward) m →
      PotH c c0 c1 (cfgHRevolve c0 c1 N) x (m + actCostF c .endForward) := by
  have hc : actCostF c .endForward = 0 := by simp [actCostF, actCostT, actCost, transfersToDisk]
  rw [hc]
  refine ⟨⟨hinv2.capR, hinv2.capD, hinv2.ics, hinv2.keys⟩, fun m hp => hp⟩

theorem step_endReverseH {c : Costs} {c0 c1 N : Nat} {x : XS} (hinv2 : Inv2 c0 c1 x) :
    Inv2 c0 c1 (nextState (cfgHRevolve c0 c1 N) x .endReverse) ∧
    ∀ m, PotH c c0 c1 (cfgHRevolve c0 c1 N) (nextState (cfgHRevolve c0 c1 N) x .endReverse) m →
      PotH c c0 c1 (cfgHRevolve c0 c1 N) x (m + actCostF c .endReverse) := by
  have hc : actCostF c .endReverse = 0 := by simp [actCostF, actCostT, actCost, transfersToDisk]
  rw [hc]
  have e : nextState (cfgHRevolve c0 c1 N) x .endReverse = { x with done := x.done + 1 } := by
    have hp : (cfgHRevolve c0 c1 N).passes = some 1 := rfl
    simp only [nextState, hp]
    have : decide (x.done + 1 < 1) = false := by simp
    rw [this]
    rfl
  rw [e]
  refine ⟨⟨hinv2.capR, hinv2.capD, hinv2.ics, hinv2.keys⟩, fun m hp => hp⟩

/-- **one accepted LIFO step**: the invariants are kept, and a stack plan for the state after the
step gives one for the state before it that costs at most the cost of the action more -/
theorem step_potH {c : Costs} {c0 c1 N : Nat} {x : XS}
    (hinv : GW.Inv (cfgHRevolve c0 c1 N) (c0 + c1) x) (hinv2 : Inv2 c0 c1 x) (o : Obs)
    (hclean : stepViols (cfgHRevolve c0 c1 N) x o = []) (hnd : storesDeps o.act = false)
    (hl : lifoAct x o.act = true) :
    Inv2 c0 c1 (nextState (cfgHRevolve c0 c1 N) x o.act) ∧
    ∀ m, PotH c c0 c1 (cfgHRevolve c0 c1 N) (nextState (cfgHRevolve c0 c1 N) x o.act) m →
      PotH c c0 c1 (cfgHRevolve c0 c1 N) x (m + actCostF c o.act) := by
  unfold stepViols at hclean
  simp only [List.append_eq_nil_iff] at hclean
  obtain ⟨⟨_, hact⟩, _⟩ := hclean
  cases ho : o.act with
  | forward n0 n1 wi wa st =>
    rw [ho] at hact hnd
    exact step_forwardH hinv hinv2 hact hnd
  | reverse n1 n0 cl =>
    rw [ho] at hact
    exact step_reverseH hinv hinv2 hact
  | copy n src dst =>
    rw [ho] at hact hl
    exact step_copyH hinv hinv2 hact hl
  | move n src dst =>
    rw [ho] at hact hl
    exact step_moveH hinv hinv2 hact hl
  | endForward => exact step_endForwardH hinv2
  | endReverse => exact step_endReverseH hinv2

/-! ## the whole stream -/

theorem run_potH {c : Costs} {c0 c1 N : Nat} (os : List Obs) :
    ∀ (i : Nat) (x : XS), GW.Inv (cfgHRevolve c0 c1 N) (c0 + c1) x → Inv2 c0 c1 x →
      (runFrom (cfgHRevolve c0 c1 N) i x os).2 = [] →
      finished (cfgHRevolve c0 c1 N) (runFrom (cfgHRevolve c0 c1 N) i x os).1 = true →
      (∀ o ∈ os, storesDeps o.act = false) → lifoFrom (cfgHRevolve c0 c1 N) x os = true →
      PotH c c0 c1 (cfgHRevolve c0 c1 N) x (obsCostF c os) := by
  induction os with
  | nil =>
    intro i x hinv _ _ hfin _ _
    have hdone : 1 ≤ x.done := by
      have : finished (cfgHRevolve c0 c1 N) x = true := hfin
      unfold finished at this
      simpa [cfgHRevolve] using this
    have hr := hinv.done hdone
    have ha : (cfgHRevolve c0 c1 N).N - x.r = 0 := by omega
    refine ⟨fun hf => ?_, fun _ => ?_⟩
    · have := hf.1; omega
    · rw [ha]; exact HLB.reach_final _ _
  | cons o os ih =>
    intro i x hinv hinv2 hclean hfin hnd hl
    rw [runFrom_snd_cons, List.append_eq_nil_iff, List.map_eq_nil_iff] at hclean
    have hfin' : finished (cfgHRevolve c0 c1 N)
        (runFrom (cfgHRevolve c0 c1 N) (i + 1) (nextState (cfgHRevolve c0 c1 N) x o.act) os).1 = true := by
      rw [runFrom_fst_eq] at hfin ⊢
      exact hfin
    simp only [lifoFrom, Bool.and_eq_true] at hl
    obtain ⟨hinv', _⟩ := step_pot (cfgHyp_h c0 c1 N) hinv o hclean.1 (hnd o (List.mem_cons_self ..))
    obtain ⟨hinv2', hstep⟩ := step_potH (c := c) hinv hinv2 o hclean.1 (hnd o (List.mem_cons_self ..)) hl.1
    have := ih (i + 1) _ hinv' hinv2' hclean.2 hfin'
      (fun o' ho' => hnd o' (List.mem_cons_of_mem _ ho')) hl.2
    have := hstep _ this
    rw [obsCostF_cons, Nat.add_comm]
    exact this

theorem inv2_init (c0 c1 : Nat) (cfg : Cfg) : Inv2 c0 c1 (XS.init cfg) :=
  ⟨Nat.zero_le _, Nat.zero_le _, fun _ h => absurd h List.not_mem_nil, List.nodup_nil⟩

/-- **C07 for HRevolve with DISK units, among all LIFO schedules.**  For `N ≥ 1` steps, `c0 ≥ 1` RAM
units, `c1` DISK units and any cost vector: the value of the two-level H-Revolve table (plus the first
sweep) is a lower bound for the transfer-aware cost `obsCostT` of EVERY stream of observations that
the checking executor accepts for `cfgHRevolve c0 c1 N`, that completes the adjoint calculation, whose
storage units hold restart data only, and that obeys the LIFO discipline (every `Copy`/`Move` loads
the most recently stored checkpoint still present into WORK).  This is `HRevolveOptimalT` with the
additional hypothesis `Lifo`. -/
theorem hrevolveOptimalT_partial :
    ∀ (N c0 c1 v : Nat) (c : Costs) (os : List Obs), 1 ≤ N → 1 ≤ c0 → 0 < c.uf →
      (hoptTable (N - 1) c0 c1 0 c.wd 0 c.rd c.ub c.uf).opt 1 (N - 1) c1 = some v →
      Accepted (cfgHRevolve c0 c1 N) os → Lifo (cfgHRevolve c0 c1 N) os →
      v + N * c.uf ≤ obsCostT c os := by
  intro N c0 c1 v c os hN hc0 _ hv hacc hlifo
  obtain ⟨hclean, hfin, hnd⟩ := hacc
  have hp := run_potH (c := c) os 0 (XS.init (cfgHRevolve c0 c1 N)) (inv_init (cfgHyp_h c0 c1 N))
    (inv2_init c0 c1 _) hclean hfin hnd hlifo
  have hnf : ¬ Flagged (cfgHRevolve c0 c1 N) (XS.init (cfgHRevolve c0 c1 N)) := by
    rintro ⟨_, h⟩
    simp [XS.init] at h
  have hr := hp.2 hnf
  have e1 : stk (XS.init (cfgHRevolve c0 c1 N)) = [] := rfl
  have e2 : (XS.init (cfgHRevolve c0 c1 N)).fwd = some 0 := rfl
  have e3 : (cfgHRevolve c0 c1 N).N - (XS.init (cfgHRevolve c0 c1 N)).r = N := rfl
  rw [e1, e2, e3] at hr
  obtain ⟨w, hw, hA⟩ := HLB.reach_init hN hr
  have htab := HLB.table_le N c0 c1 v w c hN hc0 hv hA
  have hrev := revSteps_eq (cfgHyp_h c0 c1 N) os hclean hfin hnd
  have e4 : (cfgHRevolve c0 c1 N).N = N := rfl
  rw [e4] at hrev
  rw [obsCostT_split, hrev, Nat.mul_comm c.ub N]
  omega

/-- the full statement follows for the streams that are LIFO; what is missing is exactly the
hypothesis `Lifo` -/
theorem hrevolveOptimalT_of_lifo
    (h : ∀ (c0 c1 N : Nat) (os : List Obs), Accepted (cfgHRevolve c0 c1 N) os →
      Lifo (cfgHRevolve c0 c1 N) os) : HRevolveOptimalT := by
  intro N c0 c1 v c os hN hc0 huf hv hacc
  exact hrevolveOptimalT_partial N c0 c1 v c os hN hc0 huf hv hacc (h c0 c1 N os hacc)

/-- **C07 for HRevolve with DISK units (LIFO competitors)**: the stream of `HRevolve(N, c0, c1)` costs
no more than ANY stream that the checking executor accepts for `cfgHRevolve c0 c1 N`, that completes
the adjoint calculation, holds restart data only in its units, and obeys the LIFO discipline — measured
in the transfer-aware cost `obsCostT` (on the HRevolve stream itself `obsCostT` is `RC.cost`: it makes
no RAM → DISK transfer). -/
theorem C07_hrevolve_lifo_optimal (N c0 c1 : Nat) (c : Costs) (hN : 1 ≤ N) (hc0 : 1 ≤ c0)
    (huf : 0 < c.uf) (evs : List Ev) (h : hrevolveEvs N c0 c1 c = .ok evs) (os : List Obs)
    (hacc : Accepted (cfgHRevolve c0 c1 N) os) (hlifo : Lifo (cfgHRevolve c0 c1 N) os) :
    cost c evs ≤ obsCostT c os := by
  obtain ⟨v, hv, hc⟩ := hrevolve_cost N c0 c1 c hN hc0 evs h
  rw [hc]
  exact hrevolveOptimalT_partial N c0 c1 v c os hN hc0 huf hv hacc hlifo

/-! ### non-vacuity: the multi-read stream of `DiskCounterexamples.lean` is LIFO -/

example : Accepted (cfgHRevolve 1 1 6) cexMultiRead ∧ Lifo (cfgHRevolve 1 1 6) cexMultiRead := by
  decide +kernel

/-! ### the bound is attained by the HRevolve stream, which is LIFO (instances) -/

/-- the observations of the HRevolve stream -/
def hrObs (N c0 c1 : Nat) (c : Costs) : List Obs :=
  match hrevolveEvs N c0 c1 c with
  | .ok evs => evs.dropLast.map (Ev.obs · N) ++ [⟨.endReverse, 1, N, some N, true, true⟩]
  | .error _ => []

/-- the HRevolve stream is accepted, LIFO, and its cost is the table value plus the first sweep -/
def hrAttains (N c0 c1 : Nat) (c : Costs) : Bool :=
  decide (Accepted (cfgHRevolve c0 c1 N) (hrObs N c0 c1 c)) &&
  decide (Lifo (cfgHRevolve c0 c1 N) (hrObs N c0 c1 c)) &&
  (match (hoptTable (N - 1) c0 c1 0 c.wd 0 c.rd c.ub c.uf).opt 1 (N - 1) c1 with
   | some v => decide (obsCostT c (hrObs N c0 c1 c) = v + N * c.uf)
   | none => false)

example : hrAttains 6 1 1 ⟨1, 1, 2, 1⟩ = true := by decide +kernel
example : hrAttains 9 1 2 ⟨1, 1, 2, 1⟩ = true := by decide +kernel
example : hrAttains 9 2 1 ⟨3, 1, 5, 1⟩ = true := by decide +kernel
example : hrAttains 10 2 2 ⟨1, 2, 3, 0⟩ = true := by decide +kernel

end Ckpt.LB7

#print axioms Ckpt.LB7.hrevolveOptimalT_partial
#print axioms Ckpt.LB7.hrevolveOptimalT_of_lifo
#print axioms Ckpt.LB7.C07_hrevolve_lifo_optimal
