import CkptVerif.Spec.Exec
import Mathlib.Tactic
/-!
# What the executor's verdicts mean

`CkptVerif/Spec/Exec.lean` records a tagged violation whenever a check fails.  This file proves,
for an arbitrary `cfg : Cfg` and an arbitrary observation list `os : List Obs`, that the verdict
"no violation tagged `P`" implies the declarative statement of property `P` about the stream.

* lifting: `mem_runFrom`, `noTag_step`, `inv_of_run`
* M1 (C03) budgets, one kind of data per checkpoint
* M2 (C04) clean storage at `EndReverse`
* M4 (C01) executability
* M3 (C02) phases and order
* M5 (C12) working storage
-/
namespace Ckpt.Mean

/-! ## Vocabulary -/

/-- no recorded violation carries tag `t` -/
def NoTag (t : Tag) (vs : List (Nat × Viol)) : Prop := ∀ v ∈ vs, v.2.tag ≠ t

instance (t : Tag) (vs : List (Nat × Viol)) : Decidable (NoTag t vs) :=
  inferInstanceAs (Decidable (∀ v ∈ vs, v.2.tag ≠ t))

/-- no violation of the list carries tag `t` -/
def Free (t : Tag) (L : List Viol) : Prop := ∀ v ∈ L, v.tag ≠ t

/-- the single step of `o` from `x` records no violation tagged `t` -/
def StepNo (t : Tag) (cfg : Cfg) (x : XS) (o : Obs) : Prop := Free t (stepViols cfg x o)

/-- the state after carrying out all of `os` from `x` -/
def finalSt (cfg : Cfg) (x : XS) (os : List Obs) : XS :=
  os.foldl (fun x o => nextState cfg x o.act) x

/-- the state after the first `k` actions of `os` (i.e. *before* action number `k`) -/
def stateAt (cfg : Cfg) (x : XS) (os : List Obs) (k : Nat) : XS := finalSt cfg x (os.take k)

/-- the state after each prefix of `os`, the initial one included -/
def statesFrom (cfg : Cfg) (x : XS) : List Obs → List XS
  | [] => [x]
  | o :: os => x :: statesFrom cfg (nextState cfg x o.act) os

/-- the state before action number `k` of a run from the initial state -/
abbrev stAt (cfg : Cfg) (os : List Obs) (k : Nat) : XS := stateAt cfg (XS.init cfg) os k

/-! ## Lifting: from the run to its steps -/

theorem runFrom_fst_eq (cfg : Cfg) (os : List Obs) : ∀ (i : Nat) (x : XS),
    (runFrom cfg i x os).1 = finalSt cfg x os := by
  induction os with
  | nil => intro i x; rfl
  | cons o os ih => intro i x; simp only [runFrom, step, finalSt, List.foldl_cons]; exact ih _ _

theorem run_fst_eq (cfg : Cfg) (os : List Obs) : (run cfg os).1 = finalSt cfg (XS.init cfg) os :=
  runFrom_fst_eq cfg os 0 _

theorem runFrom_snd_cons (cfg : Cfg) (i : Nat) (x : XS) (o : Obs) (os : List Obs) :
    (runFrom cfg i x (o :: os)).2 =
      (stepViols cfg x o).map (fun v => (i, v)) ++ (runFrom cfg (i+1) (nextState cfg x o.act) os).2 := by
  simp only [runFrom, step]

@[simp] theorem stateAt_zero (cfg : Cfg) (x : XS) (os : List Obs) : stateAt cfg x os 0 = x := rfl

@[simp] theorem stateAt_nil (cfg : Cfg) (x : XS) (k : Nat) : stateAt cfg x [] k = x := by
  simp [stateAt, finalSt]

@[simp] theorem stateAt_cons_succ (cfg : Cfg) (x : XS) (o : Obs) (os : List Obs) (k : Nat) :
    stateAt cfg x (o :: os) (k+1) = stateAt cfg (nextState cfg x o.act) os k := by
  simp [stateAt, finalSt]

/-- the states are linked by `nextState` -/
theorem stateAt_succ (cfg : Cfg) {os : List Obs} : ∀ {x : XS} {k : Nat} {o : Obs}, os[k]? = some o →
    stateAt cfg x os (k+1) = nextState cfg (stateAt cfg x os k) o.act := by
  induction os with
  | nil => intro x k o h; simp at h
  | cons a os ih =>
    intro x k o h
    cases k with
    | zero =>
      simp only [List.getElem?_cons_zero, Option.some.injEq] at h
      subst h; simp
    | succ k =>
      rw [List.getElem?_cons_succ] at h
      rw [stateAt_cons_succ, stateAt_cons_succ]; exact ih h

theorem stateAt_of_le (cfg : Cfg) (x : XS) {os : List Obs} {k : Nat} (h : os.length ≤ k) :
    stateAt cfg x os k = finalSt cfg x os := by
  rw [stateAt, List.take_of_length_le h]

theorem stateAt_length (cfg : Cfg) (x : XS) (os : List Obs) :
    stateAt cfg x os os.length = finalSt cfg x os := stateAt_of_le cfg x (Nat.le_refl _)

/-- the state after running the prefix `os.take k` with the executor itself -/
theorem stateAt_eq_run (cfg : Cfg) (os : List Obs) (k : Nat) :
    stAt cfg os k = (run cfg (os.take k)).1 := (run_fst_eq cfg _).symm

theorem statesFrom_length (cfg : Cfg) (os : List Obs) : ∀ x, (statesFrom cfg x os).length = os.length + 1 := by
  induction os with
  | nil => intro x; rfl
  | cons o os ih => intro x; simp [statesFrom, ih]

theorem statesFrom_getElem? (cfg : Cfg) {os : List Obs} : ∀ {x : XS} {k : Nat}, k ≤ os.length →
    (statesFrom cfg x os)[k]? = some (stateAt cfg x os k) := by
  induction os with
  | nil => intro x k h; simp at h; subst h; simp [statesFrom]
  | cons o os ih =>
    intro x k h
    cases k with
    | zero => simp [statesFrom]
    | succ k =>
      simp only [statesFrom, List.getElem?_cons_succ, stateAt_cons_succ]
      exact ih (by simpa using h)

/-- `statesFrom` lists exactly the states after the prefixes of the stream -/
theorem mem_statesFrom (cfg : Cfg) {os : List Obs} {x y : XS} :
    y ∈ statesFrom cfg x os ↔ ∃ p, p <+: os ∧ y = finalSt cfg x p := by
  constructor
  · intro h
    obtain ⟨k, hk⟩ := List.getElem?_of_mem h
    have hk' : k ≤ os.length := by
      have := (List.getElem?_eq_some_iff.mp hk).1
      rw [statesFrom_length] at this; omega
    rw [statesFrom_getElem? cfg hk'] at hk
    exact ⟨os.take k, List.take_prefix _ _, (Option.some.inj hk).symm⟩
  · rintro ⟨p, hp, rfl⟩
    have hk : p.length ≤ os.length := hp.length_le
    have : os.take p.length = p := (List.prefix_iff_eq_take.mp hp).symm
    have h2 := statesFrom_getElem? cfg (x := x) hk
    rw [stateAt, this] at h2
    exact List.mem_of_getElem? h2

/-- **Lifting lemma.**  The violations of a run are exactly the violations of its steps, each
step taken in the state reached by the prefix before it, indexed by position. -/
theorem mem_runFrom (cfg : Cfg) {os : List Obs} : ∀ {j : Nat} {x : XS} {i : Nat} {v : Viol},
    (i, v) ∈ (runFrom cfg j x os).2 ↔
      ∃ k o, os[k]? = some o ∧ v ∈ stepViols cfg (stateAt cfg x os k) o ∧ i = j + k := by
  induction os with
  | nil => intro j x i v; simp [runFrom]
  | cons a os ih =>
    intro j x i v
    rw [runFrom_snd_cons, List.mem_append, ih]
    constructor
    · rintro (h | ⟨k, o, hk, hv, rfl⟩)
      · obtain ⟨w, hw, he⟩ := List.mem_map.mp h
        simp only [Prod.mk.injEq] at he
        obtain ⟨rfl, rfl⟩ := he
        exact ⟨0, a, by simp, by simpa using hw, by simp⟩
      · exact ⟨k+1, o, by simpa using hk, by simpa using hv, by omega⟩
    · rintro ⟨k, o, hk, hv, rfl⟩
      cases k with
      | zero =>
        simp only [List.getElem?_cons_zero, Option.some.injEq] at hk
        subst hk
        left; exact List.mem_map.mpr ⟨v, by simpa using hv, rfl⟩
      | succ k =>
        right
        exact ⟨k, o, by simpa using hk, by simpa using hv, by omega⟩

/-- a run is free of a class `Q`-complement of violations iff each of its steps is -/
theorem run_all_iff (cfg : Cfg) (Q : Viol → Prop) (j : Nat) (x : XS) (os : List Obs) :
    (∀ iv ∈ (runFrom cfg j x os).2, Q iv.2) ↔
      ∀ k o, os[k]? = some o → ∀ v ∈ stepViols cfg (stateAt cfg x os k) o, Q v := by
  constructor
  · intro h k o hk v hv
    exact h (j + k, v) (mem_runFrom cfg |>.mpr ⟨k, o, hk, hv, rfl⟩)
  · rintro h ⟨i, v⟩ hiv
    obtain ⟨k, o, hk, hv, -⟩ := (mem_runFrom cfg).mp hiv
    exact h k o hk v hv

/-- no violation tagged `t` in the run: none in any of its steps -/
theorem noTag_step {cfg : Cfg} {t : Tag} {os : List Obs} (h : NoTag t (run cfg os).2)
    {k : Nat} {o : Obs} (hk : os[k]? = some o) : StepNo t cfg (stAt cfg os k) o :=
  (run_all_iff cfg (fun v => v.tag ≠ t) 0 _ os).mp h k o hk

/-- conversely: a run all of whose steps are free of `t` is free of `t` -/
theorem noTag_of_steps {cfg : Cfg} {t : Tag} {os : List Obs}
    (h : ∀ k o, os[k]? = some o → StepNo t cfg (stAt cfg os k) o) : NoTag t (run cfg os).2 :=
  (run_all_iff cfg (fun v => v.tag ≠ t) 0 _ os).mpr h

/-- **Invariant principle.**  A predicate that holds initially and is preserved by every step that
records only violations in `Q` holds after every prefix of a run whose violations are all in `Q`. -/
theorem inv_of_run {cfg : Cfg} (I : XS → Prop) (Q : Viol → Prop) {x : XS} {os : List Obs} {j : Nat}
    (h0 : I x)
    (hstep : ∀ y o, I y → (∀ v ∈ stepViols cfg y o, Q v) → I (nextState cfg y o.act))
    (hQ : ∀ iv ∈ (runFrom cfg j x os).2, Q iv.2) : ∀ k, I (stateAt cfg x os k) := by
  have hs := (run_all_iff cfg Q j x os).mp hQ
  intro k
  induction k with
  | zero => simpa using h0
  | succ k ih =>
    rcases ho : os[k]? with _ | o
    · have hle : os.length ≤ k := by simpa using ho
      rw [stateAt_of_le cfg x (Nat.le_succ_of_le hle), ← stateAt_of_le cfg x hle]; exact ih
    · rw [stateAt_succ cfg ho]; exact hstep _ _ ih (hs k o ho)

/-- the prefix formulation: the state after running any prefix `p` of `os` -/
theorem prefix_state {cfg : Cfg} {os p : List Obs} (hp : p <+: os) :
    (run cfg p).1 = stAt cfg os p.length := by
  rw [run_fst_eq, stAt, stateAt, ← List.prefix_iff_eq_take.mp hp]

/-- the invariant principle for one or two tags -/
theorem inv_of_noTag {cfg : Cfg} {t : Tag} (I : XS → Prop) {os : List Obs}
    (h0 : I (XS.init cfg))
    (hstep : ∀ y o, I y → StepNo t cfg y o → I (nextState cfg y o.act))
    (h : NoTag t (run cfg os).2) : ∀ k, I (stAt cfg os k) :=
  inv_of_run I (fun v => v.tag ≠ t) h0 hstep h

theorem inv_of_noTag₂ {cfg : Cfg} {t t' : Tag} (I : XS → Prop) {os : List Obs}
    (h0 : I (XS.init cfg))
    (hstep : ∀ y o, I y → StepNo t cfg y o → StepNo t' cfg y o → I (nextState cfg y o.act))
    (h : NoTag t (run cfg os).2) (h' : NoTag t' (run cfg os).2) : ∀ k, I (stAt cfg os k) :=
  inv_of_run I (fun v => v.tag ≠ t ∧ v.tag ≠ t') h0
    (fun y o hy hv => hstep y o hy (fun v m => (hv v m).1) (fun v m => (hv v m).2))
    (fun iv m => ⟨h iv m, h' iv m⟩)

/-! ## Reading off the checks -/

theorem free_append {t : Tag} {a b : List Viol} : Free t (a ++ b) ↔ Free t a ∧ Free t b := by
  simp [Free, or_imp, forall_and]

theorem free_chk {c : Bool} {t' t : Tag} {n : Nat} : Free t (chk c t' n) ↔ (t' = t → c = true) := by
  cases c <;> simp [chk, Free]

theorem free_nil {t : Tag} : Free t [] ↔ True := by simp [Free]

theorem free_single {t : Tag} {v : Viol} : Free t [v] ↔ v.tag ≠ t := by simp [Free]

theorem free_ite {t : Tag} {c : Prop} [Decidable c] {l l' : List Viol} :
    Free t (if c then l else l') ↔ (c → Free t l) ∧ (¬ c → Free t l') := by
  by_cases h : c <;> simp [h]

/-- a clean step: its action checks are clean -/
theorem StepNo.act {t : Tag} {cfg : Cfg} {x : XS} {o : Obs} (h : StepNo t cfg x o) :
    Free t (actViols cfg x o.act) := by
  unfold StepNo stepViols at h
  exact (free_append.mp (free_append.mp h).1).2

/-! ## State projections of `nextState` -/

theorem nextState_cps_forward (cfg : Cfg) (x : XS) (n0 n1 : Nat) (wi wa : Bool) (st : Storage) :
    (nextState cfg x (.forward n0 n1 wi wa st)).cps =
      if st.isStore then
        { n := n0, st := st, ics := if wi then clip cfg x n1 - n0 else 0,
          deps := if wa then clip cfg x n1 - n0 else 0 } :: x.cps
      else x.cps := rfl

theorem nextState_cps_copy (cfg : Cfg) (x : XS) (n : Nat) (src dst : Storage) :
    (nextState cfg x (.copy n src dst)).cps =
      match findCp x.cps n src with
      | none => x.cps
      | some c => if dst.isStore then { c with st := dst } :: x.cps else x.cps := by
  simp only [nextState]
  rcases findCp x.cps n src with _ | c
  · rfl
  · by_cases hd : dst = .work <;> simp [hd]

theorem nextState_cps_move (cfg : Cfg) (x : XS) (n : Nat) (src dst : Storage) :
    (nextState cfg x (.move n src dst)).cps =
      match findCp x.cps n src with
      | none => x.cps
      | some c => if dst.isStore then { c with st := dst } :: eraseCp x.cps n src
                  else eraseCp x.cps n src := by
  simp only [nextState]
  rcases findCp x.cps n src with _ | c
  · rfl
  · by_cases hd : dst = .work <;> simp [hd]

/-! ## M1 (C03): budgets; one kind of data per checkpoint -/

/-- a stored checkpoint holds restart data or exactly one step of adjoint dependencies, never both -/
def CpWf (c : Cp) : Prop := ¬ (c.ics > 0 ∧ c.deps > 0) ∧ c.deps ≤ 1

theorem withinOpt_iff {b : Option Nat} {k : Nat} : withinOpt b k = true ↔ ∀ m, b = some m → k ≤ m := by
  cases b <;> simp [withinOpt]

/-- what `withinBudget` says -/
theorem withinBudget_iff {cfg : Cfg} {cps : List Cp} : withinBudget cfg cps = true ↔
    (∀ m, cfg.ram = some m → countSt cps .ram ≤ m) ∧ (∀ m, cfg.disk = some m → countSt cps .disk ≤ m) := by
  simp [withinBudget, withinOpt_iff]

theorem withinBudget_mono {cfg : Cfg} {a b : List Cp} (h : ∀ s, countSt a s ≤ countSt b s)
    (hb : withinBudget cfg b = true) : withinBudget cfg a = true := by
  rw [withinBudget_iff] at hb ⊢
  exact ⟨fun m hm => le_trans (h _) (hb.1 m hm), fun m hm => le_trans (h _) (hb.2 m hm)⟩

theorem countSt_cons (c : Cp) (cps : List Cp) (s : Storage) :
    countSt (c :: cps) s = (if c.st = s then 1 else 0) + countSt cps s := by
  unfold countSt
  by_cases h : c.st = s <;> simp [h]; omega

theorem countSt_eraseCp_le (cps : List Cp) (n : Nat) (s s' : Storage) :
    countSt (eraseCp cps n s) s' ≤ countSt cps s' := by
  unfold countSt eraseCp
  rw [List.filter_comm]  
  exact List.length_filter_le _ _

theorem withinBudget_nil (cfg : Cfg) : withinBudget cfg [] = true := by
  rw [withinBudget_iff]; simp [countSt]

theorem mem_eraseCp {cps : List Cp} {n : Nat} {s : Storage} {c : Cp} (h : c ∈ eraseCp cps n s) : c ∈ cps :=
  (List.mem_filter.mp h).1

/-- one step preserves the C03 invariant if it records no C03 violation -/
theorem step_C03 {cfg : Cfg} {x : XS} {o : Obs} (h : StepNo .C03 cfg x o)
    (hI : withinBudget cfg x.cps = true ∧ ∀ c ∈ x.cps, CpWf c) :
    withinBudget cfg (nextState cfg x o.act).cps = true ∧ ∀ c ∈ (nextState cfg x o.act).cps, CpWf c := by
  have ha := h.act
  obtain ⟨hb, hw⟩ := hI
  rcases hact : o.act with ⟨n0, n1, wi, wa, st⟩ | ⟨n1, n0, cl⟩ | ⟨n, src, dst⟩ | ⟨n, src, dst⟩ | _ | _
  · rw [hact] at ha
    rw [nextState_cps_forward]
    by_cases hs : st.isStore = true
    · simp [actViols, free_append, free_chk, free_ite, free_nil, hs] at ha
      obtain ⟨h1, h2, h3⟩ := ha
      simp only [hs, if_true]
      refine ⟨withinBudget_mono (fun s => ?_) h3, ?_⟩
      · simp [countSt_cons]
      · intro c hc
        rcases List.mem_cons.mp hc with rfl | hc
        · unfold CpWf
          have hd : (if wa = true then clip cfg x n1 - n0 else 0) ≤ 1 := by
            rcases h2 with rfl | h2
            · simp
            · split <;> omega
          rcases h1 with rfl | rfl
          · simpa using hd
          · simp
        · exact hw c hc
    · simp only [hs]; exact ⟨hb, hw⟩
  · exact ⟨hb, hw⟩
  · rw [hact] at ha
    rw [nextState_cps_copy]
    simp only [actViols, actViols.loadViols] at ha
    rcases hf : findCp x.cps n src with _ | c
    · exact ⟨hb, hw⟩
    · have hc : c ∈ x.cps := List.mem_of_find?_eq_some hf
      by_cases hs : dst.isStore = true
      · simp [hf, free_append, free_chk, free_ite, free_nil, hs] at ha
        simp only [hs, if_true]
        refine ⟨ha, ?_⟩
        intro c' hc'
        rcases List.mem_cons.mp hc' with rfl | hc'
        · exact hw c hc
        · exact hw c' hc'
      · simp only [hs]; exact ⟨hb, hw⟩
  · rw [hact] at ha
    rw [nextState_cps_move]
    simp only [actViols, actViols.loadViols] at ha
    rcases hf : findCp x.cps n src with _ | c
    · exact ⟨hb, hw⟩
    · have hc : c ∈ x.cps := List.mem_of_find?_eq_some hf
      by_cases hs : dst.isStore = true
      · simp [hf, free_append, free_chk, free_ite, free_nil, hs] at ha
        simp only [hs, if_true]
        refine ⟨withinBudget_mono (fun s => ?_) ha, ?_⟩
        · rw [countSt_cons, countSt_cons]
          have := countSt_eraseCp_le x.cps n src s
          omega
        · intro c' hc'
          rcases List.mem_cons.mp hc' with rfl | hc'
          · exact hw c hc
          · exact hw c' (mem_eraseCp hc')
      · simp only [hs]
        exact ⟨withinBudget_mono (fun s => countSt_eraseCp_le _ _ _ _) hb, fun c' hc' => hw c' (mem_eraseCp hc')⟩
  · exact ⟨hb, hw⟩
  · exact ⟨hb, hw⟩

/-- **M1 (C03).**  If the run records no C03 violation then after every prefix the stored
checkpoints are within the budgets, and every stored checkpoint holds either restart data or
exactly one step of adjoint dependencies, never both.  (No hypothesis besides `NoTag .C03` is
needed: Copy/Move re-label an existing checkpoint and so preserve the second part.) -/
theorem M1_C03 {cfg : Cfg} {os : List Obs} (h : NoTag .C03 (run cfg os).2) (k : Nat) :
    withinBudget cfg (stAt cfg os k).cps = true ∧ ∀ c ∈ (stAt cfg os k).cps, CpWf c :=
  inv_of_noTag (fun x => withinBudget cfg x.cps = true ∧ ∀ c ∈ x.cps, CpWf c)
    ⟨withinBudget_nil cfg, by simp [XS.init]⟩ (fun _ _ hI hs => step_C03 hs hI) h k

/-- M1 in the prefix formulation, with the budgets spelt out -/
theorem M1_C03_prefix {cfg : Cfg} {os : List Obs} (h : NoTag .C03 (run cfg os).2)
    {p : List Obs} (hp : p <+: os) :
    let x := (run cfg p).1
    (∀ m, cfg.ram = some m → countSt x.cps .ram ≤ m) ∧
    (∀ m, cfg.disk = some m → countSt x.cps .disk ≤ m) ∧
    ∀ c ∈ x.cps, ¬ (c.ics > 0 ∧ c.deps > 0) ∧ c.deps ≤ 1 := by
  intro x
  have := M1_C03 h p.length
  rw [← prefix_state hp] at this
  exact ⟨(withinBudget_iff.mp this.1).1, (withinBudget_iff.mp this.1).2, this.2⟩


/-! ## M2 (C04): clean storage at `EndReverse` -/

/-- what `sameCps` gives: equal lengths and the same members -/
theorem sameCps_iff {a b : List Cp} :
    sameCps a b = true ↔ a.length = b.length ∧ ∀ c, c ∈ a ↔ c ∈ b := by
  simp only [sameCps, Bool.and_eq_true, beq_iff_eq, List.all_eq_true, List.contains_iff_mem]
  constructor
  · rintro ⟨⟨h1, h2⟩, h3⟩; exact ⟨h1, fun c => ⟨h2 c, h3 c⟩⟩
  · rintro ⟨h1, h2⟩; exact ⟨⟨h1, fun c => (h2 c).mp⟩, fun c => (h2 c).mpr⟩

theorem sameCps_mem {a b : List Cp} (h : sameCps a b = true) : ∀ c, c ∈ a ↔ c ∈ b :=
  (sameCps_iff.mp h).2

/-- on a duplicate-free list (which is what the executor keeps when no C01 violation occurs, see
`M4_keys_nodup`) `sameCps` is equality up to order -/
theorem sameCps_perm {a b : List Cp} (ha : a.Nodup) (h : sameCps a b = true) : a.Perm b := by
  obtain ⟨hl, hm⟩ := sameCps_iff.mp h
  exact (List.subperm_of_subset ha (fun c hc => (hm c).mp hc)).perm_of_length_le (by omega)

theorem nextState_snap (cfg : Cfg) (x : XS) (a : Action) :
    (nextState cfg x a).snap = if a = .endForward then x.cps else x.snap := by
  rcases a with ⟨n0, n1, wi, wa, st⟩ | ⟨n1, n0, cl⟩ | ⟨n, src, dst⟩ | ⟨n, src, dst⟩ | _ | _
  · rfl
  · rfl
  · simp only [nextState]
    rcases findCp x.cps n src with _ | c
    · rfl
    · by_cases hd : dst = .work <;> simp [hd]
  · simp only [nextState]
    rcases findCp x.cps n src with _ | c
    · rfl
    · by_cases hd : dst = .work <;> simp [hd]
  · rfl
  · rfl

theorem stateAt_succ_of_none (cfg : Cfg) (x : XS) {os : List Obs} {k : Nat} (h : os[k]? = none) :
    stateAt cfg x os (k+1) = stateAt cfg x os k := by
  have hle : os.length ≤ k := by simpa using h
  rw [stateAt_of_le cfg x (Nat.le_succ_of_le hle), stateAt_of_le cfg x hle]

/-- `snap` is the storage at the last `EndForward`: if action `j` is an `EndForward` and no
`EndForward` occurs at positions `j < i < k`, then in the state before action `k` the field `snap`
is the stored-checkpoint list of the state in which that `EndForward` was issued. -/
theorem snap_eq_cps_at_endForward (cfg : Cfg) (x : XS) (os : List Obs) {j k : Nat} {o : Obs}
    (hj : os[j]? = some o) (ho : o.act = .endForward) (hjk : j < k)
    (hno : ∀ i o', j < i → i < k → os[i]? = some o' → o'.act ≠ .endForward) :
    (stateAt cfg x os k).snap = (stateAt cfg x os j).cps := by
  obtain ⟨d, rfl⟩ : ∃ d, k = j + 1 + d := ⟨k - (j + 1), by omega⟩
  clear hjk
  induction d with
  | zero => rw [Nat.add_zero, stateAt_succ cfg hj, nextState_snap, ho]; simp
  | succ d ih =>
    have ih' := ih (fun i o' h1 h2 => hno i o' h1 (by omega))
    rw [← Nat.add_assoc]
    rcases hk : os[j + 1 + d]? with _ | o'
    · rw [stateAt_succ_of_none cfg x hk]; exact ih'
    · rw [stateAt_succ cfg hk, nextState_snap, if_neg (hno _ o' (by omega) (by omega) hk)]; exact ih'

/-- before any `EndForward` the snapshot is empty -/
theorem snap_eq_nil (cfg : Cfg) (os : List Obs) {k : Nat}
    (hno : ∀ i o', i < k → os[i]? = some o' → o'.act ≠ .endForward) : (stAt cfg os k).snap = [] := by
  induction k with
  | zero => rfl
  | succ k ih =>
    have ih' := ih (fun i o' h1 => hno i o' (by omega))
    rcases hk : os[k]? with _ | o'
    · rw [stAt, stateAt_succ_of_none cfg _ hk]; exact ih'
    · rw [stAt, stateAt_succ cfg hk, nextState_snap, if_neg (hno _ o' (by omega) hk)]; exact ih'

/-- one `EndReverse` step without a C04 violation -/
theorem step_C04 {cfg : Cfg} {x : XS} {o : Obs} (h : StepNo .C04 cfg x o) (ho : o.act = .endReverse) :
    (∀ m, cfg.passes = some m → x.cps = []) ∧ (cfg.passes = none → sameCps x.cps x.snap = true) := by
  have ha := h.act
  rw [ho] at ha
  simp only [actViols] at ha
  rcases hp : cfg.passes with _ | m
  · simp [hp, free_append, free_chk] at ha
    simp [ha]
  · simp [hp, free_append, free_chk] at ha
    simp [ha]

/-- **M2 (C04).**  If the run records no C04 violation then at every `EndReverse` the state before
it has empty storage (schedules with a bounded number of adjoint calculations) or the same storage
as at `EndForward` (repeatable schedules). -/
theorem M2_C04 {cfg : Cfg} {os : List Obs} (h : NoTag .C04 (run cfg os).2) {i : Nat} {o : Obs}
    (hi : os[i]? = some o) (ho : o.act = .endReverse) :
    (∀ m, cfg.passes = some m → (stAt cfg os i).cps = []) ∧
    (cfg.passes = none → sameCps (stAt cfg os i).cps (stAt cfg os i).snap = true) :=
  step_C04 (noTag_step h hi) ho

/-- M2 for repeatable schedules, with `snap` resolved: the storage before an `EndReverse` has the
same length and the same members as the storage at the last `EndForward` before it. -/
theorem M2_C04_restored {cfg : Cfg} {os : List Obs} (h : NoTag .C04 (run cfg os).2)
    (hp : cfg.passes = none) {i j : Nat} {o o' : Obs}
    (hi : os[i]? = some o) (ho : o.act = .endReverse)
    (hj : os[j]? = some o') (ho' : o'.act = .endForward) (hji : j < i)
    (hno : ∀ l o'', j < l → l < i → os[l]? = some o'' → o''.act ≠ .endForward) :
    (stAt cfg os i).cps.length = (stAt cfg os j).cps.length ∧
    ∀ c, c ∈ (stAt cfg os i).cps ↔ c ∈ (stAt cfg os j).cps := by
  have h1 := (M2_C04 h hi ho).2 hp
  rw [snap_eq_cps_at_endForward cfg _ os hj ho' hji hno] at h1
  exact sameCps_iff.mp h1


/-! ## M4 (C01): executability -/

theorem findCp_eq_none_iff {cps : List Cp} {n : Nat} {s : Storage} :
    findCp cps n s = none ↔ ∀ c ∈ cps, ¬ (c.n = n ∧ c.st = s) := by
  simp [findCp, List.find?_eq_none]

theorem findCp_some {cps : List Cp} {n : Nat} {s : Storage} {c : Cp} (h : findCp cps n s = some c) :
    c ∈ cps ∧ c.n = n ∧ c.st = s := by
  have h1 := List.mem_of_find?_eq_some h
  have h2 := List.find?_some h
  simp at h2
  exact ⟨h1, h2⟩

theorem covers_iff {w : Option (Nat × Nat)} {lo hi : Nat} :
    covers w lo hi = true ↔ ∃ a b, w = some (a, b) ∧ a ≤ lo ∧ hi ≤ b := by
  rcases w with _ | ⟨a, b⟩ <;> simp [covers]

/-- a `Forward` without C01 violation starts where the forward state in WORK stands, and does not
overwrite a stored checkpoint -/
theorem step_C01_forward {cfg : Cfg} {x : XS} {o : Obs} {n0 n1 : Nat} {wi wa : Bool} {st : Storage}
    (h : StepNo .C01 cfg x o) (ho : o.act = .forward n0 n1 wi wa st) :
    x.fwd = some n0 ∧ (st.isStore = true → ∀ c ∈ x.cps, ¬ (c.n = n0 ∧ c.st = st)) := by
  have ha := h.act
  rw [ho] at ha
  simp [actViols, free_append, free_chk, free_ite, free_nil] at ha
  refine ⟨ha.1, fun hs => ?_⟩
  exact findCp_eq_none_iff.mp (ha.2 hs)

/-- a `Copy`/`Move` without C01 violation finds a non-empty checkpoint with that key in the source
storage, lying before the adjoint; restart data covers the steps still to be recomputed; nothing
is overwritten in the destination -/
theorem step_C01_load {cfg : Cfg} {x : XS} {o : Obs} {n : Nat} {src dst : Storage}
    (h : StepNo .C01 cfg x o) (ho : o.act = .copy n src dst ∨ o.act = .move n src dst) :
    ∃ c, findCp x.cps n src = some c ∧ c ∈ x.cps ∧ c.n = n ∧ c.st = src ∧
      (c.ics > 0 ∨ c.deps > 0) ∧ n < cfg.N - x.r ∧ (c.ics > 0 → cfg.N - x.r ≤ n + c.ics) ∧
      (dst.isStore = true → ∀ c' ∈ x.cps, ¬ (c'.n = n ∧ c'.st = dst)) := by
  have ha := h.act
  have ha' : Free .C01 (actViols.loadViols cfg x n src dst) := by
    rcases ho with ho | ho <;> (rw [ho] at ha; exact ha)
  simp only [actViols.loadViols] at ha'
  rcases hf : findCp x.cps n src with _ | c
  · simp [hf, free_append, free_chk, free_single] at ha'
  · simp [hf, free_append, free_chk, free_ite, free_nil] at ha'
    obtain ⟨h1, h2, h3, h4⟩ := ha'
    obtain ⟨m1, m2, m3⟩ := findCp_some hf
    exact ⟨c, rfl, m1, m2, m3, h1, h2, fun hc => by have := h3 hc; omega,
      fun hs => findCp_eq_none_iff.mp (h4 hs)⟩

/-- a `Reverse` without C01 violation finds the adjoint dependencies of all its steps in WORK -/
theorem step_C01_reverse {cfg : Cfg} {x : XS} {o : Obs} {n1 n0 : Nat} {cl : Bool}
    (h : StepNo .C01 cfg x o) (ho : o.act = .reverse n1 n0 cl) :
    covers x.wDeps n0 n1 = true ∧ ∃ a b, x.wDeps = some (a, b) ∧ a ≤ n0 ∧ n1 ≤ b := by
  have ha := h.act
  rw [ho] at ha
  simp [actViols, free_append, free_chk] at ha
  exact ⟨ha, covers_iff.mp ha⟩

/-- **M4 (C01)**, lifted to every position of a run. -/
theorem M4_C01_forward {cfg : Cfg} {os : List Obs} (h : NoTag .C01 (run cfg os).2) {i : Nat} {o : Obs}
    {n0 n1 : Nat} {wi wa : Bool} {st : Storage} (hi : os[i]? = some o)
    (ho : o.act = .forward n0 n1 wi wa st) :
    (stAt cfg os i).fwd = some n0 ∧
    (st.isStore = true → ∀ c ∈ (stAt cfg os i).cps, ¬ (c.n = n0 ∧ c.st = st)) :=
  step_C01_forward (noTag_step h hi) ho

theorem M4_C01_load {cfg : Cfg} {os : List Obs} (h : NoTag .C01 (run cfg os).2) {i : Nat} {o : Obs}
    {n : Nat} {src dst : Storage} (hi : os[i]? = some o)
    (ho : o.act = .copy n src dst ∨ o.act = .move n src dst) :
    ∃ c, findCp (stAt cfg os i).cps n src = some c ∧ c ∈ (stAt cfg os i).cps ∧ c.n = n ∧ c.st = src ∧
      (c.ics > 0 ∨ c.deps > 0) ∧ n < cfg.N - (stAt cfg os i).r ∧
      (c.ics > 0 → cfg.N - (stAt cfg os i).r ≤ n + c.ics) ∧
      (dst.isStore = true → ∀ c' ∈ (stAt cfg os i).cps, ¬ (c'.n = n ∧ c'.st = dst)) :=
  step_C01_load (noTag_step h hi) ho

theorem M4_C01_reverse {cfg : Cfg} {os : List Obs} (h : NoTag .C01 (run cfg os).2) {i : Nat} {o : Obs}
    {n1 n0 : Nat} {cl : Bool} (hi : os[i]? = some o) (ho : o.act = .reverse n1 n0 cl) :
    covers (stAt cfg os i).wDeps n0 n1 = true ∧
    ∃ a b, (stAt cfg os i).wDeps = some (a, b) ∧ a ≤ n0 ∧ n1 ≤ b :=
  step_C01_reverse (noTag_step h hi) ho

/-! ### consequence of "no overwrite": keys are unique -/

/-- the (key, storage) pairs of the stored checkpoints -/
def keys (cps : List Cp) : List (Nat × Storage) := cps.map (fun c => (c.n, c.st))

theorem mem_keys {cps : List Cp} {n : Nat} {s : Storage} :
    (n, s) ∈ keys cps ↔ ∃ c ∈ cps, c.n = n ∧ c.st = s := by
  simp [keys]

theorem keys_eraseCp_sublist (cps : List Cp) (n : Nat) (s : Storage) :
    (keys (eraseCp cps n s)).Sublist (keys cps) :=
  List.Sublist.map _ List.filter_sublist

theorem step_keys_nodup {cfg : Cfg} {x : XS} {o : Obs} (h : StepNo .C01 cfg x o)
    (hI : (keys x.cps).Nodup) : (keys (nextState cfg x o.act).cps).Nodup := by
  rcases hact : o.act with ⟨n0, n1, wi, wa, st⟩ | ⟨n1, n0, cl⟩ | ⟨n, src, dst⟩ | ⟨n, src, dst⟩ | _ | _
  · rw [nextState_cps_forward]
    by_cases hs : st.isStore = true
    · simp only [hs, if_true, keys, List.map_cons]
      refine List.nodup_cons.mpr ⟨?_, hI⟩
      intro hm
      obtain ⟨c, hc, hk⟩ := mem_keys.mp hm
      exact (step_C01_forward h hact).2 hs c hc hk
    · simp only [hs]; exact hI
  · exact hI
  · obtain ⟨c, hf, -, hn, -, -, -, -, hd⟩ := step_C01_load h (Or.inl hact)
    rw [nextState_cps_copy, hf]
    by_cases hs : dst.isStore = true
    · simp only [hs, if_true, keys, List.map_cons]
      refine List.nodup_cons.mpr ⟨?_, hI⟩
      intro hm
      rw [hn] at hm
      obtain ⟨c', hc', hk⟩ := mem_keys.mp hm
      exact hd hs c' hc' hk
    · simp only [hs]; exact hI
  · obtain ⟨c, hf, -, hn, -, -, -, -, hd⟩ := step_C01_load h (Or.inr hact)
    rw [nextState_cps_move, hf]
    have hE := hI.sublist (keys_eraseCp_sublist x.cps n src)
    by_cases hs : dst.isStore = true
    · simp only [hs, if_true, keys, List.map_cons]
      refine List.nodup_cons.mpr ⟨?_, hE⟩
      intro hm
      rw [hn] at hm
      obtain ⟨c', hc', hk⟩ := mem_keys.mp hm
      exact hd hs c' (mem_eraseCp hc') hk
    · simp only [hs]; exact hE
  · exact hI
  · exact hI

/-- If the run records no C01 violation, then after every prefix no two stored checkpoints have the
same key in the same storage; in particular the checkpoint list is duplicate-free. -/
theorem M4_keys_nodup {cfg : Cfg} {os : List Obs} (h : NoTag .C01 (run cfg os).2) (k : Nat) :
    (keys (stAt cfg os k).cps).Nodup ∧ (stAt cfg os k).cps.Nodup := by
  have := inv_of_noTag (fun x => (keys x.cps).Nodup) (by simp [XS.init, keys])
    (fun _ _ hI hs => step_keys_nodup hs hI) h k
  exact ⟨this, List.Nodup.of_map _ this⟩

/-- with no C01 and no C04 violation, a repeatable schedule's storage before an `EndReverse` is,
up to order, the storage recorded at `EndForward` -/
theorem M2_C04_perm {cfg : Cfg} {os : List Obs} (h1 : NoTag .C01 (run cfg os).2)
    (h4 : NoTag .C04 (run cfg os).2) (hp : cfg.passes = none) {i : Nat} {o : Obs}
    (hi : os[i]? = some o) (ho : o.act = .endReverse) :
    (stAt cfg os i).cps.Perm (stAt cfg os i).snap :=
  sameCps_perm (M4_keys_nodup h1 i).2 ((M2_C04 h4 hi ho).2 hp)


/-! ## M3 (C02): phases and order -/

/-- after `done` completed adjoint calculations another one is permitted -/
def permitsMore (cfg : Cfg) (done : Nat) : Bool :=
  match cfg.passes with | none => true | some k => decide (done < k)

theorem nextState_ended (cfg : Cfg) (x : XS) (a : Action) :
    (nextState cfg x a).ended = (x.ended || decide (a = .endForward)) := by
  rcases a with ⟨n0, n1, wi, wa, st⟩ | ⟨n1, n0, cl⟩ | ⟨n, src, dst⟩ | ⟨n, src, dst⟩ | _ | _
  · simp [nextState]
  · simp [nextState]
  · simp only [nextState]
    rcases findCp x.cps n src with _ | c
    · simp
    · by_cases hd : dst = .work <;> simp [hd]
  · simp only [nextState]
    rcases findCp x.cps n src with _ | c
    · simp
    · by_cases hd : dst = .work <;> simp [hd]
  · simp [nextState]
  · simp [nextState]

theorem nextState_r (cfg : Cfg) (x : XS) (a : Action) :
    (nextState cfg x a).r =
      match a with
      | .reverse n1 n0 _ => x.r + (n1 - n0)
      | .endReverse => if permitsMore cfg (x.done + 1) then 0 else x.r
      | _ => x.r := by
  rcases a with ⟨n0, n1, wi, wa, st⟩ | ⟨n1, n0, cl⟩ | ⟨n, src, dst⟩ | ⟨n, src, dst⟩ | _ | _
  · rfl
  · rfl
  · simp only [nextState]
    rcases findCp x.cps n src with _ | c
    · rfl
    · by_cases hd : dst = .work <;> simp [hd]
  · simp only [nextState]
    rcases findCp x.cps n src with _ | c
    · rfl
    · by_cases hd : dst = .work <;> simp [hd]
  · rfl
  · rfl

theorem nextState_done (cfg : Cfg) (x : XS) (a : Action) :
    (nextState cfg x a).done = if a = .endReverse then x.done + 1 else x.done := by
  rcases a with ⟨n0, n1, wi, wa, st⟩ | ⟨n1, n0, cl⟩ | ⟨n, src, dst⟩ | ⟨n, src, dst⟩ | _ | _
  · rfl
  · rfl
  · simp only [nextState]
    rcases findCp x.cps n src with _ | c
    · rfl
    · by_cases hd : dst = .work <;> simp [hd]
  · simp only [nextState]
    rcases findCp x.cps n src with _ | c
    · rfl
    · by_cases hd : dst = .work <;> simp [hd]
  · rfl
  · rfl

/-- (e) **no action is accepted after the end**: in a finished state every further action records
C02.9 -/
theorem M3e_finished_flags {cfg : Cfg} {x : XS} (o : Obs) (hf : finished cfg x = true) :
    (⟨.C02, 9⟩ : Viol) ∈ stepViols cfg x o := by
  simp [stepViols, chk, hf]

theorem StepNo.not_finished {cfg : Cfg} {x : XS} {o : Obs} (h : StepNo .C02 cfg x o) :
    finished cfg x = false := by
  unfold StepNo stepViols at h
  have := (free_append.mp (free_append.mp h).1).1
  simpa [free_chk] using this

/-- (e), lifted: in a run without C02 violation no action is issued in a finished state -/
theorem M3e_C02 {cfg : Cfg} {os : List Obs} (h : NoTag .C02 (run cfg os).2) {i : Nat} {o : Obs}
    (hi : os[i]? = some o) : finished cfg (stAt cfg os i) = false :=
  (noTag_step h hi).not_finished

/-- `ended` records whether an `EndForward` has occurred -/
theorem ended_iff (cfg : Cfg) (os : List Obs) (k : Nat) :
    (stAt cfg os k).ended = true ↔ ∃ j o, j < k ∧ os[j]? = some o ∧ o.act = .endForward := by
  induction k with
  | zero => simp [XS.init]
  | succ k ih =>
    rcases hk : os[k]? with _ | o
    · rw [stAt, stateAt_succ_of_none cfg _ hk, ← stAt, ih]
      constructor
      · rintro ⟨j, o, h1, h2⟩; exact ⟨j, o, by omega, h2⟩
      · rintro ⟨j, o, h1, h2, h3⟩
        have : j ≠ k := by rintro rfl; rw [hk] at h2; cases h2
        exact ⟨j, o, by omega, h2, h3⟩
    · rw [stAt, stateAt_succ cfg hk, nextState_ended, Bool.or_eq_true, ← stAt, ih]
      constructor
      · rintro (⟨j, o', h1, h2⟩ | h)
        · exact ⟨j, o', by omega, h2⟩
        · exact ⟨k, o, by omega, hk, by simpa using h⟩
      · rintro ⟨j, o', h1, h2, h3⟩
        by_cases hjk : j = k
        · subst hjk; rw [hk] at h2; cases h2; right; simpa using h3
        · left; exact ⟨j, o', by omega, h2, h3⟩

/-- one step without C02 violation in the forward phase is a `Forward` or the `EndForward` -/
theorem step_C02_forward_phase {cfg : Cfg} {x : XS} {o : Obs} (h : StepNo .C02 cfg x o)
    (he : x.ended = false) :
    o.act = .endForward ∨ ∃ n0 n1 wi wa st, o.act = .forward n0 n1 wi wa st := by
  have ha := h.act
  rcases hact : o.act with ⟨n0, n1, wi, wa, st⟩ | ⟨n1, n0, cl⟩ | ⟨n, src, dst⟩ | ⟨n, src, dst⟩ | _ | _
  · exact Or.inr ⟨_, _, _, _, _, rfl⟩
  · rw [hact] at ha; simp [actViols, free_append, free_chk, he] at ha
  · rw [hact] at ha; simp [actViols, actViols.loadViols, free_append, free_chk, he] at ha
  · rw [hact] at ha; simp [actViols, actViols.loadViols, free_append, free_chk, he] at ha
  · exact Or.inl rfl
  · rw [hact] at ha; simp [actViols, free_append, free_chk, he] at ha

/-- (a) **forward phase**: every action before the first `EndForward` is a `Forward` -/
theorem M3a_C02 {cfg : Cfg} {os : List Obs} (h : NoTag .C02 (run cfg os).2) {i : Nat} {o : Obs}
    (hi : os[i]? = some o) (hno : ∀ j o', j < i → os[j]? = some o' → o'.act ≠ .endForward) :
    o.act = .endForward ∨ ∃ n0 n1 wi wa st, o.act = .forward n0 n1 wi wa st := by
  apply step_C02_forward_phase (noTag_step h hi)
  rcases he : (stAt cfg os i).ended with _ | _
  · rfl
  · obtain ⟨j, o', h1, h2, h3⟩ := (ended_iff cfg os i).mp he
    exact absurd h3 (hno j o' h1 h2)

theorem step_C02_endForward {cfg : Cfg} {x : XS} {o : Obs} (h : StepNo .C02 cfg x o)
    (ho : o.act = .endForward) : x.ended = false ∧ x.fwd = some cfg.N ∧ x.r = 0 := by
  have ha := h.act
  rw [ho] at ha
  simpa [actViols, free_append, free_chk] using ha

/-- (b) at an `EndForward` no `EndForward` has occurred before, the forward calculation stands at
`cfg.N`, and nothing has been reversed -/
theorem M3b_C02 {cfg : Cfg} {os : List Obs} (h : NoTag .C02 (run cfg os).2) {i : Nat} {o : Obs}
    (hi : os[i]? = some o) (ho : o.act = .endForward) :
    (stAt cfg os i).ended = false ∧ (stAt cfg os i).fwd = some cfg.N ∧ (stAt cfg os i).r = 0 :=
  step_C02_endForward (noTag_step h hi) ho

/-- (b) there is at most one `EndForward` -/
theorem M3b_C02_unique {cfg : Cfg} {os : List Obs} (h : NoTag .C02 (run cfg os).2) {i j : Nat}
    {o o' : Obs} (hi : os[i]? = some o) (ho : o.act = .endForward)
    (hj : os[j]? = some o') (ho' : o'.act = .endForward) : i = j := by
  by_contra hne
  rcases Nat.lt_or_gt_of_ne hne with hlt | hlt
  · have := (M3b_C02 h hj ho').1
    rw [(ended_iff cfg os j).mpr ⟨i, o, hlt, hi, ho⟩] at this; cases this
  · have := (M3b_C02 h hi ho).1
    rw [(ended_iff cfg os i).mpr ⟨j, o', hlt, hj, ho'⟩] at this; cases this

theorem step_C02_reverse {cfg : Cfg} {x : XS} {o : Obs} {n1 n0 : Nat} {cl : Bool}
    (h : StepNo .C02 cfg x o) (ho : o.act = .reverse n1 n0 cl) :
    x.ended = true ∧ n1 = cfg.N - x.r := by
  have ha := h.act
  rw [ho] at ha
  simpa [actViols, free_append, free_chk] using ha

theorem step_C18_reverse {cfg : Cfg} {x : XS} {o : Obs} {n1 n0 : Nat} {cl : Bool}
    (h : StepNo .C18 cfg x o) (ho : o.act = .reverse n1 n0 cl) : n0 < n1 := by
  have ha := h.act
  rw [ho] at ha
  simpa [actViols, free_append, free_chk] using ha

/-- (c) every `Reverse` occurs after the `EndForward` and starts where the adjoint stands -/
theorem M3c_C02 {cfg : Cfg} {os : List Obs} (h : NoTag .C02 (run cfg os).2) {i : Nat} {o : Obs}
    {n1 n0 : Nat} {cl : Bool} (hi : os[i]? = some o) (ho : o.act = .reverse n1 n0 cl) :
    (∃ j o', j < i ∧ os[j]? = some o' ∧ o'.act = .endForward) ∧ n1 = cfg.N - (stAt cfg os i).r := by
  obtain ⟨h1, h2⟩ := step_C02_reverse (noTag_step h hi) ho
  exact ⟨(ended_iff cfg os i).mp h1, h2⟩

/-- (c) ... and reverses at least one step (this is check C18.4, not a C02 check) -/
theorem M3c_C18 {cfg : Cfg} {os : List Obs} (h : NoTag .C18 (run cfg os).2) {i : Nat} {o : Obs}
    {n1 n0 : Nat} {cl : Bool} (hi : os[i]? = some o) (ho : o.act = .reverse n1 n0 cl) : n0 < n1 :=
  step_C18_reverse (noTag_step h hi) ho

theorem step_C02_endReverse {cfg : Cfg} {x : XS} {o : Obs} (h : StepNo .C02 cfg x o)
    (ho : o.act = .endReverse) : x.ended = true ∧ x.r = cfg.N := by
  have ha := h.act
  rw [ho] at ha
  simp only [actViols] at ha
  have := (free_append.mp ha).1
  simpa [free_append, free_chk] using this

/-- after an `EndReverse` issued after `EndForward`, the stream has ended iff no further adjoint
calculation is permitted -/
theorem finished_after_endReverse (cfg : Cfg) (x : XS) (he : x.ended = true) :
    finished cfg (nextState cfg x .endReverse) = !permitsMore cfg (x.done + 1) := by
  unfold finished permitsMore
  rcases hp : cfg.passes with _ | k
  · rfl
  · rcases k with _ | k
    · simp [nextState, he]
    · simp only [nextState, hp]
      by_cases h : k + 1 ≤ x.done + 1
      · simp [h]; omega
      · simp [h]; omega

/-- (d) at every `EndReverse` all `cfg.N` steps have been reversed; afterwards `r` is reset iff
another adjoint calculation is permitted, and otherwise the stream has ended -/
theorem M3d_C02 {cfg : Cfg} {os : List Obs} (h : NoTag .C02 (run cfg os).2) {i : Nat} {o : Obs}
    (hi : os[i]? = some o) (ho : o.act = .endReverse) :
    (stAt cfg os i).r = cfg.N ∧
    (stAt cfg os (i+1)).r = (if permitsMore cfg ((stAt cfg os i).done + 1) then 0 else cfg.N) ∧
    finished cfg (stAt cfg os (i+1)) = !permitsMore cfg ((stAt cfg os i).done + 1) := by
  obtain ⟨h1, h2⟩ := step_C02_endReverse (noTag_step h hi) ho
  refine ⟨h2, ?_, ?_⟩
  · rw [stAt, stateAt_succ cfg hi, ho, nextState_r, ← stAt, h2]
  · rw [stAt, stateAt_succ cfg hi, ho]; exact finished_after_endReverse cfg _ h1

/-! ### the reversed intervals tile `[cfg.N - r, cfg.N)` -/

/-- bookkeeping of the intervals reversed in the current adjoint calculation, most recent first -/
def revAcc (l : List (Nat × Nat)) : Action → List (Nat × Nat)
  | .reverse n1 n0 _ => (n0, n1) :: l
  | .endReverse => []
  | _ => l

/-- the intervals `(n0, n1)` of the `Reverse` actions since the last `EndReverse`, most recent
first: a function of the stream alone -/
def revsSince (os : List Obs) : List (Nat × Nat) := os.foldl (fun l o => revAcc l o.act) []

/-- the intervals reversed in the current adjoint calculation before action `k` -/
def revsAt (os : List Obs) (k : Nat) : List (Nat × Nat) := revsSince (os.take k)

theorem revsAt_succ {os : List Obs} {k : Nat} {o : Obs} (h : os[k]? = some o) :
    revsAt os (k+1) = revAcc (revsAt os k) o.act := by
  simp [revsAt, revsSince, List.take_add_one, h]

/-- `l` (lowest interval first) tiles `[lo, hi)` with non-empty intervals, contiguously and in
order: `l = [(lo, b₁), (b₁, b₂), …, (bₘ, hi)]` -/
def Tiles : List (Nat × Nat) → Nat → Nat → Prop
  | [], lo, hi => lo = hi
  | (a, b) :: l, lo, hi => a = lo ∧ a < b ∧ Tiles l b hi

theorem Tiles.le : ∀ {l : List (Nat × Nat)} {lo hi : Nat}, Tiles l lo hi → lo ≤ hi
  | [], _, _, h => by simp [Tiles] at h; omega
  | (a, b) :: l, lo, hi, h => by
    obtain ⟨h1, h2, h3⟩ := h
    have := Tiles.le h3; omega

/-- the lengths of the tiles add up -/
theorem Tiles.sum : ∀ {l : List (Nat × Nat)} {lo hi : Nat}, Tiles l lo hi →
    (l.map (fun p => p.2 - p.1)).sum = hi - lo
  | [], _, _, h => by simp [Tiles] at h; simp [h]
  | (a, b) :: l, lo, hi, h => by
    obtain ⟨h1, h2, h3⟩ := h
    have := Tiles.le h3
    simp only [List.map_cons, List.sum_cons, Tiles.sum h3]; omega

/-- every step of `[lo, hi)` lies in a tile, and only those -/
theorem Tiles.mem_iff : ∀ {l : List (Nat × Nat)} {lo hi : Nat}, Tiles l lo hi → ∀ s,
    (lo ≤ s ∧ s < hi) ↔ ∃ p ∈ l, p.1 ≤ s ∧ s < p.2
  | [], _, _, h, s => by simp [Tiles] at h; simp; omega
  | (a, b) :: l, lo, hi, h, s => by
    obtain ⟨h1, h2, h3⟩ := h
    have hle := Tiles.le h3
    have ih := Tiles.mem_iff h3 s
    simp only [List.mem_cons, exists_eq_or_imp]
    rw [← ih]; omega

/-- the tiles are pairwise disjoint and ascending along the list (so: descending in time) -/
theorem Tiles.pairwise : ∀ {l : List (Nat × Nat)} {lo hi : Nat}, Tiles l lo hi →
    l.Pairwise (fun p q => p.2 ≤ q.1) ∧ ∀ q ∈ l, lo ≤ q.1 ∧ q.1 < q.2
  | [], _, _, _ => by simp
  | (a, b) :: l, lo, hi, h => by
    obtain ⟨h1, h2, h3⟩ := h
    obtain ⟨ih1, ih2⟩ := Tiles.pairwise h3
    refine ⟨List.pairwise_cons.mpr ⟨fun q hq => (ih2 q hq).1, ih1⟩, ?_⟩
    intro q hq
    rcases List.mem_cons.mp hq with rfl | hq
    · simp; omega
    · have := ih2 q hq; omega

/-- the order invariant of the adjoint calculation -/
def RevInv (cfg : Cfg) (x : XS) (l : List (Nat × Nat)) : Prop :=
  x.r ≤ cfg.N ∧ Tiles l (cfg.N - x.r) cfg.N

theorem step_RevInv {cfg : Cfg} {x : XS} {o : Obs} {l : List (Nat × Nat)}
    (h2 : StepNo .C02 cfg x o) (h18 : StepNo .C18 cfg x o) (hI : RevInv cfg x l)
    (hnf : finished cfg (nextState cfg x o.act) = false) :
    RevInv cfg (nextState cfg x o.act) (revAcc l o.act) := by
  obtain ⟨hr, ht⟩ := hI
  unfold RevInv
  rw [nextState_r]
  rcases hact : o.act with ⟨n0, n1, wi, wa, st⟩ | ⟨n1, n0, cl⟩ | ⟨n, src, dst⟩ | ⟨n, src, dst⟩ | _ | _
  · exact ⟨hr, ht⟩
  · obtain ⟨-, e1⟩ := step_C02_reverse h2 hact
    have e2 := step_C18_reverse h18 hact
    simp only [revAcc]
    refine ⟨by omega, by omega, e2, ?_⟩
    rw [e1]; exact ht
  · exact ⟨hr, ht⟩
  · exact ⟨hr, ht⟩
  · exact ⟨hr, ht⟩
  · obtain ⟨e1, e2⟩ := step_C02_endReverse h2 hact
    rw [hact, finished_after_endReverse cfg x e1] at hnf
    have hpm : permitsMore cfg (x.done + 1) = true := by simpa using hnf
    simp [hpm, revAcc, Tiles]

/-- (c), the invariant.  In a run without C02 and C18 violations, before every action (and at the
end, unless the stream has ended) `r ≤ N` and the `Reverse` intervals issued since the last
`EndReverse` tile `[N - r, N)` contiguously, each non-empty, in descending order of time. -/
theorem M3c_tiles_gen {cfg : Cfg} {os : List Obs} (h2 : NoTag .C02 (run cfg os).2)
    (h18 : NoTag .C18 (run cfg os).2) : ∀ k, k ≤ os.length → finished cfg (stAt cfg os k) = false →
    RevInv cfg (stAt cfg os k) (revsAt os k) := by
  intro k
  induction k with
  | zero => intro _ _; simp [RevInv, XS.init, revsAt, revsSince, Tiles]
  | succ k ih =>
    intro hk hnf
    obtain ⟨o, ho⟩ : ∃ o, os[k]? = some o := ⟨os[k], List.getElem?_eq_getElem (by omega)⟩
    have s2 := noTag_step h2 ho
    have s18 := noTag_step h18 ho
    have hI := ih (by omega) s2.not_finished
    rw [stAt, stateAt_succ cfg ho] at hnf ⊢
    rw [revsAt_succ ho]
    exact step_RevInv s2 s18 hI hnf

theorem M3c_tiles {cfg : Cfg} {os : List Obs} (h2 : NoTag .C02 (run cfg os).2)
    (h18 : NoTag .C18 (run cfg os).2) {i : Nat} {o : Obs} (hi : os[i]? = some o) :
    (stAt cfg os i).r ≤ cfg.N ∧ Tiles (revsAt os i) (cfg.N - (stAt cfg os i).r) cfg.N :=
  M3c_tiles_gen h2 h18 i (le_of_lt (List.getElem?_eq_some_iff.mp hi).1) (M3e_C02 h2 hi)

/-- (c) `r` is the total number of steps reversed in the current adjoint calculation -/
theorem M3c_r_eq_sum {cfg : Cfg} {os : List Obs} (h2 : NoTag .C02 (run cfg os).2)
    (h18 : NoTag .C18 (run cfg os).2) {i : Nat} {o : Obs} (hi : os[i]? = some o) :
    (stAt cfg os i).r = ((revsAt os i).map (fun p => p.2 - p.1)).sum := by
  obtain ⟨h1, ht⟩ := M3c_tiles h2 h18 hi
  rw [ht.sum]; omega

/-- (d) at every `EndReverse` the intervals reversed since the previous delimiter tile `[0, N)`:
every step has been reversed exactly once -/
theorem M3d_tiles {cfg : Cfg} {os : List Obs} (h2 : NoTag .C02 (run cfg os).2)
    (h18 : NoTag .C18 (run cfg os).2) {i : Nat} {o : Obs} (hi : os[i]? = some o)
    (ho : o.act = .endReverse) : Tiles (revsAt os i) 0 cfg.N := by
  have := (M3c_tiles h2 h18 hi).2
  rwa [(M3d_C02 h2 hi ho).1, Nat.sub_self] at this


/-! ## M5 (C12): working storage -/

theorem nextState_wDeps_forward (cfg : Cfg) (x : XS) (n0 n1 : Nat) (wi wa : Bool) (st : Storage) :
    (nextState cfg x (.forward n0 n1 wi wa st)).wDeps =
      if st = .work ∧ wa then some (n0, clip cfg x n1) else none := rfl

theorem nextState_wDeps_load (cfg : Cfg) (x : XS) (n : Nat) (src dst : Storage) {a : Action}
    (ha : a = .copy n src dst ∨ a = .move n src dst) :
    (nextState cfg x a).wDeps =
      match findCp x.cps n src with
      | none => x.wDeps
      | some c => if dst = .work then (if c.deps > 0 then some (n, n + c.deps) else none) else x.wDeps := by
  rcases ha with rfl | rfl <;>
  · simp only [nextState]
    rcases findCp x.cps n src with _ | c
    · rfl
    · by_cases hd : dst = .work <;> simp [hd]

/-- WORK holds adjoint data of at most one step -/
def OneStepDeps (x : XS) : Prop := ∀ a b, x.wDeps = some (a, b) → b = a + 1

/-- a `Forward` without C12 violation: once `max_n` is known it does not run into the part already
reversed; and (unless the schedule keeps all adjoint data in WORK) if it records adjoint data in
WORK, it is the single step next to be reversed -/
theorem step_C12_forward {cfg : Cfg} {x : XS} {o : Obs} {n0 n1 : Nat} {wi wa : Bool} {st : Storage}
    (h : StepNo .C12 cfg x o) (ho : o.act = .forward n0 n1 wi wa st) :
    (x.fin = true → n1 ≤ cfg.N - x.r) ∧
    (st = .work → wa = true → cfg.keepsAllDeps = false →
      clip cfg x n1 = n0 + 1 ∧ clip cfg x n1 = cfg.N - x.r) := by
  have ha := h.act
  rw [ho] at ha
  simp [actViols, free_append, free_chk, free_ite, free_nil] at ha
  refine ⟨fun hf => ?_, fun hs hw hk => ?_⟩
  · simpa [hf] using ha.1
  · simpa [hw, hk] using ha.2 hs

/-- a `Copy`/`Move` without C12 violation that finds its checkpoint: a load into WORK happens when
WORK holds neither restart nor adjoint data; a checkpoint without restart data is that of the step
next to be reversed -/
theorem step_C12_load {cfg : Cfg} {x : XS} {o : Obs} {n : Nat} {src dst : Storage} {c : Cp}
    (h : StepNo .C12 cfg x o) (ho : o.act = .copy n src dst ∨ o.act = .move n src dst)
    (hf : findCp x.cps n src = some c) :
    (dst = .work → x.wIcs = none ∧ x.wDeps = none) ∧ (c.ics = 0 → n + 1 = cfg.N - x.r) := by
  have ha := h.act
  have ha' : Free .C12 (actViols.loadViols cfg x n src dst) := by
    rcases ho with ho | ho <;> (rw [ho] at ha; exact ha)
  simp only [actViols.loadViols] at ha'
  simp [hf, free_append, free_chk, free_ite, free_nil] at ha'
  exact ⟨ha'.2, fun hc => ha'.1 (by omega)⟩

/-- one step preserves "WORK holds adjoint data of at most one step", given that stored
checkpoints hold at most one step of adjoint data (which is what C03 guarantees) -/
theorem step_C12_wDeps {cfg : Cfg} {x : XS} {o : Obs} (hk : cfg.keepsAllDeps = false)
    (h : StepNo .C12 cfg x o) (hw : ∀ c ∈ x.cps, c.deps ≤ 1) (hI : OneStepDeps x) :
    OneStepDeps (nextState cfg x o.act) := by
  intro a b
  rcases hact : o.act with ⟨n0, n1, wi, wa, st⟩ | ⟨n1, n0, cl⟩ | ⟨n, src, dst⟩ | ⟨n, src, dst⟩ | _ | _
  · rw [nextState_wDeps_forward]
    by_cases hc : st = .work ∧ wa = true
    · rw [if_pos hc]
      intro he
      simp only [Option.some.injEq, Prod.mk.injEq] at he
      have := ((step_C12_forward h hact).2 hc.1 hc.2 hk).1
      omega
    · rw [if_neg hc]; intro he; cases he
  · simp only [nextState]
    cases cl
    · exact hI a b
    · intro he; simp at he
  · rw [nextState_wDeps_load cfg x n src dst (Or.inl rfl)]
    rcases hf : findCp x.cps n src with _ | c
    · exact hI a b
    · have := hw c (findCp_some hf).1
      by_cases hd : dst = .work
      · simp only [hd, if_true]
        split
        · intro he; simp only [Option.some.injEq, Prod.mk.injEq] at he; omega
        · intro he; cases he
      · simp only [hd, if_false]; exact hI a b
  · rw [nextState_wDeps_load cfg x n src dst (Or.inr rfl)]
    rcases hf : findCp x.cps n src with _ | c
    · exact hI a b
    · have := hw c (findCp_some hf).1
      by_cases hd : dst = .work
      · simp only [hd, if_true]
        split
        · intro he; simp only [Option.some.injEq, Prod.mk.injEq] at he; omega
        · intro he; cases he
      · simp only [hd, if_false]; exact hI a b
  · exact hI a b
  · exact hI a b

/-- **M5 (C12).**  If the run records no C12 and no C03 violation and the schedule does not keep
all adjoint data in WORK, then after every prefix WORK holds adjoint data of at most one step.
`NoTag .C03` is needed: the C12 checks do not look at the size of a loaded checkpoint (see
`M5_needs_C03`). -/
theorem M5_C12 {cfg : Cfg} {os : List Obs} (h12 : NoTag .C12 (run cfg os).2)
    (h3 : NoTag .C03 (run cfg os).2) (hk : cfg.keepsAllDeps = false) (k : Nat) :
    ∀ a b, (stAt cfg os k).wDeps = some (a, b) → b = a + 1 := by
  have := inv_of_noTag₂
    (fun x => (withinBudget cfg x.cps = true ∧ ∀ c ∈ x.cps, CpWf c) ∧ OneStepDeps x)
    ⟨⟨withinBudget_nil cfg, by simp [XS.init]⟩, by simp [OneStepDeps, XS.init]⟩
    (fun y o hI s3 s12 => ⟨step_C03 s3 hI.1, step_C12_wDeps hk s12 (fun c hc => (hI.1.2 c hc).2) hI.2⟩)
    h3 h12 k
  exact this.2

/-- M5, loads: every checkpoint load into WORK happens when WORK holds no restart and no adjoint
data -/
theorem M5_C12_load {cfg : Cfg} {os : List Obs} (h12 : NoTag .C12 (run cfg os).2) {i : Nat} {o : Obs}
    {n : Nat} {src : Storage} {c : Cp} (hi : os[i]? = some o)
    (ho : o.act = .copy n src .work ∨ o.act = .move n src .work)
    (hf : findCp (stAt cfg os i).cps n src = some c) :
    (stAt cfg os i).wIcs = none ∧ (stAt cfg os i).wDeps = none :=
  (step_C12_load (noTag_step h12 hi) ho hf).1 rfl

/-- M5, forwards: once `max_n` is known no `Forward` ends beyond the part not yet reversed -/
theorem M5_C12_forward {cfg : Cfg} {os : List Obs} (h12 : NoTag .C12 (run cfg os).2) {i : Nat} {o : Obs}
    {n0 n1 : Nat} {wi wa : Bool} {st : Storage} (hi : os[i]? = some o)
    (ho : o.act = .forward n0 n1 wi wa st) (hfin : (stAt cfg os i).fin = true) :
    n1 ≤ cfg.N - (stAt cfg os i).r :=
  (step_C12_forward (noTag_step h12 hi) ho).1 hfin


/-- M1 over `statesFrom`: every state of the run -/
theorem M1_C03_states {cfg : Cfg} {os : List Obs} (h : NoTag .C03 (run cfg os).2) :
    ∀ x ∈ statesFrom cfg (XS.init cfg) os,
      withinBudget cfg x.cps = true ∧ ∀ c ∈ x.cps, ¬ (c.ics > 0 ∧ c.deps > 0) ∧ c.deps ≤ 1 := by
  intro x hx
  obtain ⟨p, hp, rfl⟩ := mem_statesFrom cfg |>.mp hx
  have := M1_C03 h p.length
  rwa [← prefix_state hp, run_fst_eq] at this

/-- M5, loads, with "the checkpoint is found" discharged by `NoTag .C01` -/
theorem M5_C12_load' {cfg : Cfg} {os : List Obs} (h12 : NoTag .C12 (run cfg os).2)
    (h1 : NoTag .C01 (run cfg os).2) {i : Nat} {o : Obs} {n : Nat} {src : Storage}
    (hi : os[i]? = some o) (ho : o.act = .copy n src .work ∨ o.act = .move n src .work) :
    (stAt cfg os i).wIcs = none ∧ (stAt cfg os i).wDeps = none := by
  obtain ⟨c, hf, -⟩ := M4_C01_load h1 hi ho
  exact M5_C12_load h12 hi ho hf

/-! ## Concrete instances

A complete, violation-free stream for `N = 2` with one RAM checkpoint: store restart data of step 0
in RAM, advance, turn, reverse step 1, move the checkpoint back, recompute step 0, reverse it. -/

def mExCfg : Cfg :=
  { N := 2, ram := some 1, disk := some 0, passes := some 1, keepsAllDeps := false, online := false }

def mExObs (a : Action) (n r : Nat) (exh : Bool := false) : Obs := ⟨a, n, r, some 2, exh, true⟩

def mExStream : List Obs :=
  [ mExObs (.forward 0 1 true false .ram) 1 0,
    mExObs (.forward 1 2 false true .work) 2 0,
    mExObs .endForward 2 0,
    mExObs (.reverse 2 1 true) 2 1,
    mExObs (.move 0 .ram .work) 0 1,
    mExObs (.forward 0 1 false true .work) 1 1,
    mExObs (.reverse 1 0 true) 1 2,
    mExObs .endReverse 1 2 true ]

example : (run mExCfg mExStream).2 = [] := by decide

/-- lifting lemma: a violation injected at position 3 is found there (Reverse of the wrong step) -/
example : (3, (⟨.C02, 2⟩ : Viol)) ∈
    (run mExCfg (mExStream.set 3 (mExObs (.reverse 1 0 true) 2 1))).2 := by
  refine (mem_runFrom mExCfg).mpr ⟨3, mExObs (.reverse 1 0 true) 2 1, by decide, by decide, rfl⟩

/-- M1 on the stream: before action 4 (the Move) RAM holds one restart checkpoint, within budget -/
example : withinBudget mExCfg (stAt mExCfg mExStream 4).cps = true ∧
    ∀ c ∈ (stAt mExCfg mExStream 4).cps, CpWf c := M1_C03 (by decide) 4
example : (stAt mExCfg mExStream 4).cps = [⟨0, .ram, 1, 0⟩] := by decide
example : countSt (run mExCfg (mExStream.take 4)).1.cps .ram ≤ 1 :=
  (M1_C03_prefix (cfg := mExCfg) (os := mExStream) (by decide) (List.take_prefix 4 _)).1 1 rfl

/-- M2 on the stream: storage is empty at the `EndReverse` (position 7) -/
example : (stAt mExCfg mExStream 7).cps = [] :=
  (M2_C04 (cfg := mExCfg) (os := mExStream) (by decide) (i := 7) rfl rfl).1 1 rfl
/-- ... and `snap` is the storage at the `EndForward` (position 2) -/
example : (stAt mExCfg mExStream 7).snap = (stAt mExCfg mExStream 2).cps :=
  snap_eq_cps_at_endForward mExCfg _ mExStream (j := 2) (k := 7) rfl rfl (by decide)
    (by intro i o' h1 h2 h3; interval_cases i <;> (cases h3; decide))

/-- M4 on the stream: the Move at position 4 finds restart data for `[0, 1)` covering what is left -/
example : ∃ c, findCp (stAt mExCfg mExStream 4).cps 0 .ram = some c ∧ c ∈ (stAt mExCfg mExStream 4).cps ∧
    c.n = 0 ∧ c.st = .ram ∧ (c.ics > 0 ∨ c.deps > 0) ∧ 0 < mExCfg.N - (stAt mExCfg mExStream 4).r ∧
    (c.ics > 0 → mExCfg.N - (stAt mExCfg mExStream 4).r ≤ 0 + c.ics) ∧
    (Storage.work.isStore = true → ∀ c' ∈ (stAt mExCfg mExStream 4).cps, ¬ (c'.n = 0 ∧ c'.st = .work)) :=
  M4_C01_load (cfg := mExCfg) (os := mExStream) (by decide) (i := 4) rfl (Or.inr rfl)
example : (stAt mExCfg mExStream 5).fwd = some 0 ∧
    (Storage.work.isStore = true → ∀ c ∈ (stAt mExCfg mExStream 5).cps, ¬ (c.n = 0 ∧ c.st = .work)) :=
  M4_C01_forward (cfg := mExCfg) (os := mExStream) (by decide) (i := 5) rfl rfl
example : covers (stAt mExCfg mExStream 6).wDeps 0 1 = true ∧
    ∃ a b, (stAt mExCfg mExStream 6).wDeps = some (a, b) ∧ a ≤ 0 ∧ 1 ≤ b :=
  M4_C01_reverse (cfg := mExCfg) (os := mExStream) (by decide) (i := 6) rfl rfl
example : (keys (stAt mExCfg mExStream 4).cps).Nodup ∧ (stAt mExCfg mExStream 4).cps.Nodup :=
  M4_keys_nodup (cfg := mExCfg) (os := mExStream) (by decide) 4

/-- M3 on the stream -/
example : (stAt mExCfg mExStream 2).ended = false ∧ (stAt mExCfg mExStream 2).fwd = some 2 ∧
    (stAt mExCfg mExStream 2).r = 0 :=
  M3b_C02 (cfg := mExCfg) (os := mExStream) (by decide) (i := 2) rfl rfl
example : (∃ j o', j < 6 ∧ mExStream[j]? = some o' ∧ o'.act = .endForward) ∧
    1 = mExCfg.N - (stAt mExCfg mExStream 6).r :=
  M3c_C02 (cfg := mExCfg) (os := mExStream) (by decide) (i := 6) rfl rfl
example : Tiles (revsAt mExStream 7) 0 mExCfg.N :=
  M3d_tiles (cfg := mExCfg) (os := mExStream) (by decide) (by decide) (i := 7) rfl rfl
example : revsAt mExStream 7 = [(0, 1), (1, 2)] := by decide
example : (stAt mExCfg mExStream 7).r = mExCfg.N ∧
    (stAt mExCfg mExStream 8).r = (if permitsMore mExCfg ((stAt mExCfg mExStream 7).done + 1) then 0 else mExCfg.N) ∧
    finished mExCfg (stAt mExCfg mExStream 8) = !permitsMore mExCfg ((stAt mExCfg mExStream 7).done + 1) :=
  M3d_C02 (cfg := mExCfg) (os := mExStream) (by decide) (i := 7) rfl rfl
/-- (e): one more action after the end is flagged C02.9 -/
example : (⟨.C02, 9⟩ : Viol) ∈ stepViols mExCfg (run mExCfg mExStream).1 (mExObs .endReverse 1 2 true) :=
  M3e_finished_flags _ (by decide)
example : ¬ NoTag .C02 (run mExCfg (mExStream ++ [mExObs .endReverse 1 2 true])).2 := by decide

/-- M5 on the stream -/
example : ∀ a b, (stAt mExCfg mExStream 6).wDeps = some (a, b) → b = a + 1 :=
  M5_C12 (cfg := mExCfg) (os := mExStream) (by decide) (by decide) rfl 6
example : (stAt mExCfg mExStream 6).wDeps = some (0, 1) := by decide
example : (stAt mExCfg mExStream 4).wIcs = none ∧ (stAt mExCfg mExStream 4).wDeps = none :=
  M5_C12_load' (cfg := mExCfg) (os := mExStream) (by decide) (by decide) (i := 4) rfl (Or.inr rfl)
example : 1 ≤ mExCfg.N - (stAt mExCfg mExStream 5).r :=
  M5_C12_forward (cfg := mExCfg) (os := mExStream) (by decide) (i := 5) rfl rfl (by decide)

/-! ### `NoTag .C03` is necessary in M5

A stream whose only violations are C03.1 and C03.2 (a RAM checkpoint holding restart data *and*
two steps of adjoint data), which records no C12 violation, and after which WORK holds adjoint data
of two steps: the C12 checks never look at the size of the adjoint data a Copy/Move loads. -/

def mCexCfg : Cfg :=
  { N := 2, ram := none, disk := none, passes := some 1, keepsAllDeps := false, online := false }

def mCexStream : List Obs :=
  [ mExObs (.forward 0 2 true true .ram) 2 0,
    mExObs .endForward 2 0,
    mExObs (.copy 0 .ram .work) 0 0 ]

theorem M5_needs_C03 :
    NoTag .C12 (run mCexCfg mCexStream).2 ∧
    (run mCexCfg mCexStream).2 = [(0, ⟨.C03, 1⟩), (0, ⟨.C03, 2⟩)] ∧
    (run mCexCfg mCexStream).1.wDeps = some (0, 2) := by decide


/-! ## Axiom audit -/

#print axioms mem_runFrom
#print axioms noTag_step
#print axioms inv_of_run
#print axioms mem_statesFrom
#print axioms M1_C03
#print axioms M1_C03_prefix
#print axioms M1_C03_states
#print axioms sameCps_iff
#print axioms sameCps_perm
#print axioms snap_eq_cps_at_endForward
#print axioms M2_C04
#print axioms M2_C04_restored
#print axioms M2_C04_perm
#print axioms step_C01_forward
#print axioms step_C01_load
#print axioms step_C01_reverse
#print axioms M4_C01_forward
#print axioms M4_C01_load
#print axioms M4_C01_reverse
#print axioms M4_keys_nodup
#print axioms M3a_C02
#print axioms M3b_C02
#print axioms M3b_C02_unique
#print axioms M3c_C02
#print axioms M3c_C18
#print axioms M3c_tiles
#print axioms M3c_r_eq_sum
#print axioms M3d_C02
#print axioms M3d_tiles
#print axioms M3e_finished_flags
#print axioms M3e_C02
#print axioms Tiles.sum
#print axioms Tiles.mem_iff
#print axioms Tiles.pairwise
#print axioms step_C12_forward
#print axioms step_C12_load
#print axioms M5_C12
#print axioms M5_C12_load
#print axioms M5_C12_load'
#print axioms M5_C12_forward
#print axioms M5_needs_C03

end Ckpt.Mean
