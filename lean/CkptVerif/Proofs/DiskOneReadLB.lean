import CkptVerif.Proofs.DiskOneReadPlans
import CkptVerif.Proofs.DiskCounterexamples
/-!
# DiskRevolve is optimal among all one-read streams

`diskOneReadOptimal`: every stream of observations that the checking executor accepts for
`cfgDiskRevolve cm N` (offline, `cm` RAM units, unbounded disk, one adjoint calculation), that is
complete, writes restart data only, and lies in the class `OneRead` (no `Copy` out of DISK, no
`Copy`/`Move` into DISK) costs at least the Disk-Revolve table value `optInfVal N cm c`.

Proof: backward induction along the stream with the potential of `Proofs/DiskOneReadPlans.lean`.
-/
namespace Ckpt.LB7
open Ckpt.GW Ckpt.RC Ckpt.Mean

/-- the tags under which forward states are available in an executor state -/
def AvX (x : XS) : Tag → Prop
  | .ram e => ∃ c ∈ x.cps, c.n = e ∧ c.st = .ram
  | .disk e => ∃ c ∈ x.cps, c.n = e ∧ c.st = .disk
  | .work e => x.fwd = some e

/-- what is assumed of the configuration -/
structure CfgD (cfg : Cfg) (cm : Nat) : Prop where
  ram : cfg.ram = some cm
  passes : cfg.passes = some 1
  keeps : cfg.keepsAllDeps = false
  offline : cfg.online = false

/-- invariant of the accepted prefixes -/
structure InvD (cfg : Cfg) (cm : Nat) (x : XS) : Prop where
  fin : x.fin = true
  r_le : x.r ≤ cfg.N
  cps : ∀ c ∈ x.cps, c.deps = 0 ∧ c.st.isStore = true
  ram : countSt x.cps .ram ≤ cm
  keys : (x.cps.map (fun c => (c.n, c.st))).Nodup
  deps : x.wDeps = none ∨ ∃ p, x.wDeps = some (p, p + 1) ∧ cfg.N - x.r ≤ p + 1 ∧
    (cfg.N - x.r = p + 1 → x.fwd = some (p + 1))
  done : 1 ≤ x.done → x.r = cfg.N ∧ x.cps = []

/-- the potential: a plan for the current state, the reads of the disk checkpoints still stored, and
the backward steps still to come, cost at most `n` -/
def PotD (cfg : Cfg) (cm : Nat) (c : Costs) (x : XS) (n : Nat) : Prop :=
  ∃ m, m + c.rd * countSt x.cps .disk + c.ub * (cfg.N - x.r) ≤ n ∧
    (Flagged cfg x → DReach c.uf (c.wd + c.rd) cm (AvX x) (cfg.N - x.r - 1) m) ∧
    (¬ Flagged cfg x → DReach c.uf (c.wd + c.rd) cm (AvX x) (cfg.N - x.r) m)

/-- the RAM tags of a state -/
def ramTags (x : XS) : List Tag := (x.cps.filter (fun c => c.st = .ram)).map (fun c => Tag.ram c.n)

theorem ramTags_length (x : XS) : (ramTags x).length = countSt x.cps .ram := by
  unfold ramTags countSt; rw [List.length_map]

theorem mem_ramTags {x : XS} {e : Nat} (h : AvX x (.ram e)) : Tag.ram e ∈ ramTags x := by
  obtain ⟨c, hc, hn, hs⟩ := h
  unfold ramTags
  exact List.mem_map.mpr ⟨c, List.mem_filter.mpr ⟨hc, by simp [hs]⟩, by rw [hn]⟩

/-- in a plan every tag lies below the adjoint -/
theorem planOk_tag_pos {cm a : Nat} {Av : Tag → Prop} {P : List Ent} (hP : PlanOk cm a Av P) :
    ∀ t ∈ tags P, t.pos < a := by
  intro t ht
  obtain ⟨A, E, C, rfl, hE⟩ := exists_of_tag_mem ht
  have hb := bases_lt hP.seq E (by simp)
  have hs := hP.src E (by simp)
  cases E with
  | ownH t' b => simp only [Ent.tag?, Option.some.injEq] at hE; subst hE; simp only [Ent.srcLe, Ent.base] at hs hb; omega
  | ownD t' b => simp only [Ent.tag?, Option.some.injEq] at hE; subst hE; simp only [Ent.srcLe, Ent.base] at hs hb; omega
  | dskN e b => simp only [Ent.tag?, Option.some.injEq] at hE; subst hE; simp only [Ent.srcLe, Ent.base, Tag.pos] at hs hb ⊢; omega
  | chH b => simp [Ent.tag?] at hE
  | chD b => simp [Ent.tag?] at hE

theorem dreach_restrict {uf wr cm a n : Nat} {Av : Tag → Prop} (h : DReach uf wr cm Av a n) :
    DReach uf wr cm (fun t => Av t ∧ t.pos < a) a n := by
  obtain ⟨P, hP, hv⟩ := h
  exact ⟨P, { hP with avail := fun t ht => ⟨hP.avail t ht, planOk_tag_pos hP t ht⟩ }, hv⟩

/-! ## the forward step -/

theorem fwd_clean2 {cfg : Cfg} {x : XS} {n0 n1 : Nat} {wi wa : Bool} {st : Storage}
    (h : actViols cfg x (.forward n0 n1 wi wa st) = []) (hs : st.isStore = true) :
    findCp x.cps n0 st = none := by
  simp only [actViols, List.append_eq_nil_iff, chk_nil_iff] at h
  obtain ⟨⟨_, h6⟩, _⟩ := h
  rw [if_pos hs] at h6
  simp only [List.append_eq_nil_iff, chk_nil_iff] at h6
  simpa using h6.1.2

theorem countSt_disk_cons (c : Cp) (cps : List Cp) :
    countSt (c :: cps) .disk = (if c.st = .disk then 1 else 0) + countSt cps .disk := countSt_cons c cps .disk

/-! ## a forward sweep at the level of plans -/

theorem tag_mem_of_mem {P : List Ent} {E : Ent} {t : Tag} (hE : E ∈ P) (ht : E.tag? = some t) : t ∈ tags P := by
  unfold tags; exact List.mem_filterMap.mpr ⟨E, hE, ht⟩

theorem no_dskN_of_own {cm a : Nat} {Av : Tag → Prop} {A C : List Ent} {e b : Nat}
    (hP : PlanOk cm a Av (A ++ .ownD (.disk e) b :: C)) :
    ∀ b', Ent.dskN e b' ∉ A ++ .ownD (.disk e) b :: C := by
  intro b' hm
  have hnd := hP.nodup
  rw [tags_replace] at hnd
  simp only [Ent.tag?, List.singleton_append] at hnd
  rw [List.nodup_append] at hnd
  obtain ⟨_, h2, h3⟩ := hnd
  rw [List.nodup_cons] at h2
  simp only [List.mem_append, List.mem_cons] at hm
  rcases hm with h | h | h
  · exact h3 (.disk e) (tag_mem_of_mem h rfl) (.disk e) (by simp) rfl
  · cases h
  · exact h2.1 (tag_mem_of_mem h rfl)

/-- **A forward** from the state in working storage at `f` to `f'`; the state `f` may be written to
RAM or to disk (tag `t1`). -/
theorem dreach_fwd {uf wr cm a m : Nat} {Av Av' : Tag → Prop} (f f' : Nat) (hff : f ≤ f') (t1 : Tag)
    (ht1 : t1.pos = f) (hne : t1 ≠ .work f') (h0 : Av (.work f))
    (hsub : ∀ t, Av' t → t = t1 ∨ t = .work f' ∨ (Av t ∧ t ≠ .work f))
    (h : DReach uf wr cm Av' a m) :
    DReach uf wr cm Av a (m + uf * (f' - f) + (if t1 = .disk f then wr else 0)) := by
  obtain ⟨P, hP, hv⟩ := h
  -- a disk checkpoint at `f` that is read at its turn is read at once instead
  have hstep : ∃ P₂, PlanOk cm a Av' P₂ ∧
      val uf wr cm P₂ a ≤ val uf wr cm P a + (if t1 = .disk f then wr else 0) ∧
      (∀ e b, Ent.dskN e b ∈ P₂ → Tag.disk e ≠ t1) := by
    by_cases hd : t1 = .disk f
    · by_cases hex : ∃ b, Ent.dskN f b ∈ P
      · obtain ⟨b, hb⟩ := hex
        obtain ⟨A, C, rfl⟩ := List.append_of_mem hb
        obtain ⟨q1, q2, _⟩ := dskN_to_ownD uf wr A C f b hP
        refine ⟨_, q1, by rw [if_pos hd]; exact q2, ?_⟩
        intro e b' hm heq
        rw [hd] at heq
        simp only [Tag.disk.injEq] at heq
        subst heq
        exact no_dskN_of_own q1 b' hm
      · refine ⟨P, hP, by omega, ?_⟩
        intro e b hm heq
        rw [hd] at heq
        simp only [Tag.disk.injEq] at heq
        subst heq
        exact hex ⟨b, hm⟩
    · refine ⟨P, hP, by omega, ?_⟩
      intro e b hm heq
      have hav := hP.avail _ (tag_mem_of_mem hm rfl)
      rcases hsub _ hav with h | h | h
      · -- `t1 = disk e`, and `pos t1 = f`
        rw [← heq] at ht1
        simp only [Tag.pos] at ht1
        subst ht1
        exact hd heq.symm
      · cases h
      · rw [heq] at h
        -- `t1` available in the old state is fine: but then it is not special
        have := hP.src _ hm
        rw [← heq] at ht1
        simp only [Tag.pos] at ht1
        subst ht1
        exact hd heq.symm
  obtain ⟨P₂, p1, p2, p3⟩ := hstep
  obtain ⟨P₃, r1, r2⟩ := merge_two uf wr (Av := Av) (.work f) t1 (.work f') (by rw [ht1]; rfl)
    (by rw [ht1]; exact hff) h0 hne P₂ p1
    (fun t ht => hsub t (p1.avail t ht))
    (fun e b hm => ⟨p3 e b hm, by simp⟩)
  refine ⟨P₃, r1, ?_⟩
  simp only [Tag.pos] at r2
  omega


theorem keys_findCp_none {cps : List Cp} {n : Nat} {st : Storage} (h : findCp cps n st = none) :
    (n, st) ∉ cps.map (fun c => (c.n, c.st)) := by
  rw [findCp_eq_none_iff] at h
  intro hm
  obtain ⟨c, hc, heq⟩ := List.mem_map.mp hm
  simp only [Prod.mk.injEq] at heq
  exact h c hc heq

theorem step_forward_D {cfg : Cfg} {cm : Nat} (H : CfgD cfg cm) (c : Costs) {x : XS}
    (hinv : InvD cfg cm x) {n0 n1 : Nat} {wi wa : Bool} {st : Storage}
    (h : actViols cfg x (.forward n0 n1 wi wa st) = [])
    (hnd : storesDeps (.forward n0 n1 wi wa st) = false) :
    InvD cfg cm (nextState cfg x (.forward n0 n1 wi wa st)) ∧
    ∀ n, PotD cfg cm c (nextState cfg x (.forward n0 n1 wi wa st)) n →
      PotD cfg cm c x (n + actCost c (.forward n0 n1 wi wa st)) := by
  obtain ⟨hlt, hfwd, hle, hstore, hwork⟩ := fwd_clean hinv.fin h
  have hclip : clip cfg x n1 = n1 := by simp [clip, hinv.fin]
  generalize hx' : nextState cfg x (.forward n0 n1 wi wa st) = x'
  have e_fwd : x'.fwd = some n1 := by rw [← hx']; simp only [nextState, hclip]
  have e_r : x'.r = x.r := by rw [← hx']; rfl
  have e_done : x'.done = x.done := by rw [← hx']; rfl
  have e_fin : x'.fin = true := by rw [← hx']; simp only [nextState, hinv.fin, Bool.true_or]
  have e_deps : x'.wDeps = if st = .work ∧ wa = true then some (n0, n1) else none := by
    rw [← hx']; simp only [nextState, hclip]
  have e_cps : x'.cps = if st.isStore = true
      then { n := n0, st := st, ics := if wi = true then n1 - n0 else 0,
             deps := if wa = true then n1 - n0 else 0 } :: x.cps else x.cps := by
    rw [← hx']; simp only [nextState, hclip]
  have hstore_false : st.isStore = true → wa = false := by
    intro hs
    simp only [storesDeps, hs, Bool.and_true] at hnd
    exact hnd
  have hInv : InvD cfg cm x' := by
    refine ⟨e_fin, by rw [e_r]; exact hinv.r_le, ?_, ?_, ?_, ?_, ?_⟩
    · intro c' hc'
      rw [e_cps] at hc'
      by_cases hs : st.isStore = true
      · rw [if_pos hs] at hc'
        rcases List.mem_cons.mp hc' with rfl | hc'
        · exact ⟨by simp [hstore_false hs], hs⟩
        · exact hinv.cps c' hc'
      · rw [if_neg hs] at hc'
        exact hinv.cps c' hc'
    · rw [e_cps]
      by_cases hs : st.isStore = true
      · rw [if_pos hs]
        have hb := (hstore hs).2
        rw [Mean.withinBudget_iff] at hb
        have := hb.1 cm H.ram
        rw [countSt_cons] at this ⊢
        exact this
      · rw [if_neg hs]; exact hinv.ram
    · rw [e_cps]
      by_cases hs : st.isStore = true
      · rw [if_pos hs, List.map_cons, List.nodup_cons]
        exact ⟨keys_findCp_none (fwd_clean2 h hs), hinv.keys⟩
      · rw [if_neg hs]; exact hinv.keys
    · rw [e_deps, e_r, e_fwd]
      by_cases hw : st = .work ∧ wa = true
      · rw [if_pos hw]
        obtain ⟨h1, h2⟩ := hwork hw.1 hw.2 H.keeps
        right
        exact ⟨n0, by rw [h1], by omega, fun _ => by rw [h1]⟩
      · rw [if_neg hw]; left; rfl
    · rw [e_done, e_r]
      intro hd
      have := (hinv.done hd).1
      omega
  refine ⟨hInv, ?_⟩
  intro n hp
  obtain ⟨m, hm, hp1, hp2⟩ := hp
  -- the state before is not flagged
  have hnf : ¬ Flagged cfg x := by
    rintro ⟨ha, hd⟩
    rcases hinv.deps with h0 | ⟨p, hp1, hp2, hp3⟩
    · rw [h0] at hd; cases hd
    · rw [hp1] at hd
      simp only [Option.some.injEq, Prod.mk.injEq] at hd
      have := hp3 (by omega)
      rw [hfwd] at this
      simp only [Option.some.injEq] at this
      omega
  have hw0 : AvX x (.work n0) := hfwd
  by_cases hw : st = .work ∧ wa = true
  · -- the turn-around
    obtain ⟨h1, h2⟩ := hwork hw.1 hw.2 H.keeps
    have hns : ¬ st.isStore = true := by rw [hw.1]; decide
    have hfl : Flagged cfg x' := by
      refine ⟨by rw [e_r]; omega, ?_⟩
      rw [e_deps, if_pos hw, e_r]
      have : cfg.N - x.r - 1 = n0 := by omega
      rw [this, ← h2]
    have hr := hp1 hfl
    rw [e_r] at hr hm
    have ecps : x'.cps = x.cps := by rw [e_cps, if_neg hns]
    rw [ecps] at hm
    have ea : cfg.N - x.r - 1 = n0 := by omega
    have hturn := dreach_turn c.uf (c.wd + c.rd) (Av := AvX x) (a := cfg.N - x.r) (by omega)
      (by rw [ea]; exact hw0) (ramTags x) (by rw [ramTags_length]; exact hinv.ram) ?_ (dreach_restrict hr)
    · refine ⟨m + c.uf, ?_, fun hf => absurd hf hnf, fun _ => hturn⟩
      have hcost : actCost c (.forward n0 n1 wi wa st) = c.uf := by
        simp only [actCost, hw.1]
        have : n1 - n0 = 1 := by omega
        rw [this]; simp
      rw [hcost]
      omega
    · intro t ht
      obtain ⟨hav, hpos⟩ := ht
      cases t with
      | ram e =>
        have : AvX x (.ram e) := by
          obtain ⟨c', hc', h⟩ := hav
          rw [ecps] at hc'
          exact ⟨c', hc', h⟩
        exact ⟨this, Or.inr (mem_ramTags this), by simp⟩
      | disk e =>
        have : AvX x (.disk e) := by
          obtain ⟨c', hc', h⟩ := hav
          rw [ecps] at hc'
          exact ⟨c', hc', h⟩
        exact ⟨this, Or.inl rfl, by simp⟩
      | work e =>
        exfalso
        have : x'.fwd = some e := hav
        rw [e_fwd] at this
        simp only [Option.some.injEq] at this
        simp only [Tag.pos] at hpos
        omega
  · -- an ordinary forward
    have hnf' : ¬ Flagged cfg x' := by
      rintro ⟨_, hd⟩
      rw [e_deps, if_neg hw] at hd
      cases hd
    have hr := hp2 hnf'
    rw [e_r] at hr hm
    -- the tag under which the state `n0` is stored
    have hsub : ∀ (t1 : Tag), (st = .ram → t1 = .ram n0) → (st = .disk → t1 = .disk n0) →
        ∀ t, AvX x' t → t = t1 ∨ t = .work n1 ∨ (AvX x t ∧ t ≠ .work n0) := by
      intro t1 hr1 hd1 t ht
      cases t with
      | work e =>
        have : x'.fwd = some e := ht
        rw [e_fwd] at this
        simp only [Option.some.injEq] at this
        subst this
        exact Or.inr (Or.inl rfl)
      | ram e =>
        obtain ⟨c', hc', hn, hs⟩ := ht
        rw [e_cps] at hc'
        by_cases hst : st.isStore = true
        · rw [if_pos hst] at hc'
          rcases List.mem_cons.mp hc' with rfl | hc'
          · simp only at hn hs
            left; rw [hr1 hs, hn]
          · exact Or.inr (Or.inr ⟨⟨c', hc', hn, hs⟩, by simp⟩)
        · rw [if_neg hst] at hc'
          exact Or.inr (Or.inr ⟨⟨c', hc', hn, hs⟩, by simp⟩)
      | disk e =>
        obtain ⟨c', hc', hn, hs⟩ := ht
        rw [e_cps] at hc'
        by_cases hst : st.isStore = true
        · rw [if_pos hst] at hc'
          rcases List.mem_cons.mp hc' with rfl | hc'
          · simp only at hn hs
            left; rw [hd1 hs, hn]
          · exact Or.inr (Or.inr ⟨⟨c', hc', hn, hs⟩, by simp⟩)
        · rw [if_neg hst] at hc'
          exact Or.inr (Or.inr ⟨⟨c', hc', hn, hs⟩, by simp⟩)
    by_cases hdisk : st = .disk
    · -- a disk checkpoint is written
      have hfw := dreach_fwd (uf := c.uf) (wr := c.wd + c.rd) (Av := AvX x) n0 n1 (by omega) (.disk n0) rfl
        (by simp) hw0 (hsub (.disk n0) (fun h => by rw [hdisk] at h; cases h) (fun _ => rfl)) hr
      rw [if_pos rfl] at hfw
      refine ⟨_, ?_, fun hf => absurd hf hnf, fun _ => hfw⟩
      have hst : st.isStore = true := by rw [hdisk]; rfl
      rw [e_cps, if_pos hst, countSt_disk_cons] at hm
      simp only [hdisk, if_true] at hm
      simp only [actCost, hdisk, if_true]
      have e1 : c.rd * (1 + countSt x.cps .disk) = c.rd + c.rd * countSt x.cps .disk := by ring
      have e2 : c.uf * (n1 - n0) = (n1 - n0) * c.uf := Nat.mul_comm _ _
      omega
    · have hfw := dreach_fwd (uf := c.uf) (wr := c.wd + c.rd) (Av := AvX x) n0 n1 (by omega) (.ram n0) rfl
        (by simp) hw0 (hsub (.ram n0) (fun _ => rfl) (fun h => absurd h hdisk)) hr
      rw [if_neg (by simp)] at hfw
      refine ⟨_, ?_, fun hf => absurd hf hnf, fun _ => hfw⟩
      have hcd : countSt x'.cps .disk = countSt x.cps .disk := by
        rw [e_cps]
        by_cases hst : st.isStore = true
        · rw [if_pos hst, countSt_disk_cons]
          simp only [hdisk, if_false, Nat.zero_add]
        · rw [if_neg hst]
      rw [hcd] at hm
      simp only [actCost, hdisk, if_false]
      have e2 : c.uf * (n1 - n0) = (n1 - n0) * c.uf := Nat.mul_comm _ _
      omega


/-! ## reverse, end of the forward calculation, end of the adjoint calculation -/

theorem dreach_congr {uf wr cm a m : Nat} {Av Av' : Tag → Prop} (h : ∀ t, Av' t → Av t)
    (hr : DReach uf wr cm Av' a m) : DReach uf wr cm Av a m := dreach_mono uf wr h hr

theorem AvX_of_eq {x x' : XS} (hc : x'.cps = x.cps) (hf : x'.fwd = x.fwd) : ∀ t, AvX x' t → AvX x t := by
  intro t ht
  cases t with
  | ram e => obtain ⟨c, hc', h⟩ := ht; rw [hc] at hc'; exact ⟨c, hc', h⟩
  | disk e => obtain ⟨c, hc', h⟩ := ht; rw [hc] at hc'; exact ⟨c, hc', h⟩
  | work e => have : x'.fwd = some e := ht; rw [hf] at this; exact this

theorem step_reverse_D {cfg : Cfg} {cm : Nat} (c : Costs) {x : XS} (hinv : InvD cfg cm x)
    {n1 n0 : Nat} {cl : Bool} (h : actViols cfg x (.reverse n1 n0 cl) = []) :
    InvD cfg cm (nextState cfg x (.reverse n1 n0 cl)) ∧
    ∀ n, PotD cfg cm c (nextState cfg x (.reverse n1 n0 cl)) n →
      PotD cfg cm c x (n + actCost c (.reverse n1 n0 cl)) := by
  simp only [actViols, List.append_eq_nil_iff, chk_nil_iff, decide_eq_true_eq] at h
  obtain ⟨⟨⟨hlt, _⟩, hn1⟩, hcov⟩ := h
  obtain ⟨p, q, hw, hp, hq⟩ := covers_iff.mp hcov
  rcases hinv.deps with h0 | ⟨p', hw', hle', hfw'⟩
  · rw [h0] at hw; cases hw
  rw [hw'] at hw
  simp only [Option.some.injEq, Prod.mk.injEq] at hw
  obtain ⟨rfl, rfl⟩ := hw
  have ha : cfg.N - x.r = p' + 1 := by omega
  have hn0 : n0 = p' := by omega
  have hfl : Flagged cfg x := ⟨by omega, by rw [hw', ha]; rfl⟩
  generalize hx' : nextState cfg x (.reverse n1 n0 cl) = x'
  have e_r : x'.r = x.r + 1 := by rw [← hx']; show x.r + (n1 - n0) = _; omega
  have e_cps : x'.cps = x.cps := by rw [← hx']; rfl
  have e_fwd : x'.fwd = x.fwd := by rw [← hx']; rfl
  have e_fin : x'.fin = x.fin := by rw [← hx']; rfl
  have e_done : x'.done = x.done := by rw [← hx']; rfl
  have e_deps : x'.wDeps = if cl = true then none else x.wDeps := by rw [← hx']; rfl
  have hnf' : ¬ Flagged cfg x' := by
    rintro ⟨h1, h2⟩
    rw [e_deps] at h2
    split at h2
    · cases h2
    · rw [hw', e_r] at h2
      simp only [Option.some.injEq, Prod.mk.injEq] at h2
      omega
  refine ⟨⟨by rw [e_fin]; exact hinv.fin, by rw [e_r]; omega, by rw [e_cps]; exact hinv.cps,
    by rw [e_cps]; exact hinv.ram, by rw [e_cps]; exact hinv.keys, ?_, ?_⟩, ?_⟩
  · rw [e_deps]
    split
    · left; rfl
    · right
      exact ⟨p', hw', by rw [e_r]; omega, by rw [e_r]; intro h; omega⟩
  · rw [e_done, e_r, e_cps]
    intro hd
    have := hinv.done hd
    omega
  · intro n hp
    obtain ⟨m, hm, _, hp2⟩ := hp
    have hr := hp2 hnf'
    rw [e_r, e_cps] at hm
    rw [e_r] at hr
    have e : cfg.N - (x.r + 1) = cfg.N - x.r - 1 := by omega
    rw [e] at hr hm
    refine ⟨m, ?_, fun _ => dreach_congr (AvX_of_eq e_cps e_fwd) hr, fun hf => absurd hfl hf⟩
    have hcost : actCost c (.reverse n1 n0 cl) = c.ub := by
      simp only [actCost]
      have : n1 - n0 = 1 := by omega
      rw [this]; simp
    rw [hcost]
    have e2 : c.ub * (cfg.N - x.r) = c.ub * (cfg.N - x.r - 1) + c.ub := by
      have : cfg.N - x.r = (cfg.N - x.r - 1) + 1 := by omega
      rw [this, Nat.mul_add]; simp
    omega

/-- an action that changes neither the adjoint position nor what is available -/
theorem step_same_D {cfg : Cfg} {cm : Nat} (c : Costs) {x x' : XS} (hinv : InvD cfg cm x)
    (hr : x'.r = x.r) (hfin : x'.fin = x.fin) (hcps : x'.cps = x.cps) (hfwd : x'.fwd = x.fwd)
    (hdeps : x'.wDeps = x.wDeps) (hdone : 1 ≤ x'.done → x.r = cfg.N ∧ x.cps = []) :
    InvD cfg cm x' ∧ ∀ n, PotD cfg cm c x' n → PotD cfg cm c x n := by
  have hfl : Flagged cfg x' ↔ Flagged cfg x := by unfold Flagged; rw [hr, hdeps]
  refine ⟨⟨by rw [hfin]; exact hinv.fin, by rw [hr]; exact hinv.r_le, by rw [hcps]; exact hinv.cps,
    by rw [hcps]; exact hinv.ram, by rw [hcps]; exact hinv.keys, by rw [hdeps, hr, hfwd]; exact hinv.deps,
    by rw [hr, hcps]; exact hdone⟩, ?_⟩
  intro n hp
  obtain ⟨m, hm, hp1, hp2⟩ := hp
  rw [hr, hcps] at hm
  refine ⟨m, hm, fun hf => ?_, fun hf => ?_⟩
  · have := hp1 (hfl.mpr hf)
    rw [hr] at this
    exact dreach_congr (AvX_of_eq hcps hfwd) this
  · have := hp2 (fun h => hf (hfl.mp h))
    rw [hr] at this
    exact dreach_congr (AvX_of_eq hcps hfwd) this

theorem step_endForward_D {cfg : Cfg} {cm : Nat} (c : Costs) {x : XS} (hinv : InvD cfg cm x) :
    InvD cfg cm (nextState cfg x .endForward) ∧
    ∀ n, PotD cfg cm c (nextState cfg x .endForward) n → PotD cfg cm c x (n + actCost c .endForward) :=
  step_same_D c hinv rfl rfl rfl rfl rfl hinv.done

theorem step_endReverse_D {cfg : Cfg} {cm : Nat} (H : CfgD cfg cm) (c : Costs) {x : XS}
    (hinv : InvD cfg cm x) (h : actViols cfg x .endReverse = []) :
    InvD cfg cm (nextState cfg x .endReverse) ∧
    ∀ n, PotD cfg cm c (nextState cfg x .endReverse) n → PotD cfg cm c x (n + actCost c .endReverse) := by
  simp only [actViols, List.append_eq_nil_iff, chk_nil_iff, decide_eq_true_eq] at h
  obtain ⟨⟨_, hr⟩, he⟩ := h
  rw [H.passes] at he
  simp only [chk_nil_iff, List.isEmpty_iff] at he
  have e : nextState cfg x .endReverse = { x with done := x.done + 1 } := by
    simp only [nextState, H.passes]
    have : decide (x.done + 1 < 1) = false := by simp
    rw [this]
    rfl
  rw [e]
  exact step_same_D c hinv rfl rfl rfl rfl rfl (fun _ => ⟨hr, he⟩)


/-! ## copy and move -/

theorem dreach_merge {uf wr cm a m : Nat} {Av Av' : Tag → Prop} (t0 t1 t2 : Tag)
    (h01 : t0.pos = t1.pos) (h12 : t1.pos ≤ t2.pos) (h0 : Av t0) (hne : t1 ≠ t2)
    (hsub : ∀ t, Av' t → t = t1 ∨ t = t2 ∨ (Av t ∧ t ≠ t0))
    (hN : ∀ e, Av' (.disk e) → Tag.disk e ≠ t1 ∧ Tag.disk e ≠ t2)
    (h : DReach uf wr cm Av' a m) : DReach uf wr cm Av a (m + uf * (t2.pos - t0.pos)) := by
  obtain ⟨P, hP, hv⟩ := h
  obtain ⟨P₁, r1, r2⟩ := merge_two uf wr (Av := Av) t0 t1 t2 h01 h12 h0 hne P hP
    (fun t ht => hsub t (hP.avail t ht))
    (fun e b hm => hN e (hP.avail _ (tag_mem_of_mem hm rfl)))
  exact ⟨P₁, r1, by omega⟩

theorem load_clean2 {cfg : Cfg} {x : XS} {n : Nat} {src dst : Storage}
    (h : actViols.loadViols cfg x n src dst = []) :
    src.isStore = true ∧ ∃ c, findCp x.cps n src = some c ∧ (dst = .work → x.wDeps = none) ∧
      (dst.isStore = true → findCp x.cps n dst = none ∧
        withinBudget cfg ({ c with st := dst } :: x.cps) = true) := by
  simp only [actViols.loadViols, List.append_eq_nil_iff, chk_nil_iff] at h
  obtain ⟨⟨hs, _⟩, h3⟩ := h
  refine ⟨hs, ?_⟩
  cases hf : findCp x.cps n src with
  | none => rw [hf] at h3; cases h3
  | some c =>
    rw [hf] at h3
    simp only [List.append_eq_nil_iff, chk_nil_iff] at h3
    obtain ⟨⟨_, h4⟩, h5⟩ := h3
    refine ⟨c, rfl, ?_, ?_⟩
    · intro hd
      rw [if_pos hd, chk_nil_iff, Bool.and_eq_true] at h4
      simpa using h4.2
    · intro hd
      rw [if_pos hd] at h5
      simp only [List.append_eq_nil_iff, chk_nil_iff] at h5
      exact ⟨by simpa using h5.1, h5.2⟩

theorem countSt_erase_other (cps : List Cp) (n : Nat) (s s' : Storage) (h : s ≠ s') :
    countSt (eraseCp cps n s) s' = countSt cps s' := by
  induction cps with
  | nil => rfl
  | cons c cps ih =>
    unfold eraseCp at ih ⊢
    rw [List.filter_cons]
    by_cases hc : c.n = n ∧ c.st = s
    · have : c.st ≠ s' := by rw [hc.2]; exact h
      simp only [hc, and_self, not_true_eq_false, decide_false, Bool.false_eq_true, if_false]
      rw [countSt_cons, if_neg this, ih]; omega
    · simp only [hc, not_false_eq_true, decide_true, if_true]
      rw [countSt_cons, countSt_cons, ih]

theorem countSt_erase_self : ∀ (cps : List Cp) (n : Nat) (s : Storage),
    (cps.map (fun c => (c.n, c.st))).Nodup → (∃ c ∈ cps, c.n = n ∧ c.st = s) →
    countSt (eraseCp cps n s) s + 1 = countSt cps s := by
  intro cps
  induction cps with
  | nil => intro n s _ ⟨c, hc, _⟩; cases hc
  | cons d cps ih =>
    intro n s hnd hex
    rw [List.map_cons, List.nodup_cons] at hnd
    unfold eraseCp
    rw [List.filter_cons]
    by_cases hd : d.n = n ∧ d.st = s
    · simp only [hd, and_self, not_true_eq_false, decide_false, Bool.false_eq_true, if_false]
      have hall : cps.filter (fun c => decide ¬(c.n = n ∧ c.st = s)) = cps := by
        rw [List.filter_eq_self]
        intro c hc
        simp only [decide_not, Bool.not_eq_eq_eq_not, Bool.not_true, decide_eq_false_iff_not]
        intro hcn
        apply hnd.1
        rw [hd.1, hd.2]
        exact List.mem_map.mpr ⟨c, hc, by rw [hcn.1, hcn.2]⟩
      rw [hall, countSt_cons, if_pos hd.2]; omega
    · simp only [hd, not_false_eq_true, decide_true, if_true]
      obtain ⟨c, hc, hcn⟩ := hex
      have hc' : c ∈ cps := by
        rcases List.mem_cons.mp hc with rfl | h
        · exact absurd hcn hd
        · exact h
      have := ih n s hnd.2 ⟨c, hc', hcn⟩
      unfold eraseCp at this
      rw [countSt_cons, countSt_cons]
      omega

theorem keys_erase (cps : List Cp) (n : Nat) (s : Storage)
    (h : (cps.map (fun c => (c.n, c.st))).Nodup) :
    ((eraseCp cps n s).map (fun c => (c.n, c.st))).Nodup := by
  unfold eraseCp
  exact h.sublist (List.Sublist.map _ (List.filter_sublist))

/-- `Copy` and `Move` at once: `cps0` is what is left of the stored checkpoints -/
theorem step_load_D {cfg : Cfg} {cm : Nat} (H : CfgD cfg cm) (c : Costs) {x : XS} (hinv : InvD cfg cm x)
    {n : Nat} {src dst : Storage} {cp : Cp} (hcm : cp ∈ x.cps) (hcn : cp.n = n) (hcs : cp.st = src)
    (hdd : dst ≠ .disk) (hwork : dst = .work → x.wDeps = none)
    (hstore : dst.isStore = true → findCp x.cps n dst = none ∧
      withinBudget cfg ({ cp with st := dst } :: x.cps) = true)
    (cps0 : List Cp) (hsub : ∀ c' ∈ cps0, c' ∈ x.cps) (hcount : ∀ s', countSt cps0 s' ≤ countSt x.cps s')
    (hkeys : (cps0.map (fun c => (c.n, c.st))).Nodup)
    (cost : Nat)
    (hcost : (cps0 = x.cps ∧ src = .ram ∧ cost = 0) ∨
      (cps0 = eraseCp x.cps n src ∧ cost = (if src = .disk then c.rd else 0)))
    (x' : XS)
    (hx' : x' = if dst = .work then
        { x with cps := if dst.isStore then { cp with st := dst } :: cps0 else cps0,
                 fwd := if cp.ics > 0 then some n else none,
                 wIcs := if cp.ics > 0 then some (n, n + cp.ics) else none,
                 wDeps := if cp.deps > 0 then some (n, n + cp.deps) else none }
      else { x with cps := if dst.isStore then { cp with st := dst } :: cps0 else cps0 }) :
    InvD cfg cm x' ∧ ∀ m, PotD cfg cm c x' m → PotD cfg cm c x (m + cost) := by
  have hd0 := (hinv.cps cp hcm).1
  have hsrcstore : src.isStore = true := by rw [← hcs]; exact (hinv.cps cp hcm).2
  have hcps0 : ∀ c' ∈ cps0, c'.deps = 0 ∧ c'.st.isStore = true := fun c' hc' => hinv.cps c' (hsub c' hc')
  -- the stored checkpoints afterwards
  have e_cps : x'.cps = if dst.isStore then { cp with st := dst } :: cps0 else cps0 := by
    rw [hx']; split <;> rfl
  have e_r : x'.r = x.r := by rw [hx']; split <;> rfl
  have e_fin : x'.fin = x.fin := by rw [hx']; split <;> rfl
  have e_done : x'.done = x.done := by rw [hx']; split <;> rfl
  have e_fwd : x'.fwd = if dst = .work then (if cp.ics > 0 then some n else none) else x.fwd := by
    rw [hx']; split <;> rfl
  have e_deps : x'.wDeps = if dst = .work then none else x.wDeps := by
    rw [hx']; split
    · simp [hd0]
    · rfl
  have hfl : Flagged cfg x' ↔ Flagged cfg x := by
    unfold Flagged
    rw [e_r, e_deps]
    by_cases hdw : dst = .work
    · rw [if_pos hdw, hwork hdw]
    · rw [if_neg hdw]
  -- the number of disk checkpoints
  have hdisk : c.rd * countSt x.cps .disk ≤ c.rd * countSt x'.cps .disk + cost := by
    have hnew : countSt x'.cps .disk = countSt cps0 .disk := by
      rw [e_cps]
      by_cases hs : dst.isStore = true
      · rw [if_pos hs, countSt_disk_cons]
        simp only [hdd, if_false, Nat.zero_add]
      · rw [if_neg hs]
    rcases hcost with ⟨h1, _, _⟩ | ⟨h1, h3⟩
    · rw [hnew, h1]; omega
    · rw [hnew, h1, h3]
      by_cases hsd : src = .disk
      · rw [if_pos hsd, hsd]
        have := countSt_erase_self x.cps n .disk hinv.keys ⟨cp, hcm, hcn, by rw [hcs, hsd]⟩
        rw [← this, Nat.mul_add]
        omega
      · rw [if_neg hsd, countSt_erase_other x.cps n src .disk hsd]
        omega
  have hInv : InvD cfg cm x' := by
    refine ⟨by rw [e_fin]; exact hinv.fin, by rw [e_r]; exact hinv.r_le, ?_, ?_, ?_, ?_, ?_⟩
    · intro c' hc'
      rw [e_cps] at hc'
      by_cases hs : dst.isStore = true
      · rw [if_pos hs] at hc'
        rcases List.mem_cons.mp hc' with rfl | hc'
        · exact ⟨hd0, hs⟩
        · exact hcps0 c' hc'
      · rw [if_neg hs] at hc'; exact hcps0 c' hc'
    · rw [e_cps]
      by_cases hs : dst.isStore = true
      · rw [if_pos hs]
        have hb := (hstore hs).2
        rw [Mean.withinBudget_iff] at hb
        have := hb.1 cm H.ram
        rw [countSt_cons] at this ⊢
        have := hcount .ram
        omega
      · rw [if_neg hs]; exact le_trans (hcount .ram) hinv.ram
    · rw [e_cps]
      by_cases hs : dst.isStore = true
      · rw [if_pos hs, List.map_cons, List.nodup_cons]
        refine ⟨?_, hkeys⟩
        intro hm
        obtain ⟨c', hc', heq⟩ := List.mem_map.mp hm
        exact keys_findCp_none (hstore hs).1 (List.mem_map.mpr ⟨c', hsub c' hc', by rw [heq, hcn]⟩)
      · rw [if_neg hs]; exact hkeys
    · rw [e_deps, e_r, e_fwd]
      by_cases hdw : dst = .work
      · rw [if_pos hdw]; left; rfl
      · rw [if_neg hdw, if_neg hdw]; exact hinv.deps
    · rw [e_done, e_r]
      intro hd
      have := (hinv.done hd).2
      rw [this] at hcm
      cases hcm
  refine ⟨hInv, ?_⟩
  intro m hp
  obtain ⟨m0, hm, hp1, hp2⟩ := hp
  rw [e_r] at hm
  -- what is available afterwards
  have hram : ∀ e, AvX x' (.ram e) → (dst = .ram ∧ e = n) ∨ (∃ c' ∈ cps0, c'.n = e ∧ c'.st = .ram) := by
    intro e ⟨c', hc', hn, hs⟩
    rw [e_cps] at hc'
    by_cases hst : dst.isStore = true
    · rw [if_pos hst] at hc'
      rcases List.mem_cons.mp hc' with rfl | hc'
      · left; exact ⟨hs, by rw [← hn, ← hcn]⟩
      · right; exact ⟨c', hc', hn, hs⟩
    · rw [if_neg hst] at hc'
      right; exact ⟨c', hc', hn, hs⟩
  have hdsk : ∀ e, AvX x' (.disk e) → ∃ c' ∈ cps0, c'.n = e ∧ c'.st = .disk := by
    intro e ⟨c', hc', hn, hs⟩
    rw [e_cps] at hc'
    by_cases hst : dst.isStore = true
    · rw [if_pos hst] at hc'
      rcases List.mem_cons.mp hc' with rfl | hc'
      · exact absurd hs hdd
      · exact ⟨c', hc', hn, hs⟩
    · rw [if_neg hst] at hc'
      exact ⟨c', hc', hn, hs⟩
  have hwk : ∀ e, AvX x' (.work e) → (dst = .work ∧ e = n) ∨ (dst ≠ .work ∧ x.fwd = some e) := by
    intro e he
    have : x'.fwd = some e := he
    rw [e_fwd] at this
    by_cases hdw : dst = .work
    · rw [if_pos hdw] at this
      left
      split at this
      · simp only [Option.some.injEq] at this; exact ⟨hdw, this.symm⟩
      · cases this
    · rw [if_neg hdw] at this
      right; exact ⟨hdw, this⟩
  -- the key fact on plans
  have hkey : ∀ a m1, DReach c.uf (c.wd + c.rd) cm (AvX x') a m1 →
      DReach c.uf (c.wd + c.rd) cm (AvX x) a m1 := by
    intro a m1 hr
    -- the tag of the checkpoint that is loaded
    by_cases hsd : src = .disk
    · -- from disk: a move
      have hce : cps0 = eraseCp x.cps n src := by
        rcases hcost with ⟨_, h2, _⟩ | ⟨h1, _⟩
        · rw [hsd] at h2; cases h2
        · exact h1
      have hne_n : ∀ c' ∈ cps0, c'.st = .disk → c'.n ≠ n := by
        intro c' hc' hs hn
        rw [hce] at hc'
        unfold eraseCp at hc'
        have := (List.mem_filter.mp hc').2
        simp only [decide_not, Bool.not_eq_eq_eq_not, Bool.not_true, decide_eq_false_iff_not] at this
        exact this ⟨hn, by rw [hs, hsd]⟩
      have h0 : AvX x (.disk n) := ⟨cp, hcm, hcn, by rw [hcs, hsd]⟩
      have hm := dreach_merge (uf := c.uf) (wr := c.wd + c.rd) (Av := AvX x) (.disk n) (.disk n)
        (if dst = .ram then .ram n else .work n) rfl (by split <;> exact le_refl _) h0 (by split <;> simp)
        ?_ ?_ hr
      · have e0 : (if dst = Storage.ram then Tag.ram n else Tag.work n).pos - (Tag.disk n).pos = 0 := by
          split <;> simp [Tag.pos]
        rw [e0] at hm
        simpa using hm
      · intro t ht
        cases t with
        | ram e =>
          rcases hram e ht with ⟨h1, h2⟩ | ⟨c', hc', h⟩
          · right; left; rw [if_pos h1, h2]
          · right; right; exact ⟨⟨c', hsub c' hc', h⟩, by simp⟩
        | disk e =>
          obtain ⟨c', hc', hn, hs⟩ := hdsk e ht
          right; right
          refine ⟨⟨c', hsub c' hc', hn, hs⟩, ?_⟩
          intro heq
          simp only [Tag.disk.injEq] at heq
          exact hne_n c' hc' hs (by rw [hn, heq])
        | work e =>
          rcases hwk e ht with ⟨h1, h2⟩ | ⟨h1, h2⟩
          · right; left
            have : dst ≠ .ram := by rw [h1]; simp
            rw [if_neg this, h2]
          · right; right; exact ⟨h2, by simp⟩
      · intro e he
        obtain ⟨c', hc', hn, hs⟩ := hdsk e he
        refine ⟨?_, by split <;> simp⟩
        intro heq
        simp only [Tag.disk.injEq] at heq
        exact hne_n c' hc' hs (by rw [hn, heq])
    · -- from RAM
      have hsr : src = .ram := by
        cases src <;> simp_all [Storage.isStore]
      have h0 : AvX x (.ram n) := ⟨cp, hcm, hcn, by rw [hcs, hsr]⟩
      have hm := dreach_merge (uf := c.uf) (wr := c.wd + c.rd) (Av := AvX x) (.ram n) (.ram n) (.work n)
        rfl (le_refl _) h0 (by simp) ?_ ?_ hr
      · simpa [Tag.pos] using hm
      · intro t ht
        cases t with
        | ram e =>
          rcases hram e ht with ⟨_, h2⟩ | ⟨c', hc', h⟩
          · left; rw [h2]
          · by_cases hen : e = n
            · left; rw [hen]
            · right; right
              exact ⟨⟨c', hsub c' hc', h⟩, by simp [hen]⟩
        | disk e =>
          obtain ⟨c', hc', h⟩ := hdsk e ht
          right; right; exact ⟨⟨c', hsub c' hc', h⟩, by simp⟩
        | work e =>
          rcases hwk e ht with ⟨_, h2⟩ | ⟨_, h2⟩
          · right; left; rw [h2]
          · right; right; exact ⟨h2, by simp⟩
      · intro e _
        exact ⟨by simp, by simp⟩
  refine ⟨m0, by omega, fun hf => ?_, fun hf => ?_⟩
  · have := hp1 (hfl.mpr hf)
    rw [e_r] at this
    exact hkey _ _ this
  · have := hp2 (fun h => hf (hfl.mp h))
    rw [e_r] at this
    exact hkey _ _ this


theorem step_copy_D {cfg : Cfg} {cm : Nat} (H : CfgD cfg cm) (c : Costs) {x : XS} (hinv : InvD cfg cm x)
    {n : Nat} {src dst : Storage} (h : actViols cfg x (.copy n src dst) = [])
    (h1 : copiesFromDisk (.copy n src dst) = false) (h2 : transfersToDisk (.copy n src dst) = false) :
    InvD cfg cm (nextState cfg x (.copy n src dst)) ∧
    ∀ m, PotD cfg cm c (nextState cfg x (.copy n src dst)) m →
      PotD cfg cm c x (m + actCost c (.copy n src dst)) := by
  obtain ⟨hs, cp, hf, hwork, hstore⟩ := load_clean2 (show actViols.loadViols cfg x n src dst = [] from h)
  obtain ⟨hcm, hcn, hcs⟩ := findCp_some hf
  have hsd : src ≠ .disk := by simpa [copiesFromDisk] using h1
  have hdd : dst ≠ .disk := by simpa [transfersToDisk] using h2
  have hsr : src = .ram := by cases src <;> simp_all [Storage.isStore]
  have hcost : actCost c (.copy n src dst) = 0 := by simp [actCost, hsd]
  rw [hcost]
  exact step_load_D H c hinv hcm hcn hcs hdd hwork hstore x.cps (fun _ h => h) (fun _ => le_refl _)
    hinv.keys 0 (Or.inl ⟨rfl, hsr, rfl⟩) _ (by simp only [nextState, hf])

theorem step_move_D {cfg : Cfg} {cm : Nat} (H : CfgD cfg cm) (c : Costs) {x : XS} (hinv : InvD cfg cm x)
    {n : Nat} {src dst : Storage} (h : actViols cfg x (.move n src dst) = [])
    (h2 : transfersToDisk (.move n src dst) = false) :
    InvD cfg cm (nextState cfg x (.move n src dst)) ∧
    ∀ m, PotD cfg cm c (nextState cfg x (.move n src dst)) m →
      PotD cfg cm c x (m + actCost c (.move n src dst)) := by
  obtain ⟨hs, cp, hf, hwork, hstore⟩ := load_clean2 (show actViols.loadViols cfg x n src dst = [] from h)
  obtain ⟨hcm, hcn, hcs⟩ := findCp_some hf
  have hdd : dst ≠ .disk := by simpa [transfersToDisk] using h2
  exact step_load_D H c hinv hcm hcn hcs hdd hwork hstore (eraseCp x.cps n src) (fun _ h => mem_eraseCp h)
    (fun s' => countSt_eraseCp_le _ _ _ _) (keys_erase _ _ _ hinv.keys) _ (Or.inr ⟨rfl, rfl⟩) _
    (by simp only [nextState, hf])

/-- **One accepted step** of a one-read stream -/
theorem step_pot_D {cfg : Cfg} {cm : Nat} (H : CfgD cfg cm) (c : Costs) {x : XS} (hinv : InvD cfg cm x)
    (o : Obs) (hclean : stepViols cfg x o = []) (hnd : storesDeps o.act = false)
    (h1 : copiesFromDisk o.act = false) (h2 : transfersToDisk o.act = false) :
    InvD cfg cm (nextState cfg x o.act) ∧
    ∀ m, PotD cfg cm c (nextState cfg x o.act) m → PotD cfg cm c x (m + actCost c o.act) := by
  unfold stepViols at hclean
  simp only [List.append_eq_nil_iff] at hclean
  obtain ⟨⟨_, hact⟩, _⟩ := hclean
  cases ho : o.act with
  | forward n0 n1 wi wa st =>
    rw [ho] at hact hnd
    exact step_forward_D H c hinv hact hnd
  | reverse n1 n0 cl =>
    rw [ho] at hact
    exact step_reverse_D c hinv hact
  | copy n src dst =>
    rw [ho] at hact h1 h2
    exact step_copy_D H c hinv hact h1 h2
  | move n src dst =>
    rw [ho] at hact h2
    exact step_move_D H c hinv hact h2
  | endForward => exact step_endForward_D c hinv
  | endReverse =>
    rw [ho] at hact
    exact step_endReverse_D H c hinv hact

/-! ## the whole stream -/

theorem run_pot_D {cfg : Cfg} {cm : Nat} (H : CfgD cfg cm) (c : Costs) (os : List Obs) :
    ∀ (i : Nat) (x : XS), InvD cfg cm x → (runFrom cfg i x os).2 = [] →
      finished cfg (runFrom cfg i x os).1 = true → (∀ o ∈ os, storesDeps o.act = false) →
      (∀ o ∈ os, copiesFromDisk o.act = false ∧ transfersToDisk o.act = false) →
      PotD cfg cm c x (obsCost c os) := by
  induction os with
  | nil =>
    intro i x hinv _ hfin _ _
    have hdone : 1 ≤ x.done := by
      have : finished cfg x = true := hfin
      unfold finished at this
      rw [H.passes] at this
      simpa using this
    obtain ⟨hr, hc⟩ := hinv.done hdone
    have ha : cfg.N - x.r = 0 := by omega
    refine ⟨0, ?_, fun hf => ?_, fun _ => ?_⟩
    · rw [hc, ha]; simp [countSt, obsCost]
    · have := hf.1; omega
    · rw [ha]; exact dreach_final _ _ _ _
  | cons o os ih =>
    intro i x hinv hclean hfin hnd hor
    rw [runFrom_snd_cons, List.append_eq_nil_iff, List.map_eq_nil_iff] at hclean
    have hfin' : finished cfg (runFrom cfg (i + 1) (nextState cfg x o.act) os).1 = true := by
      rw [runFrom_fst_eq] at hfin ⊢
      exact hfin
    obtain ⟨hinv', hstep⟩ := step_pot_D H c hinv o hclean.1 (hnd o (List.mem_cons_self ..))
      (hor o (List.mem_cons_self ..)).1 (hor o (List.mem_cons_self ..)).2
    have := ih (i + 1) _ hinv' hclean.2 hfin' (fun o' ho' => hnd o' (List.mem_cons_of_mem _ ho'))
      (fun o' ho' => hor o' (List.mem_cons_of_mem _ ho'))
    have := hstep _ this
    rw [obsCost_cons, Nat.add_comm]
    exact this

theorem inv_init_D {cfg : Cfg} {cm : Nat} (H : CfgD cfg cm) : InvD cfg cm (XS.init cfg) :=
  { fin := by simp [XS.init, H.offline]
    r_le := Nat.zero_le _
    cps := fun c hc => absurd hc List.not_mem_nil
    ram := Nat.zero_le _
    keys := List.nodup_nil
    deps := Or.inl rfl
    done := fun h => by simp [XS.init] at h }

/-- **The lower bound** for every complete accepted one-read stream -/
theorem lowerBound_D {cfg : Cfg} {cm : Nat} (H : CfgD cfg cm) (c : Costs) (hN : 1 ≤ cfg.N) (os : List Obs)
    (hclean : (run cfg os).2 = []) (hdone : finished cfg (run cfg os).1 = true)
    (hnd : ∀ o ∈ os, storesDeps o.act = false) (hor : OneRead os) :
    cfg.N * c.ub + Gd c.uf (c.wd + c.rd) cm cfg.N ≤ obsCost c os := by
  obtain ⟨m, hm, _, hp2⟩ := run_pot_D H c os 0 (XS.init cfg) (inv_init_D H) hclean hdone hnd hor
  have hnf : ¬ Flagged cfg (XS.init cfg) := by
    rintro ⟨_, h⟩
    simp [XS.init] at h
  have hr := hp2 hnf
  have e2 : cfg.N - (XS.init cfg).r = cfg.N := rfl
  rw [e2] at hr hm
  have hg := dreach_init c.uf (c.wd + c.rd) hN (Av := AvX (XS.init cfg)) ?_ hr
  · have : c.ub * cfg.N = cfg.N * c.ub := Nat.mul_comm _ _
    omega
  · intro t ht
    cases t with
    | ram e => obtain ⟨c', hc', _⟩ := ht; cases hc'
    | disk e => obtain ⟨c', hc', _⟩ := ht; cases hc'
    | work e =>
      have : (XS.init cfg).fwd = some e := ht
      simp only [XS.init, Option.some.injEq] at this
      rw [← this]

theorem cfgD_diskRevolve (cm N : Nat) : CfgD (cfgDiskRevolve cm N) cm := ⟨rfl, rfl, rfl, rfl⟩

/-- **In the class `OneRead` the Disk-Revolve table is a lower bound**: DiskRevolve attains the optimum
of that class (`diskRevolve_attains`). -/
theorem diskOneReadOptimal : DiskOneReadOptimal := by
  intro N cm c os hN hcm _ hacc hor
  obtain ⟨hclean, hdone, hnd⟩ := hacc
  have h1 := lowerBound_D (cfgD_diskRevolve cm N) c hN os hclean hdone hnd hor
  have h2 := optInf_le_Gd N cm c.uf c.ub (c.wd + c.rd) hN hcm
  have e : (cfgDiskRevolve cm N).N = N := rfl
  rw [e] at h1
  unfold optInfVal
  omega


end Ckpt.LB7

#print axioms Ckpt.LB7.diskOneReadOptimal
