import CkptVerif.Proofs.HRevolveStruct
/-!
# The level-1 recurrence of `hoptTable`

For `1 ≤ l ≤ lmax`, `1 ≤ m ≤ c1` the final table satisfies
`optp[1][l][m] = min (opt[0][l][c0] :: [j·uf + opt[1][l-j][m-1] + r1 + optp[1][j-1][m] | 1 ≤ j < l])`,
and `optp[1][l][m] = ∞` for `l ≥ 2` outside that range.  Consequence (`tabOk_hCtxOf`): whenever
`hR` decides to write a DISK checkpoint, `hA` finds a split.
-/
namespace Ckpt

abbrev Tab2 := Array (Array (Option Nat))

def hBlank (lmax c : Nat) : Tab2 := Array.replicate (lmax + 1) (Array.replicate (c + 1) none)

/-- the border initialisation of one level -/
def hBorder (lmax w0 r0 ub uf : Nat) (k c : Nat) (tp t : Tab2) : Tab2 × Tab2 :=
  let q := (List.range (c + 1)).foldl (fun (p : Tab2 × Tab2) m =>
    (s2 p.1 0 m (some ub), s2 p.2 0 m (some ub))) (tp, t)
  (List.range (c + 1)).foldl (fun (p : Tab2 × Tab2) m =>
    if (m = 0 ∧ k = 0) ∨ lmax < 1 then p else
    let v := uf + 2 * ub + r0
    (s2 p.1 1 m (some v), s2 p.2 1 m (some (w0 + v)))) q

/-- level 0 (not analysed here) -/
def hLevel0 (lmax c0 w0 r0 ub uf : Nat) : Tab2 × Tab2 :=
  let b := hBorder lmax w0 r0 ub uf 0 c0 (hBlank lmax c0) (hBlank lmax c0)
  let q := (List.range' 2 (lmax - 1)).foldl (fun (p : Tab2 × Tab2) l =>
      let v := (l + 1) * ub + l * (l + 1) / 2 * uf + l * r0
      (s2 p.1 l 1 (some v), s2 p.2 l 1 (some (w0 + v)))) b
  (List.range' 2 (c0 - 1)).foldl (fun (p : Tab2 × Tab2) m =>
      (List.range' 2 (lmax - 1)).foldl (fun (p : Tab2 × Tab2) l =>
        let cands := (List.range' 1 (l - 1)).map (fun j =>
          oadd (oadd (oadd (some (j * uf)) (g2 p.2 (l - j) (m - 1))) (some r0)) (g2 p.1 (j - 1) m))
        let v := ominList (cands ++ [g2 p.1 l 1])
        (s2 p.1 l m v, s2 p.2 l m (oadd (some w0) v))) p) q

/-- the candidates of the level-1 recurrence, read from the tables `p` -/
def h1Cands (uf r1 : Nat) (p : Tab2 × Tab2) (m l : Nat) : List (Option Nat) :=
  (List.range' 1 (l - 1)).map (fun j =>
    oadd (oadd (oadd (some (j * uf)) (g2 p.2 (l - j) (m - 1))) (some r1)) (g2 p.1 (j - 1) m))

def h1Val (uf r1 : Nat) (o : Option Nat) (p : Tab2 × Tab2) (m l : Nat) : Option Nat :=
  ominList ([o] ++ h1Cands uf r1 p m l)

/-- one cell of the level-1 loop -/
def h1Step (c0 w1 r1 uf : Nat) (o0 : Tab2) (p : Tab2 × Tab2) (m l : Nat) : Tab2 × Tab2 :=
  (s2 p.1 l m (h1Val uf r1 (g2 o0 l c0) p m l),
   s2 p.2 l m (omin (g2 o0 l c0) (oadd (some w1) (h1Val uf r1 (g2 o0 l c0) p m l))))

def hLevel1 (lmax c0 c1 w1 r1 uf : Nat) (o0 : Tab2) (init : Tab2 × Tab2) : Tab2 × Tab2 :=
  (List.range' 1 c1).foldl (fun (p : Tab2 × Tab2) m =>
    (List.range' 1 lmax).foldl (fun (p : Tab2 × Tab2) l => h1Step c0 w1 r1 uf o0 p m l) p)
    (init.1, (List.range' 2 (lmax - 1)).foldl (fun o l => s2 o l 0 (g2 o0 l c0)) init.2)

theorem hoptTable_eq (lmax c0 c1 w0 w1 r0 r1 ub uf : Nat) :
    hoptTable lmax c0 c1 w0 w1 r0 r1 ub uf =
      { optp0 := (hLevel0 lmax c0 w0 r0 ub uf).1
        opt0 := (hLevel0 lmax c0 w0 r0 ub uf).2
        optp1 := (hLevel1 lmax c0 c1 w1 r1 uf (hLevel0 lmax c0 w0 r0 ub uf).2
          (hBorder lmax w0 r0 ub uf 1 c1 (hBlank lmax c1) (hBlank lmax c1))).1
        opt1 := (hLevel1 lmax c0 c1 w1 r1 uf (hLevel0 lmax c0 w0 r0 ub uf).2
          (hBorder lmax w0 r0 ub uf 1 c1 (hBlank lmax c1) (hBlank lmax c1))).2 } := rfl

/-! ## `g2` / `s2` -/

theorem g2_eq (t : Tab2) (l m : Nat) : g2 t l m = ((t[l]?.getD #[])[m]?).getD none := by
  unfold g2
  rw [Array.getD_eq_getD_getElem?, Array.getD_eq_getD_getElem?]

theorem s2_row (t : Tab2) (a b : Nat) (v : Option Nat) (l : Nat) :
    (s2 t a b v)[l]? = if a = l then t[l]?.map (fun row => row.setIfInBounds b v) else t[l]? :=
  Array.getElem?_modify

/-- the cell `(l, m)` exists -/
def InB2 (t : Tab2) (l m : Nat) : Prop := ∃ row, t[l]? = some row ∧ m < row.size

theorem InB2_s2 (t : Tab2) (a b : Nat) (v : Option Nat) (l m : Nat) (h : InB2 t l m) :
    InB2 (s2 t a b v) l m := by
  obtain ⟨row, hr, hs⟩ := h
  by_cases hal : a = l
  · refine ⟨row.setIfInBounds b v, ?_, ?_⟩
    · rw [s2_row, if_pos hal, hr, Option.map_some]
    · rw [Array.size_setIfInBounds]; exact hs
  · exact ⟨row, by rw [s2_row, if_neg hal, hr], hs⟩

theorem g2_s2_same (t : Tab2) (a b : Nat) (v : Option Nat) (h : InB2 t a b) :
    g2 (s2 t a b v) a b = v := by
  obtain ⟨row, hr, hs⟩ := h
  rw [g2_eq, s2_row, if_pos rfl, hr, Option.map_some, Option.getD_some,
    Array.getElem?_setIfInBounds_self_of_lt hs, Option.getD_some]

theorem g2_s2_ne (t : Tab2) (a b : Nat) (v : Option Nat) (l m : Nat) (h : ¬ (l = a ∧ m = b)) :
    g2 (s2 t a b v) l m = g2 t l m := by
  rw [g2_eq, g2_eq, s2_row]
  by_cases hal : a = l
  · rw [if_pos hal]
    have hb : b ≠ m := fun e => h ⟨hal.symm, e.symm⟩
    cases hrow : t[l]? with
    | none => rfl
    | some row =>
      rw [Option.map_some, Option.getD_some, Option.getD_some,
        Array.getElem?_setIfInBounds_ne hb]
  · rw [if_neg hal]

theorem g2_hBlank (lmax c l m : Nat) : g2 (hBlank lmax c) l m = none := by
  rw [g2_eq]
  unfold hBlank
  rw [Array.getElem?_replicate]
  by_cases h1 : l < lmax + 1
  · rw [if_pos h1, Option.getD_some, Array.getElem?_replicate]
    by_cases h2 : m < c + 1
    · rw [if_pos h2, Option.getD_some]
    · rw [if_neg h2]; rfl
  · rw [if_neg h1]; rfl

theorem InB2_hBlank (lmax c l m : Nat) (h1 : l ≤ lmax) (h2 : m ≤ c) : InB2 (hBlank lmax c) l m := by
  refine ⟨Array.replicate (c + 1) none, ?_, ?_⟩
  · unfold hBlank; rw [Array.getElem?_replicate, if_pos (by omega)]
  · rw [Array.size_replicate]; omega

theorem foldl_inv {σ α : Type} (P : σ → Prop) (f : σ → α → σ) (l : List α)
    (hf : ∀ s x, x ∈ l → P s → P (f s x)) (init : σ) (h : P init) : P (l.foldl f init) := by
  induction l generalizing init with
  | nil => exact h
  | cons x xs ih =>
    rw [List.foldl_cons]
    exact ih (fun s y hy => hf s y (List.mem_cons_of_mem _ hy)) _
      (hf init x (List.mem_cons_self ..) h)

/-! ## the initial level-1 tables -/

/-- all cells in range exist, and rows `≥ 2` of the first table are blank -/
def InitOk (lmax c1 : Nat) (p : Tab2 × Tab2) : Prop :=
  (∀ l m, l ≤ lmax → m ≤ c1 → InB2 p.1 l m ∧ InB2 p.2 l m) ∧
  (∀ l m, 2 ≤ l → g2 p.1 l m = none)

theorem hBorder_initOk (lmax w0 r0 ub uf k c1 : Nat) :
    InitOk lmax c1 (hBorder lmax w0 r0 ub uf k c1 (hBlank lmax c1) (hBlank lmax c1)) := by
  unfold hBorder
  apply foldl_inv (InitOk lmax c1)
  · intro s m _ hs
    by_cases hc : (m = 0 ∧ k = 0) ∨ lmax < 1
    · rw [if_pos hc]; exact hs
    · rw [if_neg hc]
      refine ⟨fun l m' h1 h2 => ⟨InB2_s2 _ _ _ _ _ _ (hs.1 l m' h1 h2).1,
        InB2_s2 _ _ _ _ _ _ (hs.1 l m' h1 h2).2⟩, fun l m' hl => ?_⟩
      show g2 (s2 s.1 1 m _) l m' = none
      rw [g2_s2_ne _ _ _ _ _ _ (by omega)]
      exact hs.2 l m' hl
  · apply foldl_inv (InitOk lmax c1)
    · intro s m _ hs
      refine ⟨fun l m' h1 h2 => ⟨InB2_s2 _ _ _ _ _ _ (hs.1 l m' h1 h2).1,
        InB2_s2 _ _ _ _ _ _ (hs.1 l m' h1 h2).2⟩, fun l m' hl => ?_⟩
      show g2 (s2 s.1 0 m _) l m' = none
      rw [g2_s2_ne _ _ _ _ _ _ (by omega)]
      exact hs.2 l m' hl
    · exact ⟨fun l m h1 h2 => ⟨InB2_hBlank lmax c1 l m h1 h2, InB2_hBlank lmax c1 l m h1 h2⟩,
        fun l m _ => g2_hBlank lmax c1 l m⟩

/-! ## the level-1 loop -/

theorem h1Cands_congr (uf r1 : Nat) (p q : Tab2 × Tab2) (m l : Nat)
    (h2 : ∀ j, 1 ≤ j → j < l → g2 p.2 (l - j) (m - 1) = g2 q.2 (l - j) (m - 1))
    (h1 : ∀ j, 1 ≤ j → j < l → g2 p.1 (j - 1) m = g2 q.1 (j - 1) m) :
    h1Cands uf r1 p m l = h1Cands uf r1 q m l := by
  unfold h1Cands
  apply List.map_congr_left
  intro j hj
  rw [List.mem_range'_1] at hj
  rw [h2 j (by omega) (by omega), h1 j (by omega) (by omega)]

/-- columns `< b` are final, column `b` is final in rows `< a`; cells outside `[1, lmax] × [1, c1]`
are untouched; the recurrence holds (w.r.t. the current tables) on all final cells -/
structure H1Inv (lmax c0 c1 r1 uf : Nat) (o0 : Tab2) (init : Tab2) (a b : Nat)
    (p : Tab2 × Tab2) : Prop where
  inb : ∀ l m, l ≤ lmax → m ≤ c1 → InB2 p.1 l m ∧ InB2 p.2 l m
  frame : ∀ l m, (m = 0 ∨ c1 < m ∨ l = 0 ∨ lmax < l) → g2 p.1 l m = g2 init l m
  done : ∀ l m, 1 ≤ l → l ≤ lmax → 1 ≤ m → m ≤ c1 → (m < b ∨ (m = b ∧ l < a)) →
    g2 p.1 l m = h1Val uf r1 (g2 o0 l c0) p m l

theorem H1Inv_step (lmax c0 c1 w1 r1 uf : Nat) (o0 init : Tab2) (a b : Nat) (p : Tab2 × Tab2)
    (inv : H1Inv lmax c0 c1 r1 uf o0 init a b p) (ha1 : 1 ≤ a) (ha : a ≤ lmax) (hb1 : 1 ≤ b)
    (hb : b ≤ c1) :
    H1Inv lmax c0 c1 r1 uf o0 init (a + 1) b (h1Step c0 w1 r1 uf o0 p b a) := by
  have hval : ∀ l m, (m < b ∨ (m = b ∧ l ≤ a)) →
      h1Val uf r1 (g2 o0 l c0) (h1Step c0 w1 r1 uf o0 p b a) m l =
        h1Val uf r1 (g2 o0 l c0) p m l := by
    intro l m hlm
    unfold h1Val
    rw [h1Cands_congr uf r1 (h1Step c0 w1 r1 uf o0 p b a) p m l]
    · intro j hj1 hj2
      exact g2_s2_ne _ _ _ _ _ _ (by omega)
    · intro j hj1 hj2
      exact g2_s2_ne _ _ _ _ _ _ (by omega)
  refine ⟨?_, ?_, ?_⟩
  · intro l m h1 h2
    exact ⟨InB2_s2 _ _ _ _ _ _ (inv.inb l m h1 h2).1, InB2_s2 _ _ _ _ _ _ (inv.inb l m h1 h2).2⟩
  · intro l m h
    show g2 (s2 p.1 a b _) l m = _
    rw [g2_s2_ne _ _ _ _ _ _ (by omega)]
    exact inv.frame l m h
  · intro l m hl1 hl hm1 hm hd
    rw [hval l m (by omega)]
    show g2 (s2 p.1 a b _) l m = _
    by_cases he : l = a ∧ m = b
    · rw [he.1, he.2, g2_s2_same _ _ _ _ (inv.inb a b ha hb).1]
    · rw [g2_s2_ne _ _ _ _ _ _ he]
      exact inv.done l m hl1 hl hm1 hm (by omega)

theorem H1Inv_col (lmax c0 c1 w1 r1 uf : Nat) (o0 init : Tab2) (b : Nat) (hb1 : 1 ≤ b)
    (hb : b ≤ c1) :
    ∀ (k a : Nat) (p : Tab2 × Tab2), 1 ≤ a → a + k = lmax + 1 →
      H1Inv lmax c0 c1 r1 uf o0 init a b p →
      H1Inv lmax c0 c1 r1 uf o0 init (lmax + 1) b
        ((List.range' a k).foldl (fun (p : Tab2 × Tab2) l => h1Step c0 w1 r1 uf o0 p b l) p) := by
  intro k
  induction k with
  | zero =>
    intro a p _ hak inv
    have : a = lmax + 1 := by omega
    subst this
    exact inv
  | succ k ih =>
    intro a p ha1 hak inv
    rw [List.range'_succ, List.foldl_cons]
    exact ih (a + 1) _ (by omega) (by omega)
      (H1Inv_step lmax c0 c1 w1 r1 uf o0 init a b p inv ha1 (by omega) hb1 hb)

theorem H1Inv_next (lmax c0 c1 r1 uf : Nat) (o0 init : Tab2) (b : Nat) (p : Tab2 × Tab2)
    (inv : H1Inv lmax c0 c1 r1 uf o0 init (lmax + 1) b p) :
    H1Inv lmax c0 c1 r1 uf o0 init 1 (b + 1) p :=
  ⟨inv.inb, inv.frame, fun l m h1 h2 h3 h4 h5 => inv.done l m h1 h2 h3 h4 (by omega)⟩

theorem H1Inv_cols (lmax c0 c1 w1 r1 uf : Nat) (o0 init : Tab2) :
    ∀ (k b : Nat) (p : Tab2 × Tab2), 1 ≤ b → b + k = c1 + 1 →
      H1Inv lmax c0 c1 r1 uf o0 init 1 b p →
      H1Inv lmax c0 c1 r1 uf o0 init 1 (c1 + 1)
        ((List.range' b k).foldl (fun (p : Tab2 × Tab2) m =>
          (List.range' 1 lmax).foldl (fun (p : Tab2 × Tab2) l => h1Step c0 w1 r1 uf o0 p m l) p) p) := by
  intro k
  induction k with
  | zero =>
    intro b p _ hbk inv
    have : b = c1 + 1 := by omega
    subst this
    exact inv
  | succ k ih =>
    intro b p hb1 hbk inv
    rw [List.range'_succ, List.foldl_cons]
    exact ih (b + 1) _ (by omega) (by omega)
      (H1Inv_next lmax c0 c1 r1 uf o0 init b _
        (H1Inv_col lmax c0 c1 w1 r1 uf o0 init b hb1 (by omega) lmax 1 p (le_refl _) (by omega) inv))

/-- the final level-1 tables satisfy the recurrence -/
theorem hLevel1_spec (lmax c0 c1 w1 r1 uf : Nat) (o0 : Tab2) (init : Tab2 × Tab2)
    (hinit : InitOk lmax c1 init) :
    H1Inv lmax c0 c1 r1 uf o0 init.1 1 (c1 + 1) (hLevel1 lmax c0 c1 w1 r1 uf o0 init) := by
  unfold hLevel1
  apply H1Inv_cols lmax c0 c1 w1 r1 uf o0 init.1 c1 1 _ (le_refl _) (by omega)
  refine ⟨?_, fun _ _ _ => rfl, fun l m _ _ h1 _ h => by omega⟩
  intro l m h1 h2
  refine ⟨(hinit.1 l m h1 h2).1, ?_⟩
  show InB2 ((List.range' 2 (lmax - 1)).foldl (fun o l => s2 o l 0 (g2 o0 l c0)) init.2) l m
  apply foldl_inv (fun t => InB2 t l m)
  · intro s x _ hs; exact InB2_s2 _ _ _ _ _ _ hs
  · exact (hinit.1 l m h1 h2).2

/-! ## the consequence used by the acceptance proof -/

theorem olt_of_olt_oadd (w : Nat) (a b : Option Nat) (h : olt (oadd (some w) a) b = true) :
    olt a b = true := by
  cases a <;> cases b <;> simp [oadd, olt] at h ⊢
  omega

theorem olt_ominList_of_cons (o : Option Nat) (cands : List (Option Nat))
    (h : olt (ominList ([o] ++ cands)) o = true) : olt (ominList cands) o = true := by
  have hmem := ominList_mem ([o] ++ cands) (by simp)
  rcases List.mem_append.1 hmem with h1 | h1
  · rw [List.mem_singleton] at h1
    rw [h1, olt_irrefl] at h
    cases h
  · exact olt_of_ole_of_olt (ominList_le cands _ h1) h

/-- for the tables `hrevolveEvs` builds: if writing to DISK is cheaper than the memory-only
solution, the DISK recurrence attains its minimum at a proper split -/
theorem hoptTable_split (lmax c0 c1 w0 w1 r0 r1 ub uf : Nat) (l cm : Nat) (hl : 2 ≤ l) (w : Nat)
    (h : olt (oadd (some w) ((hoptTable lmax c0 c1 w0 w1 r0 r1 ub uf).optp 1 l cm))
      ((hoptTable lmax c0 c1 w0 w1 r0 r1 ub uf).opt 0 l c0) = true) :
    cm ≠ 0 ∧
    olt (ominList ((List.range' 1 (l - 1)).map (fun j =>
      oadd (oadd (oadd (some (j * uf))
        ((hoptTable lmax c0 c1 w0 w1 r0 r1 ub uf).opt 1 (l - j) (cm - 1))) (some r1))
        ((hoptTable lmax c0 c1 w0 w1 r0 r1 ub uf).optp 1 (j - 1) cm))))
      ((hoptTable lmax c0 c1 w0 w1 r0 r1 ub uf).opt 0 l c0) = true := by
  rw [hoptTable_eq] at h ⊢
  have hinit := hBorder_initOk lmax w0 r0 ub uf 1 c1
  have inv := hLevel1_spec lmax c0 c1 w1 r1 uf (hLevel0 lmax c0 w0 r0 ub uf).2 _ hinit
  have h' := olt_of_olt_oadd w _ _ h
  by_cases hout : cm = 0 ∨ c1 < cm ∨ l = 0 ∨ lmax < l
  · have hnone : g2 (hLevel1 lmax c0 c1 w1 r1 uf (hLevel0 lmax c0 w0 r0 ub uf).2
        (hBorder lmax w0 r0 ub uf 1 c1 (hBlank lmax c1) (hBlank lmax c1))).1 l cm = none := by
      rw [inv.frame l cm hout]; exact hinit.2 l cm hl
    have h'' : olt (g2 (hLevel1 lmax c0 c1 w1 r1 uf (hLevel0 lmax c0 w0 r0 ub uf).2
        (hBorder lmax w0 r0 ub uf 1 c1 (hBlank lmax c1) (hBlank lmax c1))).1 l cm)
        (g2 (hLevel0 lmax c0 w0 r0 ub uf).2 l c0) = true := h'
    rw [hnone] at h''
    simp [olt] at h''
  · refine ⟨by omega, ?_⟩
    have hd := inv.done l cm (by omega) (by omega) (by omega) (by omega) (Or.inl (by omega))
    have h'' : olt (g2 (hLevel1 lmax c0 c1 w1 r1 uf (hLevel0 lmax c0 w0 r0 ub uf).2
        (hBorder lmax w0 r0 ub uf 1 c1 (hBlank lmax c1) (hBlank lmax c1))).1 l cm)
        (g2 (hLevel0 lmax c0 w0 r0 ub uf).2 l c0) = true := h'
    rw [hd] at h''
    exact olt_ominList_of_cons _ _ h''

end Ckpt
