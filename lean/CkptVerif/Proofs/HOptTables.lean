import CkptVerif.Proofs.HOptBase
/-!
# The two-level cost table `hoptTable` satisfies its recurrences

`hoptTable lmax c0 c1 w0 w1 r0 r1 ub uf` (rows `l = 0 … lmax`; columns `m = 0 … c0` at level 0 and
`m = 0 … c1` at level 1; `none = +∞`).  The construction is decomposed into its loops; each loop is a
fold of cell writes handled by `writes_spec`.
-/
namespace Ckpt.RC
open List

/-! ## the loops of `hoptTable` -/

/-- row `l = 0` of both tables -/
def hB1 (ub c : Nat) (σ : T2 × T2) : T2 × T2 :=
  (List.range (c + 1)).foldl (fun (p : T2 × T2) m => (s2 p.1 0 m (some ub), s2 p.2 0 m (some ub))) σ

/-- row `l = 1` of both tables -/
def hB2 (lmax w0 r0 ub uf k c : Nat) (σ : T2 × T2) : T2 × T2 :=
  (List.range (c + 1)).foldl (fun (p : T2 × T2) m =>
    if (m = 0 ∧ k = 0) ∨ lmax < 1 then p else
      (s2 p.1 1 m (some (uf + 2 * ub + r0)), s2 p.2 1 m (some (w0 + (uf + 2 * ub + r0))))) σ

/-- the closed form of column `m = 1` at level 0 -/
def hCF (ub uf r0 l : Nat) : Nat := (l + 1) * ub + l * (l + 1) / 2 * uf + l * r0

/-- level 0, column `m = 1` -/
def hM1 (lmax w0 r0 ub uf : Nat) (σ : T2 × T2) : T2 × T2 :=
  (List.range' 2 (lmax - 1)).foldl (fun (p : T2 × T2) l =>
    (s2 p.1 l 1 (some (hCF ub uf r0 l)), s2 p.2 l 1 (some (w0 + hCF ub uf r0 l)))) σ

/-- the value of `optp[0][l][m]`, `m ≥ 2`, computed from the state `σ = (optp0, opt0)` -/
def hF0 (uf r0 : Nat) (σ : T2 × T2) (k : Nat × Nat) : Option Nat :=
  ominList ((List.range' 1 (k.1 - 1)).map (fun j =>
      oadd (oadd (oadd (some (j * uf)) (g2 σ.2 (k.1 - j) (k.2 - 1))) (some r0)) (g2 σ.1 (j - 1) k.2))
    ++ [g2 σ.1 k.1 1])

/-- level 0, columns `m ≥ 2` -/
def hL0 (lmax c0 w0 r0 uf : Nat) (σ : T2 × T2) : T2 × T2 :=
  (List.range' 2 (c0 - 1)).foldl (fun (p : T2 × T2) m =>
    (List.range' 2 (lmax - 1)).foldl (fun (p : T2 × T2) l =>
      (s2 p.1 l m (hF0 uf r0 p (l, m)), s2 p.2 l m (oadd (some w0) (hF0 uf r0 p (l, m))))) p) σ

/-- level 1, column `m = 0` of `opt` -/
def hI1 (lmax c0 : Nat) (o0 o1 : T2) : T2 :=
  (List.range' 2 (lmax - 1)).foldl (fun o l => s2 o l 0 (g2 o0 l c0)) o1

/-- the value of `optp[1][l][m]`, `m ≥ 1`, computed from the state `σ = (optp1, opt1)` -/
def hF1 (uf r1 c0 : Nat) (o0 : T2) (σ : T2 × T2) (k : Nat × Nat) : Option Nat :=
  ominList ([g2 o0 k.1 c0] ++ (List.range' 1 (k.1 - 1)).map (fun j =>
      oadd (oadd (oadd (some (j * uf)) (g2 σ.2 (k.1 - j) (k.2 - 1))) (some r1)) (g2 σ.1 (j - 1) k.2)))

/-- level 1, columns `m ≥ 1` -/
def hL1 (lmax c1 w1 r1 uf c0 : Nat) (o0 : T2) (σ : T2 × T2) : T2 × T2 :=
  (List.range' 1 c1).foldl (fun (p : T2 × T2) m =>
    (List.range' 1 lmax).foldl (fun (p : T2 × T2) l =>
      (s2 p.1 l m (hF1 uf r1 c0 o0 p (l, m)),
       s2 p.2 l m (omin (g2 o0 l c0) (oadd (some w1) (hF1 uf r1 c0 o0 p (l, m)))))) p) σ

/-- the final level-0 pair `(optp0, opt0)` -/
def hLevel0 (lmax c0 w0 r0 ub uf : Nat) : T2 × T2 :=
  hL0 lmax c0 w0 r0 uf (hM1 lmax w0 r0 ub uf (hB2 lmax w0 r0 ub uf 0 c0 (hB1 ub c0 (hBlank lmax c0, hBlank lmax c0))))

/-- the level-1 pair after the borders -/
def hBorder1 (lmax c1 w0 r0 ub uf : Nat) : T2 × T2 :=
  hB2 lmax w0 r0 ub uf 1 c1 (hB1 ub c1 (hBlank lmax c1, hBlank lmax c1))

/-- the final level-1 pair `(optp1, opt1)` -/
def hLevel1 (lmax c0 c1 w0 w1 r0 r1 ub uf : Nat) : T2 × T2 :=
  hL1 lmax c1 w1 r1 uf c0 (hLevel0 lmax c0 w0 r0 ub uf).2
    ((hBorder1 lmax c1 w0 r0 ub uf).1,
      hI1 lmax c0 (hLevel0 lmax c0 w0 r0 ub uf).2 (hBorder1 lmax c1 w0 r0 ub uf).2)

theorem hoptTable_eq (lmax c0 c1 w0 w1 r0 r1 ub uf : Nat) :
    hoptTable lmax c0 c1 w0 w1 r0 r1 ub uf =
      { optp0 := (hLevel0 lmax c0 w0 r0 ub uf).1, opt0 := (hLevel0 lmax c0 w0 r0 ub uf).2,
        optp1 := (hLevel1 lmax c0 c1 w0 w1 r0 r1 ub uf).1,
        opt1 := (hLevel1 lmax c0 c1 w0 w1 r0 r1 ub uf).2 } := rfl

/-! ## the loops as folds of cell writes -/

def keysB1 (c : Nat) : List (Nat × Nat) := (List.range (c + 1)).map (fun m => (0, m))

def keysB2 (lmax k c : Nat) : List (Nat × Nat) :=
  ((List.range (c + 1)).filter (fun m => !decide ((m = 0 ∧ k = 0) ∨ lmax < 1))).map (fun m => (1, m))

def keysM1 (lmax : Nat) : List (Nat × Nat) := (List.range' 2 (lmax - 1)).map (fun l => (l, 1))

def cells (m0 nm l0 nl : Nat) : List (Nat × Nat) :=
  (List.range' m0 nm).flatMap (fun m => (List.range' l0 nl).map (fun l => (l, m)))

theorem mem_keysB1 {c l m : Nat} : (l, m) ∈ keysB1 c ↔ l = 0 ∧ m ≤ c := by
  simp only [keysB1, mem_map, mem_range, Prod.mk.injEq]
  constructor
  · rintro ⟨a, ha, rfl, rfl⟩; exact ⟨rfl, by omega⟩
  · rintro ⟨rfl, h⟩; exact ⟨m, by omega, rfl, rfl⟩

theorem mem_keysB2 {lmax k c l m : Nat} :
    (l, m) ∈ keysB2 lmax k c ↔ l = 1 ∧ m ≤ c ∧ ¬ ((m = 0 ∧ k = 0) ∨ lmax < 1) := by
  simp only [keysB2, mem_map, mem_filter, mem_range, Prod.mk.injEq, Bool.not_eq_true',
    decide_eq_false_iff_not]
  constructor
  · rintro ⟨a, ⟨ha, hc⟩, rfl, rfl⟩; exact ⟨rfl, by omega, hc⟩
  · rintro ⟨rfl, h, hc⟩; exact ⟨m, ⟨by omega, hc⟩, rfl, rfl⟩

theorem mem_keysM1 {lmax l m : Nat} : (l, m) ∈ keysM1 lmax ↔ m = 1 ∧ 2 ≤ l ∧ l ≤ lmax := by
  simp only [keysM1, mem_map, mem_range'_1, Prod.mk.injEq]
  constructor
  · rintro ⟨a, ha, rfl, rfl⟩; exact ⟨rfl, by omega, by omega⟩
  · rintro ⟨rfl, h1, h2⟩; exact ⟨l, by omega, rfl, rfl⟩

theorem mem_cells' {m0 nm l0 nl l m : Nat} :
    (l, m) ∈ cells m0 nm l0 nl ↔ (m0 ≤ m ∧ m < m0 + nm) ∧ (l0 ≤ l ∧ l < l0 + nl) := mem_cells

theorem keysB1_pairwise (c : Nat) : (keysB1 c).Pairwise lt2 := by
  rw [keysB1, pairwise_map]
  exact pairwise_lt_range.imp (fun h => Or.inl h)

theorem keysB2_pairwise (lmax k c : Nat) : (keysB2 lmax k c).Pairwise lt2 := by
  rw [keysB2, pairwise_map]
  exact (pairwise_lt_range.filter _).imp (fun h => Or.inl h)

theorem keysM1_pairwise (lmax : Nat) : (keysM1 lmax).Pairwise lt2 := by
  rw [keysM1, pairwise_map]
  exact (pairwise_lt_range' (s := 2) (n := lmax - 1)).imp (fun h => Or.inr ⟨rfl, h⟩)

theorem hB1_eq (ub c : Nat) (σ : T2 × T2) :
    hB1 ub c σ = (keysB1 c).foldl (writeStep (fun _ _ => some ub) (fun _ _ => some ub)) σ := by
  rw [keysB1, foldl_map]; rfl

theorem hB2_eq (lmax w0 r0 ub uf k c : Nat) (σ : T2 × T2) :
    hB2 lmax w0 r0 ub uf k c σ = (keysB2 lmax k c).foldl
      (writeStep (fun _ _ => some (uf + 2 * ub + r0)) (fun _ _ => some (w0 + (uf + 2 * ub + r0)))) σ := by
  rw [keysB2, foldl_map, foldl_filter, hB2]
  congr 1
  funext p m
  by_cases hc : (m = 0 ∧ k = 0) ∨ lmax < 1
  · rw [if_pos hc, if_neg (by rw [decide_eq_true hc]; decide)]
  · rw [if_neg hc, if_pos (by rw [decide_eq_false hc]; decide)]
    rfl

theorem hM1_eq (lmax w0 r0 ub uf : Nat) (σ : T2 × T2) :
    hM1 lmax w0 r0 ub uf σ = (keysM1 lmax).foldl
      (writeStep (fun _ k => some (hCF ub uf r0 k.1)) (fun _ k => some (w0 + hCF ub uf r0 k.1))) σ := by
  rw [keysM1, foldl_map]; rfl

theorem hL0_eq (lmax c0 w0 r0 uf : Nat) (σ : T2 × T2) :
    hL0 lmax c0 w0 r0 uf σ = (cells 2 (c0 - 1) 2 (lmax - 1)).foldl
      (writeStep (hF0 uf r0) (fun σ k => oadd (some w0) (hF0 uf r0 σ k))) σ :=
  nested_fold_eq (writeStep (hF0 uf r0) (fun σ k => oadd (some w0) (hF0 uf r0 σ k))) _ _ σ

theorem hL1_eq (lmax c1 w1 r1 uf c0 : Nat) (o0 : T2) (σ : T2 × T2) :
    hL1 lmax c1 w1 r1 uf c0 o0 σ = (cells 1 c1 1 lmax).foldl
      (writeStep (hF1 uf r1 c0 o0)
        (fun σ k => omin (g2 o0 k.1 c0) (oadd (some w1) (hF1 uf r1 c0 o0 σ k)))) σ :=
  nested_fold_eq (writeStep (hF1 uf r1 c0 o0)
    (fun σ k => omin (g2 o0 k.1 c0) (oadd (some w1) (hF1 uf r1 c0 o0 σ k)))) _ _ σ

/-- the values written do not depend on the state -/
theorem const_stage {lmax c c' : Nat} (A B : Nat × Nat → Option Nat) (ks : List (Nat × Nat))
    (σ : T2 × T2) (hpw : ks.Pairwise lt2) (hin : ∀ k ∈ ks, k.1 ≤ lmax ∧ k.2 ≤ c ∧ k.2 ≤ c')
    (h1 : Shape lmax c σ.1) (h2 : Shape lmax c' σ.2) :
    Shape lmax c (ks.foldl (writeStep (fun _ k => A k) (fun _ k => B k)) σ).1 ∧
    Shape lmax c' (ks.foldl (writeStep (fun _ k => A k) (fun _ k => B k)) σ).2 ∧
    (∀ l m, (l, m) ∉ ks →
      g2 (ks.foldl (writeStep (fun _ k => A k) (fun _ k => B k)) σ).1 l m = g2 σ.1 l m ∧
      g2 (ks.foldl (writeStep (fun _ k => A k) (fun _ k => B k)) σ).2 l m = g2 σ.2 l m) ∧
    ∀ l m, (l, m) ∈ ks →
      g2 (ks.foldl (writeStep (fun _ k => A k) (fun _ k => B k)) σ).1 l m = A (l, m) ∧
      g2 (ks.foldl (writeStep (fun _ k => A k) (fun _ k => B k)) σ).2 l m = B (l, m) := by
  obtain ⟨a, b, c1, d⟩ := writes_spec (lmax := lmax) (c := c) (c' := c') (fun _ k => A k) (fun _ k => B k) ks σ
    (fun _ _ _ _ _ => ⟨rfl, rfl⟩) hpw hin h1 h2
  exact ⟨a, b, fun l m h => c1 (l, m) h, fun l m h => d (l, m) h⟩

/-- locality of the level-0 recurrence: it reads only earlier cells -/
theorem hF0_local (uf r0 : Nat) (σ σ' : T2 × T2) (k : Nat × Nat) (hk : 2 ≤ k.2)
    (h : AgreeBefore σ σ' k) : hF0 uf r0 σ k = hF0 uf r0 σ' k := by
  unfold hF0
  have e1 : g2 σ.1 k.1 1 = g2 σ'.1 k.1 1 := (h (k.1, 1) (Or.inl (by show 1 < k.2; omega))).1
  rw [e1]
  congr 2
  apply map_congr_left
  intro j hj
  have hjr := mem_range'_1.1 hj
  have a := (h (k.1 - j, k.2 - 1) (Or.inl (by simp; omega))).2
  have b := (h (j - 1, k.2) (Or.inr ⟨rfl, by simp; omega⟩)).1
  simp only at a b
  rw [a, b]

theorem hF1_local (uf r1 c0 : Nat) (o0 : T2) (σ σ' : T2 × T2) (k : Nat × Nat) (hk : 1 ≤ k.2)
    (h : AgreeBefore σ σ' k) : hF1 uf r1 c0 o0 σ k = hF1 uf r1 c0 o0 σ' k := by
  unfold hF1
  congr 2
  apply map_congr_left
  intro j hj
  have hjr := mem_range'_1.1 hj
  have a := (h (k.1 - j, k.2 - 1) (Or.inl (by simp; omega))).2
  have b := (h (j - 1, k.2) (Or.inr ⟨rfl, by simp; omega⟩)).1
  simp only at a b
  rw [a, b]

/-! ## level 0 -/

theorem level0_facts (lmax c0 w0 r0 ub uf : Nat) (hc0 : 1 ≤ c0) :
    Shape lmax c0 (hLevel0 lmax c0 w0 r0 ub uf).1 ∧ Shape lmax c0 (hLevel0 lmax c0 w0 r0 ub uf).2 ∧
    (∀ m, m ≤ c0 → g2 (hLevel0 lmax c0 w0 r0 ub uf).1 0 m = some ub ∧
      g2 (hLevel0 lmax c0 w0 r0 ub uf).2 0 m = some ub) ∧
    (1 ≤ lmax → ∀ m, 1 ≤ m → m ≤ c0 →
      g2 (hLevel0 lmax c0 w0 r0 ub uf).1 1 m = some (uf + 2 * ub + r0) ∧
      g2 (hLevel0 lmax c0 w0 r0 ub uf).2 1 m = some (w0 + (uf + 2 * ub + r0))) ∧
    (∀ l, 2 ≤ l → l ≤ lmax →
      g2 (hLevel0 lmax c0 w0 r0 ub uf).1 l 1 = some (hCF ub uf r0 l) ∧
      g2 (hLevel0 lmax c0 w0 r0 ub uf).2 l 1 = some (w0 + hCF ub uf r0 l)) ∧
    (∀ l m, 2 ≤ l → l ≤ lmax → 2 ≤ m → m ≤ c0 →
      g2 (hLevel0 lmax c0 w0 r0 ub uf).1 l m = hF0 uf r0 (hLevel0 lmax c0 w0 r0 ub uf) (l, m) ∧
      g2 (hLevel0 lmax c0 w0 r0 ub uf).2 l m =
        oadd (some w0) (hF0 uf r0 (hLevel0 lmax c0 w0 r0 ub uf) (l, m))) ∧
    (∀ l, 1 ≤ l → g2 (hLevel0 lmax c0 w0 r0 ub uf).1 l 0 = none ∧
      g2 (hLevel0 lmax c0 w0 r0 ub uf).2 l 0 = none) := by
  unfold hLevel0
  -- stage 1: row 0
  obtain ⟨a1, a2, a3, a4⟩ := const_stage (lmax := lmax) (c := c0) (c' := c0)
    (fun _ => some ub) (fun _ => some ub) (keysB1 c0)
    (hBlank lmax c0, hBlank lmax c0) (keysB1_pairwise c0)
    (by rintro ⟨l, m⟩ h; obtain ⟨rfl, h'⟩ := mem_keysB1.1 h; exact ⟨Nat.zero_le _, h', h'⟩)
    (hBlank_shape lmax c0) (hBlank_shape lmax c0)
  rw [← hB1_eq] at a1 a2 a3 a4
  generalize hB1 ub c0 (hBlank lmax c0, hBlank lmax c0) = σ1 at a1 a2 a3 a4 ⊢
  -- stage 2: row 1
  obtain ⟨b1, b2, b3, b4⟩ := const_stage (lmax := lmax) (c := c0) (c' := c0)
    (fun _ => some (uf + 2 * ub + r0)) (fun _ => some (w0 + (uf + 2 * ub + r0))) (keysB2 lmax 0 c0)
    σ1 (keysB2_pairwise lmax 0 c0)
    (by rintro ⟨l, m⟩ h; obtain ⟨rfl, h', hc⟩ := mem_keysB2.1 h; exact ⟨by omega, h', h'⟩) a1 a2
  rw [← hB2_eq] at b1 b2 b3 b4
  generalize hB2 lmax w0 r0 ub uf 0 c0 σ1 = σ2 at b1 b2 b3 b4 ⊢
  -- stage 3: column 1
  obtain ⟨c1, c2, c3, c4⟩ := const_stage (lmax := lmax) (c := c0) (c' := c0)
    (fun k => some (hCF ub uf r0 k.1)) (fun k => some (w0 + hCF ub uf r0 k.1)) (keysM1 lmax)
    σ2 (keysM1_pairwise lmax)
    (by rintro ⟨l, m⟩ h; obtain ⟨rfl, h1, h2⟩ := mem_keysM1.1 h; exact ⟨h2, hc0, hc0⟩) b1 b2
  rw [← hM1_eq] at c1 c2 c3 c4
  generalize hM1 lmax w0 r0 ub uf σ2 = σ3 at c1 c2 c3 c4 ⊢
  -- stage 4: columns ≥ 2
  obtain ⟨d1, d2, d3, d4⟩ := writes_spec (lmax := lmax) (c := c0) (c' := c0)
    (hF0 uf r0) (fun σ k => oadd (some w0) (hF0 uf r0 σ k)) (cells 2 (c0 - 1) 2 (lmax - 1)) σ3
    (by
      rintro σ σ' ⟨l, m⟩ hk hag
      have := (mem_cells'.1 hk).1.1
      have e := hF0_local uf r0 σ σ' (l, m) this hag
      exact ⟨e, by simp only [e]⟩)
    (cells_pairwise _ _ _ _)
    (by rintro ⟨l, m⟩ h; obtain ⟨h1, h2⟩ := mem_cells'.1 h; exact ⟨by omega, by omega, by omega⟩)
    c1 c2
  rw [← hL0_eq] at d1 d2 d3 d4
  generalize hL0 lmax c0 w0 r0 uf σ3 = σ4 at d1 d2 d3 d4 ⊢
  refine ⟨d1, d2, ?_, ?_, ?_, ?_, ?_⟩
  · intro m hm
    have n4 : (0, m) ∉ cells 2 (c0 - 1) 2 (lmax - 1) := fun h => by have := (mem_cells'.1 h).2; omega
    have n3 : (0, m) ∉ keysM1 lmax := fun h => by have := mem_keysM1.1 h; omega
    have n2 : (0, m) ∉ keysB2 lmax 0 c0 := fun h => by have := mem_keysB2.1 h; omega
    have y1 := a4 0 m (mem_keysB1.2 ⟨rfl, hm⟩)
    have y2 := b3 0 m n2
    have y3 := c3 0 m n3
    have y4 := d3 (0, m) n4
    simp only at y4
    exact ⟨by rw [y4.1, y3.1, y2.1, y1.1], by rw [y4.2, y3.2, y2.2, y1.2]⟩
  · intro hl m hm1 hm
    have n4 : (1, m) ∉ cells 2 (c0 - 1) 2 (lmax - 1) := fun h => by have := (mem_cells'.1 h).2; omega
    have n3 : (1, m) ∉ keysM1 lmax := fun h => by have := mem_keysM1.1 h; omega
    have y2 := b4 1 m (mem_keysB2.2 ⟨rfl, hm, by omega⟩)
    have y3 := c3 1 m n3
    have y4 := d3 (1, m) n4
    simp only at y4
    exact ⟨by rw [y4.1, y3.1, y2.1], by rw [y4.2, y3.2, y2.2]⟩
  · intro l hl2 hl
    have n4 : (l, 1) ∉ cells 2 (c0 - 1) 2 (lmax - 1) := fun h => by have := (mem_cells'.1 h).1; omega
    have y3 := c4 l 1 (mem_keysM1.2 ⟨rfl, hl2, hl⟩)
    have y4 := d3 (l, 1) n4
    simp only at y4
    exact ⟨by rw [y4.1, y3.1], by rw [y4.2, y3.2]⟩
  · intro l m hl2 hl hm2 hm
    exact d4 (l, m) (mem_cells'.2 ⟨⟨hm2, by omega⟩, ⟨hl2, by omega⟩⟩)
  · intro l hl
    have n4 : (l, 0) ∉ cells 2 (c0 - 1) 2 (lmax - 1) := fun h => by have := (mem_cells'.1 h).1; omega
    have n3 : (l, 0) ∉ keysM1 lmax := fun h => by have := mem_keysM1.1 h; omega
    have n2 : (l, 0) ∉ keysB2 lmax 0 c0 := fun h => by have := (mem_keysB2.1 h).2.2; simp at this
    have n1 : (l, 0) ∉ keysB1 c0 := fun h => by have := mem_keysB1.1 h; omega
    have y1 := a3 l 0 n1
    have y2 := b3 l 0 n2
    have y3 := c3 l 0 n3
    have y4 := d3 (l, 0) n4
    simp only at y4
    simp only [hBlank_g2] at y1
    exact ⟨by rw [y4.1, y3.1, y2.1, y1.1], by rw [y4.2, y3.2, y2.2, y1.2]⟩

/-! ## level 1 -/

/-- a fold of writes into one column of a single table, the values not depending on the state -/
theorem col_fold_spec {lmax c : Nat} (m0 : Nat) (val : Nat → Option Nat) (hm0 : m0 ≤ c) :
    ∀ (ls : List Nat) (o : T2), (∀ l ∈ ls, l ≤ lmax) → Shape lmax c o →
      Shape lmax c (ls.foldl (fun o l => s2 o l m0 (val l)) o) ∧
      ∀ l m, g2 (ls.foldl (fun o l => s2 o l m0 (val l)) o) l m =
        if l ∈ ls ∧ m = m0 then val l else g2 o l m := by
  intro ls
  induction ls with
  | nil => intro o _ hs; exact ⟨hs, fun l m => by simp⟩
  | cons a ls ih =>
    intro o hin hs
    rw [foldl_cons]
    obtain ⟨i1, i2⟩ := ih (s2 o a m0 (val a)) (fun l hl => hin l (mem_cons_of_mem _ hl)) (hs.s2 _ _ _)
    refine ⟨i1, ?_⟩
    intro l m
    rw [i2 l m]
    by_cases h1 : l ∈ ls ∧ m = m0
    · rw [if_pos h1, if_pos ⟨mem_cons_of_mem _ h1.1, h1.2⟩]
    · rw [if_neg h1]
      by_cases h2 : a = l ∧ m0 = m
      · obtain ⟨rfl, rfl⟩ := h2
        rw [if_pos ⟨mem_cons_self, rfl⟩]
        exact g2_s2_eq hs _ _ _ (hin a mem_cons_self) hm0
      · rw [g2_s2_ne _ _ _ _ _ _ h2]
        have : ¬ (l ∈ a :: ls ∧ m = m0) := by
          rintro ⟨hmem, rfl⟩
          rcases mem_cons.1 hmem with rfl | hmem
          · exact h2 ⟨rfl, rfl⟩
          · exact h1 ⟨hmem, rfl⟩
        rw [if_neg this]

theorem level1_facts (lmax c0 c1 w0 w1 r0 r1 ub uf : Nat) :
    Shape lmax c1 (hLevel1 lmax c0 c1 w0 w1 r0 r1 ub uf).1 ∧
    Shape lmax c1 (hLevel1 lmax c0 c1 w0 w1 r0 r1 ub uf).2 ∧
    (∀ m, m ≤ c1 → g2 (hLevel1 lmax c0 c1 w0 w1 r0 r1 ub uf).1 0 m = some ub ∧
      g2 (hLevel1 lmax c0 c1 w0 w1 r0 r1 ub uf).2 0 m = some ub) ∧
    (1 ≤ lmax →
      g2 (hLevel1 lmax c0 c1 w0 w1 r0 r1 ub uf).1 1 0 = some (uf + 2 * ub + r0) ∧
      g2 (hLevel1 lmax c0 c1 w0 w1 r0 r1 ub uf).2 1 0 = some (w0 + (uf + 2 * ub + r0))) ∧
    (∀ l, 2 ≤ l → l ≤ lmax →
      g2 (hLevel1 lmax c0 c1 w0 w1 r0 r1 ub uf).1 l 0 = none ∧
      g2 (hLevel1 lmax c0 c1 w0 w1 r0 r1 ub uf).2 l 0 = g2 (hLevel0 lmax c0 w0 r0 ub uf).2 l c0) ∧
    (∀ l m, 1 ≤ l → l ≤ lmax → 1 ≤ m → m ≤ c1 →
      g2 (hLevel1 lmax c0 c1 w0 w1 r0 r1 ub uf).1 l m =
        hF1 uf r1 c0 (hLevel0 lmax c0 w0 r0 ub uf).2 (hLevel1 lmax c0 c1 w0 w1 r0 r1 ub uf) (l, m) ∧
      g2 (hLevel1 lmax c0 c1 w0 w1 r0 r1 ub uf).2 l m =
        omin (g2 (hLevel0 lmax c0 w0 r0 ub uf).2 l c0)
          (oadd (some w1) (hF1 uf r1 c0 (hLevel0 lmax c0 w0 r0 ub uf).2
            (hLevel1 lmax c0 c1 w0 w1 r0 r1 ub uf) (l, m)))) := by
  unfold hLevel1 hBorder1
  generalize (hLevel0 lmax c0 w0 r0 ub uf).2 = o0
  -- row 0
  obtain ⟨a1, a2, a3, a4⟩ := const_stage (lmax := lmax) (c := c1) (c' := c1)
    (fun _ => some ub) (fun _ => some ub) (keysB1 c1)
    (hBlank lmax c1, hBlank lmax c1) (keysB1_pairwise c1)
    (by rintro ⟨l, m⟩ h; obtain ⟨rfl, h'⟩ := mem_keysB1.1 h; exact ⟨Nat.zero_le _, h', h'⟩)
    (hBlank_shape lmax c1) (hBlank_shape lmax c1)
  rw [← hB1_eq] at a1 a2 a3 a4
  generalize hB1 ub c1 (hBlank lmax c1, hBlank lmax c1) = σ1 at a1 a2 a3 a4 ⊢
  -- row 1
  obtain ⟨b1, b2, b3, b4⟩ := const_stage (lmax := lmax) (c := c1) (c' := c1)
    (fun _ => some (uf + 2 * ub + r0)) (fun _ => some (w0 + (uf + 2 * ub + r0))) (keysB2 lmax 1 c1)
    σ1 (keysB2_pairwise lmax 1 c1)
    (by rintro ⟨l, m⟩ h; obtain ⟨rfl, h', hc⟩ := mem_keysB2.1 h; exact ⟨by omega, h', h'⟩) a1 a2
  rw [← hB2_eq] at b1 b2 b3 b4
  generalize hB2 lmax w0 r0 ub uf 1 c1 σ1 = σ2 at b1 b2 b3 b4 ⊢
  -- column 0 of `opt1`
  obtain ⟨c2, c3⟩ := col_fold_spec (lmax := lmax) (c := c1) 0 (fun l => g2 o0 l c0) (Nat.zero_le _)
    (List.range' 2 (lmax - 1)) σ2.2 (fun l hl => by have := mem_range'_1.1 hl; omega) b2
  change Shape lmax c1 (hI1 lmax c0 o0 σ2.2) at c2
  change ∀ l m, g2 (hI1 lmax c0 o0 σ2.2) l m = _ at c3
  generalize hI1 lmax c0 o0 σ2.2 = o1 at c2 c3 ⊢
  -- columns ≥ 1
  obtain ⟨d1, d2, d3, d4⟩ := writes_spec (lmax := lmax) (c := c1) (c' := c1)
    (hF1 uf r1 c0 o0) (fun σ k => omin (g2 o0 k.1 c0) (oadd (some w1) (hF1 uf r1 c0 o0 σ k)))
    (cells 1 c1 1 lmax) (σ2.1, o1)
    (by
      rintro σ σ' ⟨l, m⟩ hk hag
      have := (mem_cells'.1 hk).1.1
      have e := hF1_local uf r1 c0 o0 σ σ' (l, m) this hag
      exact ⟨e, by simp only [e]⟩)
    (cells_pairwise _ _ _ _)
    (by rintro ⟨l, m⟩ h; obtain ⟨h1, h2⟩ := mem_cells'.1 h; exact ⟨by omega, by omega, by omega⟩)
    b1 c2
  rw [← hL1_eq] at d1 d2 d3 d4
  generalize hL1 lmax c1 w1 r1 uf c0 o0 (σ2.1, o1) = σ4 at d1 d2 d3 d4 ⊢
  refine ⟨d1, d2, ?_, ?_, ?_, ?_⟩
  · intro m hm
    have n4 : (0, m) ∉ cells 1 c1 1 lmax := fun h => by have := (mem_cells'.1 h).2; omega
    have n2 : (0, m) ∉ keysB2 lmax 1 c1 := fun h => by have := mem_keysB2.1 h; omega
    have y1 := a4 0 m (mem_keysB1.2 ⟨rfl, hm⟩)
    have y2 := b3 0 m n2
    have y3 := c3 0 m
    rw [if_neg (by rintro ⟨h, _⟩; have := mem_range'_1.1 h; omega)] at y3
    have y4 := d3 (0, m) n4
    simp only at y4
    exact ⟨by rw [y4.1, y2.1, y1.1], by rw [y4.2, y3, y2.2, y1.2]⟩
  · intro hl
    have n4 : (1, 0) ∉ cells 1 c1 1 lmax := fun h => by have := (mem_cells'.1 h).1; omega
    have y2 := b4 1 0 (mem_keysB2.2 ⟨rfl, Nat.zero_le _, by omega⟩)
    have y3 := c3 1 0
    rw [if_neg (by rintro ⟨h, _⟩; have := mem_range'_1.1 h; omega)] at y3
    have y4 := d3 (1, 0) n4
    simp only at y4
    exact ⟨by rw [y4.1, y2.1], by rw [y4.2, y3, y2.2]⟩
  · intro l hl2 hl
    have n4 : (l, 0) ∉ cells 1 c1 1 lmax := fun h => by have := (mem_cells'.1 h).1; omega
    have n2 : (l, 0) ∉ keysB2 lmax 1 c1 := fun h => by have := mem_keysB2.1 h; omega
    have n1 : (l, 0) ∉ keysB1 c1 := fun h => by have := mem_keysB1.1 h; omega
    have y1 := a3 l 0 n1
    have y2 := b3 l 0 n2
    have y3 := c3 l 0
    rw [if_pos ⟨mem_range'_1.2 ⟨hl2, by omega⟩, rfl⟩] at y3
    have y4 := d3 (l, 0) n4
    simp only at y4
    simp only [hBlank_g2] at y1
    exact ⟨by rw [y4.1, y2.1, y1.1], by rw [y4.2, y3]⟩
  · intro l m hl1 hl hm1 hm
    exact d4 (l, m) (mem_cells'.2 ⟨⟨hm1, by omega⟩, ⟨hl1, by omega⟩⟩)

/-! ## the statements about `hoptTable` -/

section final
variable (lmax c0 c1 w0 w1 r0 r1 ub uf : Nat)

theorem hopt_optp0 (l m : Nat) : (hoptTable lmax c0 c1 w0 w1 r0 r1 ub uf).optp 0 l m =
    g2 (hLevel0 lmax c0 w0 r0 ub uf).1 l m := by rw [hoptTable_eq]; rfl
theorem hopt_opt0 (l m : Nat) : (hoptTable lmax c0 c1 w0 w1 r0 r1 ub uf).opt 0 l m =
    g2 (hLevel0 lmax c0 w0 r0 ub uf).2 l m := by rw [hoptTable_eq]; rfl
theorem hopt_optp1 (l m : Nat) : (hoptTable lmax c0 c1 w0 w1 r0 r1 ub uf).optp 1 l m =
    g2 (hLevel1 lmax c0 c1 w0 w1 r0 r1 ub uf).1 l m := by rw [hoptTable_eq]; rfl
theorem hopt_opt1 (l m : Nat) : (hoptTable lmax c0 c1 w0 w1 r0 r1 ub uf).opt 1 l m =
    g2 (hLevel1 lmax c0 c1 w0 w1 r0 r1 ub uf).2 l m := by rw [hoptTable_eq]; rfl

/-! ### level 0 -/

theorem hopt0_row0 (hc0 : 1 ≤ c0) (m : Nat) (hm : m ≤ c0) :
    (hoptTable lmax c0 c1 w0 w1 r0 r1 ub uf).optp 0 0 m = some ub ∧
    (hoptTable lmax c0 c1 w0 w1 r0 r1 ub uf).opt 0 0 m = some ub := by
  rw [hopt_optp0, hopt_opt0]
  exact (level0_facts lmax c0 w0 r0 ub uf hc0).2.2.1 m hm

theorem hopt0_row1 (hc0 : 1 ≤ c0) (hl : 1 ≤ lmax) (m : Nat) (hm1 : 1 ≤ m) (hm : m ≤ c0) :
    (hoptTable lmax c0 c1 w0 w1 r0 r1 ub uf).optp 0 1 m = some (uf + 2 * ub + r0) ∧
    (hoptTable lmax c0 c1 w0 w1 r0 r1 ub uf).opt 0 1 m = some (w0 + uf + 2 * ub + r0) := by
  rw [hopt_optp0, hopt_opt0]
  obtain ⟨a, b⟩ := (level0_facts lmax c0 w0 r0 ub uf hc0).2.2.2.1 hl m hm1 hm
  refine ⟨a, ?_⟩
  rw [b]; congr 1; omega

theorem hopt0_col1 (hc0 : 1 ≤ c0) (l : Nat) (hl2 : 2 ≤ l) (hl : l ≤ lmax) :
    (hoptTable lmax c0 c1 w0 w1 r0 r1 ub uf).optp 0 l 1 =
      some ((l + 1) * ub + l * (l + 1) / 2 * uf + l * r0) ∧
    (hoptTable lmax c0 c1 w0 w1 r0 r1 ub uf).opt 0 l 1 =
      some (w0 + ((l + 1) * ub + l * (l + 1) / 2 * uf + l * r0)) := by
  rw [hopt_optp0, hopt_opt0]
  exact (level0_facts lmax c0 w0 r0 ub uf hc0).2.2.2.2.1 l hl2 hl

/-- the level-0 recurrence -/
theorem hopt0_rec (hc0 : 1 ≤ c0) (l m : Nat) (hl2 : 2 ≤ l) (hl : l ≤ lmax) (hm2 : 2 ≤ m) (hm : m ≤ c0) :
    let h := hoptTable lmax c0 c1 w0 w1 r0 r1 ub uf
    let cands := (List.range' 1 (l - 1)).map (fun j =>
      oadd (oadd (oadd (some (j * uf)) (h.opt 0 (l - j) (m - 1))) (some r0)) (h.optp 0 (j - 1) m))
    h.optp 0 l m = ominList (cands ++ [h.optp 0 l 1]) ∧
    h.opt 0 l m = oadd (some w0) (h.optp 0 l m) := by
  intro h cands
  obtain ⟨a, b⟩ := (level0_facts lmax c0 w0 r0 ub uf hc0).2.2.2.2.2.1 l m hl2 hl hm2 hm
  have e : ominList (cands ++ [h.optp 0 l 1]) =
      hF0 uf r0 (hLevel0 lmax c0 w0 r0 ub uf) (l, m) := by
    simp only [cands, h, hopt_optp0, hopt_opt0]
    rfl
  rw [e]
  simp only [h, hopt_optp0, hopt_opt0]
  exact ⟨a, by rw [b, a]⟩

theorem hopt0_col0 (hc0 : 1 ≤ c0) (l : Nat) (hl1 : 1 ≤ l) :
    (hoptTable lmax c0 c1 w0 w1 r0 r1 ub uf).optp 0 l 0 = none ∧
    (hoptTable lmax c0 c1 w0 w1 r0 r1 ub uf).opt 0 l 0 = none := by
  rw [hopt_optp0, hopt_opt0]
  exact (level0_facts lmax c0 w0 r0 ub uf hc0).2.2.2.2.2.2 l hl1

/-- all level-0 entries with at least one RAM unit are finite -/
theorem hopt0_isSome (hc0 : 1 ≤ c0) (l m : Nat) (hl : l ≤ lmax) (hm1 : 1 ≤ m) (hm : m ≤ c0) :
    ((hoptTable lmax c0 c1 w0 w1 r0 r1 ub uf).optp 0 l m).isSome = true ∧
    ((hoptTable lmax c0 c1 w0 w1 r0 r1 ub uf).opt 0 l m).isSome = true := by
  rcases Nat.lt_or_ge l 2 with hl2 | hl2
  · rcases Nat.eq_zero_or_pos l with rfl | hl1
    · obtain ⟨a, b⟩ := hopt0_row0 lmax c0 c1 w0 w1 r0 r1 ub uf hc0 m hm
      rw [a, b]; exact ⟨rfl, rfl⟩
    · have : l = 1 := by omega
      subst this
      obtain ⟨a, b⟩ := hopt0_row1 lmax c0 c1 w0 w1 r0 r1 ub uf hc0 hl m hm1 hm
      rw [a, b]; exact ⟨rfl, rfl⟩
  · rcases Nat.lt_or_ge m 2 with hm2 | hm2
    · have : m = 1 := by omega
      subst this
      obtain ⟨a, b⟩ := hopt0_col1 lmax c0 c1 w0 w1 r0 r1 ub uf hc0 l hl2 hl
      rw [a, b]; exact ⟨rfl, rfl⟩
    · obtain ⟨a, b⟩ := hopt0_rec lmax c0 c1 w0 w1 r0 r1 ub uf hc0 l m hl2 hl hm2 hm
      obtain ⟨c, _⟩ := hopt0_col1 lmax c0 c1 w0 w1 r0 r1 ub uf hc0 l hl2 hl
      have hs : ((hoptTable lmax c0 c1 w0 w1 r0 r1 ub uf).optp 0 l m).isSome = true := by
        rw [a]
        apply ominList_isSome_of_mem _ ((l + 1) * ub + l * (l + 1) / 2 * uf + l * r0)
        rw [← c]; simp
      refine ⟨hs, ?_⟩
      rw [b]
      obtain ⟨v, hv⟩ := Option.isSome_iff_exists.1 hs
      rw [hv]; rfl

/-! ### level 1 -/

theorem hopt1_row0 (m : Nat) (hm : m ≤ c1) :
    (hoptTable lmax c0 c1 w0 w1 r0 r1 ub uf).optp 1 0 m = some ub ∧
    (hoptTable lmax c0 c1 w0 w1 r0 r1 ub uf).opt 1 0 m = some ub := by
  rw [hopt_optp1, hopt_opt1]
  exact (level1_facts lmax c0 c1 w0 w1 r0 r1 ub uf).2.2.1 m hm

theorem hopt1_row1_col0 (hl : 1 ≤ lmax) :
    (hoptTable lmax c0 c1 w0 w1 r0 r1 ub uf).optp 1 1 0 = some (uf + 2 * ub + r0) ∧
    (hoptTable lmax c0 c1 w0 w1 r0 r1 ub uf).opt 1 1 0 = some (w0 + uf + 2 * ub + r0) := by
  rw [hopt_optp1, hopt_opt1]
  obtain ⟨a, b⟩ := (level1_facts lmax c0 c1 w0 w1 r0 r1 ub uf).2.2.2.1 hl
  refine ⟨a, ?_⟩
  rw [b]; congr 1; omega

theorem hopt1_col0 (l : Nat) (hl2 : 2 ≤ l) (hl : l ≤ lmax) :
    (hoptTable lmax c0 c1 w0 w1 r0 r1 ub uf).optp 1 l 0 = none ∧
    (hoptTable lmax c0 c1 w0 w1 r0 r1 ub uf).opt 1 l 0 =
      (hoptTable lmax c0 c1 w0 w1 r0 r1 ub uf).opt 0 l c0 := by
  rw [hopt_optp1, hopt_opt1, hopt_opt0]
  exact (level1_facts lmax c0 c1 w0 w1 r0 r1 ub uf).2.2.2.2.1 l hl2 hl

/-- with no disk unit the level-1 cost is the level-0 cost with all RAM units (`l ≥ 1`) -/
theorem hopt1_col0_eq (hc0 : 1 ≤ c0) (l : Nat) (hl1 : 1 ≤ l) (hl : l ≤ lmax) :
    (hoptTable lmax c0 c1 w0 w1 r0 r1 ub uf).opt 1 l 0 =
      (hoptTable lmax c0 c1 w0 w1 r0 r1 ub uf).opt 0 l c0 := by
  rcases Nat.lt_or_ge l 2 with hl2 | hl2
  · have : l = 1 := by omega
    subst this
    rw [(hopt1_row1_col0 lmax c0 c1 w0 w1 r0 r1 ub uf hl).2,
      (hopt0_row1 lmax c0 c1 w0 w1 r0 r1 ub uf hc0 hl c0 hc0 (le_refl _)).2]
  · exact (hopt1_col0 lmax c0 c1 w0 w1 r0 r1 ub uf l hl2 hl).2

/-- the level-1 recurrence -/
theorem hopt1_rec (l m : Nat) (hl1 : 1 ≤ l) (hl : l ≤ lmax) (hm1 : 1 ≤ m) (hm : m ≤ c1) :
    let h := hoptTable lmax c0 c1 w0 w1 r0 r1 ub uf
    let cands1 := (List.range' 1 (l - 1)).map (fun j =>
      oadd (oadd (oadd (some (j * uf)) (h.opt 1 (l - j) (m - 1))) (some r1)) (h.optp 1 (j - 1) m))
    h.optp 1 l m = ominList (h.opt 0 l c0 :: cands1) ∧
    h.opt 1 l m = omin (h.opt 0 l c0) (oadd (some w1) (h.optp 1 l m)) := by
  intro h cands1
  obtain ⟨a, b⟩ := (level1_facts lmax c0 c1 w0 w1 r0 r1 ub uf).2.2.2.2.2 l m hl1 hl hm1 hm
  have e : ominList (h.opt 0 l c0 :: cands1) =
      hF1 uf r1 c0 (hLevel0 lmax c0 w0 r0 ub uf).2 (hLevel1 lmax c0 c1 w0 w1 r0 r1 ub uf) (l, m) := by
    simp only [cands1, h, hopt_optp1, hopt_opt1, hopt_opt0]
    rfl
  rw [e]
  simp only [h, hopt_optp1, hopt_opt1, hopt_opt0]
  exact ⟨a, by rw [b, a]⟩

/-- more disk units never hurt, and level 1 is never worse than level 0 with all RAM units -/
theorem hopt1_le_level0 (hc0 : 1 ≤ c0) (l m : Nat) (hl : l ≤ lmax) (hm : m ≤ c1) :
    ole ((hoptTable lmax c0 c1 w0 w1 r0 r1 ub uf).opt 1 l m)
      ((hoptTable lmax c0 c1 w0 w1 r0 r1 ub uf).opt 0 l c0) = true := by
  rcases Nat.eq_zero_or_pos l with rfl | hl1
  · rw [(hopt1_row0 lmax c0 c1 w0 w1 r0 r1 ub uf m hm).2,
      (hopt0_row0 lmax c0 c1 w0 w1 r0 r1 ub uf hc0 c0 (le_refl _)).2]
    exact ole_refl _
  · rcases Nat.eq_zero_or_pos m with rfl | hm1
    · rw [hopt1_col0_eq lmax c0 c1 w0 w1 r0 r1 ub uf hc0 l hl1 hl]; exact ole_refl _
    · rw [(hopt1_rec lmax c0 c1 w0 w1 r0 r1 ub uf l m hl1 hl hm1 hm).2]
      exact omin_le_left _ _

theorem hopt1_isSome (hc0 : 1 ≤ c0) (l m : Nat) (hl : l ≤ lmax) (hm : m ≤ c1) :
    ((hoptTable lmax c0 c1 w0 w1 r0 r1 ub uf).opt 1 l m).isSome = true := by
  have h1 := hopt1_le_level0 lmax c0 c1 w0 w1 r0 r1 ub uf hc0 l m hl hm
  obtain ⟨v, hv⟩ := Option.isSome_iff_exists.1
    (hopt0_isSome lmax c0 c1 w0 w1 r0 r1 ub uf hc0 l c0 hl hc0 (le_refl _)).2
  rw [hv] at h1
  exact isSome_of_ole_some h1

theorem hopt1_optp_isSome (hc0 : 1 ≤ c0) (l m : Nat) (hl1 : 1 ≤ l) (hl : l ≤ lmax) (hm1 : 1 ≤ m)
    (hm : m ≤ c1) : ((hoptTable lmax c0 c1 w0 w1 r0 r1 ub uf).optp 1 l m).isSome = true := by
  rw [(hopt1_rec lmax c0 c1 w0 w1 r0 r1 ub uf l m hl1 hl hm1 hm).1]
  obtain ⟨v, hv⟩ := Option.isSome_iff_exists.1
    (hopt0_isSome lmax c0 c1 w0 w1 r0 r1 ub uf hc0 l c0 hl hc0 (le_refl _)).2
  exact ominList_isSome_of_mem _ v (by rw [hv]; simp)

/-- Monotonicity in the number of disk units (C07: more disk never hurts), together with the
same fact for `optp` that the induction needs. -/
theorem hopt1_mono_aux (hc0 : 1 ≤ c0) : ∀ (l : Nat), l ≤ lmax → ∀ m, m + 1 ≤ c1 →
    ole ((hoptTable lmax c0 c1 w0 w1 r0 r1 ub uf).opt 1 l (m + 1))
      ((hoptTable lmax c0 c1 w0 w1 r0 r1 ub uf).opt 1 l m) = true ∧
    (1 ≤ m → ole ((hoptTable lmax c0 c1 w0 w1 r0 r1 ub uf).optp 1 l (m + 1))
      ((hoptTable lmax c0 c1 w0 w1 r0 r1 ub uf).optp 1 l m) = true) := by
  intro l
  induction l using Nat.strong_induction_on with
  | _ l ih =>
    intro hl m hm
    rcases Nat.eq_zero_or_pos l with rfl | hl1
    · obtain ⟨a, b⟩ := hopt1_row0 lmax c0 c1 w0 w1 r0 r1 ub uf (m + 1) hm
      obtain ⟨a', b'⟩ := hopt1_row0 lmax c0 c1 w0 w1 r0 r1 ub uf m (by omega)
      rw [a, b, a', b']
      exact ⟨ole_refl _, fun _ => ole_refl _⟩
    · rcases Nat.eq_zero_or_pos m with rfl | hm1
      · refine ⟨?_, fun h => by omega⟩
        rw [hopt1_col0_eq lmax c0 c1 w0 w1 r0 r1 ub uf hc0 l hl1 hl]
        exact hopt1_le_level0 lmax c0 c1 w0 w1 r0 r1 ub uf hc0 l (0 + 1) hl hm
      · obtain ⟨p1, o1⟩ := hopt1_rec lmax c0 c1 w0 w1 r0 r1 ub uf l (m + 1) hl1 hl (by omega) hm
        obtain ⟨p2, o2⟩ := hopt1_rec lmax c0 c1 w0 w1 r0 r1 ub uf l m hl1 hl hm1 (by omega)
        have hP : ole ((hoptTable lmax c0 c1 w0 w1 r0 r1 ub uf).optp 1 l (m + 1))
            ((hoptTable lmax c0 c1 w0 w1 r0 r1 ub uf).optp 1 l m) = true := by
          rw [p1, p2]
          apply ominList_mono
          intro y hy
          rcases mem_cons.1 hy with rfl | hy
          · exact ⟨_, mem_cons_self, ole_refl _⟩
          · obtain ⟨j, hj, rfl⟩ := mem_map.1 hy
            have hjr := mem_range'_1.1 hj
            refine ⟨_, mem_cons_of_mem _ (mem_map.2 ⟨j, hj, rfl⟩), ?_⟩
            have i1 := (ih (l - j) (by omega) (by omega) (m - 1) (by omega)).1
            have i2 := (ih (j - 1) (by omega) (by omega) m hm).2 hm1
            have e1 : m - 1 + 1 = m := by omega
            rw [e1] at i1
            rw [Nat.add_sub_cancel]
            exact oadd_mono (oadd_mono (oadd_mono (ole_refl _) i1) (ole_refl _)) i2
        refine ⟨?_, fun _ => hP⟩
        rw [o1, o2]
        exact omin_mono (ole_refl _) (oadd_mono (ole_refl _) hP)

/-- C07: the cost with `m + 1` disk units is at most the cost with `m` -/
theorem hopt1_mono (hc0 : 1 ≤ c0) (l m : Nat) (hl : l ≤ lmax) (hm : m + 1 ≤ c1) :
    ole ((hoptTable lmax c0 c1 w0 w1 r0 r1 ub uf).opt 1 l (m + 1))
      ((hoptTable lmax c0 c1 w0 w1 r0 r1 ub uf).opt 1 l m) = true :=
  (hopt1_mono_aux lmax c0 c1 w0 w1 r0 r1 ub uf hc0 l hl m hm).1

/-- … hence at most the cost with any smaller number of disk units -/
theorem hopt1_antitone (hc0 : 1 ≤ c0) (l m m' : Nat) (hl : l ≤ lmax) (hmm : m ≤ m') (hm : m' ≤ c1) :
    ole ((hoptTable lmax c0 c1 w0 w1 r0 r1 ub uf).opt 1 l m')
      ((hoptTable lmax c0 c1 w0 w1 r0 r1 ub uf).opt 1 l m) = true := by
  induction m' with
  | zero => have : m = 0 := by omega
            subst this; exact ole_refl _
  | succ n ih =>
    rcases Nat.eq_or_lt_of_le hmm with rfl | hlt
    · exact ole_refl _
    · exact ole_trans (hopt1_mono lmax c0 c1 w0 w1 r0 r1 ub uf hc0 l n hl hm) (ih (by omega) (by omega))

end final

-- a concrete table: lmax = 9, 1 RAM unit, up to 2 disk units, wd = 2, rd = 1, ub = uf = 1
example : (hoptTable 9 1 2 0 2 0 1 1 1).opt 1 9 0 = some 55 ∧
    (hoptTable 9 1 2 0 2 0 1 1 1).opt 1 9 1 = some 35 ∧
    (hoptTable 9 1 2 0 2 0 1 1 1).opt 1 9 2 = some 34 := by decide +kernel

end Ckpt.RC
