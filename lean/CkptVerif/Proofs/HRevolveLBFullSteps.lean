import CkptVerif.Proofs.HRevolveLB
import CkptVerif.Proofs.HRevolveLBFullPlans
/-!
# The relaxed LIFO discipline `Lifo'` and the steps of the executor

`Lifo'`: every `Copy`/`Move` goes into WORK or nowhere (`StorageType.NONE`); a `Copy`/`Move` into WORK
loads the most recently stored checkpoint that is still *alive* (position below the adjoint position).
Compared with `Lifo` (`Proofs/HRevolveLB.lean`) this allows

* deleting ANY stored checkpoint at any time (`Move … → NONE`),
* stale checkpoints (at or above the adjoint position) anywhere in storage: they are ignored,
* reads that load nothing (`Copy … → NONE`).

The potential is `HLB.RT` (a stack plan over an alive sub-stack of the stored checkpoints).
-/
namespace Ckpt.LB7
open Ckpt.RC Ckpt.GW Ckpt.Mean Ckpt.HLB

/-- the checkpoint lies below the adjoint position -/
def aliveAt (cfg : Cfg) (x : XS) (cp : Cp) : Bool := decide (cp.n < cfg.N - x.r)

/-- `(n, src)` is the most recently stored checkpoint that is still alive -/
def topAlive (cfg : Cfg) (x : XS) (n : Nat) (src : Storage) : Bool :=
  match x.cps.find? (aliveAt cfg x) with
  | some cp => decide (cp.n = n ∧ cp.st = src)
  | none => false

def lifoAct' (cfg : Cfg) (x : XS) : Action → Bool
  | .copy n src dst => !dst.isStore && (decide (dst ≠ .work) || topAlive cfg x n src)
  | .move n src dst => !dst.isStore && (decide (dst ≠ .work) || topAlive cfg x n src)
  | _ => true

def lifoFrom' (cfg : Cfg) : XS → List Obs → Bool
  | _, [] => true
  | x, o :: os => lifoAct' cfg x o.act && lifoFrom' cfg (nextState cfg x o.act) os

/-- every `Copy`/`Move` into WORK loads the most recent alive checkpoint; none goes into RAM or DISK -/
def Lifo' (cfg : Cfg) (os : List Obs) : Prop := lifoFrom' cfg (XS.init cfg) os = true

instance (cfg : Cfg) (os : List Obs) : Decidable (Lifo' cfg os) := by unfold Lifo'; infer_instance

/-- the potential: an alive sub-stack of the stored checkpoints has a stack plan of cost at most `n` -/
def PotT (c : Costs) (c0 c1 : Nat) (cfg : Cfg) (x : XS) (n : Nat) : Prop :=
  (Flagged cfg x → HLB.RT c c0 c1 (stk x) x.fwd (cfg.N - x.r - 1) n) ∧
  (¬ Flagged cfg x → HLB.RT c c0 c1 (stk x) x.fwd (cfg.N - x.r) n)

theorem step_forwardT {c : Costs} {c0 c1 N : Nat} {x : XS}
    (hinv : GW.Inv (cfgHRevolve c0 c1 N) (c0 + c1) x) (hinv2 : Inv2 c0 c1 x)
    {n0 n1 : Nat} {wi wa : Bool} {st : Storage}
    (h : actViols (cfgHRevolve c0 c1 N) x (.forward n0 n1 wi wa st) = [])
    (hnd : storesDeps (.forward n0 n1 wi wa st) = false) :
    ∀ m, PotT c c0 c1 (cfgHRevolve c0 c1 N) (nextState (cfgHRevolve c0 c1 N) x (.forward n0 n1 wi wa st)) m →
      PotT c c0 c1 (cfgHRevolve c0 c1 N) x (m + actCostF c (.forward n0 n1 wi wa st)) := by
  set cfg := cfgHRevolve c0 c1 N with hcfg
  obtain ⟨hlt, hfwd, hle, hstore, hwork⟩ := fwd_clean hinv.fin h
  have hclip : clip cfg x n1 = n1 := by simp [clip, hinv.fin]
  generalize hx' : nextState cfg x (.forward n0 n1 wi wa st) = x'
  have e_fwd : x'.fwd = some n1 := by rw [← hx']; simp only [nextState, hclip]
  have e_r : x'.r = x.r := by rw [← hx']; rfl
  have e_deps : x'.wDeps = if st = .work ∧ wa = true then some (n0, n1) else none := by
    rw [← hx']; simp only [nextState, hclip]
  have e_cps : x'.cps = if st.isStore = true
      then { n := n0, st := st, ics := if wi = true then n1 - n0 else 0,
             deps := if wa = true then n1 - n0 else 0 } :: x.cps else x.cps := by
    rw [← hx']; simp only [nextState, hclip]
  have hnf : ¬ Flagged cfg x := not_flagged_of_fwd hinv hfwd hlt hle
  have hcost : actCostF c (.forward n0 n1 wi wa st) = (n1 - n0) * c.uf + (if st = .disk then c.wd else 0) := by
    simp [actCostF, actCostT, actCost, transfersToDisk]
  by_cases hs : st.isStore = true
  · -- a checkpoint is written at `n0`
    obtain ⟨_, hbud⟩ := hstore hs
    rw [if_pos hs] at e_cps
    have hbud' := (Ckpt.Mean.withinBudget_iff.mp hbud)
    have hcR := hbud'.1 c0 rfl
    have hcD := hbud'.2 c1 rfl
    rw [Ckpt.Mean.countSt_cons] at hcR hcD
    intro m hp
    have hnf' : ¬ Flagged cfg x' := by
      rintro ⟨_, hd⟩
      rw [e_deps, if_neg (by rintro ⟨h1, _⟩; rw [h1] at hs; cases hs)] at hd
      cases hd
    have hr := hp.2 hnf'
    rw [e_r, e_fwd] at hr
    have hstk : stk x' = (n0, decide (st = .disk)) :: stk x := by
      unfold stk; rw [e_cps, List.map_cons]
    rw [hstk] at hr
    refine ⟨fun hf => absurd hf hnf, fun _ => ?_⟩
    rw [hfwd, hcost]
    have h1 := HLB.rt_adv (c := c) (c0 := c0) (c1 := c1) (f := n0) (le_of_lt hlt) hr
    have hcap : if decide (st = .disk) then nD (stk x) + 1 ≤ c1 else nR (stk x) + 1 ≤ c0 := by
      have hR : nR (stk x) = countSt x.cps .ram := nR_map x.cps (fun cp hcp => (hinv.cps cp hcp).2)
      have hD : nD (stk x) = countSt x.cps .disk := nD_map x.cps (fun cp hcp => (hinv.cps cp hcp).2)
      cases hst : st <;> simp [hst, Storage.isStore] at hs hcR hcD ⊢
      · rw [hR]; omega
      · rw [hD]; omega
    have h2 := HLB.rt_store hcap h1
    refine HLB.rt_weaken h2 ?_
    have : (if decide (st = .disk) = true then c.wd else 0) = (if st = .disk then c.wd else 0) := by
      by_cases hd : st = .disk <;> simp [hd]
    rw [this]
    omega
  · -- no checkpoint is written
    rw [if_neg hs] at e_cps
    intro m hp
    have hstk : stk x' = stk x := by unfold stk; rw [e_cps]
    have hnd' : (if st = .disk then c.wd else 0) = 0 := by
      have : st ≠ .disk := by intro hd; rw [hd] at hs; exact hs rfl
      simp [this]
    refine ⟨fun hf => absurd hf hnf, fun _ => ?_⟩
    rw [hfwd, hcost, hnd']
    by_cases hw : st = .work ∧ wa = true
    · -- the turn-around
      obtain ⟨h1, h2⟩ := hwork hw.1 hw.2 rfl
      have hfl : Flagged cfg x' := by
        refine ⟨by rw [e_r]; omega, ?_⟩
        rw [e_deps, if_pos hw, e_r]
        have : cfg.N - x.r - 1 = n0 := by omega
        rw [this, ← h2]
      have hr := hp.1 hfl
      rw [e_r, e_fwd, hstk] at hr
      have hdead := HLB.rt_dead hr (by omega)
      have hturn := HLB.rt_turn (a := cfg.N - x.r) (by omega) hdead
      have ea : cfg.N - x.r - 1 = n0 := by omega
      rw [ea] at hturn
      have e1 : n1 - n0 = 1 := by omega
      rw [e1]
      refine HLB.rt_weaken hturn (by omega)
    · have hnf' : ¬ Flagged cfg x' := by
        rintro ⟨_, hd⟩
        rw [e_deps, if_neg hw] at hd
        cases hd
      have hr := hp.2 hnf'
      rw [e_r, e_fwd, hstk] at hr
      exact HLB.rt_weaken (HLB.rt_adv (f := n0) (le_of_lt hlt) hr) (by omega)

theorem step_reverseT {c : Costs} {c0 c1 N : Nat} {x : XS}
    (hinv : GW.Inv (cfgHRevolve c0 c1 N) (c0 + c1) x)
    {n1 n0 : Nat} {cl : Bool} (h : actViols (cfgHRevolve c0 c1 N) x (.reverse n1 n0 cl) = []) :
    ∀ m, PotT c c0 c1 (cfgHRevolve c0 c1 N) (nextState (cfgHRevolve c0 c1 N) x (.reverse n1 n0 cl)) m →
      PotT c c0 c1 (cfgHRevolve c0 c1 N) x (m + actCostF c (.reverse n1 n0 cl)) := by
  set cfg := cfgHRevolve c0 c1 N with hcfg
  simp only [actViols, List.append_eq_nil_iff, chk_nil_iff, decide_eq_true_eq] at h
  obtain ⟨⟨⟨hlt, _⟩, hn1⟩, hcov⟩ := h
  obtain ⟨p, q, hw, hp, hq⟩ := covers_iff.mp hcov
  rcases hinv.deps with h0 | ⟨p', hw', hle', hfw'⟩
  · rw [h0] at hw; cases hw
  rw [hw'] at hw
  simp only [Option.some.injEq, Prod.mk.injEq] at hw
  obtain ⟨rfl, rfl⟩ := hw
  have ha : cfg.N - x.r = p' + 1 := by omega
  have hn0 : n0 = p' := by omega
  have hfl : Flagged cfg x := ⟨by omega, by rw [hw', ha]; rfl⟩
  generalize hx' : nextState cfg x (.reverse n1 n0 cl) = x'
  have e_r : x'.r = x.r + 1 := by rw [← hx']; show x.r + (n1 - n0) = _; omega
  have e_cps : x'.cps = x.cps := by rw [← hx']; rfl
  have e_fwd : x'.fwd = x.fwd := by rw [← hx']; rfl
  have e_deps : x'.wDeps = if cl = true then none else x.wDeps := by rw [← hx']; rfl
  have hnf' : ¬ Flagged cfg x' := by
    rintro ⟨h1, h2⟩
    rw [e_deps] at h2
    split at h2
    · cases h2
    · rw [hw', e_r] at h2
      simp only [Option.some.injEq, Prod.mk.injEq] at h2
      omega
  intro m hp
  have := hp.2 hnf'
  have hstk : stk x' = stk x := by unfold stk; rw [e_cps]
  rw [hstk, e_fwd, e_r] at this
  have e : cfg.N - (x.r + 1) = cfg.N - x.r - 1 := by omega
  rw [e] at this
  have hc : actCostF c (.reverse n1 n0 cl) = 0 := rfl
  rw [hc, Nat.add_zero]
  exact ⟨fun _ => this, fun hf => absurd hfl hf⟩

end Ckpt.LB7

namespace Ckpt.LB7
open Ckpt.RC Ckpt.GW Ckpt.Mean Ckpt.HLB

/-! ## loads and deletions -/

/-- the key `(n, st)` of `cp` occurs nowhere else in `pre ++ cp :: post` -/
theorem key_unique {pre post : List Cp} {cp : Cp}
    (hk : ((pre ++ cp :: post).map (fun c => (c.n, c.st))).Nodup) :
    ∀ c' ∈ pre ++ post, ¬ (c'.n = cp.n ∧ c'.st = cp.st) := by
  rw [List.map_append, List.map_cons, List.nodup_middle, List.nodup_cons, ← List.map_append] at hk
  intro c' hc' ⟨e1, e2⟩
  apply hk.1
  exact List.mem_map.mpr ⟨c', hc', by rw [e1, e2]⟩

theorem findCp_middle {pre post : List Cp} {cp : Cp}
    (hk : ((pre ++ cp :: post).map (fun c => (c.n, c.st))).Nodup) :
    findCp (pre ++ cp :: post) cp.n cp.st = some cp := by
  have hu := key_unique hk
  unfold findCp
  rw [List.find?_append]
  have h1 : pre.find? (fun c => decide (c.n = cp.n ∧ c.st = cp.st)) = none := by
    rw [List.find?_eq_none]
    intro c' hc'
    have := hu c' (List.mem_append_left _ hc')
    simpa using this
  rw [h1]
  simp

theorem eraseCp_middle {pre post : List Cp} {cp : Cp}
    (hk : ((pre ++ cp :: post).map (fun c => (c.n, c.st))).Nodup) :
    eraseCp (pre ++ cp :: post) cp.n cp.st = pre ++ post := by
  have hu := key_unique hk
  unfold eraseCp
  rw [List.filter_append, List.filter_cons]
  have h0 : decide (¬ (cp.n = cp.n ∧ cp.st = cp.st)) = false := by simp
  rw [h0]
  simp only [Bool.false_eq_true, if_false]
  congr 1
  · rw [List.filter_eq_self]
    intro c' hc'
    have := hu c' (List.mem_append_left _ hc')
    simp only [decide_eq_true_eq]
    exact this
  · rw [List.filter_eq_self]
    intro c' hc'
    have := hu c' (List.mem_append_right _ hc')
    simp only [decide_eq_true_eq]
    exact this

theorem stk_append (x : XS) (pre post : List Cp) (cp : Cp) (h : x.cps = pre ++ cp :: post) :
    stk x = pre.map (fun cp => (cp.n, decide (cp.st = .disk))) ++
      (cp.n, decide (cp.st = .disk)) :: post.map (fun cp => (cp.n, decide (cp.st = .disk))) := by
  unfold stk; rw [h, List.map_append, List.map_cons]

/-- the decomposition of the stored checkpoints at the most recent alive one -/
theorem topAlive_split {cfg : Cfg} {x : XS} {n : Nat} {src : Storage} (h : topAlive cfg x n src = true) :
    ∃ pre cp post, x.cps = pre ++ cp :: post ∧ cp.n = n ∧ cp.st = src ∧ cp.n < cfg.N - x.r ∧
      ∀ c' ∈ pre, ¬ c'.n < cfg.N - x.r := by
  unfold topAlive at h
  cases hf : x.cps.find? (aliveAt cfg x) with
  | none => rw [hf] at h; cases h
  | some cp =>
    rw [hf] at h
    simp only [decide_eq_true_eq] at h
    obtain ⟨hal, pre, post, hdec, hpre⟩ := List.find?_eq_some_iff_append.mp hf
    refine ⟨pre, cp, post, hdec, h.1, h.2, by simpa [aliveAt] using hal, ?_⟩
    intro c' hc'
    have := hpre c' hc'
    simpa [aliveAt] using this

/-- `Copy` and `Move` of the most recent alive checkpoint into WORK -/
theorem step_loadT {c : Costs} {c0 c1 N : Nat} {x : XS}
    (hinv : GW.Inv (cfgHRevolve c0 c1 N) (c0 + c1) x) (hinv2 : Inv2 c0 c1 x)
    {pre post : List Cp} {cp : Cp} (hcps : x.cps = pre ++ cp :: post)
    (halive : cp.n < (cfgHRevolve c0 c1 N).N - x.r)
    (hpre : ∀ c' ∈ pre, ¬ c'.n < (cfgHRevolve c0 c1 N).N - x.r)
    (hw : x.wDeps = none) (keep : Bool) (x' : XS)
    (hx' : x' = { x with cps := if keep then x.cps else pre ++ post,
                         fwd := if cp.ics > 0 then some cp.n else none,
                         wIcs := if cp.ics > 0 then some (cp.n, cp.n + cp.ics) else none,
                         wDeps := if cp.deps > 0 then some (cp.n, cp.n + cp.deps) else none }) :
    ∀ m, PotT c c0 c1 (cfgHRevolve c0 c1 N) x' m →
      PotT c c0 c1 (cfgHRevolve c0 c1 N) x (m + (if cp.st = .disk then c.rd else 0)) := by
  set cfg := cfgHRevolve c0 c1 N with hcfg
  have hmem : cp ∈ x.cps := by rw [hcps]; simp
  have hd0 := (hinv.cps cp hmem).1
  have hics := hinv2.ics cp hmem
  have e_fwd : x'.fwd = some cp.n := by rw [hx']; simp [hics]
  have e_deps : x'.wDeps = none := by rw [hx']; simp [hd0]
  have e_r : x'.r = x.r := by rw [hx']
  have e_cps : x'.cps = if keep then x.cps else pre ++ post := by rw [hx']
  have hnf : ¬ Flagged cfg x := by rintro ⟨_, hd⟩; rw [hw] at hd; cases hd
  have hnf' : ¬ Flagged cfg x' := by rintro ⟨_, hd⟩; rw [e_deps] at hd; cases hd
  intro m hp
  have hr := hp.2 hnf'
  rw [e_r, e_fwd] at hr
  refine ⟨fun hf => absurd hf hnf, fun _ => ?_⟩
  have hld : ldc c (decide (cp.st = .disk)) = (if cp.st = .disk then c.rd else 0) := by
    unfold ldc; by_cases hd : cp.st = .disk <;> simp [hd]
  rw [← hld, stk_append x pre post cp hcps]
  have hpre' : ∀ s ∈ pre.map (fun cp => (cp.n, decide (cp.st = .disk))), ¬ s.1 < cfg.N - x.r := by
    intro s hs
    obtain ⟨c', hc', rfl⟩ := List.mem_map.mp hs
    exact hpre c' hc'
  cases keep with
  | true =>
    have hstk' : stk x' = pre.map (fun cp => (cp.n, decide (cp.st = .disk))) ++
        (cp.n, decide (cp.st = .disk)) :: post.map (fun cp => (cp.n, decide (cp.st = .disk))) := by
      unfold stk; rw [e_cps]; simp only [if_true]; rw [hcps, List.map_append, List.map_cons]
    rw [hstk'] at hr
    exact HLB.rt_loadCopy hpre' halive hr
  | false =>
    have hstk' : stk x' = pre.map (fun cp => (cp.n, decide (cp.st = .disk))) ++
        post.map (fun cp => (cp.n, decide (cp.st = .disk))) := by
      unfold stk; rw [e_cps]; simp only [Bool.false_eq_true, if_false]; rw [List.map_append]
    rw [hstk'] at hr
    exact HLB.rt_loadMove hpre' halive hr

end Ckpt.LB7
