import CkptVerif.Proofs.HRevolveOk
import CkptVerif.Proofs.OfflineGlue
/-!
# HRevolve end to end — and two *semantic* side-condition lemmas

The side conditions of `offline_end_to_end` (no `EndReverse` inside the stream; a storage that
`uses_storage_type` denies is never named) are derived here from executor acceptance itself,
without looking at how the stream was generated:

* a single-adjoint stream that is accepted up to and including a last observation cannot contain
  an earlier `EndReverse` (the action following it would violate C02/9);
* an accepted stream never names a storage whose budget is 0 (writing to it violates C03, loading
  from it finds no checkpoint, C01/4).
-/
namespace Ckpt

/-! ## no `EndReverse` before the end of an accepted single-adjoint stream -/

theorem clean_cons_inv {cfg : Cfg} {x x' : XS} {o : Obs} {os : List Obs}
    (h : Clean cfg x (o :: os) x') :
    (step cfg x o).2 = [] ∧ Clean cfg (step cfg x o).1 os x' := by
  have h0 := h 0
  simp only [runFrom] at h0
  have hv : (step cfg x o).2 = [] := by
    have := congrArg Prod.snd h0
    simp only [List.append_eq_nil_iff, List.map_eq_nil_iff] at this
    exact this.1
  refine ⟨hv, ?_⟩
  intro i
  have h1 := runFrom_index cfg os (step cfg x o).1 (0 + 1) i
  have h00 : runFrom cfg (0 + 1) (step cfg x o).1 os = (x', []) := by
    simp only [hv, List.map_nil, List.nil_append] at h0
    exact h0
  exact Prod.ext (by rw [← h1.1, h00]) (h1.2 (by rw [h00]))

theorem clean_no_inner_endReverse {cfg : Cfg} (hp : cfg.passes = some 1) :
    ∀ (os : List Obs) (x x' : XS) (o : Obs), Clean cfg x (os ++ [o]) x' →
      ∀ o' ∈ os, o'.act ≠ .endReverse := by
  intro os
  induction os with
  | nil => intro _ _ _ _ o' ho'; cases ho'
  | cons a os ih =>
    intro x x' o h o' ho'
    obtain ⟨hv, hrest⟩ := clean_cons_inv (by simpa using h)
    rcases List.mem_cons.mp ho' with rfl | ho'
    · intro ha
      -- the next observation exists and is rejected
      obtain ⟨b, bs, hb⟩ : ∃ b bs, os ++ [o] = b :: bs := by
        cases os with
        | nil => exact ⟨_, _, rfl⟩
        | cons c cs => exact ⟨_, _, rfl⟩
      rw [hb] at hrest
      obtain ⟨hv2, _⟩ := clean_cons_inv hrest
      have hfin : finished cfg (step cfg x o').1 = true := by
        simp only [step, ha, finished, hp, nextState]
        simp
      simp only [step, stepViols, chk, List.append_eq_nil_iff] at hv2
      simp only [step] at hfin
      simp [hfin] at hv2
    · exact ih _ _ _ hrest o' ho'

/-! ## a storage with budget 0 is never named by an accepted stream -/

/-- no stored checkpoint lives in `st` -/
def NoCpIn (st : Storage) (x : XS) : Prop := ∀ c ∈ x.cps, c.st ≠ st

/-- the budget of `st` is 0 -/
def ZeroBudget (cfg : Cfg) (st : Storage) : Prop :=
  ∀ (c : Cp) (cps : List Cp), c.st = st → withinBudget cfg (c :: cps) = false

theorem zeroBudget_disk (cfg : Cfg) (h : cfg.disk = some 0) : ZeroBudget cfg .disk := by
  intro c cps hc
  simp [withinBudget, withinOpt, h, countSt, hc]

theorem zeroBudget_ram (cfg : Cfg) (h : cfg.ram = some 0) : ZeroBudget cfg .ram := by
  intro c cps hc
  simp [withinBudget, withinOpt, h, countSt, hc]

theorem findCp_none_of_noCpIn {st : Storage} {x : XS} (hx : NoCpIn st x) (n : Nat) :
    findCp x.cps n st = none := by
  unfold findCp
  rw [List.find?_eq_none]
  intro c hc
  have := hx c hc
  simp [this]

theorem findCp_mem {cps : List Cp} {n : Nat} {s : Storage} {c : Cp}
    (h : findCp cps n s = some c) : c ∈ cps := by
  unfold findCp at h
  exact List.mem_of_find?_eq_some h

/-- one accepted step neither names a zero-budget storage nor puts a checkpoint into it -/
theorem step_zeroBudget (cfg : Cfg) (st : Storage) (hst : st.isStore = true)
    (hz : ZeroBudget cfg st) (x : XS) (o : Obs) (hx : NoCpIn st x)
    (hs : (step cfg x o).2 = []) :
    touches st o.act = false ∧ NoCpIn st (step cfg x o).1 := by
  simp only [step, stepViols, List.append_eq_nil_iff] at hs
  obtain ⟨⟨_, hact⟩, _⟩ := hs
  obtain ⟨act, on, or_, omx, oex, orun⟩ := o
  simp only at hact
  simp only [step]
  cases act with
  | forward n0 n1 wi wa s =>
    by_cases hs' : s = st
    · exfalso
      subst hs'
      simp only [actViols, hst, if_true, List.append_eq_nil_iff] at hact
      have hb := hact.1.2.2
      rw [hz _ _ rfl] at hb
      simp [chk] at hb
    · refine ⟨by simp [touches, hs'], ?_⟩
      intro c hc
      simp only [nextState] at hc
      split at hc
      · rcases List.mem_cons.mp hc with rfl | hc
        · exact hs'
        · exact hx c hc
      · exact hx c hc
  | reverse n1 n0 cl => exact ⟨rfl, fun c hc => hx c (by simpa [nextState] using hc)⟩
  | endForward => exact ⟨rfl, fun c hc => hx c (by simpa [nextState] using hc)⟩
  | endReverse => exact ⟨rfl, fun c hc => hx c (by simpa [nextState] using hc)⟩
  | copy n src dst =>
    simp only [actViols, actViols.loadViols, List.append_eq_nil_iff] at hact
    cases hf : findCp x.cps n src with
    | none => rw [hf] at hact; simp at hact
    | some c0 =>
      rw [hf] at hact
      have hsrc : src ≠ st := by
        intro h; subst h
        rw [findCp_none_of_noCpIn hx n] at hf; cases hf
      have hdst : dst ≠ st := by
        intro h; subst h
        simp only [hst, if_true, List.append_eq_nil_iff] at hact
        have hb := hact.2.2.2
        rw [hz _ _ rfl] at hb
        simp [chk] at hb
      refine ⟨by simp [touches, hsrc, hdst], ?_⟩
      intro c hc
      simp only [nextState, hf] at hc
      have hmem : c ∈ (if dst.isStore = true then { c0 with st := dst } :: x.cps else x.cps) := by
        split at hc <;> exact hc
      split at hmem
      · rcases List.mem_cons.mp hmem with rfl | hmem
        · exact hdst
        · exact hx c hmem
      · exact hx c hmem
  | move n src dst =>
    simp only [actViols, actViols.loadViols, List.append_eq_nil_iff] at hact
    cases hf : findCp x.cps n src with
    | none => rw [hf] at hact; simp at hact
    | some c0 =>
      rw [hf] at hact
      have hsrc : src ≠ st := by
        intro h; subst h
        rw [findCp_none_of_noCpIn hx n] at hf; cases hf
      have hdst : dst ≠ st := by
        intro h; subst h
        simp only [hst, if_true, List.append_eq_nil_iff] at hact
        have hb := hact.2.2.2
        rw [hz _ _ rfl] at hb
        simp [chk] at hb
      refine ⟨by simp [touches, hsrc, hdst], ?_⟩
      intro c hc
      simp only [nextState, hf] at hc
      have hmem : c ∈ (if dst.isStore = true then { c0 with st := dst } :: eraseCp x.cps n src
          else eraseCp x.cps n src) := by
        split at hc <;> exact hc
      have herase : ∀ c ∈ eraseCp x.cps n src, c.st ≠ st := by
        intro c hc
        unfold eraseCp at hc
        exact hx c (List.mem_filter.mp hc).1
      split at hmem
      · rcases List.mem_cons.mp hmem with rfl | hmem
        · exact hdst
        · exact herase c hmem
      · exact herase c hmem

/-- an accepted stream never names a zero-budget storage -/
theorem clean_zeroBudget (cfg : Cfg) (st : Storage) (hst : st.isStore = true)
    (hz : ZeroBudget cfg st) : ∀ (os : List Obs) (x x' : XS), NoCpIn st x → Clean cfg x os x' →
      ∀ o ∈ os, touches st o.act = false := by
  intro os
  induction os with
  | nil => intro _ _ _ _ o ho; cases ho
  | cons a os ih =>
    intro x x' hx h o ho
    obtain ⟨hv, hrest⟩ := clean_cons_inv h
    obtain ⟨h1, h2⟩ := step_zeroBudget cfg st hst hz x a hx hv
    rcases List.mem_cons.mp ho with rfl | ho
    · exact h1
    · exact ih _ _ h2 hrest o ho

/-! ## the glue theorem with semantic side conditions -/

/-- **Glue theorem, semantic form**: executor acceptance of the decorated stream is enough —
the stream cannot contain an inner `EndReverse`, and a storage that `uses_storage_type` may deny
(budget 0) is never named. -/
theorem offline_end_to_end_sem (cfg : Cfg) (N k fuel : Nat) (evs : List Ev) (nE : Nat)
    (uses : Storage → Option Bool) (xf : XS)
    (hN : cfg.N = N) (hon : cfg.online = false) (hp : cfg.passes = some 1)
    (hfuel : evs.length + 5 ≤ fuel)
    (hclean : Clean cfg (XS.init cfg)
      (evs.map (Ev.obs · N) ++ [⟨.endReverse, nE, N, some N, true, true⟩]) xf)
    (huses : ∀ st, (uses st).isSome = true)
    (hram : uses .ram = some true ∨ cfg.ram = some 0)
    (hdisk : uses .disk = some true ∨ cfg.disk = some 0) :
    monitor cfg k
      ((offlineSched N (.ok (evs ++ [⟨.endReverse, nE, N⟩])) uses).canon N k fuel) = [] := by
  have hpre : ∀ e ∈ evs, e.act ≠ .endReverse := by
    intro e he
    exact clean_no_inner_endReverse hp _ _ _ _ hclean (Ev.obs e N) (List.mem_map.mpr ⟨e, he, rfl⟩)
  have hinit : ∀ st, NoCpIn st (XS.init cfg) := by intro st c hc; cases hc
  have hno : ∀ st, st.isStore = true → ZeroBudget cfg st →
      ¬ ∃ e ∈ evs, touches st e.act = true := by
    rintro st hst hz ⟨e, he, ht⟩
    have := clean_zeroBudget cfg st hst hz _ _ _ (hinit st) hclean (Ev.obs e N)
      (List.mem_append_left _ (List.mem_map.mpr ⟨e, he, rfl⟩))
    rw [show (Ev.obs e N).act = e.act from rfl, ht] at this
    cases this
  apply offline_end_to_end cfg N k fuel evs nE uses xf hN hon hp hfuel hpre hclean huses
  · intro h
    rcases hram with h' | h'
    · exact h'
    · exact absurd h (hno .ram rfl (zeroBudget_ram cfg h'))
  · intro h
    rcases hdisk with h' | h'
    · exact h'
    · exact absurd h (hno .disk rfl (zeroBudget_disk cfg h'))

/-! ## HRevolve -/

/-- **HRevolve end to end.** -/
theorem hrevolve_monitor_clean (N c0 c1 : Nat) (c : Costs)
    (hv : validRevolve N c0 c.uf c.ub = true) :
    ∃ sch evs, hrevolveSched N c0 c1 c = .ok sch ∧ hrevolveEvs N c0 c1 c = .ok evs ∧
      ∀ k fuel, evs.length + 4 ≤ fuel →
        monitor (cfgHRevolve c0 c1 N) k (sch.canon N k fuel) = [] := by
  simp only [validRevolve, Bool.and_eq_true, decide_eq_true_eq] at hv
  obtain ⟨⟨⟨hN, hc0⟩, _⟩, _⟩ := hv
  obtain ⟨evs, sn, hevs, hclean⟩ := hrevolve_clean N c0 c1 c hN hc0
  have hsch : hrevolveSched N c0 c1 c =
      .ok (offlineSched N (hrevolveEvs N c0 c1 c) (revUses c0 (some c1))) := by
    unfold hrevolveSched; rw [if_neg (by omega)]
  refine ⟨_, _, hsch, hevs, ?_⟩
  intro k fuel hfuel
  rw [hevs]
  apply offline_end_to_end_sem (cfgHRevolve c0 c1 N) N k fuel evs 1 _ _ rfl rfl rfl
    (by rw [List.length_append, List.length_singleton] at hfuel; omega) hclean
  · intro st; cases st <;> rfl
  · left
    have : decide (c0 > 0) = true := decide_eq_true (by omega)
    simp only [revUses, this]
  · by_cases h1 : c1 = 0
    · right; rw [h1]; rfl
    · left
      have : decide (c1 > 0) = true := decide_eq_true (by omega)
      simp only [revUses, this]

example : validRevolve 9 2 1 1 = true := by decide

end Ckpt

section AxiomCheck
open Ckpt
#print axioms clean_no_inner_endReverse
#print axioms clean_zeroBudget
#print axioms offline_end_to_end_sem
#print axioms hrevolve_monitor_clean
end AxiomCheck
