import CkptVerif.Proofs.OpsRevolve
/-!
# Refinement for DiskRevolve: the twin's stream is the recursive stream model `diskSeg`
-/
namespace Ckpt.Ops

/-- the candidates of the disk split -/
def diskCands (t0 : Array (Array Nat)) (tinf : Array Nat) (cm uf wr l : Nat) : List Nat :=
  (List.range' 1 (l - 1)).map (fun j => wr + j * uf + tinf.getD (l - j) 0 + opt0Get t0 cm (j - 1))

/-- `disk_revolve(l, cm)` at offset `lo`, in block form -/
def diskOpsAt (t0 : Array (Array Nat)) (tinf : Array Nat) (cm uf wr : Nat) :
    (fuel lo l : Nat) → Option (List Op)
  | 0, _, _ => none
  | fuel+1, lo, l =>
    if l = 0 then some (turnOps lo)
    else if l = 1 then
      if cm = 0 then
        some ([Op.wd lo, Op.fwd lo (lo + 1)] ++ turnOps (lo + 1) ++ [Op.rd lo] ++ turnOps lo ++
          [Op.dd lo])
      else some ([Op.wm lo, Op.fwd lo (lo + 1)] ++ turnOps (lo + 1) ++ qLoop lo 0)
    else
      if (diskCands t0 tinf cm uf wr l).foldl min ((diskCands t0 tinf cm uf wr l).headD 0)
          < opt0Get t0 cm l then
        match diskOpsAt t0 tinf cm uf wr fuel
            (lo + argminO ((diskCands t0 tinf cm uf wr l).map some))
            (l - argminO ((diskCands t0 tinf cm uf wr l).map some)) with
        | none => none
        | some right =>
          match revOpsAt t0 uf (argminO ((diskCands t0 tinf cm uf wr l).map some)) lo
              (argminO ((diskCands t0 tinf cm uf wr l).map some) - 1) cm with
          | none => none
          | some left =>
            some ([Op.wd lo, Op.fwd lo (lo + argminO ((diskCands t0 tinf cm uf wr l).map some))] ++
              right ++ [Op.rd lo] ++ left)
      else revOpsAt t0 uf (l + 1) lo l cm

theorem shiftOp_dd (s n : Nat) : shiftOp s (Op.dd n) = Op.dd (s + n) := by
  simp [shiftOp, Op.dd, Nat.add_comm]

/-- `disk_revolve(l, cm)` shifted by `lo` is the block form at offset `lo` -/
theorem shiftOps_diskRevolveOps (t0 : Array (Array Nat)) (tinf : Array Nat) (cm uf wr : Nat) :
    ∀ (fuel lo l : Nat),
      (diskRevolveOps t0 tinf cm uf wr fuel l).map (shiftOps lo) =
        diskOpsAt t0 tinf cm uf wr fuel lo l := by
  intro fuel
  induction fuel with
  | zero => intro lo l; rfl
  | succ fuel ih =>
    intro lo l
    rw [diskRevolveOps, diskOpsAt]
    by_cases h0 : l = 0
    · rw [if_pos h0, if_pos h0, Option.map_some]
      simp [shiftOps, turnOps, shiftOp_wfm, shiftOp_fwd, shiftOp_bwd, shiftOp_dfm]
    rw [if_neg h0, if_neg h0]
    by_cases h1 : l = 1
    · rw [if_pos h1, if_pos h1]
      by_cases hc : cm = 0
      · rw [if_pos hc, if_pos hc, Option.map_some]
        simp [shiftOps, turnOps, shiftOp_wfm, shiftOp_fwd, shiftOp_bwd, shiftOp_dfm, shiftOp_wd,
          shiftOp_rd, shiftOp_dd]
      · rw [if_neg hc, if_neg hc, Option.map_some]
        simp [shiftOps, turnOps, qLoop, shiftOp_wfm, shiftOp_fwd, shiftOp_bwd, shiftOp_dfm,
          shiftOp_wm, shiftOp_rm, shiftOp_dm]
    rw [if_neg h1, if_neg h1]
    show Option.map (shiftOps lo)
      (if (diskCands t0 tinf cm uf wr l).foldl min ((diskCands t0 tinf cm uf wr l).headD 0)
          < opt0Get t0 cm l then
        match diskRevolveOps t0 tinf cm uf wr fuel
            (l - argminO ((diskCands t0 tinf cm uf wr l).map some)) with
        | none => none
        | some right =>
          match revolveOps t0 uf (argminO ((diskCands t0 tinf cm uf wr l).map some))
              (argminO ((diskCands t0 tinf cm uf wr l).map some) - 1) cm with
          | none => none
          | some left =>
            some ([Op.wd 0, Op.fwd 0 (argminO ((diskCands t0 tinf cm uf wr l).map some))] ++
              shiftOps (argminO ((diskCands t0 tinf cm uf wr l).map some)) right ++ [Op.rd 0] ++ left)
      else revolveOps t0 uf (l + 1) l cm) = _
    by_cases hcond : (diskCands t0 tinf cm uf wr l).foldl min
        ((diskCands t0 tinf cm uf wr l).headD 0) < opt0Get t0 cm l
    · rw [if_pos hcond, if_pos hcond]
      generalize argminO ((diskCands t0 tinf cm uf wr l).map some) = j
      rw [← ih (lo + j) (l - j), ← shiftOps_revolveOps t0 uf j lo (j - 1) cm]
      cases diskRevolveOps t0 tinf cm uf wr fuel (l - j) with
      | none => rfl
      | some right =>
        cases revolveOps t0 uf j (j - 1) cm with
        | none => rfl
        | some left =>
          simp only [Option.map_some]
          rw [shiftOps_append, shiftOps_append, shiftOps_append, shiftOps_shiftOps]
          simp [shiftOps, shiftOp_wd, shiftOp_fwd, shiftOp_rd]
    · rw [if_neg hcond, if_neg hcond]
      exact shiftOps_revolveOps t0 uf (l + 1) lo l cm

theorem diskSeg_succ (N : Nat) (t0 : Array (Array Nat)) (tinf : Array Nat) (cm uf wr fuel : Nat)
    (spine : Bool) (lo hi : Nat) :
    diskSeg N t0 tinf cm uf wr (fuel + 1) spine lo hi =
      if hi - lo - 1 ≥ 2 ∧ (diskCands t0 tinf cm uf wr (hi - lo - 1)).foldl min
          ((diskCands t0 tinf cm uf wr (hi - lo - 1)).headD 0) < opt0Get t0 cm (hi - lo - 1) then
        match diskSeg N t0 tinf cm uf wr fuel spine
            (lo + argminO ((diskCands t0 tinf cm uf wr (hi - lo - 1)).map some)) hi with
        | none => none
        | some right =>
          match revSeg N t0 uf cm false lo
              (lo + argminO ((diskCands t0 tinf cm uf wr (hi - lo - 1)).map some)) with
          | none => none
          | some left =>
            some ([⟨.forward lo (lo + argminO ((diskCands t0 tinf cm uf wr (hi - lo - 1)).map some))
                true false .disk, lo + argminO ((diskCands t0 tinf cm uf wr (hi - lo - 1)).map some),
                N - hi⟩] ++ right ++
              [⟨.move lo .disk .work, lo,
                N - (lo + argminO ((diskCands t0 tinf cm uf wr (hi - lo - 1)).map some))⟩] ++ left)
      else revSeg N t0 uf cm spine lo hi := by
  rw [diskSeg]
  rfl

/-- the memory-only segment: `revolve(l, cm)` at offset `lo` against `revSeg` -/
theorem revSeg_block (N : Nat) (t0 : Array (Array Nat)) (uf cm lo l fuelO : Nat) (hcm : 1 ≤ cm)
    (hf : l < fuelO) :
    ∃ ops, revOpsAt t0 uf fuelO lo l cm = some ops ∧ KeysOps lo (lo + l + 1) ops ∧ OpsWf ops ∧
      ops ≠ [] ∧
      ∀ (spine : Bool) (tail : List Op) (wrap : Option Op) (S : List (Option Storage × Nat)),
        lo + l + 1 ≤ N → (spine = true ↔ lo + l + 1 = N) → TailOk lo tail → SnapOk lo S →
        ∃ evs, revSeg N t0 uf cm spine lo (lo + l + 1) = some evs ∧
          ∀ pos prev, Conv N wrap pos prev ops tail lo (N - (lo + l + 1)) S evs (lo + 1) (N - lo) S := by
  obtain ⟨ops, hops, hk, hwf, _, hb⟩ := revolve_block N t0 uf fuelO lo l cm hcm hf
  refine ⟨ops, hops, hk, hwf, revOpsAt_ne_nil t0 uf fuelO lo l cm ops hops, ?_⟩
  intro spine tail wrap S hN hsp htail hS
  obtain ⟨⟨evs, hseg, hconv⟩, _⟩ := hb cm 0 (lo + l + 1 - lo + 1) spine tail wrap S hN rfl
    (by omega) hsp htail hS
  exact ⟨evs, hseg, hconv⟩

theorem convAct_dd (n : Nat) : convAct (Op.dd n) = .ok ⟨.discardDisk, n, none, some .disk⟩ := rfl
theorem opKeyOf_rd (n : Nat) : opKeyOf (Op.rd n) = (some .disk, n) := rfl
theorem opKeyOf_wd (n : Nat) : opKeyOf (Op.wd n) = (some .disk, n) := rfl

/-- **the block theorem for DiskRevolve** -/
theorem disk_block (N : Nat) (t0 : Array (Array Nat)) (tinf : Array Nat) (cm uf wr : Nat)
    (hcm : 1 ≤ cm) :
    ∀ (fuel lo l : Nat), l < fuel →
      ∃ ops, diskOpsAt t0 tinf cm uf wr fuel lo l = some ops ∧ KeysOps lo (lo + l + 1) ops ∧
        OpsWf ops ∧ ops ≠ [] ∧
        ∀ (fuelS : Nat) (spine : Bool) (tail : List Op) (wrap : Option Op)
          (S : List (Option Storage × Nat)),
          lo + l + 1 ≤ N → l + 1 ≤ fuelS → (spine = true ↔ lo + l + 1 = N) → TailOk lo tail →
          SnapOk lo S →
          ∃ evs, diskSeg N t0 tinf cm uf wr fuelS spine lo (lo + l + 1) = some evs ∧
            ∀ pos prev, Conv N wrap pos prev ops tail lo (N - (lo + l + 1)) S evs (lo + 1) (N - lo) S := by
  intro fuel
  induction fuel with
  | zero => intro lo l h; omega
  | succ fuel ih =>
    intro lo l hfuel
    have hl' : lo + l + 1 - lo - 1 = l := by omega
    -- the memory-only case
    have hmem : ∀ ops, revOpsAt t0 uf (l + 1) lo l cm = some ops →
        (¬ (l ≥ 2 ∧ (diskCands t0 tinf cm uf wr l).foldl min
          ((diskCands t0 tinf cm uf wr l).headD 0) < opt0Get t0 cm l)) →
        KeysOps lo (lo + l + 1) ops ∧ OpsWf ops ∧ ops ≠ [] ∧
        ∀ (fuelS : Nat) (spine : Bool) (tail : List Op) (wrap : Option Op)
          (S : List (Option Storage × Nat)),
          lo + l + 1 ≤ N → l + 1 ≤ fuelS → (spine = true ↔ lo + l + 1 = N) → TailOk lo tail →
          SnapOk lo S →
          ∃ evs, diskSeg N t0 tinf cm uf wr fuelS spine lo (lo + l + 1) = some evs ∧
            ∀ pos prev, Conv N wrap pos prev ops tail lo (N - (lo + l + 1)) S evs (lo + 1) (N - lo) S := by
      intro ops hops hcond
      obtain ⟨ops', hops', hk, hwf, hne, hb⟩ := revSeg_block N t0 uf cm lo l (l + 1) hcm (by omega)
      rw [hops] at hops'
      cases hops'
      refine ⟨hk, hwf, hne, ?_⟩
      intro fuelS spine tail wrap S hN hf hsp htail hS
      obtain ⟨f, rfl⟩ : ∃ f, fuelS = f + 1 := ⟨fuelS - 1, by omega⟩
      obtain ⟨evs, hseg, hconv⟩ := hb spine tail wrap S hN hsp htail hS
      refine ⟨evs, ?_, hconv⟩
      rw [diskSeg_succ, hl', if_neg hcond]
      exact hseg
    rw [diskOpsAt]
    by_cases h0 : l = 0
    · subst h0
      rw [if_pos rfl]
      have : revOpsAt t0 uf (0 + 1) lo 0 cm = some (turnOps lo ++ [Op.dm lo]) := by
        rw [revOpsAt, if_pos rfl]
      refine ⟨_, rfl, KeysOps.of_noTouch (opTouches_turn lo), wf_turn lo, by simp [turnOps], ?_⟩
      intro fuelS spine tail wrap S hN hf hsp htail hS
      obtain ⟨f, rfl⟩ : ∃ f, fuelS = f + 1 := ⟨fuelS - 1, by omega⟩
      have hu := segWith_unit N (revolveSplit t0 uf) cm (fun _ => Storage.ram) 1 false spine
        (lo + 0) 0
      refine ⟨?w, ?h1, ?h2⟩
      case h1 =>
        rw [diskSeg_succ, if_neg (by omega)]
        unfold revSeg
        rw [show lo + 0 + 1 - lo + 1 = 1 + 1 by omega]
        exact hu
      case h2 =>
        intro pos prev
        refine Conv.congr (turn_block N wrap pos prev tail lo S (by omega)) rfl (by simp) ?_ rfl rfl
        by_cases hNN : lo + 0 + 1 = N
        · have : spine = true := hsp.2 hNN
          subst this
          have h2 : lo + 1 = N := by omega
          simp [turnEvs, fwdEvs, h2]
        · have : spine = false := by
            cases spine with
            | false => rfl
            | true => exact absurd (hsp.1 rfl) hNN
          subst this
          have h2 : ¬ lo + 1 = N := by omega
          simp [turnEvs, fwdEvs, h2]
    rw [if_neg h0]
    by_cases h1 : l = 1
    · subst h1
      rw [if_pos rfl, if_neg (by omega : ¬ cm = 0)]
      have hrev : revOpsAt t0 uf (1 + 1) lo 1 cm =
          some ([Op.wm lo, Op.fwd lo (lo + 1)] ++ turnOps (lo + 1) ++ qLoop lo 0) := by
        rw [revOpsAt, if_neg (by omega), if_neg (by omega), if_pos (Or.inl rfl)]
      exact ⟨_, rfl, hmem _ hrev (by omega)⟩
    rw [if_neg h1]
    have hl2 : 2 ≤ l := by omega
    by_cases hcond : (diskCands t0 tinf cm uf wr l).foldl min
        ((diskCands t0 tinf cm uf wr l).headD 0) < opt0Get t0 cm l
    · -- a disk split
      rw [if_pos hcond]
      have hne : diskCands t0 tinf cm uf wr l ≠ [] := by
        intro h
        have := congrArg List.length h
        simp [diskCands] at this
        omega
      have hrange := argminO_map_some_range _ hne
      have hlen : (diskCands t0 tinf cm uf wr l).length = l - 1 := by simp [diskCands]
      rw [hlen] at hrange
      generalize hj : argminO ((diskCands t0 tinf cm uf wr l).map some) = j at hrange ⊢
      obtain ⟨hj1, hj2⟩ := hrange
      obtain ⟨R, hR, hRk, hRwf, hRne, hRb⟩ := ih (lo + j) (l - j) (by omega)
      obtain ⟨L, hL, hLk, hLwf, hLne, hLb⟩ := revSeg_block N t0 uf cm lo (j - 1) j hcm (by omega)
      have hLram := revOpsAt_ram t0 uf j lo (j - 1) cm L hL
      rw [hR, hL]
      dsimp only
      have hRk' : KeysOps (lo + j) (lo + l + 1) R := by
        rw [show lo + j + (l - j) + 1 = lo + l + 1 by omega] at hRk; exact hRk
      have hLk' : KeysOps lo (lo + j) L := by
        rw [show lo + (j - 1) + 1 = lo + j by omega] at hLk; exact hLk
      have hlist : [Op.wd lo, Op.fwd lo (lo + j)] ++ R ++ [Op.rd lo] ++ L =
          Op.wd lo :: Op.fwd lo (lo + j) :: (R ++ (Op.rd lo :: L)) := by simp
      rw [hlist]
      refine ⟨_, rfl, ?_, ?_, by simp, ?_⟩
      · intro o ho ht
        rcases List.mem_cons.1 ho with rfl | ho
        · rw [opKeyOf_wd]; exact ⟨le_refl _, by show lo < lo + l + 1; omega⟩
        rcases List.mem_cons.1 ho with rfl | ho
        · cases ht
        rcases List.mem_append.1 ho with ho | ho
        · have := hRk' o ho ht; omega
        rcases List.mem_cons.1 ho with rfl | ho
        · rw [opKeyOf_rd]; exact ⟨le_refl _, by show lo < lo + l + 1; omega⟩
        · have := hLk' o ho ht; omega
      · intro o ho
        rcases List.mem_cons.1 ho with rfl | ho
        · exact ⟨_, convAct_wd lo⟩
        rcases List.mem_cons.1 ho with rfl | ho
        · exact ⟨_, convAct_fwd _ _ (by omega)⟩
        rcases List.mem_append.1 ho with ho | ho
        · exact hRwf o ho
        rcases List.mem_cons.1 ho with rfl | ho
        · exact ⟨_, convAct_rd lo⟩
        · exact hLwf o ho
      · intro fuelS spine tail wrap S hN hf hsp htail hS
        obtain ⟨f, rfl⟩ : ∃ f, fuelS = f + 1 := ⟨fuelS - 1, by omega⟩
        have hkey : (some Storage.disk, lo) ∉ S := by
          intro h; have := hS _ h; simp at this
        have hneN : ¬ lo + j = N := by omega
        have htailR : TailOk (lo + j) ((Op.rd lo :: L) ++ tail) := by
          intro o ho ht
          rcases List.mem_append.1 ho with ho | ho
          · rcases List.mem_cons.1 ho with rfl | ho
            · rw [opKeyOf_rd]; show lo < lo + j; omega
            · exact (hLk' o ho ht).2
          · have := htail o ho ht; omega
        obtain ⟨evsR, hsegR, hconvR⟩ := hRb f spine ((Op.rd lo :: L) ++ tail) wrap
          ((some .disk, lo) :: S) (by omega) (by omega)
          (by rw [show lo + j + (l - j) + 1 = lo + l + 1 by omega]; exact hsp) htailR
          (hS.cons (by omega) _)
        obtain ⟨evsL, hsegL, hconvL⟩ := hLb false tail wrap S (by omega)
          (by constructor
              · intro h; cases h
              · intro h; omega) htail hS
        rw [show lo + j + (l - j) + 1 = lo + l + 1 by omega] at hsegR
        rw [show lo + (j - 1) + 1 = lo + j by omega] at hsegL
        refine ⟨[⟨.forward lo (lo + j) true false .disk, lo + j, N - (lo + l + 1)⟩] ++ evsR ++
          [⟨.move lo .disk .work, lo, N - (lo + j)⟩] ++ evsL, ?_, ?_⟩
        · rw [diskSeg_succ, hl', if_pos ⟨hl2, hcond⟩, hj, hsegR, hsegL]
        · intro pos prev
          have hlast : isLastAt (Op.rd lo) (L ++ tail) = true := by
            unfold isLastAt
            rw [opKeyOf_rd, lastRd_skip _ _ _ (fun o ho ht he => by
              have := hLram o ho ht
              rw [he] at this
              cases this)]
            exact lastRd_tail lo tail htail _ lo (le_refl _)
          refine Conv.evs (evs' := [] ++ (fwdEvs N lo (lo + j) (N - (lo + l + 1)) true false .disk ++
            (evsR ++ ([⟨.move lo .disk .work, lo, N - (lo + j)⟩] ++ evsL)))) ?_
            (by simp [fwdEvs, hneN])
          refine Conv.cons (n1 := lo) (r1 := N - (lo + l + 1)) (S1 := S)
            (step_noop N _ _ _ _ _ lo _ S _ (convAct_wd lo) (Or.inr (Or.inr ⟨rfl, rfl⟩))) ?_
          refine Conv.cons (n1 := lo + j) (r1 := N - (lo + l + 1)) (S1 := (some .disk, lo) :: S) ?_ ?_
          · rw [if_neg (by omega)]
            exact step_fwd_write N _ _ _ _ lo (lo + j) _ S _ .disk (convAct_wd lo) rfl rfl rfl
              (by omega) (fun h => absurd h hneN) hkey
          refine Conv.append (n1 := lo + j + 1) (r1 := N - (lo + j)) (S1 := (some .disk, lo) :: S)
            hRne ?_ ?_
          · exact Conv.congr (hconvR _ _) rfl (by omega) rfl rfl rfl
          refine Conv.cons (n1 := lo) (r1 := N - (lo + j)) (S1 := S) ?_ ?_
          · rw [hlast]
            exact step_read_last N _ _ _ _ _ _ S _ .disk (convAct_rd lo) rfl rfl hkey
          · exact Conv.congr (hconvL _ _) rfl (by omega) rfl rfl rfl
    · rw [if_neg hcond]
      obtain ⟨ops, hops, _⟩ := revSeg_block N t0 uf cm lo l (l + 1) hcm (by omega)
      exact ⟨ops, hops, hmem ops hops (fun h => hcond h.2)⟩

/-- **Refinement for DiskRevolve**: the twin (`disk_revolve(N-1, cm, …)` converted by `_iterator`)
yields exactly the stream of the recursive model. -/
theorem diskRevolveTwin_eq (N cm : Nat) (c : Costs) (hN : 1 ≤ N) (hcm : 1 ≤ cm) :
    diskRevolveTwin N cm c = diskRevolveEvs N cm c := by
  obtain ⟨ops, hops, _, hwf, _, hblock⟩ := disk_block N (opt0Table (N - 1) cm c.uf c.ub)
    (optInfTable (N - 1) cm c.uf c.ub (c.wd + c.rd) (opt0Table (N - 1) cm c.uf c.ub)) cm c.uf
    (c.wd + c.rd) hcm N 0 (N - 1) (by omega)
  obtain ⟨evs, hseg, hconv⟩ := hblock (N + 1) true [] ops.getLast? []
    (by omega) (by omega) (by constructor <;> intro _ <;> [omega; rfl])
    (by intro o ho; cases ho) (by intro k hk; cases hk)
  have hhi : 0 + (N - 1) + 1 = N := by omega
  rw [hhi] at hseg hconv
  have htop : diskRevolveOpsTop N cm c = some ops := by
    unfold diskRevolveOpsTop
    dsimp only
    have := shiftOps_diskRevolveOps (opt0Table (N - 1) cm c.uf c.ub)
      (optInfTable (N - 1) cm c.uf c.ub (c.wd + c.rd) (opt0Table (N - 1) cm c.uf c.ub)) cm c.uf
      (c.wd + c.rd) N 0 (N - 1)
    rw [hops] at this
    cases hd : diskRevolveOps (opt0Table (N - 1) cm c.uf c.ub)
        (optInfTable (N - 1) cm c.uf c.ub (c.wd + c.rd) (opt0Table (N - 1) cm c.uf c.ub)) cm c.uf
        (c.wd + c.rd) N (N - 1) with
    | none => rw [hd] at this; cases this
    | some x =>
      rw [hd, Option.map_some] at this
      have hx : shiftOps 0 x = x := by
        unfold shiftOps
        rw [← List.map_id x]
        simp only [List.map_map]
        apply List.map_congr_left
        intro o _
        obtain ⟨k, lv, a, b⟩ := o
        cases k <;> simp [shiftOp]
      rw [hx] at this
      exact this
  have h1 : diskRevolveTwin N cm c = .ok (evs ++ [⟨.endReverse, 1, N⟩]) := by
    unfold diskRevolveTwin twinOf
    rw [htop]
    exact convertOps_of_conv N ops hwf evs (0 + 1) (N - 0)
      (Conv.congr (hconv 0 none) rfl (by omega) rfl rfl rfl)
  have h2 : diskRevolveEvs N cm c = .ok (evs ++ [⟨.endReverse, 1, N⟩]) := by
    unfold diskRevolveEvs
    dsimp only
    rw [hseg]
  rw [h1, h2]

end Ckpt.Ops
