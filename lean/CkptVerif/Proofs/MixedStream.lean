import CkptVerif.Proofs.MixedSegLemmas
/-!
# The Mixed stream depends on the planner only through the cells it queries (C16, stream part)

* `mseg_congr` / `mixedEvs_congr`: two planners that agree on all keys `(m, k)` with `m ≤ M`,
  `k ≤ K` give the same stream (no assumption on the planners; also failing runs agree).
* `mseg_congr_valid` / `mixedEvs_congr_valid`: if one of the planners has the shape `PlanHyp`,
  agreement on the VALID keys (`1 ≤ m`, `validKey m (clampS m k)`) in range is enough, because the
  recursion only ever queries valid keys.
* `mixedEvs_tab_eq_memo`: the stream driven by the tabulated planner (numba path) is the stream
  driven by the memoised planner.
-/
namespace Ckpt

/-- planners agreeing on all keys in range give the same segment stream -/
theorem mseg_congr (N : Nat) (plan1 plan2 : Planner) (st : Storage) (M K : Nat)
    (hag : ∀ m k, m ≤ M → k ≤ K → plan1 m k = plan2 m k) :
    ∀ (fuel lo hi k : Nat) (spine reuse : Bool), hi - lo ≤ M → k ≤ K →
      mseg N plan1 st fuel lo hi k spine reuse = mseg N plan2 st fuel lo hi k spine reuse := by
  intro fuel
  induction fuel with
  | zero => intro lo hi k spine reuse _ _; rfl
  | succ fuel ih =>
    intro lo hi k spine reuse hM hK
    rw [mseg, mseg, ← hag (hi - lo) k hM hK]
    cases hp : plan1 (hi - lo) k with
    | none => rfl
    | some c =>
      dsimp only
      by_cases h1 : c.kind = stForwardReverse
      · simp only [h1, if_true]
      · simp only [h1, if_false]
        by_cases h2 : c.kind = stWriteAdjDeps
        · simp only [h2, if_true]
          by_cases hg1 : c.len ≠ 1 ∨ reuse = true ∨ k = 0 ∨ hi - lo < 2
          · simp only [hg1, if_true]
          · simp only [hg1, if_false]
            rw [ih (lo + 1) hi (k - 1) spine false (by omega) (by omega)]
        · simp only [h2, if_false]
          by_cases h3 : c.kind = stWriteIcs
          · simp only [h3, if_true]
            by_cases hg1 : c.len < 2 ∨ hi - lo ≤ c.len ∨ k = 0
            · simp only [hg1, if_true]
            · simp only [hg1, if_false]
              rw [ih (lo + c.len) hi (k - 1) spine false (by omega) (by omega),
                hag c.len k (by omega) hK]
              cases mseg N plan2 st fuel (lo + c.len) hi (k - 1) spine false with
              | none => rfl
              | some right =>
                cases plan2 c.len k with
                | none => rfl
                | some c2 =>
                  dsimp only
                  rw [ih lo (lo + c.len) k false (decide (c2.kind = stWriteIcs)) (by omega) hK]
          · simp only [h3, if_false]

theorem mixedEvs_congr (plan1 plan2 : Planner) (N s : Nat) (st : Storage)
    (hag : ∀ m k, m ≤ N → k ≤ min s (N - 1) → plan1 m k = plan2 m k) :
    mixedEvs plan1 N s st = mixedEvs plan2 N s st := by
  unfold mixedEvs
  rw [mseg_congr N plan1 plan2 st N (min s (N - 1)) hag N 0 N (min s (N - 1)) true false
    (by omega) (le_refl _)]

/-- along the recursion of a well-shaped planner only valid keys are queried: agreement on valid
keys is enough, and the segment stream exists -/
theorem mseg_congr_valid (N : Nat) (plan1 plan2 : Planner) (st : Storage) (M K : Nat)
    (hp : PlanHyp plan1)
    (hag : ∀ m k, 1 ≤ m → m ≤ M → k ≤ K → (m = 1 ∨ 1 ≤ k) → plan1 m k = plan2 m k) :
    ∀ (fuel : Nat) (spine reuse : Bool) (lo hi k : Nat),
      hi - lo ≤ fuel → lo < hi → hi - lo ≤ M → k ≤ K → (hi - lo = 1 ∨ 1 ≤ k) →
      (reuse = true → ∃ c, plan1 (hi - lo) k = some c ∧ c.kind = stWriteIcs) →
      ∃ evs, mseg N plan1 st fuel lo hi k spine reuse = some evs ∧
        mseg N plan2 st fuel lo hi k spine reuse = some evs := by
  intro fuel
  induction fuel with
  | zero => intro _ _ lo hi _ h1 h2; omega
  | succ fuel ih =>
    intro spine reuse lo hi k hfuel hlt hM hK hvalid hreuse
    by_cases hbase : hi = lo + 1
    · subst hbase
      obtain ⟨c, hc, hck, hcl⟩ := hp.one k
      have hm : lo + 1 - lo = 1 := by omega
      have hru : reuse = false := by
        cases reuse with
        | false => rfl
        | true =>
          obtain ⟨c', hc', hk'⟩ := hreuse rfl
          rw [hm, hc] at hc'
          cases hc'
          rw [hck] at hk'
          exact absurd hk' (by decide)
      subst hru
      have hc' : plan2 1 k = some c := by
        rw [← hag 1 k (le_refl _) (by omega) hK (Or.inl rfl)]; exact hc
      exact ⟨_, mseg_FR N plan1 st fuel lo (lo + 1) k spine c (by rw [hm]; exact hc) hck hm hcl,
        mseg_FR N plan2 st fuel lo (lo + 1) k spine c (by rw [hm]; exact hc') hck hm hcl⟩
    · have hm2 : 2 ≤ hi - lo := by omega
      have hk1 : 1 ≤ k := by omega
      obtain ⟨c, hc, hcase⟩ := hp.big (hi - lo) k hm2 hk1
      have hc' : plan2 (hi - lo) k = some c := by
        rw [← hag (hi - lo) k (by omega) hM hK (Or.inr hk1)]; exact hc
      rcases hcase with ⟨hck, hcl, hk2⟩ | ⟨hck, hl2, hlm, hlone⟩
      · have hru : reuse = false := by
          cases reuse with
          | false => rfl
          | true =>
            obtain ⟨c', hc', hk'⟩ := hreuse rfl
            rw [hc] at hc'
            cases hc'
            rw [hck] at hk'
            exact absurd hk' (by decide)
        subst hru
        obtain ⟨right, hr1, hr2⟩ := ih spine false (lo + 1) hi (k - 1)
          (by omega) (by omega) (by omega) (by omega) (by omega) (by simp)
        exact ⟨_, mseg_WAD N plan1 st fuel lo hi k spine c right hc hck hcl (by omega) hm2 hr1,
          mseg_WAD N plan2 st fuel lo hi k spine c right hc' hck hcl (by omega) hm2 hr2⟩
      · have hln : c.len < hi - lo := by omega
        obtain ⟨c2, hc2, _⟩ := hp.big c.len k hl2 hk1
        have hc2' : plan2 c.len k = some c2 := by
          rw [← hag c.len k (by omega) (by omega) hK (Or.inr hk1)]; exact hc2
        obtain ⟨right, hr1, hr2⟩ := ih spine false (lo + c.len) hi (k - 1)
          (by omega) (by omega) (by omega) (by omega)
          (by
            by_cases hk : k = 1
            · left; have := hlone hk; omega
            · right; omega)
          (by simp)
        obtain ⟨left, hl1, hl2'⟩ := ih false (decide (c2.kind = stWriteIcs)) lo (lo + c.len) k
          (by omega) (by omega) (by omega) hK (Or.inr hk1)
          (by
            intro h
            refine ⟨c2, ?_, by simpa using h⟩
            rw [show lo + c.len - lo = c.len by omega]; exact hc2)
        exact ⟨_, mseg_WICS N plan1 st fuel lo hi k spine reuse c c2 right left hc hck hl2 hln
            (by omega) hr1 hc2 hl1,
          mseg_WICS N plan2 st fuel lo hi k spine reuse c c2 right left hc' hck hl2 hln
            (by omega) hr2 hc2' hl2'⟩

/-- Two planners that agree on every valid key `(m, k)`, `1 ≤ m ≤ N`, `k ≤ min s (N-1)`, one of
them of the right shape, give the same Mixed stream. -/
theorem mixedEvs_congr_valid (plan1 plan2 : Planner) (hp : PlanHyp plan1) (N s : Nat)
    (st : Storage) (hN : 1 ≤ N) (hs : min 1 (N - 1) ≤ s)
    (hag : ∀ m k, 1 ≤ m → m ≤ N → k ≤ min s (N - 1) → validKey m (clampS m k) = true →
      plan1 m k = plan2 m k) :
    mixedEvs plan1 N s st = mixedEvs plan2 N s st := by
  obtain ⟨evs, h1, h2⟩ := mseg_congr_valid N plan1 plan2 st N (min s (N - 1)) hp
    (fun m k hm1 hmN hk hv => hag m k hm1 hmN hk ((validKey_clamp_iff m k).2 ⟨hm1, hv⟩))
    N true false 0 N (min s (N - 1)) (by omega) (by omega) (by omega) (le_refl _) (by omega)
    (by simp)
  unfold mixedEvs
  rw [h1, h2]

/-! ## the tabulated planner -/

/-- on a successfully built table the two planners of the driver agree on EVERY key in range
(on invalid keys both answer `none`) -/
theorem tabPlan_eq_memoPlan_all (n s : Nat) (t : Array (Array TCell))
    (ht : mixedTab n s = some t) (m k : Nat) (hmn : m ≤ n) (hks : k ≤ s) :
    tabPlan t m k = memoPlan m k := by
  by_cases hv : validKey m (clampS m k) = true
  · exact tabPlan_eq_memoPlan n s t ht m k ((validKey_clamp_iff m k).1 hv).1 hmn hks hv
  · have hn : 1 ≤ n := by
      by_contra h
      have : n = 0 := by omega
      subst this
      rw [mixedTab_zero] at ht
      cases ht
    obtain ⟨t', ht', h⟩ := mixedTab_expect n s hn
    rw [ht] at ht'
    cases ht'
    have hcell : tabGet t m k = tNone := by
      rw [h m k hmn hks]; unfold expect; rw [if_neg hv]
    have h1 : tabPlan t m k = none := by
      show (if (tabGet t m k).kind = stNone ∨ (tabGet t m k).cost < 0 then none else _) = none
      rw [hcell, if_pos (Or.inl (show tNone.kind = stNone from rfl))]
    have h2 : memoPlan m k = none := by
      show (if validKey m (clampS m k) = true then _ else none) = none
      rw [if_neg hv]
    rw [h1, h2]

/-- C16 (stream part): the numba path yields the same stream as the memoised path, whenever the
table is large enough (`N ≤ n`, `min s (N-1) ≤ s'`). -/
theorem mixedEvs_tab_eq_memo (n s' : Nat) (t : Array (Array TCell))
    (ht : mixedTab n s' = some t) (N s : Nat) (st : Storage) (hNn : N ≤ n)
    (hs : min s (N - 1) ≤ s') :
    mixedEvs (tabPlan t) N s st = mixedEvs memoPlan N s st :=
  mixedEvs_congr (tabPlan t) memoPlan N s st
    (fun m k hm hk => tabPlan_eq_memoPlan_all n s' t ht m k (by omega) (by omega))

/-- the same through the valid-keys route (for valid `(N, s)`), using only
`tabPlan_eq_memoPlan` -/
theorem mixedEvs_tab_eq_memo_valid (n s' : Nat) (t : Array (Array TCell))
    (ht : mixedTab n s' = some t) (N s : Nat) (st : Storage) (hN : 1 ≤ N)
    (hsv : min 1 (N - 1) ≤ s) (hNn : N ≤ n) (hs : min s (N - 1) ≤ s') :
    mixedEvs memoPlan N s st = mixedEvs (tabPlan t) N s st :=
  mixedEvs_congr_valid memoPlan (tabPlan t) memoPlan_hyp N s st hN hsv
    (fun m k hm1 hmN hk hv =>
      (tabPlan_eq_memoPlan n s' t ht m k hm1 (by omega) (by omega) hv).symm)

end Ckpt
