import CkptVerif.Proofs.MixedPlans
import CkptVerif.Proofs.LowerBound
import CkptVerif.Proofs.MixedOk
import CkptVerif.Proofs.MixedSteps
/-!
# C06: no executable schedule beats the mixed dynamic program

`C06_full`: every action stream that the checking executor `Spec/Exec.lean` accepts without a single
violation for the configuration `cfgMixed s st N` ("offline, `N` steps, at most `s` units in the storage
`st`, each holding EITHER one restart checkpoint OR the adjoint dependency data of one step, one adjoint
calculation, working storage holds the adjoint dependency data of one step") and that completes the
adjoint calculation performs at least `optimal_steps_mixed(N, s)` forward steps.  No structure is
assumed of the stream.  `C06_mixed_optimal`: the stream of `MixedCheckpointSchedule` attains the bound.

Proof: backward induction along the stream with the potential of `Proofs/MixedPlans.lean`: at every
state, some plan costs no more than the forward steps still to come.
-/
namespace Ckpt.MX
open Ckpt Ckpt.Mean

/-- what is assumed of the configuration: offline, one adjoint calculation, `s` units, all in the
storage `st0` -/
structure MxHyp (cfg : Cfg) (s : Nat) (st0 : Storage) : Prop where
  store : st0 = .ram ∨ st0 = .disk
  ram : cfg.ram = some (if st0 = .ram then s else 0)
  disk : cfg.disk = some (if st0 = .disk then s else 0)
  passes : cfg.passes = some 1
  keeps : cfg.keepsAllDeps = false
  offline : cfg.online = false

theorem MxHyp.cfgHyp {cfg : Cfg} {s : Nat} {st0 : Storage} (H : MxHyp cfg s st0) : GW.CfgHyp cfg s := by
  refine ⟨⟨_, _, H.ram, H.disk, ?_⟩, H.passes, H.keeps, H.offline⟩
  rcases H.store with h | h <;> subst h <;> simp

theorem mxHyp_cfgMixed (s N : Nat) (st : Storage) (hst : st = .ram ∨ st = .disk) :
    MxHyp (cfgMixed s st N) s st := by
  rcases hst with h | h <;> subst h <;> exact ⟨by simp, rfl, rfl, rfl, rfl, rfl⟩

/-- a checkpoint that fits the budget lives in the storage `st0` -/
theorem store_eq {cfg : Cfg} {s : Nat} {st0 : Storage} (H : MxHyp cfg s st0) {c : Cp} {cps : List Cp}
    (hs : c.st.isStore = true) (hb : withinBudget cfg (c :: cps) = true) : c.st = st0 := by
  rw [withinBudget_iff] at hb
  have h1 := hb.1 _ H.ram
  have h2 := hb.2 _ H.disk
  rw [countSt_cons] at h1 h2
  rcases H.store with h | h <;> subst h
  · cases hc : c.st <;> simp [hc, Storage.isStore] at hs h1 h2 ⊢
  · cases hc : c.st <;> simp [hc, Storage.isStore] at hs h1 h2 ⊢

/-- the resource a stored checkpoint stands for: a restart checkpoint is a forward state, a checkpoint
without restart data holds the adjoint dependency data of a step -/
def cpRes (c : Cp) : Nat × Bool := (c.n, decide (c.ics = 0))

/-- the resources of a state: the stored checkpoints and the forward state in working storage -/
def avail (x : XS) : List (Nat × Bool) := x.cps.map cpRes ++ x.fwd.toList.map (fun f => (f, false))

/-- invariant of the accepted prefixes -/
structure Inv (cfg : Cfg) (s : Nat) (st0 : Storage) (x : XS) : Prop where
  fin : x.fin = true
  r_le : x.r ≤ cfg.N
  cps : ∀ c ∈ x.cps, c.st = st0 ∧ (c.ics = 0 → c.deps = 1) ∧ (0 < c.ics → c.deps = 0)
  len : x.cps.length ≤ s
  deps : x.wDeps = none ∨ ∃ p, x.wDeps = some (p, p + 1) ∧ cfg.N - x.r ≤ p + 1 ∧
    (cfg.N - x.r = p + 1 → x.fwd = some (p + 1) ∨ x.fwd = none)
  done : 1 ≤ x.done → x.r = cfg.N

/-- the potential: a plan for the current state costs at most `n` -/
def Pot (cfg : Cfg) (s : Nat) (x : XS) (n : Nat) : Prop :=
  (GW.Flagged cfg x → Reach s (avail x) (cfg.N - x.r - 1) n) ∧
  (¬ GW.Flagged cfg x → Reach s (avail x) (cfg.N - x.r) n)

theorem mem_avail {x : XS} {r : Nat × Bool} :
    r ∈ avail x ↔ (∃ c ∈ x.cps, cpRes c = r) ∨ (x.fwd = some r.1 ∧ r.2 = false) := by
  unfold avail
  rw [List.mem_append, List.mem_map]
  obtain ⟨r1, r2⟩ := r
  cases x.fwd <;> simp [eq_comm]

theorem length_le_of_inv {cfg : Cfg} {s : Nat} {st0 : Storage} (H : MxHyp cfg s st0) (l : List Cp)
    (h : ∀ c ∈ l, c.st = st0) (hb : withinBudget cfg l = true) : l.length ≤ s := by
  apply GW.length_le_of_budget H.cfgHyp l _ hb
  intro c hc
  rw [h c hc]
  rcases H.store with h | h <;> subst h <;> rfl

/-! ## the steps of the executor -/

theorem fwd_store_clean {cfg : Cfg} {x : XS} {n0 n1 : Nat} {wi wa : Bool} {st : Storage}
    (hfin : x.fin = true) (hs : st.isStore = true)
    (h : actViols cfg x (.forward n0 n1 wi wa st) = []) :
    (wi = true → wa = false) ∧ (wa = true → n1 = n0 + 1) ∧ findCp x.cps n0 st = none := by
  have hclip : clip cfg x n1 = n1 := by simp [clip, hfin]
  simp only [actViols, hclip, List.append_eq_nil_iff, GW.chk_nil_iff] at h
  obtain ⟨⟨_, h6⟩, _⟩ := h
  rw [if_pos hs] at h6
  simp only [List.append_eq_nil_iff, GW.chk_nil_iff] at h6
  obtain ⟨⟨⟨h1, h2⟩, h3⟩, _⟩ := h6
  refine ⟨?_, ?_, ?_⟩
  · intro hwi; cases wa <;> simp [hwi] at h1 ⊢
  · intro hwa; simpa [hwa] using h2
  · simpa using h3

theorem step_forward {cfg : Cfg} {s : Nat} {st0 : Storage} (H : MxHyp cfg s st0) {x : XS}
    (hinv : Inv cfg s st0 x) {n0 n1 : Nat} {wi wa : Bool} {st : Storage}
    (h : actViols cfg x (.forward n0 n1 wi wa st) = []) :
    Inv cfg s st0 (nextState cfg x (.forward n0 n1 wi wa st)) ∧
    ∀ n, Pot cfg s (nextState cfg x (.forward n0 n1 wi wa st)) n → Pot cfg s x (n + (n1 - n0)) := by
  obtain ⟨hlt, hfwd, hle, hstore, hwork⟩ := GW.fwd_clean hinv.fin h
  have hclip : clip cfg x n1 = n1 := by simp [clip, hinv.fin]
  -- the state after the action
  generalize hx' : nextState cfg x (.forward n0 n1 wi wa st) = x'
  have e_fwd : x'.fwd = some n1 := by rw [← hx']; simp only [nextState, hclip]
  have e_r : x'.r = x.r := by rw [← hx']; rfl
  have e_done : x'.done = x.done := by rw [← hx']; rfl
  have e_fin : x'.fin = true := by rw [← hx']; simp only [nextState, hinv.fin, Bool.true_or]
  have e_deps : x'.wDeps = if st = .work ∧ wa = true then some (n0, n1) else none := by
    rw [← hx']; simp only [nextState, hclip]
  have e_cps : x'.cps = if st.isStore = true
      then { n := n0, st := st, ics := if wi = true then n1 - n0 else 0,
             deps := if wa = true then n1 - n0 else 0 } :: x.cps else x.cps := by
    rw [← hx']; simp only [nextState, hclip]
  have hst0 : st.isStore = true → st = st0 := fun hs =>
    store_eq H (c := { n := n0, st := st, ics := 0, deps := 0 }) hs (hstore hs).2
  have hInv : Inv cfg s st0 x' := by
    refine ⟨e_fin, by rw [e_r]; exact hinv.r_le, ?_, ?_, ?_, by rw [e_done, e_r]; exact hinv.done⟩
    · intro c hc
      rw [e_cps] at hc
      by_cases hs : st.isStore = true
      · rw [if_pos hs] at hc
        rcases List.mem_cons.mp hc with rfl | hc
        · obtain ⟨hx1, hx2, _⟩ := fwd_store_clean hinv.fin hs h
          refine ⟨hst0 hs, ?_, ?_⟩
          · intro hi
            cases wi
            · have hwa : wa = true := by simpa using (hstore hs).1
              have := hx2 hwa
              simp only [hwa, if_true]
              omega
            · simp only [if_true] at hi; omega
          · intro hi
            cases wi
            · simp at hi
            · simp [hx1 rfl]
        · exact hinv.cps c hc
      · rw [if_neg hs] at hc
        exact hinv.cps c hc
    · rw [e_cps]
      by_cases hs : st.isStore = true
      · rw [if_pos hs]
        apply length_le_of_inv H
        · intro c hc
          rcases List.mem_cons.mp hc with rfl | hc
          · exact hst0 hs
          · exact (hinv.cps c hc).1
        · have hb := (hstore hs).2
          refine withinBudget_mono (b := { n := n0, st := st, ics := 0, deps := 0 } :: x.cps) ?_ hb
          intro s'
          exact le_of_eq (by rw [countSt_cons, countSt_cons])
      · rw [if_neg hs]; exact hinv.len
    · rw [e_deps, e_r, e_fwd]
      by_cases hw : st = .work ∧ wa = true
      · rw [if_pos hw]
        obtain ⟨h1, h2⟩ := hwork hw.1 hw.2 H.keeps
        right
        exact ⟨n0, by rw [h1], by omega, fun _ => Or.inl (by rw [h1])⟩
      · rw [if_neg hw]; left; rfl
  refine ⟨hInv, ?_⟩
  intro n hp
  -- the state before is not flagged: the forward state would stand at the adjoint position
  have hnf : ¬ GW.Flagged cfg x := by
    rintro ⟨ha, hd⟩
    rcases hinv.deps with h0 | ⟨p, hp1, hp2, hp3⟩
    · rw [h0] at hd; cases hd
    · rw [hp1] at hd
      simp only [Option.some.injEq, Prod.mk.injEq] at hd
      rcases hp3 (by omega) with this | this
      · rw [hfwd] at this
        simp only [Option.some.injEq] at this
        omega
      · rw [hfwd] at this; cases this
  refine ⟨fun hf => absurd hf hnf, fun _ => ?_⟩
  have hn0 : (n0, false) ∈ avail x := mem_avail.mpr (Or.inr ⟨hfwd, rfl⟩)
  by_cases hw : st = .work ∧ wa = true
  · -- the turn-around
    obtain ⟨h1, h2⟩ := hwork hw.1 hw.2 H.keeps
    have hns : ¬ st.isStore = true := by rw [hw.1]; decide
    have hfl : GW.Flagged cfg x' := by
      refine ⟨by rw [e_r]; omega, ?_⟩
      rw [e_deps, if_pos hw, e_r]
      have : cfg.N - x.r - 1 = n0 := by omega
      rw [this, ← h2]
    have hr := hp.1 hfl
    rw [e_r] at hr
    have e1 : n1 - n0 = 1 := by omega
    rw [e1]
    have ea : cfg.N - x.r - 1 = n0 := by omega
    have ha1 : 1 ≤ cfg.N - x.r := by omega
    have hmem : (cfg.N - x.r - 1, false) ∈ avail x := by rw [ea]; exact hn0
    have := reach_top (C := x.cps.map cpRes) false ha1 hmem
      (by rw [List.length_map]; simpa using hinv.len) ?_ ?_ hr
    · simpa using this
    · intro e he hlt'
      rcases mem_avail.mp he with ⟨c, hc, rfl⟩ | ⟨he, _⟩
      · rw [e_cps, if_neg hns] at hc
        exact List.mem_map.mpr ⟨c, hc, rfl⟩
      · rw [e_fwd] at he
        simp only [Option.some.injEq] at he
        omega
    · intro e he
      obtain ⟨c, hc, rfl⟩ := List.mem_map.mp he
      exact mem_avail.mpr (Or.inl ⟨c, hc, rfl⟩)
  · have hnf' : ¬ GW.Flagged cfg x' := by
      rintro ⟨_, hd⟩
      rw [e_deps, if_neg hw] at hd
      cases hd
    have hr := hp.2 hnf'
    rw [e_r] at hr
    by_cases hsd : st.isStore = true ∧ wa = true
    · -- the adjoint dependency data of the step go into a unit
      obtain ⟨hs, hwa⟩ := hsd
      obtain ⟨hx1, hx2, hx3⟩ := fwd_store_clean hinv.fin hs h
      have hwi : wi = false := by
        cases wi
        · rfl
        · have := hx1 rfl; rw [hwa] at this; cases this
      have hn1 := hx2 hwa
      have e1 : n1 - n0 = 1 := by omega
      rw [e1]
      refine reach_fwd_dep hn0 ?_ ?_ hr
      · intro e he
        rcases mem_avail.mp he with ⟨c, hc, rfl⟩ | ⟨he, he2⟩
        · rw [e_cps, if_pos hs] at hc
          rcases List.mem_cons.mp hc with rfl | hc
          · right; left
            simp [cpRes, hwi]
          · right; right
            exact mem_avail.mpr (Or.inl ⟨c, hc, rfl⟩)
        · rw [e_fwd] at he
          simp only [Option.some.injEq] at he
          left
          obtain ⟨e1, e2⟩ := e
          simp only at he he2
          rw [← he, he2, hn1]
      · intro hmem
        rcases mem_avail.mp hmem with ⟨c, hc, hcr⟩ | ⟨he, _⟩
        · rw [e_cps, if_pos hs] at hc
          rcases List.mem_cons.mp hc with rfl | hc
          · simp [cpRes, hwi] at hcr
          · have hcn : c.n = n0 := congrArg Prod.fst hcr
            exact (findCp_eq_none_iff.mp hx3) c hc ⟨hcn, by rw [(hinv.cps c hc).1, hst0 hs]⟩
        · rw [e_fwd] at he
          simp only [Option.some.injEq] at he
          omega
    · refine reach_fwd hn0 hlt ?_ hr
      intro e he
      rcases mem_avail.mp he with ⟨c, hc, rfl⟩ | ⟨he, he2⟩
      · rw [e_cps] at hc
        by_cases hs : st.isStore = true
        · rw [if_pos hs] at hc
          rcases List.mem_cons.mp hc with rfl | hc
          · right
            have hwa : wa = false := by
              cases wa
              · rfl
              · exact absurd ⟨hs, rfl⟩ hsd
            have hwi : wi = true := by simpa [hwa] using (hstore hs).1
            refine mem_avail.mpr (Or.inr ⟨hfwd, ?_⟩)
            simp only [cpRes, hwi, if_true, decide_eq_false_iff_not]
            omega
          · exact Or.inr (mem_avail.mpr (Or.inl ⟨c, hc, rfl⟩))
        · rw [if_neg hs] at hc
          exact Or.inr (mem_avail.mpr (Or.inl ⟨c, hc, rfl⟩))
      · rw [e_fwd] at he
        simp only [Option.some.injEq] at he
        left
        obtain ⟨e1, e2⟩ := e
        simp only at he he2
        rw [← he, he2]

/-- an action that neither moves the adjoint nor creates a resource -/
theorem step_loadlike {cfg : Cfg} {s : Nat} {st0 : Storage} {x x' : XS} (hinv : Inv cfg s st0 x)
    (hr : x'.r = x.r) (hdone : x'.done = x.done) (hfin : x'.fin = x.fin)
    (hcps : ∀ c ∈ x'.cps, c.st = st0 ∧ (c.ics = 0 → c.deps = 1) ∧ (0 < c.ics → c.deps = 0))
    (hlen : x'.cps.length ≤ s)
    (havail : ∀ e ∈ avail x', e ∈ avail x)
    (hdeps : (x'.wDeps = x.wDeps ∧ x'.fwd = x.fwd) ∨ (x'.wDeps = none ∧ x.wDeps = none)) :
    Inv cfg s st0 x' ∧ ∀ n, Pot cfg s x' n → Pot cfg s x n := by
  have hfl : GW.Flagged cfg x' ↔ GW.Flagged cfg x := by
    unfold GW.Flagged
    rw [hr]
    rcases hdeps with ⟨h1, _⟩ | ⟨h1, h2⟩
    · rw [h1]
    · rw [h1, h2]
  refine ⟨⟨by rw [hfin]; exact hinv.fin, by rw [hr]; exact hinv.r_le, hcps, hlen, ?_,
    by rw [hdone, hr]; exact hinv.done⟩, ?_⟩
  · rcases hdeps with ⟨h1, h2⟩ | ⟨h1, _⟩
    · rw [h1, h2, hr]; exact hinv.deps
    · left; exact h1
  · intro n hp
    refine ⟨fun hf => ?_, fun hf => ?_⟩
    · have := hp.1 (hfl.mpr hf)
      rw [hr] at this
      exact reach_sub havail this
    · have := hp.2 (fun h => hf (hfl.mp h))
      rw [hr] at this
      exact reach_sub havail this

theorem load_clean {cfg : Cfg} {x : XS} {n : Nat} {src dst : Storage}
    (h : actViols.loadViols cfg x n src dst = []) :
    ∃ c, findCp x.cps n src = some c ∧ (dst = .work → x.wDeps = none) ∧
      (dst.isStore = true → withinBudget cfg ({ c with st := dst } :: x.cps) = true) ∧
      (c.ics = 0 → n + 1 = cfg.N - x.r) := by
  obtain ⟨c, hf, h1, h2⟩ := GW.load_clean h
  refine ⟨c, hf, h1, h2, ?_⟩
  simp only [actViols.loadViols, List.append_eq_nil_iff, GW.chk_nil_iff] at h
  obtain ⟨_, h3⟩ := h
  rw [hf] at h3
  simp only [List.append_eq_nil_iff, GW.chk_nil_iff] at h3
  obtain ⟨⟨⟨_, h4⟩, _⟩, _⟩ := h3
  intro hi
  rw [if_neg (by omega), GW.chk_nil_iff, decide_eq_true_eq] at h4
  exact h4

/-- `Copy` and `Move` at once: `cps0` is what is left of the stored checkpoints -/
theorem step_load_gen {cfg : Cfg} {s : Nat} {st0 : Storage} (H : MxHyp cfg s st0) {x : XS}
    (hinv : Inv cfg s st0 x)
    {n : Nat} {dst : Storage} {c : Cp} (hcm : c ∈ x.cps) (hcn : c.n = n)
    (hwork : dst = .work → x.wDeps = none)
    (hstore : dst.isStore = true → withinBudget cfg ({ c with st := dst } :: x.cps) = true)
    (hdepn : c.ics = 0 → n + 1 = cfg.N - x.r)
    (cps0 : List Cp) (hsub : ∀ c' ∈ cps0, c' ∈ x.cps) (hlen0 : cps0.length ≤ x.cps.length)
    (hcount : ∀ s', countSt cps0 s' ≤ countSt x.cps s')
    (x' : XS)
    (hx' : x' = if dst = .work then
        { x with cps := if dst.isStore then { c with st := dst } :: cps0 else cps0,
                 fwd := if c.ics > 0 then some n else none,
                 wIcs := if c.ics > 0 then some (n, n + c.ics) else none,
                 wDeps := if c.deps > 0 then some (n, n + c.deps) else none }
      else { x with cps := if dst.isStore then { c with st := dst } :: cps0 else cps0 }) :
    Inv cfg s st0 x' ∧ ∀ m, Pot cfg s x' m → Pot cfg s x m := by
  obtain ⟨hcst, hcd1, hcd0⟩ := hinv.cps c hcm
  have hcps0 : ∀ c' ∈ cps0, c'.st = st0 ∧ (c'.ics = 0 → c'.deps = 1) ∧ (0 < c'.ics → c'.deps = 0) :=
    fun c' hc' => hinv.cps c' (hsub c' hc')
  have havail0 : ∀ c' ∈ cps0, cpRes c' ∈ avail x :=
    fun c' hc' => mem_avail.mpr (Or.inl ⟨c', hsub c' hc', rfl⟩)
  by_cases hdw : dst = .work
  · subst hdw
    have hw := hwork rfl
    by_cases hics : 0 < c.ics
    · -- a restart checkpoint is loaded
      have hd0 := hcd0 hics
      have e : x' = { x with cps := cps0, fwd := some n, wIcs := some (n, n + c.ics),
                             wDeps := none } := by
        rw [hx']; simp [Storage.isStore, hd0, hics]
      subst e
      apply step_loadlike hinv
      · rfl
      · rfl
      · rfl
      · exact hcps0
      · exact le_trans hlen0 hinv.len
      · intro e he
        rcases mem_avail.mp he with ⟨c', hc', rfl⟩ | ⟨he, he2⟩
        · exact havail0 c' hc'
        · refine mem_avail.mpr (Or.inl ⟨c, hcm, ?_⟩)
          obtain ⟨e1, e2⟩ := e
          simp only [Option.some.injEq] at he he2
          simp only [cpRes, Prod.mk.injEq, hcn, he, he2, decide_eq_false_iff_not, true_and]
          omega
      · right; exact ⟨rfl, hw⟩
    · -- the adjoint dependency data of the step below the adjoint are loaded
      have hi0 : c.ics = 0 := by omega
      have hd1 := hcd1 hi0
      have hna := hdepn hi0
      have e : x' = { x with cps := cps0, fwd := none, wIcs := none,
                             wDeps := some (n, n + 1) } := by
        rw [hx']; simp [Storage.isStore, hd1, hi0]
      have e_r : x'.r = x.r := by rw [e]
      have e_cps : x'.cps = cps0 := by rw [e]
      have e_fwd : x'.fwd = none := by rw [e]
      have e_deps : x'.wDeps = some (n, n + 1) := by rw [e]
      have e_fin : x'.fin = x.fin := by rw [e]
      have e_done : x'.done = x.done := by rw [e]
      have hfl' : GW.Flagged cfg x' := by
        refine ⟨by rw [e_r]; omega, ?_⟩
        rw [e_deps, e_r, ← hna]; rfl
      have hnfl : ¬ GW.Flagged cfg x := by
        rintro ⟨_, hd⟩; rw [hw] at hd; cases hd
      refine ⟨⟨by rw [e_fin]; exact hinv.fin, by rw [e_r]; exact hinv.r_le,
        by rw [e_cps]; exact hcps0, by rw [e_cps]; exact le_trans hlen0 hinv.len, ?_,
        by rw [e_done, e_r]; exact hinv.done⟩, ?_⟩
      · right
        exact ⟨n, e_deps, by rw [e_r]; omega, fun _ => Or.inr e_fwd⟩
      · intro m hp
        refine ⟨fun hf => absurd hf hnfl, fun _ => ?_⟩
        have hr := hp.1 hfl'
        rw [e_r] at hr
        have hmem : (cfg.N - x.r - 1, true) ∈ avail x := by
          refine mem_avail.mpr (Or.inl ⟨c, hcm, ?_⟩)
          simp only [cpRes, Prod.mk.injEq, hcn, hi0, decide_true, and_true]
          omega
        have hflen : (x.cps.filter (fun c' => decide (c'.n ≠ n))).length + 1 ≤ s := by
          have : (x.cps.filter (fun c' => decide (c'.n ≠ n))).length < x.cps.length := by
            rw [List.length_filter_lt_length_iff_exists]
            exact ⟨c, hcm, by simp [hcn]⟩
          have := hinv.len
          omega
        have := reach_top (C := (x.cps.filter (fun c' => decide (c'.n ≠ n))).map cpRes) true
          (by omega) hmem (by rw [List.length_map]; simpa using hflen) ?_ ?_ hr
        · simpa using this
        · intro e he hlt'
          rcases mem_avail.mp he with ⟨c', hc', rfl⟩ | ⟨he, _⟩
          · rw [e_cps] at hc'
            refine List.mem_map.mpr ⟨c', List.mem_filter.mpr ⟨hsub c' hc', ?_⟩, rfl⟩
            have : c'.n < cfg.N - x.r - 1 := hlt'
            simp only [ne_eq, decide_not, Bool.not_eq_eq_eq_not, Bool.not_true, decide_eq_false_iff_not]
            omega
          · rw [e_fwd] at he; cases he
        · intro e he
          obtain ⟨c', hc', rfl⟩ := List.mem_map.mp he
          exact mem_avail.mpr (Or.inl ⟨c', (List.mem_filter.mp hc').1, rfl⟩)
  · by_cases hds : dst.isStore = true
    · have e : x' = { x with cps := { c with st := dst } :: cps0 } := by
        rw [hx', if_neg hdw, if_pos hds]
      subst e
      have hb := hstore hds
      have hdst : dst = st0 := store_eq H (c := { c with st := dst }) hds hb
      apply step_loadlike hinv
      · rfl
      · rfl
      · rfl
      · intro c' hc'
        rcases List.mem_cons.mp hc' with rfl | hc'
        · exact ⟨hdst, hcd1, hcd0⟩
        · exact hcps0 c' hc'
      · apply length_le_of_inv H
        · intro c' hc'
          rcases List.mem_cons.mp hc' with rfl | hc'
          · exact hdst
          · exact (hcps0 c' hc').1
        · refine withinBudget_mono ?_ hb
          intro s'
          rw [countSt_cons, countSt_cons]
          have := hcount s'
          omega
      · intro e he
        rcases mem_avail.mp he with ⟨c', hc', rfl⟩ | he
        · rcases List.mem_cons.mp hc' with rfl | hc'
          · exact mem_avail.mpr (Or.inl ⟨c, hcm, rfl⟩)
          · exact havail0 c' hc'
        · exact mem_avail.mpr (Or.inr he)
      · left; exact ⟨rfl, rfl⟩
    · have e : x' = { x with cps := cps0 } := by
        rw [hx', if_neg hdw, if_neg hds]
      subst e
      apply step_loadlike hinv
      · rfl
      · rfl
      · rfl
      · exact hcps0
      · exact le_trans hlen0 hinv.len
      · intro e he
        rcases mem_avail.mp he with ⟨c', hc', rfl⟩ | he
        · exact havail0 c' hc'
        · exact mem_avail.mpr (Or.inr he)
      · left; exact ⟨rfl, rfl⟩

theorem step_copy {cfg : Cfg} {s : Nat} {st0 : Storage} (H : MxHyp cfg s st0) {x : XS}
    (hinv : Inv cfg s st0 x) {n : Nat} {src dst : Storage} (h : actViols cfg x (.copy n src dst) = []) :
    Inv cfg s st0 (nextState cfg x (.copy n src dst)) ∧
    ∀ m, Pot cfg s (nextState cfg x (.copy n src dst)) m → Pot cfg s x m := by
  obtain ⟨c, hf, hwork, hstore, hdepn⟩ :=
    load_clean (show actViols.loadViols cfg x n src dst = [] from h)
  obtain ⟨hcm, hcn, _⟩ := findCp_some hf
  exact step_load_gen H hinv hcm hcn hwork hstore hdepn x.cps (fun _ h => h) (le_refl _)
    (fun _ => le_refl _) _ (by simp only [nextState, hf])

theorem step_move {cfg : Cfg} {s : Nat} {st0 : Storage} (H : MxHyp cfg s st0) {x : XS}
    (hinv : Inv cfg s st0 x) {n : Nat} {src dst : Storage} (h : actViols cfg x (.move n src dst) = []) :
    Inv cfg s st0 (nextState cfg x (.move n src dst)) ∧
    ∀ m, Pot cfg s (nextState cfg x (.move n src dst)) m → Pot cfg s x m := by
  obtain ⟨c, hf, hwork, hstore, hdepn⟩ :=
    load_clean (show actViols.loadViols cfg x n src dst = [] from h)
  obtain ⟨hcm, hcn, _⟩ := findCp_some hf
  exact step_load_gen H hinv hcm hcn hwork hstore hdepn (eraseCp x.cps n src)
    (fun _ h => mem_eraseCp h) (List.length_filter_le _ _) (fun s' => countSt_eraseCp_le _ _ _ _) _
    (by simp only [nextState, hf])

theorem step_reverse {cfg : Cfg} {s : Nat} {st0 : Storage} {x : XS} (hinv : Inv cfg s st0 x)
    {n1 n0 : Nat} {cl : Bool} (h : actViols cfg x (.reverse n1 n0 cl) = []) :
    Inv cfg s st0 (nextState cfg x (.reverse n1 n0 cl)) ∧
    ∀ m, Pot cfg s (nextState cfg x (.reverse n1 n0 cl)) m → Pot cfg s x m := by
  simp only [actViols, List.append_eq_nil_iff, GW.chk_nil_iff, decide_eq_true_eq] at h
  obtain ⟨⟨⟨hlt, _⟩, hn1⟩, hcov⟩ := h
  obtain ⟨p, q, hw, hp, hq⟩ := covers_iff.mp hcov
  -- the dependency data are those of the step just below the adjoint: one step is reversed
  rcases hinv.deps with h0 | ⟨p', hw', hle', hfw'⟩
  · rw [h0] at hw; cases hw
  rw [hw'] at hw
  simp only [Option.some.injEq, Prod.mk.injEq] at hw
  obtain ⟨rfl, rfl⟩ := hw
  have ha : cfg.N - x.r = p' + 1 := by omega
  have hn0 : n0 = p' := by omega
  have hfl : GW.Flagged cfg x := ⟨by omega, by rw [hw', ha]; rfl⟩
  generalize hx' : nextState cfg x (.reverse n1 n0 cl) = x'
  have e_r : x'.r = x.r + 1 := by rw [← hx']; show x.r + (n1 - n0) = _; omega
  have e_cps : x'.cps = x.cps := by rw [← hx']; rfl
  have e_fwd : x'.fwd = x.fwd := by rw [← hx']; rfl
  have e_fin : x'.fin = x.fin := by rw [← hx']; rfl
  have e_done : x'.done = x.done := by rw [← hx']; rfl
  have e_deps : x'.wDeps = if cl = true then none else x.wDeps := by rw [← hx']; rfl
  have e_avail : avail x' = avail x := by unfold avail; rw [e_cps, e_fwd]
  have hnf' : ¬ GW.Flagged cfg x' := by
    rintro ⟨h1, h2⟩
    rw [e_deps] at h2
    split at h2
    · cases h2
    · rw [hw', e_r] at h2
      simp only [Option.some.injEq, Prod.mk.injEq] at h2
      omega
  refine ⟨⟨by rw [e_fin]; exact hinv.fin, by rw [e_r]; omega, by rw [e_cps]; exact hinv.cps,
    by rw [e_cps]; exact hinv.len, ?_, ?_⟩, ?_⟩
  · rw [e_deps]
    split
    · left; rfl
    · right
      exact ⟨p', hw', by rw [e_r]; omega, by rw [e_r]; intro h; omega⟩
  · rw [e_done, e_r]
    intro hd
    have := hinv.done hd
    omega
  · intro m hp
    have := hp.2 hnf'
    rw [e_avail, e_r] at this
    have e : cfg.N - (x.r + 1) = cfg.N - x.r - 1 := by omega
    rw [e] at this
    exact ⟨fun _ => this, fun hf => absurd hfl hf⟩

theorem step_endForward {cfg : Cfg} {s : Nat} {st0 : Storage} {x : XS} (hinv : Inv cfg s st0 x) :
    Inv cfg s st0 (nextState cfg x .endForward) ∧
    ∀ m, Pot cfg s (nextState cfg x .endForward) m → Pot cfg s x m := by
  apply step_loadlike hinv
  · rfl
  · rfl
  · rfl
  · exact hinv.cps
  · exact hinv.len
  · intro e he; exact he
  · left; exact ⟨rfl, rfl⟩

theorem step_endReverse {cfg : Cfg} {s : Nat} {st0 : Storage} (H : MxHyp cfg s st0) {x : XS}
    (hinv : Inv cfg s st0 x) (h : actViols cfg x .endReverse = []) :
    Inv cfg s st0 (nextState cfg x .endReverse) ∧
    ∀ m, Pot cfg s (nextState cfg x .endReverse) m → Pot cfg s x m := by
  simp only [actViols, List.append_eq_nil_iff, GW.chk_nil_iff, decide_eq_true_eq] at h
  obtain ⟨⟨_, hr⟩, _⟩ := h
  have e : nextState cfg x .endReverse = { x with done := x.done + 1 } := by
    simp only [nextState, H.passes]
    have : decide (x.done + 1 < 1) = false := by simp
    rw [this]
    rfl
  rw [e]
  have hinv' : Inv cfg s st0 { x with done := x.done + 1 } :=
    ⟨hinv.fin, hinv.r_le, hinv.cps, hinv.len, hinv.deps, fun _ => hr⟩
  exact ⟨hinv', fun m hp => hp⟩

/-- **One accepted step**: the invariant is kept, and a plan for the state after the step gives a plan
for the state before it that costs at most the forward steps of the action more. -/
theorem step_pot {cfg : Cfg} {s : Nat} {st0 : Storage} (H : MxHyp cfg s st0) {x : XS}
    (hinv : Inv cfg s st0 x) (o : Obs) (hclean : stepViols cfg x o = []) :
    Inv cfg s st0 (nextState cfg x o.act) ∧
    ∀ m, Pot cfg s (nextState cfg x o.act) m → Pot cfg s x (m + GW.actFwd o.act) := by
  unfold stepViols at hclean
  simp only [List.append_eq_nil_iff] at hclean
  obtain ⟨⟨_, hact⟩, _⟩ := hclean
  cases ho : o.act with
  | forward n0 n1 wi wa st =>
    rw [ho] at hact
    exact step_forward H hinv hact
  | reverse n1 n0 cl =>
    rw [ho] at hact
    exact step_reverse hinv hact
  | copy n src dst =>
    rw [ho] at hact
    exact step_copy H hinv hact
  | move n src dst =>
    rw [ho] at hact
    exact step_move H hinv hact
  | endForward => exact step_endForward hinv
  | endReverse =>
    rw [ho] at hact
    exact step_endReverse H hinv hact

/-! ## the whole stream -/

/-- backward induction: a clean run from `x` that ends finished performs at least as many forward
steps as the cheapest plan for `x` costs -/
theorem run_pot {cfg : Cfg} {s : Nat} {st0 : Storage} (H : MxHyp cfg s st0) (os : List Obs) :
    ∀ (i : Nat) (x : XS), Inv cfg s st0 x → (runFrom cfg i x os).2 = [] →
      finished cfg (runFrom cfg i x os).1 = true → Pot cfg s x (GW.obsFwdSteps os) := by
  induction os with
  | nil =>
    intro i x hinv _ hfin
    have hdone : 1 ≤ x.done := by
      have : finished cfg x = true := hfin
      unfold finished at this
      rw [H.passes] at this
      simpa using this
    have hr := hinv.done hdone
    have ha : cfg.N - x.r = 0 := by omega
    refine ⟨fun hf => ?_, fun _ => ?_⟩
    · have := hf.1; omega
    · rw [ha]; exact reach_final s _
  | cons o os ih =>
    intro i x hinv hclean hfin
    rw [runFrom_snd_cons, List.append_eq_nil_iff, List.map_eq_nil_iff] at hclean
    have hfin' : finished cfg (runFrom cfg (i + 1) (nextState cfg x o.act) os).1 = true := by
      rw [runFrom_fst_eq] at hfin ⊢
      exact hfin
    obtain ⟨hinv', hstep⟩ := step_pot H hinv o hclean.1
    have := ih (i + 1) _ hinv' hclean.2 hfin'
    have := hstep _ this
    rw [GW.obsFwdSteps_cons, Nat.add_comm]
    exact this

theorem inv_init {cfg : Cfg} {s : Nat} {st0 : Storage} (H : MxHyp cfg s st0) :
    Inv cfg s st0 (XS.init cfg) := by
  exact
    { fin := by simp [XS.init, H.offline]
      r_le := Nat.zero_le _
      cps := fun c hc => absurd hc List.not_mem_nil
      len := Nat.zero_le _
      deps := Or.inl rfl
      done := fun h => by simp [XS.init] at h }

/-- **The lower bound** for a configuration with `s` units in one storage -/
theorem lowerBound {cfg : Cfg} {s : Nat} {st0 : Storage} (H : MxHyp cfg s st0) (hN : 1 ≤ cfg.N)
    (os : List Obs) (hclean : (run cfg os).2 = []) (hdone : finished cfg (run cfg os).1 = true) :
    mP cfg.N s ≤ GW.obsFwdSteps os := by
  have hp := run_pot H os 0 (XS.init cfg) (inv_init H) hclean hdone
  have hnf : ¬ GW.Flagged cfg (XS.init cfg) := by
    rintro ⟨_, h⟩
    simp [XS.init] at h
  have := hp.2 hnf
  have e : avail (XS.init cfg) = [(0, false)] := rfl
  have e2 : cfg.N - (XS.init cfg).r = cfg.N := rfl
  rw [e, e2] at this
  exact reach_init hN this


/-! ## C06 -/

/-- **C06, the lower bound.**  Configuration `cfgMixed s st N`: offline, `N` steps, at most `s` units
in the storage `st` (RAM or disk), each holding either one restart checkpoint or the adjoint dependency
data of one step; one adjoint calculation; working storage holds the adjoint dependency data of one
step.  ANY stream of observations that the checking executor accepts without a violation and that
completes the adjoint calculation performs at least `optimal_steps_mixed(N, s)` forward steps. -/
theorem C06_lower (N s : Nat) (st : Storage) (hN : 1 ≤ N) (hst : st = .ram ∨ st = .disk)
    (os : List Obs) (hclean : (run (cfgMixed s st N) os).2 = [])
    (hdone : finished (cfgMixed s st N) (run (cfgMixed s st N) os).1 = true) :
    optMixedCell N (clampS N s) ≤ GW.obsFwdSteps os := by
  have := lowerBound (mxHyp_cfgMixed s N st hst) hN os hclean hdone
  have e : mP (cfgMixed s st N).N s = mP N s := rfl
  rw [e, ← mP_clamp s hN] at this
  exact this

/-- **C06_full**: for the documented parameters (`N ≥ 1`, `s ≥ min(1, N-1)`, RAM or disk) the published
helper `optimal_steps_mixed(N, s)` returns a value, and no accepted complete stream of `cfgMixed s st N`
performs fewer forward steps. -/
theorem C06_full (N s : Nat) (st : Storage) (hv : validMixed N s st = true) :
    ∃ v, optMixedSpec N s = some v ∧ v = optMixedCell N (clampS N s) ∧
      ∀ os : List Obs, (run (cfgMixed s st N) os).2 = [] →
        finished (cfgMixed s st N) (run (cfgMixed s st N) os).1 = true → v ≤ GW.obsFwdSteps os := by
  simp only [validMixed, Bool.and_eq_true, Bool.or_eq_true, decide_eq_true_eq] at hv
  obtain ⟨⟨hN, hs⟩, hst⟩ := hv
  refine ⟨optMixedCell N (clampS N s), ?_, rfl, fun os hc hd => C06_lower N s st hN hst os hc hd⟩
  show (if validKey N (clampS N s) = true then some (optMixedCell N (clampS N s)) else none) = _
  rw [if_pos ((validKey_clamp_iff N s).2 ⟨hN, by omega⟩)]

/-! ## the bound is attained: Mixed is optimal among all executable schedules -/

theorem obsFwdSteps_obsRec (N : Nat) (evs : List Ev) : GW.obsFwdSteps (obsRec N evs) = fwdSteps evs := by
  induction evs with
  | nil => rfl
  | cons e es ih =>
    rw [obsRec, GW.obsFwdSteps_cons, ih]
    show e.fwdLen + fwdSteps es = fwdSteps (e :: es)
    simp [fwdSteps]

/-- the decorated stream performs the forward steps of the events -/
theorem obsFwdSteps_obsOffline (N : Nat) (evs : List Ev) :
    GW.obsFwdSteps (obsOffline N evs) = fwdSteps evs := by
  rw [obsOffline_eq_rec, obsFwdSteps_obsRec]

/-- the observations of the `MixedCheckpointSchedule` stream: accepted, complete, and exactly
`optimal_steps_mixed(N, s)` forward steps -/
theorem mixed_obs (N s : Nat) (st : Storage) (hv : validMixed N s st = true) :
    ∃ evs, mixedEvs memoPlan N s st = .ok evs ∧
      (run (cfgMixed s st N) (obsOffline N evs)).2 = [] ∧
      finished (cfgMixed s st N) (run (cfgMixed s st N) (obsOffline N evs)).1 = true ∧
      GW.obsFwdSteps (obsOffline N evs) = fwdSteps evs ∧
      fwdSteps evs = optMixedCell N (clampS N s) := by
  have hv' := hv
  simp only [validMixed, Bool.and_eq_true, Bool.or_eq_true, decide_eq_true_eq] at hv'
  obtain ⟨⟨hN, hs⟩, hst⟩ := hv'
  obtain ⟨evs, sn, f, hevs, _, hclean⟩ := mixed_clean N s st hst hN hs
  refine ⟨_, hevs, ?_, ?_, obsFwdSteps_obsOffline _ _, mixed_fwdSteps_optMixed N s st hN hs _ hevs⟩
  · rw [obsOffline_snoc_endReverse]; exact hclean.run_viols
  · rw [obsOffline_snoc_endReverse, hclean.run_state]; rfl

/-- **C06, complete**: the stream of `MixedCheckpointSchedule(N, s, storage)` is accepted by the
executor, completes the adjoint calculation, and among ALL accepted complete streams of
`cfgMixed s st N` it performs the minimum number of forward steps. -/
theorem C06_mixed_optimal (N s : Nat) (st : Storage) (hv : validMixed N s st = true) :
    ∃ evs, mixedEvs memoPlan N s st = .ok evs ∧
      (run (cfgMixed s st N) (obsOffline N evs)).2 = [] ∧
      finished (cfgMixed s st N) (run (cfgMixed s st N) (obsOffline N evs)).1 = true ∧
      GW.obsFwdSteps (obsOffline N evs) = fwdSteps evs ∧
      optMixedSpec N s = some (fwdSteps evs) ∧
      ∀ os : List Obs, (run (cfgMixed s st N) os).2 = [] →
        finished (cfgMixed s st N) (run (cfgMixed s st N) os).1 = true →
        fwdSteps evs ≤ GW.obsFwdSteps os := by
  obtain ⟨evs, hevs, hc, hd, h1, h2⟩ := mixed_obs N s st hv
  simp only [validMixed, Bool.and_eq_true, Bool.or_eq_true, decide_eq_true_eq] at hv
  refine ⟨evs, hevs, hc, hd, h1, mixed_fwdSteps_optMixedSpec N s st hv.1.1 hv.1.2 evs hevs,
    fun os hc' hd' => ?_⟩
  rw [h2]
  exact C06_lower N s st hv.1.1 hv.2 os hc' hd'

/-! ### non-vacuity and concrete instances -/

/-- a hand-written accepted stream for `N = 3`, `s = 1` with `5 = optimal_steps_mixed(3, 1)` forward
steps: the restart checkpoint at `0` is later replaced by the dependency data of step `0` -/
def demoStream : List Obs :=
  [⟨.forward 0 2 true false .ram, 2, 0, some 3, false, true⟩,
   ⟨.forward 2 3 false true .work, 3, 0, some 3, false, true⟩,
   ⟨.endForward, 3, 0, some 3, false, true⟩,
   ⟨.reverse 3 2 true, 3, 1, some 3, false, true⟩,
   ⟨.move 0 .ram .work, 0, 1, some 3, false, true⟩,
   ⟨.forward 0 1 false true .ram, 1, 1, some 3, false, true⟩,
   ⟨.forward 1 2 false true .work, 2, 1, some 3, false, true⟩,
   ⟨.reverse 2 1 true, 2, 2, some 3, false, true⟩,
   ⟨.move 0 .ram .work, 0, 2, some 3, false, true⟩,
   ⟨.reverse 1 0 true, 0, 3, some 3, false, true⟩,
   ⟨.endReverse, 0, 3, some 3, true, true⟩]

/-- the hypotheses of `C06_lower` are satisfiable, and the bound is attained -/
example : (run (cfgMixed 1 .ram 3) demoStream).2 = [] ∧
    finished (cfgMixed 1 .ram 3) (run (cfgMixed 1 .ram 3) demoStream).1 = true ∧
    GW.obsFwdSteps demoStream = 5 ∧ optMixedCell 3 (clampS 3 1) = 5 := by
  refine ⟨by decide, by decide, by decide, ?_⟩
  have : clampS 3 1 = 1 := by decide
  rw [this]
  exact mP_k1 (n := 3) (le_refl _)

/-- the stream of `Proofs/LowerBound.lean` that beats the binomial optimum: accepted for `cfgMixed`
too, `2 = optimal_steps_mixed(2, 1)` forward steps -/
example : (run (cfgMixed 1 .disk 2) (GW.mixedStream.map
      (fun o => { o with act := relabelAct ramToDisk o.act }))).2 = [] ∧
    (run (cfgMixed 1 .ram 2) GW.mixedStream).2 = [] ∧
    finished (cfgMixed 1 .ram 2) (run (cfgMixed 1 .ram 2) GW.mixedStream).1 = true ∧
    GW.obsFwdSteps GW.mixedStream = 2 ∧ optMixedCell 2 (clampS 2 1) = 2 := by
  refine ⟨by decide, by decide, by decide, by decide, ?_⟩
  have : clampS 2 1 = 1 := by decide
  rw [this]
  exact mP_small (n := 2) (k := 1) (le_refl _)

/-- 3 steps, 1 unit: no accepted stream does it with fewer than 5 forward steps -/
example (os : List Obs) (hclean : (run (cfgMixed 1 .disk 3) os).2 = [])
    (hdone : finished (cfgMixed 1 .disk 3) (run (cfgMixed 1 .disk 3) os).1 = true) :
    5 ≤ GW.obsFwdSteps os := by
  have := C06_lower 3 1 .disk (by decide) (Or.inr rfl) os hclean hdone
  have e : clampS 3 1 = 1 := by decide
  rw [e] at this
  have e2 : optMixedCell 3 1 = 5 := mP_k1 (n := 3) (le_refl _)
  omega

/-- 10 steps, 3 units: no accepted stream does it with fewer than 19 forward steps (restart
checkpoints only: 25, see `Proofs/LowerBound.lean`) -/
example (os : List Obs) (hclean : (run (cfgMixed 3 .ram 10) os).2 = [])
    (hdone : finished (cfgMixed 3 .ram 10) (run (cfgMixed 3 .ram 10) os).1 = true) :
    19 ≤ GW.obsFwdSteps os := by
  have := C06_lower 10 3 .ram (by decide) (Or.inl rfl) os hclean hdone
  have e : clampS 10 3 = 3 := by decide
  rw [e] at this
  have e2 : optMixedCell 10 3 = 19 := by
    rw [← dpGet_optMixedTable 10 4 10 3 (by decide) (by decide)]
    decide
  omega

end Ckpt.MX

#print axioms Ckpt.MX.C06_lower
#print axioms Ckpt.MX.C06_full
#print axioms Ckpt.MX.C06_mixed_optimal
