import CkptVerif.Proofs.MixedSegLemmas
/-!
# The number of forward steps of the Mixed stream, and storage relabelling

`mixed_fwdSteps`: the stream of `MixedCheckpointSchedule(N, s, st)` advances the forward by
exactly `(memoCell N (clampS N s)).cost = optMixedCell N (clampS N s)` steps in total, i.e. the
value published by `optimal_steps_mixed(N, s)`.  `mseg_relabel`: the stream for DISK is the stream
for RAM with the storage label replaced.
-/
namespace Ckpt

/-- steps advanced by one event -/
def Ev.fwdLen (e : Ev) : Nat :=
  match e.act with
  | .forward n0 n1 _ _ _ => n1 - n0
  | _ => 0

/-- total number of forward steps of a stream: sum of `n1 - n0` over the `Forward` events -/
def fwdSteps (evs : List Ev) : Nat := (evs.map Ev.fwdLen).sum

theorem fwdSteps_nil : fwdSteps [] = 0 := rfl

theorem fwdSteps_cons (e : Ev) (evs : List Ev) : fwdSteps (e :: evs) = e.fwdLen + fwdSteps evs := by
  simp [fwdSteps]

theorem fwdSteps_append (as bs : List Ev) : fwdSteps (as ++ bs) = fwdSteps as + fwdSteps bs := by
  simp [fwdSteps]

/-- the forward steps of a segment are the planner's cost for it -/
theorem mseg_fwdSteps (N : Nat) (plan : Planner) (st : Storage) (hp : PlanHyp plan)
    (hcost : PlanCost plan) :
    ∀ (fuel : Nat) (spine reuse : Bool) (lo hi k : Nat),
      hi - lo ≤ fuel → lo < hi → (hi - lo = 1 ∨ 1 ≤ k) →
      (reuse = true → ∃ c, plan (hi - lo) k = some c ∧ c.kind = stWriteIcs) →
      ∃ evs c, mseg N plan st fuel lo hi k spine reuse = some evs ∧
        plan (hi - lo) k = some c ∧ fwdSteps evs = c.cost := by
  intro fuel
  induction fuel with
  | zero => intro _ _ lo hi _ h1 h2; omega
  | succ fuel ih =>
    intro spine reuse lo hi k hfuel hlt hvalid hreuse
    by_cases hbase : hi = lo + 1
    · subst hbase
      obtain ⟨c, hc, hck, hcl⟩ := hp.one k
      have hm : lo + 1 - lo = 1 := by omega
      have hru : reuse = false := by
        cases reuse with
        | false => rfl
        | true =>
          obtain ⟨c', hc', hk'⟩ := hreuse rfl
          rw [hm, hc] at hc'
          cases hc'
          rw [hck] at hk'
          exact absurd hk' (by decide)
      subst hru
      have heq := mseg_FR N plan st fuel lo (lo + 1) k spine c (by rw [hm]; exact hc) hck hm hcl
      refine ⟨_, c, heq, by rw [hm]; exact hc, ?_⟩
      rw [hcost.one k c hc]
      cases spine <;> simp [fwdSteps, Ev.fwdLen]
    · have hm2 : 2 ≤ hi - lo := by omega
      have hk1 : 1 ≤ k := by omega
      obtain ⟨c, hc, hcase⟩ := hp.big (hi - lo) k hm2 hk1
      rcases hcase with ⟨hck, hcl, hk2⟩ | ⟨hck, hl2, hlm, hlone⟩
      · -- WRITE_ADJ_DEPS
        have hru : reuse = false := by
          cases reuse with
          | false => rfl
          | true =>
            obtain ⟨c', hc', hk'⟩ := hreuse rfl
            rw [hc] at hc'
            cases hc'
            rw [hck] at hk'
            exact absurd hk' (by decide)
        subst hru
        obtain ⟨right, cr, hright, hcr, hfr⟩ := ih spine false (lo + 1) hi (k - 1)
          (by omega) (by omega) (by omega) (by simp)
        have heq := mseg_WAD N plan st fuel lo hi k spine c right hc hck hcl (by omega) hm2 hright
        obtain ⟨c', hc', hcc⟩ := hcost.wad (hi - lo) k c hm2 hk1 hc hck
        rw [show hi - (lo + 1) = hi - lo - 1 by omega, hc'] at hcr
        cases hcr
        refine ⟨_, c, heq, hc, ?_⟩
        rw [hcc, fwdSteps_append, fwdSteps_append, hfr]
        simp [fwdSteps, Ev.fwdLen]
      · -- WRITE_ICS
        have hln : c.len < hi - lo := by omega
        obtain ⟨c2, hc2, _⟩ := hp.big c.len k hl2 hk1
        obtain ⟨right, cr, hright, hcr, hfr⟩ := ih spine false (lo + c.len) hi (k - 1)
          (by omega) (by omega)
          (by
            by_cases hk : k = 1
            · left; have := hlone hk; omega
            · right; omega)
          (by simp)
        obtain ⟨left, cl, hleft, hcl, hfl⟩ := ih false (decide (c2.kind = stWriteIcs)) lo
          (lo + c.len) k (by omega) (by omega) (Or.inr hk1)
          (by
            intro h
            refine ⟨c2, ?_, by simpa using h⟩
            rw [show lo + c.len - lo = c.len by omega]; exact hc2)
        have heq := mseg_WICS N plan st fuel lo hi k spine reuse c c2 right left hc hck hl2 hln
          (by omega) hright hc2 hleft
        obtain ⟨c1', c2', hc1', hc2', hcc⟩ := hcost.wics (hi - lo) k c hm2 hk1 hc hck
        rw [show hi - (lo + c.len) = hi - lo - c.len by omega, hc2'] at hcr
        rw [show lo + c.len - lo = c.len by omega, hc1'] at hcl
        cases hcr
        cases hcl
        refine ⟨_, c, heq, hc, ?_⟩
        rw [hcc, fwdSteps_append, fwdSteps_append, fwdSteps_append, hfr, hfl]
        cases reuse <;> by_cases hkk : c2.kind = stWriteIcs <;>
          simp [fwdSteps, Ev.fwdLen, hkk] <;> omega

theorem clampS_min (N s : Nat) : clampS N (min s (N - 1)) = clampS N s := by
  unfold clampS; omega

/-- forward steps of the complete stream, for any planner of the right shape -/
theorem mixed_fwdSteps_plan (plan : Planner) (hp : PlanHyp plan) (hcost : PlanCost plan)
    (N s : Nat) (st : Storage) (hN : 1 ≤ N) (hs : min 1 (N - 1) ≤ s) (evs : List Ev)
    (h : mixedEvs plan N s st = .ok evs) :
    ∃ c, plan N (min s (N - 1)) = some c ∧ fwdSteps evs = c.cost := by
  obtain ⟨evs0, c, hseg, hc, hf⟩ := mseg_fwdSteps N plan st hp hcost N true false 0 N
    (min s (N - 1)) (by omega) (by omega) (by omega) (by simp)
  unfold mixedEvs at h
  rw [hseg] at h
  cases h
  refine ⟨c, hc, ?_⟩
  rw [fwdSteps_append, hf]
  simp [fwdSteps, Ev.fwdLen]

/-- The Mixed schedule performs exactly the planner's number of forward steps. -/
theorem mixed_fwdSteps (N s : Nat) (st : Storage) (hN : 1 ≤ N) (hs : min 1 (N - 1) ≤ s)
    (evs : List Ev) (h : mixedEvs memoPlan N s st = .ok evs) :
    fwdSteps evs = (memoCell N (clampS N s)).cost := by
  obtain ⟨c, hc, hf⟩ := mixed_fwdSteps_plan memoPlan memoPlan_hyp memoPlan_cost N s st hN hs evs h
  rw [memoPlan_valid N (min s (N - 1)) hN (by omega), clampS_min] at hc
  cases hc
  exact hf

/-- … which is the value of `optimal_steps_mixed(N, s)`. -/
theorem mixed_fwdSteps_optMixed (N s : Nat) (st : Storage) (hN : 1 ≤ N) (hs : min 1 (N - 1) ≤ s)
    (evs : List Ev) (h : mixedEvs memoPlan N s st = .ok evs) :
    fwdSteps evs = optMixedCell N (clampS N s) := by
  rw [mixed_fwdSteps N s st hN hs evs h,
    optMixed_eq_memo_cost N (clampS N s) ((validKey_clamp_iff N s).2 ⟨hN, by omega⟩)]

theorem mixed_fwdSteps_optMixedSpec (N s : Nat) (st : Storage) (hN : 1 ≤ N)
    (hs : min 1 (N - 1) ≤ s) (evs : List Ev) (h : mixedEvs memoPlan N s st = .ok evs) :
    optMixedSpec N s = some (fwdSteps evs) := by
  rw [mixed_fwdSteps_optMixed N s st hN hs evs h]
  show (if validKey N (clampS N s) = true then some (optMixedCell N (clampS N s)) else none) = _
  rw [if_pos ((validKey_clamp_iff N s).2 ⟨hN, by omega⟩)]

/-! ## relabelling the storage -/

def relabelAct (g : Storage → Storage) : Action → Action
  | .forward n0 n1 wi wa st => .forward n0 n1 wi wa (g st)
  | .copy n src dst => .copy n (g src) (g dst)
  | .move n src dst => .move n (g src) (g dst)
  | a => a

/-- replace the storage label of `Forward`/`Copy`/`Move` -/
def relabel (g : Storage → Storage) (e : Ev) : Ev := { e with act := relabelAct g e.act }

/-- RAM ↦ DISK, everything else unchanged -/
def ramToDisk : Storage → Storage
  | .ram => .disk
  | x => x

theorem fwdLen_relabel (g : Storage → Storage) (e : Ev) : (relabel g e).fwdLen = e.fwdLen := by
  obtain ⟨a, n, r⟩ := e
  cases a <;> rfl

theorem fwdSteps_relabel (g : Storage → Storage) (evs : List Ev) :
    fwdSteps (evs.map (relabel g)) = fwdSteps evs := by
  induction evs with
  | nil => rfl
  | cons e es ih => rw [List.map_cons, fwdSteps_cons, fwdSteps_cons, ih, fwdLen_relabel]

/-- the stream for storage `g st` is the stream for `st`, relabelled (for any planner, also on
failing runs) -/
theorem mseg_relabel (g : Storage → Storage) (hg : g .work = .work) (N : Nat) (plan : Planner)
    (st : Storage) :
    ∀ (fuel lo hi k : Nat) (spine reuse : Bool),
      mseg N plan (g st) fuel lo hi k spine reuse =
        (mseg N plan st fuel lo hi k spine reuse).map (List.map (relabel g)) := by
  intro fuel
  induction fuel with
  | zero => intro lo hi k spine reuse; rfl
  | succ fuel ih =>
    intro lo hi k spine reuse
    rw [mseg, mseg]
    cases hp : plan (hi - lo) k with
    | none => rfl
    | some c =>
      simp only [ih]
      by_cases h1 : c.kind = stForwardReverse
      · simp only [h1, if_true]
        by_cases hg1 : hi - lo ≠ 1 ∨ c.len ≠ 1 ∨ reuse = true
        · simp only [hg1, if_true]; rfl
        · simp only [hg1, if_false]
          cases spine <;> simp [relabel, relabelAct, hg]
      · simp only [h1, if_false]
        by_cases h2 : c.kind = stWriteAdjDeps
        · simp only [h2, if_true]
          by_cases hg1 : c.len ≠ 1 ∨ reuse = true ∨ k = 0 ∨ hi - lo < 2
          · simp only [hg1, if_true]; rfl
          · simp only [hg1, if_false]
            cases mseg N plan st fuel (lo + 1) hi (k - 1) spine false with
            | none => rfl
            | some right => simp [relabel, relabelAct, hg]
        · simp only [h2, if_false]
          by_cases h3 : c.kind = stWriteIcs
          · simp only [h3, if_true]
            by_cases hg1 : c.len < 2 ∨ hi - lo ≤ c.len ∨ k = 0
            · simp only [hg1, if_true]; rfl
            · simp only [hg1, if_false]
              cases mseg N plan st fuel (lo + c.len) hi (k - 1) spine false with
              | none => rfl
              | some right =>
                cases plan c.len k with
                | none => rfl
                | some c2 =>
                  dsimp only [Option.map_some]
                  generalize decide (c2.kind = stWriteIcs) = b
                  cases mseg N plan st fuel lo (lo + c.len) k false b with
                  | none => rfl
                  | some left =>
                    cases reuse <;> cases b <;> simp [relabel, relabelAct, hg]
          · simp only [h3, if_false]
            rfl

theorem mixedEvs_relabel (g : Storage → Storage) (hg : g .work = .work) (plan : Planner)
    (N s : Nat) (st : Storage) :
    mixedEvs plan N s (g st) = (mixedEvs plan N s st).map (List.map (relabel g)) := by
  unfold mixedEvs
  rw [mseg_relabel g hg]
  cases mseg N plan st N 0 N (min s (N - 1)) true false with
  | none => rfl
  | some evs => simp [Except.map, relabel, relabelAct]

/-- the DISK stream is the RAM stream with the label replaced … -/
theorem mixedEvs_disk (plan : Planner) (N s : Nat) :
    mixedEvs plan N s .disk = (mixedEvs plan N s .ram).map (List.map (relabel ramToDisk)) :=
  mixedEvs_relabel ramToDisk rfl plan N s .ram

/-- … hence both storages give the same number of forward steps -/
theorem mixed_fwdSteps_disk_eq_ram (plan : Planner) (N s : Nat) (er ed : List Ev)
    (hr : mixedEvs plan N s .ram = .ok er) (hd : mixedEvs plan N s .disk = .ok ed) :
    fwdSteps ed = fwdSteps er := by
  rw [mixedEvs_disk, hr] at hd
  cases hd
  exact fwdSteps_relabel _ _

end Ckpt
