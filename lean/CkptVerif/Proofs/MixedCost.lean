import CkptVerif.Proofs.MixedDP
import Mathlib.Tactic
/-!
# Facts about `optimal_steps_mixed`

`mP n k = optMixedCell n k` (`optimal_steps_mixed(n, k)` before the clamp of `cache_step`): the number
of forward steps the mixed dynamic program needs for `n` steps and `k` units.  What the lower bound
`Proofs/MixedLowerBound.lean` needs of it: the two recurrence inequalities (`mP_dep`, `mP_rec`),
that more units never hurt (`mP_anti`), and `n ≤ mP n k`.
-/
namespace Ckpt.MX
open Ckpt

/-- `optimal_steps_mixed(n, k)`, the clamp of `cache_step` left to the caller -/
def mP (n k : Nat) : Nat := optMixedCell n k

theorem mP_small {n k : Nat} (h : n ≤ k + 1) : mP n k = n := by
  unfold mP; rw [optMixedCell_eq n k, optMixedF_def, if_pos h]

theorem mP_one (k : Nat) : mP 1 k = 1 := mP_small (by omega)

theorem mP_k1 {n : Nat} (h : 3 ≤ n) : mP n 1 = n * (n + 1) / 2 - 1 := by
  unfold mP; rw [optMixedCell_eq n 1, optMixedF_def, if_neg (by omega), if_pos rfl]

/-- the clamp of `cache_step` does not change the value -/
theorem mP_clamp {n : Nat} (k : Nat) (hn : 1 ≤ n) : mP n (clampS n k) = mP n k := by
  by_cases h : k ≤ n - 1
  · have : clampS n k = k := by unfold clampS; omega
    rw [this]
  · have : clampS n k = n - 1 := by unfold clampS; omega
    rw [this, mP_small (by omega), mP_small (by omega)]

theorem mP_unfold {n k : Nat} (h1 : k + 1 < n) (h2 : 2 ≤ k) :
    mP n k = minFold (fun i => i + mP i k + mP (n - i) (k - 1)) (1 + mP (n - 1) (k - 1))
      (List.range' 2 (n - 2)) := by
  have e : mP n k = minFold (splitCand n k optMixedCell)
      (1 + optMixedCell (n - 1) (clampS (n - 1) (k - 1))) (List.range' 2 (n - 2)) := by
    unfold mP minFold
    rw [optMixedCell_eq n k, optMixedF_def, if_neg (by omega), if_neg (by omega)]
  rw [e]
  have e1 : optMixedCell (n - 1) (clampS (n - 1) (k - 1)) = mP (n - 1) (k - 1) :=
    mP_clamp (k - 1) (by omega)
  rw [e1]
  unfold minFold
  apply foldl_congr_mem
  intro a i hi
  rw [List.mem_range'_1] at hi
  show min a (splitCand n k optMixedCell i) = min a (i + mP i k + mP (n - i) (k - 1))
  have e2 : splitCand n k optMixedCell i = i + mP i k + mP (n - i) (k - 1) := by
    unfold splitCand
    have := mP_clamp (n := i) k (by omega)
    have := mP_clamp (n := n - i) (k - 1) (by omega)
    unfold mP at *
    omega
  rw [e2]

/-! ## the running minimum -/

theorem minFold_le_init (cand : Nat → Nat) (b : Nat) (l : List Nat) : minFold cand b l ≤ b := by
  induction l generalizing b with
  | nil => exact le_refl _
  | cons x xs ih => rw [minFold_cons]; exact le_trans (ih _) (Nat.min_le_left _ _)

theorem minFold_le_mem (cand : Nat → Nat) (b : Nat) (l : List Nat) (i : Nat) (hi : i ∈ l) :
    minFold cand b l ≤ cand i := by
  induction l generalizing b with
  | nil => cases hi
  | cons x xs ih =>
    rw [minFold_cons]
    rcases List.mem_cons.mp hi with rfl | hi
    · exact le_trans (minFold_le_init _ _ _) (Nat.min_le_right _ _)
    · exact ih _ hi

theorem minFold_ge (cand : Nat → Nat) (b : Nat) (l : List Nat) (c : Nat) (hb : c ≤ b)
    (hl : ∀ i ∈ l, c ≤ cand i) : c ≤ minFold cand b l := by
  induction l generalizing b with
  | nil => exact hb
  | cons x xs ih =>
    rw [minFold_cons]
    exact ih _ (Nat.le_min.mpr ⟨hb, hl x (List.mem_cons_self ..)⟩)
      (fun i hi => hl i (List.mem_cons_of_mem _ hi))

theorem minFold_attained (cand : Nat → Nat) (b : Nat) (l : List Nat) :
    minFold cand b l = b ∨ ∃ i ∈ l, minFold cand b l = cand i := by
  induction l generalizing b with
  | nil => left; rfl
  | cons x xs ih =>
    rw [minFold_cons]
    rcases ih (min b (cand x)) with h | ⟨i, hi, h⟩
    · rcases Nat.le_total b (cand x) with hle | hle
      · left; rw [h, Nat.min_eq_left hle]
      · right; exact ⟨x, List.mem_cons_self .., by rw [h, Nat.min_eq_right hle]⟩
    · right; exact ⟨i, List.mem_cons_of_mem _ hi, h⟩

/-! ## the inequalities -/

/-- at least the first sweep -/
theorem mP_ge : ∀ (n k : Nat), 1 ≤ n → (1 ≤ k ∨ n = 1) → n ≤ mP n k := by
  intro n
  induction n using Nat.strong_induction_on with
  | _ n ih =>
    intro k hn hk
    by_cases h1 : n ≤ k + 1
    · rw [mP_small h1]
    · by_cases h2 : k = 1
      · subst h2
        rw [mP_k1 (by omega)]
        obtain ⟨m, rfl⟩ : ∃ m, n = m + 3 := ⟨n - 3, by omega⟩
        have e : (m + 3) * (m + 3 + 1) = 2 * (m + 3 + 3) + (m * m + 5 * m) := by ring
        rw [e, Nat.mul_add_div (by omega)]
        omega
      · have hk2 : 2 ≤ k := by omega
        rw [mP_unfold (by omega) hk2]
        apply minFold_ge
        · have := ih (n - 1) (by omega) (k - 1) (by omega) (by omega)
          omega
        · intro i hi
          rw [List.mem_range'_1] at hi
          have := ih (n - i) (by omega) (k - 1) (by omega) (by omega)
          show n ≤ i + mP i k + mP (n - i) (k - 1)
          omega

/-- **storing the dependencies of the first step** -/
theorem mP_dep {m k : Nat} (hm : 2 ≤ m) (hk : 1 ≤ k) (h1 : k = 1 → m = 2) :
    mP m k ≤ 1 + mP (m - 1) (k - 1) := by
  by_cases hs : m ≤ k + 1
  · rw [mP_small hs, mP_small (by omega)]; omega
  · have hk2 : 2 ≤ k := by
      by_contra h
      have := h1 (by omega)
      omega
    rw [mP_unfold (by omega) hk2]
    exact minFold_le_init _ _ _

/-- the one-unit values obey the recurrence with equality -/
theorem mP_k1_succ {i : Nat} (hi : 2 ≤ i) : mP (i + 1) 1 = i + mP i 1 + 1 := by
  rw [mP_k1 (by omega)]
  rcases Nat.eq_or_lt_of_le hi with rfl | hi3
  · rw [mP_small (by omega)]
  · rw [mP_k1 (by omega)]
    have e : (i + 1) * (i + 1 + 1) = i * (i + 1) + 2 * (i + 1) := by ring
    rw [e, Nat.add_mul_div_left _ _ (by omega)]
    have : 2 ≤ i * (i + 1) / 2 := by
      obtain ⟨j, rfl⟩ : ∃ j, i = j + 3 := ⟨i - 3, by omega⟩
      have e2 : (j + 3) * (j + 3 + 1) = 2 * 6 + (j * j + 7 * j) := by ring
      rw [e2, Nat.mul_add_div (by omega)]
      omega
    omega

/-- **storing a restart checkpoint and advancing `i` steps** -/
theorem mP_rec {m k i : Nat} (hk : 1 ≤ k) (hi1 : 1 ≤ i) (hi2 : i < m) (h1 : k = 1 → m - i = 1) :
    mP m k ≤ i + mP i k + mP (m - i) (k - 1) := by
  by_cases hs : m ≤ k + 1
  · rw [mP_small hs]
    have := mP_ge (m - i) (k - 1) (by omega) (by
      rcases Nat.eq_or_lt_of_le hk with h | h
      · right; exact h1 h.symm
      · left; omega)
    omega
  · rcases Nat.eq_or_lt_of_le hk with hk1 | hk2
    · subst hk1
      have hmi := h1 rfl
      obtain rfl : m = i + 1 := by omega
      rw [hmi, mP_one, mP_k1_succ (by omega)]
    · rcases Nat.eq_or_lt_of_le hi1 with rfl | hi
      · have := mP_dep (m := m) (k := k) (by omega) hk (by omega)
        rw [mP_one]
        omega
      · rw [mP_unfold (by omega) hk2]
        exact minFold_le_mem (fun i => i + mP i k + mP (m - i) (k - 1)) _ _ i
          (by rw [List.mem_range'_1]; omega)

/-- **more units never hurt** -/
theorem mP_anti : ∀ (m k : Nat), 1 ≤ m → (1 ≤ k ∨ m = 1) → mP m (k + 1) ≤ mP m k := by
  intro m
  induction m using Nat.strong_induction_on with
  | _ m ih =>
    intro k hm hk
    by_cases hs : m ≤ k + 2
    · rw [mP_small (by omega)]
      exact mP_ge m k hm hk
    · have hk1 : 1 ≤ k := by omega
      rcases Nat.eq_or_lt_of_le hk1 with rfl | hk2
      · -- one unit against two
        obtain ⟨j, rfl⟩ : ∃ j, m = j + 1 := ⟨m - 1, by omega⟩
        have h1 := mP_rec (m := j + 1) (k := 2) (i := j) (by omega) (by omega) (by omega) (by omega)
        have e : j + 1 - j = 1 := by omega
        rw [e, mP_one] at h1
        have h2 : mP j 2 ≤ mP j 1 := ih j (by omega) 1 (by omega) (by omega)
        have h3 := mP_k1_succ (i := j) (by omega)
        show mP (j + 1) 2 ≤ mP (j + 1) 1
        omega
      · rw [mP_unfold (n := m) (k := k) (by omega) hk2]
        rcases minFold_attained (fun i => i + mP i k + mP (m - i) (k - 1)) (1 + mP (m - 1) (k - 1))
          (List.range' 2 (m - 2)) with h | ⟨i, hi, h⟩
        · rw [h]
          have h1 := mP_dep (m := m) (k := k + 1) (by omega) (by omega) (by omega)
          rw [Nat.add_sub_cancel] at h1
          have h2 := ih (m - 1) (by omega) (k - 1) (by omega) (by omega)
          have e : k - 1 + 1 = k := by omega
          rw [e] at h2
          omega
        · rw [h]
          rw [List.mem_range'_1] at hi
          have h1 := mP_rec (m := m) (k := k + 1) (i := i) (by omega) (by omega) (by omega) (by omega)
          rw [Nat.add_sub_cancel] at h1
          have h2 := ih i (by omega) k (by omega) (by omega)
          have h3 := ih (m - i) (by omega) (k - 1) (by omega) (by omega)
          have e : k - 1 + 1 = k := by omega
          rw [e] at h3
          show mP m (k + 1) ≤ i + mP i k + mP (m - i) (k - 1)
          omega

end Ckpt.MX
