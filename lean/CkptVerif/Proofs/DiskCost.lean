import CkptVerif.Proofs.RevolveCost
import CkptVerif.Proofs.OptInf
/-!
# DiskRevolve: the cost of the model stream is the table value (C07)

`cost (diskSeg … lo hi) = tinf[hi-lo-1] + (hi-lo)·uf` where a DISK write costs `wd`, a DISK read
`rd` (together `wr = wd + rd` per DISK checkpoint), and consequently
`cost(DiskRevolve) ≤ cost(Revolve)` for equal parameters.
-/
namespace Ckpt.RC

theorem diskSeg_cost (c : Costs) (N lmax0 lmax mmax cm : Nat) (hcm1 : 1 ≤ cm) (hcm : cm ≤ mmax)
    (t0 : Array (Array Nat)) (tinf : Array Nat) (ht0 : t0 = opt0Table lmax0 mmax c.uf c.ub)
    (htinf : tinf = optInfTable lmax cm c.uf c.ub (c.wd + c.rd) t0) :
    ∀ (fuel : Nat) (spine : Bool) (lo hi : Nat) (evs : List Ev),
      diskSeg N t0 tinf cm c.uf (c.wd + c.rd) fuel spine lo hi = some evs →
      lo < hi → hi - lo - 1 ≤ lmax → hi - lo - 1 ≤ lmax0 →
      cost c evs = tinf.getD (hi - lo - 1) 0 + (hi - lo) * c.uf := by
  -- the facts about the two tables that the induction uses
  have R0 : ∀ (spine : Bool) (lo hi : Nat) (evs : List Ev),
      revSeg N t0 c.uf cm spine lo hi = some evs → lo < hi → hi - lo - 1 ≤ lmax0 →
      cost c evs = opt0Get t0 cm (hi - lo - 1) + (hi - lo) * c.uf := by
    intro spine lo hi evs h h1 h2
    rw [ht0] at h ⊢
    exact revSeg_cost c N lmax0 mmax cm hcm spine lo hi evs h h1 h2
  obtain ⟨I0, I1, _, Irec⟩ := optInfTable_spec lmax cm c.uf c.ub (c.wd + c.rd) t0
  rw [← htinf] at I0 I1 Irec
  have Z0 : opt0Get t0 cm 0 = c.ub := by rw [ht0]; exact opt0Get_zero _ _ _ _ _ hcm
  have Z1 : opt0Get t0 cm 1 = c.uf + 2 * c.ub := by rw [ht0]; exact opt0Get_one _ _ _ _ _ hcm1 hcm
  intro fuel
  induction fuel with
  | zero => intro _ _ _ _ h; simp [diskSeg] at h
  | succ fuel ih =>
    intro spine lo hi evs h hlt hl hl0
    unfold diskSeg at h
    dsimp only at h
    set cands := (List.range' 1 (hi - lo - 1 - 1)).map (fun j =>
      c.wd + c.rd + j * c.uf + tinf.getD (hi - lo - 1 - j) 0 + opt0Get t0 cm (j - 1)) with hcands
    split at h
    · rename_i hcond
      obtain ⟨hl2, hmin⟩ := hcond
      generalize hj : argminO _ = j at h
      split at h
      · cases h
      · rename_i right hright
        split at h
        · cases h
        · rename_i left hleft
          injection h with h
          have hne : cands ≠ [] := by
            intro h0
            have := congrArg List.length h0
            simp [cands] at this
            omega
          have hr := argminO_map_some_range cands hne
          have hg := argminO_map_some_get cands hne
          rw [hj] at hr hg
          have hlen : cands.length = hi - lo - 1 - 1 := by simp [cands]
          rw [hlen] at hr
          rw [hcands, List.getElem?_map, List.getElem?_range' (by omega)] at hg
          simp only [Option.map_some, Option.some.injEq] at hg
          have e : 1 + 1 * (j - 1) = j := by omega
          rw [e, ← hcands] at hg
          have hrec := Irec (hi - lo - 1) hl2 hl
          change tinf.getD (hi - lo - 1) 0 = min (opt0Get t0 cm (hi - lo - 1))
            (cands.foldl min (cands.headD 0)) at hrec
          rw [Nat.min_eq_right (Nat.le_of_lt hmin)] at hrec
          have cr := ih _ _ _ _ hright (by omega) (by omega) (by omega)
          have cl := R0 _ _ _ _ hleft (by omega) (by omega)
          have e1 : hi - (lo + j) - 1 = hi - lo - 1 - j := by omega
          have e3 : lo + j - lo - 1 = j - 1 := by omega
          have e4 : lo + j - lo = j := by omega
          rw [e1] at cr
          rw [e3, e4] at cl
          have hsplit : (hi - lo) * c.uf = j * c.uf + (hi - (lo + j)) * c.uf := by
            rw [← Nat.add_mul]; congr 1; omega
          rw [← h]
          simp only [cost_append, cost_cons, cost_nil, cr, cl, hrec, ← hg, hsplit]
          simp [evCost, e4]
          omega
    · rename_i hcond
      have hc := R0 _ _ _ _ h hlt hl0
      rw [hc]
      congr 1
      rcases Nat.lt_or_ge (hi - lo - 1) 2 with hlt2 | hge2
      · rcases Nat.eq_zero_or_pos (hi - lo - 1) with h0 | hpos
        · rw [h0, Z0, I0]
        · have h1 : hi - lo - 1 = 1 := by omega
          rw [h1, Z1, I1 hcm1]
      · have hrec := Irec (hi - lo - 1) hge2 hl
        change tinf.getD (hi - lo - 1) 0 = min (opt0Get t0 cm (hi - lo - 1))
          (cands.foldl min (cands.headD 0)) at hrec
        have : ¬ cands.foldl min (cands.headD 0) < opt0Get t0 cm (hi - lo - 1) :=
          fun hh => hcond ⟨hge2, hh⟩
        rw [hrec, Nat.min_eq_left (Nat.le_of_not_lt this)]

/-- C07 for DiskRevolve: the cost of the stream is the `tinf` table entry (plus the `N` steps of the
initial forward sweep) -/
theorem diskRevolve_cost (N cm : Nat) (c : Costs) (hN : 1 ≤ N) (hcm : 1 ≤ cm) (evs : List Ev)
    (h : diskRevolveEvs N cm c = .ok evs) :
    cost c evs =
      (optInfTable (N - 1) cm c.uf c.ub (c.wd + c.rd) (opt0Table (N - 1) cm c.uf c.ub)).getD (N - 1) 0
        + N * c.uf := by
  unfold diskRevolveEvs at h
  dsimp only at h
  split at h
  · cases h
  · rename_i seg hseg
    injection h with h
    have := diskSeg_cost c N (N - 1) (N - 1) cm cm hcm (le_refl _) _ _ rfl rfl _ _ _ _ seg hseg
      (by omega) (by omega) (by omega)
    rw [← h, cost_append, this]
    simp [evCost]

/-- C07: with the same parameters DiskRevolve never costs more than Revolve -/
theorem diskRevolve_le_revolve (N cm : Nat) (c : Costs) (hN : 1 ≤ N) (hcm : 1 ≤ cm)
    (evsD evsR : List Ev) (hD : diskRevolveEvs N cm c = .ok evsD) (hR : revolveEvs N cm c = .ok evsR) :
    cost c evsD ≤ cost c evsR := by
  rw [diskRevolve_cost N cm c hN hcm evsD hD, revolve_cost N cm c hN evsR hR]
  exact Nat.add_le_add_right (optInf_le_opt0 (N - 1) (N - 1) cm cm c.uf c.ub _ hcm (le_refl _)
    (N - 1) (le_refl _)) _

-- a concrete instance where the disk is really used: N = 9, one RAM unit
example : (match diskRevolveEvs 9 1 ⟨1, 1, 1, 1⟩ with | .ok evs => cost ⟨1, 1, 1, 1⟩ evs | .error _ => 0)
    = (optInfTable 8 1 1 1 2 (opt0Table 8 1 1 1)).getD 8 0 + 9 * 1 := by decide +kernel

end Ckpt.RC
