import CkptVerif.Proofs.MixedTab
import Mathlib.Tactic
/-!
# `mseg`: unfolding equations, and the planner facts the stream proofs use

`mseg_FR`, `mseg_WAD`, `mseg_WICS`: one unfolding of the Mixed stream for each kind of planner
answer.  `PlanHyp plan`: the shape of the planner's answers (`memoCell_cases` etc. read as facts
about a `Planner`); `PlanCost plan`: the cost recurrence.  `memoPlan` satisfies both.
-/
namespace Ckpt

/-! ## one unfolding of `mseg` -/

theorem mseg_FR (N : Nat) (plan : Planner) (st : Storage) (fuel lo hi k : Nat) (spine : Bool)
    (c : Cell) (hc : plan (hi - lo) k = some c) (hk : c.kind = stForwardReverse)
    (hm : hi - lo = 1) (hl : c.len = 1) :
    mseg N plan st (fuel + 1) lo hi k spine false =
      some ([⟨.forward lo hi false true .work, hi, N - hi⟩]
        ++ (if spine then [⟨.endForward, hi, N - hi⟩] else [])
        ++ [⟨.reverse hi lo true, hi, N - hi + 1⟩]) := by
  rw [mseg]
  rw [hm] at hc
  simp only [hm, hc, hk, hl]
  simp

theorem mseg_WAD (N : Nat) (plan : Planner) (st : Storage) (fuel lo hi k : Nat) (spine : Bool)
    (c : Cell) (right : List Ev)
    (hc : plan (hi - lo) k = some c) (hk : c.kind = stWriteAdjDeps) (hl : c.len = 1)
    (hk0 : k ≠ 0) (hm : 2 ≤ hi - lo)
    (hright : mseg N plan st fuel (lo + 1) hi (k - 1) spine false = some right) :
    mseg N plan st (fuel + 1) lo hi k spine false =
      some ([⟨.forward lo (lo + 1) false true st, lo + 1, N - hi⟩] ++ right ++
        [⟨.move lo st .work, lo + 1, N - (lo + 1)⟩,
         ⟨.reverse (lo + 1) lo true, lo + 1, N - lo⟩]) := by
  rw [mseg]
  have : ¬ hi - lo < 2 := by omega
  simp only [hc, hk, hl, hright]
  simp [stWriteAdjDeps, stForwardReverse, hk0, this]

theorem mseg_WICS (N : Nat) (plan : Planner) (st : Storage) (fuel lo hi k : Nat)
    (spine reuse : Bool) (c c2 : Cell) (right left : List Ev)
    (hc : plan (hi - lo) k = some c) (hk : c.kind = stWriteIcs) (h2 : 2 ≤ c.len)
    (hlt : c.len < hi - lo) (hk0 : k ≠ 0)
    (hright : mseg N plan st fuel (lo + c.len) hi (k - 1) spine false = some right)
    (hc2 : plan c.len k = some c2)
    (hleft : mseg N plan st fuel lo (lo + c.len) k false (decide (c2.kind = stWriteIcs))
      = some left) :
    mseg N plan st (fuel + 1) lo hi k spine reuse =
      some ([if reuse then ⟨.forward lo (lo + c.len) false false .work, lo + c.len, N - hi⟩
             else ⟨.forward lo (lo + c.len) true false st, lo + c.len, N - hi⟩]
        ++ right
        ++ [if decide (c2.kind = stWriteIcs) then ⟨.copy lo st .work, lo, N - (lo + c.len)⟩
            else ⟨.move lo st .work, lo, N - (lo + c.len)⟩]
        ++ left) := by
  rw [mseg]
  have h1 : ¬ c.len < 2 := by omega
  have h3 : ¬ hi - lo ≤ c.len := by omega
  simp only [hc, hk, hright, hc2, hleft]
  simp [stWriteAdjDeps, stForwardReverse, stWriteIcs, hk0, h1, h3]

/-! ## what the streams need to know about a planner -/

/-- shape of the answers on valid keys (`m = 1`, or `m ≥ 2 ∧ k ≥ 1`) -/
structure PlanHyp (plan : Planner) : Prop where
  one : ∀ k, ∃ c, plan 1 k = some c ∧ c.kind = stForwardReverse ∧ c.len = 1
  big : ∀ m k, 2 ≤ m → 1 ≤ k → ∃ c, plan m k = some c ∧
    ((c.kind = stWriteAdjDeps ∧ c.len = 1 ∧ (3 ≤ m → 2 ≤ k)) ∨
     (c.kind = stWriteIcs ∧ 2 ≤ c.len ∧ c.len ≤ m - 1 ∧ (k = 1 → c.len = m - 1)))

/-- the cost recurrence of the answers on valid keys -/
structure PlanCost (plan : Planner) : Prop where
  one : ∀ k c, plan 1 k = some c → c.cost = 1
  wad : ∀ m k c, 2 ≤ m → 1 ≤ k → plan m k = some c → c.kind = stWriteAdjDeps →
    ∃ c', plan (m - 1) (k - 1) = some c' ∧ c.cost = 1 + c'.cost
  wics : ∀ m k c, 2 ≤ m → 1 ≤ k → plan m k = some c → c.kind = stWriteIcs →
    ∃ c1 c2, plan c.len k = some c1 ∧ plan (m - c.len) (k - 1) = some c2 ∧
      c.cost = c.len + c1.cost + c2.cost

theorem clampS_clampS (a m k : Nat) (h : a ≤ m - 1) : clampS a (clampS m k) = clampS a k := by
  unfold clampS; omega

theorem clampS_clampS_pred (a m k : Nat) (h : a ≤ m - 1) :
    clampS a (clampS m k - 1) = clampS a (k - 1) := by
  unfold clampS; omega

theorem memoPlan_eq (m k : Nat) (h : validKey m (clampS m k) = true) :
    memoPlan m k = some (memoCell m (clampS m k)) := by
  show (if validKey m (clampS m k) = true then some (memoCell m (clampS m k)) else none) = _
  rw [if_pos h]

theorem memoPlan_valid (m k : Nat) (h1 : 1 ≤ m) (h2 : m = 1 ∨ 1 ≤ k) :
    memoPlan m k = some (memoCell m (clampS m k)) :=
  memoPlan_eq m k ((validKey_clamp_iff m k).2 ⟨h1, h2⟩)

theorem memoPlan_hyp : PlanHyp memoPlan where
  one := by
    intro k
    refine ⟨_, memoPlan_valid 1 k (le_refl _) (Or.inl rfl), ?_, ?_⟩ <;> rw [memoCell_one]
  big := by
    intro m k hm hk
    have hv : validKey m (clampS m k) = true := (validKey_clamp_iff m k).2 ⟨by omega, Or.inr hk⟩
    refine ⟨_, memoPlan_eq m k hv, ?_⟩
    obtain ⟨_, hc | hc⟩ := memoCell_cases m (clampS m k) hv hm
    · left
      refine ⟨hc.1, hc.2.1, ?_⟩
      intro h3
      by_contra hk2
      have hk1 : k = 1 := by omega
      have hcl : clampS m k = 1 := by unfold clampS; omega
      have := hc.1
      rw [hcl, memoCell_s_one m h3] at this
      have this' : stWriteIcs = stWriteAdjDeps := this
      exact absurd this' (by decide)
    · right
      refine ⟨hc.1, hc.2.1, hc.2.2.1, ?_⟩
      intro hk1
      have hcl : clampS m k = 1 := by unfold clampS; omega
      have h3 : 3 ≤ m := by have := hc.2.2.2.1; omega
      rw [hcl, memoCell_s_one m h3]

theorem memoPlan_cost : PlanCost memoPlan where
  one := by
    intro k c h
    rw [memoPlan_valid 1 k (le_refl _) (Or.inl rfl)] at h
    cases h
    rw [memoCell_one]
  wad := by
    intro m k c hm hk h hkind
    have hv : validKey m (clampS m k) = true := (validKey_clamp_iff m k).2 ⟨by omega, Or.inr hk⟩
    rw [memoPlan_eq m k hv] at h
    cases h
    obtain ⟨_, hc | hc⟩ := memoCell_cases m (clampS m k) hv hm
    · -- the recursive key is valid
      have h3 : 3 ≤ m → 2 ≤ k := by
        intro h3
        by_contra hk2
        have hcl : clampS m k = 1 := by unfold clampS; omega
        have := hc.1
        rw [hcl, memoCell_s_one m h3] at this
        have this' : stWriteIcs = stWriteAdjDeps := this
        exact absurd this' (by decide)
      have hcl : clampS (m - 1) (clampS m k - 1) = clampS (m - 1) (k - 1) :=
        clampS_clampS_pred _ m k (le_refl _)
      refine ⟨_, memoPlan_valid (m - 1) (k - 1) (by omega) (by omega), ?_⟩
      rw [hc.2.2, hcl]
    · rw [hc.1] at hkind
      exact absurd hkind (by decide)
  wics := by
    intro m k c hm hk h hkind
    have hv : validKey m (clampS m k) = true := (validKey_clamp_iff m k).2 ⟨by omega, Or.inr hk⟩
    rw [memoPlan_eq m k hv] at h
    cases h
    obtain ⟨_, hc | hc⟩ := memoCell_cases m (clampS m k) hv hm
    · rw [hc.1] at hkind
      exact absurd hkind (by decide)
    · obtain ⟨_, hl2, hlm, hsm, hcost⟩ := hc
      have hone : k = 1 → (memoCell m (clampS m k)).len = m - 1 := by
        intro hk1
        have hcl : clampS m k = 1 := by unfold clampS; omega
        have h3 : 3 ≤ m := by rw [hcl] at hsm; omega
        rw [hcl, memoCell_s_one m h3]
      have hcl1 : clampS (memoCell m (clampS m k)).len (clampS m k) =
          clampS (memoCell m (clampS m k)).len k := clampS_clampS _ m k hlm
      have hcl2 : clampS (m - (memoCell m (clampS m k)).len) (clampS m k - 1) =
          clampS (m - (memoCell m (clampS m k)).len) (k - 1) :=
        clampS_clampS_pred _ m k (by omega)
      refine ⟨_, _, memoPlan_valid _ k (by omega) (Or.inr hk),
        memoPlan_valid _ (k - 1) (by omega) (by
          by_cases hk1 : k = 1
          · left; have := hone hk1; omega
          · right; omega), ?_⟩
      rw [← hcl1, ← hcl2]
      exact hcost

end Ckpt
