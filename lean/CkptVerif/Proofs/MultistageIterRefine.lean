import CkptVerif.Model.MultistageIter
import CkptVerif.Proofs.MixedIterRefine
import CkptVerif.Proofs.MultistageOk
import CkptVerif.Proofs.NAdv
/-!
# The iterative twin of `MultistageCheckpointSchedule._iterator` refines to `multistageSeg`

`multistageIter_eq_multistageSeg`: for `1 ≤ N` and (`2 ≤ N → 1 ≤ S`) the loop emits exactly the
stream of the recursive model, within the fuel `2 N`.

`ms_seg` (continuation style): the segment `segWith … stored spine lo hi d` is what the machine
emits from

* the top of the reverse loop with `snapshots[-1] = lo` (`stored`), or
* the top of the forward loop (`spine`) / of the inner checkpointing loop, with `_n = lo`,

until it is back at the top of the reverse loop with `_n = lo + 1`, `_r = N - lo` and the stack it
started with (without `lo`).
-/
namespace Ckpt.RC
open Ckpt List

section steps
variable (N S : Nat) (alloc : Nat → Storage) (traj : Traj)

theorem fwd_iter (fuel n r a : Nat) (stack : List Nat) (h : n < N - 1)
    (ha : nAdvance (N - n) (S - stack.length) traj = some a) (ha1 : 1 ≤ a) (hS : stack.length < S) :
    msFwd N S alloc traj (fuel + 1) ⟨n, r, stack⟩ =
      yieldEv ⟨.forward n (n + a) true false (alloc stack.length), n + a, r⟩
        (msFwd N S alloc traj fuel ⟨n + a, r, n :: stack⟩) := by
  rw [msFwd]
  have h1 : ¬ stack.length ≥ S := by omega
  simp [h, ha, h1]
  omega

theorem fwd_exit (fuel n r : Nat) (stack : List Nat) (h : n + 1 = N) :
    msFwd N S alloc traj (fuel + 1) ⟨n, r, stack⟩ =
      emits [⟨.forward n (n + 1) false true .work, n + 1, r⟩, ⟨.endForward, n + 1, r⟩,
          ⟨.reverse (n + 1) n true, n + 1, r + 1⟩]
        (msRev N S alloc traj fuel ⟨n + 1, r + 1, stack⟩) := by
  rw [msFwd]
  have h2 : n = N - 1 := by omega
  simp [h2, emits]

theorem inner_iter (fuel n r a : Nat) (stack : List Nat) (h : n < N - r - 1)
    (ha : nAdvance (N - r - n) (S - stack.length) traj = some a) (ha1 : 1 ≤ a)
    (hS : stack.length < S) :
    msInner N S alloc traj (fuel + 1) ⟨n, r, stack⟩ =
      yieldEv ⟨.forward n (n + a) true false (alloc stack.length), n + a, r⟩
        (msInner N S alloc traj fuel ⟨n + a, r, n :: stack⟩) := by
  rw [msInner]
  have h1 : ¬ stack.length ≥ S := by omega
  simp [h, ha, h1]
  omega

theorem inner_exit' (fuel n r : Nat) (stack : List Nat) (h : n + 1 = N - r) :
    msInner N S alloc traj (fuel + 1) ⟨n, r, stack⟩ =
      emits [⟨.forward n (n + 1) false true .work, n + 1, r⟩,
          ⟨.reverse (n + 1) n true, n + 1, r + 1⟩]
        (msRev N S alloc traj fuel ⟨n + 1, r + 1, stack⟩) := by
  rw [msInner]
  have h2 : n = N - r - 1 := by omega
  simp [h2, emits]

theorem rev_move (fuel n r cpN : Nat) (rest : List Nat) (hr : r < N) (h : cpN + 1 = N - r) :
    msRev N S alloc traj (fuel + 1) ⟨n, r, cpN :: rest⟩ =
      emits [⟨.move cpN (alloc rest.length) .work, cpN, r⟩,
          ⟨.forward cpN (cpN + 1) false true .work, cpN + 1, r⟩,
          ⟨.reverse (cpN + 1) cpN true, cpN + 1, r + 1⟩]
        (msRev N S alloc traj fuel ⟨cpN + 1, r + 1, rest⟩) := by
  rw [msRev]
  have h2 : cpN = N - r - 1 := by omega
  simp [hr, h2, emits]

theorem rev_copy (fuel n r cpN a : Nat) (rest : List Nat) (hr : r < N)
    (hlt : cpN + 1 < N - r)
    (ha : nAdvance (N - r - cpN) (S - (rest.length + 1) + 1) traj = some a) (ha1 : 1 ≤ a) :
    msRev N S alloc traj (fuel + 1) ⟨n, r, cpN :: rest⟩ =
      emits [⟨.copy cpN (alloc rest.length) .work, cpN, r⟩,
          ⟨.forward cpN (cpN + a) false false .work, cpN + a, r⟩]
        (msInner N S alloc traj fuel ⟨cpN + a, r, cpN :: rest⟩) := by
  rw [msRev]
  have h2 : ¬ cpN = N - r - 1 := by omega
  have h3 : ¬ a = 0 := by omega
  simp [hr, h2, ha, h3, emits]

theorem rev_exit (fuel n : Nat) :
    msRev N S alloc traj (fuel + 1) ⟨n, N, []⟩ = .ok [⟨.endReverse, n, N⟩] := by
  rw [msRev]; simp

end steps

theorem nAdvance_units (m k a : Nat) (traj : Traj) (h : nAdvance m k traj = some a) : 1 ≤ k := by
  by_contra hk
  have : k = 0 := by omega
  subst this
  unfold nAdvance at h
  split at h
  · cases h
  · simp at h

theorem ms_seg (N S : Nat) (alloc : Nat → Storage) (traj : Traj) :
    ∀ (f : Nat) (stored spine : Bool) (lo hi d : Nat) (evs : List Ev) (rest : List Nat) (nprev : Nat),
      segWith N (fun m k => nAdvance m k traj) S alloc false f stored spine lo hi d = some evs →
      lo < hi → hi ≤ N → (spine = true → hi = N ∧ stored = false) → rest.length = d →
      ∃ F, F ≤ 2 * (hi - lo) - 1 ∧ ∀ fuel',
        (if stored then msRev N S alloc traj (F + fuel') ⟨nprev, N - hi, lo :: rest⟩
         else if spine then msFwd N S alloc traj (F + fuel') ⟨lo, N - hi, rest⟩
         else msInner N S alloc traj (F + fuel') ⟨lo, N - hi, rest⟩) =
        emits evs (msRev N S alloc traj fuel' ⟨lo + 1, N - lo, rest⟩) := by
  intro f
  induction f with
  | zero => intro _ _ _ _ _ _ _ _ h; simp [segWith] at h
  | succ f ih =>
    intro stored spine lo hi d evs rest nprev h hlt hN hsp hlen
    unfold segWith at h
    dsimp only at h
    by_cases hu : hi = lo + 1
    · -- a single step
      rw [if_pos hu] at h
      injection h with h
      subst hu
      refine ⟨1, by omega, ?_⟩
      intro fuel'
      have e1 : N - (lo + 1) + 1 = N - lo := by omega
      cases stored with
      | true =>
        have hs : spine = false := by
          cases spine with
          | false => rfl
          | true => exact absurd (hsp rfl).2 (by simp)
        subst hs
        simp only [if_true]
        rw [show 1 + fuel' = fuel' + 1 by omega,
          rev_move N S alloc traj _ _ _ lo rest (by omega) (by omega), ← h, hlen, e1]
        simp [emits]
      | false =>
        cases spine with
        | true =>
          have hN' := (hsp rfl).1
          simp only [Bool.false_eq_true, if_false, if_true]
          rw [show 1 + fuel' = fuel' + 1 by omega, fwd_exit N S alloc traj _ _ _ _ hN', ← h, e1]
          simp [emits]
        | false =>
          simp only [Bool.false_eq_true, if_false]
          rw [show 1 + fuel' = fuel' + 1 by omega,
            inner_exit' N S alloc traj _ _ _ _ (by omega), ← h, e1]
          simp [emits]
    · rw [if_neg hu] at h
      cases ha : nAdvance (hi - lo) (S - d) traj with
      | none => rw [ha] at h; cases h
      | some a =>
        rw [ha] at h
        dsimp only at h
        have hk1 := nAdvance_units _ _ _ _ ha
        obtain ⟨a', ha', ha1, ha2⟩ := nAdvance_range (hi - lo) (S - d) traj (by omega) hk1
        rw [ha] at ha'
        injection ha' with ha'
        subst ha'
        cases hr : segWith N (fun m k => nAdvance m k traj) S alloc false f false spine (lo + a) hi (d + 1) with
        | none => rw [hr] at h; cases h
        | some right =>
          rw [hr] at h
          dsimp only at h
          cases hl : segWith N (fun m k => nAdvance m k traj) S alloc false f true false lo (lo + a) d with
          | none => rw [hl] at h; cases h
          | some left =>
            rw [hl] at h
            injection h with h
            obtain ⟨Fr, hFr, ihr⟩ := ih false spine (lo + a) hi (d + 1) right (lo :: rest) nprev hr
              (by omega) hN (fun hs => ⟨(hsp hs).1, rfl⟩) (by simp [hlen])
            obtain ⟨Fl, hFl, ihl⟩ := ih true false lo (lo + a) d left rest (lo + a + 1) hl (by omega)
              (by omega) (by simp) hlen
            simp only [Bool.false_eq_true, if_false] at ihr
            simp only [if_true] at ihl
            refine ⟨1 + Fr + Fl, by omega, ?_⟩
            intro fuel'
            have efuel : 1 + Fr + Fl + fuel' = (Fr + (Fl + fuel')) + 1 := by omega
            rw [← h, emits_append, emits_append]
            cases stored with
            | true =>
              have hs : spine = false := by
                cases spine with
                | false => rfl
                | true => exact absurd (hsp rfl).2 (by simp)
              subst hs
              simp only [if_true, Bool.false_eq_true, if_false] at ihr ⊢
              have ha3 : nAdvance (N - (N - hi) - lo) (S - (rest.length + 1) + 1) traj = some a := by
                rw [show N - (N - hi) - lo = hi - lo by omega,
                  show S - (rest.length + 1) + 1 = S - d by omega]
                exact ha
              rw [efuel, rev_copy N S alloc traj _ _ _ lo a rest (by omega) (by omega) ha3 ha1,
                ihr (Fl + fuel'), ihl fuel', hlen]
            | false =>
              cases spine with
              | true =>
                have hN' := (hsp rfl).1
                simp only [Bool.false_eq_true, if_false, if_true] at ihr ⊢
                have ha3 : nAdvance (N - lo) (S - rest.length) traj = some a := by
                  rw [hlen, ← hN']; exact ha
                rw [efuel, fwd_iter N S alloc traj _ lo _ a rest (by omega) ha3 ha1 (by omega),
                  ihr (Fl + fuel'), ihl fuel', hlen]
                simp [emits]
              | false =>
                simp only [Bool.false_eq_true, if_false] at ihr ⊢
                have ha3 : nAdvance (N - (N - hi) - lo) (S - rest.length) traj = some a := by
                  rw [show N - (N - hi) - lo = hi - lo by omega, hlen]
                  exact ha
                rw [efuel, inner_iter N S alloc traj _ lo _ a rest (by omega) ha3 ha1 (by omega),
                  ihr (Fl + fuel'), ihl fuel', hlen]
                simp [emits]

/-! ## the whole stream -/

/-- If the recursive model produces a stream, the loop produces the same stream (fuel `2 N`). -/
theorem multistageIter_of_seg (N S : Nat) (alloc : Nat → Storage) (traj : Traj) (hN : 1 ≤ N)
    (evs : List Ev) (h : multistageSeg N S alloc traj = some evs) (fuel : Nat) (hf : 2 * N ≤ fuel) :
    multistageIter N S alloc traj fuel = .ok evs := by
  unfold multistageSeg at h
  cases hs : segWith N (fun m k => nAdvance m k traj) S alloc false N false true 0 N 0 with
  | none => rw [hs] at h; cases h
  | some e =>
    rw [hs] at h
    simp only [Option.map_some, Option.some.injEq] at h
    obtain ⟨F, hF, hrun⟩ := ms_seg N S alloc traj N false true 0 N 0 e [] 0 hs (by omega) (le_refl _)
      (fun _ => ⟨rfl, rfl⟩) rfl
    have hr := hrun (fuel - F)
    simp only [Bool.false_eq_true, if_false, if_true, Nat.sub_self, Nat.sub_zero, Nat.zero_add] at hr
    unfold multistageIter MsSt.init
    rw [show fuel = F + (fuel - F) by omega, hr, show fuel - F = (fuel - F - 1) + 1 by omega,
      rev_exit, emits_ok, ← h]

/-- **Refinement.**  For valid parameters the iterative twin of
`MultistageCheckpointSchedule._iterator` and the recursive stream model agree. -/
theorem multistageIter_eq_multistageSeg (N S : Nat) (alloc : Nat → Storage) (traj : Traj)
    (hN : 1 ≤ N) (hS : 2 ≤ N → 1 ≤ S) (fuel : Nat) (hf : 2 * N ≤ fuel) :
    ∃ evs, multistageSeg N S alloc traj = some evs ∧ multistageIter N S alloc traj fuel = .ok evs := by
  -- the recursive model is well defined (`nAdvance_range`, `nAdvance_one`)
  have hdef : ∀ (f : Nat) (stored spine : Bool) (lo hi d : Nat), hi - lo ≤ f → lo < hi →
      (lo + 2 ≤ hi → d + 1 ≤ S) →
      ∃ evs, segWith N (fun m k => nAdvance m k traj) S alloc false f stored spine lo hi d = some evs := by
    intro f
    induction f with
    | zero => intro _ _ lo hi _ h1 h2; omega
    | succ f ih =>
      intro stored spine lo hi d hf hlt hd
      unfold segWith
      dsimp only
      by_cases hu : hi = lo + 1
      · rw [if_pos hu]; exact ⟨_, rfl⟩
      · rw [if_neg hu]
        have hd' := hd (by omega)
        obtain ⟨a, ha, ha1, ha2⟩ := nAdvance_range (hi - lo) (S - d) traj (by omega) (by omega)
        rw [ha]
        dsimp only
        have hright : lo + a + 2 ≤ hi → d + 1 + 1 ≤ S := by
          intro h
          by_contra hc
          have hS1 : S - d = 1 := by omega
          rw [hS1, nAdvance_one _ traj (by omega)] at ha
          injection ha with ha; omega
        obtain ⟨right, hr⟩ := ih false spine (lo + a) hi (d + 1) (by omega) (by omega) hright
        obtain ⟨left, hl⟩ := ih true false lo (lo + a) d (by omega) (by omega) (fun _ => hd')
        rw [hr, hl]
        exact ⟨_, rfl⟩
  obtain ⟨e, he⟩ := hdef N false true 0 N 0 (by omega) (by omega) (fun h => by have := hS (by omega); omega)
  have hseg : multistageSeg N S alloc traj = some (e ++ [⟨.endReverse, 1, N⟩]) := by
    unfold multistageSeg; rw [he]; rfl
  exact ⟨_, hseg, multistageIter_of_seg N S alloc traj hN _ hseg fuel hf⟩

/-- the constructor-level twin agrees with `multistageEvs` -/
theorem multistageIterEvs_eq (N ram disk : Nat) (traj : Traj) :
    multistageIterEvs N ram disk traj = multistageEvs N ram disk traj := by
  unfold multistageIterEvs multistageEvs
  by_cases hN : N < 1
  · rw [if_pos hN, if_pos hN]
  · rw [if_neg hN, if_neg hN]
    cases hst : multistageStorage N ram disk traj with
    | none => rfl
    | some storage =>
      dsimp only
      by_cases hz : N > 1 ∧ storage.length = 0
      · rw [if_pos hz, if_pos hz]
      · rw [if_neg hz, if_neg hz]
        obtain ⟨evs, h1, h2⟩ := multistageIter_eq_multistageSeg N storage.length
          (fun d => storage.getD d .none) traj (by omega)
          (fun h => by
            by_contra hc
            exact hz ⟨by omega, by omega⟩)
          (multistageIterFuel N) (by unfold multistageIterFuel; omega)
        rw [h1, h2]

-- a concrete run: 7 steps, 2 units
example : multistageIter 7 2 (fun _ => .ram) .maximum 16 =
    .ok ((multistageSeg 7 2 (fun _ => .ram) .maximum).getD []) := by decide +kernel

end Ckpt.RC
