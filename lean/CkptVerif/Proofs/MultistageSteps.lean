import CkptVerif.Model.Multistage
import CkptVerif.Proofs.StepCount
import CkptVerif.Proofs.NAdvOpt
/-!
# Multistage performs the Griewank–Walther optimum number of forward steps

`multistageSeg_fwdSteps`: the stream of `MultistageCheckpointSchedule` (with `n_advance` as the split
function, either trajectory) advances the forward exactly `N + optimal_extra_steps(N, min(S, N-1))`
steps; `multistageSeg_fwdSteps_closed` is the binomial closed form.
-/
namespace Ckpt.GW

theorem nAdvance_attainsMin (traj : Traj) : AttainsMin (fun m k => nAdvance m k traj) :=
  fun m k hm hk => nAdvance_attains m k traj hm hk

/-- instance of `segWith_fwdSteps` for an inner segment: steps `[3, 10)` at stack depth 1 of 4 units -/
example (alloc : Nat → Storage) (evs : List Ev)
    (h : segWith 10 (fun m k => nAdvance m k .revolve) 4 alloc false 10 true false 3 10 1 = some evs) :
    fwdSteps evs = 7 + extraCell 7 3 := by
  have := segWith_fwdSteps' (nAdvance_attainsMin .revolve) h (by decide) (Or.inr (by decide))
  exact this

theorem multistageSeg_fwdSteps (N S : Nat) (alloc : Nat → Storage) (traj : Traj) (evs : List Ev)
    (h : multistageSeg N S alloc traj = some evs) (hN : 1 ≤ N) (hS : 2 ≤ N → 1 ≤ S) :
    fwdSteps evs = N + extraCell N (clampS N S) := by
  unfold multistageSeg at h
  cases hseg : segWith N (fun m k => nAdvance m k traj) S alloc false N false true 0 N 0 with
  | none => rw [hseg] at h; simp at h
  | some body =>
    rw [hseg] at h
    have h' : body ++ [⟨.endReverse, 1, N⟩] = evs := Option.some.inj h
    subst h'
    have hk : N = 0 + 1 ∨ 1 ≤ S - 0 := by
      by_cases h2 : 2 ≤ N
      · right; have := hS h2; omega
      · left; omega
    have := segWith_fwdSteps N (fun m k => nAdvance m k traj) S alloc false
      (nAdvance_attainsMin traj) N false true 0 N 0 body hseg (by omega) hk
    rw [fwdSteps_append, this]
    show N - 0 + extraCell (N - 0) (clampS (N - 0) (S - 0)) + 0 = _
    simp only [Nat.sub_zero, Nat.add_zero]

/-- the closed form: with `1 ≤ S ≤ N - 1` units and `β(S,t-1) < N ≤ β(S,t)` the schedule performs
`(t+1)·N − β(S+1, t-1)` forward steps (Griewank & Walther 2000) -/
theorem multistageSeg_fwdSteps_closed (N S t : Nat) (alloc : Nat → Storage) (traj : Traj)
    (evs : List Ev) (h : multistageSeg N S alloc traj = some evs)
    (hS : 1 ≤ S) (hSN : S ≤ N - 1) (hN : 2 ≤ N) (ht : 1 ≤ t)
    (hlo : Nat.choose (S + t - 1) (t - 1) < N) (hhi : N ≤ Nat.choose (S + t) t) :
    fwdSteps evs + Nat.choose (S + t) (t - 1) = (t + 1) * N := by
  rw [multistageSeg_fwdSteps N S alloc traj evs h (by omega) (fun _ => hS)]
  have hc : clampS N S = S := by unfold clampS; omega
  rw [hc]
  exact extraCell_closed N S t hS hSN hN hlo hhi ht

/-- 10 steps, 3 units: 25 forward steps (`= 3·10 − 5`), for either trajectory -/
example (alloc : Nat → Storage) (traj : Traj) (evs : List Ev)
    (h : multistageSeg 10 3 alloc traj = some evs) : fwdSteps evs = 25 := by
  have := multistageSeg_fwdSteps_closed 10 3 2 alloc traj evs h (by decide) (by decide) (by decide)
    (by decide) (by decide) (by decide)
  have e : Nat.choose (3 + 2) (2 - 1) = 5 := by decide
  omega

example : (multistageSeg 4 2 (fun _ => .ram) .revolve).map fwdSteps = some 8 := by decide

end Ckpt.GW
