import CkptVerif.Model.Cache
import CkptVerif.Proofs.MixedDP
/-!
# Memoisation through `cache_step` is observationally pure (C15)

Whatever the cache contains (as long as it was filled by earlier calls: `CacheOK`), a call
`wrapped_fn(n, s)` on a valid key returns `fixDP F n (clampS n s)`: the value of the recursive
specification; it only extends the cache, with correct entries.  Hence the answers of any sequence
of calls do not depend on the history.

The argument is generic in the body: `Sim FM F` says that the cache-passing body `FM` returns what
the pure body `F` returns whenever its getter returns what the pure accessor returns, and that it
preserves any cache predicate preserved by the getter.
-/
namespace Ckpt

/-- `m` returns `v`, preserves `P`, and only extends the cache -/
def Returns {α β : Type} (P : Cache α → Prop) (m : CM α β) (v : β) : Prop :=
  ∀ c, P c → (m c).2 = v ∧ P (m c).1 ∧ ∀ x, x ∈ c → x ∈ (m c).1

/-- the cache-passing body `FM` simulates the pure body `F` on valid keys -/
def Sim {α : Type} (FM : Nat → Nat → Getter α → CM α α)
    (F : Nat → Nat → (Nat → Nat → α) → α) : Prop :=
  ∀ (P : Cache α → Prop) (n s : Nat) (get : Getter α) (g : Nat → Nat → α),
    validKey n s = true →
    (∀ i j, i < n → validKey i (clampS i j) = true → Returns P (get i j) (g i (clampS i j))) →
    Returns P (FM n s get) (F n s g)

theorem Returns_pure {α β : Type} (P : Cache α → Prop) (v : β) :
    Returns P (fun c => (c, v)) v :=
  fun _ hc => ⟨rfl, hc, fun _ hx => hx⟩

/-- a loop whose every iteration returns the pure step -/
theorem foldM_returns {α β : Type} (P : Cache α → Prop) (l : List Nat)
    (stepM : Cache α × β → Nat → Cache α × β) (stepP : β → Nat → β)
    (h : ∀ i, i ∈ l → ∀ b, Returns P (fun c => stepM (c, b) i) (stepP b i))
    (b : β) : Returns P (fun c => l.foldl stepM (c, b)) (l.foldl stepP b) := by
  induction l generalizing b with
  | nil => exact Returns_pure P b
  | cons x xs ih =>
    intro c hc
    obtain ⟨h1, h2, h3⟩ := h x (List.mem_cons_self ..) b c hc
    have h1' : (stepM (c, b) x).2 = stepP b x := h1
    have h2' : P (stepM (c, b) x).1 := h2
    obtain ⟨k1, k2, k3⟩ := ih (fun i hi => h i (List.mem_cons_of_mem _ hi)) (stepP b x)
      (stepM (c, b) x).1 h2'
    have e : ((x :: xs).foldl stepM (c, b)) =
        xs.foldl stepM ((stepM (c, b) x).1, stepP b x) := by
      rw [List.foldl_cons, ← h1']
    show ((x :: xs).foldl stepM (c, b)).2 = (x :: xs).foldl stepP b ∧
      P ((x :: xs).foldl stepM (c, b)).1 ∧ ∀ y, y ∈ c → y ∈ ((x :: xs).foldl stepM (c, b)).1
    rw [e, List.foldl_cons]
    exact ⟨k1, k2, fun y hy => k3 y (h3 y hy)⟩

/-- two wrapped calls in sequence, combined by `f` -/
theorem Returns_two {α β : Type} (P : Cache α → Prop) (m1 m2 : CM α α) (v1 v2 : α)
    (h1 : Returns P m1 v1) (h2 : Returns P m2 v2) (f : α → α → β) :
    Returns P (fun c => ((m2 (m1 c).1).1, f (m1 c).2 (m2 (m1 c).1).2)) (f v1 v2) := by
  intro c hc
  obtain ⟨a1, a2, a3⟩ := h1 c hc
  obtain ⟨b1, b2, b3⟩ := h2 (m1 c).1 a2
  refine ⟨?_, b2, fun x hx => b3 x (a3 x hx)⟩
  show f (m1 c).2 (m2 (m1 c).1).2 = f v1 v2
  rw [a1, b1]

/-! ## validity of the keys of the recursive calls -/

private theorem validKey_clamp (i j : Nat) (h1 : 1 ≤ i) (h2 : i = 1 ∨ 1 ≤ j) :
    validKey i (clampS i j) = true := by
  rw [validKey_iff]; unfold clampS; omega

/-! ## the three bodies -/

theorem memoFM_sim : Sim memoFM memoF := by
  intro P n s get g hv hget
  rw [validKey_iff] at hv
  rw [memoF_def]
  by_cases h1 : n ≤ 1
  · rw [if_pos h1]
    intro c hc
    have e : memoFM n s get c = (c, ⟨stForwardReverse, 1, 1⟩) := by
      unfold memoFM; rw [if_pos h1]
    rw [e]; exact ⟨rfl, hc, fun _ hx => hx⟩
  · rw [if_neg h1]
    by_cases h2 : n ≤ s + 1
    · rw [if_pos h2]
      intro c hc
      have e : memoFM n s get c = (c, ⟨stWriteAdjDeps, 1, n⟩) := by
        unfold memoFM; rw [if_neg h1, if_pos h2]
      rw [e]; exact ⟨rfl, hc, fun _ hx => hx⟩
    · rw [if_neg h2]
      by_cases h3 : s = 1
      · rw [if_pos h3]
        intro c hc
        have e : memoFM n s get c = (c, ⟨stWriteIcs, n - 1, n * (n + 1) / 2 - 1⟩) := by
          unfold memoFM; rw [if_neg h1, if_neg h2, if_pos h3]
        rw [e]; exact ⟨rfl, hc, fun _ hx => hx⟩
      · rw [if_neg h3]
        -- the loop
        have hloop := foldM_returns P (List.range' 2 (n - 2)) (memoStepM n s get)
          (memoStep (splitCand n s (fun i j => (g i j).cost)))
          (by
            intro i hi b
            rw [List.mem_range'_1] at hi
            have r1 := hget i s (by omega) (validKey_clamp i s (by omega) (by omega))
            have r2 := hget (n - i) (s - 1) (by omega)
              (validKey_clamp (n - i) (s - 1) (by omega) (by omega))
            exact Returns_two P _ _ _ _ r1 r2 (fun (x y : Cell) =>
              (match b with
              | none => some ⟨stWriteIcs, i, i + x.cost + y.cost⟩
              | some c => if i + x.cost + y.cost ≤ c.cost
                  then some ⟨stWriteIcs, i, i + x.cost + y.cost⟩ else some c : Option Cell)))
          none
        have rlast := hget (n - 1) (s - 1) (by omega)
          (validKey_clamp (n - 1) (s - 1) (by omega) (by omega))
        intro c hc
        obtain ⟨l1, l2, l3⟩ := hloop c hc
        have l1' : ((List.range' 2 (n - 2)).foldl (memoStepM n s get) (c, none)).2 =
            (List.range' 2 (n - 2)).foldl
              (memoStep (splitCand n s (fun i j => (g i j).cost))) none := l1
        have e : memoFM n s get c =
            match ((List.range' 2 (n - 2)).foldl (memoStepM n s get) (c, none)).2 with
            | none => (((List.range' 2 (n - 2)).foldl (memoStepM n s get) (c, none)).1, default)
            | some cc =>
              ((get (n - 1) (s - 1)
                  ((List.range' 2 (n - 2)).foldl (memoStepM n s get) (c, none)).1).1,
                if 1 + (get (n - 1) (s - 1)
                    ((List.range' 2 (n - 2)).foldl (memoStepM n s get) (c, none)).1).2.cost
                    < cc.cost
                then ⟨stWriteAdjDeps, 1, 1 + (get (n - 1) (s - 1)
                    ((List.range' 2 (n - 2)).foldl (memoStepM n s get) (c, none)).1).2.cost⟩
                else cc) := by
          unfold memoFM; rw [if_neg h1, if_neg h2, if_neg h3]; rfl
        rw [e, l1']
        cases hm : (List.range' 2 (n - 2)).foldl
            (memoStep (splitCand n s (fun i j => (g i j).cost))) none with
        | none => exact ⟨rfl, l2, l3⟩
        | some cc =>
          obtain ⟨q1, q2, q3⟩ := rlast _ l2
          refine ⟨?_, q2, fun x hx => q3 x (l3 x hx)⟩
          show (if 1 + (get (n - 1) (s - 1) _).2.cost < cc.cost then _ else cc) = _
          rw [q1]
          rfl

theorem extraFM_sim : Sim extraFM extraF := by
  intro P n s get g hv hget
  rw [validKey_iff] at hv
  rw [extraF_def]
  by_cases h1 : n ≤ 1
  · rw [if_pos h1]
    intro c hc
    have e : extraFM n s get c = (c, 0) := by unfold extraFM; rw [if_pos h1]
    rw [e]; exact ⟨rfl, hc, fun _ hx => hx⟩
  · rw [if_neg h1]
    by_cases h3 : s = 1
    · rw [if_pos h3]
      intro c hc
      have e : extraFM n s get c = (c, n * (n - 1) / 2) := by
        unfold extraFM; rw [if_neg h1, if_pos h3]
      rw [e]; exact ⟨rfl, hc, fun _ hx => hx⟩
    · rw [if_neg h3]
      have hloop := foldM_returns P (List.range' 1 (n - 1)) (extraStepM n s get)
        (extraStep (splitCand n s g))
        (by
          intro i hi b
          rw [List.mem_range'_1] at hi
          have r1 := hget i s (by omega) (validKey_clamp i s (by omega) (by omega))
          have r2 := hget (n - i) (s - 1) (by omega)
            (validKey_clamp (n - i) (s - 1) (by omega) (by omega))
          exact Returns_two P _ _ _ _ r1 r2 (fun x y =>
            match b with
            | none => some (i + x + y)
            | some c => if i + x + y < c then some (i + x + y) else some c))
        none
      intro c hc
      obtain ⟨l1, l2, l3⟩ := hloop c hc
      have l1' : ((List.range' 1 (n - 1)).foldl (extraStepM n s get) (c, none)).2 =
          (List.range' 1 (n - 1)).foldl (extraStep (splitCand n s g)) none := l1
      have e : extraFM n s get c =
          (((List.range' 1 (n - 1)).foldl (extraStepM n s get) (c, none)).1,
            ((List.range' 1 (n - 1)).foldl (extraStepM n s get) (c, none)).2.getD 0) := by
        unfold extraFM; rw [if_neg h1, if_neg h3]
      rw [e]
      exact ⟨by show Option.getD _ 0 = _; rw [l1'], l2, l3⟩

theorem optMixedFM_sim : Sim optMixedFM optMixedF := by
  intro P n s get g hv hget
  rw [validKey_iff] at hv
  rw [optMixedF_def]
  by_cases h2 : n ≤ s + 1
  · rw [if_pos h2]
    intro c hc
    have e : optMixedFM n s get c = (c, n) := by unfold optMixedFM; rw [if_pos h2]
    rw [e]; exact ⟨rfl, hc, fun _ hx => hx⟩
  · rw [if_neg h2]
    by_cases h3 : s = 1
    · rw [if_pos h3]
      intro c hc
      have e : optMixedFM n s get c = (c, n * (n + 1) / 2 - 1) := by
        unfold optMixedFM; rw [if_neg h2, if_pos h3]
      rw [e]; exact ⟨rfl, hc, fun _ hx => hx⟩
    · rw [if_neg h3]
      have hloop := foldM_returns P (List.range' 2 (n - 2)) (optMixedStepM n s get)
        (fun m i => min m (splitCand n s g i))
        (by
          intro i hi b
          rw [List.mem_range'_1] at hi
          have r1 := hget i s (by omega) (validKey_clamp i s (by omega) (by omega))
          have r2 := hget (n - i) (s - 1) (by omega)
            (validKey_clamp (n - i) (s - 1) (by omega) (by omega))
          exact Returns_two P _ _ _ _ r1 r2 (fun x y => min b (i + x + y)))
      have rlast := hget (n - 1) (s - 1) (by omega)
        (validKey_clamp (n - 1) (s - 1) (by omega) (by omega))
      intro c hc
      obtain ⟨q1, q2, q3⟩ := rlast c hc
      obtain ⟨l1, l2, l3⟩ := hloop (1 + (get (n - 1) (s - 1) c).2) _ q2
      have e : optMixedFM n s get c =
          (List.range' 2 (n - 2)).foldl (optMixedStepM n s get)
            ((get (n - 1) (s - 1) c).1, 1 + (get (n - 1) (s - 1) c).2) := by
        unfold optMixedFM; rw [if_neg h2, if_neg h3]
      rw [e]
      refine ⟨?_, l2, fun x hx => l3 x (q3 x hx)⟩
      rw [← q1]
      exact l1

/-! ## the wrapper -/

/-- every entry of the cache is the value of the specification at a valid key -/
def CacheOK {α : Type} [Inhabited α] (F : Nat → Nat → (Nat → Nat → α) → α) (c : Cache α) : Prop :=
  ∀ k v, (k, v) ∈ c → v = fixDP F k.1 k.2 ∧ validKey k.1 k.2 = true

theorem CacheOK_nil {α : Type} [Inhabited α] (F : Nat → Nat → (Nat → Nat → α) → α) :
    CacheOK F ([] : Cache α) := by
  intro k v h; cases h

theorem cacheLookup_mem {α : Type} (c : Cache α) (k : Nat × Nat) (v : α)
    (h : cacheLookup c k = some v) : (k, v) ∈ c := by
  induction c with
  | nil => cases h
  | cons x xs ih =>
    obtain ⟨k', v'⟩ := x
    by_cases hk : k' = k
    · have h' : (if k' = k then some v' else cacheLookup xs k) = some v := h
      rw [if_pos hk] at h'
      cases h'; subst hk
      exact List.mem_cons_self ..
    · have h' : (if k' = k then some v' else cacheLookup xs k) = some v := h
      rw [if_neg hk] at h'
      exact List.mem_cons_of_mem _ (ih h')

/-- `wrapped_fn(n, s)` returns the value of the recursive specification at the clamped key,
whatever (correct) cache it starts from; it only adds correct entries. -/
theorem cachedCall_returns {α : Type} [Inhabited α]
    (FM : Nat → Nat → Getter α → CM α α) (F : Nat → Nat → (Nat → Nat → α) → α)
    (hsim : Sim FM F) (hF : Local F) (fuel n s : Nat) (hfuel : n < fuel)
    (hv : validKey n (clampS n s) = true) :
    Returns (CacheOK F) (cachedCall FM fuel n s) (fixDP F n (clampS n s)) := by
  induction fuel generalizing n s with
  | zero => omega
  | succ fuel ih =>
    intro c hc
    cases hl : cacheLookup c (n, clampS n s) with
    | some v =>
      have e : cachedCall FM (fuel + 1) n s c = (c, v) := by
        show (match cacheLookup c (n, clampS n s) with
          | some v => (c, v)
          | none => _) = _
        rw [hl]
      rw [e]
      exact ⟨(hc _ _ (cacheLookup_mem c _ v hl)).1, hc, fun _ hx => hx⟩
    | none =>
      have e : cachedCall FM (fuel + 1) n s c =
          (cacheInsert (FM n (clampS n s) (cachedCall FM fuel) c).1 (n, clampS n s)
            (FM n (clampS n s) (cachedCall FM fuel) c).2,
           (FM n (clampS n s) (cachedCall FM fuel) c).2) := by
        show (match cacheLookup c (n, clampS n s) with
          | some v => (c, v)
          | none => _) = _
        rw [hl]
      rw [e]
      have hbody := hsim (CacheOK F) n (clampS n s) (cachedCall FM fuel) (fun i j => fixDP F i j)
        hv (fun i j hi hvij => ih i j (by omega) hvij)
      rw [← fixDP_eq F hF] at hbody
      obtain ⟨b1, b2, b3⟩ := hbody c hc
      refine ⟨b1, ?_, fun x hx => List.mem_cons_of_mem _ (b3 x hx)⟩
      intro k v hkv
      rcases List.mem_cons.1 hkv with h | h
      · cases h
        exact ⟨b1, hv⟩
      · exact b2 k v h

/-- the answers of a sequence of calls on valid keys are the values of the specification -/
theorem runCalls_returns {α : Type} [Inhabited α]
    (FM : Nat → Nat → Getter α → CM α α) (F : Nat → Nat → (Nat → Nat → α) → α)
    (hsim : Sim FM F) (hF : Local F) (calls : List (Nat × Nat))
    (hv : ∀ k, k ∈ calls → validKey k.1 (clampS k.1 k.2) = true) :
    Returns (CacheOK F) (runCalls FM calls)
      (calls.map (fun k => fixDP F k.1 (clampS k.1 k.2))) := by
  induction calls with
  | nil => exact Returns_pure _ _
  | cons k rest ih =>
    intro c hc
    obtain ⟨a1, a2, a3⟩ := cachedCall_returns FM F hsim hF (k.1 + 1) k.1 k.2 (by omega)
      (hv k (List.mem_cons_self ..)) c hc
    obtain ⟨b1, b2, b3⟩ := ih (fun k' hk' => hv k' (List.mem_cons_of_mem _ hk')) _ a2
    refine ⟨?_, b2, fun x hx => b3 x (a3 x hx)⟩
    show (cachedCall FM (k.1 + 1) k.1 k.2 c).2 ::
        (runCalls FM rest (cachedCall FM (k.1 + 1) k.1 k.2 c).1).2 = _
    rw [a1, b1]; rfl

/-- History independence: after ANY sequence of earlier calls (on valid keys) from the empty
cache, a call returns the value of the specification. -/
theorem cachedCall_history_independent {α : Type} [Inhabited α]
    (FM : Nat → Nat → Getter α → CM α α) (F : Nat → Nat → (Nat → Nat → α) → α)
    (hsim : Sim FM F) (hF : Local F) (history : List (Nat × Nat))
    (hh : ∀ k, k ∈ history → validKey k.1 (clampS k.1 k.2) = true)
    (fuel n s : Nat) (hfuel : n < fuel) (hv : validKey n (clampS n s) = true) :
    (cachedCall FM fuel n s (runCalls FM history []).1).2 = fixDP F n (clampS n s) :=
  (cachedCall_returns FM F hsim hF fuel n s hfuel hv _
    (runCalls_returns FM F hsim hF history hh [] (CacheOK_nil F)).2.1).1

/-! ## instances for the three kernels -/

theorem memoCached_returns (fuel n s : Nat) (hfuel : n < fuel)
    (hv : validKey n (clampS n s) = true) :
    Returns (CacheOK memoF) (cachedCall memoFM fuel n s) (memoCell n (clampS n s)) :=
  cachedCall_returns memoFM memoF memoFM_sim memoF_local fuel n s hfuel hv

theorem extraCached_returns (fuel n s : Nat) (hfuel : n < fuel)
    (hv : validKey n (clampS n s) = true) :
    Returns (CacheOK extraF) (cachedCall extraFM fuel n s) (extraCell n (clampS n s)) :=
  cachedCall_returns extraFM extraF extraFM_sim extraF_local fuel n s hfuel hv

theorem optMixedCached_returns (fuel n s : Nat) (hfuel : n < fuel)
    (hv : validKey n (clampS n s) = true) :
    Returns (CacheOK optMixedF) (cachedCall optMixedFM fuel n s) (optMixedCell n (clampS n s)) :=
  cachedCall_returns optMixedFM optMixedF optMixedFM_sim optMixedF_local fuel n s hfuel hv

/-- C15 for `mixed_step_memoization`: every answer in any sequence of calls from the empty cache
is `memoSpec`'s -/
theorem memoCalls_pure (calls : List (Nat × Nat))
    (hv : ∀ k, k ∈ calls → validKey k.1 (clampS k.1 k.2) = true) :
    (runCalls memoFM calls []).2 = calls.map (fun k => memoCell k.1 (clampS k.1 k.2)) :=
  (runCalls_returns memoFM memoF memoFM_sim memoF_local calls hv [] (CacheOK_nil memoF)).1

theorem extraCalls_pure (calls : List (Nat × Nat))
    (hv : ∀ k, k ∈ calls → validKey k.1 (clampS k.1 k.2) = true) :
    (runCalls extraFM calls []).2 = calls.map (fun k => extraCell k.1 (clampS k.1 k.2)) :=
  (runCalls_returns extraFM extraF extraFM_sim extraF_local calls hv [] (CacheOK_nil extraF)).1

theorem optMixedCalls_pure (calls : List (Nat × Nat))
    (hv : ∀ k, k ∈ calls → validKey k.1 (clampS k.1 k.2) = true) :
    (runCalls optMixedFM calls []).2 = calls.map (fun k => optMixedCell k.1 (clampS k.1 k.2)) :=
  (runCalls_returns optMixedFM optMixedF optMixedFM_sim optMixedF_local calls hv []
    (CacheOK_nil optMixedF)).1

end Ckpt
