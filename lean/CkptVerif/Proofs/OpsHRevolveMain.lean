import CkptVerif.Proofs.OpsHRevolve
import CkptVerif.Proofs.HRevolveOk
/-!
# Refinement for HRevolve, main induction
-/
namespace Ckpt.Ops

/-- what is proved about `hrecAt … = some ops` against `hRs … = some evs` -/
def HR (c : HCtx) (lo hi K : Nat) (evs : List Ev) (ops : List Op) : Prop :=
  OpsFacts lo hi (K = 0) ops ∧ ops ≠ [] ∧
  ∀ (tail : List Op) (wrap : Option Op) (S : List (Option Storage × Nat)), TailOk lo tail →
    SnapOk lo S →
    ∀ pos prev, Conv c.N wrap pos prev ops tail lo (c.N - hi) S evs (lo + 1) (c.N - lo) S

/-- what is proved about `hauxAt … = some ops` against `hAs … pending = some evs` -/
def HA (c : HCtx) (lo hi K cm : Nat) (pending : Option Nat) (evs : List Ev) (ops : List Op) : Prop :=
  OpsFacts lo hi (K = 0) ops ∧ ops ≠ [] ∧
  (∀ y, TailOk lo y → lastRd (some (lvl K), lo) (ops ++ y) = !reloads c K cm (hi - lo - 1)) ∧
  (pending = some K → ∀ (tail : List Op) (wrap : Option Op) (S : List (Option Storage × Nat)),
    TailOk lo tail → SnapOk lo S →
    ∀ pos prev, Conv c.N wrap pos prev (Op.w K lo :: ops) tail lo (c.N - hi) S evs (lo + 1)
      (c.N - lo) S) ∧
  (pending = none → ∀ (tail : List Op) (wrap : Option Op) (S : List (Option Storage × Nat)),
    TailOk lo tail → SnapOk lo S →
    ∀ pos prev n0, Conv c.N wrap pos prev (Op.r K lo :: ops) tail n0 (c.N - hi)
      ((some (lvl K), lo) :: S)
      (evLoad (reloads c K cm (hi - lo - 1)) lo (lvl K) (c.N - hi) :: evs) (lo + 1) (c.N - lo) S)

theorem snap_key (lo : Nat) (S : List (Option Storage × Nat)) (hS : SnapOk lo S)
    (st : Option Storage) : (st, lo) ∉ S := by
  intro h; have := hS _ h; simp at this

theorem TailOk.nil (lo : Nat) : TailOk lo [] := by intro o ho; cases ho

theorem TailOk.of_noTouch {lo : Nat} {a : List Op} (h : ∀ o ∈ a, opTouches o = false) :
    TailOk lo a := by
  intro o ho ht; rw [h o ho] at ht; cases ht

theorem TailOk.append {lo : Nat} {a b : List Op} (ha : TailOk lo a) (hb : TailOk lo b) :
    TailOk lo (a ++ b) := by
  intro o ho ht
  rcases List.mem_append.1 ho with h | h
  · exact ha o h ht
  · exact hb o h ht

theorem TailOk.mono {lo lo' : Nat} {a : List Op} (ha : TailOk lo a) (h : lo ≤ lo') :
    TailOk lo' a := by
  intro o ho ht; have := ha o ho ht; omega

theorem TailOk.of_keys {lo hi lo' : Nat} {a : List Op} (ha : KeysOps lo hi a) (h : hi ≤ lo') :
    TailOk lo' a := by
  intro o ho ht; have := (ha o ho ht).2; omega

/-- the part after `Write/Read; Forward [lo, lo+l]` of a segment whose right part is a single
step: turn around, then re-load `(lo, RAM)` again and again -/
theorem Yloop_conv (c : HCtx) (wrap : Option Op) (tail : List Op) (lo l : Nat) (spine : Bool)
    (S : List (Option Storage × Nat)) (hl : 1 ≤ l) (hN : lo + l + 1 ≤ c.N)
    (hsp : spine = true ↔ lo + l + 1 = c.N) (htail : TailOk lo tail) (hS : SnapOk lo S) :
    ∀ pos prev, Conv c.N wrap pos prev (hturn (lo + l) ++ hqLoop lo (l - 1)) tail (lo + l)
      (c.N - (lo + l + 1)) ((some .ram, lo) :: S)
      (evBase c (lo + l) (lo + l + 1) spine ++
        ((List.range (l - 1)).reverse.flatMap (loopEv c lo) ++
          [evLoad false lo .ram (c.N - (lo + 1))] ++ evBase c lo (lo + 1) false))
      (lo + 1) (c.N - lo) S := by
  intro pos prev
  refine Conv.append (n1 := lo + l + 1) (r1 := c.N - (lo + l)) (S1 := (some .ram, lo) :: S)
    (by simp [hturn]) ?_ ?_
  · rw [evBase_eq_turn c (lo + l) spine hsp]
    exact hturn_block c.N wrap _ _ _ (lo + l) _ (by omega)
  · exact Conv.congr (hqLoop_conv c wrap tail lo S htail hS (l - 1) (by omega) _ _ (lo + l + 1))
      rfl (by omega) rfl rfl rfl

/-- the `hR` half of the induction step -/
theorem hrev_refine_R (c : HCtx) (fuel : Nat)
    (ihR : ∀ lo hi K cm spine evs, K ≤ 1 → lo < hi → hi ≤ c.N → (spine = true ↔ hi = c.N) →
      hRs c fuel lo hi K cm spine = some evs →
      ∃ ops, hrecAt c fuel lo (hi - lo - 1) K cm = some ops ∧ HR c lo hi K evs ops)
    (ihA : ∀ lo hi K cm spine pending evs, K ≤ 1 → lo < hi → hi ≤ c.N →
      (spine = true ↔ hi = c.N) → (pending = none ∨ pending = some K) →
      (pending = none → spine = false) →
      hAs c fuel lo hi K cm spine pending = some evs →
      ∃ ops, hauxAt c fuel lo (hi - lo - 1) K cm = some ops ∧ HA c lo hi K cm pending evs ops) :
    ∀ lo hi K cm spine evs, K ≤ 1 → lo < hi → hi ≤ c.N → (spine = true ↔ hi = c.N) →
      hRs c (fuel + 1) lo hi K cm spine = some evs →
      ∃ ops, hrecAt c (fuel + 1) lo (hi - lo - 1) K cm = some ops ∧ HR c lo hi K evs ops := by
  intro lo hi K cm spine evs hK hlt hN hsp h
  rw [hRs_succ] at h
  rw [hrecAt]
  by_cases h0 : hi - lo - 1 = 0
  · rw [if_pos h0] at h
    rw [if_pos h0]
    cases h
    obtain rfl : hi = lo + 1 := by omega
    refine ⟨_, rfl, facts_hturn _ _ _ _, by simp [hturn], ?_⟩
    intro tail wrap S _ _ pos prev
    rw [evBase_eq_turn c lo spine hsp]
    exact hturn_block c.N wrap pos prev tail lo S hN
  rw [if_neg h0] at h
  rw [if_neg h0]
  by_cases hk0 : K = 0 ∧ cm = 0
  · rw [if_pos hk0] at h; cases h
  rw [if_neg hk0] at h
  rw [if_neg hk0]
  by_cases h1 : hi - lo - 1 = 1
  · rw [if_pos h1] at h
    rw [if_pos h1]
    cases h
    obtain rfl : hi = lo + 1 + 1 := by omega
    have hfacts : OpsFacts lo (lo + 1 + 1) (K = 0)
        ([Op.w 0 lo, Op.fwd lo (lo + 1)] ++ hturn (lo + 1) ++ hqLoop lo 0) := by
      have e : [Op.w 0 lo, Op.fwd lo (lo + 1)] = [Op.w 0 lo] ++ [Op.fwd lo (lo + 1)] := rfl
      rw [e]
      exact (((facts_w lo _ 0 _ (by omega) (by omega) (fun _ => rfl)).append
        (facts_fwd _ _ _ _ _ (by omega))).append (facts_hturn _ _ _ _)).append
        (facts_hqLoop lo _ _ (by omega) 0)
    refine ⟨_, rfl, hfacts, by simp, ?_⟩
    intro tail wrap S htail hS pos prev
    have hY := Yloop_conv c wrap tail lo 1 spine S (le_refl _) hN hsp htail hS
    have := conv_write_prefix c 0 lo 1 (lo + 1 + 1) (hturn (lo + 1) ++ hqLoop lo 0) tail wrap S S
      _ (lo + 1) (c.N - lo) (by omega) (by omega) (by omega) (snap_key lo S hS _) hY pos prev
    refine Conv.evs this ?_
    simp
  rw [if_neg h1] at h
  rw [if_neg h1]
  by_cases hK0 : K = 0
  · subst hK0
    rw [if_pos rfl] at h
    rw [if_pos rfl]
    obtain ⟨aux, haux, hfa, hne, _, hP, _⟩ := ihA lo hi 0 cm spine (some 0) evs (by omega) hlt hN hsp
      (Or.inr rfl) (fun h => by cases h) h
    rw [haux]
    refine ⟨_, rfl, ?_, by simp, ?_⟩
    · exact (facts_w lo hi 0 _ (by omega) hlt (fun _ => rfl)).append hfa
    · intro tail wrap S htail hS pos prev
      exact hP rfl tail wrap S htail hS pos prev
  rw [if_neg hK0] at h
  rw [if_neg hK0]
  by_cases ht : olt (oadd (some (c.w K)) (c.tab.optp K (hi - lo - 1) cm))
      (c.tab.opt (K - 1) (hi - lo - 1) (cv c (K - 1))) = true
  · rw [if_pos ht] at h
    rw [if_pos ht]
    obtain ⟨aux, haux, hfa, hne, _, hP, _⟩ := ihA lo hi K cm spine (some K) evs hK hlt hN hsp
      (Or.inr rfl) (fun h => by cases h) h
    rw [haux]
    refine ⟨_, rfl, ?_, by simp, ?_⟩
    · exact (facts_w lo hi K _ hK hlt (fun h => h)).append hfa
    · intro tail wrap S htail hS pos prev
      exact hP rfl tail wrap S htail hS pos prev
  · rw [if_neg ht] at h
    rw [if_neg ht]
    obtain ⟨ops, hops, hf, hne, hconv⟩ := ihR lo hi (K - 1) (cv c (K - 1)) spine evs (by omega) hlt
      hN hsp h
    exact ⟨ops, hops, hf.mono (le_refl _) (le_refl _) (fun h => absurd h hK0), hne, hconv⟩

theorem lastRd_noTouch_tail (lo : Nat) (k : Option Storage) (a y : List Op)
    (ha : ∀ o ∈ a, opTouches o = true → opKeyOf o ≠ (k, lo)) (hy : TailOk lo y) :
    lastRd (k, lo) (a ++ y) = true := by
  rw [lastRd_skip _ _ _ ha]
  exact lastRd_tail lo y hy _ lo (le_refl _)

theorem reloads_one (c : HCtx) (K cm : Nat) :
    reloads c K cm 1 = !(decide (c.w 0 + c.rr 0 < c.rr K)) := by
  unfold reloads; simp

theorem reloads_zero_l (c : HCtx) (K cm : Nat) : reloads c K cm 0 = false := by
  unfold reloads; simp

/-- the small cases of `hA`: `l = 0`, `l = 1`, and the `cm = 1` loop -/
theorem hrev_refine_A_small (c : HCtx) (fuel lo hi K cm : Nat) (spine : Bool)
    (pending : Option Nat) (evs : List Ev) (hK : K ≤ 1) (hlt : lo < hi) (hN : hi ≤ c.N)
    (hsp : spine = true ↔ hi = c.N) (hp : pending = none ∨ pending = some K)
    (hps : pending = none → spine = false) (hcm : cm ≠ 0)
    (hsmall : hi - lo - 1 = 0 ∨ hi - lo - 1 = 1 ∨ (K = 0 ∧ cm = 1))
    (h : hAs c (fuel + 1) lo hi K cm spine pending = some evs) :
    ∃ ops, hauxAt c (fuel + 1) lo (hi - lo - 1) K cm = some ops ∧ HA c lo hi K cm pending evs ops := by
  rw [hAs_succ, if_neg hcm] at h
  rw [hauxAt, if_neg hcm]
  by_cases h0 : hi - lo - 1 = 0
  · rw [if_pos h0] at h
    rw [if_pos h0]
    have hpn : pending = none := by
      cases pending with
      | none => rfl
      | some p => simp at h
    subst hpn
    simp only [Option.isSome_none, Bool.false_eq_true, if_false] at h
    cases h
    obtain rfl : hi = lo + 1 := by omega
    refine ⟨_, rfl, facts_hturn _ _ _ _, by simp [hturn], ?_, (fun h => by cases h), fun _ => ?_⟩
    · intro y hy
      rw [h0, reloads_zero_l]
      exact lastRd_noTouch_tail lo _ _ y (fun o ho ht => by
        rw [opTouches_hturn lo o ho] at ht; cases ht) hy
    · intro tail wrap S htail hS pos prev n0
      rw [h0, reloads_zero_l]
      refine conv_move_prefix c K lo _ (hturn lo) tail wrap S S _ _ _ hK (snap_key lo S hS _)
        (lastRd_noTouch_tail lo _ _ tail (fun o ho ht => by
          rw [opTouches_hturn lo o ho] at ht; cases ht) htail) ?_ pos prev n0
      intro pos' prev'
      rw [evBase_eq_turn c lo spine hsp]
      exact hturn_block c.N wrap pos' prev' tail lo S hN
  rw [if_neg h0] at h
  rw [if_neg h0]
  by_cases h1 : hi - lo - 1 = 1
  · rw [if_pos h1] at h
    rw [if_pos h1]
    have hpn : pending = none := by
      cases pending with
      | none => rfl
      | some p => simp at h
    subst hpn
    have hsf := hps rfl
    subst hsf
    simp only [Option.isSome_none, Bool.false_eq_true, if_false] at h
    obtain rfl : hi = lo + 1 + 1 := by omega
    have hN1 : ¬ lo + 1 = c.N := by omega
    by_cases ht : c.w 0 + c.rr 0 < c.rr K
    · rw [if_pos ht] at h
      rw [if_pos ht]
      cases h
      have hK0 : K ≠ 0 := by intro h; subst h; omega
      have hfacts : ∀ p : Prop, (p → True) → OpsFacts lo (lo + 1 + 1) True
          ([Op.w 0 lo, Op.fwd lo (lo + 1)] ++ hturn (lo + 1) ++ hqLoop lo 0) := by
        intro _ _
        have e : [Op.w 0 lo, Op.fwd lo (lo + 1)] = [Op.w 0 lo] ++ [Op.fwd lo (lo + 1)] := rfl
        rw [e]
        exact (((facts_w lo _ 0 _ (by omega) (by omega) (fun _ => rfl)).append
          (facts_fwd _ _ _ _ _ (by omega))).append (facts_hturn _ _ _ _)).append
          (facts_hqLoop lo _ _ (by omega) 0)
      have hf := hfacts True id
      have hnotouch : ∀ o ∈ [Op.w 0 lo, Op.fwd lo (lo + 1)] ++ hturn (lo + 1) ++ hqLoop lo 0,
          opTouches o = true → opKeyOf o ≠ (some (lvl K), lo) := by
        intro o ho hto he
        have := hf.ram trivial o ho hto
        rw [he, lvl_pos K hK0] at this
        cases this
      refine ⟨_, rfl, hf.mono (le_refl _) (le_refl _) (fun _ => trivial), by simp, ?_,
        (fun h => by cases h), fun _ => ?_⟩
      · intro y hy
        rw [h1, reloads_one]
        simp only [ht, decide_true, Bool.not_true, Bool.not_false]
        exact lastRd_noTouch_tail lo _ _ y hnotouch hy
      · intro tail wrap S htail hS pos prev n0
        rw [h1, reloads_one]
        simp only [ht, decide_true, Bool.not_true]
        refine conv_move_prefix c K lo _ _ tail wrap S S _ _ _ hK (snap_key lo S hS _)
          (lastRd_noTouch_tail lo _ _ tail hnotouch htail) ?_ pos prev n0
        intro pos' prev'
        have hY := Yloop_conv c wrap tail lo 1 false S (le_refl _) hN hsp htail hS
        have := conv_write_prefix c 0 lo 1 (lo + 1 + 1) (hturn (lo + 1) ++ hqLoop lo 0) tail wrap
          S S _ (lo + 1) (c.N - lo) (by omega) (by omega) hN1 (snap_key lo S hS _) hY pos' prev'
        refine Conv.evs this ?_
        simp
    · rw [if_neg ht] at h
      rw [if_neg ht]
      cases h
      have hlist : [Op.fwd lo (lo + 1)] ++ hturn (lo + 1) ++ [Op.r K lo] ++ hturn lo ++ [Op.d 0 lo] =
          Op.fwd lo (lo + 1) :: (hturn (lo + 1) ++ (Op.r K lo :: (hturn lo ++ [Op.d 0 lo]))) := by
        simp
      have hfacts : OpsFacts lo (lo + 1 + 1) (K = 0)
          ([Op.fwd lo (lo + 1)] ++ hturn (lo + 1) ++ [Op.r K lo] ++ hturn lo ++ [Op.d 0 lo]) :=
        ((((facts_fwd _ _ _ _ _ (by omega)).append (facts_hturn _ _ _ _)).append
          (facts_r lo _ K _ hK (by omega) (fun h => h))).append (facts_hturn _ _ _ _)).append
          (facts_d _ _ _ _)
      have hl2 : ∀ y, lastRd (some (lvl K), lo)
          ((hturn (lo + 1) ++ (Op.r K lo :: (hturn lo ++ [Op.d 0 lo]))) ++ y) = false := by
        intro y
        rw [List.append_assoc, lastRd_skip _ _ _ (fun o ho ht => by
          rw [opTouches_hturn _ o ho] at ht; cases ht), List.cons_append]
        exact lastRd_r K lo hK _
      refine ⟨_, rfl, hfacts, by simp, ?_, (fun h => by cases h), fun _ => ?_⟩
      · intro y _
        rw [h1, reloads_one, hlist, List.cons_append, lastRd]
        simp only [opIsRead, opIsWrite, Op.fwd, OpKind.isRead, OpKind.isWrite, Bool.false_eq_true,
          false_and, if_false, ht, decide_false, Bool.not_false, Bool.not_true]
        exact hl2 y
      · intro tail wrap S htail hS pos prev n0
        rw [h1, reloads_one, hlist]
        simp only [ht, decide_false, Bool.not_false]
        have hkey := snap_key lo S hS (some (lvl K))
        have hd : (hturn lo ++ [Op.d 0 lo]) ≠ [] := by simp [hturn]
        have := conv_copy_prefix c K lo 1 (lo + 1 + 1)
          (hturn (lo + 1) ++ (Op.r K lo :: (hturn lo ++ [Op.d 0 lo]))) tail wrap
          ((some (lvl K), lo) :: S) S
          (evBase c (lo + 1) (lo + 1 + 1) false ++ (evLoad false lo (lvl K) (c.N - (lo + 1)) ::
            (evBase c lo (lo + 1) false ++ []))) (lo + 1) (c.N - lo) hK (by omega) hN1 (hl2 tail)
          (by
            intro pos' prev'
            refine Conv.append (n1 := lo + 1 + 1) (r1 := c.N - (lo + 1))
              (S1 := (some (lvl K), lo) :: S) (by simp [hturn]) ?_ ?_
            · rw [evBase_eq_turn c (lo + 1) false hsp]
              exact hturn_block c.N wrap _ _ _ (lo + 1) _ (by omega)
            · refine conv_move_prefix c K lo _ (hturn lo ++ [Op.d 0 lo]) tail wrap S S _ _ _ hK hkey
                (lastRd_noTouch_tail lo _ _ tail (fun o ho ht => by
                  rcases List.mem_append.1 ho with ho | ho
                  · rw [opTouches_hturn lo o ho] at ht; cases ht
                  · rw [List.mem_singleton] at ho; subst ho; cases ht) htail) ?_ _ _ _
              intro pos'' prev''
              refine Conv.append (n1 := lo + 1) (r1 := c.N - lo) (S1 := S) (by simp [hturn]) ?_ ?_
              · rw [evBase_eq_turn c lo false (by constructor <;> intro h <;> [cases h; omega])]
                exact hturn_block c.N wrap _ _ _ lo S (by omega)
              · refine Conv.cons (e1 := []) (e2 := []) ?_ (Conv.nil _ _ _ _ _ _ _ _)
                refine step_noop c.N _ _ _ _ _ (lo + 1) _ S _ (convAct_d 0 lo (by omega))
                  (Or.inr (Or.inl ⟨Or.inl rfl, ?_⟩))
                simp [hturn])
          pos prev n0
        refine Conv.evs this ?_
        simp
  rw [if_neg h1] at h
  rw [if_neg h1]
  have hkc : K = 0 ∧ cm = 1 := by
    rcases hsmall with h | h | h
    · exact absurd h h0
    · exact absurd h h1
    · exact h
  rw [if_pos hkc] at h
  rw [if_pos hkc]
  obtain ⟨hK0, hcm1⟩ := hkc
  subst hK0 hcm1
  obtain ⟨l', hl'⟩ : ∃ l', hi - lo - 1 = l' + 1 := ⟨hi - lo - 1 - 1, by omega⟩
  have hl1 : 1 ≤ l' := by omega
  obtain rfl : hi = lo + (l' + 1) + 1 := by omega
  rw [hl', hAs_loop_body c lo l' spine pending _ rfl] at h
  cases h
  rw [hl']
  have hNl : ¬ lo + (l' + 1) = c.N := by omega
  have hfacts : OpsFacts lo (lo + (l' + 1) + 1) (0 = 0)
      ([Op.fwd lo (lo + (l' + 1))] ++ hturn (lo + (l' + 1)) ++ hqLoop lo (l' + 1 - 1)) :=
    ((facts_fwd _ _ _ _ _ (by omega)).append (facts_hturn _ _ _ _)).append
      (facts_hqLoop lo _ _ (by omega) _)
  have hl2 : ∀ y, lastRd (some (lvl 0), lo)
      ((hturn (lo + (l' + 1)) ++ hqLoop lo (l' + 1 - 1)) ++ y) = false := by
    intro y
    rw [List.append_assoc, lastRd_skip _ _ _ (fun o ho ht => by
      rw [opTouches_hturn _ o ho] at ht; cases ht)]
    exact lastRd_hqLoop lo _ y
  have hlist : [Op.fwd lo (lo + (l' + 1))] ++ hturn (lo + (l' + 1)) ++ hqLoop lo (l' + 1 - 1) =
      Op.fwd lo (lo + (l' + 1)) :: (hturn (lo + (l' + 1)) ++ hqLoop lo (l' + 1 - 1)) := by simp
  refine ⟨_, rfl, hfacts, by simp, ?_, fun hpk => ?_, fun hpn => ?_⟩
  · intro y _
    rw [reloads_zero c 1 _ (by omega), hlist, List.cons_append, lastRd]
    simp only [opIsRead, opIsWrite, Op.fwd, OpKind.isRead, OpKind.isWrite, Bool.false_eq_true,
      false_and, if_false, Bool.not_true]
    exact hl2 y
  · subst hpk
    intro tail wrap S htail hS pos prev
    rw [hlist]
    have hY := Yloop_conv c wrap tail lo (l' + 1) spine S (by omega) hN hsp htail hS
    have := conv_write_prefix c 0 lo (l' + 1) (lo + (l' + 1) + 1) _ tail wrap S S _ (lo + 1)
      (c.N - lo) (by omega) (by omega) hNl (snap_key lo S hS _) hY pos prev
    refine Conv.evs this ?_
    simp [Nat.add_assoc]
  · subst hpn
    intro tail wrap S htail hS pos prev n0
    rw [hlist, reloads_zero c 1 _ (by omega)]
    have hY := Yloop_conv c wrap tail lo (l' + 1) spine S (by omega) hN hsp htail hS
    have := conv_copy_prefix c 0 lo (l' + 1) (lo + (l' + 1) + 1) _ tail wrap
      ((some (lvl 0), lo) :: S) S _ (lo + 1) (c.N - lo) (by omega) (by omega) hNl (hl2 tail) hY
      pos prev n0
    refine Conv.evs this ?_
    simp [Nat.add_assoc]

/-- the `hA` half of the induction step -/
theorem hrev_refine_A (c : HCtx) (fuel : Nat)
    (ihR : ∀ lo hi K cm spine evs, K ≤ 1 → lo < hi → hi ≤ c.N → (spine = true ↔ hi = c.N) →
      hRs c fuel lo hi K cm spine = some evs →
      ∃ ops, hrecAt c fuel lo (hi - lo - 1) K cm = some ops ∧ HR c lo hi K evs ops)
    (ihA : ∀ lo hi K cm spine pending evs, K ≤ 1 → lo < hi → hi ≤ c.N →
      (spine = true ↔ hi = c.N) → (pending = none ∨ pending = some K) →
      (pending = none → spine = false) →
      hAs c fuel lo hi K cm spine pending = some evs →
      ∃ ops, hauxAt c fuel lo (hi - lo - 1) K cm = some ops ∧ HA c lo hi K cm pending evs ops) :
    ∀ lo hi K cm spine pending evs, K ≤ 1 → lo < hi → hi ≤ c.N → (spine = true ↔ hi = c.N) →
      (pending = none ∨ pending = some K) → (pending = none → spine = false) →
      hAs c (fuel + 1) lo hi K cm spine pending = some evs →
      ∃ ops, hauxAt c (fuel + 1) lo (hi - lo - 1) K cm = some ops ∧
        HA c lo hi K cm pending evs ops := by
  intro lo hi K cm spine pending evs hK hlt hN hsp hp hps h
  by_cases hcm : cm = 0
  · rw [hAs_succ, if_pos hcm] at h; cases h
  by_cases hsmall : hi - lo - 1 = 0 ∨ hi - lo - 1 = 1 ∨ (K = 0 ∧ cm = 1)
  · exact hrev_refine_A_small c fuel lo hi K cm spine pending evs hK hlt hN hsp hp hps hcm hsmall h
  have h0 : ¬ hi - lo - 1 = 0 := fun h => hsmall (Or.inl h)
  have h1 : ¬ hi - lo - 1 = 1 := fun h => hsmall (Or.inr (Or.inl h))
  have hkc : ¬ (K = 0 ∧ cm = 1) := fun h => hsmall (Or.inr (Or.inr h))
  have hl2 : 2 ≤ hi - lo - 1 := by omega
  rw [hAs_succ, if_neg hcm, if_neg h0, if_neg h1, if_neg hkc] at h
  rw [hauxAt, if_neg hcm, if_neg h0, if_neg h1, if_neg hkc]
  by_cases hs : hSplit c K cm (hi - lo - 1) = true
  · -- a split
    rw [if_pos hs] at h
    rw [if_pos hs]
    obtain ⟨hj1, hj2⟩ := hSplit_range c K cm (hi - lo - 1) hl2
    generalize argminO (hCands c K cm (hi - lo - 1)) = j at hj1 hj2 h ⊢
    have hrel : reloads c K cm (hi - lo - 1) = true := by
      by_cases hK0 : K = 0
      · subst hK0; exact reloads_zero c cm _ hl2
      · rw [reloads_pos c K cm _ hl2 hK0]; exact hs
    cases hr : hRs c fuel (lo + j) hi K (cm - 1) spine with
    | none => rw [hr] at h; cases h
    | some evsR =>
      cases ha : hAs c fuel lo (lo + j) K cm false none with
      | none => rw [hr, ha] at h; cases h
      | some evsL =>
        rw [hr, ha] at h
        cases h
        obtain ⟨R, hR, hRf, hRne, hRc⟩ := ihR (lo + j) hi K (cm - 1) spine evsR hK (by omega) hN hsp hr
        obtain ⟨L, hL, hLf, hLne, hLl, _, hLq⟩ := ihA lo (lo + j) K cm false none evsL hK (by omega)
          (by omega) (by constructor <;> intro h <;> [cases h; omega]) (Or.inl rfl) (fun _ => rfl) ha
        have hLq := hLq rfl
        rw [show hi - (lo + j) - 1 = hi - lo - 1 - j by omega] at hR
        rw [show lo + j - lo - 1 = j - 1 by omega] at hL hLl hLq
        rw [hR, hL]
        dsimp only
        -- the optional final `Discard`
        obtain ⟨D, hD, hops⟩ : ∃ D : List Op, (D = [] ∨ D = [Op.d 0 lo]) ∧
            (if K = 0 ∧ (([Op.fwd lo (lo + j)] ++ R ++ [Op.r K lo] ++ L).getLast?.map (·.kind)) ≠
                some .discard
              then [Op.fwd lo (lo + j)] ++ R ++ [Op.r K lo] ++ L ++ [Op.d 0 lo]
              else [Op.fwd lo (lo + j)] ++ R ++ [Op.r K lo] ++ L) =
            Op.fwd lo (lo + j) :: (R ++ (Op.r K lo :: (L ++ D))) := by
          by_cases hcnd : K = 0 ∧ (([Op.fwd lo (lo + j)] ++ R ++ [Op.r K lo] ++ L).getLast?.map
              (·.kind)) ≠ some .discard
          · exact ⟨[Op.d 0 lo], Or.inr rfl, by rw [if_pos hcnd]; simp⟩
          · exact ⟨[], Or.inl rfl, by rw [if_neg hcnd]; simp⟩
        rw [hops]
        have hDt : ∀ o ∈ D, opTouches o = false := by
          intro o ho
          rcases hD with rfl | rfl
          · cases ho
          · rw [List.mem_singleton] at ho; subst ho; rfl
        have hDf : OpsFacts lo hi (K = 0) D := by
          rcases hD with rfl | rfl
          · exact OpsFacts.of_noTouch (by intro o ho; cases ho) (by intro o ho; cases ho)
          · exact facts_d _ _ _ _
        have hRk : ∀ o ∈ R, opTouches o = true → opKeyOf o ≠ (some (lvl K), lo) := by
          intro o ho ht he
          have := (hRf.keys o ho ht).1
          rw [he] at this
          simp at this
          omega
        have hlastY : ∀ y, lastRd (some (lvl K), lo) ((R ++ (Op.r K lo :: (L ++ D))) ++ y) = false := by
          intro y
          rw [List.append_assoc, lastRd_skip _ _ _ hRk, List.cons_append]
          exact lastRd_r K lo hK _
        have hNj : ¬ lo + j = c.N := by omega
        -- the part after the first `Forward`
        have hY : ∀ (tail : List Op) (wrap : Option Op) (S : List (Option Storage × Nat)),
            TailOk lo tail → SnapOk lo S →
            ∀ pos prev, Conv c.N wrap pos prev (R ++ (Op.r K lo :: (L ++ D))) tail (lo + j)
              (c.N - hi) ((some (lvl K), lo) :: S)
              (evsR ++ (evLoad (reloads c K cm (j - 1)) lo (lvl K) (c.N - (lo + j)) :: evsL))
              (lo + 1) (c.N - lo) S := by
          intro tail wrap S htail hS pos prev
          have htailR : TailOk (lo + j) ((Op.r K lo :: (L ++ D)) ++ tail) := by
            intro o ho ht
            rcases List.mem_append.1 ho with ho | ho
            · rcases List.mem_cons.1 ho with rfl | ho
              · rw [opKeyOf_r K lo hK]; show lo < lo + j; omega
              · rcases List.mem_append.1 ho with ho | ho
                · exact (hLf.keys o ho ht).2
                · rw [hDt o ho] at ht; cases ht
            · have := htail o ho ht; omega
          refine Conv.append (n1 := lo + j + 1) (r1 := c.N - (lo + j))
            (S1 := (some (lvl K), lo) :: S) hRne ?_ ?_
          · exact hRc _ wrap _ htailR (hS.cons (by omega) _) _ _
          · have hq := hLq (D ++ tail) wrap S
              ((TailOk.of_noTouch hDt).append htail) hS
            have e : Op.r K lo :: (L ++ D) = (Op.r K lo :: L) ++ D := rfl
            rw [e]
            refine Conv.evs (evs' := (evLoad (reloads c K cm (j - 1)) lo (lvl K) (c.N - (lo + j)) ::
              evsL) ++ []) ?_ (by simp)
            refine Conv.append (n1 := lo + 1) (r1 := c.N - lo) (S1 := S) (by simp) (hq _ _ _) ?_
            rcases hD with rfl | rfl
            · exact Conv.nil _ _ _ _ _ _ _ _
            · refine Conv.cons (e1 := []) (e2 := []) ?_ (Conv.nil _ _ _ _ _ _ _ _)
              refine step_noop c.N _ _ _ _ _ (lo + 1) _ S _ (convAct_d 0 lo (by omega))
                (Or.inr (Or.inl ⟨Or.inl rfl, ?_⟩))
              have : 1 ≤ L.length := by
                cases L with
                | nil => exact absurd rfl hLne
                | cons x xs => simp
              simp
              omega
        have hfacts : OpsFacts lo hi (K = 0) (Op.fwd lo (lo + j) :: (R ++ (Op.r K lo :: (L ++ D)))) := by
          have e : Op.fwd lo (lo + j) :: (R ++ (Op.r K lo :: (L ++ D))) =
              [Op.fwd lo (lo + j)] ++ R ++ [Op.r K lo] ++ L ++ D := by simp
          rw [e]
          exact ((((facts_fwd _ _ _ _ _ (by omega)).append
            (hRf.mono (by omega) (le_refl _) id)).append
            (facts_r lo hi K _ hK hlt (fun h => h))).append
            (hLf.mono (le_refl _) (by omega) id)).append hDf
        refine ⟨_, rfl, hfacts, by simp, ?_, fun hpk => ?_, fun hpn => ?_⟩
        · intro y _
          rw [hrel, List.cons_append, lastRd]
          simp only [opIsRead, opIsWrite, Op.fwd, OpKind.isRead, OpKind.isWrite, Bool.false_eq_true,
            false_and, if_false, Bool.not_true]
          exact hlastY y
        · subst hpk
          intro tail wrap S htail hS pos prev
          have := conv_write_prefix c K lo j hi _ tail wrap S S _ (lo + 1) (c.N - lo) hK (by omega)
            hNj (snap_key lo S hS _) (hY tail wrap S htail hS) pos prev
          refine Conv.evs this ?_
          simp
        · subst hpn
          intro tail wrap S htail hS pos prev n0
          rw [hrel]
          have := conv_copy_prefix c K lo j hi _ tail wrap ((some (lvl K), lo) :: S) S _ (lo + 1)
            (c.N - lo) hK (by omega) hNj (hlastY tail) (hY tail wrap S htail hS) pos prev n0
          refine Conv.evs this ?_
          simp
  rw [if_neg hs] at h
  rw [if_neg hs]
  by_cases hK0 : K = 0
  · -- fall back to a single slot
    subst hK0
    rw [if_pos rfl] at h
    rw [if_pos rfl]
    obtain ⟨ops, hops, hf, hne, hl, hP, hQ⟩ := ihA lo hi 0 1 spine pending evs (by omega) hlt hN hsp
      hp hps h
    refine ⟨ops, hops, hf, hne, ?_, hP, ?_⟩
    · intro y hy
      rw [reloads_zero c cm _ hl2, ← reloads_zero c 1 _ hl2]
      exact hl y hy
    · intro hpn tail wrap S htail hS pos prev n0
      have := hQ hpn tail wrap S htail hS pos prev n0
      rw [reloads_zero c 1 _ hl2] at this
      rw [reloads_zero c cm _ hl2]
      exact this
  · -- fall through to the level below
    rw [if_neg hK0] at h
    rw [if_neg hK0]
    have hpn : pending = none := by
      cases pending with
      | none => rfl
      | some p => simp at h
    subst hpn
    simp only [Option.isSome_none, Bool.false_eq_true, if_false] at h
    obtain ⟨ops, hops, hf, hne, hconv⟩ := ihR lo hi (K - 1) (cv c (K - 1)) spine evs (by omega) hlt
      hN hsp h
    have hrel : reloads c K cm (hi - lo - 1) = false := by
      rw [reloads_pos c K cm _ hl2 hK0]; simpa using hs
    have hnot : ∀ o ∈ ops, opTouches o = true → opKeyOf o ≠ (some (lvl K), lo) := by
      intro o ho ht he
      have := hf.ram (by omega) o ho ht
      rw [he, lvl_pos K hK0] at this
      cases this
    refine ⟨ops, hops, hf.mono (le_refl _) (le_refl _) (fun h => absurd h hK0), hne, ?_,
      (fun h => by cases h), fun _ => ?_⟩
    · intro y hy
      rw [hrel]
      exact lastRd_noTouch_tail lo _ _ y hnot hy
    · intro tail wrap S htail hS pos prev n0
      rw [hrel]
      exact conv_move_prefix c K lo _ ops tail wrap S S _ _ _ hK (snap_key lo S hS _)
        (lastRd_noTouch_tail lo _ _ tail hnot htail) (hconv tail wrap S htail hS) pos prev n0

/-- **the block theorem for HRevolve** -/
theorem hrev_refine (c : HCtx) : ∀ fuel,
    (∀ lo hi K cm spine evs, K ≤ 1 → lo < hi → hi ≤ c.N → (spine = true ↔ hi = c.N) →
      hRs c fuel lo hi K cm spine = some evs →
      ∃ ops, hrecAt c fuel lo (hi - lo - 1) K cm = some ops ∧ HR c lo hi K evs ops) ∧
    (∀ lo hi K cm spine pending evs, K ≤ 1 → lo < hi → hi ≤ c.N →
      (spine = true ↔ hi = c.N) → (pending = none ∨ pending = some K) →
      (pending = none → spine = false) →
      hAs c fuel lo hi K cm spine pending = some evs →
      ∃ ops, hauxAt c fuel lo (hi - lo - 1) K cm = some ops ∧ HA c lo hi K cm pending evs ops) := by
  intro fuel
  induction fuel with
  | zero =>
    constructor
    · intro lo hi K cm spine evs _ _ _ _ h; rw [hRs] at h; cases h
    · intro lo hi K cm spine pending evs _ _ _ _ _ _ h; rw [hAs] at h; cases h
  | succ fuel ih =>
    exact ⟨hrev_refine_R c fuel ih.1 ih.2, hrev_refine_A c fuel ih.1 ih.2⟩

/-! ## the complete schedule -/

theorem shiftOps_zero (x : List Op) : shiftOps 0 x = x := by
  unfold shiftOps
  rw [← List.map_id x]
  simp only [List.map_map]
  apply List.map_congr_left
  intro o _
  obtain ⟨k, lv, a, b⟩ := o
  cases k <;> simp [shiftOp]

/-- **Refinement for HRevolve**: the twin (`hrevolve(N-1, (c0, c1), …)` converted by `_iterator`)
yields exactly the stream of the recursive model (`hR` + `resolveLoads`). -/
theorem hrevolveTwin_eq (N c0 c1 : Nat) (c : Costs) (hN : 1 ≤ N) (hc0 : 1 ≤ c0) :
    hrevolveTwin N c0 c1 c = hrevolveEvs N c0 c1 c := by
  obtain ⟨evs, _, hev, _⟩ := hrevolve_clean N c0 c1 c hN hc0
  have hctx : hrevolveCtx N c0 c1 c = hCtxOf N c0 c1 c := rfl
  -- the model stream is the structural stream
  have hres := resolveLoads_hR (hCtxOf N c0 c1 c) (4 * N + 8) 0 N 1 c1 true (le_refl _)
  rw [hrevolveEvs_eq] at hev
  cases hr : hR (hCtxOf N c0 c1 c) (4 * N + 8) 0 N 1 c1 true with
  | none => rw [hr] at hev; cases hev
  | some hops =>
    rw [hr] at hev hres
    have hevs : resolveLoads hops = evs := by
      injection hev with hev
      exact List.append_cancel_right hev
    rw [Option.map_some, hevs] at hres
    -- stage 1
    obtain ⟨ops, hops', hfacts, _, hconv⟩ := (hrev_refine (hCtxOf N c0 c1 c) (4 * N + 8)).1 0 N 1 c1
      true evs (le_refl _) (by omega) (le_refl _) (by constructor <;> intro _ <;> rfl) hres.symm
    have hshift := (shiftOps_hrevolve (hCtxOf N c0 c1 c) (4 * N + 8)).1 0 (N - 1) 1 c1
    rw [show N - 0 - 1 = N - 1 by omega] at hops'
    rw [hops'] at hshift
    have htop : hrevolveOpsTop N c0 c1 c = some ops := by
      unfold hrevolveOpsTop
      rw [hctx]
      cases hro : hrevolveRecOps (hCtxOf N c0 c1 c) (4 * N + 8) (N - 1) 1 c1 with
      | none => rw [hro] at hshift; cases hshift
      | some x =>
        rw [hro, Option.map_some, shiftOps_zero] at hshift
        exact hshift
    -- stage 2
    have hc := hconv [] ops.getLast? [] (TailOk.nil 0) (by intro k hk; cases hk) 0 none
    have hcN : (hCtxOf N c0 c1 c).N = N := rfl
    rw [hcN] at hc
    have h1 : hrevolveTwin N c0 c1 c = .ok (evs ++ [⟨.endReverse, 1, N⟩]) := by
      unfold hrevolveTwin twinOf
      rw [htop]
      exact convertOps_of_conv N ops hfacts.wf evs (0 + 1) (N - 0)
        (Conv.congr hc rfl (by omega) rfl rfl rfl)
    have h2 : hrevolveEvs N c0 c1 c = .ok (evs ++ [⟨.endReverse, 1, N⟩]) := by
      rw [hrevolveEvs_eq, hr]
      dsimp only
      rw [hevs]
    rw [h1, h2]

end Ckpt.Ops
