import CkptVerif.Proofs.HRevolveLBFullGame
import CkptVerif.Proofs.HRevolveLBFullLifo
/-!
# Every accepted stream is a play of the pebble game: forward and reversed steps
-/
namespace Ckpt.LB7
open Ckpt.RC Ckpt.GW Ckpt.Mean Ckpt.HLB

theorem findCp_mem {cps : List Cp} {n : Nat} {s : Storage} {c : Cp} (h : findCp cps n s = some c) :
    c ∈ cps ∧ c.n = n ∧ c.st = s := by
  unfold findCp at h
  have h1 := List.mem_of_find?_eq_some h
  have h2 := List.find?_some h
  simp only [decide_eq_true_eq] at h2
  exact ⟨h1, h2.1, h2.2⟩

/-- a step that changes neither the adjoint position nor the flag -/
theorem potG_lift {c : Costs} {c0 c1 : Nat} {cfg : Cfg} {x x' : XS} (hr : x'.r = x.r)
    (hd : x'.wDeps = x.wDeps) (k m : Nat)
    (h : ∀ a, Game c c0 c1 ⟨a, stk x', x'.fwd⟩ m → Game c c0 c1 ⟨a, stk x, x.fwd⟩ (m + k)) :
    PotG c c0 c1 cfg x' m → PotG c c0 c1 cfg x (m + k) := by
  intro hp
  have hfl : Flagged cfg x' ↔ Flagged cfg x := by unfold Flagged; rw [hr, hd]
  refine ⟨fun hf => ?_, fun hf => ?_⟩
  · have := hp.1 (hfl.mpr hf); rw [hr] at this; exact h _ this
  · have := hp.2 (fun h' => hf (hfl.mp h')); rw [hr] at this; exact h _ this

theorem step_forwardG {c : Costs} {c0 c1 N : Nat} {x : XS}
    (hinv : GW.Inv (cfgHRevolve c0 c1 N) (c0 + c1) x)
    {n0 n1 : Nat} {wi wa : Bool} {st : Storage}
    (h : actViols (cfgHRevolve c0 c1 N) x (.forward n0 n1 wi wa st) = []) :
    ∀ m, PotG c c0 c1 (cfgHRevolve c0 c1 N) (nextState (cfgHRevolve c0 c1 N) x (.forward n0 n1 wi wa st)) m →
      PotG c c0 c1 (cfgHRevolve c0 c1 N) x (m + actCostF c (.forward n0 n1 wi wa st)) := by
  set cfg := cfgHRevolve c0 c1 N with hcfg
  obtain ⟨hlt, hfwd, hle, hstore, hwork⟩ := fwd_clean hinv.fin h
  have hclip : clip cfg x n1 = n1 := by simp [clip, hinv.fin]
  generalize hx' : nextState cfg x (.forward n0 n1 wi wa st) = x'
  have e_fwd : x'.fwd = some n1 := by rw [← hx']; simp only [nextState, hclip]
  have e_r : x'.r = x.r := by rw [← hx']; rfl
  have e_deps : x'.wDeps = if st = .work ∧ wa = true then some (n0, n1) else none := by
    rw [← hx']; simp only [nextState, hclip]
  have e_cps : x'.cps = if st.isStore = true
      then { n := n0, st := st, ics := if wi = true then n1 - n0 else 0,
             deps := if wa = true then n1 - n0 else 0 } :: x.cps else x.cps := by
    rw [← hx']; simp only [nextState, hclip]
  have hnf : ¬ Flagged cfg x := not_flagged_of_fwd hinv hfwd hlt hle
  have hcost : actCostF c (.forward n0 n1 wi wa st) = (n1 - n0) * c.uf + (if st = .disk then c.wd else 0) := by
    simp [actCostF, actCostT, actCost, transfersToDisk]
  intro m hp
  refine ⟨fun hf => absurd hf hnf, fun _ => ?_⟩
  rw [hfwd, hcost]
  by_cases hs : st.isStore = true
  · obtain ⟨_, hbud⟩ := hstore hs
    rw [if_pos hs] at e_cps
    have hbud' := (Ckpt.Mean.withinBudget_iff.mp hbud)
    have hcR := hbud'.1 c0 rfl
    have hcD := hbud'.2 c1 rfl
    rw [Ckpt.Mean.countSt_cons] at hcR hcD
    have hnf' : ¬ Flagged cfg x' := by
      rintro ⟨_, hd⟩
      rw [e_deps, if_neg (by rintro ⟨h1, _⟩; rw [h1] at hs; cases hs)] at hd
      cases hd
    have hr := hp.2 hnf'
    rw [e_r, e_fwd] at hr
    have hstk : stk x' = (n0, decide (st = .disk)) :: stk x := by
      unfold stk; rw [e_cps, List.map_cons]
    rw [hstk] at hr
    have hcap : if decide (st = .disk) then nD (stk x) + 1 ≤ c1 else nR (stk x) + 1 ≤ c0 := by
      have hR : nR (stk x) = countSt x.cps .ram := nR_map x.cps (fun cp hcp => (hinv.cps cp hcp).2)
      have hD : nD (stk x) = countSt x.cps .disk := nD_map x.cps (fun cp hcp => (hinv.cps cp hcp).2)
      cases hst : st <;> simp [hst, Storage.isStore] at hs hcR hcD ⊢
      · rw [hR]; omega
      · rw [hD]; omega
    have s1 := GStep.adv (c := c) (c0 := c0) (c1 := c1) (cfg.N - x.r)
      ((n0, decide (st = .disk)) :: stk x) n0 n1 (le_of_lt hlt) hle
    have s2 := GStep.store (c := c) (c0 := c0) (c1 := c1) (cfg.N - x.r) (stk x) n0 (decide (st = .disk)) hcap
    refine Game.step' s2 (Game.step' s1 hr rfl) ?_
    have : (if decide (st = .disk) = true then c.wd else 0) = (if st = .disk then c.wd else 0) := by
      by_cases hd : st = .disk <;> simp [hd]
    rw [this]
    omega
  · rw [if_neg hs] at e_cps
    have hstk : stk x' = stk x := by unfold stk; rw [e_cps]
    have hnd' : (if st = .disk then c.wd else 0) = 0 := by
      have : st ≠ .disk := by intro hd; rw [hd] at hs; exact hs rfl
      simp [this]
    rw [hnd']
    by_cases hw : st = .work ∧ wa = true
    · obtain ⟨h1, h2⟩ := hwork hw.1 hw.2 rfl
      have hfl : Flagged cfg x' := by
        refine ⟨by rw [e_r]; omega, ?_⟩
        rw [e_deps, if_pos hw, e_r]
        have : cfg.N - x.r - 1 = n0 := by omega
        rw [this, ← h2]
      have hr := hp.1 hfl
      rw [e_r, e_fwd, hstk] at hr
      have ea : cfg.N - x.r - 1 = n0 := by omega
      have ea' : cfg.N - x.r = n0 + 1 := by omega
      rw [ea] at hr
      rw [ea']
      have s1 := GStep.turn (c := c) (c0 := c0) (c1 := c1) n0 (stk x)
      have e1 : n1 = n0 + 1 := h1
      rw [e1] at hr
      refine Game.step' s1 hr ?_
      have : n0 + 1 - n0 = 1 := by omega
      rw [e1, this]; omega
    · have hnf' : ¬ Flagged cfg x' := by
        rintro ⟨_, hd⟩
        rw [e_deps, if_neg hw] at hd
        cases hd
      have hr := hp.2 hnf'
      rw [e_r, e_fwd, hstk] at hr
      have s1 := GStep.adv (c := c) (c0 := c0) (c1 := c1) (cfg.N - x.r) (stk x) n0 n1 (le_of_lt hlt) hle
      exact Game.step' s1 hr (by omega)

theorem step_reverseG {c : Costs} {c0 c1 N : Nat} {x : XS}
    (hinv : GW.Inv (cfgHRevolve c0 c1 N) (c0 + c1) x)
    {n1 n0 : Nat} {cl : Bool} (h : actViols (cfgHRevolve c0 c1 N) x (.reverse n1 n0 cl) = []) :
    ∀ m, PotG c c0 c1 (cfgHRevolve c0 c1 N) (nextState (cfgHRevolve c0 c1 N) x (.reverse n1 n0 cl)) m →
      PotG c c0 c1 (cfgHRevolve c0 c1 N) x (m + actCostF c (.reverse n1 n0 cl)) := by
  set cfg := cfgHRevolve c0 c1 N with hcfg
  simp only [actViols, List.append_eq_nil_iff, chk_nil_iff, decide_eq_true_eq] at h
  obtain ⟨⟨⟨hlt, _⟩, hn1⟩, hcov⟩ := h
  obtain ⟨p, q, hw, hp, hq⟩ := covers_iff.mp hcov
  rcases hinv.deps with h0 | ⟨p', hw', hle', hfw'⟩
  · rw [h0] at hw; cases hw
  rw [hw'] at hw
  simp only [Option.some.injEq, Prod.mk.injEq] at hw
  obtain ⟨rfl, rfl⟩ := hw
  have ha : cfg.N - x.r = p' + 1 := by omega
  have hn0 : n0 = p' := by omega
  have hfl : Flagged cfg x := ⟨by omega, by rw [hw', ha]; rfl⟩
  generalize hx' : nextState cfg x (.reverse n1 n0 cl) = x'
  have e_r : x'.r = x.r + 1 := by rw [← hx']; show x.r + (n1 - n0) = _; omega
  have e_cps : x'.cps = x.cps := by rw [← hx']; rfl
  have e_fwd : x'.fwd = x.fwd := by rw [← hx']; rfl
  have e_deps : x'.wDeps = if cl = true then none else x.wDeps := by rw [← hx']; rfl
  have hnf' : ¬ Flagged cfg x' := by
    rintro ⟨h1, h2⟩
    rw [e_deps] at h2
    split at h2
    · cases h2
    · rw [hw', e_r] at h2
      simp only [Option.some.injEq, Prod.mk.injEq] at h2
      omega
  intro m hp
  have := hp.2 hnf'
  have hstk : stk x' = stk x := by unfold stk; rw [e_cps]
  rw [hstk, e_fwd, e_r] at this
  have e : cfg.N - (x.r + 1) = cfg.N - x.r - 1 := by omega
  rw [e] at this
  have hc : actCostF c (.reverse n1 n0 cl) = 0 := rfl
  rw [hc, Nat.add_zero]
  exact ⟨fun _ => this, fun hf => absurd hfl hf⟩

end Ckpt.LB7
