import CkptVerif.Model.Mixed
import CkptVerif.Proofs.DP
/-!
# The recurrence of `optimal_extra_steps` as a minimum

`extraCell n s` (the model of `optimal_extra_steps`) is, for `n ≥ 2` and `s ≠ 1`, the minimum of the
split candidates `splitCand n s extraCell i`, `1 ≤ i < n` (`extraCell_le_cand`, `extraCell_attained`).
`gwT m k = m + extraCell m (clampS m k)` is the total number of forward steps; in terms of `gwT` the
clamps of the keys disappear (`gwT_rec_le`, `gwT_rec_attained`).

Import-free (no Mathlib).
-/
namespace Ckpt.GW

/-! ## the fold of `extraStep` computes a minimum -/

theorem extraStep_fold_some (cand : Nat → Nat) (l : List Nat) (c : Nat) :
    ∃ v, l.foldl (extraStep cand) (some c) = some v ∧ v ≤ c ∧ (∀ x, x ∈ l → v ≤ cand x) ∧
      (v = c ∨ ∃ x, x ∈ l ∧ v = cand x) := by
  induction l generalizing c with
  | nil => exact ⟨c, rfl, Nat.le_refl _, fun x hx => absurd hx List.not_mem_nil, Or.inl rfl⟩
  | cons y ys ih =>
    rw [List.foldl_cons]
    by_cases hlt : cand y < c
    · have e : extraStep cand (some c) y = some (cand y) := by
        show (if cand y < c then some (cand y) else some c) = _
        rw [if_pos hlt]
      rw [e]
      obtain ⟨v, hv, hle, hall, hmem⟩ := ih (cand y)
      refine ⟨v, hv, by omega, ?_, ?_⟩
      · intro x hx
        rcases List.mem_cons.mp hx with h | h
        · subst h; exact hle
        · exact hall x h
      · right
        rcases hmem with h | ⟨x, hx, h⟩
        · exact ⟨y, List.mem_cons_self .., h⟩
        · exact ⟨x, List.mem_cons_of_mem _ hx, h⟩
    · have e : extraStep cand (some c) y = some c := by
        show (if cand y < c then some (cand y) else some c) = _
        rw [if_neg hlt]
      rw [e]
      obtain ⟨v, hv, hle, hall, hmem⟩ := ih c
      refine ⟨v, hv, hle, ?_, ?_⟩
      · intro x hx
        rcases List.mem_cons.mp hx with h | h
        · subst h; omega
        · exact hall x h
      · rcases hmem with h | ⟨x, hx, h⟩
        · exact Or.inl h
        · exact Or.inr ⟨x, List.mem_cons_of_mem _ hx, h⟩

/-- the value of the `optimal_extra_steps` loop over a non-empty list is the minimum candidate -/
theorem extraMin_spec (cand : Nat → Nat) (l : List Nat) (hl : l ≠ []) :
    (∀ x, x ∈ l → (l.foldl (extraStep cand) none).getD 0 ≤ cand x) ∧
      ∃ x, x ∈ l ∧ (l.foldl (extraStep cand) none).getD 0 = cand x := by
  cases l with
  | nil => exact absurd rfl hl
  | cons y ys =>
    rw [List.foldl_cons]
    have e : extraStep cand none y = some (cand y) := rfl
    rw [e]
    obtain ⟨v, hv, hle, hall, hmem⟩ := extraStep_fold_some cand ys (cand y)
    rw [hv]
    refine ⟨?_, ?_⟩
    · intro x hx
      rcases List.mem_cons.mp hx with h | h
      · subst h; exact hle
      · exact hall x h
    · rcases hmem with h | ⟨x, hx, h⟩
      · exact ⟨y, List.mem_cons_self .., h⟩
      · exact ⟨x, List.mem_cons_of_mem _ hx, h⟩

/-! ## values and recurrence of `extraCell` -/

theorem extraCell_le_one (n s : Nat) (hn : n ≤ 1) : extraCell n s = 0 := by
  rw [extraCell_eq, extraF_def, if_pos hn]

theorem extraCell_s1 (n : Nat) (hn : 2 ≤ n) : extraCell n 1 = n * (n - 1) / 2 := by
  rw [extraCell_eq, extraF_def, if_neg (by omega), if_pos rfl]

theorem extraCell_fold (n s : Nat) (hn : 2 ≤ n) (hs : s ≠ 1) :
    extraCell n s =
      ((List.range' 1 (n - 1)).foldl (extraStep (splitCand n s extraCell)) none).getD 0 := by
  rw [extraCell_eq, extraF_def, if_neg (by omega), if_neg hs]

theorem range'_one_ne_nil (n : Nat) (hn : 2 ≤ n) : List.range' 1 (n - 1) ≠ [] := by
  intro h
  have := congrArg List.length h
  rw [List.length_range'] at this
  simp at this
  omega

/-- `extraCell n s` is below every split candidate -/
theorem extraCell_le_cand (n s i : Nat) (hn : 2 ≤ n) (hs : s ≠ 1) (h1 : 1 ≤ i) (h2 : i < n) :
    extraCell n s ≤ splitCand n s extraCell i := by
  rw [extraCell_fold n s hn hs]
  apply (extraMin_spec _ _ (range'_one_ne_nil n hn)).1
  rw [List.mem_range'_1]; omega

/-- `extraCell n s` is one of the split candidates -/
theorem extraCell_attained (n s : Nat) (hn : 2 ≤ n) (hs : s ≠ 1) :
    ∃ i, 1 ≤ i ∧ i < n ∧ extraCell n s = splitCand n s extraCell i := by
  rw [extraCell_fold n s hn hs]
  obtain ⟨x, hx, h⟩ := (extraMin_spec (splitCand n s extraCell) _ (range'_one_ne_nil n hn)).2
  rw [List.mem_range'_1] at hx
  exact ⟨x, by omega, by omega, h⟩

/-- with no unit at all the recurrence still has a value; it is at most `n - 1` -/
theorem extraCell_zero_le (n : Nat) : extraCell n 0 ≤ n - 1 := by
  induction n using Nat.strongRecOn with
  | _ n ih =>
    by_cases hn : n ≤ 1
    · rw [extraCell_le_one n 0 hn]; omega
    · have h := extraCell_le_cand n 0 1 (by omega) (by omega) (Nat.le_refl _) (by omega)
      have e : splitCand n 0 extraCell 1 = 1 + extraCell 1 (clampS 1 0) + extraCell (n - 1) 0 := by
        unfold splitCand
        have : clampS (n - 1) (0 - 1) = 0 := by unfold clampS; omega
        rw [this]
      rw [e, extraCell_le_one 1 _ (Nat.le_refl _)] at h
      have := ih (n - 1) (by omega)
      omega

/-! ## the total number of forward steps -/

/-- `m + optimal_extra_steps(m, min(k, m-1))` -/
def gwT (m k : Nat) : Nat := m + extraCell m (clampS m k)

theorem gwT_one (k : Nat) : gwT 1 k = 1 := by
  unfold gwT; rw [extraCell_le_one 1 _ (Nat.le_refl _)]

theorem gwT_ge (m k : Nat) : m ≤ gwT m k := by unfold gwT; omega

theorem gwT_two (k : Nat) (hk : 1 ≤ k) : gwT 2 k = 3 := by
  unfold gwT
  have : clampS 2 k = 1 := by unfold clampS; omega
  rw [this, extraCell_s1 2 (Nat.le_refl _)]

theorem gwT_k1 (m : Nat) (hm : 2 ≤ m) : gwT m 1 = m + m * (m - 1) / 2 := by
  unfold gwT
  have : clampS m 1 = 1 := by unfold clampS; omega
  rw [this, extraCell_s1 m hm]

theorem gwT_cand (m k i : Nat) (hm : 3 ≤ m) (hk : 2 ≤ k) (h1 : 1 ≤ i) (h2 : i < m) :
    m + splitCand m (clampS m k) extraCell i = i + gwT i k + gwT (m - i) (k - 1) := by
  unfold splitCand gwT
  have e1 : clampS i (clampS m k) = clampS i k := by unfold clampS; omega
  have e2 : clampS (m - i) (clampS m k - 1) = clampS (m - i) (k - 1) := by unfold clampS; omega
  rw [e1, e2]; omega

/-- the recurrence in terms of totals: upper bound by every split -/
theorem gwT_rec_le (m k i : Nat) (hm : 2 ≤ m) (hk : 2 ≤ k) (h1 : 1 ≤ i) (h2 : i < m) :
    gwT m k ≤ i + gwT i k + gwT (m - i) (k - 1) := by
  by_cases h3 : m = 2
  · subst h3
    have hi : i = 1 := by omega
    subst hi
    rw [gwT_two k (by omega), gwT_one, gwT_one]; omega
  · have hc : clampS m k ≠ 1 := by unfold clampS; omega
    have := extraCell_le_cand m (clampS m k) i hm hc h1 h2
    rw [← gwT_cand m k i (by omega) hk h1 h2]
    show m + extraCell m (clampS m k) ≤ _
    omega

/-- the recurrence in terms of totals: some split attains the value -/
theorem gwT_rec_attained (m k : Nat) (hm : 2 ≤ m) (hk : 2 ≤ k) :
    ∃ i, 1 ≤ i ∧ i < m ∧ gwT m k = i + gwT i k + gwT (m - i) (k - 1) := by
  by_cases h3 : m = 2
  · subst h3
    refine ⟨1, Nat.le_refl _, by omega, ?_⟩
    rw [gwT_two k (by omega), gwT_one, gwT_one]
  · have hc : clampS m k ≠ 1 := by unfold clampS; omega
    obtain ⟨i, h1, h2, h⟩ := extraCell_attained m (clampS m k) hm hc
    refine ⟨i, h1, h2, ?_⟩
    rw [← gwT_cand m k i (by omega) hk h1 h2]
    show m + extraCell m (clampS m k) = _
    omega

/-! ## triangular numbers (for the one-unit case) -/

theorem tri_succ (n : Nat) : (n + 1) * n / 2 = n * (n - 1) / 2 + n := by
  cases n with
  | zero => rfl
  | succ k =>
    have e1 : (k + 1 + 1) * (k + 1) = k * k + 3 * k + 2 := by
      simp only [Nat.add_mul, Nat.mul_add, Nat.mul_one, Nat.one_mul]; omega
    have e2 : (k + 1) * (k + 1 - 1) = k * k + k := by
      simp only [Nat.add_sub_cancel, Nat.add_mul, Nat.one_mul]
    rw [e1, e2]; omega

theorem tri_grow (a d : Nat) (ha : 1 ≤ a) :
    (a + 1) * a / 2 + 2 * d ≤ (a + 1 + d) * (a + 1 + d - 1) / 2 := by
  induction d with
  | zero => simp
  | succ d ih =>
    have := tri_succ (a + 1 + d)
    have e : a + 1 + (d + 1) - 1 = a + 1 + d := by omega
    have e' : a + 1 + (d + 1) = a + 1 + d + 1 := by omega
    rw [e, e', this]; omega

/-- with one unit the optimal split is forced: the right part is a single step -/
theorem one_unit_split (m a : Nat) (hm : 2 ≤ m) (h1 : 1 ≤ a) (h2 : a ≤ m - 1)
    (h : a + extraCell a (clampS a 1) + extraCell (m - a) (clampS (m - a) (1 - 1)) =
      extraCell m (clampS m 1)) : m - a = 1 := by
  have hc0 : clampS (m - a) (1 - 1) = 0 := by unfold clampS; omega
  have hc1 : clampS m 1 = 1 := by unfold clampS; omega
  rw [hc0, hc1, extraCell_s1 m hm] at h
  have hz := extraCell_zero_le (m - a)
  have ha : a + extraCell a (clampS a 1) = (a + 1) * a / 2 := by
    by_cases ha1 : a = 1
    · subst ha1; rw [extraCell_le_one 1 _ (Nat.le_refl _)]
    · have : clampS a 1 = 1 := by unfold clampS; omega
      rw [this, extraCell_s1 a (by omega), tri_succ a]; omega
  rw [ha] at h
  by_cases hd : m - a = 1
  · exact hd
  · exfalso
    have hg := tri_grow a (m - a - 1) h1
    have e : a + 1 + (m - a - 1) = m := by omega
    rw [e] at hg
    omega

end Ckpt.GW
