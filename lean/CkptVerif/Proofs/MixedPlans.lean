import CkptVerif.Proofs.MixedCost
/-!
# Plans for the mixed problem: the potential behind the lower bound C06

State of a reversal in progress: the adjoint stands at `a` (steps `[0, a)` are still to be reversed);
the *resources* are forward states at some positions (restart checkpoints and the state in working
storage; written `(e, false)`) and stored adjoint dependency data of single steps (`(d, true)` = the
data of the step `d → d+1`).  A *plan* is a list of items that tile `[0, a)` from the bottom:

* a base `⟨e, b, false⟩`: the state available at `e ≤ b` is carried to `b` (at the price `b - e`),
  and the gap from `b` to the next item is reversed with the units that the items below do not hold;
* a dependency item `⟨d, d, true⟩`: the step `d → d+1` is reversed from stored data, for free.

Item number `l` (from `0`) disposes of `s - l` units, its own included; a base with `k` units and a gap
of length `m` costs `mP m k = optimal_steps_mixed(m, k)`; a base with no unit (state in working storage
only) must be the last item, with a gap of one step.  Distinct items use distinct resources.

`Reach s R a n`: some plan for the resources `R` and the adjoint position `a` costs at most `n`.
The lemmas `reach_*` say how the cheapest plan can change under the moves of an executable schedule;
`Proofs/MixedLowerBound.lean` instantiates them with the checking executor.
-/
namespace Ckpt.MX

/-! ## the price of a list of shapes `(position, is-dependency-item)` -/

/-- where the next item starts (`a` if there is none) -/
def nxt (rest : List (Nat × Bool)) (a : Nat) : Nat :=
  match rest with
  | [] => a
  | q :: _ => q.1

/-- price of one item: stored dependency data are free, a base with `k` units costs `mP len k` -/
def price (d : Bool) (len k : Nat) : Nat := if d then 0 else mP len k

/-- price of reversing `[b_1, a)` tiled by the items, the first one disposing of `k` units -/
def Xi : Nat → List (Nat × Bool) → Nat → Nat
  | _, [], _ => 0
  | k, q :: rest, a => price q.2 (nxt rest a - q.1) k + Xi (k - 1) rest a

/-- the items increase and stay below `a`; a dependency item covers exactly one step and holds a unit;
a base without unit is the last item and covers one step -/
def XiOk : Nat → List (Nat × Bool) → Nat → Prop
  | _, [], _ => True
  | k, q :: rest, a =>
    q.1 < nxt rest a ∧ (1 ≤ k ∨ (q.2 = false ∧ rest = [] ∧ a = q.1 + 1)) ∧
      (q.2 = true → nxt rest a = q.1 + 1) ∧ XiOk (k - 1) rest a

theorem Xi_cons (k : Nat) (q : Nat × Bool) (rest : List (Nat × Bool)) (a : Nat) :
    Xi k (q :: rest) a = price q.2 (nxt rest a - q.1) k + Xi (k - 1) rest a := rfl

theorem XiOk_cons (k : Nat) (q : Nat × Bool) (rest : List (Nat × Bool)) (a : Nat) :
    XiOk k (q :: rest) a ↔
      q.1 < nxt rest a ∧ (1 ≤ k ∨ (q.2 = false ∧ rest = [] ∧ a = q.1 + 1)) ∧
        (q.2 = true → nxt rest a = q.1 + 1) ∧ XiOk (k - 1) rest a := Iff.rfl

theorem nxt_cons (q : Nat × Bool) (rest : List (Nat × Bool)) (a : Nat) : nxt (q :: rest) a = q.1 := rfl

theorem nxt_append_cons (l : List (Nat × Bool)) (q q' : Nat × Bool) (r r' : List (Nat × Bool))
    (a a' : Nat) (h : q.1 = q'.1) : nxt (l ++ q :: r) a = nxt (l ++ q' :: r') a' := by
  cases l with
  | nil => exact h
  | cons x l' => rfl

theorem nxt_snoc (l : List (Nat × Bool)) (q : Nat × Bool) (a : Nat) :
    nxt (l ++ [q]) a = nxt l q.1 := by
  cases l with
  | nil => rfl
  | cons x l' => rfl

/-- all items lie below `a` and not below the first one -/
theorem XiOk_bounds : ∀ (B : List (Nat × Bool)) (k a : Nat), XiOk k B a →
    nxt B a ≤ a ∧ ∀ q ∈ B, nxt B a ≤ q.1 ∧ q.1 < a := by
  intro B
  induction B with
  | nil => intro k a _; exact ⟨le_refl _, fun q hq => absurd hq List.not_mem_nil⟩
  | cons c rest ih =>
    intro k a h
    obtain ⟨h1, _, _, h4⟩ := h
    obtain ⟨i1, i2⟩ := ih (k - 1) a h4
    rw [nxt_cons]
    refine ⟨by omega, ?_⟩
    intro q hq
    rcases List.mem_cons.mp hq with rfl | hq
    · exact ⟨le_refl _, by omega⟩
    · have := i2 q hq
      omega

/-- nothing is left to reverse: no item -/
theorem XiOk_zero (k : Nat) (B : List (Nat × Bool)) (h : XiOk k B 0) : B = [] := by
  cases B with
  | nil => rfl
  | cons b rest =>
    have := ((XiOk_bounds _ k 0 h).2 b (List.mem_cons_self ..)).2
    omega

/-- with one more unit the items are still fine, and not more expensive -/
theorem Xi_anti : ∀ (B : List (Nat × Bool)) (k a : Nat), XiOk k B a →
    XiOk (k + 1) B a ∧ Xi (k + 1) B a ≤ Xi k B a := by
  intro B
  induction B with
  | nil => intro k a _; exact ⟨trivial, le_refl _⟩
  | cons c rest ih =>
    intro k a h
    obtain ⟨h1, h2, h3, h4⟩ := h
    have hrest : XiOk k rest a ∧ Xi k rest a ≤ Xi (k - 1) rest a := by
      rcases Nat.eq_zero_or_pos k with rfl | hk
      · rcases h2 with h2 | ⟨_, h2, _⟩
        · omega
        · subst h2; exact ⟨trivial, le_refl _⟩
      · have := ih (k - 1) a h4
        have e : k - 1 + 1 = k := by omega
        rw [e] at this
        exact this
    refine ⟨⟨h1, Or.inl (by omega), h3, by rw [Nat.add_sub_cancel]; exact hrest.1⟩, ?_⟩
    rw [Xi_cons, Xi_cons, Nat.add_sub_cancel]
    have hp : price c.2 (nxt rest a - c.1) (k + 1) ≤ price c.2 (nxt rest a - c.1) k := by
      unfold price
      split
      · exact le_refl _
      · apply mP_anti _ _ (by omega)
        rcases h2 with h2 | ⟨_, h2, h2'⟩
        · left; exact h2
        · right; subst h2; show a - c.1 = 1; omega
    have := hrest.2
    omega

/-- **Absorbing a base** `y` into the item below it: that item becomes (or stays) a base whose gap
extends over the gap of `y`; the items above gain a unit.  This costs at most the distance. -/
theorem Xi_absorb : ∀ (pre : List (Nat × Bool)) (k : Nat) (p : Nat × Bool) (y : Nat)
    (post : List (Nat × Bool)) (a : Nat),
    XiOk k (pre ++ p :: (y, false) :: post) a →
    XiOk k (pre ++ (p.1, false) :: post) a ∧
      Xi k (pre ++ (p.1, false) :: post) a + p.1 ≤ y + Xi k (pre ++ p :: (y, false) :: post) a := by
  intro pre
  induction pre with
  | nil =>
    intro k p y post a h
    simp only [List.nil_append] at h ⊢
    obtain ⟨hpy, hk, hdep, hy, hk1, _, hpost⟩ := h
    rw [nxt_cons] at hpy hdep
    have hk : 1 ≤ k := by
      rcases hk with hk | ⟨_, hk, _⟩
      · exact hk
      · cases hk
    simp only at hy hk1 hpy hdep
    -- the items above, with one more unit
    have hpost' : XiOk (k - 1) post a ∧ Xi (k - 1) post a ≤ Xi (k - 1 - 1) post a := by
      rcases hk1 with hk1 | ⟨_, hk1, _⟩
      · have := Xi_anti post (k - 1 - 1) a hpost
        have e : k - 1 - 1 + 1 = k - 1 := by omega
        rw [e] at this
        exact this
      · subst hk1; exact ⟨trivial, le_refl _⟩
    refine ⟨⟨by show p.1 < nxt post a; omega, Or.inl hk, (fun h => by cases h), hpost'.1⟩, ?_⟩
    rw [Xi_cons, Xi_cons, Xi_cons, nxt_cons]
    show price false (nxt post a - p.1) k + Xi (k - 1) post a + p.1 ≤
      y + (price p.2 (y - p.1) k + (price false (nxt post a - y) (k - 1) + Xi (k - 1 - 1) post a))
    have hlast : k = 1 → nxt post a - y = 1 := by
      intro hk'
      rcases hk1 with hk1 | ⟨_, hk1, hk1'⟩
      · omega
      · subst hk1; show a - y = 1; omega
    have hprice : price false (nxt post a - p.1) k + p.1 ≤
        y + (price p.2 (y - p.1) k + price false (nxt post a - y) (k - 1)) := by
      unfold price
      simp only [Bool.false_eq_true, if_false]
      by_cases hd : p.2 = true
      · rw [if_pos hd]
        have hy1 := hdep hd
        have := mP_dep (m := nxt post a - p.1) (k := k) (by omega) hk (by intro h; have := hlast h; omega)
        have e : nxt post a - p.1 - 1 = nxt post a - y := by omega
        rw [e] at this
        omega
      · rw [if_neg hd]
        have := mP_rec (m := nxt post a - p.1) (k := k) (i := y - p.1) hk (by omega) (by omega)
          (by intro h; have := hlast h; omega)
        have e : nxt post a - p.1 - (y - p.1) = nxt post a - y := by omega
        rw [e] at this
        omega
    have := hpost'.2
    omega
  | cons q pre' ih =>
    intro k p y post a h
    simp only [List.cons_append] at h ⊢
    obtain ⟨h1, h2, h3, h4⟩ := h
    have hk : 1 ≤ k := by
      rcases h2 with h2 | ⟨_, h2, _⟩
      · exact h2
      · cases pre' <;> cases h2
    have en : nxt (pre' ++ p :: (y, false) :: post) a = nxt (pre' ++ (p.1, false) :: post) a :=
      nxt_append_cons _ _ _ _ _ _ _ rfl
    obtain ⟨i1, i2⟩ := ih (k - 1) p y post a h4
    refine ⟨⟨by rw [← en]; exact h1, Or.inl hk, by rw [← en]; exact h3, i1⟩, ?_⟩
    rw [Xi_cons, Xi_cons, en]
    omega

/-- **Merging**: everything between the item `p` and the base `y`, and `y` itself, is absorbed into
`p`, which becomes (or stays) a base. -/
theorem Xi_merge (pre : List (Nat × Bool)) (k : Nat) (p : Nat × Bool) (post : List (Nat × Bool))
    (a : Nat) : ∀ (mid : List (Nat × Bool)) (y : Nat),
    XiOk k (pre ++ p :: (mid ++ (y, false) :: post)) a →
    XiOk k (pre ++ (p.1, false) :: post) a ∧
      Xi k (pre ++ (p.1, false) :: post) a + p.1 ≤
        y + Xi k (pre ++ p :: (mid ++ (y, false) :: post)) a := by
  intro mid
  induction mid using List.reverseRecOn with
  | nil =>
    intro y h
    exact Xi_absorb pre k p y post a h
  | append_singleton mid' t ih =>
    intro y h
    have e : pre ++ p :: (mid' ++ [t] ++ (y, false) :: post) =
        (pre ++ p :: mid') ++ t :: (y, false) :: post := by simp
    rw [e] at h ⊢
    obtain ⟨a1, a2⟩ := Xi_absorb (pre ++ p :: mid') k t y post a h
    have e' : (pre ++ p :: mid') ++ (t.1, false) :: post =
        pre ++ p :: (mid' ++ (t.1, false) :: post) := by simp
    rw [e'] at a1 a2
    obtain ⟨b1, b2⟩ := ih t.1 a1
    exact ⟨b1, by omega⟩

/-- a dependency item is replaced by a base that redoes the step -/
theorem Xi_tobase : ∀ (pre : List (Nat × Bool)) (k : Nat) (p : Nat × Bool)
    (post : List (Nat × Bool)) (a : Nat),
    XiOk k (pre ++ p :: post) a →
    XiOk k (pre ++ (p.1, false) :: post) a ∧
      Xi k (pre ++ (p.1, false) :: post) a ≤
        Xi k (pre ++ p :: post) a + (if p.2 = true then 1 else 0) := by
  intro pre
  induction pre with
  | nil =>
    intro k p post a h
    simp only [List.nil_append] at h ⊢
    obtain ⟨h1, h2, h3, h4⟩ := h
    refine ⟨⟨h1, ?_, (fun h => by cases h), h4⟩, ?_⟩
    · rcases h2 with h2 | ⟨_, h2, h2'⟩
      · exact Or.inl h2
      · exact Or.inr ⟨rfl, h2, h2'⟩
    · rw [Xi_cons, Xi_cons]
      unfold price
      simp only [Bool.false_eq_true, if_false]
      by_cases hd : p.2 = true
      · rw [if_pos hd, if_pos hd, h3 hd, Nat.add_sub_cancel_left, mP_one]
        omega
      · rw [if_neg hd, if_neg hd]
        omega
  | cons q pre' ih =>
    intro k p post a h
    simp only [List.cons_append] at h ⊢
    obtain ⟨h1, h2, h3, h4⟩ := h
    have en : nxt (pre' ++ p :: post) a = nxt (pre' ++ (p.1, false) :: post) a :=
      nxt_append_cons _ _ _ _ _ _ _ rfl
    obtain ⟨i1, i2⟩ := ih (k - 1) p post a h4
    refine ⟨⟨by rw [← en]; exact h1, ?_, by rw [← en]; exact h3, i1⟩, ?_⟩
    · rcases h2 with h2 | ⟨_, h2, _⟩
      · exact Or.inl h2
      · cases pre' <;> cases h2
    · rw [Xi_cons, Xi_cons, en]
      omega

/-- one more single-step item on top -/
theorem Xi_snoc : ∀ (B : List (Nat × Bool)) (k a : Nat) (d : Bool), XiOk k B a →
    B.length + (if d = true then 1 else 0) ≤ k →
    XiOk k (B ++ [(a, d)]) (a + 1) ∧
      Xi k (B ++ [(a, d)]) (a + 1) = Xi k B a + (if d = true then 0 else 1) := by
  intro B
  induction B with
  | nil =>
    intro k a d _ hlen
    simp only [List.nil_append]
    refine ⟨⟨by show a < a + 1; omega, ?_, fun _ => rfl, trivial⟩, ?_⟩
    · cases d
      · exact Or.inr ⟨rfl, rfl, rfl⟩
      · simp only [if_true, List.length_nil] at hlen
        exact Or.inl (by omega)
    · rw [Xi_cons]
      show price d (a + 1 - a) k + 0 = 0 + _
      rw [Nat.add_sub_cancel_left]
      unfold price
      cases d
      · simp only [Bool.false_eq_true, if_false, mP_one]
      · simp only [if_true]
  | cons b rest ih =>
    intro k a d h hlen
    obtain ⟨h1, h2, h3, h4⟩ := h
    simp only [List.length_cons] at hlen
    have en : nxt (rest ++ [(a, d)]) (a + 1) = nxt rest a := nxt_snoc rest (a, d) (a + 1)
    obtain ⟨i1, i2⟩ := ih (k - 1) a d h4 (by omega)
    simp only [List.cons_append]
    refine ⟨⟨by rw [en]; exact h1, Or.inl (by omega), by rw [en]; exact h3, i1⟩, ?_⟩
    rw [Xi_cons, Xi_cons, en, i2]
    omega


theorem XiOk_pairwise : ∀ (B : List (Nat × Bool)) (k a : Nat), XiOk k B a →
    B.Pairwise (fun x y => x.1 < y.1) := by
  intro B
  induction B with
  | nil => intro k a _; exact List.Pairwise.nil
  | cons c rest ih =>
    intro k a h
    obtain ⟨h1, _, _, h4⟩ := h
    refine List.Pairwise.cons ?_ (ih (k - 1) a h4)
    intro q hq
    have := ((XiOk_bounds rest (k - 1) a h4).2 q hq).1
    omega

/-! ## plans -/

/-- an item of a plan: the resource at `e` serves the position `b`; `d`: a dependency item -/
structure It where
  e : Nat
  b : Nat
  d : Bool
deriving DecidableEq, Repr

def It.shape (t : It) : Nat × Bool := (t.b, t.d)
def It.res (t : It) : Nat × Bool := (t.e, t.d)

/-- the part of the definition of a plan that does not mention the available resources -/
structure PlanShape (s a : Nat) (P : List It) : Prop where
  ok : XiOk s (P.map It.shape) a
  head : nxt (P.map It.shape) a = 0
  le : ∀ t ∈ P, t.e ≤ t.b ∧ (t.d = true → t.e = t.b)
  nodup : (P.map It.res).Nodup

/-- a plan for the adjoint at `a` and the resources `R` -/
def PlanOk (s : Nat) (R : List (Nat × Bool)) (a : Nat) (P : List It) : Prop :=
  PlanShape s a P ∧ ∀ t ∈ P, t.res ∈ R

/-- forward steps spent on carrying the available states to the bases -/
def fee (P : List It) : Nat := (P.map (fun t => t.b - t.e)).sum

def planVal (s a : Nat) (P : List It) : Nat := fee P + Xi s (P.map It.shape) a

/-- some plan costs at most `n` -/
def Reach (s : Nat) (R : List (Nat × Bool)) (a n : Nat) : Prop :=
  ∃ P, PlanOk s R a P ∧ planVal s a P ≤ n

theorem fee_append (A B : List It) : fee (A ++ B) = fee A + fee B := by
  unfold fee; rw [List.map_append, List.sum_append]

theorem fee_cons (p : It) (B : List It) : fee (p :: B) = (p.b - p.e) + fee B := by
  unfold fee; rw [List.map_cons, List.sum_cons]

theorem plan_bounds {s a : Nat} {P : List It} (h : PlanShape s a P) :
    ∀ t ∈ P, t.e ≤ t.b ∧ t.b < a := by
  intro t ht
  exact ⟨(h.le t ht).1,
    ((XiOk_bounds _ _ _ h.ok).2 t.shape (List.mem_map.mpr ⟨t, ht, rfl⟩)).2⟩

/-- the other items use other resources -/
theorem res_unique {A B : List It} {q : It} (h : ((A ++ q :: B).map It.res).Nodup) :
    (∀ z ∈ A ++ B, z.res ≠ q.res) ∧ ((A ++ B).map It.res).Nodup := by
  simp only [List.map_append, List.map_cons] at h ⊢
  obtain ⟨h1, h2⟩ := List.nodup_cons.mp (List.nodup_middle.mp h)
  refine ⟨?_, h2⟩
  intro z hz hzq
  apply h1
  rw [← hzq, ← List.map_append]
  exact List.mem_map.mpr ⟨z, hz, rfl⟩

/-- the items below lie below -/
theorem plan_order {s a : Nat} {A B : List It} {q : It} (h : PlanShape s a (A ++ q :: B)) :
    (∀ z ∈ A, z.b < q.b) ∧ (∀ z ∈ B, q.b < z.b) := by
  have hp := XiOk_pairwise _ _ _ h.ok
  simp only [List.map_append, List.map_cons] at hp
  rw [List.pairwise_append] at hp
  obtain ⟨_, h2, h3⟩ := hp
  refine ⟨fun z hz => ?_, fun z hz => ?_⟩
  · exact h3 z.shape (List.mem_map.mpr ⟨z, hz, rfl⟩) q.shape (List.mem_cons_self ..)
  · exact (List.pairwise_cons.mp h2).1 z.shape (List.mem_map.mpr ⟨z, hz, rfl⟩)

/-- **Merging**: the items from `p` up to the base `y` are replaced by one base at the position of `p`,
served by the resource at `e'`. -/
theorem plan_merge (s a : Nat) (A : List It) (p : It) (Mid : List It) (y : It) (B : List It)
    (e' : Nat) (hy : y.d = false) (he : e' ≤ p.b) (hfresh : (e', false) ∉ (A ++ B).map It.res)
    (h : PlanShape s a (A ++ p :: (Mid ++ y :: B))) :
    PlanShape s a (A ++ ⟨e', p.b, false⟩ :: B) ∧
      planVal s a (A ++ ⟨e', p.b, false⟩ :: B) + (p.b - p.e) + (y.b - y.e) + p.b ≤
        planVal s a (A ++ p :: (Mid ++ y :: B)) + y.b + (p.b - e') := by
  have e1 : (A ++ p :: (Mid ++ y :: B)).map It.shape =
      A.map It.shape ++ (p.b, p.d) :: (Mid.map It.shape ++ (y.b, false) :: B.map It.shape) := by
    simp [It.shape, hy]
  have e2 : (A ++ (⟨e', p.b, false⟩ : It) :: B).map It.shape =
      A.map It.shape ++ (p.b, false) :: B.map It.shape := by
    simp [It.shape]
  have hok := h.ok
  rw [e1] at hok
  obtain ⟨hok', hxi⟩ := Xi_merge (A.map It.shape) s (p.b, p.d) (B.map It.shape) a
    (Mid.map It.shape) y.b hok
  have hxi' : Xi s (A.map It.shape ++ (p.b, false) :: B.map It.shape) a + p.b ≤
      y.b + Xi s (A.map It.shape ++ (p.b, p.d) ::
        (Mid.map It.shape ++ (y.b, false) :: B.map It.shape)) a := hxi
  refine ⟨⟨by rw [e2]; exact hok', ?_, ?_, ?_⟩, ?_⟩
  · have := h.head
    rw [e1] at this
    rw [e2, ← this]
    exact nxt_append_cons _ _ _ _ _ _ _ rfl
  · intro t ht
    simp only [List.mem_append, List.mem_cons] at ht
    rcases ht with ht | rfl | ht
    · exact h.le t (by simp [ht])
    · exact ⟨he, fun h => by cases h⟩
    · exact h.le t (by simp [ht])
  · have hsub : ((A ++ B).map It.res).Sublist ((A ++ p :: (Mid ++ y :: B)).map It.res) := by
      apply List.Sublist.map
      apply List.Sublist.append (List.Sublist.refl _)
      exact ((List.sublist_cons_self y B).trans (List.sublist_append_right Mid _)).trans
        (List.sublist_cons_self p _)
    have hnd := h.nodup.sublist hsub
    simp only [List.map_append, List.map_cons] at hnd hfresh ⊢
    rw [List.nodup_middle, List.nodup_cons]
    exact ⟨hfresh, hnd⟩
  · unfold planVal
    rw [e1, e2, fee_append, fee_append, fee_cons, fee_cons, fee_append, fee_cons]
    show fee A + (p.b - e' + fee B) + _ + _ + _ + _ ≤ _
    omega

/-- **Replacing** an item by a base at the same position, served by the resource at `e'` -/
theorem plan_replace (s a : Nat) (A : List It) (t : It) (B : List It) (e' : Nat)
    (he : e' ≤ t.b) (hfresh : (e', false) ∉ (A ++ B).map It.res)
    (h : PlanShape s a (A ++ t :: B)) :
    PlanShape s a (A ++ ⟨e', t.b, false⟩ :: B) ∧
      planVal s a (A ++ ⟨e', t.b, false⟩ :: B) + (t.b - t.e) ≤
        planVal s a (A ++ t :: B) + (t.b - e') + (if t.d = true then 1 else 0) := by
  have e1 : (A ++ t :: B).map It.shape = A.map It.shape ++ (t.b, t.d) :: B.map It.shape := by
    simp [It.shape]
  have e2 : (A ++ (⟨e', t.b, false⟩ : It) :: B).map It.shape =
      A.map It.shape ++ (t.b, false) :: B.map It.shape := by
    simp [It.shape]
  have hok := h.ok
  rw [e1] at hok
  obtain ⟨hok', hxi⟩ := Xi_tobase (A.map It.shape) s (t.b, t.d) (B.map It.shape) a hok
  have hxi' : Xi s (A.map It.shape ++ (t.b, false) :: B.map It.shape) a ≤
      Xi s (A.map It.shape ++ (t.b, t.d) :: B.map It.shape) a + (if t.d = true then 1 else 0) := hxi
  refine ⟨⟨by rw [e2]; exact hok', ?_, ?_, ?_⟩, ?_⟩
  · have := h.head
    rw [e1] at this
    rw [e2, ← this]
    exact nxt_append_cons _ _ _ _ _ _ _ rfl
  · intro z hz
    simp only [List.mem_append, List.mem_cons] at hz
    rcases hz with hz | rfl | hz
    · exact h.le z (by simp [hz])
    · exact ⟨he, fun h => by cases h⟩
    · exact h.le z (by simp [hz])
  · have hnd := (res_unique h.nodup).2
    simp only [List.map_append, List.map_cons] at hnd hfresh ⊢
    rw [List.nodup_middle, List.nodup_cons]
    exact ⟨hfresh, hnd⟩
  · unfold planVal
    rw [e1, e2, fee_append, fee_append, fee_cons, fee_cons]
    show fee A + (t.b - e' + fee B) + _ + _ ≤ _
    omega

/-! ## how the cheapest plan can change -/

/-- nothing left to reverse -/
theorem reach_final (s : Nat) (R : List (Nat × Bool)) : Reach s R 0 0 := by
  have hs : PlanShape s 0 [] :=
    { ok := trivial
      head := rfl
      le := fun p hp => absurd hp List.not_mem_nil
      nodup := List.nodup_nil }
  exact ⟨[], ⟨hs, fun p hp => absurd hp List.not_mem_nil⟩, le_refl _⟩

/-- fewer resources: plans stay plans -/
theorem reach_sub {s : Nat} {R R' : List (Nat × Bool)} {a n : Nat} (hR : ∀ r ∈ R', r ∈ R)
    (h : Reach s R' a n) : Reach s R a n := by
  obtain ⟨P, ⟨hs, hsrc⟩, hv⟩ := h
  exact ⟨P, ⟨hs, fun p hp => hR _ (hsrc p hp)⟩, hv⟩

/-- at the very beginning only the state `0` is available: the plan is one base with all `s` units -/
theorem reach_init {s N n : Nat} (hN : 1 ≤ N) (h : Reach s [(0, false)] N n) : mP N s ≤ n := by
  obtain ⟨P, ⟨hs, hsrc⟩, hv⟩ := h
  cases P with
  | nil =>
    have := hs.head
    simp only [List.map_nil] at this
    have : N = 0 := this
    omega
  | cons q rest =>
    have hq := hsrc q (List.mem_cons_self ..)
    rw [List.mem_singleton] at hq
    have hrest : rest = [] := by
      cases rest with
      | nil => rfl
      | cons q' rest' =>
        exfalso
        have hq' := hsrc q' (by simp)
        rw [List.mem_singleton] at hq'
        have := hs.nodup
        simp only [List.map_cons, List.nodup_cons, List.mem_cons, not_or] at this
        exact this.1.1 (by rw [hq, hq'])
    subst hrest
    have hb : q.b = 0 := hs.head
    have he : q.e = 0 := by have := congrArg Prod.fst hq; exact this
    have hd : q.d = false := by have := congrArg Prod.snd hq; exact this
    have : planVal s N [q] = mP N s := by
      show (q.b - q.e + 0) + (price q.d (N - q.b) s + 0) = mP N s
      rw [hb, he, hd]
      simp [price]
    omega

/-- **A forward** from an available state `f` to `f'` (whether or not a restart checkpoint is written
at `f`): afterwards the resources `R ∪ {f'}` (at most) are available. -/
theorem reach_fwd {s : Nat} {R R' : List (Nat × Bool)} {a n f f' : Nat} (hf : (f, false) ∈ R)
    (hlt : f < f') (hR : ∀ r ∈ R', r = (f', false) ∨ r ∈ R) (h : Reach s R' a n) :
    Reach s R a (n + (f' - f)) := by
  obtain ⟨P, ⟨hs, hsrc⟩, hv⟩ := h
  by_cases hu : (f', false) ∈ P.map It.res
  · obtain ⟨q, hq, hqr⟩ := List.mem_map.mp hu
    obtain ⟨A, B, rfl⟩ := List.append_of_mem hq
    have hqe : q.e = f' := congrArg Prod.fst hqr
    have hqd : q.d = false := congrArg Prod.snd hqr
    have hqb := (hs.le q (by simp)).1
    obtain ⟨huniq, hnd'⟩ := res_unique hs.nodup
    have hsrc' : ∀ z ∈ A ++ B, z.res ∈ R := by
      intro z hz
      rcases hR _ (hsrc z (by
        simp only [List.mem_append, List.mem_cons] at hz ⊢; tauto)) with h | h
      · exact absurd (h.trans hqr.symm) (huniq z hz)
      · exact h
    by_cases hfu : (f, false) ∈ (A ++ B).map It.res
    · obtain ⟨z, hz, hzr⟩ := List.mem_map.mp hfu
      have hze : z.e = f := congrArg Prod.fst hzr
      have hzd : z.d = false := congrArg Prod.snd hzr
      rcases List.mem_append.mp hz with hzA | hzB
      · -- `f` is used below: merge the base of `f'` into it
        obtain ⟨A1, A2, rfl⟩ := List.append_of_mem hzA
        have e : A1 ++ z :: A2 ++ q :: B = A1 ++ z :: (A2 ++ q :: B) := by simp
        rw [e] at hs hv
        have hzb := (hs.le z (by simp)).1
        have hfresh : (f, false) ∉ (A1 ++ B).map It.res := by
          intro hmem
          obtain ⟨w, hw, hwr⟩ := List.mem_map.mp hmem
          refine (res_unique hs.nodup).1 w ?_ (hwr.trans hzr.symm)
          simp only [List.mem_append, List.mem_cons] at hw ⊢; tauto
        obtain ⟨hs', hv'⟩ := plan_merge s a A1 z A2 q B f hqd (by omega) hfresh hs
        refine ⟨_, ⟨hs', ?_⟩, by omega⟩
        intro w hw
        simp only [List.mem_append, List.mem_cons] at hw
        rcases hw with hw | rfl | hw
        · exact hsrc' w (by simp [hw])
        · exact hf
        · exact hsrc' w (by simp [hw])
      · -- `f` is used above: merge that base into the base of `f'`, served from `f`
        obtain ⟨B0, B1, rfl⟩ := List.append_of_mem hzB
        have hzb := (hs.le z (by simp)).1
        have hfresh : (f, false) ∉ (A ++ B1).map It.res := by
          intro hmem
          obtain ⟨w, hw, hwr⟩ := List.mem_map.mp hmem
          have e : A ++ (B0 ++ z :: B1) = (A ++ B0) ++ z :: B1 := by simp
          rw [e] at hnd'
          refine (res_unique hnd').1 w ?_ (hwr.trans hzr.symm)
          simp only [List.mem_append] at hw ⊢; tauto
        obtain ⟨hs', hv'⟩ := plan_merge s a A q B0 z B1 f hzd (by omega) hfresh hs
        refine ⟨_, ⟨hs', ?_⟩, by omega⟩
        intro w hw
        simp only [List.mem_append, List.mem_cons] at hw
        rcases hw with hw | rfl | hw
        · exact hsrc' w (by simp [hw])
        · exact hf
        · exact hsrc' w (by simp [hw])
    · -- `f` is not used: serve the base of `f'` from `f`
      obtain ⟨hs', hv'⟩ := plan_replace s a A q B f (by omega) hfu hs
      rw [hqd] at hv'
      simp only [Bool.false_eq_true, if_false] at hv'
      refine ⟨_, ⟨hs', ?_⟩, by omega⟩
      intro w hw
      simp only [List.mem_append, List.mem_cons] at hw
      rcases hw with hw | rfl | hw
      · exact hsrc' w (by simp [hw])
      · exact hf
      · exact hsrc' w (by simp [hw])
  · refine ⟨P, ⟨hs, ?_⟩, by omega⟩
    intro p hp
    rcases hR _ (hsrc p hp) with h | h
    · exact absurd (by rw [← h]; exact List.mem_map.mpr ⟨p, hp, rfl⟩) hu
    · exact h

/-- **A forward over one step that stores its adjoint dependency data** in a unit: afterwards the
resources `R ∪ {state f+1, data of step f}` (at most) are available, and no state at `f`. -/
theorem reach_fwd_dep {s : Nat} {R R' : List (Nat × Bool)} {a n f : Nat} (hf : (f, false) ∈ R)
    (hR : ∀ r ∈ R', r = (f + 1, false) ∨ r = (f, true) ∨ r ∈ R) (hnf : (f, false) ∉ R')
    (h : Reach s R' a n) : Reach s R a (n + 1) := by
  obtain ⟨P, ⟨hs, hsrc⟩, hv⟩ := h
  have hfreshP : ∀ (L : List It), (∀ z ∈ L, z ∈ P) → (f, false) ∉ L.map It.res := by
    intro L hL hmem
    obtain ⟨w, hw, hwr⟩ := List.mem_map.mp hmem
    exact hnf (by rw [← hwr]; exact hsrc w (hL w hw))
  by_cases hd : (f, true) ∈ P.map It.res
  · obtain ⟨t, ht, htr⟩ := List.mem_map.mp hd
    obtain ⟨A, B, rfl⟩ := List.append_of_mem ht
    have hte : t.e = f := congrArg Prod.fst htr
    have htd : t.d = true := congrArg Prod.snd htr
    have htb : t.b = f := by rw [← (hs.le t (by simp)).2 htd, hte]
    obtain ⟨huniq, hnd'⟩ := res_unique hs.nodup
    by_cases hq : (f + 1, false) ∈ (A ++ B).map It.res
    · obtain ⟨q, hq, hqr⟩ := List.mem_map.mp hq
      have hqe : q.e = f + 1 := congrArg Prod.fst hqr
      have hqd : q.d = false := congrArg Prod.snd hqr
      rcases List.mem_append.mp hq with hqA | hqB
      · exfalso
        have := (plan_order hs).1 q hqA
        have := (hs.le q (by simp [hqA])).1
        omega
      · -- the data of step `f` and the state `f+1` are both used: one base at `f` instead
        obtain ⟨B0, B1, rfl⟩ := List.append_of_mem hqB
        have hqb := (hs.le q (by simp)).1
        have e : A ++ (B0 ++ q :: B1) = (A ++ B0) ++ q :: B1 := by simp
        rw [e] at hnd'
        obtain ⟨huniq2, _⟩ := res_unique hnd'
        obtain ⟨hs', hv'⟩ := plan_merge s a A t B0 q B1 f hqd (by omega)
          (hfreshP _ (by intro z hz; simp only [List.mem_append, List.mem_cons] at hz ⊢; tauto)) hs
        refine ⟨_, ⟨hs', ?_⟩, by omega⟩
        intro w hw
        simp only [List.mem_append, List.mem_cons] at hw
        have hcase : w = ⟨f, t.b, false⟩ ∨ (w ∈ A ∨ w ∈ B1) := by tauto
        rcases hcase with rfl | hw
        · exact hf
        · rcases hR _ (hsrc w (by simp only [List.mem_append, List.mem_cons]; tauto)) with h | h | h
          · exact absurd (h.trans hqr.symm) (huniq2 w (by simp only [List.mem_append]; tauto))
          · exact absurd (h.trans htr.symm)
              (huniq w (by simp only [List.mem_append, List.mem_cons]; tauto))
          · exact h
    · -- only the data of step `f` are used: redo the step
      obtain ⟨hs', hv'⟩ := plan_replace s a A t B f (by omega)
        (hfreshP _ (by intro z hz; simp only [List.mem_append, List.mem_cons] at hz ⊢; tauto)) hs
      rw [htd] at hv'
      simp only [if_true] at hv'
      refine ⟨_, ⟨hs', ?_⟩, by omega⟩
      intro w hw
      simp only [List.mem_append, List.mem_cons] at hw
      have hcase : w = ⟨f, t.b, false⟩ ∨ (w ∈ A ∨ w ∈ B) := by tauto
      rcases hcase with rfl | hw
      · exact hf
      · rcases hR _ (hsrc w (by simp only [List.mem_append, List.mem_cons]; tauto)) with h | h | h
        · exact absurd (by rw [← h]; exact List.mem_map.mpr ⟨w, by simp only [List.mem_append]; tauto, rfl⟩) hq
        · exact absurd (h.trans htr.symm) (huniq w (by simp only [List.mem_append]; tauto))
        · exact h
  · -- the data of step `f` are not used: an ordinary forward
    have h1 : Reach s (P.map It.res) a n :=
      ⟨P, ⟨hs, fun t ht => List.mem_map.mpr ⟨t, ht, rfl⟩⟩, hv⟩
    have := reach_fwd (f' := f + 1) hf (by omega) (R' := P.map It.res) (by
      intro r hr
      obtain ⟨w, hw, rfl⟩ := List.mem_map.mp hr
      rcases hR _ (hsrc w hw) with h | h | h
      · exact Or.inl h
      · exact absurd (by rw [← h]; exact List.mem_map.mpr ⟨w, hw, rfl⟩) hd
      · exact Or.inr h) h1
    rw [Nat.add_sub_cancel_left] at this
    exact this

/-- **The top step**: with `d = false`, the state `a - 1` is available, the step `a - 1 → a` is taken
(one forward step) and reversed; with `d = true`, the stored data of that step are loaded instead.
Afterwards at most the resources `C` (held in units) are available below `a - 1`. -/
theorem reach_top {s : Nat} {R R' C : List (Nat × Bool)} {a n : Nat} (d : Bool) (ha : 1 ≤ a)
    (hmem : (a - 1, d) ∈ R) (hC : C.length + (if d = true then 1 else 0) ≤ s)
    (h1 : ∀ r ∈ R', r.1 < a - 1 → r ∈ C) (h2 : ∀ r ∈ C, r ∈ R)
    (h : Reach s R' (a - 1) n) : Reach s R a (n + (if d = true then 0 else 1)) := by
  obtain ⟨P, ⟨hs, hsrc⟩, hv⟩ := h
  have hb := plan_bounds hs
  have hinC : ∀ p ∈ P, p.res ∈ C := fun p hp => h1 _ (hsrc p hp) (by
    have := hb p hp; show p.e < a - 1; omega)
  have hlen : P.length ≤ C.length := by
    have hsub : P.map It.res ⊆ C := by
      intro e he
      obtain ⟨p, hp, rfl⟩ := List.mem_map.mp he
      exact hinC p hp
    have := (hs.nodup.subperm hsub).length_le
    rw [List.length_map] at this
    exact this
  have hsn := Xi_snoc (P.map It.shape) s (a - 1) d hs.ok (by rw [List.length_map]; omega)
  have ea : a - 1 + 1 = a := by omega
  rw [ea] at hsn
  have emap : (P ++ [(⟨a - 1, a - 1, d⟩ : It)]).map It.shape = P.map It.shape ++ [(a - 1, d)] := by
    simp [It.shape]
  refine ⟨P ++ [⟨a - 1, a - 1, d⟩], ⟨⟨by rw [emap]; exact hsn.1, ?_, ?_, ?_⟩, ?_⟩, ?_⟩
  · rw [emap, nxt_snoc]
    exact hs.head
  · intro p hp
    rcases List.mem_append.mp hp with hp | hp
    · exact hs.le p hp
    · rw [List.mem_singleton] at hp; subst hp; exact ⟨le_refl _, fun _ => rfl⟩
  · rw [List.map_append, List.nodup_append]
    refine ⟨hs.nodup, by simp, ?_⟩
    intro x hx y hy
    obtain ⟨p, hp, rfl⟩ := List.mem_map.mp hx
    simp only [List.map_cons, List.map_nil, List.mem_singleton] at hy
    have := hb p hp
    intro hxy
    have : p.e = a - 1 := by rw [hy] at hxy; exact congrArg Prod.fst hxy
    omega
  · intro p hp
    rcases List.mem_append.mp hp with hp | hp
    · exact h2 _ (hinC p hp)
    · rw [List.mem_singleton] at hp; subst hp; exact hmem
  · unfold planVal at hv ⊢
    rw [emap, hsn.2, fee_append]
    have : fee [(⟨a - 1, a - 1, d⟩ : It)] = 0 := by simp [fee]
    omega

end Ckpt.MX
