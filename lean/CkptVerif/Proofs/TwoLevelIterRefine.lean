import CkptVerif.Model.TwoLevelIter
import CkptVerif.Proofs.NAdv
import CkptVerif.Proofs.TwoLevelOk
/-!
# The iterative twin of `TwoLevelCheckpointSchedule._iterator` refines to the stream model

`twoLevelIterPass N p b st traj fuel = .ok (twoLevelPass N p b st traj)` for `1 ≤ p`, `1 ≤ N` and
enough fuel: the loops of `Model/TwoLevelIter.lean` (a literal transcription of
twolevel_binomial.py:79-153) yield exactly the recursive stream of `Model/Online.lean`, and none
of the `RuntimeError`s, the `assert`s or the `ValueError` of `n_advance` is reachable.
-/
namespace Ckpt.On

theorem toNat_units_copy (b d : Nat) : ((b : Int) + 1 - ((d + 1 : Nat) : Int) + 1).toNat = b + 1 - d := by omega
theorem toNat_units_write (b d : Nat) : ((b : Int) + 1 - (d : Int)).toNat = b + 1 - d := by omega

section
variable (N b : Nat) (st : Storage) (traj : Traj)

/-- lines 118-141 from inside the `else` branch: the rest of the write loop (fuel `g`), the check of
line 134, the turn-around, and the further iterations of the inner loop (fuel `F`) -/
def iterRest (n0s g F : Nat) (s : TLIter) : Except Err TLIter :=
  match tlWriteLoop N b st traj g s with
  | .error e => .error e
  | .ok s => if s.n ≠ N - s.r - 1 then .error tlInvalid else tlInnerLoop N b st traj n0s F (tlTail s)

theorem tlTail_eq (n r : Nat) (sn : List Nat) (out : List Ev) :
    tlTail ⟨n, r, sn, out⟩ = ⟨n + 1, r + 1, sn,
      out ++ [⟨.forward n (n + 1) false true .work, n + 1, r⟩, ⟨.reverse (n + 1) n true, n + 1, r + 1⟩]⟩ := by
  simp [tlTail, TLIter.yield]

/-- an iteration of the inner loop that takes the `if` branch (lines 94-100) -/
theorem innerLoop_pop (n0s F n r lo : Nat) (bot : List Nat) (out : List Ev)
    (hr : r < N - n0s) (hlo : lo = N - r - 1) :
    tlInnerLoop N b st traj n0s (F + 1) ⟨n, r, bot ++ [lo], out⟩
      = tlInnerLoop N b st traj n0s F (tlTail ⟨lo, r, bot,
          out ++ [⟨if lo = n0s then .copy lo .disk .work else .move lo st .work, lo, r⟩]⟩) := by
  by_cases h : lo = n0s <;>
    simp [tlInnerLoop, tlBody, hr, ← hlo, h, TLIter.yield]

/-- an iteration of the inner loop that takes the `else` branch (lines 101-116), up to the write loop -/
theorem innerLoop_copy (n0s F n r lo a : Nat) (bot : List Nat) (out : List Ev)
    (hr : r < N - n0s) (hlo : lo ≠ N - r - 1)
    (hadv : nAdvance (N - r - lo) (b + 1 - bot.length) traj = some a) (ha : 1 ≤ a) :
    tlInnerLoop N b st traj n0s (F + 1) ⟨n, r, bot ++ [lo], out⟩
      = iterRest N b st traj n0s F F ⟨lo + a, r, bot ++ [lo],
          out ++ [⟨if lo = n0s then .copy lo .disk .work else .copy lo st .work, lo, r⟩,
                  ⟨.forward lo (lo + a) false false .work, lo + a, r⟩]⟩ := by
  have hu : ((b : Int) - (bot.length : Int) + 1).toNat = b + 1 - bot.length := by omega
  have ha0 : a ≠ 0 := by omega
  by_cases h : lo = n0s
  · subst h
    simp only [tlInnerLoop, tlBody, iterRest, hr, if_true]
    simp [hlo, TLIter.yield, hu, hadv, ha0]
    generalize tlWriteLoop N b st traj F _ = W
    rcases W with e | s'
    · simp
    · by_cases hc : s'.n = N - s'.r - 1 <;> simp [hc]
  · simp only [tlInnerLoop, tlBody, iterRest, hr, if_true]
    simp [hlo, h, TLIter.yield, hu, hadv, ha0]
    generalize tlWriteLoop N b st traj F _ = W
    rcases W with e | s'
    · simp
    · by_cases hc : s'.n = N - s'.r - 1 <;> simp [hc]

/-- an iteration of the write loop (lines 118-132) -/
theorem iterRest_write (n0s g F n r a : Nat) (sn : List Nat) (out : List Ev)
    (hn : n < N - r - 1) (hadv : nAdvance (N - r - n) (b + 1 - sn.length) traj = some a) (ha : 1 ≤ a)
    (hlen : sn.length < b + 1) :
    iterRest N b st traj n0s (g + 1) F ⟨n, r, sn, out⟩
      = iterRest N b st traj n0s g F ⟨n + a, r, sn ++ [n],
          out ++ [⟨.forward n (n + a) true false st, n + a, r⟩]⟩ := by
  have hu : ((b : Int) + 1 - (sn.length : Int)).toNat = b + 1 - sn.length := by omega
  have ha0 : a ≠ 0 := by omega
  have hl : ¬ b + 1 ≤ sn.length := by omega
  simp only [iterRest, tlWriteLoop, hn, if_true]
  simp [TLIter.yield, hu, hadv, ha0, hl]

/-- the write loop is left (line 118), the check of line 134 passes -/
theorem iterRest_exit (n0s g F n r : Nat) (sn : List Nat) (out : List Ev) (hn : n = N - r - 1) :
    iterRest N b st traj n0s (g + 1) F ⟨n, r, sn, out⟩
      = tlInnerLoop N b st traj n0s F (tlTail ⟨n, r, sn, out⟩) := by
  simp [iterRest, tlWriteLoop, ← hn]

/-- the inner loop is left (line 90) -/
theorem innerLoop_exit (n0s F : Nat) (s : TLIter) (h : ¬ s.r < N - n0s) :
    tlInnerLoop N b st traj n0s (F + 1) s = .ok s := by
  simp [tlInnerLoop, h]

/-- **The loops of lines 90-141 emit the binomial segment.**  With the stack `snapshots = bot ++ [lo]`
and the adjoint at `hi = N - r`, `hi - lo` iterations of the inner loop yield exactly
`segWith … stored = true … lo hi (len bot)` and leave the stack `bot` with the adjoint at `lo`;
inside an iteration, from the write loop with `_n = lo` onwards, the same holds for
`segWith … stored = false …`.  In particular the segment exists (none of the `n_advance` calls
raises) and no `RuntimeError`/`assert` is hit. -/
theorem seg_refine (n0s : Nat) :
    ∀ fuel' : Nat,
      (∀ (lo hi d : Nat) (bot : List Nat) (n : Nat) (out : List Ev) (F : Nat),
        hi - lo ≤ fuel' → lo < hi → hi ≤ N → bot.length = d →
        ((d = 0 ∧ lo = n0s) ∨ (1 ≤ d ∧ n0s < lo)) → (lo + 2 ≤ hi → d + 1 ≤ b + 1) →
        ∃ evs, segWith N (fun m k => nAdvance m k traj) (b + 1) (fun d => if d = 0 then .disk else st) true
            fuel' true false lo hi d = some evs ∧
          tlInnerLoop N b st traj n0s (F + (hi - lo)) ⟨n, N - hi, bot ++ [lo], out⟩
            = tlInnerLoop N b st traj n0s F ⟨lo + 1, N - lo, bot, out ++ evs⟩) ∧
      (∀ (lo hi d : Nat) (bot : List Nat) (out : List Ev) (g F : Nat),
        hi - lo ≤ fuel' → lo < hi → hi ≤ N → bot.length = d → 1 ≤ d → n0s < lo →
        (lo + 2 ≤ hi → d + 1 ≤ b + 1) → hi - lo ≤ g →
        ∃ evs, segWith N (fun m k => nAdvance m k traj) (b + 1) (fun d => if d = 0 then .disk else st) true
            fuel' false false lo hi d = some evs ∧
          iterRest N b st traj n0s g (F + (hi - lo - 1)) ⟨lo, N - hi, bot, out⟩
            = tlInnerLoop N b st traj n0s F ⟨lo + 1, N - lo, bot, out ++ evs⟩) := by
  intro fuel'
  induction fuel' with
  | zero =>
    constructor
    · intro lo hi d bot n out F h1 h2; omega
    · intro lo hi d bot out g F h1 h2; omega
  | succ fuel' ih =>
    obtain ⟨ihT, ihF⟩ := ih
    constructor
    · -- stored = true
      intro lo hi d bot n out F hfuel hlt hN hlen hd hunits
      have hr : N - hi < N - n0s := by omega
      unfold segWith
      by_cases hbase : hi = lo + 1
      · subst hbase
        refine ⟨_, by simp only [if_true]; rfl, ?_⟩
        have e : F + (lo + 1 - lo) = F + 1 := by omega
        rw [e, innerLoop_pop N b st traj n0s F n (N - (lo + 1)) lo bot out hr (by omega), tlTail_eq]
        have e2 : N - (lo + 1) + 1 = N - lo := by omega
        rw [e2]
        rcases hd with ⟨hd0, hlo⟩ | ⟨hd1, hlo⟩
        · subst hd0; subst hlo; simp
        · have h1 : ¬ lo = n0s := by omega
          have h2 : ¬ d = 0 := by omega
          simp [h1, h2]
      · simp only [hbase, if_false]
        have hdS := hunits (by omega)
        obtain ⟨a, ha, ha1, ha2⟩ := nAdvance_range (hi - lo) (b + 1 - d) traj (by omega) (by omega)
        rw [ha]; dsimp only
        -- units for the right part
        have hright_units : lo + a + 2 ≤ hi → (d + 1) + 1 ≤ b + 1 := by
          intro h
          by_contra hc
          have hS1 : b + 1 - d = 1 := by omega
          rw [hS1, nAdvance_one _ traj (by omega)] at ha
          injection ha with ha; omega
        -- the machine: Copy, plain Forward
        have e : F + (hi - lo) = (F + (hi - lo - 1)) + 1 := by omega
        have hadv : nAdvance (N - (N - hi) - lo) (b + 1 - bot.length) traj = some a := by
          have : N - (N - hi) - lo = hi - lo := by omega
          rw [this, hlen]; exact ha
        rw [e, innerLoop_copy N b st traj n0s _ n (N - hi) lo a bot out hr (by omega) hadv ha1]
        -- right part: the write loop and what follows
        have e3 : F + (hi - lo - 1) = (F + a) + (hi - (lo + a) - 1) := by omega
        obtain ⟨right, hright, hrunR⟩ := ihF (lo + a) hi (d + 1) (bot ++ [lo])
          (out ++ [⟨if lo = n0s then .copy lo .disk .work else .copy lo st .work, lo, N - hi⟩,
                  ⟨.forward lo (lo + a) false false .work, lo + a, N - hi⟩])
          (F + (hi - lo - 1)) (F + a) (by omega) (by omega) hN (by simp [hlen]) (by omega) (by omega)
          hright_units (by omega)
        rw [hright]; dsimp only
        rw [← e3] at hrunR
        rw [hrunR]
        -- left part
        obtain ⟨left, hleft, hrunL⟩ := ihT lo (lo + a) d bot (lo + a + 1) (out ++ _ ++ right) F
          (by omega) (by omega) (by omega) hlen hd (fun _ => hdS)
        rw [hleft]; dsimp only
        refine ⟨_, rfl, ?_⟩
        have e4 : lo + a - lo = a := by omega
        rw [e4] at hrunL
        rw [hrunL]
        rcases hd with ⟨hd0, hlo⟩ | ⟨hd1, hlo⟩
        · subst hd0; subst hlo; simp
        · have h1 : ¬ lo = n0s := by omega
          have h2 : ¬ d = 0 := by omega
          simp [h1, h2]
    · -- stored = false
      intro lo hi d bot out g F hfuel hlt hN hlen hd1 hlo hunits hg
      unfold segWith
      by_cases hbase : hi = lo + 1
      · subst hbase
        refine ⟨_, by simp only [if_true]; rfl, ?_⟩
        obtain ⟨g', rfl⟩ : ∃ g', g = g' + 1 := ⟨g - 1, by omega⟩
        have e : F + (lo + 1 - lo - 1) = F := by omega
        rw [e, iterRest_exit N b st traj n0s g' F lo (N - (lo + 1)) bot out (by omega), tlTail_eq]
        have e2 : N - (lo + 1) + 1 = N - lo := by omega
        rw [e2]
        simp
      · simp only [hbase, if_false]
        have hdS := hunits (by omega)
        obtain ⟨a, ha, ha1, ha2⟩ := nAdvance_range (hi - lo) (b + 1 - d) traj (by omega) (by omega)
        rw [ha]; dsimp only
        have hright_units : lo + a + 2 ≤ hi → (d + 1) + 1 ≤ b + 1 := by
          intro h
          by_contra hc
          have hS1 : b + 1 - d = 1 := by omega
          rw [hS1, nAdvance_one _ traj (by omega)] at ha
          injection ha with ha; omega
        obtain ⟨g', rfl⟩ : ∃ g', g = g' + 1 := ⟨g - 1, by omega⟩
        have hadv : nAdvance (N - (N - hi) - lo) (b + 1 - bot.length) traj = some a := by
          have : N - (N - hi) - lo = hi - lo := by omega
          rw [this, hlen]; exact ha
        rw [iterRest_write N b st traj n0s g' _ lo (N - hi) a bot out (by omega) hadv ha1 (by omega)]
        have e3 : F + (hi - lo - 1) = (F + a) + (hi - (lo + a) - 1) := by omega
        obtain ⟨right, hright, hrunR⟩ := ihF (lo + a) hi (d + 1) (bot ++ [lo])
          (out ++ [⟨.forward lo (lo + a) true false st, lo + a, N - hi⟩])
          g' (F + a) (by omega) (by omega) hN (by simp [hlen]) (by omega) (by omega)
          hright_units (by omega)
        rw [hright]; dsimp only
        rw [← e3] at hrunR
        rw [hrunR]
        obtain ⟨left, hleft, hrunL⟩ := ihT lo (lo + a) d bot (lo + a + 1) (out ++ _ ++ right) F
          (by omega) (by omega) (by omega) hlen (Or.inr ⟨hd1, hlo⟩) (fun _ => hdS)
        rw [hleft]; dsimp only
        refine ⟨_, rfl, ?_⟩
        have e4 : lo + a - lo = a := by omega
        rw [e4] at hrunL
        rw [hrunL]
        have h2 : ¬ d = 0 := by omega
        simp [h2]

variable (p : Nat)

/-- one iteration of the outer loop (lines 81-146) yields one period block -/
theorem outerLoop_block (hp : 1 ≤ p) (blk : Nat) (hlo : blk * p < N) (G n : Nat) (sn : List Nat) (out : List Ev)
    (hG : min (blk * p + p) N - blk * p + 1 ≤ G) :
    ∃ evs, segWith N (fun m k => nAdvance m k traj) (b + 1) (fun d => if d = 0 then .disk else st) true
        (min (blk * p + p) N - blk * p + 1) true false (blk * p) (min (blk * p + p) N) 0 = some evs ∧
      tlOuterLoop N p b st traj (G + 1) ⟨n, N - min (blk * p + p) N, sn, out⟩
        = tlOuterLoop N p b st traj G ⟨blk * p + 1, N - blk * p, [], out ++ evs⟩ := by
  have hhi : blk * p < min (blk * p + p) N := by omega
  have hdiv : (N - (N - min (blk * p + p) N) - 1) / p = blk := by
    apply Nat.div_eq_of_lt_le
    · omega
    · rw [Nat.succ_mul]; omega
  obtain ⟨F, hF⟩ : ∃ F, G = (F + 1) + (min (blk * p + p) N - blk * p) := ⟨G - (min (blk * p + p) N - blk * p) - 1, by omega⟩
  obtain ⟨evs, hevs, hrun⟩ := (seg_refine N b st traj (blk * p) (min (blk * p + p) N - blk * p + 1)).1
    (blk * p) (min (blk * p + p) N) 0 [] n out (F + 1) (by omega) hhi (Nat.min_le_right _ _) rfl
    (Or.inl ⟨rfl, rfl⟩) (by omega)
  refine ⟨evs, hevs, ?_⟩
  rw [← hF] at hrun
  have hexit := innerLoop_exit N b st traj (blk * p) F ⟨blk * p + 1, N - blk * p, [], out ++ evs⟩ (by simp)
  have hr : N - min (blk * p + p) N < N := by omega
  simp only [List.nil_append] at hrun
  simp only [tlOuterLoop, hr, if_true, hdiv, ne_eq, not_true_eq_false, if_false, hrun, hexit, List.length_nil]

/-- the outer loop (lines 81-146) yields the blocks `blk-1, …, 0` and is left with `_r = max_n` -/
theorem outerLoop_blocks (hp : 1 ≤ p) (hN : 1 ≤ N) :
    ∀ (blk : Nat), blk ≤ ceilDiv N p → ∀ (G n : Nat) (sn : List Nat) (out : List Ev),
      blk + min p N + 1 ≤ G →
      ∃ evs s', twoLevelBlocks N p b st traj blk = some evs ∧
        tlOuterLoop N p b st traj G ⟨n, N - min (blk * p) N, sn, out⟩ = .ok s' ∧
        s'.out = out ++ evs ∧ s'.r = N ∧ (s'.n = if blk = 0 then n else 1) ∧
        (s'.snapshots = if blk = 0 then sn else []) := by
  intro blk
  induction blk with
  | zero =>
    intro _ G n sn out hG
    obtain ⟨G', rfl⟩ : ∃ G', G = G' + 1 := ⟨G - 1, by omega⟩
    refine ⟨[], ⟨n, N, sn, out⟩, rfl, ?_, by simp, rfl, by simp, by simp⟩
    simp [tlOuterLoop]
  | succ blk ih =>
    intro hblk G n sn out hG
    obtain ⟨G', rfl⟩ : ∃ G', G = G' + 1 := ⟨G - 1, by omega⟩
    have hlo : blk * p < N := ceilDiv_lt N p blk hN hblk
    obtain ⟨evs, hevs, hstep⟩ := outerLoop_block N b st traj p hp blk hlo G' n sn out (by omega)
    obtain ⟨rest, s', hrest, hrun, hout, hr, hn, hsn⟩ := ih (by omega) G' (blk * p + 1) [] (out ++ evs) (by omega)
    have e : N - min (blk * p) N = N - blk * p := by omega
    rw [e] at hrun
    refine ⟨evs ++ rest, s', ?_, ?_, ?_, hr, ?_, ?_⟩
    · simp only [twoLevelBlocks, hevs, hrest]
    · rw [Nat.succ_mul, hstep, hrun]
    · rw [hout, List.append_assoc]
    · rw [hn]
      by_cases h0 : blk = 0
      · subst h0; simp
      · simp [h0]
    · rw [hsn]; simp

end

/-- **Refinement**: the literal twin of `TwoLevelCheckpointSchedule._iterator` yields, in one adjoint
calculation, exactly the recursive stream `twoLevelPass`; it never raises. -/
theorem twoLevelIterPass_eq (N p b : Nat) (st : Storage) (traj : Traj) (fuel : Nat) (hp : 1 ≤ p) (hN : 1 ≤ N)
    (hfuel : ceilDiv N p + min p N + 1 ≤ fuel) :
    twoLevelIterPass N p b st traj fuel = .ok (twoLevelPass N p b st traj) := by
  have hge := ceilDiv_ge N p hp
  have hq := ceilDiv_pos N p hp hN
  obtain ⟨evs, s', hevs, hrun, hout, hr, hn, _⟩ := outerLoop_blocks N b st traj p hp hN (ceilDiv N p) (le_refl _)
    fuel N [] [] hfuel
  have e : N - min (ceilDiv N p * p) N = 0 := by omega
  rw [e] at hrun
  have hq0 : ¬ ceilDiv N p = 0 := by omega
  simp only [hq0, if_false] at hn
  have hevs' : twoLevelBlocks N p b st traj ((N + p - 1) / p) = some evs := hevs
  simp only [twoLevelIterPass, twoLevelIterFrom, hrun, hr, ne_eq, not_true_eq_false, if_false, twoLevelPass, hevs',
    TLIter.yield, hout, hn, List.nil_append]

/-- the same from whatever value `_n` has when the calculation starts (`N` for the first one, `1`
for the later ones); the generator is left with `_n = 1`, `_r = 0`, ready for the next calculation -/
theorem twoLevelIterFrom_eq (N p b : Nat) (st : Storage) (traj : Traj) (n fuel : Nat) (hp : 1 ≤ p) (hN : 1 ≤ N)
    (hfuel : ceilDiv N p + min p N + 1 ≤ fuel) :
    ∃ s, twoLevelIterFrom N p b st traj n fuel = .ok s ∧ s.out = twoLevelPass N p b st traj ∧
      s.n = 1 ∧ s.r = 0 ∧ s.snapshots = [] := by
  have hge := ceilDiv_ge N p hp
  have hq := ceilDiv_pos N p hp hN
  obtain ⟨evs, s', hevs, hrun, hout, hr, hn, hsn⟩ := outerLoop_blocks N b st traj p hp hN (ceilDiv N p) (le_refl _)
    fuel n [] [] hfuel
  have e : N - min (ceilDiv N p * p) N = 0 := by omega
  rw [e] at hrun
  have hq0 : ¬ ceilDiv N p = 0 := by omega
  simp only [hq0, if_false] at hn
  have hevs' : twoLevelBlocks N p b st traj ((N + p - 1) / p) = some evs := hevs
  simp only [hq0, if_false] at hsn
  refine ⟨_, by simp only [twoLevelIterFrom, hrun, hr, ne_eq, not_true_eq_false, if_false]; rfl, ?_, ?_, rfl, ?_⟩
  · simp only [twoLevelPass, hevs', TLIter.yield, hout, hn, List.nil_append]
  · simpa [TLIter.yield] using hn
  · simpa [TLIter.yield] using hsn

/-- the default fuel of the twin suffices -/
theorem twoLevelIterPass_eq_default (N p b : Nat) (st : Storage) (traj : Traj) (hp : 1 ≤ p) (hN : 1 ≤ N) :
    twoLevelIterPass N p b st traj (twoLevelIterFuel N) = .ok (twoLevelPass N p b st traj) := by
  apply twoLevelIterPass_eq N p b st traj _ hp hN
  have h1 : ceilDiv N p ≤ N := by
    by_contra hc
    have := ceilDiv_lt N p N hN (by omega)
    have : N * 1 ≤ N * p := Nat.mul_le_mul_left N hp
    omega
  unfold twoLevelIterFuel
  omega

example : twoLevelIterPass 10 3 2 .ram .maximum 9 = .ok (twoLevelPass 10 3 2 .ram .maximum) :=
  twoLevelIterPass_eq 10 3 2 .ram .maximum 9 (by omega) (by omega) (by decide)

end Ckpt.On
