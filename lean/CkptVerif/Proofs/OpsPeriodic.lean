import CkptVerif.Proofs.OpsDisk
import CkptVerif.Proofs.RevolveOk
import CkptVerif.Proofs.Opt0
import CkptVerif.Proofs.Period
/-!
# Refinement for PeriodicDiskRevolve

Python builds the table `get_opt_0_table(mx + 1, cm, …)`; the stream model `periodicEvs` uses the
larger table `opt0Table (max (N-1) (mx+1)) …`.  Both agree on the entries that are read
(`opt0Table_agree`), hence give the same splits on segments of at most `mx + 1` steps.
-/
namespace Ckpt.Ops

/-! ## the cost table does not depend on `lmax` -/

theorem opt0Get_row0 (lmax mmax uf ub l : Nat) (hl : 1 ≤ l) :
    opt0Get (opt0Table lmax mmax uf ub) 0 l = 0 := by
  unfold opt0Get
  rcases Nat.eq_zero_or_pos mmax with h0 | hpos
  · subst h0
    rw [opt0Table_zero]
    simp [Array.getD]
    omega
  · rw [(opt0Table_rows lmax mmax uf ub hpos).1]
    simp [Array.getD]
    omega

theorem opt0Table_agree (L1 L2 M uf ub : Nat) :
    ∀ (m l : Nat), m ≤ M → l ≤ L1 → l ≤ L2 →
      opt0Get (opt0Table L1 M uf ub) m l = opt0Get (opt0Table L2 M uf ub) m l := by
  intro m
  induction m using Nat.strong_induction_on with
  | _ m ihm =>
    intro l
    induction l using Nat.strong_induction_on with
    | _ l ihl =>
      intro hm h1 h2
      rcases Nat.eq_zero_or_pos l with rfl | hl1
      · rw [opt0Get_zero L1 M uf ub m hm, opt0Get_zero L2 M uf ub m hm]
      rcases Nat.eq_zero_or_pos m with rfl | hm1
      · rw [opt0Get_row0 L1 M uf ub l hl1, opt0Get_row0 L2 M uf ub l hl1]
      by_cases hl : l = 1
      · subst hl
        rw [opt0Get_one L1 M uf ub m hm1 hm, opt0Get_one L2 M uf ub m hm1 hm]
      by_cases hm' : m = 1
      · subst hm'
        rw [opt0Get_row1 L1 M uf ub l (by omega) (by omega) h1,
          opt0Get_row1 L2 M uf ub l (by omega) (by omega) h2]
      have r1 := (opt0Get_rec L1 M uf ub m l (by omega) hm (by omega) h1).1
      have r2 := (opt0Get_rec L2 M uf ub m l (by omega) hm (by omega) h2).1
      rw [r1, r2]
      have : (List.range' 1 (l - 1)).map (fun j =>
          j * uf + opt0Get (opt0Table L1 M uf ub) (m - 1) (l - j) +
            opt0Get (opt0Table L1 M uf ub) m (j - 1)) =
        (List.range' 1 (l - 1)).map (fun j =>
          j * uf + opt0Get (opt0Table L2 M uf ub) (m - 1) (l - j) +
            opt0Get (opt0Table L2 M uf ub) m (j - 1)) := by
        apply List.map_congr_left
        intro j hj
        rw [List.mem_range'_1] at hj
        rw [ihm (m - 1) (by omega) (l - j) (by omega) (by omega) (by omega),
          ihl (j - 1) (by omega) hm (by omega) (by omega)]
      rw [this]

/-- two tables agreeing on the entries `k ≤ cm`, `l ≤ L` give the same splits for segments of
`m ≤ L + 2` steps -/
theorem revolveSplit_agree (t1 t2 : Array (Array Nat)) (uf cm L : Nat)
    (h : ∀ k l, k ≤ cm → l ≤ L → opt0Get t1 k l = opt0Get t2 k l) (m k : Nat) (hm : m ≤ L + 2)
    (hk : k ≤ cm) : revolveSplit t1 uf m k = revolveSplit t2 uf m k := by
  unfold revolveSplit
  dsimp only
  by_cases hk0 : k = 0
  · rw [if_pos hk0, if_pos hk0]
  rw [if_neg hk0, if_neg hk0]
  by_cases h1 : m - 1 = 1 ∨ k = 1
  · rw [if_pos h1, if_pos h1]
  rw [if_neg h1, if_neg h1]
  congr 2
  apply List.map_congr_left
  intro j hj
  rw [List.mem_range'_1] at hj
  rw [h (k - 1) (m - 1 - j) (by omega) (by omega), h k (j - 1) hk (by omega)]

theorem segWith_congr (N : Nat) (σ1 σ2 : Nat → Nat → Option Nat) (S : Nat) (alloc : Nat → Storage)
    (persist : Bool) (M : Nat) (h : ∀ m k, m ≤ M → k ≤ S → σ1 m k = σ2 m k)
    (hr : ∀ m k a, 2 ≤ m → σ2 m k = some a → 1 ≤ a ∧ a ≤ m - 1) :
    ∀ (fuel : Nat) (stored spine : Bool) (lo hi d : Nat), lo < hi → hi - lo ≤ M →
      segWith N σ1 S alloc persist fuel stored spine lo hi d =
        segWith N σ2 S alloc persist fuel stored spine lo hi d := by
  intro fuel
  induction fuel with
  | zero => intro _ _ _ _ _ _ _; rfl
  | succ fuel ih =>
    intro stored spine lo hi d hlt hM
    rw [segWith, segWith]
    by_cases hb : hi = lo + 1
    · rw [if_pos hb, if_pos hb]
    rw [if_neg hb, if_neg hb, h (hi - lo) (S - d) hM (by omega)]
    cases hσ : σ2 (hi - lo) (S - d) with
    | none => rfl
    | some a =>
      obtain ⟨ha1, ha2⟩ := hr _ _ _ (by omega) hσ
      dsimp only
      rw [ih false spine (lo + a) hi (d + 1) (by omega) (by omega),
        ih true false lo (lo + a) d (by omega) (by omega)]

theorem revSeg_agree (N : Nat) (t1 t2 : Array (Array Nat)) (uf cm L : Nat)
    (h : ∀ k l, k ≤ cm → l ≤ L → opt0Get t1 k l = opt0Get t2 k l) (spine : Bool) (lo hi : Nat)
    (hlt : lo < hi) (hM : hi - lo ≤ L + 2) :
    revSeg N t1 uf cm spine lo hi = revSeg N t2 uf cm spine lo hi := by
  unfold revSeg
  apply segWith_congr N _ _ cm _ false (L + 2)
    (fun m k hm hk => revolveSplit_agree t1 t2 uf cm L h m k hm hk)
  · intro m k a hm hσ
    by_cases hk : k = 0
    · subst hk; simp [revolveSplit] at hσ
    · obtain ⟨a', ha', h1, h2⟩ := revolveSplit_range t2 uf m k hm (by omega)
      rw [ha'] at hσ; cases hσ; exact ⟨h1, h2⟩
  · exact hlt
  · exact hM

/-! ## the sweep and the blocks -/

/-- the snapshots of the periodic DISK checkpoints at `0, mx, …, (q-1)·mx`, most recent first -/
def diskSnaps (mx : Nat) : Nat → List (Option Storage × Nat)
  | 0 => []
  | q + 1 => (some .disk, q * mx) :: diskSnaps mx q

theorem diskSnaps_ok (mx : Nat) (hmx : 1 ≤ mx) : ∀ q, SnapOk (q * mx) (diskSnaps mx q)
  | 0 => by intro k hk; cases hk
  | q + 1 => by
    have := diskSnaps_ok mx hmx q
    rw [Nat.succ_mul]
    exact this.cons (by omega) _

/-- a `Conv` whose first part may be empty -/
theorem Conv.append' {N : Nat} {wrap : Option Op} {pos : Nat} {prev : Option Op}
    {xs ys tail : List Op} {n r n1 r1 n2 r2 : Nat} {S S1 S2 : List (Option Storage × Nat)}
    {e1 e2 : List Ev}
    (h1 : Conv N wrap pos prev xs (ys ++ tail) n r S e1 n1 r1 S1)
    (h2 : ∀ pos' prev', Conv N wrap pos' prev' ys tail n1 r1 S1 e2 n2 r2 S2) :
    Conv N wrap pos prev (xs ++ ys) tail n r S (e1 ++ e2) n2 r2 S2 := by
  intro s hn hr hS
  obtain ⟨s1, a1, a2, a3, a4, a5⟩ := h1 s hn hr hS
  obtain ⟨s2, b1, b2, b3, b4, b5⟩ := h2 _ _ s1 a3 a4 a5
  refine ⟨s2, ?_, ?_, b3, b4, b5⟩
  · rw [convL_append, a1]; exact b1
  · rw [b2, a2, List.append_assoc]

/-- the initial sweep: `Write_disk c; Forward [c, c+mx]` while more than `mx` steps remain -/
theorem sweep_conv (N mx : Nat) (hmx : 1 ≤ mx) (_hN : 1 ≤ N) :
    ∀ (fuel q : Nat), N - 1 - q * mx + 1 ≤ fuel → q * mx < N →
      ∃ q', (periodicSweepOps (N - 1) mx fuel (q * mx)).2 = q' * mx ∧
        (periodicSweep (N - 1) mx fuel (q * mx)).2 = q' * mx ∧ q' * mx < N ∧
        N - 1 - q' * mx ≤ mx ∧ q ≤ q' ∧
        OpsWf (periodicSweepOps (N - 1) mx fuel (q * mx)).1 ∧
        ∀ pos prev tail wrap, Conv N wrap pos prev (periodicSweepOps (N - 1) mx fuel (q * mx)).1 tail
          (q * mx) 0 (diskSnaps mx q) (periodicSweep (N - 1) mx fuel (q * mx)).1 (q' * mx) 0
          (diskSnaps mx q') := by
  intro fuel
  induction fuel with
  | zero => intro q h; omega
  | succ fuel ih =>
    intro q hfuel hq
    unfold periodicSweepOps periodicSweep
    by_cases hc : N - 1 - q * mx > mx
    · rw [if_pos hc, if_pos hc]
      obtain ⟨q', h1, h2, h3, h4, h5, h6, h7⟩ := ih (q + 1) (by rw [Nat.succ_mul]; omega)
        (by rw [Nat.succ_mul]; omega)
      rw [Nat.succ_mul] at h1 h2 h6 h7
      rcases hps : periodicSweepOps (N - 1) mx fuel (q * mx + mx) with ⟨restO, c1⟩
      rcases hpe : periodicSweep (N - 1) mx fuel (q * mx + mx) with ⟨restE, c2⟩
      rw [hps] at h1 h6 h7
      rw [hpe] at h2 h7
      dsimp only at h1 h2 h6 h7 ⊢
      refine ⟨q', h1, h2, h3, h4, by omega, ?_, ?_⟩
      · intro o ho
        rcases List.mem_cons.1 ho with rfl | ho
        · exact ⟨_, convAct_wd _⟩
        rcases List.mem_cons.1 ho with rfl | ho
        · exact ⟨_, convAct_fwd _ _ (by omega)⟩
        · exact h6 o ho
      · intro pos prev tail wrap
        have hkey : (some Storage.disk, q * mx) ∉ diskSnaps mx q := by
          intro h; have := diskSnaps_ok mx hmx q _ h; simp at this
        have hneN : ¬ q * mx + mx = N := by omega
        refine Conv.evs (evs' := [] ++ (fwdEvs N (q * mx) (q * mx + mx) 0 true false .disk ++ restE))
          ?_ (by simp [fwdEvs, hneN])
        refine Conv.cons (n1 := q * mx) (r1 := 0) (S1 := diskSnaps mx q)
          (step_noop N _ _ _ _ _ (q * mx) _ _ _ (convAct_wd _) (Or.inr (Or.inr ⟨rfl, rfl⟩))) ?_
        refine Conv.cons (n1 := q * mx + mx) (r1 := 0) (S1 := diskSnaps mx (q + 1)) ?_ (h7 _ _ _ _)
        rw [if_neg (by omega)]
        exact step_fwd_write N _ _ _ _ (q * mx) (q * mx + mx) _ _ _ .disk (convAct_wd _) rfl rfl rfl
          (by omega) (fun h => absurd h hneN) hkey
    · rw [if_neg hc, if_neg hc]
      refine ⟨q, rfl, rfl, hq, by omega, le_refl _,
        (show OpsWf [] from by intro o ho; cases ho), ?_⟩
      intro pos prev tail wrap
      exact Conv.nil _ _ _ _ _ _ _ _

/-- everything in the blocks below `q·mx` concerns steps `< q·mx` -/
theorem blocks_conv (N : Nat) (t : Array (Array Nat)) (uf cm mx : Nat) (hmx : 1 ≤ mx)
    (hcm : 1 ≤ cm) :
    ∀ (q : Nat), q * mx < N →
      ∃ ops evs, periodicBlockOps t uf cm mx q = some ops ∧
        periodicBlocks N t uf cm mx q = some evs ∧ TailOk (q * mx) ops ∧ OpsWf ops ∧
        ∀ pos prev n0 wrap, Conv N wrap pos prev ops [] n0 (N - q * mx) (diskSnaps mx q) evs
          (if q = 0 then n0 else 1) N [] := by
  intro q
  induction q with
  | zero =>
    intro _
    refine ⟨[], [], rfl, rfl, (show TailOk _ [] from by intro o ho; cases ho),
      (show OpsWf [] from by intro o ho; cases ho), ?_⟩
    intro pos prev n0 wrap
    rw [Nat.zero_mul, Nat.sub_zero]
    exact Conv.nil _ _ _ _ _ _ _ _
  | succ b ih =>
    intro hq
    rw [Nat.succ_mul] at hq
    obtain ⟨rest, evsR, hrest, hevsR, hkR, hwfR, hconvR⟩ := ih (by omega)
    obtain ⟨blk, hblk, hkB, hwfB, hneB, hB⟩ := revSeg_block N t uf cm (b * mx) (mx - 1) mx hcm
      (by omega)
    have hram := revOpsAt_ram t uf mx (b * mx) (mx - 1) cm blk hblk
    have hhi : b * mx + (mx - 1) + 1 = b * mx + mx := by omega
    rw [hhi] at hkB hB
    obtain ⟨evsB, hsegB, hconvB⟩ := hB false (rest ++ []) none (diskSnaps mx b) (by omega)
      (by constructor
          · intro h; cases h
          · intro h; omega)
      (by rw [List.append_nil]; exact hkR) (diskSnaps_ok mx hmx b)
    have hshift := shiftOps_revolveOps t uf mx (b * mx) (mx - 1) cm
    rw [hblk] at hshift
    cases hro : revolveOps t uf mx (mx - 1) cm with
    | none => rw [hro] at hshift; cases hshift
    | some blk0 =>
      rw [hro, Option.map_some] at hshift
      injection hshift with hshift
      refine ⟨[Op.rd (b * mx)] ++ blk ++ rest,
        [⟨.move (b * mx) .disk .work, b * mx, N - (b * mx + mx)⟩] ++ evsB ++ evsR, ?_, ?_, ?_, ?_, ?_⟩
      · rw [periodicBlockOps, hro, hrest]
        dsimp only
        rw [hshift]
      · rw [periodicBlocks]
        simp only [hsegB, hevsR]
      · intro o ho ht
        rw [Nat.succ_mul]
        rcases List.mem_append.1 ho with ho | ho
        · rcases List.mem_append.1 ho with ho | ho
          · rw [List.mem_singleton] at ho; subst ho
            rw [opKeyOf_rd]; show b * mx < b * mx + mx; omega
          · exact (hkB o ho ht).2
        · have := hkR o ho ht; omega
      · refine OpsWf.append (OpsWf.append ?_ hwfB) hwfR
        intro o ho; rw [List.mem_singleton] at ho; subst ho; exact ⟨_, convAct_rd _⟩
      · intro pos prev n0 wrap
        have hkey : (some Storage.disk, b * mx) ∉ diskSnaps mx b := by
          intro h; have := diskSnaps_ok mx hmx b _ h; simp at this
        have hlast : isLastAt (Op.rd (b * mx)) ((blk ++ rest) ++ []) = true := by
          unfold isLastAt
          rw [opKeyOf_rd, List.append_nil, lastRd_skip _ _ _ (fun o ho ht he => by
            have := hram o ho ht
            rw [he] at this
            cases this)]
          exact lastRd_tail (b * mx) rest hkR _ (b * mx) (le_refl _)
        rw [if_neg (by omega)]
        show Conv N wrap pos prev (Op.rd (b * mx) :: (blk ++ rest)) [] n0 _ _ _ _ _ _
        refine Conv.evs (evs' := [⟨.move (b * mx) .disk .work, b * mx, N - (b + 1) * mx⟩] ++
          (evsB ++ evsR)) ?_ (by rw [Nat.succ_mul]; simp)
        refine Conv.cons (n1 := b * mx) (r1 := N - (b + 1) * mx) (S1 := diskSnaps mx b) ?_ ?_
        · rw [hlast]
          exact step_read_last N _ _ _ _ n0 _ (diskSnaps mx b) _ .disk (convAct_rd _) rfl rfl hkey
        refine Conv.append' (n1 := b * mx + 1) (r1 := N - b * mx) (S1 := diskSnaps mx b) ?_ ?_
        · obtain ⟨evsB', hsegB', hconvB'⟩ := hB false (rest ++ []) wrap (diskSnaps mx b) (by omega)
            (by constructor
                · intro h; cases h
                · intro h; omega)
            (by rw [List.append_nil]; exact hkR) (diskSnaps_ok mx hmx b)
          rw [hsegB] at hsegB'
          cases hsegB'
          exact Conv.congr (hconvB' _ _) rfl (by rw [Nat.succ_mul]) rfl rfl rfl
        · intro pos' prev'
          have := hconvR pos' prev' (b * mx + 1) wrap
          by_cases hb0 : b = 0
          · subst hb0
            simpa using this
          · rw [if_neg hb0] at this
            exact this

theorem periodicBlocks_agree (N : Nat) (t1 t2 : Array (Array Nat)) (uf cm mx L : Nat)
    (hmx : 1 ≤ mx) (hL : mx ≤ L + 2)
    (h : ∀ k l, k ≤ cm → l ≤ L → opt0Get t1 k l = opt0Get t2 k l) :
    ∀ q, periodicBlocks N t1 uf cm mx q = periodicBlocks N t2 uf cm mx q := by
  intro q
  induction q with
  | zero => rfl
  | succ b ih =>
    rw [periodicBlocks, periodicBlocks, ih,
      revSeg_agree N t1 t2 uf cm L h false (b * mx) (b * mx + mx) (by omega) (by omega)]

/-- **Refinement for PeriodicDiskRevolve**: the twin (`periodic_disk_revolve(N-1, cm, …)` converted
by `_iterator`) yields exactly the stream of the recursive model. -/
theorem periodicTwin_eq (N cm : Nat) (c : Costs) (hN : 1 ≤ N) (hcm : 1 ≤ cm) (huf : 0 < c.uf) :
    periodicTwin N cm c = periodicEvs N cm c := by
  obtain ⟨_, hmx⟩ := mxrr_spec cm c.uf (c.wd + c.rd) huf
  generalize hmxv : beta cm _ = mx at hmx
  have hmx1 : 1 ≤ mx := mxrr_pos _ _ _ _ hmx
  obtain ⟨q, h1, h2, h3, h4, _, hwfS, hsweep⟩ := sweep_conv N mx hmx1 hN N 0 (by omega) (by omega)
  rw [Nat.zero_mul] at h1 h2 hwfS hsweep
  rcases hps : periodicSweepOps (N - 1) mx N 0 with ⟨sweepO, ct⟩
  rcases hpe : periodicSweep (N - 1) mx N 0 with ⟨sweepE, cur⟩
  rw [hps] at h1 hwfS hsweep
  rw [hpe] at h2 hsweep
  dsimp only at h1 h2 hwfS hsweep
  subst h1 h2
  -- tables
  have hagree : ∀ k l, k ≤ cm → l ≤ mx + 1 →
      opt0Get (opt0Table (mx + 1) cm c.uf c.ub) k l =
        opt0Get (opt0Table (max (N - 1) (mx + 1)) cm c.uf c.ub) k l :=
    fun k l hk hl => opt0Table_agree (mx + 1) (max (N - 1) (mx + 1)) cm c.uf c.ub k l hk hl
      (by omega)
  -- the middle part and the blocks
  obtain ⟨mid, hmidO, hkM, hwfM, hneM, hM⟩ := revSeg_block N (opt0Table (mx + 1) cm c.uf c.ub) c.uf
    cm (q * mx) (N - 1 - q * mx) (N - 1 - q * mx + 1) hcm (by omega)
  obtain ⟨blocks, evsB, hblkO, hblkE, hkB, hwfB, hconvB⟩ := blocks_conv N
    (opt0Table (mx + 1) cm c.uf c.ub) c.uf cm mx hmx1 hcm q h3
  have hhi : q * mx + (N - 1 - q * mx) + 1 = N := by omega
  rw [hhi] at hM
  obtain ⟨evsM, hsegM, _⟩ := hM true (blocks ++ []) none (diskSnaps mx q) (le_refl _)
    (by constructor <;> intro _ <;> [rfl; rfl]) (by rw [List.append_nil]; exact hkB)
    (diskSnaps_ok mx hmx1 q)
  have hdiv : q * mx / mx = q := Nat.mul_div_cancel _ (by omega)
  -- stage 1
  have hshift := shiftOps_revolveOps (opt0Table (mx + 1) cm c.uf c.ub) c.uf (N - 1 - q * mx + 1)
    (q * mx) (N - 1 - q * mx) cm
  rw [hmidO] at hshift
  have htop : periodicOpsTop N cm c = some (sweepO ++ mid ++ blocks) := by
    unfold periodicOpsTop
    rw [hmx]
    dsimp only
    unfold periodicOps
    rw [show N - 1 + 1 = N by omega, hps]
    dsimp only
    cases hro : revolveOps (opt0Table (mx + 1) cm c.uf c.ub) c.uf (N - 1 - q * mx + 1)
        (N - 1 - q * mx) cm with
    | none => rw [hro] at hshift; cases hshift
    | some mid0 =>
      rw [hro, Option.map_some] at hshift
      injection hshift with hshift
      dsimp only
      rw [hdiv, hblkO, hshift]
  -- the model
  have hmodel : periodicEvs N cm c = .ok ((sweepE ++ evsM ++ evsB) ++ [⟨.endReverse, 1, N⟩]) := by
    unfold periodicEvs
    rw [hmx]
    dsimp only
    rw [hpe]
    dsimp only
    rw [← revSeg_agree N _ _ c.uf cm (mx + 1) hagree true (q * mx) N h3 (by omega), hsegM]
    dsimp only
    rw [hdiv, ← periodicBlocks_agree N _ _ c.uf cm mx (mx + 1) hmx1 (by omega) hagree q, hblkE]
  -- stage 2
  have hwf : OpsWf (sweepO ++ mid ++ blocks) := (hwfS.append hwfM).append hwfB
  have hconv : Conv N (sweepO ++ mid ++ blocks).getLast? 0 none (sweepO ++ mid ++ blocks) [] 0 0 []
      (sweepE ++ evsM ++ evsB) 1 N [] := by
    rw [List.append_assoc, List.append_assoc]
    refine Conv.append' (n1 := q * mx) (r1 := 0) (S1 := diskSnaps mx q)
      (by have := hsweep 0 none ((mid ++ blocks) ++ []) (sweepO ++ (mid ++ blocks)).getLast?
          simpa [diskSnaps] using this) ?_
    intro pos' prev'
    refine Conv.append' (n1 := q * mx + 1) (r1 := N - q * mx) (S1 := diskSnaps mx q) ?_ ?_
    · obtain ⟨evsM', hsegM', hconvM'⟩ := hM true (blocks ++ [])
        (sweepO ++ (mid ++ blocks)).getLast? (diskSnaps mx q) (le_refl _)
        (by constructor <;> intro _ <;> [rfl; rfl]) (by rw [List.append_nil]; exact hkB)
        (diskSnaps_ok mx hmx1 q)
      rw [hsegM] at hsegM'
      cases hsegM'
      exact Conv.congr (hconvM' _ _) rfl (by omega) rfl rfl rfl
    · intro pos'' prev''
      have := hconvB pos'' prev'' (q * mx + 1) (sweepO ++ (mid ++ blocks)).getLast?
      by_cases hq0 : q = 0
      · subst hq0
        simpa using this
      · rw [if_neg hq0] at this
        exact this
  have htwin : periodicTwin N cm c = .ok ((sweepE ++ evsM ++ evsB) ++ [⟨.endReverse, 1, N⟩]) := by
    unfold periodicTwin twinOf
    rw [htop]
    exact convertOps_of_conv N _ hwf _ 1 N hconv
  rw [htwin, hmodel]

end Ckpt.Ops
