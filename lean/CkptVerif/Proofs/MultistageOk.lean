import CkptVerif.Model.Multistage
import CkptVerif.Proofs.SegOk
import CkptVerif.Proofs.NAdv
/-!
# MultistageCheckpointSchedule: the model stream is accepted by the specification executor

for every `N ≥ 1`, every storage tuple (any RAM/DISK labelling whose counts respect the declared
budgets), both trajectories — no violation of any tag, and the stream is complete.
-/
namespace Ckpt

/-- the final `EndReverse` of a single-adjoint schedule -/
theorem step_endReverse_final (cfg : Cfg) (N : Nat) (n : Nat) (sn : List Cp)
    (hN : cfg.N = N) (hp : cfg.passes = some 1) :
    step cfg (X (some n) N none none [] true 0 sn) ⟨.endReverse, n, N, some N, true, true⟩
      = (X (some n) N none none [] true 1 sn, []) := by
  simp [step, stepViols, actViols, nextState, obsViols, chk, X, finished, hN, hp]

theorem countSt_le_of_labelled (alloc : Nat → Storage) (storage : List Storage)
    (halloc : ∀ i, i < storage.length → alloc i = storage.getD i .none) (s : Storage) :
    ∀ stack : List Cp, Labelled alloc stack → stack.length ≤ storage.length →
      countSt stack s ≤ (storage.take stack.length).count s := by
  intro stack
  induction stack with
  | nil => intro _ _; simp [countSt]
  | cons c rest ih =>
    intro hl hlen
    obtain ⟨hc, hrest⟩ := hl
    have hlen' : rest.length < storage.length := by simp at hlen; omega
    have ih' := ih hrest (by omega)
    have hget : storage.getD rest.length .none = storage[rest.length] := by
      simp [List.getD, hlen']
    have htake : storage.take (rest.length + 1) = storage.take rest.length ++ [storage[rest.length]] := by
      rw [List.take_add_one]; simp [hlen']
    simp only [List.length_cons, htake, List.count_append, countSt, List.filter_cons] at ih' ⊢
    rw [halloc _ hlen', hget] at hc
    by_cases hs : c.st = s
    · have hcnt : List.count s [storage[rest.length]] = 1 := by
        rw [← hc, hs]; simp
      rw [hcnt]
      simp only [hs, decide_true, if_true, List.length_cons]
      omega
    · simp only [hs, decide_false]
      simp only [Bool.false_eq_true, if_false]
      omega

theorem count_take_le (storage : List Storage) (k : Nat) (s : Storage) :
    (storage.take k).count s ≤ storage.count s :=
  (List.take_sublist k storage).count_le s

theorem multistage_clean (cfg : Cfg) (N : Nat) (storage : List Storage) (traj : Traj)
    (hN : cfg.N = N) (hp : cfg.passes = some 1) (hon : cfg.online = false)
    (h1 : 1 ≤ N) (hunits : 2 ≤ N → 1 ≤ storage.length)
    (hst : ∀ x ∈ storage, x.isStore = true)
    (hram : withinOpt cfg.ram (storage.count .ram) = true)
    (hdisk : withinOpt cfg.disk (storage.count .disk) = true) :
    ∃ evs sn, multistageSeg N storage.length (fun d => storage.getD d .none) traj = some (evs ++ [⟨.endReverse, 1, N⟩]) ∧
      Clean cfg (XS.init cfg)
        (evs.map (Ev.obs · N) ++ [⟨.endReverse, 1, N, some N, true, true⟩])
        (X (some 1) N none none [] true 1 sn) := by
  have hal : Alive cfg 0 := ⟨by rw [hp]; simp, by intro k hk; rw [hp] at hk; injection hk with hk; omega⟩
  have H : SegHyp cfg N (fun m k => nAdvance m k traj) storage.length (fun d => storage.getD d .none) [] 0 N 0 := {
    hN := hN
    alive := hal
    range := fun m k hm hk => nAdvance_range m k traj hm hk
    one := fun m hm => nAdvance_one m traj (by omega)
    store := by
      intro i hi
      have : storage.getD i .none = storage[i] := by simp [List.getD, hi]
      rw [this]; exact hst _ (List.getElem_mem hi)
    budget := by
      intro stack hl hlen
      have hr := countSt_le_of_labelled (fun d => storage.getD d .none) storage (fun _ _ => rfl) .ram stack hl hlen
      have hd := countSt_le_of_labelled (fun d => storage.getD d .none) storage (fun _ _ => rfl) .disk stack hl hlen
      have hr' := count_take_le storage stack.length .ram
      have hd' := count_take_le storage stack.length .disk
      simp only [withinBudget, List.append_nil, Bool.and_eq_true]
      constructor
      · revert hram; unfold withinOpt; cases cfg.ram <;> simp; omega
      · revert hdisk; unfold withinOpt; cases cfg.disk <;> simp; omega
    base := by intro c hc; simp at hc
  }
  obtain ⟨evs, sn', hseg, _, hclean⟩ := segWith_ok false H N false true 0 N 0 [] 0 (some 0) []
    none none (by simp) (by omega) (by omega) (le_refl _) (le_refl _) (le_refl _) (fun _ => ⟨rfl, rfl⟩) (by simp)
    (by intro c hc; simp at hc) trivial rfl (by intro h; have := hunits (by omega); omega) (fun _ => rfl) (by simp)
  refine ⟨evs, sn', ?_, ?_⟩
  · unfold multistageSeg; rw [hseg]; rfl
  · have hinit : XS.init cfg = X (some 0) (N - N) none none ([] ++ []) (!true) 0 [] := by
      simp [XS.init, X, hon]
    rw [hinit]
    simp only [Bool.false_eq_true, if_false, Bool.false_and, false_and] at hclean
    refine Clean.append hclean ?_
    have : N - 0 = N := by omega
    rw [this]
    exact Clean.single (step_endReverse_final cfg N 1 sn' hN hp)

end Ckpt
