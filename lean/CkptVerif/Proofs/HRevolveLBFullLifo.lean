import CkptVerif.Proofs.HRevolveLBFull
/-!
# `Lifo` implies `Lifo'` on accepted streams; an accepted `Lifo'` stream that is not `Lifo`
-/
namespace Ckpt.LB7
open Ckpt.RC Ckpt.GW Ckpt.Mean Ckpt.HLB

/-- an accepted `Copy`/`Move` names a checkpoint below the adjoint position (check C01/6) -/
theorem load_alive {cfg : Cfg} {x : XS} {n : Nat} {src dst : Storage}
    (h : actViols.loadViols cfg x n src dst = []) : n < cfg.N - x.r := by
  simp only [actViols.loadViols, List.append_eq_nil_iff, chk_nil_iff] at h
  obtain ⟨⟨_, _⟩, h3⟩ := h
  cases hf : findCp x.cps n src with
  | none => rw [hf] at h3; cases h3
  | some c =>
    rw [hf] at h3
    simp only [List.append_eq_nil_iff, chk_nil_iff] at h3
    obtain ⟨⟨⟨⟨_, h2⟩, _⟩, _⟩, _⟩ := h3
    simpa using h2

theorem topAlive_of_head {cfg : Cfg} {x : XS} {n : Nat} {src : Storage} {cp : Cp} {rest : List Cp}
    (hc : x.cps = cp :: rest) (hn : cp.n = n) (hs : cp.st = src) (ha : n < cfg.N - x.r) :
    topAlive cfg x n src = true := by
  unfold topAlive
  rw [hc, List.find?_cons]
  have : aliveAt cfg x cp = true := by unfold aliveAt; rw [hn]; simpa using ha
  rw [this]
  simp [hn, hs]

theorem lifoAct'_of_lifoAct {cfg : Cfg} {x : XS} {a : Action} (hclean : actViols cfg x a = [])
    (h : lifoAct x a = true) : lifoAct' cfg x a = true := by
  cases a with
  | copy n src dst =>
    obtain ⟨hdst, cp, rest, hc, hn, hs⟩ := lifo_head h
    subst hdst
    have ha := load_alive (show actViols.loadViols cfg x n src .work = [] from hclean)
    simp [lifoAct', Storage.isStore, topAlive_of_head hc hn hs ha]
  | move n src dst =>
    obtain ⟨hdst, cp, rest, hc, hn, hs⟩ := lifo_head h
    subst hdst
    have ha := load_alive (show actViols.loadViols cfg x n src .work = [] from hclean)
    simp [lifoAct', Storage.isStore, topAlive_of_head hc hn hs ha]
  | forward _ _ _ _ _ => rfl
  | reverse _ _ _ => rfl
  | endForward => rfl
  | endReverse => rfl

theorem lifoFrom'_of_lifoFrom {cfg : Cfg} (os : List Obs) :
    ∀ (i : Nat) (x : XS), (runFrom cfg i x os).2 = [] → lifoFrom cfg x os = true →
      lifoFrom' cfg x os = true := by
  induction os with
  | nil => intro _ _ _ _; rfl
  | cons o os ih =>
    intro i x hclean hl
    rw [runFrom_snd_cons, List.append_eq_nil_iff, List.map_eq_nil_iff] at hclean
    simp only [lifoFrom, Bool.and_eq_true] at hl
    simp only [lifoFrom', Bool.and_eq_true]
    have hact : actViols cfg x o.act = [] := by
      have := hclean.1
      unfold stepViols at this
      simp only [List.append_eq_nil_iff] at this
      exact this.1.2
    exact ⟨lifoAct'_of_lifoAct hact hl.1, ih (i + 1) _ hclean.2 hl.2⟩

/-- **every accepted `Lifo` stream obeys `Lifo'`** -/
theorem lifo'_of_lifo {cfg : Cfg} {os : List Obs} (hclean : (run cfg os).2 = [])
    (h : Lifo cfg os) : Lifo' cfg os :=
  lifoFrom'_of_lifoFrom os 0 _ hclean h

/-- `hrevolveOptimalT_partial` (the `Lifo` case) is a corollary of `hrevolveOptimalT_partial2` -/
theorem hrevolveOptimalT_partial_again :
    ∀ (N c0 c1 v : Nat) (c : Costs) (os : List Obs), 1 ≤ N → 1 ≤ c0 → 0 < c.uf →
      (hoptTable (N - 1) c0 c1 0 c.wd 0 c.rd c.ub c.uf).opt 1 (N - 1) c1 = some v →
      Accepted (cfgHRevolve c0 c1 N) os → Lifo (cfgHRevolve c0 c1 N) os →
      v + N * c.uf ≤ obsCostT c os :=
  fun N c0 c1 v c os hN hc0 huf hv hacc hl =>
    hrevolveOptimalT_partial2 N c0 c1 v c os hN hc0 huf hv hacc (lifo'_of_lifo hacc.1 hl)

/-! ### `Lifo'` is strictly weaker than `Lifo` -/

/-- N = 4, two RAM units: the checkpoint of step 1 is stored on the way back and then DELETED unused
(`Move 1 RAM → NONE`) -/
def exLifo' : List Obs :=
  [⟨.forward 0 3 true false .ram, 3, 0, some 4, false, true⟩,
   ⟨.forward 3 4 false true .work, 4, 0, some 4, false, true⟩,
   ⟨.endForward, 4, 0, some 4, false, true⟩,
   ⟨.reverse 4 3 true, 4, 1, some 4, false, true⟩,
   ⟨.copy 0 .ram .work, 0, 1, some 4, false, true⟩,
   ⟨.forward 0 1 false false .none, 1, 1, some 4, false, true⟩,
   ⟨.forward 1 2 true false .ram, 2, 1, some 4, false, true⟩,
   ⟨.forward 2 3 false true .work, 3, 1, some 4, false, true⟩,
   ⟨.reverse 3 2 true, 3, 2, some 4, false, true⟩,
   ⟨.move 1 .ram .none, 3, 2, some 4, false, true⟩,
   ⟨.copy 0 .ram .work, 0, 2, some 4, false, true⟩,
   ⟨.forward 0 1 false false .none, 1, 2, some 4, false, true⟩,
   ⟨.forward 1 2 false true .work, 2, 2, some 4, false, true⟩,
   ⟨.reverse 2 1 true, 2, 3, some 4, false, true⟩,
   ⟨.move 0 .ram .work, 0, 3, some 4, false, true⟩,
   ⟨.forward 0 1 false true .work, 1, 3, some 4, false, true⟩,
   ⟨.reverse 1 0 true, 1, 4, some 4, false, true⟩,
   ⟨.endReverse, 1, 4, some 4, true, true⟩]

theorem exLifo'_spec : Accepted (cfgHRevolve 2 1 4) exLifo' ∧ Lifo' (cfgHRevolve 2 1 4) exLifo' ∧
    ¬ Lifo (cfgHRevolve 2 1 4) exLifo' := by decide +kernel

end Ckpt.LB7

#print axioms Ckpt.LB7.lifo'_of_lifo
#print axioms Ckpt.LB7.hrevolveOptimalT_partial_again
#print axioms Ckpt.LB7.exLifo'_spec
