import CkptVerif.Model.Ops
import Mathlib.Tactic
/-!
# The Python pipeline (twin) refines to the recursive stream models

Part A (this section): the index-based loop of `convertOps` (look-behind `schedule[i-1]`,
look-ahead `schedule[i+3]`, the precomputed set `_last_reads`) is a left-to-right pass `convL` over
the list in which every operation sees its predecessor, the rest of the list, and its position.
`convL` is compositional: `convL_append`.
-/
namespace Ckpt.Ops

/-! ## `_last_reads`, seen from the position of the read -/

/-- the key `(storage, n_0)` of an operation -/
def opKeyOf (o : Op) : Option Storage × Nat :=
  match convAct o with
  | .ok a => (a.storage, a.n0)
  | .error _ => (none, 0)

def opIsRead (o : Op) : Bool := o.kind.isRead
def opIsWrite (o : Op) : Bool := o.kind.isWrite

/-- no later read of `k` before `k` is next written -/
def lastRd (k : Option Storage × Nat) : List Op → Bool
  | [] => true
  | o :: rest =>
    if opIsRead o ∧ opKeyOf o = k then false
    else if opIsWrite o ∧ opKeyOf o = k then true
    else lastRd k rest

/-- every operation is accepted by `_convert_action` -/
def OpsWf (ops : List Op) : Prop := ∀ o ∈ ops, ∃ a, convAct o = .ok a

theorem convAct_kind (o : Op) (a : CAct) (h : convAct o = .ok a) : a.kind = o.kind := by
  unfold convAct at h
  cases hk : o.kind <;> simp only [hk] at h <;>
    (try split_ifs at h) <;> (try cases h) <;> rfl

theorem opKeyOf_eq (o : Op) (a : CAct) (h : convAct o = .ok a) : opKeyOf o = (a.storage, a.n0) := by
  unfold opKeyOf; rw [h]

theorem not_write_of_read (o : Op) (h : opIsRead o = true) : opIsWrite o = false := by
  unfold opIsRead at h; unfold opIsWrite
  cases hk : o.kind <;> simp [hk, OpKind.isRead, OpKind.isWrite] at h ⊢

theorem lastRd_cons_read (o : Op) (rest : List Op) (k : Option Storage × Nat)
    (hr : opIsRead o = true) :
    lastRd k (o :: rest) = false ↔ (opKeyOf o = k ∨ lastRd k rest = false) := by
  rw [lastRd]
  by_cases hk : opKeyOf o = k
  · simp [hr, hk]
  · simp [hk]

theorem lastRd_cons_write (o : Op) (rest : List Op) (k : Option Storage × Nat)
    (hw : opIsWrite o = true) :
    lastRd k (o :: rest) = false ↔ (opKeyOf o ≠ k ∧ lastRd k rest = false) := by
  have hr : opIsRead o = false := by
    by_contra h
    have := not_write_of_read o (by simpa using h)
    rw [hw] at this; cases this
  rw [lastRd]
  by_cases hk : opKeyOf o = k
  · simp [hr, hw, hk]
  · simp [hk]

theorem lastRd_cons_other (o : Op) (rest : List Op) (k : Option Storage × Nat)
    (hr : opIsRead o = false) (hw : opIsWrite o = false) :
    lastRd k (o :: rest) = lastRd k rest := by
  rw [lastRd]; simp [hr, hw]

theorem mem_addIfAbsent {α : Type} [BEq α] [LawfulBEq α] (x k : α) (l : List α) :
    k ∈ (if l.contains x then l else x :: l) ↔ k = x ∨ k ∈ l := by
  by_cases hc : l.contains x = true
  · rw [if_pos hc]
    have : x ∈ l := by simpa using hc
    constructor
    · intro h; exact Or.inr h
    · rintro (rfl | h)
      · exact this
      · exact h
  · rw [if_neg hc]; simp

/-- the state of the `_last_reads` loop when it is about to process index `i - 1` -/
theorem lastReadsLoop_spec (ops : List Op) (hwf : OpsWf ops) :
    ∀ (i : Nat) (LR : List Nat) (RL : List (Option Storage × Nat)), i ≤ ops.length →
      (∀ k, k ∈ RL ↔ lastRd k (ops.drop i) = false) →
      (∀ j, j ∈ LR ↔ i ≤ j ∧ ∃ o, ops[j]? = some o ∧ opIsRead o = true ∧
        lastRd (opKeyOf o) (ops.drop (j + 1)) = true) →
      ∃ LR' RL', lastReadsLoop ops.toArray i (LR, RL) = .ok (LR', RL') ∧
        ∀ j, j ∈ LR' ↔ ∃ o, ops[j]? = some o ∧ opIsRead o = true ∧
          lastRd (opKeyOf o) (ops.drop (j + 1)) = true := by
  intro i
  induction i with
  | zero =>
    intro LR RL _ _ hLR
    refine ⟨LR, RL, rfl, fun j => ?_⟩
    rw [hLR j]; simp
  | succ i ih =>
    intro LR RL hi hRL hLR
    have hlt : i < ops.length := by omega
    have hget : ops.toArray.getD i default = ops[i] := by simp [Array.getD, hlt]
    obtain ⟨a, ha⟩ := hwf ops[i] (List.getElem_mem hlt)
    have hdrop : ops.drop i = ops[i] :: ops.drop (i + 1) := List.drop_eq_getElem_cons hlt
    have hkind := convAct_kind _ _ ha
    have hkey := opKeyOf_eq _ _ ha
    -- the positions `≥ i` already collected, when `i` itself is not collected
    have hLRskip : ¬ (opIsRead ops[i] = true ∧ lastRd (opKeyOf ops[i]) (ops.drop (i + 1)) = true) →
        ∀ j, j ∈ LR ↔ i ≤ j ∧ ∃ o, ops[j]? = some o ∧ opIsRead o = true ∧
          lastRd (opKeyOf o) (ops.drop (j + 1)) = true := by
      intro hnot j
      rw [hLR j]
      constructor
      · rintro ⟨h1, h2⟩; exact ⟨by omega, h2⟩
      · rintro ⟨h1, o, ho, hro, hlo⟩
        refine ⟨?_, o, ho, hro, hlo⟩
        by_contra hne
        have hji : j = i := by omega
        subst hji
        rw [List.getElem?_eq_getElem hlt] at ho
        cases ho
        exact hnot ⟨hro, hlo⟩
    rw [lastReadsLoop, hget, ha]
    dsimp only
    by_cases hr : a.kind.isRead = true
    · rw [if_pos hr]
      have hrd : opIsRead ops[i] = true := by unfold opIsRead; rw [← hkind]; exact hr
      rw [← hkey]
      apply ih _ _ (by omega)
      · intro k
        rw [hdrop, lastRd_cons_read _ _ _ hrd, mem_addIfAbsent, hRL k]
        constructor
        · rintro (h | h)
          · exact Or.inl h.symm
          · exact Or.inr h
        · rintro (h | h)
          · exact Or.inl h.symm
          · exact Or.inr h
      · intro j
        have hmem : (RL.contains (opKeyOf ops[i]) = true) ↔
            lastRd (opKeyOf ops[i]) (ops.drop (i + 1)) = false := by
          rw [← hRL]; simp
        by_cases hc : RL.contains (opKeyOf ops[i]) = true
        · rw [if_pos hc]
          apply hLRskip
          rintro ⟨_, h⟩
          rw [hmem.1 hc] at h; cases h
        · rw [if_neg hc]
          have ht : lastRd (opKeyOf ops[i]) (ops.drop (i + 1)) = true := by
            by_contra hh
            exact hc (hmem.2 (by simpa using hh))
          simp only [List.mem_cons]
          rw [hLR j]
          constructor
          · rintro (h | ⟨h1, h2⟩)
            · subst h
              exact ⟨le_refl _, ops[j], List.getElem?_eq_getElem hlt, hrd, ht⟩
            · exact ⟨by omega, h2⟩
          · rintro ⟨h1, h2⟩
            by_cases hji : j = i
            · exact Or.inl hji
            · exact Or.inr ⟨by omega, h2⟩
    · rw [if_neg hr]
      have hrd : opIsRead ops[i] = false := by
        unfold opIsRead; rw [← hkind]; simpa using hr
      have hLR' := hLRskip (by rw [hrd]; simp)
      by_cases hw : a.kind.isWrite = true
      · rw [if_pos hw]
        have hwr : opIsWrite ops[i] = true := by unfold opIsWrite; rw [← hkind]; exact hw
        rw [← hkey]
        apply ih _ _ (by omega) _ hLR'
        intro k
        rw [hdrop, lastRd_cons_write _ _ _ hwr, ← hRL k]
        simp only [List.mem_filter, ne_eq, decide_not, Bool.not_eq_eq_eq_not, Bool.not_true,
          decide_eq_false_iff_not]
        constructor
        · rintro ⟨h1, h2⟩; exact ⟨fun h => h2 h.symm, h1⟩
        · rintro ⟨h1, h2⟩; exact ⟨h2, fun h => h1 h.symm⟩
      · rw [if_neg hw]
        have hwr : opIsWrite ops[i] = false := by
          unfold opIsWrite; rw [← hkind]; simpa using hw
        apply ih _ _ (by omega) _ hLR'
        intro k
        rw [hdrop, lastRd_cons_other _ _ _ hrd hwr]
        exact hRL k

/-! ## the left-to-right pass -/

/-- `i in last_reads` for the operation `cur` followed by `rest` -/
def isLastAt (cur : Op) (rest : List Op) : Bool := lastRd (opKeyOf cur) rest

/-- The conversion as a pass over `xs` followed by `tail` (which is only looked at, not
converted); `pos`: the index of the head of `xs` in the whole schedule, `prev`: the operation before
it, `wrap`: the last operation of the whole schedule (what `schedule[-1]` sees at `i = 0`). -/
def convL (N : Nat) (wrap : Option Op) :
    (pos : Nat) → (prev : Option Op) → (xs tail : List Op) → ConvSt → Except Err ConvSt
  | _, _, [], _, s => .ok s
  | pos, prev, cur :: rest, tail, s =>
    match convBody N (if pos = 0 then wrap else prev) cur ((rest ++ tail)[2]?)
        (isLastAt cur (rest ++ tail)) (decide (pos < 2)) s with
    | .error e => .error (convErr s e)
    | .ok s' => convL N wrap (pos + 1) (some cur) rest tail s'

/-- the pass is compositional -/
theorem convL_append (N : Nat) (wrap : Option Op) (xs ys tail : List Op) :
    ∀ (pos : Nat) (prev : Option Op) (s : ConvSt),
      convL N wrap pos prev (xs ++ ys) tail s =
        match convL N wrap pos prev xs (ys ++ tail) s with
        | .error e => .error e
        | .ok s' => convL N wrap (pos + xs.length) (if xs = [] then prev else xs.getLast?) ys tail s' := by
  induction xs with
  | nil => intro pos prev s; simp [convL]
  | cons x xs ih =>
    intro pos prev s
    rw [List.cons_append, convL, convL, List.append_assoc]
    cases hb : convBody N (if pos = 0 then wrap else prev) x ((xs ++ (ys ++ tail))[2]?)
        (isLastAt x (xs ++ (ys ++ tail))) (decide (pos < 2)) s with
    | error e => rfl
    | ok s' =>
      dsimp only
      rw [ih (pos + 1) (some x) s']
      have e1 : pos + 1 + xs.length = pos + (x :: xs).length := by simp; omega
      have e2 : (if xs = [] then some x else xs.getLast?) =
          (if x :: xs = [] then prev else (x :: xs).getLast?) := by
        cases xs with
        | nil => simp
        | cons y ys => simp [List.getLast?_cons_cons]
      rw [e1, e2]

theorem convBody_isLast_congr (N : Nat) (p : Option Op) (cur : Op) (ah : Option Op)
    (b1 b2 e : Bool) (s : ConvSt) (h : opIsRead cur = true → b1 = b2) :
    convBody N p cur ah b1 e s = convBody N p cur ah b2 e s := by
  by_cases hr : opIsRead cur = true
  · rw [h hr]
  · unfold convBody
    cases hc : convAct cur with
    | error e => rfl
    | ok a =>
      have hk := convAct_kind _ _ hc
      dsimp only
      unfold opIsRead at hr
      rw [← hk] at hr
      cases hkk : a.kind <;> simp only [hkk, OpKind.isRead] at hr ⊢ <;>
        first | rfl | exact absurd trivial hr

theorem pyGetPrev_toArray (ops : List Op) (i : Nat) :
    pyGetPrev ops.toArray i = if i = 0 then ops.getLast? else ops[i - 1]? := by
  unfold pyGetPrev
  by_cases h0 : i = 0
  · rw [if_pos h0, if_pos h0]
    by_cases hs : ops.toArray.size = 0
    · rw [if_pos hs]
      have : ops = [] := by simpa using hs
      subst this; rfl
    · rw [if_neg hs, List.getLast?_eq_getElem?]
      simp
  · rw [if_neg h0, if_neg h0]; simp

/-- the index loop is the left-to-right pass -/
theorem convLoop_eq_convL (N : Nat) (ops : List Op) (lastR : List Nat)
    (hlast : ∀ j, j ∈ lastR ↔ ∃ o, ops[j]? = some o ∧ opIsRead o = true ∧
      lastRd (opKeyOf o) (ops.drop (j + 1)) = true) :
    ∀ (fuel i : Nat) (s : ConvSt), i + fuel = ops.length →
      convLoop N ops.toArray lastR fuel i s =
        convL N ops.getLast? i (if i = 0 then none else ops[i - 1]?) (ops.drop i) [] s := by
  intro fuel
  induction fuel with
  | zero =>
    intro i s hi
    have : ops.drop i = [] := by rw [List.drop_eq_nil_iff]; omega
    rw [this]; rfl
  | succ fuel ih =>
    intro i s hi
    have hlt : i < ops.length := by omega
    have hdrop : ops.drop i = ops[i] :: ops.drop (i + 1) := List.drop_eq_getElem_cons hlt
    have hget : ops.toArray.getD i default = ops[i] := by simp [Array.getD, hlt]
    rw [hdrop, convLoop, convL, convStep, pyGetPrev_toArray, hget, List.append_nil]
    have hah : ops.toArray[i + 3]? = (ops.drop (i + 1))[2]? := by
      rw [List.getElem?_drop]; simp
    have hprev : (if i = 0 then ops.getLast? else if i = 0 then none else ops[i - 1]?) =
        (if i = 0 then ops.getLast? else ops[i - 1]?) := by
      by_cases h0 : i = 0 <;> simp [h0]
    rw [hah, hprev]
    rw [convBody_isLast_congr N _ ops[i] _ (lastR.contains i) (isLastAt ops[i] (ops.drop (i + 1)))]
    · cases hb : convBody N (if i = 0 then ops.getLast? else ops[i - 1]?) ops[i]
          ((ops.drop (i + 1))[2]?) (isLastAt ops[i] (ops.drop (i + 1))) (decide (i < 2)) s with
      | error e => rfl
      | ok s' =>
        dsimp only
        rw [ih (i + 1) s' (by omega)]
        have : (if i + 1 = 0 then none else ops[i + 1 - 1]?) = some ops[i] := by
          simp [List.getElem?_eq_getElem hlt]
        rw [this]
    · intro hr
      unfold isLastAt
      cases hl : lastRd (opKeyOf ops[i]) (ops.drop (i + 1)) with
      | true =>
        have : i ∈ lastR := (hlast i).2 ⟨ops[i], List.getElem?_eq_getElem hlt, hr, hl⟩
        simpa using this
      | false =>
        have : i ∉ lastR := by
          intro hm
          obtain ⟨o, ho, _, hlo⟩ := (hlast i).1 hm
          rw [List.getElem?_eq_getElem hlt] at ho
          cases ho
          rw [hl] at hlo; cases hlo
        simpa using this

/-- **Part A**: `convertOps` is the left-to-right pass followed by the final check -/
theorem convertOps_eq (N : Nat) (ops : List Op) (hwf : OpsWf ops) :
    convertOps N ops =
      match convL N ops.getLast? 0 none ops [] ConvSt.init with
      | .error e => .error e
      | .ok s =>
        if s.snapshots.length > 0 then
          .error (convErr s "RuntimeError: Unexpected snapshot number.")
        else .ok ((s.yield .endReverse).out) := by
  obtain ⟨LR, RL, hloop, hLR⟩ := lastReadsLoop_spec ops hwf ops.length [] [] (le_refl _)
    (by intro k; simp [lastRd])
    (by
      intro j
      constructor
      · intro h; cases h
      · rintro ⟨h1, o, ho, _⟩
        rw [List.getElem?_eq_none (by omega)] at ho
        cases ho)
  have hlr : lastReads ops.toArray = .ok LR := by
    unfold lastReads
    have : ops.toArray.size = ops.length := by simp
    rw [this, hloop]; rfl
  unfold convertOps
  dsimp only
  rw [hlr]
  dsimp only
  have hsz : ops.toArray.size = ops.length := by simp
  rw [hsz, convLoop_eq_convL N ops LR hLR ops.length 0 ConvSt.init (by omega)]
  simp only [if_true, List.drop_zero]
  rfl

/-! ## one iteration, per kind of operation -/

/-- one iteration succeeds from every state with the given `_n`, `_r`, snapshots -/
def Step1 (N : Nat) (prev : Option Op) (cur : Op) (ahead : Option Op) (isLast early : Bool)
    (n r : Nat) (S : List (Option Storage × Nat)) (evs : List Ev) (n' r' : Nat)
    (S' : List (Option Storage × Nat)) : Prop :=
  ∀ s : ConvSt, s.n = n → s.r = r → s.snapshots = S →
    ∃ s', convBody N prev cur ahead isLast early s = .ok s' ∧ s'.out = s.out ++ evs ∧ s'.n = n' ∧
      s'.r = r' ∧ s'.snapshots = S'

theorem convAct_fwd (a b : Nat) (h : a < b) : convAct (Op.fwd a b) = .ok ⟨.forward, a, some b, none⟩ := by
  unfold convAct Op.fwd; simp; omega

theorem convAct_bwd (a b : Nat) (h : b < a) : convAct (Op.bwd a b) = .ok ⟨.backward, a, some b, none⟩ := by
  unfold convAct Op.bwd; simp; omega

/-- `Write_Forward*` followed (three operations later) by the matching `Discard_Forward*` -/
theorem step_wf (N : Nat) (prev : Option Op) (cur nxt : Op) (il e : Bool) (n r : Nat)
    (S : List (Option Storage × Nat))
    (hk : (cur.kind = .writeForwardMemory ∧ nxt.kind = .discardForwardMemory) ∨
      (cur.kind = .writeForward ∧ nxt.kind = .discardForward))
    (ha : cur.a = n + 1) (hn : nxt.a = n + 1) :
    Step1 N prev cur (some nxt) il e n r S [] n r S := by
  intro s hsn hsr hsS
  rcases hk with ⟨h1, h2⟩ | ⟨h1, h2⟩
  · refine ⟨{ s with wStorage := some .work }, ?_, by simp, hsn, hsr, hsS⟩
    unfold convBody convAct
    simp [h1, h2, ha, hn, hsn]
  · refine ⟨{ s with wStorage := some .work }, ?_, by simp, hsn, hsr, hsS⟩
    unfold convBody convAct
    simp [h1, h2, ha, hn, hsn]

/-- `Backward [lo+1, lo]` -/
theorem step_bwd (N : Nat) (prev ah : Option Op) (il e : Bool) (lo r : Nat)
    (S : List (Option Storage × Nat)) (h : lo + 1 = N - r) :
    Step1 N prev (Op.bwd (lo + 1) lo) ah il e (lo + 1) r S
      [⟨.reverse (lo + 1) lo true, lo + 1, r + 1⟩] (lo + 1) (r + 1) S := by
  intro s hsn hsr hsS
  refine ⟨({ s with r := s.r + 1 } : ConvSt).yield (.reverse (lo + 1) lo true), ?_, ?_, hsn, ?_, hsS⟩
  · unfold convBody
    rw [convAct_bwd _ _ (by omega)]
    simp [hsn, hsr, h]
  · simp [ConvSt.yield, hsn, hsr]
  · simp [ConvSt.yield, hsr]

/-- `Discard_Forward*`, `Discard*` (not among the first two operations), `Write*`: checks only -/
theorem step_noop (N : Nat) (prev ah : Option Op) (cur : Op) (il e : Bool) (n r : Nat)
    (S : List (Option Storage × Nat)) (a : CAct) (hc : convAct cur = .ok a)
    (hk : ((a.kind = .discardForward ∨ a.kind = .discardForwardMemory) ∧ a.n0 = n) ∨
      ((a.kind = .discard ∨ a.kind = .discardMemory) ∧ e = false) ∨
      (a.kind.isWrite = true ∧ a.n0 = n)) :
    Step1 N prev cur ah il e n r S [] n r S := by
  intro s hsn hsr hsS
  refine ⟨s, ?_, by simp, hsn, hsr, hsS⟩
  unfold convBody
  rw [hc]
  rcases hk with ⟨h1 | h1, h2⟩ | ⟨h1 | h1, h2⟩ | ⟨h1, h2⟩
  · simp [h1, h2, hsn]
  · simp [h1, h2, hsn]
  · simp [h1, h2]
  · simp [h1, h2]
  · cases hk : a.kind <;> simp [hk, OpKind.isWrite] at h1 <;> simp [hk, h2, hsn]

def fwdEvs (N lo hi r : Nat) (wi wa : Bool) (st : Storage) : List Ev :=
  [⟨.forward lo hi wi wa st, hi, r⟩] ++ (if hi = N then [⟨.endForward, hi, r⟩] else [])

/-- the end of the `Forward` branch: `yield Forward(…)`, then `EndForward` if `_n == max_n` -/
theorem finish_spec (N : Nat) (s0 : ConvSt) (act : Action) (h : s0.n = N → s0.r = 0) :
    ∃ s', (if (s0.yield act).n = N then
        if (s0.yield act).r ≠ 0 then Except.error "InvalidReverseStep"
        else Except.ok ((s0.yield act).yield .endForward)
      else Except.ok (s0.yield act)) = Except.ok s' ∧
      s'.out = s0.out ++ ([⟨act, s0.n, s0.r⟩] ++ if s0.n = N then [⟨.endForward, s0.n, s0.r⟩] else []) ∧
      s'.n = s0.n ∧ s'.r = s0.r ∧ s'.snapshots = s0.snapshots := by
  by_cases hN : s0.n = N
  · have hr := h hN
    refine ⟨(s0.yield act).yield .endForward, ?_, ?_, rfl, rfl, rfl⟩
    · have h1 : (s0.yield act).n = N := hN
      have h2 : ¬ (s0.yield act).r ≠ 0 := by simpa [ConvSt.yield] using hr
      rw [if_pos h1, if_neg h2]
    · simp [ConvSt.yield, hN]
  · refine ⟨s0.yield act, ?_, ?_, rfl, rfl, rfl⟩
    · have h1 : ¬ (s0.yield act).n = N := hN
      rw [if_neg h1]
    · simp [ConvSt.yield, hN]

/-- `Forward` right after the `Write_Forward*` of its end point: the turn-around step -/
theorem step_fwd_turn (N : Nat) (p : Op) (ah : Option Op) (il e : Bool) (lo r : Nat)
    (S : List (Option Storage × Nat)) (w : CAct) (hp : convAct p = .ok w)
    (hk : w.kind = .writeForward ∨ w.kind = .writeForwardMemory) (hn : w.n0 = lo + 1)
    (hst : w.storage = some .work) (hr : lo + 1 = N → r = 0) :
    Step1 N (some p) (Op.fwd lo (lo + 1)) ah il e lo r S (fwdEvs N lo (lo + 1) r false true .work)
      (lo + 1) r S := by
  intro s hsn hsr hsS
  have hnw : w.kind.isWrite = false := by rcases hk with hk | hk <;> rw [hk] <;> rfl
  obtain ⟨s', h1, h2, h3, h4, h5⟩ := finish_spec N
    { s with n := lo + 1, wN0 := some w.n0, wStorage := w.storage, writeIcs := false, adjDeps := true }
    (.forward lo (lo + 1) false true .work) (by intro h; show s.r = 0; rw [hsr]; exact hr h)
  refine ⟨s', ?_, ?_, h3, ?_, ?_⟩
  · unfold convBody
    rw [convAct_fwd _ _ (by omega)]
    dsimp only
    rw [if_neg (by simp [hsn]), hp]
    dsimp only
    simpa [hnw, hk, hn, hst] using h1
  · rw [h2]; simp [fwdEvs, hsr]
  · rw [h4]; exact hsr
  · rw [h5]; exact hsS

/-- `Forward` right after the `Write*` of its start point: the checkpoint is written -/
theorem step_fwd_write (N : Nat) (p : Op) (ah : Option Op) (il e : Bool) (lo hi r : Nat)
    (S : List (Option Storage × Nat)) (w : CAct) (st : Storage) (hp : convAct p = .ok w)
    (hk : w.kind.isWrite = true) (hn : w.n0 = lo) (hst : w.storage = some st) (hlt : lo < hi)
    (hr : hi = N → r = 0) (hS : (some st, lo) ∉ S) :
    Step1 N (some p) (Op.fwd lo hi) ah il e lo r S (fwdEvs N lo hi r true false st)
      hi r ((some st, lo) :: S) := by
  intro s hsn hsr hsS
  obtain ⟨s', h1, h2, h3, h4, h5⟩ := finish_spec N
    { s with n := hi, wN0 := some w.n0, wStorage := w.storage, writeIcs := true, adjDeps := false,
             snapshots := (some st, lo) :: s.snapshots }
    (.forward lo hi true false st) (by intro h; show s.r = 0; rw [hsr]; exact hr h)
  refine ⟨s', ?_, ?_, h3, ?_, ?_⟩
  · unfold convBody
    rw [convAct_fwd _ _ hlt]
    dsimp only
    rw [if_neg (by simp [hsn]), hp]
    dsimp only
    have hm : (some st, lo) ∉ s.snapshots := by rw [hsS]; exact hS
    simpa [hk, hn, hst, hm] using h1
  · rw [h2]; simp [fwdEvs, hsr]
  · rw [h4]; exact hsr
  · rw [h5]; show (some st, lo) :: s.snapshots = _; rw [hsS]

/-- `Forward` after anything else (here: after a `Read*`): plain advance -/
theorem step_fwd_plain (N : Nat) (p : Op) (ah : Option Op) (il e : Bool) (lo hi r : Nat)
    (S : List (Option Storage × Nat)) (w : CAct) (hp : convAct p = .ok w)
    (hk : w.kind.isRead = true) (hlt : lo < hi) (hr : hi = N → r = 0) :
    Step1 N (some p) (Op.fwd lo hi) ah il e lo r S (fwdEvs N lo hi r false false .work) hi r S := by
  intro s hsn hsr hsS
  obtain ⟨s', h1, h2, h3, h4, h5⟩ := finish_spec N
    { s with n := hi, wN0 := some w.n0, wStorage := some .work, writeIcs := false, adjDeps := false }
    (.forward lo hi false false .work) (by intro h; show s.r = 0; rw [hsr]; exact hr h)
  refine ⟨s', ?_, ?_, h3, ?_, ?_⟩
  · unfold convBody
    rw [convAct_fwd _ _ hlt]
    dsimp only
    rw [if_neg (by simp [hsn]), hp]
    dsimp only
    have h1' : w.kind.isWrite = false := by
      cases hkk : w.kind <;> simp [hkk, OpKind.isRead] at hk <;> rfl
    have h2' : ¬ (w.kind = .writeForward ∨ w.kind = .writeForwardMemory) := by
      cases hkk : w.kind <;> simp [hkk, OpKind.isRead] at hk <;> simp
    simpa [h1', h2'] using h1
  · rw [h2]; simp [fwdEvs, hsr]
  · rw [h4]; exact hsr
  · rw [h5]; exact hsS

/-- a `Read*` which is the last use of its checkpoint: `Move` -/
theorem step_read_last (N : Nat) (prev ah : Option Op) (cur : Op) (e : Bool) (n r : Nat)
    (S : List (Option Storage × Nat)) (a : CAct) (st : Storage) (hc : convAct cur = .ok a)
    (hk : a.kind.isRead = true) (hst : a.storage = some st) (hS : (some st, a.n0) ∉ S) :
    Step1 N prev cur ah true e n r ((some st, a.n0) :: S) [⟨.move a.n0 st .work, a.n0, r⟩]
      a.n0 r S := by
  intro s hsn hsr hsS
  have hf : List.filter (fun x => !decide (x = (some st, a.n0))) S = S := by
    rw [List.filter_eq_self]
    intro x hx
    simp only [Bool.not_eq_eq_eq_not, Bool.not_true, decide_eq_false_iff_not]
    intro h; subst h; exact hS hx
  refine ⟨({ s with n := a.n0, snapshots := S } : ConvSt).yield (.move a.n0 st .work), ?_, ?_, rfl, ?_, rfl⟩
  · unfold convBody
    rw [hc]
    cases hkk : a.kind <;> simp [hkk, OpKind.isRead] at hk <;>
      simp [hkk, hst, hsS, hf]
  · simp [ConvSt.yield, hsr]
  · simp [ConvSt.yield, hsr]

/-- a `Read*` whose checkpoint is read again later: `Copy` -/
theorem step_read_copy (N : Nat) (prev ah : Option Op) (cur : Op) (e : Bool) (n r : Nat)
    (S : List (Option Storage × Nat)) (a : CAct) (st : Storage) (hc : convAct cur = .ok a)
    (hk : a.kind.isRead = true) (hst : a.storage = some st) :
    Step1 N prev cur ah false e n r S [⟨.copy a.n0 st .work, a.n0, r⟩] a.n0 r S := by
  intro s hsn hsr hsS
  refine ⟨({ s with n := a.n0 } : ConvSt).yield (.copy a.n0 st .work), ?_, ?_, rfl, ?_, ?_⟩
  · unfold convBody
    rw [hc]
    cases hkk : a.kind <;> simp [hkk, OpKind.isRead] at hk <;> simp [hkk, hst]
  · simp [ConvSt.yield, hsr]
  · simp [ConvSt.yield, hsr]
  · simp [ConvSt.yield, hsS]

/-! ## blocks -/

/-- the pass over `xs` succeeds from every state with the given `_n`, `_r`, snapshots; it yields
`evs` and ends with the given `_n`, `_r`, snapshots -/
def Conv (N : Nat) (wrap : Option Op) (pos : Nat) (prev : Option Op) (xs tail : List Op)
    (n r : Nat) (S : List (Option Storage × Nat)) (evs : List Ev) (n' r' : Nat)
    (S' : List (Option Storage × Nat)) : Prop :=
  ∀ s : ConvSt, s.n = n → s.r = r → s.snapshots = S →
    ∃ s', convL N wrap pos prev xs tail s = .ok s' ∧ s'.out = s.out ++ evs ∧ s'.n = n' ∧
      s'.r = r' ∧ s'.snapshots = S'

theorem Conv.nil (N : Nat) (wrap : Option Op) (pos : Nat) (prev : Option Op) (tail : List Op)
    (n r : Nat) (S : List (Option Storage × Nat)) : Conv N wrap pos prev [] tail n r S [] n r S := by
  intro s h1 h2 h3
  exact ⟨s, rfl, by simp, h1, h2, h3⟩

theorem Conv.cons {N : Nat} {wrap : Option Op} {pos : Nat} {prev : Option Op} {cur : Op}
    {rest tail : List Op} {n r n1 r1 n2 r2 : Nat} {S S1 S2 : List (Option Storage × Nat)}
    {e1 e2 : List Ev}
    (h1 : Step1 N (if pos = 0 then wrap else prev) cur ((rest ++ tail)[2]?)
      (isLastAt cur (rest ++ tail)) (decide (pos < 2)) n r S e1 n1 r1 S1)
    (h2 : Conv N wrap (pos + 1) (some cur) rest tail n1 r1 S1 e2 n2 r2 S2) :
    Conv N wrap pos prev (cur :: rest) tail n r S (e1 ++ e2) n2 r2 S2 := by
  intro s hn hr hS
  obtain ⟨s1, a1, a2, a3, a4, a5⟩ := h1 s hn hr hS
  obtain ⟨s2, b1, b2, b3, b4, b5⟩ := h2 s1 a3 a4 a5
  refine ⟨s2, ?_, ?_, b3, b4, b5⟩
  · rw [convL, a1]; exact b1
  · rw [b2, a2, List.append_assoc]

theorem Conv.append {N : Nat} {wrap : Option Op} {pos : Nat} {prev : Option Op}
    {xs ys tail : List Op} {n r n1 r1 n2 r2 : Nat} {S S1 S2 : List (Option Storage × Nat)}
    {e1 e2 : List Ev} (hne : xs ≠ [])
    (h1 : Conv N wrap pos prev xs (ys ++ tail) n r S e1 n1 r1 S1)
    (h2 : Conv N wrap (pos + xs.length) xs.getLast? ys tail n1 r1 S1 e2 n2 r2 S2) :
    Conv N wrap pos prev (xs ++ ys) tail n r S (e1 ++ e2) n2 r2 S2 := by
  intro s hn hr hS
  obtain ⟨s1, a1, a2, a3, a4, a5⟩ := h1 s hn hr hS
  obtain ⟨s2, b1, b2, b3, b4, b5⟩ := h2 s1 a3 a4 a5
  refine ⟨s2, ?_, ?_, b3, b4, b5⟩
  · rw [convL_append, a1]
    dsimp only
    rw [if_neg hne]; exact b1
  · rw [b2, a2, List.append_assoc]

theorem convAct_wfm (n : Nat) : convAct (Op.wfm n) = .ok ⟨.writeForwardMemory, n, none, some .work⟩ := rfl
theorem convAct_dfm (n : Nat) : convAct (Op.dfm n) = .ok ⟨.discardForwardMemory, n, none, some .work⟩ := rfl
theorem convAct_wm (n : Nat) : convAct (Op.wm n) = .ok ⟨.writeMemory, n, none, some .ram⟩ := rfl
theorem convAct_rm (n : Nat) : convAct (Op.rm n) = .ok ⟨.readMemory, n, none, some .ram⟩ := rfl
theorem convAct_dm (n : Nat) : convAct (Op.dm n) = .ok ⟨.discardMemory, n, none, some .ram⟩ := rfl
theorem convAct_wd (n : Nat) : convAct (Op.wd n) = .ok ⟨.writeDisk, n, none, some .disk⟩ := rfl
theorem convAct_rd (n : Nat) : convAct (Op.rd n) = .ok ⟨.readDisk, n, none, some .disk⟩ := rfl

/-- the events of one turn-around step -/
def turnEvs (N lo : Nat) : List Ev :=
  fwdEvs N lo (lo + 1) (N - (lo + 1)) false true .work ++
    [⟨.reverse (lo + 1) lo true, lo + 1, N - (lo + 1) + 1⟩]

/-- `Write_Forward_memory lo+1; Forward [lo, lo+1]; Backward [lo+1, lo];
Discard_Forward_memory lo+1` -/
def turnOps (lo : Nat) : List Op :=
  [Op.wfm (lo + 1), Op.fwd lo (lo + 1), Op.bwd (lo + 1) lo, Op.dfm (lo + 1)]

theorem Conv.evs {N : Nat} {wrap : Option Op} {pos : Nat} {prev : Option Op}
    {xs tail : List Op} {n r n' r' : Nat} {S S' : List (Option Storage × Nat)} {evs evs' : List Ev}
    (h : Conv N wrap pos prev xs tail n r S evs' n' r' S') (he : evs = evs') :
    Conv N wrap pos prev xs tail n r S evs n' r' S' := he ▸ h

theorem turn_block (N : Nat) (wrap : Option Op) (pos : Nat) (prev : Option Op) (tail : List Op)
    (lo : Nat) (S : List (Option Storage × Nat)) (hlo : lo + 1 ≤ N) :
    Conv N wrap pos prev (turnOps lo) tail lo (N - (lo + 1)) S (turnEvs N lo) (lo + 1) (N - lo) S := by
  have e : N - lo = N - (lo + 1) + 1 := by omega
  rw [e]
  unfold turnOps
  refine Conv.evs (evs' := [] ++ (fwdEvs N lo (lo + 1) (N - (lo + 1)) false true .work ++
    ([⟨.reverse (lo + 1) lo true, lo + 1, N - (lo + 1) + 1⟩] ++ ([] ++ [])))) ?_ (by simp [turnEvs])
  refine Conv.cons (step_wf N _ _ (Op.dfm (lo + 1)) _ _ lo _ S (Or.inl ⟨rfl, rfl⟩) rfl rfl) ?_
  refine Conv.cons (n1 := lo + 1) (r1 := N - (lo + 1)) (S1 := S) ?_ ?_
  · rw [if_neg (by omega)]
    exact step_fwd_turn N _ _ _ _ lo _ S _ (convAct_wfm _) (Or.inr rfl) rfl rfl (by omega)
  refine Conv.cons (step_bwd N _ _ _ _ lo _ S (by omega)) ?_
  refine Conv.cons (step_noop N _ _ _ _ _ (lo + 1) _ S _ (convAct_dfm _)
    (Or.inl ⟨Or.inr rfl, rfl⟩)) ?_
  exact Conv.nil _ _ _ _ _ _ _ _

end Ckpt.Ops
