import CkptVerif.Model.Revolve
import CkptVerif.Proofs.Argmin
import Mathlib.Tactic
/-!
# The memory-only cost table `opt0Table` satisfies its recurrence

`opt[m][0] = ub`, `opt[m][1] = uf + 2 ub` (`m ≥ 1`), `opt[1][l] = (l+1) ub + l(l+1)/2 uf`, and for
`m, l ≥ 2`: `opt[m][l] = min_{1 ≤ j ≤ l-1} (j uf + opt[m-1][l-j] + opt[m][j-1])`.
-/
namespace Ckpt

/-- Invariant of a fold that pushes `f row l` for `l = s, s+1, …, s+n-1` onto an array of size `s`:
earlier entries are never changed, and entry `i` is `f` of a row that agrees with the final one
below `i`. -/
theorem pushFold_spec {α : Type} (f : Array α → Nat → α) :
    ∀ (n s : Nat) (init : Array α), init.size = s →
      ((List.range' s n).foldl (fun row l => row.push (f row l)) init).size = s + n ∧
      (∀ i, i < s → ((List.range' s n).foldl (fun row l => row.push (f row l)) init)[i]? = init[i]?) ∧
      ∀ i, s ≤ i → i < s + n → ∃ row : Array α, row.size = i ∧
        (∀ j, j < i → row[j]? = ((List.range' s n).foldl (fun row l => row.push (f row l)) init)[j]?) ∧
        ((List.range' s n).foldl (fun row l => row.push (f row l)) init)[i]? = some (f row i) := by
  intro n
  induction n with
  | zero =>
    intro s init hs
    refine ⟨by simpa using hs, fun _ _ => rfl, fun i h1 h2 => by omega⟩
  | succ n ih =>
    intro s init hs
    rw [List.range'_succ, List.foldl_cons]
    obtain ⟨h1, h2, h3⟩ := ih (s + 1) (init.push (f init s)) (by simp [hs])
    refine ⟨by omega, ?_, ?_⟩
    · intro i hi
      rw [h2 i (by omega), Array.getElem?_push, if_neg (by omega)]
    · intro i hi1 hi2
      rcases Nat.eq_or_lt_of_le hi1 with rfl | hlt
      · refine ⟨init, hs, ?_, ?_⟩
        · intro j hj
          rw [h2 j (by omega), Array.getElem?_push, if_neg (by omega)]
        · rw [h2 s (by omega), ← hs, Array.getElem?_push_size]
      · exact h3 i hlt (by omega)

/-! ## rows -/

/-- the candidates of the recurrence for `opt[m][l]`, reading row `m-1` from `prev` and row `m` from `row` -/
def opt0Cands (uf : Nat) (prev row : Array Nat) (l : Nat) : List Nat :=
  (List.range' 1 (l - 1)).map (fun j => j * uf + prev.getD (l - j) 0 + row.getD (j - 1) 0)

theorem opt0Row_eq (uf ub lmax : Nat) (prev : Array Nat) :
    opt0Row uf ub lmax prev = (List.range' 2 (lmax - 1)).foldl (fun row l =>
      row.push ((opt0Cands uf prev row l).foldl min ((opt0Cands uf prev row l).headD 0))) #[ub, uf + 2 * ub] := rfl

theorem opt0Cands_congr (uf : Nat) (prev row row' : Array Nat) (l : Nat)
    (h : ∀ j, j < l → row[j]? = row'[j]?) : opt0Cands uf prev row l = opt0Cands uf prev row' l := by
  unfold opt0Cands
  apply List.map_congr_left
  intro j hj
  have := List.mem_range'_1.1 hj
  simp only [Array.getD_eq_getD_getElem?]
  rw [h (j - 1) (by omega)]

theorem opt0Row_spec (uf ub lmax : Nat) (prev : Array Nat) :
    (opt0Row uf ub lmax prev).getD 0 0 = ub ∧ (opt0Row uf ub lmax prev).getD 1 0 = uf + 2 * ub ∧
    ∀ l, 2 ≤ l → l ≤ lmax → (opt0Row uf ub lmax prev).getD l 0 =
      (opt0Cands uf prev (opt0Row uf ub lmax prev) l).foldl min
        ((opt0Cands uf prev (opt0Row uf ub lmax prev) l).headD 0) := by
  rw [opt0Row_eq]
  obtain ⟨_, h2, h3⟩ := pushFold_spec (fun row l =>
    (opt0Cands uf prev row l).foldl min ((opt0Cands uf prev row l).headD 0)) (lmax - 1) 2
    #[ub, uf + 2 * ub] rfl
  refine ⟨?_, ?_, ?_⟩
  · rw [Array.getD_eq_getD_getElem?, h2 0 (by omega)]; rfl
  · rw [Array.getD_eq_getD_getElem?, h2 1 (by omega)]; rfl
  · intro l hl2 hl
    obtain ⟨row, _, hrow, hval⟩ := h3 l hl2 (by omega)
    rw [Array.getD_eq_getD_getElem?, hval, opt0Cands_congr uf prev row _ l hrow]
    rfl

/-- row 1 of the table: the closed form -/
def opt0Row1 (lmax uf ub : Nat) : Array Nat :=
  (List.range' 2 (lmax - 1)).foldl (fun row l =>
    row.push ((l + 1) * ub + l * (l + 1) / 2 * uf)) #[ub, uf + 2 * ub]

theorem opt0Row1_spec (lmax uf ub : Nat) :
    (opt0Row1 lmax uf ub).getD 0 0 = ub ∧ (opt0Row1 lmax uf ub).getD 1 0 = uf + 2 * ub ∧
    ∀ l, 2 ≤ l → l ≤ lmax → (opt0Row1 lmax uf ub).getD l 0 = (l + 1) * ub + l * (l + 1) / 2 * uf := by
  unfold opt0Row1
  obtain ⟨_, h2, h3⟩ := pushFold_spec (fun (_ : Array Nat) l => (l + 1) * ub + l * (l + 1) / 2 * uf)
    (lmax - 1) 2 #[ub, uf + 2 * ub] rfl
  refine ⟨?_, ?_, ?_⟩
  · rw [Array.getD_eq_getD_getElem?, h2 0 (by omega)]; rfl
  · rw [Array.getD_eq_getD_getElem?, h2 1 (by omega)]; rfl
  · intro l hl2 hl
    obtain ⟨row, _, _, hval⟩ := h3 l hl2 (by omega)
    rw [Array.getD_eq_getD_getElem?, hval]
    rfl

/-! ## the table -/

theorem opt0Table_zero (lmax uf ub : Nat) : opt0Table lmax 0 uf ub = #[#[ub]] := by
  simp [opt0Table]

theorem opt0Table_pos (lmax mmax uf ub : Nat) (h : 1 ≤ mmax) :
    opt0Table lmax mmax uf ub = (List.range' 2 (mmax - 1)).foldl (fun (t : Array (Array Nat)) m =>
      t.push (opt0Row uf ub lmax (t.getD (m - 1) #[]))) #[#[ub], opt0Row1 lmax uf ub] := by
  have : ¬ mmax = 0 := by omega
  simp only [opt0Table, this, if_false]
  rfl

/-- the rows of the table -/
theorem opt0Table_rows (lmax mmax uf ub : Nat) (h : 1 ≤ mmax) :
    (opt0Table lmax mmax uf ub).getD 0 #[] = #[ub] ∧
    (opt0Table lmax mmax uf ub).getD 1 #[] = opt0Row1 lmax uf ub ∧
    ∀ m, 2 ≤ m → m ≤ mmax → (opt0Table lmax mmax uf ub).getD m #[] =
      opt0Row uf ub lmax ((opt0Table lmax mmax uf ub).getD (m - 1) #[]) := by
  rw [opt0Table_pos lmax mmax uf ub h]
  obtain ⟨_, h2, h3⟩ := pushFold_spec (fun (t : Array (Array Nat)) m =>
    opt0Row uf ub lmax (t.getD (m - 1) #[])) (mmax - 1) 2 #[#[ub], opt0Row1 lmax uf ub] rfl
  refine ⟨?_, ?_, ?_⟩
  · rw [Array.getD_eq_getD_getElem?, h2 0 (by omega)]; rfl
  · rw [Array.getD_eq_getD_getElem?, h2 1 (by omega)]; rfl
  · intro m hm2 hm
    obtain ⟨row, _, hrow, hval⟩ := h3 m hm2 (by omega)
    simp only [Array.getD_eq_getD_getElem?] at hval hrow ⊢
    rw [hval, Option.getD_some, hrow (m - 1) (by omega)]

/-- `opt[m][0] = ub` -/
theorem opt0Get_zero (lmax mmax uf ub m : Nat) (hm : m ≤ mmax) :
    opt0Get (opt0Table lmax mmax uf ub) m 0 = ub := by
  unfold opt0Get
  rcases Nat.eq_zero_or_pos mmax with h0 | hpos
  · subst h0
    have : m = 0 := by omega
    subst this
    rw [opt0Table_zero]; rfl
  · obtain ⟨r0, r1, r2⟩ := opt0Table_rows lmax mmax uf ub hpos
    rcases Nat.lt_or_ge m 2 with hlt | hge
    · rcases Nat.eq_zero_or_pos m with rfl | hm1
      · rw [r0]; rfl
      · have : m = 1 := by omega
        subst this
        rw [r1]; exact (opt0Row1_spec lmax uf ub).1
    · rw [r2 m hge hm]; exact (opt0Row_spec uf ub lmax _).1

/-- `opt[m][1] = uf + 2 ub` for `m ≥ 1` -/
theorem opt0Get_one (lmax mmax uf ub m : Nat) (hm1 : 1 ≤ m) (hm : m ≤ mmax) :
    opt0Get (opt0Table lmax mmax uf ub) m 1 = uf + 2 * ub := by
  unfold opt0Get
  obtain ⟨_, r1, r2⟩ := opt0Table_rows lmax mmax uf ub (by omega)
  rcases Nat.lt_or_ge m 2 with hlt | hge
  · have : m = 1 := by omega
    subst this
    rw [r1]; exact (opt0Row1_spec lmax uf ub).2.1
  · rw [r2 m hge hm]; exact (opt0Row_spec uf ub lmax _).2.1

/-- `opt[1][l]`: the closed form -/
theorem opt0Get_row1 (lmax mmax uf ub l : Nat) (hmm : 1 ≤ mmax) (hl2 : 2 ≤ l) (hl : l ≤ lmax) :
    opt0Get (opt0Table lmax mmax uf ub) 1 l = (l + 1) * ub + l * (l + 1) / 2 * uf := by
  unfold opt0Get
  rw [(opt0Table_rows lmax mmax uf ub hmm).2.1]
  exact (opt0Row1_spec lmax uf ub).2.2 l hl2 hl

/-- The recurrence, with the minimum written exactly as in the model, plus the two facts that
characterise it as a minimum. -/
theorem opt0Get_rec (lmax mmax uf ub m l : Nat) (hm2 : 2 ≤ m) (hm : m ≤ mmax) (hl2 : 2 ≤ l)
    (hl : l ≤ lmax) :
    let t := opt0Table lmax mmax uf ub
    let cands := (List.range' 1 (l - 1)).map (fun j =>
      j * uf + opt0Get t (m - 1) (l - j) + opt0Get t m (j - 1))
    opt0Get t m l = cands.foldl min (cands.headD 0) ∧
    (∀ x ∈ cands, opt0Get t m l ≤ x) ∧ opt0Get t m l ∈ cands := by
  intro t cands
  have hrow := (opt0Table_rows lmax mmax uf ub (by omega)).2.2 m hm2 hm
  have hc : cands = opt0Cands uf (t.getD (m - 1) #[]) (t.getD m #[]) l := rfl
  have hne : cands ≠ [] := by
    intro h
    have := congrArg List.length h
    simp [cands] at this
    omega
  have heq : opt0Get t m l = cands.foldl min (cands.headD 0) := by
    rw [hc]
    show (t.getD m #[]).getD l 0 = _
    have := (opt0Row_spec uf ub lmax (t.getD (m - 1) #[])).2.2 l hl2 hl
    rw [← hrow] at this
    exact this
  refine ⟨heq, ?_, ?_⟩
  · rw [heq]; exact foldl_min_le cands
  · rw [heq]; exact List.mem_of_getElem? (argminO_map_some_get cands hne)

/-- the same in index form -/
theorem opt0Get_rec_index (lmax mmax uf ub m l : Nat) (hm2 : 2 ≤ m) (hm : m ≤ mmax) (hl2 : 2 ≤ l)
    (hl : l ≤ lmax) :
    let t := opt0Table lmax mmax uf ub
    (∀ j, 1 ≤ j → j ≤ l - 1 →
      opt0Get t m l ≤ j * uf + opt0Get t (m - 1) (l - j) + opt0Get t m (j - 1)) ∧
    ∃ j, 1 ≤ j ∧ j ≤ l - 1 ∧
      opt0Get t m l = j * uf + opt0Get t (m - 1) (l - j) + opt0Get t m (j - 1) := by
  intro t
  obtain ⟨_, h2, h3⟩ := opt0Get_rec lmax mmax uf ub m l hm2 hm hl2 hl
  constructor
  · intro j hj1 hj2
    apply h2
    exact List.mem_map.2 ⟨j, List.mem_range'_1.2 ⟨hj1, by omega⟩, rfl⟩
  · obtain ⟨j, hj, hjv⟩ := List.mem_map.1 h3
    have := List.mem_range'_1.1 hj
    exact ⟨j, this.1, by omega, hjv.symm⟩

-- concrete instance: lmax = 6, mmax = 3, uf = ub = 1
example : opt0Get (opt0Table 6 3 1 1) 3 6 = 16 ∧ opt0Get (opt0Table 6 3 1 1) 2 4 = 11 := by decide

end Ckpt
