import CkptVerif.Proofs.NAdv
import CkptVerif.Proofs.GW
/-!
# `n_advance` lands in the optimal region

For both trajectories (`maximum`, `revolve`) the step returned by `n_advance(m, k)` attains the minimum
of the recurrence of `optimal_extra_steps` (`nAdvance_attains`).  With `s = min(k, m-1)`, `2 ≤ s ≤ m-2`
and the loop's `t` (`β(s,t-1) < m ≤ β(s,t)`), every branch returns `a` with
`β(s,t-2) ≤ a ≤ β(s,t-1)` and `β(s-1,t-1) ≤ m - a ≤ β(s-1,t)` (`nAdvance_region`), which is the equality
case `extraCell_split_eq` of `Proofs/GW.lean`.
-/
namespace Ckpt.GW
open Nat

/-- `β(s,t) = C(s+t, t)` -/
def bt (s t : Nat) : Nat := choose (s + t) t

theorem bt_pascal (s t : Nat) : bt (s + 1) (t + 1) = bt (s + 1) t + bt s (t + 1) := by
  unfold bt
  have e : s + 1 + (t + 1) = (s + 1 + t) + 1 := by omega
  have e1 : s + (t + 1) = s + 1 + t := by omega
  rw [e, Nat.choose_succ_succ', e1]

theorem bt_pos (s t : Nat) : 1 ≤ bt s t := by
  unfold bt; exact Nat.choose_pos (by omega)

theorem bt_mono (s t : Nat) : bt s t ≤ bt s (t + 1) := by
  unfold bt
  have e : s + (t + 1) = (s + t) + 1 := by omega
  rw [e, Nat.choose_succ_succ']
  omega

theorem bt_eq_gwP (c t : Nat) : bt (c + 1) t = gwP c (t + 1) := choose_eq_gwP c t

theorem some_ite (p : Prop) [Decidable p] (a b : Nat) :
    (if p then some a else some b) = some (if p then a else b) := by
  split <;> rfl

/-- the arithmetic of the branches of `n_advance`: the data are the five binomials -/
structure AdvData (m b2 b1 b0 x1 x2 x3 B Y : Nat) : Prop where
  lt : b1 < m
  le : m ≤ b0
  p0 : b0 = b1 + B          -- β(s,t) = β(s,t-1) + β(s-1,t)
  p1 : b1 = b2 + x1         -- β(s,t-1) = β(s,t-2) + β(s-1,t-1)
  p2 : x1 = x3 + x2         -- β(s-1,t-1) = β(s-1,t-2) + β(s-2,t-1)
  p3 : B = x1 + Y           -- β(s-1,t) = β(s-1,t-1) + β(s-2,t)
  mono : x2 ≤ Y             -- β(s-2,t-1) ≤ β(s-2,t)
  b2pos : 1 ≤ b2
  x1pos : 1 ≤ x1
  x3pos : 1 ≤ x3
  x2pos : 1 ≤ x2

/-- being in the optimal region -/
def InRegion (m a b2 b1 x1 B : Nat) : Prop :=
  1 ≤ a ∧ a < m ∧ b2 ≤ a ∧ a ≤ b1 ∧ x1 ≤ m - a ∧ m - a ≤ B

theorem region_maximum {m b2 b1 b0 x1 x2 x3 B Y : Nat} (D : AdvData m b2 b1 b0 x1 x2 x3 B Y) :
    InRegion m
      (if m ≤ b1 + x3 then m - b1 + b2
       else if m ≤ b1 + x2 + x3 then b2 + x3
       else if m ≤ b1 + x1 + x2 then m - x1 - x2
       else b1) b2 b1 x1 B := by
  obtain ⟨h1, h2, h3, h4, h5, h6, h7, h8, h9, h10, h11⟩ := D
  unfold InRegion
  split_ifs <;> omega

theorem region_revolve {m b2 b1 b0 x1 x2 x3 B Y : Nat} (D : AdvData m b2 b1 b0 x1 x2 x3 B Y) :
    InRegion m
      (if m ≤ b1 + x2 then b2
       else if m < b1 + x1 + x2 then m - x1 - x2
       else b1) b2 b1 x1 B := by
  obtain ⟨h1, h2, h3, h4, h5, h6, h7, h8, h9, h10, h11⟩ := D
  unfold InRegion
  split_ifs <;> omega

/-- The main branch of `n_advance`: for `2 ≤ s ≤ m - 2` units the result lies in the optimal region
`β(s,t-2) ≤ a ≤ β(s,t-1)`, `β(s-1,t-1) ≤ m - a ≤ β(s-1,t)` of the `t` with `β(s,t-1) < m ≤ β(s,t)`;
here `s = c + 2`, `t = u + 2`. -/
theorem nAdvance_region (m c : Nat) (traj : Traj) (hcm : c + 4 ≤ m) :
    ∃ a u, nAdvance m (c + 2) traj = some a ∧ bt (c + 2) (u + 1) < m ∧ m ≤ bt (c + 2) (u + 2) ∧
      InRegion m a (bt (c + 2) u) (bt (c + 2) (u + 1)) (bt (c + 1) (u + 1)) (bt (c + 1) (u + 2)) := by
  unfold nAdvance
  have h1 : ¬ m < 1 := by omega
  have h0 : ¬ c + 2 = 0 := by omega
  have hs' : max (min (c + 2) (m - 1)) 1 = c + 2 := by omega
  simp only [h1, h0, if_false, hs']
  rw [if_neg (by omega), if_neg (by omega)]
  have inv0 : LoopInv m (c + 2) 2 1 (c + 2 + 1) (((c + 2 + 1) * (c + 2 + 2)) / 2) := by
    refine ⟨le_refl _, ?_, ?_, ?_, by omega⟩
    · have := choose_step (c + 2) 1
      have e1 : choose (c + 2 + 1) 1 = c + 2 + 1 := by simp
      rw [e1] at this
      simpa using this
    · simp
    · simp
  obtain ⟨t, b2, b1, b0, hl, inv, hle⟩ :=
    advLoop_spec (m + 1) m (c + 2) 2 1 (c + 2 + 1) _ (by omega) inv0 (by omega)
  rw [hl]
  dsimp only
  obtain ⟨u, rfl⟩ : ∃ u, t = u + 2 := ⟨t - 2, by have := inv.t2; omega⟩
  have e0 : b0 = bt (c + 2) (u + 2) := inv.e0
  have e1 : b1 = bt (c + 2) (u + 1) := by
    have := inv.e1
    have e : u + 2 - 1 = u + 1 := by omega
    rw [e] at this; exact this
  have e2 : b2 = bt (c + 2) u := by
    have := inv.e2
    have e : u + 2 - 2 = u := by omega
    rw [e] at this; exact this
  have hlt := inv.lt
  -- the three derived binomials
  have hx1 : (b1 * (c + 2)) / (c + 2 + (u + 2) - 1) = bt (c + 1) (u + 1) := by
    rw [e1]
    have := choose_lower (c + 2) (u + 1) (by omega)
    have e : c + 2 + (u + 2) - 1 = c + 2 + (u + 1) := by omega
    rw [e]; exact this
  have hx3 : (b2 * (c + 2)) / (c + 2 + (u + 2) - 2) = bt (c + 1) u := by
    rw [e2]
    have := choose_lower (c + 2) u (by omega)
    have e : c + 2 + (u + 2) - 2 = c + 2 + u := by omega
    rw [e]; exact this
  have hx2 : (bt (c + 1) (u + 1) * (c + 2 - 1)) / (c + 2 + (u + 2) - 2) = bt c (u + 1) := by
    have := choose_lower (c + 1) (u + 1) (by omega)
    have e : c + 2 + (u + 2) - 2 = c + 1 + (u + 1) := by omega
    rw [e]; exact this
  rw [hx1, hx3, hx2]
  have D : AdvData m b2 b1 b0 (bt (c + 1) (u + 1)) (bt c (u + 1)) (bt (c + 1) u)
      (bt (c + 1) (u + 2)) (bt c (u + 2)) := by
    refine ⟨hlt, hle, ?_, ?_, ?_, ?_, bt_mono _ _, ?_, bt_pos _ _, bt_pos _ _, bt_pos _ _⟩
    · rw [e0, e1]; exact bt_pascal (c + 1) (u + 1)
    · rw [e1, e2]; exact bt_pascal (c + 1) u
    · exact bt_pascal c u
    · have := bt_pascal c (u + 1); omega
    · rw [e2]; exact bt_pos _ _
  subst e0 e1 e2
  cases traj
  · refine ⟨_, u, ?_, hlt, hle, region_maximum D⟩
    dsimp only
    simp only [some_ite]
  · refine ⟨_, u, ?_, hlt, hle, region_revolve D⟩
    dsimp only
    simp only [some_ite]

/-- **`n_advance` attains the minimum of the recurrence**, for both trajectories. -/
theorem nAdvance_attains (m k : Nat) (traj : Traj) (hm : 2 ≤ m) (hk : 1 ≤ k) :
    ∃ a, nAdvance m k traj = some a ∧ 1 ≤ a ∧ a ≤ m - 1 ∧
      a + extraCell a (clampS a k) + extraCell (m - a) (clampS (m - a) (k - 1)) =
        extraCell m (clampS m k) := by
  by_cases c1 : min k (m - 1) = 1
  · -- one unit (or two steps): advance `m - 1`
    have hn : nAdvance m k traj = some (m - 1) := by
      unfold nAdvance
      have h1 : ¬ m < 1 := by omega
      have h0 : ¬ k = 0 := by omega
      have hs' : max (min k (m - 1)) 1 = 1 := by omega
      simp only [h1, h0, if_false, hs', if_true]
    refine ⟨m - 1, hn, by omega, le_refl _, ?_⟩
    have e1 : m - (m - 1) = 1 := by omega
    have ec : clampS m k = 1 := c1
    rw [e1, extraCell_le_one 1 _ (le_refl _), ec, extraCell_s1 m hm]
    by_cases hm2 : m = 2
    · subst hm2
      rw [extraCell_le_one (2 - 1) _ (by omega)]
    · have hk1 : k = 1 := by omega
      subst hk1
      have ec' : clampS (m - 1) 1 = 1 := by unfold clampS; omega
      rw [ec', extraCell_s1 (m - 1) (by omega)]
      have := tri_succ (m - 1)
      have e : m - 1 + 1 = m := by omega
      rw [e] at this
      omega
  · by_cases c2 : min k (m - 1) = m - 1
    · -- maximal storage: advance one step
      have hn : nAdvance m k traj = some 1 := by
        unfold nAdvance
        have h1 : ¬ m < 1 := by omega
        have h0 : ¬ k = 0 := by omega
        have hs' : max (min k (m - 1)) 1 = m - 1 := by omega
        simp only [h1, h0, if_false, hs']
        rw [if_neg (by omega), if_pos True.intro]
      refine ⟨1, hn, le_refl _, by omega, ?_⟩
      obtain ⟨c, rfl⟩ : ∃ c, k = c + 2 := ⟨k - 2, by omega⟩
      exact extraCell_split_eq c 0 m 1 (le_refl _) (by omega)
        (by rw [gwP_zero]; omega) (by rw [gwP_one])
        (by rw [gwP_one]; omega) (by rw [gwP_two]; omega)
    · -- the main branch: `2 ≤ k ≤ m - 2`
      obtain ⟨c, rfl⟩ : ∃ c, k = c + 2 := ⟨k - 2, by omega⟩
      obtain ⟨a, u, hn, _, _, h1, h2, hi1, hi2, hr1, hr2⟩ := nAdvance_region m c traj (by omega)
      refine ⟨a, hn, h1, by omega, ?_⟩
      rw [bt_eq_gwP] at hi1 hi2 hr1 hr2
      exact extraCell_split_eq c (u + 1) m a h1 h2 hi1 hi2 hr1 hr2

/-- `n_advance(10, 3)`: both trajectories, the split attains `E(10,3) = 15`. -/
example : ∃ a, nAdvance 10 3 .maximum = some a ∧ 1 ≤ a ∧ a ≤ 9 ∧
    a + extraCell a (clampS a 3) + extraCell (10 - a) (clampS (10 - a) 2) = extraCell 10 (clampS 10 3) :=
  nAdvance_attains 10 3 .maximum (by decide) (by decide)

example : nAdvance 10 3 .maximum = some 4 ∧ nAdvance 10 3 .revolve = some 4 ∧
    nAdvance 25 3 .maximum = some 15 ∧ nAdvance 25 3 .revolve = some 11 := by decide

example : 11 + extraCell 11 3 + extraCell 14 2 = extraCell 25 3 := by
  obtain ⟨a, h, _, _, e⟩ := nAdvance_attains 25 3 .revolve (by decide) (by decide)
  have ha : nAdvance 25 3 .revolve = some 11 := by decide
  rw [ha] at h
  have := Option.some.inj h
  subst this
  exact e

end Ckpt.GW
