import CkptVerif.Proofs.ExtraRec
import Mathlib.Data.Nat.Choose.Basic
import Mathlib.Tactic
/-!
# The closed form of `optimal_extra_steps` (Griewank & Walther 2000)

With `β(s,t) = C(s+t, t)` the total number of forward steps `gwT m k = m + E(m, min(k, m-1))` is the
upper envelope of the lines `L_j(m,k) = (j+1)·m − β(k+1, j−1)`:

* `gwT_ge_line`: `(j+1)·m ≤ gwT m k + C(k+j, k+1)` for every `j`;
* `gwT_eq_line`: equality when `β(k, j−1) ≤ m ≤ β(k, j)`;
* `gwT_split_eq`: a split `i` with `β(k,j−2) ≤ i ≤ β(k,j−1)` and `β(k−1,j−1) ≤ m−i ≤ β(k−1,j)` attains the
  minimum of the recurrence (the "optimal region");
* `extraCell_closed`: the closed form of `extraCell`.

All binomials are written through `gwP c j = C(c+j, c+1)` (`= β(c+1, j−1)`, and `0` for `j = 0`):
`β(k, j) = gwP (k-1) (j+1)`.
-/
namespace Ckpt.GW
open Nat

/-- `gwP c j = C(c+j, c+1)`; `gwP c (j+1) = β(c+1, j)` and `gwP c 0 = 0` -/
def gwP (c j : Nat) : Nat := choose (c + j) (c + 1)

theorem gwP_zero (c : Nat) : gwP c 0 = 0 := by
  unfold gwP; exact Nat.choose_eq_zero_of_lt (by omega)

theorem gwP_one (c : Nat) : gwP c 1 = 1 := by
  unfold gwP; exact Nat.choose_self _

theorem gwP_two (c : Nat) : gwP c 2 = c + 2 := by
  unfold gwP
  have e : c + 2 = (c + 1) + 1 := by omega
  rw [e, Nat.choose_succ_self_right]

theorem gwP_zero_left (j : Nat) : gwP 0 j = j := by
  unfold gwP; simp

/-- Pascal's rule -/
theorem gwP_pascal (c j : Nat) : gwP (c + 1) (j + 1) = gwP (c + 1) j + gwP c (j + 1) := by
  unfold gwP
  have e : c + 1 + (j + 1) = (c + j + 1) + 1 := by omega
  have e1 : c + 1 + j = c + j + 1 := by omega
  have e2 : c + (j + 1) = c + j + 1 := by omega
  rw [e, Nat.choose_succ_succ', e1, e2]; exact Nat.add_comm _ _

theorem gwP_pos (c j : Nat) : 1 ≤ gwP c (j + 1) := by
  unfold gwP; exact Nat.choose_pos (by omega)

theorem gwP_ge (c j : Nat) : j ≤ gwP c j := by
  induction c generalizing j with
  | zero => rw [gwP_zero_left]
  | succ c ih =>
    induction j with
    | zero => omega
    | succ j ihj =>
      have := gwP_pascal c j
      have := gwP_pos c j
      omega

theorem gwP_mono (c j : Nat) : gwP c j ≤ gwP c (j + 1) := by
  unfold gwP; exact Nat.choose_le_succ _ _

/-- `β(c+1, t) = C(c+1+t, t)` in terms of `gwP` -/
theorem choose_eq_gwP (c t : Nat) : choose (c + 1 + t) t = gwP c (t + 1) := by
  unfold gwP
  have e : c + (t + 1) = c + 1 + t := by omega
  rw [e]
  exact Nat.choose_symm_of_eq_add (n := c + 1 + t) (a := t) (b := c + 1) (by omega)

/-! ## one unit: triangular numbers -/

theorem two_choose_two (n : Nat) : 2 * choose (n + 1) 2 = (n + 1) * n := by
  induction n with
  | zero => simp
  | succ n ih =>
    have : choose (n + 1 + 1) 2 = choose (n + 1) 1 + choose (n + 1) 2 := Nat.choose_succ_succ _ _
    rw [this, Nat.choose_one_right]
    nlinarith

theorem gwT_k1' (m : Nat) (hm : 1 ≤ m) : gwT m 1 = m + choose m 2 := by
  by_cases h : m = 1
  · subst h; rw [gwT_one]; rfl
  · rw [gwT_k1 m (by omega), Nat.choose_two_right]

/-! ## the envelope -/

/-- the claim for `m` steps and `c + 1` units -/
structure GWClaim (m c : Nat) : Prop where
  lb : ∀ j, (j + 1) * m ≤ gwT m (c + 1) + gwP (c + 1) j
  eq : ∀ j, gwP c j ≤ m → m ≤ gwP c (j + 1) → gwT m (c + 1) + gwP (c + 1) j = (j + 1) * m

theorem gwClaim_one_unit (m : Nat) (hm : 1 ≤ m) : GWClaim m 0 := by
  obtain ⟨m', rfl⟩ : ∃ m', m = m' + 1 := ⟨m - 1, by omega⟩
  have hT : gwT (m' + 1) (0 + 1) = (m' + 1) + choose (m' + 1) 2 := gwT_k1' _ hm
  have hm2 := two_choose_two m'
  have hP : ∀ j, gwP (0 + 1) j = choose (j + 1) 2 := by
    intro j; unfold gwP
    have : 0 + 1 + j = j + 1 := by omega
    rw [this]
  constructor
  · intro j
    rw [hT, hP]
    have hj2 := two_choose_two j
    rcases Nat.lt_or_ge j (m' + 1) with h | h
    · obtain ⟨d, hd⟩ := Nat.exists_eq_add_of_le (Nat.le_of_lt_succ h)
      subst hd
      nlinarith [Nat.zero_le (d * d), Nat.zero_le d]
    · obtain ⟨d, rfl⟩ := Nat.exists_eq_add_of_le h
      nlinarith [Nat.zero_le (d * d), Nat.zero_le d]
  · intro j hlo hhi
    rw [gwP_zero_left] at hlo hhi
    rw [hT, hP]
    have hj2 := two_choose_two j
    rcases Nat.lt_or_ge j (m' + 1) with h | h
    · have : j = m' := by omega
      subst this
      nlinarith
    · have hj : j = m' + 1 := by omega
      subst hj
      have : choose (m' + 1 + 1) 2 = choose (m' + 1) 1 + choose (m' + 1) 2 := Nat.choose_succ_succ _ _
      rw [Nat.choose_one_right] at this
      nlinarith

/-- the optimal region is non-empty -/
theorem exists_split (c j m : Nat) (hm : 2 ≤ m) (hlo : gwP (c + 1) (j + 1) ≤ m)
    (hhi : m ≤ gwP (c + 1) (j + 2)) :
    ∃ i, 1 ≤ i ∧ i < m ∧ gwP (c + 1) j ≤ i ∧ i ≤ gwP (c + 1) (j + 1) ∧
      gwP c (j + 1) ≤ m - i ∧ m - i ≤ gwP c (j + 2) := by
  have p1 := gwP_pascal c j
  have p2 : gwP (c + 1) (j + 2) = gwP (c + 1) (j + 1) + gwP c (j + 2) := gwP_pascal c (j + 1)
  have q1 := gwP_pos c j
  have q2 := gwP_pos (c + 1) j
  have q3 : 1 ≤ gwP c (j + 2) := gwP_pos c (j + 1)
  have q4 : gwP c (j + 1) ≤ gwP c (j + 2) := gwP_mono c (j + 1)
  have z : j = 0 → gwP (c + 1) j = 0 ∧ gwP c (j + 1) = 1 := by
    intro h; subst h; exact ⟨gwP_zero _, gwP_one _⟩
  have nz : j ≠ 0 → 1 ≤ gwP (c + 1) j := by
    intro h
    obtain ⟨j', rfl⟩ : ∃ j', j = j' + 1 := ⟨j - 1, by omega⟩
    exact gwP_pos _ _
  refine ⟨max (max 1 (gwP (c + 1) j)) (m - gwP c (j + 2)), ?_⟩
  by_cases hj : j = 0
  · have := z hj; omega
  · have := nz hj; omega

theorem gwClaim (c : Nat) : ∀ m, 1 ≤ m → GWClaim m c := by
  induction c with
  | zero => exact gwClaim_one_unit
  | succ c ihc =>
    intro m
    induction m using Nat.strongRecOn with
    | _ m ihm =>
      intro hm
      by_cases hm1 : m = 1
      · subst hm1
        constructor
        · intro j
          rw [gwT_one]
          have := gwP_ge (c + 1 + 1) j
          omega
        · intro j hlo hhi
          rw [gwT_one]
          have hj := gwP_ge (c + 1) j
          have hj1 : j = 0 ∨ j = 1 := by omega
          rcases hj1 with h | h
          · subst h; rw [gwP_zero]
          · subst h; rw [gwP_one]
      · have hm2 : 2 ≤ m := by omega
        have hlb : ∀ j, (j + 1) * m ≤ gwT m (c + 1 + 1) + gwP (c + 1 + 1) j := by
          intro j
          cases j with
          | zero => have := gwT_ge m (c + 1 + 1); omega
          | succ j =>
            obtain ⟨i, h1, h2, hG⟩ := gwT_rec_attained m (c + 1 + 1) hm2 (by omega)
            rw [Nat.add_sub_cancel] at hG
            have A := (ihm i h2 h1).lb j
            have B := (ihc (m - i) (by omega)).lb (j + 1)
            have p := gwP_pascal (c + 1) j
            obtain ⟨r, rfl⟩ := Nat.exists_eq_add_of_le (Nat.le_of_lt h2)
            rw [Nat.add_sub_cancel_left] at hG B
            have e : (j + 1 + 1) * (i + r) = (j + 1) * i + i + (j + 1 + 1) * r := by ring
            omega
        refine ⟨hlb, ?_⟩
        intro j hlo hhi
        cases j with
        | zero => rw [gwP_one] at hhi; omega
        | succ j =>
          obtain ⟨i, h1, h2, hi1, hi2, hr1, hr2⟩ := exists_split c j m hm2 hlo hhi
          have hle := gwT_rec_le m (c + 1 + 1) i hm2 (by omega) h1 h2
          rw [Nat.add_sub_cancel] at hle
          have A := (ihm i h2 h1).eq j hi1 hi2
          have B := (ihc (m - i) (by omega)).eq (j + 1) hr1 hr2
          have L := hlb (j + 1)
          have p := gwP_pascal (c + 1) j
          obtain ⟨r, rfl⟩ := Nat.exists_eq_add_of_le (Nat.le_of_lt h2)
          rw [Nat.add_sub_cancel_left] at hle B
          have e : (j + 1 + 1) * (i + r) = (j + 1) * i + i + (j + 1 + 1) * r := by ring
          omega

/-! ## the statements in terms of `k` units -/

/-- the total is above every line `L_j` -/
theorem gwT_ge_line (m k j : Nat) (hm : 1 ≤ m) (hk : 1 ≤ k) :
    (j + 1) * m ≤ gwT m k + gwP k j := by
  obtain ⟨c, rfl⟩ : ∃ c, k = c + 1 := ⟨k - 1, by omega⟩
  exact (gwClaim c m hm).lb j

/-- the total lies on the line `L_j` for `β(k, j−1) ≤ m ≤ β(k, j)` -/
theorem gwT_eq_line (m c j : Nat) (hm : 1 ≤ m) (hlo : gwP c j ≤ m) (hhi : m ≤ gwP c (j + 1)) :
    gwT m (c + 1) + gwP (c + 1) j = (j + 1) * m :=
  (gwClaim c m hm).eq j hlo hhi

/-- maximal storage: `E(m, m-1) = m - 1` (one forward sweep and one turn-around per step) -/
theorem gwT_full (m k : Nat) (hm : 1 ≤ m) (hk : m ≤ k + 1) (hk1 : 1 ≤ k) : gwT m k = 2 * m - 1 := by
  obtain ⟨c, rfl⟩ : ∃ c, k = c + 1 := ⟨k - 1, by omega⟩
  have := gwT_eq_line m c 1 hm (by rw [gwP_one]; exact hm) (by rw [gwP_two]; omega)
  rw [gwP_one] at this
  omega

theorem extraCell_full (m : Nat) (hm : 2 ≤ m) : extraCell m (m - 1) = m - 1 := by
  have h := gwT_full m (m - 1) (by omega) (by omega) (by omega)
  unfold gwT at h
  have : clampS m (m - 1) = m - 1 := by unfold clampS; omega
  rw [this] at h
  omega

/-- Equality case of the recurrence (the optimal region of GW2000): with `k = c + 2` units and
`m` on the line `j + 1`, every split `i` on the line `j` (for `k` units) whose complement is on the line
`j + 1` (for `k - 1` units) attains the minimum. -/
theorem gwT_split_eq (c j m i : Nat) (h1 : 1 ≤ i) (h2 : i < m)
    (hi1 : gwP (c + 1) j ≤ i) (hi2 : i ≤ gwP (c + 1) (j + 1))
    (hr1 : gwP c (j + 1) ≤ m - i) (hr2 : m - i ≤ gwP c (j + 2)) :
    i + gwT i (c + 2) + gwT (m - i) (c + 1) = gwT m (c + 2) := by
  have A : gwT i (c + 2) + gwP (c + 2) j = (j + 1) * i := gwT_eq_line i (c + 1) j h1 hi1 hi2
  have B : gwT (m - i) (c + 1) + gwP (c + 1) (j + 1) = (j + 2) * (m - i) :=
    gwT_eq_line (m - i) c (j + 1) (by omega) hr1 hr2
  have p1 := gwP_pascal c j
  have p2 : gwP (c + 1) (j + 2) = gwP (c + 1) (j + 1) + gwP c (j + 2) := gwP_pascal c (j + 1)
  have hC1 : gwP (c + 1) (j + 1) ≤ m := by omega
  have hC2 : m ≤ gwP (c + 1) (j + 2) := by omega
  have C : gwT m (c + 2) + gwP (c + 2) (j + 1) = (j + 2) * m :=
    gwT_eq_line m (c + 1) (j + 1) (by omega) hC1 hC2
  have p : gwP (c + 2) (j + 1) = gwP (c + 2) j + gwP (c + 1) (j + 1) := gwP_pascal (c + 1) j
  obtain ⟨r, rfl⟩ := Nat.exists_eq_add_of_le (Nat.le_of_lt h2)
  rw [Nat.add_sub_cancel_left] at B ⊢
  have e : (j + 2) * (i + r) = (j + 1) * i + i + (j + 2) * r := by ring
  omega

/-- the same in terms of `extraCell`, for an arbitrary (unclamped) number of units `k = c + 2` -/
theorem extraCell_split_eq (c j m i : Nat) (h1 : 1 ≤ i) (h2 : i < m)
    (hi1 : gwP (c + 1) j ≤ i) (hi2 : i ≤ gwP (c + 1) (j + 1))
    (hr1 : gwP c (j + 1) ≤ m - i) (hr2 : m - i ≤ gwP c (j + 2)) :
    i + extraCell i (clampS i (c + 2)) + extraCell (m - i) (clampS (m - i) (c + 1)) =
      extraCell m (clampS m (c + 2)) := by
  have := gwT_split_eq c j m i h1 h2 hi1 hi2 hr1 hr2
  unfold gwT at this
  omega

/-- **Closed form** (Griewank & Walther 2000, Prop. 1): for `β(k,t-1) < m ≤ β(k,t)`,
`m + E(m,k) = (t+1)·m − β(k+1, t-1)`. -/
theorem extraCell_closed (m k t : Nat) (hk : 1 ≤ k) (hkm : k ≤ m - 1) (hm : 2 ≤ m)
    (hlo : Nat.choose (k + t - 1) (t - 1) < m) (hhi : m ≤ Nat.choose (k + t) t) (ht : 1 ≤ t) :
    m + extraCell m k + Nat.choose (k + t) (t - 1) = (t + 1) * m := by
  obtain ⟨c, rfl⟩ : ∃ c, k = c + 1 := ⟨k - 1, by omega⟩
  have e1 : choose (c + 1 + t - 1) (t - 1) = gwP c t := by
    unfold gwP
    have : c + 1 + t - 1 = c + t := by omega
    rw [this]
    exact Nat.choose_symm_of_eq_add (by omega)
  have e2 : choose (c + 1 + t) t = gwP c (t + 1) := choose_eq_gwP c t
  have e3 : choose (c + 1 + t) (t - 1) = gwP (c + 1) t := by
    unfold gwP
    exact Nat.choose_symm_of_eq_add (by omega)
  rw [e1] at hlo
  rw [e2] at hhi
  rw [e3]
  have h := gwT_eq_line m c t (by omega) (by omega) hhi
  unfold gwT at h
  have hc : clampS m (c + 1) = c + 1 := by unfold clampS; omega
  rw [hc] at h
  exact h

/-- the lower-envelope half in the same notation: every line is a lower bound -/
theorem extraCell_lower (m k t : Nat) (hk : 1 ≤ k) (hkm : k ≤ m - 1) (hm : 2 ≤ m) :
    (t + 1) * m ≤ m + extraCell m k + Nat.choose (k + t) (k + 1) := by
  have h := gwT_ge_line m k t (by omega) hk
  unfold gwT gwP at h
  have hc : clampS m k = k := by unfold clampS; omega
  rw [hc] at h
  exact h

/-- `n = 10` steps with `s = 3` units: `β(3,1) = 4 < 10 ≤ β(3,2) = 10`, so `t = 2` and
`10 + E(10,3) = 3·10 − β(4,1) = 25`, i.e. `E(10,3) = 15`. -/
example : 10 + extraCell 10 3 + Nat.choose (3 + 2) (2 - 1) = (2 + 1) * 10 :=
  extraCell_closed 10 3 2 (by decide) (by decide) (by decide) (by decide) (by decide) (by decide)

example : extraCell 10 3 = 15 := by
  have := extraCell_closed 10 3 2 (by decide) (by decide) (by decide) (by decide) (by decide) (by decide)
  have e : Nat.choose (3 + 2) (2 - 1) = 5 := by decide
  omega

/-- `n = 1000` steps with `s = 10` units: `β(10,3) = 286 < 1000 ≤ β(10,4) = 1001`, `t = 4`. -/
example : 1000 + extraCell 1000 10 + Nat.choose 14 3 = 5 * 1000 :=
  extraCell_closed 1000 10 4 (by decide) (by decide) (by decide) (by decide) (by decide) (by decide)

example : extraCell 7 6 = 6 := extraCell_full 7 (by decide)

end Ckpt.GW
