import CkptVerif.Model.DP
import CkptVerif.Model.Mixed
/-!
# The bottom-up table agrees with the recursive specification

`Local F`: the body only inspects cells `(i, j)` with `i < n` and `j ≤ s`.  For local bodies,
`fixDP F` satisfies the unguarded unfolding equation (`fixDP_eq`) and the executable table
`dpTable F` agrees with `fixDP F` on every cell (`dpGet_dpTable`).  The three bodies of
`Model/Mixed.lean` are local.
-/
namespace Ckpt

/-- `F n s` only looks at cells with strictly smaller `n` and `s` not larger. -/
def Local {α : Type} (F : Nat → Nat → (Nat → Nat → α) → α) : Prop :=
  ∀ n s g g', (∀ i j, i < n → j ≤ s → g i j = g' i j) → F n s g = F n s g'

/-- one unfolding of `fixDP`; by locality the guard of the accessor can be dropped -/
theorem fixDP_eq {α : Type} [Inhabited α] (F : Nat → Nat → (Nat → Nat → α) → α)
    (hF : Local F) (n s : Nat) : fixDP F n s = F n s (fun i j => fixDP F i j) := by
  rw [fixDP]
  apply hF
  intro i j hi hj
  have h : j < s ∨ (j = s ∧ i < n) := by omega
  simp only [h, dite_true]

/-! ## one row -/

theorem dpRow_spec {α : Type} [Inhabited α] (F : Nat → Nat → (Nat → Nat → α) → α)
    (hF : Local F) (prev : Array (Array α)) (s nmax : Nat)
    (hprev : ∀ j, j < s → ∀ i, i ≤ nmax → (prev.getD j #[]).getD i default = fixDP F i j)
    (k : Nat) (hk : k ≤ nmax + 1) :
    (dpRow F prev s k).size = k ∧
      ∀ i, i < k → (dpRow F prev s k).getD i default = fixDP F i s := by
  induction k with
  | zero =>
    refine ⟨rfl, ?_⟩
    intro i hi; omega
  | succ k ih =>
    obtain ⟨hsz, hcell⟩ := ih (by omega)
    have hnew : F k s (fun i j =>
        if j = s then (dpRow F prev s k).getD i default
        else (prev.getD j #[]).getD i default) = fixDP F k s := by
      rw [fixDP_eq F hF k s]
      apply hF
      intro i j hi hj
      by_cases hjs : j = s
      · subst hjs
        simp only [if_true]
        exact hcell i hi
      · simp only [hjs, if_false]
        exact hprev j (by omega) i (by omega)
    constructor
    · show ((dpRow F prev s k).push _).size = k + 1
      rw [Array.size_push, hsz]
    · intro i hi
      show ((dpRow F prev s k).push _).getD i default = fixDP F i s
      by_cases hik : i < k
      · have h1 : i < (dpRow F prev s k).size := by omega
        have h2 : i < ((dpRow F prev s k).push (F k s (fun i j =>
            if j = s then (dpRow F prev s k).getD i default
            else (prev.getD j #[]).getD i default))).size := by
          rw [Array.size_push]; omega
        have := hcell i hik
        rw [Array.getD_eq_getD_getElem?, Array.getElem?_eq_getElem h1, Option.getD_some] at this
        rw [Array.getD_eq_getD_getElem?, Array.getElem?_eq_getElem h2, Option.getD_some,
          Array.getElem_push_lt h1]
        exact this
      · have hik' : i = k := by omega
        subst hik'
        have h2 : i < ((dpRow F prev s i).push (F i s (fun i' j =>
            if j = s then (dpRow F prev s i).getD i' default
            else (prev.getD j #[]).getD i' default))).size := by
          rw [Array.size_push]; omega
        rw [Array.getD_eq_getD_getElem?, Array.getElem?_eq_getElem h2, Option.getD_some]
        have : i = (dpRow F prev s i).size := hsz.symm
        rw [Array.getElem_push]
        rw [dif_neg (by omega)]
        exact hnew

/-! ## the table -/

theorem dpTable_spec {α : Type} [Inhabited α] (F : Nat → Nat → (Nat → Nat → α) → α)
    (hF : Local F) (nmax rows : Nat) :
    (dpTable F nmax rows).size = rows ∧
      ∀ s, s < rows → ∀ n, n ≤ nmax →
        ((dpTable F nmax rows).getD s #[]).getD n default = fixDP F n s := by
  induction rows with
  | zero =>
    refine ⟨rfl, ?_⟩
    intro s hs; omega
  | succ k ih =>
    obtain ⟨hsz, hcell⟩ := ih
    have hrow := dpRow_spec F hF (dpTable F nmax k) k nmax hcell (nmax + 1) (Nat.le_refl _)
    constructor
    · show ((dpTable F nmax k).push _).size = k + 1
      rw [Array.size_push, hsz]
    · intro s hs n hn
      show (((dpTable F nmax k).push (dpRow F (dpTable F nmax k) k (nmax + 1))).getD s #[]).getD n
        default = fixDP F n s
      have h2 : s < ((dpTable F nmax k).push (dpRow F (dpTable F nmax k) k (nmax + 1))).size := by
        rw [Array.size_push]; omega
      by_cases hsk : s < k
      · have h1 : s < (dpTable F nmax k).size := by omega
        have := hcell s hsk n hn
        rw [Array.getD_eq_getD_getElem? (i := s) (d := #[]), Array.getElem?_eq_getElem h1, Option.getD_some]
          at this
        rw [Array.getD_eq_getD_getElem? (i := s) (d := #[]), Array.getElem?_eq_getElem h2, Option.getD_some,
          Array.getElem_push_lt h1]
        exact this
      · have hsk' : s = k := by omega
        subst hsk'
        rw [Array.getD_eq_getD_getElem? (i := s) (d := #[]), Array.getElem?_eq_getElem h2, Option.getD_some,
          Array.getElem_push, dif_neg (by omega)]
        exact hrow.2 n (by omega)

/-- Main theorem: the executable table agrees with the recursive specification on every cell. -/
theorem dpGet_dpTable {α : Type} [Inhabited α] (F : Nat → Nat → (Nat → Nat → α) → α)
    (hF : Local F) (nmax rows n s : Nat) (hn : n ≤ nmax) (hs : s < rows) :
    dpGet (dpTable F nmax rows) n s = fixDP F n s :=
  (dpTable_spec F hF nmax rows).2 s hs n hn

/-! ## Locality of the three bodies of `Model/Mixed.lean` -/

/-- congruence of `List.foldl` when the step functions agree on the members of the list -/
theorem foldl_congr_mem {β γ : Type} (l : List γ) (f g : β → γ → β)
    (h : ∀ a x, x ∈ l → f a x = g a x) (b : β) : l.foldl f b = l.foldl g b := by
  induction l generalizing b with
  | nil => rfl
  | cons x xs ih =>
    rw [List.foldl_cons, List.foldl_cons, h b x (List.mem_cons_self ..)]
    exact ih (fun a y hy => h a y (List.mem_cons_of_mem _ hy)) _

theorem clampS_le (n s : Nat) : clampS n s ≤ s := by unfold clampS; omega

/-- the candidate cost of splitting at `i`: `i + cost(i, s) + cost(n - i, s - 1)` (clamped keys) -/
def splitCand (n s : Nat) (cost : Nat → Nat → Nat) (i : Nat) : Nat :=
  i + cost i (clampS i s) + cost (n - i) (clampS (n - i) (s - 1))

theorem splitCand_congr (n s : Nat) (c c' : Nat → Nat → Nat) (i : Nat)
    (h : ∀ i j, i < n → j ≤ s → c i j = c' i j) (h1 : 1 ≤ i) (h2 : i < n) :
    splitCand n s c i = splitCand n s c' i := by
  unfold splitCand
  rw [h i _ h2 (clampS_le _ _),
    h (n - i) _ (by omega) (Nat.le_trans (clampS_le _ _) (Nat.sub_le _ _))]

/-- loop body of `mixed_step_memoization`: keep the last minimiser -/
def memoStep (cand : Nat → Nat) (m : Option Cell) (i : Nat) : Option Cell :=
  match m with
  | none => some ⟨stWriteIcs, i, cand i⟩
  | some c => if cand i ≤ c.cost then some ⟨stWriteIcs, i, cand i⟩ else some c

/-- the final `WRITE_ADJ_DEPS` comparison of `mixed_step_memoization` -/
def memoFinish (m1 : Nat) (m : Option Cell) : Cell :=
  match m with
  | none => default
  | some c => if m1 < c.cost then ⟨stWriteAdjDeps, 1, m1⟩ else c

/-- `memoF` written with the named loop body -/
theorem memoF_def (n s : Nat) (get : Nat → Nat → Cell) :
    memoF n s get =
      if n ≤ 1 then ⟨stForwardReverse, 1, 1⟩
      else if n ≤ s + 1 then ⟨stWriteAdjDeps, 1, n⟩
      else if s = 1 then ⟨stWriteIcs, n - 1, n * (n + 1) / 2 - 1⟩
      else memoFinish (1 + (get (n - 1) (clampS (n - 1) (s - 1))).cost)
        ((List.range' 2 (n - 2)).foldl
          (memoStep (splitCand n s (fun i j => (get i j).cost))) none) := rfl

/-- loop body of `optimal_extra_steps`: keep the first minimiser -/
def extraStep (cand : Nat → Nat) (m : Option Nat) (i : Nat) : Option Nat :=
  match m with
  | none => some (cand i)
  | some c => if cand i < c then some (cand i) else some c

theorem extraF_def (n s : Nat) (get : Nat → Nat → Nat) :
    extraF n s get =
      if n ≤ 1 then 0
      else if s = 1 then n * (n - 1) / 2
      else ((List.range' 1 (n - 1)).foldl (extraStep (splitCand n s get)) none).getD 0 := rfl

theorem optMixedF_def (n s : Nat) (get : Nat → Nat → Nat) :
    optMixedF n s get =
      if n ≤ s + 1 then n
      else if s = 1 then n * (n + 1) / 2 - 1
      else (List.range' 2 (n - 2)).foldl (fun m i => min m (splitCand n s get i))
        (1 + get (n - 1) (clampS (n - 1) (s - 1))) := rfl

theorem memoF_local : Local memoF := by
  intro n s g g' h
  by_cases h1 : n ≤ 1
  · rw [memoF_def, memoF_def, if_pos h1, if_pos h1]
  · have hlast : g (n - 1) (clampS (n - 1) (s - 1)) = g' (n - 1) (clampS (n - 1) (s - 1)) :=
      h _ _ (by omega) (Nat.le_trans (clampS_le _ _) (Nat.sub_le _ _))
    have hfold : (List.range' 2 (n - 2)).foldl
          (memoStep (splitCand n s (fun i j => (g i j).cost))) none =
        (List.range' 2 (n - 2)).foldl
          (memoStep (splitCand n s (fun i j => (g' i j).cost))) none := by
      apply foldl_congr_mem
      intro a i hi
      rw [List.mem_range'_1] at hi
      have : splitCand n s (fun i j => (g i j).cost) i =
          splitCand n s (fun i j => (g' i j).cost) i :=
        splitCand_congr n s _ _ i (fun i j hi hj => by rw [h i j hi hj]) (by omega) (by omega)
      unfold memoStep
      rw [this]
    rw [memoF_def, memoF_def, hlast, hfold]

theorem extraF_local : Local extraF := by
  intro n s g g' h
  have hfold : (List.range' 1 (n - 1)).foldl (extraStep (splitCand n s g)) none =
      (List.range' 1 (n - 1)).foldl (extraStep (splitCand n s g')) none := by
    apply foldl_congr_mem
    intro a i hi
    rw [List.mem_range'_1] at hi
    have : splitCand n s g i = splitCand n s g' i :=
      splitCand_congr n s _ _ i h (by omega) (by omega)
    unfold extraStep
    rw [this]
  rw [extraF_def, extraF_def, hfold]

theorem optMixedF_local : Local optMixedF := by
  intro n s g g' h
  by_cases h1 : n ≤ s + 1
  · rw [optMixedF_def, optMixedF_def, if_pos h1, if_pos h1]
  · by_cases h2 : s = 1
    · rw [optMixedF_def, optMixedF_def, if_neg h1, if_neg h1, if_pos h2, if_pos h2]
    · have hlast : g (n - 1) (clampS (n - 1) (s - 1)) = g' (n - 1) (clampS (n - 1) (s - 1)) :=
        h _ _ (by omega) (Nat.le_trans (clampS_le _ _) (Nat.sub_le _ _))
      have hfold : ∀ b, (List.range' 2 (n - 2)).foldl (fun m i => min m (splitCand n s g i)) b =
          (List.range' 2 (n - 2)).foldl (fun m i => min m (splitCand n s g' i)) b := by
        apply foldl_congr_mem
        intro a i hi
        rw [List.mem_range'_1] at hi
        show min a (splitCand n s g i) = min a (splitCand n s g' i)
        rw [splitCand_congr n s _ _ i h (by omega) (by omega)]
      rw [optMixedF_def, optMixedF_def, hlast, hfold]

/-! ## Unfolding equations of the three cells -/

theorem memoCell_eq (n s : Nat) : memoCell n s = memoF n s memoCell :=
  fixDP_eq memoF memoF_local n s

theorem extraCell_eq (n s : Nat) : extraCell n s = extraF n s extraCell :=
  fixDP_eq extraF extraF_local n s

theorem optMixedCell_eq (n s : Nat) : optMixedCell n s = optMixedF n s optMixedCell :=
  fixDP_eq optMixedF optMixedF_local n s

/-- the tables of the three kernels agree with the recursive functions -/
theorem dpGet_memoTable (nmax rows n s : Nat) (hn : n ≤ nmax) (hs : s < rows) :
    dpGet (dpTable memoF nmax rows) n s = memoCell n s :=
  dpGet_dpTable memoF memoF_local nmax rows n s hn hs

theorem dpGet_extraTable (nmax rows n s : Nat) (hn : n ≤ nmax) (hs : s < rows) :
    dpGet (dpTable extraF nmax rows) n s = extraCell n s :=
  dpGet_dpTable extraF extraF_local nmax rows n s hn hs

theorem dpGet_optMixedTable (nmax rows n s : Nat) (hn : n ≤ nmax) (hs : s < rows) :
    dpGet (dpTable optMixedF nmax rows) n s = optMixedCell n s :=
  dpGet_dpTable optMixedF optMixedF_local nmax rows n s hn hs

end Ckpt
