import CkptVerif.Proofs.MixedDP
/-!
# Shape of the planner's answer `memoCell n s`

For valid clamped keys: the kind of the cell, the range of `len`, and the cost recurrence.
-/
namespace Ckpt

theorem memoCell_one (s : Nat) : memoCell 1 s = ⟨stForwardReverse, 1, 1⟩ := by
  rw [memoCell_eq, memoF_def, if_pos (Nat.le_refl 1)]

/-- `n = s + 1` (every step gets a unit): `WRITE_ADJ_DEPS`, cost `n` -/
theorem memoCell_small (n s : Nat) (hn : 2 ≤ n) (hs : n ≤ s + 1) :
    memoCell n s = ⟨stWriteAdjDeps, 1, n⟩ := by
  rw [memoCell_eq, memoF_def, if_neg (by omega), if_pos hs]

theorem memoCell_cost_small (n s : Nat) (h : validKey n s = true) (hs : n ≤ s + 1) :
    (memoCell n s).cost = n := by
  rw [validKey_iff] at h
  by_cases h1 : n = 1
  · subst h1; rw [memoCell_one]
  · rw [memoCell_small n s (by omega) hs]

theorem memoCell_s_one (n : Nat) (hn : 3 ≤ n) :
    memoCell n 1 = ⟨stWriteIcs, n - 1, n * (n + 1) / 2 - 1⟩ := by
  rw [memoCell_eq, memoF_def, if_neg (by omega), if_neg (by omega), if_pos rfl]

/-- the cost with a single unit, including `n = 2` (which is the `WRITE_ADJ_DEPS` branch) -/
theorem memoCell_cost_s_one (n : Nat) (hn : 2 ≤ n) :
    (memoCell n 1).cost = n * (n + 1) / 2 - 1 := by
  by_cases h : n = 2
  · subst h; rw [memoCell_small 2 1 (by omega) (by omega)]
  · rw [memoCell_s_one n (by omega)]

/-- triangular-number step: `(m+1)(m+2)/2 = m(m+1)/2 + (m+1)` -/
theorem tri_succ (m : Nat) : (m + 1) * (m + 1 + 1) / 2 = m * (m + 1) / 2 + (m + 1) := by
  have e : (m + 1) * (m + 1 + 1) = m * (m + 1) + (m + 1) * 2 := by
    rw [Nat.mul_add (m + 1) (m + 1) 1, Nat.mul_one, Nat.add_mul m 1 (m + 1), Nat.one_mul,
      Nat.mul_two]
    omega
  rw [e, Nat.add_mul_div_right _ _ (by omega : 0 < 2)]

/-- the planner's loop from a `some` accumulator preserves any property shared by the
accumulator and all candidate cells -/
theorem memoStep_fold_inv (cand : Nat → Nat) (P : Cell → Prop) (l : List Nat)
    (hl : ∀ i, i ∈ l → P ⟨stWriteIcs, i, cand i⟩) (c : Cell) (hc : P c) :
    ∃ c', l.foldl (memoStep cand) (some c) = some c' ∧ P c' := by
  induction l generalizing c with
  | nil => exact ⟨c, rfl, hc⟩
  | cons x xs ih =>
    rw [List.foldl_cons]
    have hxs : ∀ i, i ∈ xs → P ⟨stWriteIcs, i, cand i⟩ :=
      fun i hi => hl i (List.mem_cons_of_mem _ hi)
    by_cases hx : cand x ≤ c.cost
    · have e : memoStep cand (some c) x = some ⟨stWriteIcs, x, cand x⟩ := by
        show (if cand x ≤ c.cost then _ else _) = _
        rw [if_pos hx]
      rw [e]
      exact ih hxs _ (hl x (List.mem_cons_self ..))
    · have e : memoStep cand (some c) x = some c := by
        show (if cand x ≤ c.cost then _ else _) = _
        rw [if_neg hx]
      rw [e]
      exact ih hxs c hc

theorem memoStep_fold_none_inv (cand : Nat → Nat) (P : Cell → Prop) (x : Nat) (xs : List Nat)
    (hl : ∀ i, i ∈ x :: xs → P ⟨stWriteIcs, i, cand i⟩) :
    ∃ c', (x :: xs).foldl (memoStep cand) none = some c' ∧ P c' := by
  rw [List.foldl_cons]
  have e : memoStep cand none x = some ⟨stWriteIcs, x, cand x⟩ := rfl
  rw [e]
  exact memoStep_fold_inv cand P xs (fun i hi => hl i (List.mem_cons_of_mem _ hi)) _
    (hl x (List.mem_cons_self ..))

/-- The general branch (`s ≥ 2`, `n > s + 1`): the answer is either the `WRITE_ADJ_DEPS` candidate
or one of the `WRITE_ICS` candidates `2 ≤ i < n`. -/
theorem memoCell_general (n s : Nat) (hs : 2 ≤ s) (hn : s + 1 < n) :
    memoCell n s = ⟨stWriteAdjDeps, 1, 1 + (memoCell (n - 1) (clampS (n - 1) (s - 1))).cost⟩ ∨
    ∃ i, 2 ≤ i ∧ i < n ∧ memoCell n s = ⟨stWriteIcs, i,
      i + (memoCell i (clampS i s)).cost + (memoCell (n - i) (clampS (n - i) (s - 1))).cost⟩ := by
  rw [memoCell_eq, memoF_def, if_neg (by omega), if_neg (by omega), if_neg (by omega)]
  obtain ⟨k, hk⟩ : ∃ k, n - 2 = k + 1 := ⟨n - 3, by omega⟩
  have hrange : List.range' 2 (n - 2) = 2 :: List.range' 3 k := by rw [hk, List.range'_succ]
  obtain ⟨c', h1, i, hi2, hin, hc'⟩ := memoStep_fold_none_inv
    (splitCand n s (fun i j => (memoCell i j).cost))
    (fun c => ∃ i, 2 ≤ i ∧ i < n ∧ c = ⟨stWriteIcs, i,
      i + (memoCell i (clampS i s)).cost + (memoCell (n - i) (clampS (n - i) (s - 1))).cost⟩)
    2 (List.range' 3 k)
    (by
      intro i hi
      rw [← hrange, List.mem_range'_1] at hi
      exact ⟨i, by omega, by omega, rfl⟩)
  rw [hrange, h1]
  have hfin : memoFinish (1 + (memoCell (n - 1) (clampS (n - 1) (s - 1))).cost) (some c') =
      if 1 + (memoCell (n - 1) (clampS (n - 1) (s - 1))).cost < c'.cost then
        ⟨stWriteAdjDeps, 1, 1 + (memoCell (n - 1) (clampS (n - 1) (s - 1))).cost⟩ else c' := rfl
  rw [hfin]
  by_cases hlt : 1 + (memoCell (n - 1) (clampS (n - 1) (s - 1))).cost < c'.cost
  · rw [if_pos hlt]; exact Or.inl rfl
  · rw [if_neg hlt]; exact Or.inr ⟨i, hi2, hin, hc'⟩

theorem memoCell_cases (n s : Nat) (h : validKey n s = true) (hn : 2 ≤ n) :
    1 ≤ s ∧
    (((memoCell n s).kind = stWriteAdjDeps ∧ (memoCell n s).len = 1 ∧
        (memoCell n s).cost = 1 + (memoCell (n - 1) (clampS (n - 1) (s - 1))).cost) ∨
     ((memoCell n s).kind = stWriteIcs ∧ 2 ≤ (memoCell n s).len ∧ (memoCell n s).len ≤ n - 1 ∧
        s + 1 < n ∧
        (memoCell n s).cost = (memoCell n s).len
          + (memoCell (memoCell n s).len (clampS (memoCell n s).len s)).cost
          + (memoCell (n - (memoCell n s).len) (clampS (n - (memoCell n s).len) (s - 1))).cost)) := by
  rw [validKey_iff] at h
  have hs1 : 1 ≤ s := by omega
  refine ⟨hs1, ?_⟩
  by_cases h2 : n ≤ s + 1
  · -- `n = s + 1`
    left
    have hv : validKey (n - 1) (clampS (n - 1) (s - 1)) = true := by
      rw [validKey_iff]; unfold clampS; omega
    rw [memoCell_small n s hn h2, memoCell_cost_small _ _ hv (by unfold clampS; omega)]
    exact ⟨rfl, rfl, by show n = 1 + (n - 1); omega⟩
  · by_cases h3 : s = 1
    · -- one unit
      right
      subst h3
      have hc1 : clampS (n - 1) 1 = 1 := by unfold clampS; omega
      rw [memoCell_s_one n (by omega)]
      refine ⟨rfl, by show 2 ≤ n - 1; omega, Nat.le_refl _, by omega, ?_⟩
      show n * (n + 1) / 2 - 1 = (n - 1) + (memoCell (n - 1) (clampS (n - 1) 1)).cost
        + (memoCell (n - (n - 1)) (clampS (n - (n - 1)) (1 - 1))).cost
      have e1 : n - (n - 1) = 1 := by omega
      rw [hc1, e1, memoCell_one, memoCell_cost_s_one (n - 1) (by omega)]
      obtain ⟨m, rfl⟩ : ∃ m, n = m + 1 := ⟨n - 1, by omega⟩
      show (m + 1) * (m + 1 + 1) / 2 - 1 = m + (m * (m + 1) / 2 - 1) + 1
      rw [tri_succ]
      have : 1 ≤ m * (m + 1) / 2 := by
        have : 2 ≤ m * (m + 1) := Nat.mul_le_mul (by omega : 2 ≤ m) (by omega : 1 ≤ m + 1)
        omega
      omega
    · rcases memoCell_general n s (by omega) (by omega) with e | ⟨i, hi2, hin, e⟩
      · left; rw [e]; exact ⟨rfl, rfl, rfl⟩
      · right; rw [e]; exact ⟨rfl, hi2, by show i ≤ n - 1; omega, by omega, rfl⟩

theorem memoCell_kind_only (n s : Nat) (h : validKey n s = true) :
    ((memoCell n s).kind = stForwardReverse ∨ (memoCell n s).kind = stWriteAdjDeps ∨
      (memoCell n s).kind = stWriteIcs) ∧
    ((memoCell n s).kind = stForwardReverse ↔ n = 1) := by
  by_cases h1 : n = 1
  · subst h1
    rw [memoCell_one]
    exact ⟨Or.inl rfl, fun _ => rfl, fun _ => rfl⟩
  · have hn : 2 ≤ n := by rw [validKey_iff] at h; omega
    obtain ⟨_, hc | hc⟩ := memoCell_cases n s h hn
    · rw [hc.1]
      exact ⟨Or.inr (Or.inl rfl), fun hk => absurd hk (by decide), fun hk => absurd hk h1⟩
    · rw [hc.1]
      exact ⟨Or.inr (Or.inr rfl), fun hk => absurd hk (by decide), fun hk => absurd hk h1⟩

/-- numeric form of `memoCell_kind_only` -/
theorem memoCell_kind_num (n s : Nat) (h : validKey n s = true) :
    ((memoCell n s).kind = 2 ∨ (memoCell n s).kind = 3 ∨ (memoCell n s).kind = 4) ∧
    ((memoCell n s).kind = 2 ↔ n = 1) :=
  memoCell_kind_only n s h

end Ckpt
