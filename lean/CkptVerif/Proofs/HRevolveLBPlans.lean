import CkptVerif.Proofs.HRevolveLBTab
/-!
# Stack plans: the potential for LIFO (top-restart) schedules

Abstract state: a stack `S` of stored checkpoints (most recent first; position and level), the
position of the forward state in working storage (if any), and the adjoint position `a` (steps
`[0, a)` are still to be reversed).

A *plan* cuts `[0, a)` into consecutive pieces, one for each stored checkpoint that is used (in stack
order) and possibly a last piece for the state in working storage.  The piece of a stored checkpoint
`(e, level)` is reversed by a *group* of lazy loads: each item loads the checkpoint (cost `rd` from
DISK), advances to its base, and reverses the steps up to the next base by a hierarchical strategy
(`HLB.A`) that uses the units that are free at that time: ALL stored checkpoints below count as
occupied (in a LIFO schedule they cannot be touched before their turn), and the checkpoint itself is
occupied except during its lowest (last) item.

`Reach … n`: some plan costs at most `n`.  The lemmas `reach_*` are the moves of a LIFO schedule.
-/
namespace Ckpt.HLB

abbrev Src := Nat × Bool

def nR (S : List Src) : Nat := (S.filter (fun s => !s.2)).length
def nD (S : List Src) : Nat := (S.filter (fun s => s.2)).length

theorem nR_cons_ram (e : Nat) (S : List Src) : nR ((e, false) :: S) = nR S + 1 := by
  simp [nR]
theorem nR_cons_disk (e : Nat) (S : List Src) : nR ((e, true) :: S) = nR S := by
  simp [nR]
theorem nD_cons_ram (e : Nat) (S : List Src) : nD ((e, false) :: S) = nD S := by
  simp [nD]
theorem nD_cons_disk (e : Nat) (S : List Src) : nD ((e, true) :: S) = nD S + 1 := by
  simp [nD]
theorem nR_nil : nR [] = 0 := rfl
theorem nD_nil : nD [] = 0 := rfl

/-- cost of loading a checkpoint of the given level -/
def ldc (c : Costs) (d : Bool) : Nat := if d then c.rd else 0
/-- units that are free for the upper items of a group: the checkpoint itself is occupied -/
def kUp (d : Bool) (k : Nat) : Nat := if d then k else k - 1
def mUp (d : Bool) (m : Nat) : Nat := if d then m - 1 else m

theorem kUp_cons (c0 e : Nat) (d : Bool) (S : List Src) : c0 - nR ((e, d) :: S) = kUp d (c0 - nR S) := by
  cases d
  · rw [nR_cons_ram]; simp only [kUp, Bool.false_eq_true, if_false]; omega
  · rw [nR_cons_disk]; simp [kUp]
theorem mUp_cons (c1 e : Nat) (d : Bool) (S : List Src) : c1 - nD ((e, d) :: S) = mUp d (c1 - nD S) := by
  cases d
  · rw [nD_cons_ram]; simp [mUp]
  · rw [nD_cons_disk]; simp only [mUp, if_true]; omega

/-- the upper items of a group: bases `lo < … < hi`, each item loads the checkpoint at `e` again -/
inductive Upper (c : Costs) (e : Nat) (d : Bool) (k m : Nat) : Nat → Nat → Nat → Prop
  | nil (lo : Nat) : Upper c e d k m lo lo 0
  | cons (lo b hi v n : Nat) (hlt : lo < b) (hv : A c false (kUp d k) (b - lo) (mUp d m) v)
      (hrest : Upper c e d k m b hi n) : Upper c e d k m lo hi (ldc c d + (lo - e) * c.uf + v + n)

theorem Upper_le {c : Costs} {e : Nat} {d : Bool} {k m lo hi n : Nat} (h : Upper c e d k m lo hi n) :
    lo ≤ hi := by
  induction h with
  | nil => exact le_refl _
  | cons lo b hi v n hlt _ _ ih => omega

theorem Upper_snoc {c : Costs} {e : Nat} {d : Bool} {k m lo hi n : Nat} (h : Upper c e d k m lo hi n)
    (hi' v : Nat) (hlt : hi < hi') (hv : A c false (kUp d k) (hi' - hi) (mUp d m) v) :
    Upper c e d k m lo hi' (n + (ldc c d + (hi - e) * c.uf + v)) := by
  induction h with
  | nil lo =>
    have := Upper.cons (c := c) (e := e) (d := d) (k := k) (m := m) lo hi' hi' v 0 hlt hv (Upper.nil hi')
    simpa using this
  | cons lo b hi v0 n0 hlt0 hv0 _ ih =>
    have := Upper.cons (c := c) (e := e) (d := d) (k := k) (m := m) lo b hi' v0 _ hlt0 hv0 (ih hlt hv)
    have e1 : ldc c d + (lo - e) * c.uf + v0 + (n0 + (ldc c d + (hi - e) * c.uf + v)) =
        ldc c d + (lo - e) * c.uf + v0 + n0 + (ldc c d + (hi - e) * c.uf + v) := by omega
    rw [e1] at this
    exact this

/-- the group of a stored checkpoint `(e, level)`: covers `[lo, hi)`, base resources `(k, m)` -/
inductive Grp (c : Costs) : Src → Nat → Nat → Nat → Nat → Nat → Prop
  | lazy (e : Nat) (d : Bool) (k m lo b hi v n : Nat) (he : e ≤ lo) (hlt : lo < b)
      (hv : A c false k (b - lo) m v) (hup : Upper c e d k m b hi n) :
      Grp c (e, d) k m lo hi (ldc c d + (lo - e) * c.uf + v + n)
  | stay (e k m b hi v n : Nat) (hlt : e < b) (hv : A c true k (b - e) m v)
      (hup : Upper c e true k m b hi n) : Grp c (e, true) k m e hi (c.rd + v + n)

theorem Grp_bounds {c : Costs} {t : Src} {k m lo hi n : Nat} (h : Grp c t k m lo hi n) :
    t.1 ≤ lo ∧ lo < hi := by
  cases h with
  | lazy e d k m lo b hi v n he hlt hv hup => exact ⟨he, by have := Upper_le hup; omega⟩
  | stay e k m b hi v n hlt hv hup => exact ⟨le_refl _, by have := Upper_le hup; omega⟩

theorem Grp_snoc {c : Costs} {e : Nat} {d : Bool} {k m lo hi n : Nat} (h : Grp c (e, d) k m lo hi n)
    (hi' v : Nat) (hlt : hi < hi') (hv : A c false (kUp d k) (hi' - hi) (mUp d m) v) :
    Grp c (e, d) k m lo hi' (n + (ldc c d + (hi - e) * c.uf + v)) := by
  cases h with
  | lazy _ _ _ _ _ b _ v0 n0 he hlt0 hv0 hup =>
    have := Grp.lazy e d k m lo b hi' v0 _ he hlt0 hv0 (Upper_snoc hup hi' v hlt hv)
    have e1 : ldc c d + (lo - e) * c.uf + v0 + (n0 + (ldc c d + (hi - e) * c.uf + v)) =
        ldc c d + (lo - e) * c.uf + v0 + n0 + (ldc c d + (hi - e) * c.uf + v) := by omega
    rw [e1] at this
    exact this
  | stay _ _ _ b _ v0 n0 hlt0 hv0 hup =>
    have := Grp.stay e k m b hi' v0 _ hlt0 hv0 (Upper_snoc hup hi' v hlt hv)
    have e1 : c.rd + v0 + (n0 + (ldc c true + (hi - e) * c.uf + v)) =
        c.rd + v0 + n0 + (ldc c true + (hi - e) * c.uf + v) := by omega
    rw [e1] at this
    exact this

/-- the stored checkpoints `S` (most recent first) cover `[0, hi)` at cost `n` -/
inductive Cover (c : Costs) (c0 c1 : Nat) : List Src → Nat → Nat → Prop
  | nil : Cover c c0 c1 [] 0 0
  | skip (t : Src) (S : List Src) (hi n : Nat) (h : Cover c c0 c1 S hi n) : Cover c c0 c1 (t :: S) hi n
  | use (t : Src) (S : List Src) (mid hi n1 n2 : Nat) (h : Cover c c0 c1 S mid n1)
      (hg : Grp c t (c0 - nR S) (c1 - nD S) mid hi n2) : Cover c c0 c1 (t :: S) hi (n1 + n2)

theorem Cover_zero (c : Costs) (c0 c1 : Nat) (S : List Src) : Cover c c0 c1 S 0 0 := by
  induction S with
  | nil => exact Cover.nil
  | cons t S ih => exact Cover.skip t S 0 0 ih

/-- some plan for the stack `S`, the forward state `W` and the adjoint at `a` costs at most `n` -/
def Reach (c : Costs) (c0 c1 : Nat) (S : List Src) (W : Option Nat) (a n : Nat) : Prop :=
  (∃ n', Cover c c0 c1 S a n' ∧ n' ≤ n) ∨
  (∃ f bw n1 v, W = some f ∧ f ≤ bw ∧ bw < a ∧ Cover c c0 c1 S bw n1 ∧
      A c false (c0 - nR S) (a - bw) (c1 - nD S) v ∧ n1 + (bw - f) * c.uf + v ≤ n)

section
variable {c : Costs} {c0 c1 : Nat}

theorem reach_final (S : List Src) (W : Option Nat) : Reach c c0 c1 S W 0 0 :=
  Or.inl ⟨0, Cover_zero c c0 c1 S, le_refl _⟩

theorem reach_weaken {S : List Src} {W : Option Nat} {a n n' : Nat} (h : Reach c c0 c1 S W a n)
    (hn : n ≤ n') : Reach c c0 c1 S W a n' := by
  rcases h with ⟨m, hc, hle⟩ | ⟨f, bw, n1, v, hW, h1, h2, hc, hv, hle⟩
  · exact Or.inl ⟨m, hc, by omega⟩
  · exact Or.inr ⟨f, bw, n1, v, hW, h1, h2, hc, hv, by omega⟩

/-- the forward state is not needed -/
theorem reach_noW {S : List Src} {W : Option Nat} {a n : Nat} (h : Reach c c0 c1 S none a n) :
    Reach c c0 c1 S W a n := by
  rcases h with ⟨m, hc, hle⟩ | ⟨f, bw, n1, v, hW, _⟩
  · exact Or.inl ⟨m, hc, hle⟩
  · cases hW

/-- a forward state at or beyond the adjoint is useless -/
theorem reach_dead {S : List Src} {f a n : Nat} (h : Reach c c0 c1 S (some f) a n) (hf : a ≤ f) :
    Reach c c0 c1 S none a n := by
  rcases h with ⟨m, hc, hle⟩ | ⟨f', bw, n1, v, hW, h1, h2, _⟩
  · exact Or.inl ⟨m, hc, hle⟩
  · simp only [Option.some.injEq] at hW; omega

theorem reach_init {N n : Nat} (hN : 1 ≤ N) (h : Reach c c0 c1 [] (some 0) N n) :
    ∃ v, v ≤ n ∧ A c false c0 N c1 v := by
  rcases h with ⟨m, hc, hle⟩ | ⟨f, bw, n1, v, hW, h1, h2, hc, hv, hle⟩
  · cases hc; omega
  · cases hc
    rw [nR_nil, nD_nil] at hv
    exact ⟨v, by omega, hv⟩

/-- **advance** of the forward state -/
theorem reach_adv {S : List Src} {f f' a n : Nat} (hff : f ≤ f')
    (h : Reach c c0 c1 S (some f') a n) : Reach c c0 c1 S (some f) a (n + (f' - f) * c.uf) := by
  rcases h with ⟨m, hc, hle⟩ | ⟨g, bw, n1, v, hW, h1, h2, hc, hv, hle⟩
  · exact Or.inl ⟨m, hc, by omega⟩
  · simp only [Option.some.injEq] at hW
    subst hW
    refine Or.inr ⟨f, bw, n1, v, rfl, by omega, h2, hc, hv, ?_⟩
    have : (bw - f) * c.uf = (bw - f') * c.uf + (f' - f) * c.uf := by
      rw [← Nat.add_mul]; congr 1; omega
    omega

/-- **the turn-around**: the forward state stands at `a - 1`; one forward step, one reversed step -/
theorem reach_turn {S : List Src} {a n : Nat} (ha : 1 ≤ a) (h : Reach c c0 c1 S none (a - 1) n) :
    Reach c c0 c1 S (some (a - 1)) a (n + c.uf) := by
  rcases h with ⟨m, hc, hle⟩ | ⟨f, bw, n1, v, hW, _⟩
  · refine Or.inr ⟨a - 1, a - 1, m, c.uf, rfl, le_refl _, by omega, hc, ?_, ?_⟩
    · have e : a - (a - 1) = 1 := by omega
      rw [e]; exact A.t_one _ _
    · simp; omega
  · cases hW

/-- **loading the top checkpoint** (it stays stored) -/
theorem reach_loadCopy {S : List Src} {W : Option Nat} {e : Nat} {d : Bool} {a n : Nat}
    (h : Reach c c0 c1 ((e, d) :: S) (some e) a n) :
    Reach c c0 c1 ((e, d) :: S) W a (n + ldc c d) := by
  rcases h with ⟨m, hc, hle⟩ | ⟨f, bw, n1, v, hW, h1, h2, hc, hv, hle⟩
  · exact Or.inl ⟨m, hc, by omega⟩
  · simp only [Option.some.injEq] at hW
    subst hW
    rw [kUp_cons, mUp_cons] at hv
    cases hc with
    | skip _ _ _ _ hc' =>
      have hk : kUp d (c0 - nR S) ≤ c0 - nR S := by unfold kUp; split <;> omega
      have hm : mUp d (c1 - nD S) ≤ c1 - nD S := by unfold mUp; split <;> omega
      obtain ⟨v', hv', hA⟩ := A_mono hv _ _ hk hm
      have hg := Grp.lazy e d (c0 - nR S) (c1 - nD S) bw a a v' 0 h1 h2 hA (Upper.nil a)
      exact Or.inl ⟨_, Cover.use (e, d) S bw a n1 _ hc' hg, by omega⟩
    | use _ _ mid _ n1' n2 hc' hg =>
      have hg' := Grp_snoc hg a v h2 hv
      exact Or.inl ⟨_, Cover.use (e, d) S mid a n1' _ hc' hg', by omega⟩

/-- **loading the top checkpoint and removing it** -/
theorem reach_loadMove {S : List Src} {W : Option Nat} {e : Nat} {d : Bool} {a n : Nat}
    (h : Reach c c0 c1 S (some e) a n) : Reach c c0 c1 ((e, d) :: S) W a (n + ldc c d) := by
  rcases h with ⟨m, hc, hle⟩ | ⟨f, bw, n1, v, hW, h1, h2, hc, hv, hle⟩
  · exact Or.inl ⟨m, Cover.skip (e, d) S a m hc, by omega⟩
  · simp only [Option.some.injEq] at hW
    subst hW
    have hg := Grp.lazy e d (c0 - nR S) (c1 - nD S) bw a a v 0 h1 h2 hv (Upper.nil a)
    exact Or.inl ⟨_, Cover.use (e, d) S bw a n1 _ hc hg, by omega⟩

/-! ## storing the forward state: the group of the new checkpoint collapses into one item -/

/-- a RAM group collapses (repeated use of the RAM recurrence inequality) -/
theorem collapse_ram {f k m b hi n : Nat} (hk : 1 ≤ k) (h : Upper c f false k m b hi n) :
    ∀ lo v0, f ≤ lo → lo < b → A c false k (b - lo) m v0 →
      ∃ v, A c false k (hi - lo) m v ∧ v ≤ v0 + n := by
  induction h with
  | nil b => intro lo v0 _ _ hv0; exact ⟨v0, hv0, by omega⟩
  | cons b b' hi v1 n' hlt hv1 _ ih =>
    intro lo v0 hf hlo hv0
    simp only [kUp, mUp, Bool.false_eq_true, if_false] at hv1
    have e1 : b' - lo - (b - lo) = b' - b := by omega
    obtain ⟨v0', hv0', hle⟩ := star c (b' - lo) k m (b - lo) v0 v1 hk (by omega) (by omega) hv0
      (by rw [e1]; exact hv1)
    obtain ⟨v, hv, hle'⟩ := ih lo v0' hf (by omega) hv0'
    refine ⟨v, hv, ?_⟩
    have : (b - lo) * c.uf ≤ (b - f) * c.uf := Nat.mul_le_mul_right _ (by omega)
    simp only [ldc, Bool.false_eq_true, if_false]
    omega

/-- a DISK group collapses (the recurrence of the level-1 table, one read per item) -/
theorem collapse_disk {f k m b hi n : Nat} (h : Upper c f true k m b hi n) :
    ∀ lo p0, f ≤ lo → lo < b → A c true k (b - lo) m p0 →
      ∃ p, A c true k (hi - lo) m p ∧ p ≤ p0 + n := by
  induction h with
  | nil b => intro lo p0 _ _ hp0; exact ⟨p0, hp0, by omega⟩
  | cons b b' hi v1 n' hlt hv1 _ ih =>
    intro lo p0 hf hlo hp0
    simp only [kUp, mUp, if_true] at hv1
    obtain ⟨p0', hp0', hle⟩ := p_split_le hp0 hv1
    have e1 : b - lo + (b' - b) = b' - lo := by omega
    rw [e1] at hp0'
    obtain ⟨p, hp, hle'⟩ := ih lo p0' hf (by omega) hp0'
    refine ⟨p, hp, ?_⟩
    have : (b - lo) * c.uf ≤ (b - f) * c.uf := Nat.mul_le_mul_right _ (by omega)
    simp only [ldc, if_true]
    omega

/-- the group of a checkpoint that was just written from the forward state at `f`, together with the
item of the forward state above it, costs at least as much as a single item of the forward state -/
theorem collapse_grp {f : Nat} {d : Bool} {k m lo hi n2 : Nat} (hk : d = false → 1 ≤ k)
    (hm1 : d = true → 1 ≤ m) (hg : Grp c (f, d) k m lo hi n2) :
    (∃ v, A c false k (hi - lo) m v ∧ (lo - f) * c.uf + v ≤ n2 + (if d then c.wd else 0)) ∧
    (∀ a vw, hi < a → A c false (kUp d k) (a - hi) (mUp d m) vw →
      ∃ v, A c false k (a - lo) m v ∧
        (lo - f) * c.uf + v ≤ n2 + (hi - f) * c.uf + vw + (if d then c.wd else 0)) := by
  cases d with
  | false =>
    have hk1 := hk rfl
    cases hg with
    | lazy _ _ _ _ _ b _ v0 n0 he hlt hv0 hup =>
      simp only [ldc, Bool.false_eq_true, if_false]
      constructor
      · obtain ⟨v, hv, hle⟩ := collapse_ram hk1 hup lo v0 he hlt hv0
        exact ⟨v, hv, by omega⟩
      · intro a vw ha hvw
        have hup' := Upper_snoc hup a vw ha hvw
        obtain ⟨v, hv, hle⟩ := collapse_ram hk1 hup' lo v0 he hlt hv0
        simp only [ldc, Bool.false_eq_true, if_false] at hle
        exact ⟨v, hv, by omega⟩
  | true =>
    -- the price of the first item as a `T'` value
    have key : ∃ b p0 n0, lo < b ∧ A c true k (b - lo) m p0 ∧ Upper c f true k m b hi n0 ∧
        c.rd + (lo - f) * c.uf + p0 + n0 ≤ n2 ∧ f ≤ lo := by
      cases hg with
      | lazy _ _ _ _ _ b _ v0 n0 he hlt hv0 hup =>
        have hm : 1 ≤ m := hm1 rfl
        obtain ⟨p0, hp0, hA⟩ := prime_le hv0 hm
        refine ⟨b, p0, n0, hlt, hA, hup, ?_, he⟩
        simp only [ldc, if_true]
        omega
      | stay _ _ _ b _ v0 n0 hlt hv0 hup =>
        exact ⟨b, v0, n0, hlt, hv0, hup, by simp, le_refl _⟩
    obtain ⟨b, p0, n0, hlt, hp0, hup, hcost, he⟩ := key
    obtain ⟨hm, _⟩ := A_true_inv hp0
    obtain ⟨p, hp, hle⟩ := collapse_disk hup lo p0 he hlt hp0
    simp only [if_true]
    constructor
    · exact ⟨c.wd + p, A.t_disk k (hi - lo) m p hm hp, by omega⟩
    · intro a vw ha hvw
      simp only [kUp, mUp, if_true] at hvw
      obtain ⟨p', hp', hle'⟩ := p_split_le hp hvw
      have hhi := Upper_le hup
      have e1 : hi - lo + (a - hi) = a - lo := by omega
      rw [e1] at hp'
      refine ⟨c.wd + p', A.t_disk k (a - lo) m p' hm hp', ?_⟩
      have : (hi - lo) * c.uf ≤ (hi - f) * c.uf := Nat.mul_le_mul_right _ (by omega)
      omega

/-- **storing the forward state** at its position `f` (a new top checkpoint) -/
theorem reach_store {S : List Src} {f a n : Nat} {d : Bool}
    (hcap : if d then nD S + 1 ≤ c1 else nR S + 1 ≤ c0)
    (h : Reach c c0 c1 ((f, d) :: S) (some f) a n) :
    Reach c c0 c1 S (some f) a (n + (if d then c.wd else 0)) := by
  have hk : d = false → 1 ≤ c0 - nR S := by
    intro hd; subst hd; simp only [Bool.false_eq_true, if_false] at hcap; omega
  have hm1 : d = true → 1 ≤ c1 - nD S := by
    intro hd; subst hd; simp only [if_true] at hcap; omega
  rcases h with ⟨m, hc, hle⟩ | ⟨f', bw, n1, v, hW, h1, h2, hc, hv, hle⟩
  · cases hc with
    | skip _ _ _ _ hc' => exact Or.inl ⟨m, hc', by omega⟩
    | use _ _ mid _ n1 n2 hc' hg =>
      obtain ⟨hb1, hb2⟩ := Grp_bounds hg
      obtain ⟨⟨v, hv, hle'⟩, _⟩ := collapse_grp hk hm1 hg
      exact Or.inr ⟨f, mid, n1, v, rfl, hb1, hb2, hc', hv, by omega⟩
  · simp only [Option.some.injEq] at hW
    subst hW
    rw [kUp_cons, mUp_cons] at hv
    cases hc with
    | skip _ _ _ _ hc' =>
      have hk' : kUp d (c0 - nR S) ≤ c0 - nR S := by unfold kUp; split <;> omega
      have hm' : mUp d (c1 - nD S) ≤ c1 - nD S := by unfold mUp; split <;> omega
      obtain ⟨v', hv', hA⟩ := A_mono hv _ _ hk' hm'
      exact Or.inr ⟨f, bw, n1, v', rfl, h1, h2, hc', hA, by omega⟩
    | use _ _ mid _ n1' n2 hc' hg =>
      obtain ⟨hb1, hb2⟩ := Grp_bounds hg
      obtain ⟨_, hcol⟩ := collapse_grp hk hm1 hg
      obtain ⟨v', hv', hle'⟩ := hcol a v h2 hv
      exact Or.inr ⟨f, mid, n1', v', rfl, hb1, by omega, hc', hv', by omega⟩

end

end Ckpt.HLB

#print axioms Ckpt.HLB.reach_store
#print axioms Ckpt.HLB.reach_loadCopy
