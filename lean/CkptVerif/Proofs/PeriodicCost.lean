import CkptVerif.Proofs.DiskCost
import CkptVerif.Proofs.RevolveSteps
import CkptVerif.Proofs.PeriodicOps
/-!
# PeriodicDiskRevolve never costs less than DiskRevolve (C07)

The cost of the periodic stream is computed from its structure
(`sweep ++ tail segment ++ blocks`); each period is one particular candidate (`j = mx`) of the
minimum that defines DiskRevolve's table `tinf`.
-/
namespace Ckpt.RC
open Ckpt List

/-- the memory-only table value does not depend on how many rows the table has -/
theorem opt0Get_lmax_indep (lmax lmax' mmax uf ub m l : Nat) (hm1 : 1 ≤ m) (hm : m ≤ mmax)
    (hl : l ≤ lmax) (hl' : l ≤ lmax') :
    opt0Get (opt0Table lmax mmax uf ub) m l = opt0Get (opt0Table lmax' mmax uf ub) m l := by
  rw [opt0_eq_extra lmax mmax uf ub l m hl hm1 hm, opt0_eq_extra lmax' mmax uf ub l m hl' hm1 hm]

/-- `tinf[l]` is below every "write a DISK checkpoint after `j` steps" candidate -/
theorem optInf_le_cand (lmax cm uf ub wr : Nat) (t0 : Array (Array Nat)) (l j : Nat) (hl2 : 2 ≤ l)
    (hl : l ≤ lmax) (hj1 : 1 ≤ j) (hj : j ≤ l - 1) :
    (optInfTable lmax cm uf ub wr t0).getD l 0 ≤
      wr + j * uf + (optInfTable lmax cm uf ub wr t0).getD (l - j) 0 + opt0Get t0 cm (j - 1) := by
  rw [optInf_rec lmax cm uf ub wr t0 l hl2 hl]
  refine le_trans (Nat.min_le_right _ _) ?_
  apply foldl_min_le
  exact mem_map.2 ⟨j, mem_range'_1.2 ⟨hj1, by omega⟩, rfl⟩

/-- `q` periods of length `mx` followed by a memory-only tail of `r` steps is an upper bound of
`tinf` -/
theorem optInf_le_periodic (lmax lmax0 mmax cm uf ub wr mx r : Nat) (hcm1 : 1 ≤ cm) (hcm : cm ≤ mmax)
    (hmx : 1 ≤ mx) (hr : 1 ≤ r) :
    ∀ q, (1 ≤ q → 2 ≤ r) → q * mx + r - 1 ≤ lmax →
      (optInfTable lmax cm uf ub wr (opt0Table lmax0 mmax uf ub)).getD (q * mx + r - 1) 0 ≤
        q * (wr + mx * uf + opt0Get (opt0Table lmax0 mmax uf ub) cm (mx - 1)) +
          opt0Get (opt0Table lmax0 mmax uf ub) cm (r - 1) := by
  intro q
  induction q with
  | zero =>
    intro _ hl
    simp only [Nat.zero_mul, Nat.zero_add]
    exact optInf_le_opt0 lmax lmax0 mmax cm uf ub wr hcm1 hcm (r - 1) (by omega)
  | succ q ih =>
    intro hr2 hl
    have hr2' := hr2 (by omega)
    rw [Nat.succ_mul] at hl ⊢
    have h1 := optInf_le_cand lmax cm uf ub wr (opt0Table lmax0 mmax uf ub) (q * mx + mx + r - 1) mx
      (by omega) hl hmx (by omega)
    have e : q * mx + mx + r - 1 - mx = q * mx + r - 1 := by omega
    rw [e] at h1
    have h2 := ih (fun _ => hr2') (by omega)
    rw [Nat.succ_mul]
    omega

/-! ## the cost of the periodic stream -/

theorem cost_sweep (c : Costs) (mx : Nat) : ∀ q,
    cost c ((List.range q).map (sweepEv mx)) = q * (mx * c.uf + c.wd)
  | 0 => by simp
  | q + 1 => by
    rw [range_succ, map_append, cost_append, cost_sweep c mx q]
    have e : (q + 1) * mx - q * mx = mx := by rw [Nat.succ_mul]; omega
    simp [evCost, sweepEv, e]
    ring

theorem cost_blocksOf (c : Costs) (N lmax mmax cm mx : Nat) (hcm : cm ≤ mmax) (hmx : 1 ≤ mx)
    (hl : mx - 1 ≤ lmax) : ∀ q,
    (∀ b < q, revSeg N (opt0Table lmax mmax c.uf c.ub) c.uf cm false (b * mx) ((b + 1) * mx) =
      some (blockSeg N (opt0Table lmax mmax c.uf c.ub) c.uf cm mx b)) →
    cost c (blocksOf N (opt0Table lmax mmax c.uf c.ub) c.uf cm mx q) =
      q * (c.rd + opt0Get (opt0Table lmax mmax c.uf c.ub) cm (mx - 1) + mx * c.uf)
  | 0, _ => by simp [blocksOf]
  | q + 1, hseg => by
    have ih := cost_blocksOf c N lmax mmax cm mx hcm hmx hl q (fun b hb => hseg b (by omega))
    have e : (q + 1) * mx - q * mx = mx := by rw [Nat.succ_mul]; omega
    have hs := revSeg_cost c N lmax mmax cm hcm false _ _ _ (hseg q (by omega))
      (by rw [Nat.succ_mul]; omega) (by rw [e]; exact hl)
    rw [e] at hs
    rw [blocksOf, cost_cons, cost_append, ih, hs]
    simp [evCost, blockMove]
    ring

/-- the cost of the PeriodicDiskRevolve stream in closed form -/
theorem periodic_cost (N cm : Nat) (c : Costs) (mx : Nat) (evs : List Ev) (hN : 1 ≤ N)
    (hmx : mxrr cm c.uf (c.wd + c.rd) = some mx) (h : periodicEvs N cm c = .ok evs) :
    let q := (N - 2) / mx
    let t0 := opt0Table (max (N - 1) (mx + 1)) cm c.uf c.ub
    cost c evs = q * (mx * c.uf + c.wd) + (opt0Get t0 cm (N - q * mx - 1) + (N - q * mx) * c.uf) +
      q * (c.rd + opt0Get t0 cm (mx - 1) + mx * c.uf) := by
  intro q t0
  obtain ⟨hmx1, hq1, hq2, mid, hmid, hsegs, hevs⟩ := periodic_structure N cm c mx evs hN hmx h
  rw [← blocksOf_eq_flatMap] at hevs
  have hm := revSeg_cost c N _ cm cm (le_refl _) true _ _ mid hmid hq1 (by omega)
  have hb := cost_blocksOf c N (max (N - 1) (mx + 1)) cm cm mx (le_refl _) hmx1 (by omega)
    ((N - 2) / mx) hsegs
  have e0 : cost c [(⟨.endReverse, 1, N⟩ : Ev)] = 0 := rfl
  rw [hevs, cost_append, cost_append, cost_append, cost_sweep, hm, hb, e0, Nat.add_zero]

/-- C07: for the same parameters DiskRevolve never costs more than PeriodicDiskRevolve -/
theorem diskRevolve_le_periodic (N cm : Nat) (c : Costs) (hN : 1 ≤ N) (hcm : 1 ≤ cm)
    (evsP evsD : List Ev) (hP : periodicEvs N cm c = .ok evsP)
    (hD : diskRevolveEvs N cm c = .ok evsD) : cost c evsD ≤ cost c evsP := by
  -- the period exists because the periodic stream does
  have hmx : ∃ mx, mxrr cm c.uf (c.wd + c.rd) = some mx := by
    cases hm : mxrr cm c.uf (c.wd + c.rd) with
    | none => simp [periodicEvs, hm] at hP
    | some mx => exact ⟨mx, rfl⟩
  obtain ⟨mx, hmx⟩ := hmx
  obtain ⟨hmx1, hq1, hq2, _⟩ := periodic_structure N cm c mx evsP hN hmx hP
  have hle : (N - 2) / mx * mx ≤ N - 2 := Nat.div_mul_le_self _ _
  rw [diskRevolve_cost N cm c hN hcm evsD hD, periodic_cost N cm c mx evsP hN hmx hP]
  generalize (N - 2) / mx = q at *
  -- bring the periodic table to the rows of DiskRevolve's
  have eA : opt0Get (opt0Table (max (N - 1) (mx + 1)) cm c.uf c.ub) cm (N - q * mx - 1) =
      opt0Get (opt0Table (N - 1) cm c.uf c.ub) cm (N - q * mx - 1) :=
    opt0Get_lmax_indep _ _ cm c.uf c.ub cm _ hcm (le_refl _) (by omega) (by omega)
  -- `q ≥ 1` forces a tail of at least two steps, and `mx - 1 ≤ N - 1`
  have hr2 : 1 ≤ q → 2 ≤ N - q * mx := by
    intro h1
    have : mx ≤ q * mx := Nat.le_mul_of_pos_left _ h1
    omega
  rcases Nat.eq_zero_or_pos q with h0 | hpos
  · -- no period at all: the stream is plain Revolve
    subst h0
    simp only [Nat.zero_mul, Nat.sub_zero, Nat.add_zero, Nat.zero_add] at eA ⊢
    rw [eA]
    have := optInf_le_opt0 (N - 1) (N - 1) cm cm c.uf c.ub (c.wd + c.rd) hcm (le_refl _) (N - 1)
      (le_refl _)
    omega
  · have hmxN : mx - 1 ≤ N - 1 := by
      have : mx ≤ q * mx := Nat.le_mul_of_pos_left _ hpos
      omega
    have eB : opt0Get (opt0Table (max (N - 1) (mx + 1)) cm c.uf c.ub) cm (mx - 1) =
        opt0Get (opt0Table (N - 1) cm c.uf c.ub) cm (mx - 1) :=
      opt0Get_lmax_indep _ _ cm c.uf c.ub cm _ hcm (le_refl _) (by omega) hmxN
    rw [eA, eB]
    have key := optInf_le_periodic (N - 1) (N - 1) cm cm c.uf c.ub (c.wd + c.rd) mx (N - q * mx) hcm
      (le_refl _) hmx1 (by omega) q hr2 (by omega)
    have e1 : q * mx + (N - q * mx) - 1 = N - 1 := by omega
    rw [e1] at key
    have hsplit : N * c.uf = q * (mx * c.uf) + (N - q * mx) * c.uf := by
      rw [← Nat.mul_assoc, ← Nat.add_mul]; congr 1; omega
    have d1 : q * (mx * c.uf + c.wd) = q * (mx * c.uf) + q * c.wd := by ring
    have d2 : q * (c.rd + opt0Get (opt0Table (N - 1) cm c.uf c.ub) cm (mx - 1) + mx * c.uf) =
        q * c.rd + q * opt0Get (opt0Table (N - 1) cm c.uf c.ub) cm (mx - 1) + q * (mx * c.uf) := by ring
    have d3 : q * (c.wd + c.rd + mx * c.uf + opt0Get (opt0Table (N - 1) cm c.uf c.ub) cm (mx - 1)) =
        q * c.wd + q * c.rd + q * (mx * c.uf) +
          q * opt0Get (opt0Table (N - 1) cm c.uf c.ub) cm (mx - 1) := by ring
    rw [d3] at key
    rw [hsplit, d1, d2]
    omega

/-- C07, the chain: `cost(DiskRevolve) ≤ cost(PeriodicDiskRevolve)` and `cost(DiskRevolve) ≤ cost(Revolve)` -/
theorem diskRevolve_cheapest (N cm : Nat) (c : Costs) (hN : 1 ≤ N) (hcm : 1 ≤ cm)
    (evsP evsD evsR : List Ev) (hP : periodicEvs N cm c = .ok evsP)
    (hD : diskRevolveEvs N cm c = .ok evsD) (hR : revolveEvs N cm c = .ok evsR) :
    cost c evsD ≤ cost c evsP ∧ cost c evsD ≤ cost c evsR :=
  ⟨diskRevolve_le_periodic N cm c hN hcm evsP evsD hP hD, diskRevolve_le_revolve N cm c hN hcm evsD evsR hD hR⟩

-- N = 12, one RAM unit, wd = rd = 5: DiskRevolve is strictly cheaper (70 < 75)
example : (match diskRevolveEvs 12 1 ⟨1, 1, 5, 5⟩ with | .ok e => cost ⟨1, 1, 5, 5⟩ e | .error _ => 0) <
    (match periodicEvs 12 1 ⟨1, 1, 5, 5⟩ with | .ok e => cost ⟨1, 1, 5, 5⟩ e | .error _ => 0) := by
  decide +kernel

end Ckpt.RC
