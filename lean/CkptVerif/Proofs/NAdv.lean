import CkptVerif.Model.NAdv
import Mathlib.Data.Nat.Choose.Basic
import Mathlib.Tactic
/-! Facts about the model of `n_advance`: the loop invariant (the three running values are binomial
coefficients), termination within the fuel, and the range of the result. -/
namespace Ckpt
open Nat

/-- exact division identity used by the loop update -/
theorem choose_step (s t : Nat) :
    (choose (s + t) t * (s + (t+1))) / (t+1) = choose (s + (t+1)) (t+1) := by
  have h := Nat.add_one_mul_choose_eq (s + t) t
  -- (s+t+1) * choose (s+t) t = choose (s+t+1) (t+1) * (t+1)
  have : choose (s + t) t * (s + (t+1)) = choose (s + (t+1)) (t+1) * (t+1) := by
    have e : s + (t+1) = (s+t) + 1 := by omega
    rw [e, Nat.mul_comm]; exact h
  rw [this]; exact Nat.mul_div_cancel _ (by omega)

theorem choose_ge (s t : Nat) (hs : 1 ≤ s) : t + 1 ≤ choose (s + t) t := by
  induction t with
  | zero => simp
  | succ t ih =>
    have : choose (s + (t+1)) (t+1) = choose (s+t) t + choose (s+t) (t+1) := by
      have e : s + (t+1) = (s+t) + 1 := by omega
      rw [e, Nat.choose_succ_succ]
    have h2 : 1 ≤ choose (s+t) (t+1) := Nat.choose_pos (by omega)
    omega

structure LoopInv (n s t b2 b1 b0 : Nat) : Prop where
  t2 : 2 ≤ t
  e0 : b0 = choose (s + t) t
  e1 : b1 = choose (s + (t-1)) (t-1)
  e2 : b2 = choose (s + (t-2)) (t-2)
  lt : b1 < n

theorem advLoop_spec (fuel n s t b2 b1 b0 : Nat) (hs : 1 ≤ s)
    (inv : LoopInv n s t b2 b1 b0) (hf : n + 2 ≤ fuel + t) :
    ∃ t' c2 c1 c0, advLoop fuel n s t b2 b1 b0 = some (t', c2, c1, c0) ∧
      LoopInv n s t' c2 c1 c0 ∧ n ≤ c0 := by
  induction fuel generalizing t b2 b1 b0 with
  | zero =>
    exfalso
    have := choose_ge s (t-1) hs
    have h1 := inv.e1; have h2 := inv.lt; have := inv.t2
    omega
  | succ fuel ih =>
    unfold advLoop
    by_cases hc : b1 ≥ n ∨ n > b0
    · simp only [hc, if_true]
      have hb0 : n > b0 := by
        rcases hc with h | h
        · have := inv.lt; omega
        · exact h
      have hge := choose_ge s t hs
      have he0 := inv.e0
      apply ih
      · refine ⟨by have := inv.t2; omega, ?_, ?_, ?_, ?_⟩
        · rw [inv.e0]; exact choose_step s t
        · simpa using inv.e0
        · have : t + 1 - 2 = t - 1 := by have := inv.t2; omega
          rw [this]; exact inv.e1
        · exact hb0
      · omega
    · simp only [hc, if_false]
      refine ⟨t, b2, b1, b0, rfl, inv, ?_⟩
      have : ¬ (n > b0) := fun h => hc (Or.inr h)
      omega

theorem choose_lower (a b : Nat) (ha : 1 ≤ a) :
    (choose (a + b) b * a) / (a + b) = choose (a - 1 + b) b := by
  have h := Nat.choose_mul_succ_eq (a - 1 + b) b
  have e : a - 1 + b + 1 = a + b := by omega
  rw [e] at h
  have e2 : a + b - b = a := by omega
  rw [e2] at h
  rw [← h]; exact Nat.mul_div_cancel _ (by omega)

theorem choose_strict (s t : Nat) (hs : 1 ≤ s) : choose (s + t) t < choose (s + (t+1)) (t+1) := by
  have : choose (s + (t+1)) (t+1) = choose (s+t) t + choose (s+t) (t+1) := by
    have e : s + (t+1) = (s+t) + 1 := by omega
    rw [e, Nat.choose_succ_succ]
  have h2 : 1 ≤ choose (s+t) (t+1) := Nat.choose_pos (by omega)
  omega

theorem nAdvance_one (n : Nat) (traj : Traj) (hn : 1 ≤ n) : nAdvance n 1 traj = some (n - 1) := by
  unfold nAdvance
  have h1 : ¬ n < 1 := by omega
  have h2 : max (min 1 (n - 1)) 1 = 1 := by omega
  simp [h1, h2]

theorem nAdvance_range (n s : Nat) (traj : Traj) (hn : 2 ≤ n) (hs : 1 ≤ s) :
    ∃ a, nAdvance n s traj = some a ∧ 1 ≤ a ∧ a ≤ n - 1 := by
  unfold nAdvance
  have h1 : ¬ n < 1 := by omega
  have h0 : ¬ s = 0 := by omega
  simp only [h1, h0, if_false]
  generalize hs' : max (min s (n - 1)) 1 = s'
  by_cases c1 : s' = 1
  · rw [if_pos c1]; exact ⟨_, rfl, by omega, by omega⟩
  rw [if_neg c1]
  by_cases c2 : s' = n - 1
  · rw [if_pos c2]; exact ⟨_, rfl, by omega, by omega⟩
  rw [if_neg c2]
  have hs'1 : 2 ≤ s' := by omega
  have hs'2 : s' + 2 ≤ n := by omega
  have inv0 : LoopInv n s' 2 1 (s'+1) (((s'+1)*(s'+2))/2) := by
    refine ⟨le_refl _, ?_, ?_, ?_, by omega⟩
    · have := choose_step s' 1
      have e1 : choose (s'+1) 1 = s' + 1 := by simp
      rw [e1] at this
      simpa using this
    · simp
    · simp
  obtain ⟨t, b2, b1, b0, hl, inv, hle⟩ := advLoop_spec (n+1) n s' 2 1 (s'+1) _ (by omega) inv0 (by omega)
  rw [hl]
  dsimp only
  have ht := inv.t2
  have hb1lt := inv.lt
  have hb2 : 1 ≤ b2 := by rw [inv.e2]; exact Nat.choose_pos (by omega)
  have hb21 : b2 < b1 := by
    rw [inv.e2, inv.e1]
    have := choose_strict s' (t-2) (by omega)
    have e : t - 2 + 1 = t - 1 := by omega
    rw [e] at this; exact this
  -- b_{s-1,t-1}
  have hm1 : (b1 * s') / (s' + t - 1) = choose (s' - 1 + (t-1)) (t-1) := by
    rw [inv.e1]
    have := choose_lower s' (t-1) (by omega)
    have e : s' + t - 1 = s' + (t-1) := by omega
    rw [e]; exact this
  have hm1pos : 1 ≤ (b1 * s') / (s' + t - 1) := by rw [hm1]; exact Nat.choose_pos (by omega)
  have hm1le : (b1 * s') / (s' + t - 1) ≤ b1 := by
    apply Nat.div_le_of_le_mul
    have : s' ≤ s' + t - 1 := by omega
    calc b1 * s' ≤ b1 * (s' + t - 1) := Nat.mul_le_mul_left _ this
      _ = (s' + t - 1) * b1 := Nat.mul_comm _ _
  generalize (b1 * s') / (s' + t - 1) = x1 at *
  generalize (x1 * (s' - 1)) / (s' + t - 2) = x2 at *
  generalize (b2 * s') / (s' + t - 2) = x3 at *
  cases traj <;> dsimp only <;> split_ifs <;> exact ⟨_, rfl, by omega, by omega⟩
end Ckpt
