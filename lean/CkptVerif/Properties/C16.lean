import CkptVerif.Proofs.MixedStream
import CkptVerif.Proofs.Planners
/-!
# C16 — Mixed schedules are identical with and without numba

`C16_tables`: the tabulated planner (literal model of the nested in-place loops of
`mixed_steps_tabulation`) never fails for `n ≥ 1` and every cell of its table equals the answer
of the memoised planner (or is unset exactly where that one raises).
`C16_stream`: hence the stream generated from either planner is the same, for all parameters.
(int64 wrap-around is outside the model: `n < 2^31`.)
-/
namespace Ckpt

theorem C16_tables (n s : Nat) (hn : 1 ≤ n) :
    ∃ t, mixedTab n s = some t ∧ ∀ ni si, ni ≤ n → si ≤ s →
      tabGet t ni si = (match memoSpec ni si with
        | some c => toT c
        | none => tNone) := mixedTab_memoSpec n s hn

theorem C16_stream (n s' : Nat) (t : Array (Array TCell)) (ht : mixedTab n s' = some t)
    (N s : Nat) (st : Storage) (hNn : N ≤ n) (hs : min s (N - 1) ≤ s') :
    mixedEvs (tabPlan t) N s st = mixedEvs memoPlan N s st :=
  mixedEvs_tab_eq_memo n s' t ht N s st hNn hs

/-- the two planners executed by the driver yield the same stream -/
theorem C16_driver (n N s : Nat) (st : Storage) (hn : 1 ≤ n) (hN : N ≤ n) :
    mixedEvs (tabPlanner (Tabs.mk' n)) N s st = mixedEvs (memoPlanner (Tabs.mk' n)) N s st := by
  rw [mixedEvs_tabPlanner n N s st hn hN, mixedEvs_memoPlanner n N s st hN]

end Ckpt
