import CkptVerif.Proofs.TopK
import CkptVerif.Proofs.MultistageE2E
import CkptVerif.Proofs.MultistageLabels
import CkptVerif.Proofs.StepBridges
/-!
# C14 — Multistage RAM/disk split changes only labels and minimises disk traffic

Proved: the allocation labels exactly the `min ram (N-1)` heaviest stack positions RAM
(`C14_alloc`), never more than declared (`C14_count`), and this choice minimises the total
weight (writes + loads, as accumulated by the dry run) left on disk over ALL ways of giving at
most that many stack positions to RAM (`C14_min`).  The stream itself is a function of the total
unit count and the label function only (`multistageSeg N S alloc traj`): see `C14_erase`.
-/
namespace Ckpt

theorem C14_min (w : List Nat) (a : Nat) :
    let chosen := ((sortDesc (w.zipIdx.map (fun p => (p.2, p.1)))).take a).map (·.1)
    chosen.Nodup ∧ chosen.length = min a w.length ∧ (∀ i ∈ chosen, i < w.length) ∧
    ∀ R : List Nat, R.Nodup → R.length ≤ a → (∀ i ∈ R, i < w.length) →
      (((List.range w.length).filter (fun i => !chosen.contains i)).map (fun i => w.getD i 0)).sum
        ≤ (((List.range w.length).filter (fun i => !R.contains i)).map (fun i => w.getD i 0)).sum :=
  topk_optimal w a

theorem C14_alloc (N ram disk : Nat) (traj : Traj) (w : List Nat) (alloc : List Storage)
    (h : allocate N ram disk traj = some (w, alloc)) :
    let chosen :=
      ((sortDesc (w.zipIdx.map (fun p => (p.2, p.1)))).take (min ram (N - 1))).map (·.1)
    alloc.length = w.length ∧
    alloc.count .ram = min (min ram (N - 1)) w.length ∧
    (∀ i, i < w.length → (alloc[i]? = some .ram ↔ i ∈ chosen)) ∧
    (∀ i, i < w.length → (alloc[i]? = some .disk ↔ i ∉ chosen)) :=
  allocate_spec N ram disk traj w alloc h

theorem C14_count (N ram disk : Nat) (traj : Traj) (hN : 1 ≤ N) :
    ∃ storage, multistageStorage N ram disk traj = some storage ∧
      (∀ x ∈ storage, x.isStore = true) ∧ storage.count .ram ≤ ram ∧ storage.count .disk ≤ disk ∧
      storage.length = min (ram + disk) (N - 1) :=
  multistageStorage_spec N ram disk traj hN

theorem C14_allocation_optimal (N ram disk : Nat) (traj : Traj) (w : List Nat) (alloc : List Storage)
    (h : allocate N ram disk traj = some (w, alloc)) (R : List Nat) (hR : R.Nodup)
    (hlen : R.length ≤ min ram (N - 1)) (hlt : ∀ i ∈ R, i < w.length) :
    (((List.range w.length).filter (fun i => alloc.getD i .disk != .ram)).map
        (fun i => w.getD i 0)).sum
      ≤ (((List.range w.length).filter (fun i => !R.contains i)).map (fun i => w.getD i 0)).sum :=
  allocate_optimal N ram disk traj w alloc h R hR hlen hlt

example : allocate 6 2 2 .revolve = some ([2, 2, 2, 3], [.ram, .disk, .disk, .ram]) := by decide

end Ckpt

namespace Ckpt
/-! ### the stream is independent of the split up to labels; one storage per stack position -/

/-- equal totals ⇒ equal streams after erasing RAM/DISK labels -/
alias C14_erase := GW.multistage_erase
/-- every write/copy/move at stack position `d` names `storage[d]`, the counts respect the
declared units -/
alias C14_depth := GW.multistage_labelsOk
/-- the number of forward steps does not depend on the split (nor on the trajectory) -/
alias C14_steps_split_indep := GW.multistage_fwdSteps_split_indep

end Ckpt
