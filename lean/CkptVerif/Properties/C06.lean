import CkptVerif.Proofs.MixedSteps
import CkptVerif.Proofs.MixedDP
import CkptVerif.Proofs.Planners
import CkptVerif.Proofs.MixedLowerBound
/-!
# C06 — Mixed schedules perform the minimal possible number of forward steps

Proved (all `n ≥ 1`, all `s ≥ min(1, n-1)`, both storages):
* `C06_dp`      the published helper `optimal_steps_mixed` returns the planner's cost;
* `C06_steps`   the stream of `MixedCheckpointSchedule` advances the forward over exactly that many steps;
* `C06_storage` the RAM and the DISK stream differ only in the storage label (equal step counts).
* `C06_lower`, `C06_full`, `C06_mixed_optimal` — the lower bound over ALL executable schedules: any stream
  the checking executor accepts for `cfgMixed s st N` (each of the `s` units of storage `st` holds one restart
  checkpoint or the adjoint dependency data of one step) and that completes the adjoint performs at least
  `optimal_steps_mixed(N, s)` forward steps; the Mixed stream is accepted, complete and attains it.
-/
namespace Ckpt

/-- `optimal_steps_mixed(n, s)` (through its cache) = the cost of `mixed_step_memoization(n, s)`,
including which calls raise. -/
theorem C06_dp (n s : Nat) : optMixedSpec n s = (memoSpec n s).map (·.cost) :=
  optMixedSpec_eq_memoSpec_cost n s

/-- The model stream advances the forward over exactly `optimal_steps_mixed(N, s)` steps. -/
theorem C06_steps (N s : Nat) (st : Storage) (hN : 1 ≤ N) (hs : min 1 (N - 1) ≤ s) (evs : List Ev)
    (h : mixedEvs memoPlan N s st = .ok evs) : optMixedSpec N s = some (fwdSteps evs) :=
  mixed_fwdSteps_optMixedSpec N s st hN hs evs h

/-- The DISK stream is the RAM stream with RAM relabelled DISK. -/
theorem C06_storage (plan : Planner) (N s : Nat) :
    mixedEvs plan N s .disk = (mixedEvs plan N s .ram).map (List.map (relabel ramToDisk)) :=
  mixedEvs_disk plan N s

theorem C06_storage_steps (plan : Planner) (N s : Nat) (er ed : List Ev)
    (hr : mixedEvs plan N s .ram = .ok er) (hd : mixedEvs plan N s .disk = .ok ed) :
    fwdSteps ed = fwdSteps er := mixed_fwdSteps_disk_eq_ram plan N s er ed hr hd

/-- the planner executed by the driver (memoised path) yields the stream of the theorems -/
theorem C06_driver_planner (n N s : Nat) (st : Storage) (hN : N ≤ n) :
    mixedEvs (memoPlanner (Tabs.mk' n)) N s st = mixedEvs memoPlan N s st :=
  mixedEvs_memoPlanner n N s st hN

/-- ANY stream accepted by the executor for `cfgMixed s st N` that completes the adjoint performs at
least `optimal_steps_mixed(N, min(s, N-1))` forward steps -/
alias C06_lower := MX.C06_lower
/-- with the published helper: `optimal_steps_mixed(N, s)` is a lower bound for every accepted stream -/
alias C06_full := MX.C06_full
/-- the stream of `MixedCheckpointSchedule` is accepted, complete, performs `optimal_steps_mixed(N, s)`
forward steps and no accepted complete stream performs fewer — for both storages -/
alias C06_mixed_optimal := MX.C06_mixed_optimal

-- non-vacuity: a concrete non-trivial instance
-- non-vacuity of the hypotheses: a valid non-trivial key
example : validKey 10 (clampS 10 3) = true ∧ min 1 (10 - 1) ≤ 3 := by decide

end Ckpt
