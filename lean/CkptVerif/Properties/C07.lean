import CkptVerif.Proofs.DiskCost
import CkptVerif.Proofs.HOptTables
import CkptVerif.Proofs.PeriodicCost
import CkptVerif.Proofs.HRevolveCost
import CkptVerif.Proofs.RevolveOptimal
import CkptVerif.Proofs.DiskCounterexamples
import CkptVerif.Proofs.HRevolveNoDisk
import CkptVerif.Proofs.DiskOneReadLB
import CkptVerif.Proofs.HRevolveLB
import CkptVerif.Proofs.HRevolveLBLifo
import CkptVerif.Proofs.HRevolveLBFull
import CkptVerif.Proofs.HRevolveLBFullLifo
import CkptVerif.Proofs.HRevolveLBFullGameMain
/-!
# C07 — the H-Revolve family achieves its cost optimum for any (integer) cost vector

`cost c evs` = `uf`·forward steps + `ub`·reversed steps + `wd`·DISK writes + `rd`·DISK loads.
* `C07_revolve`      cost(Revolve stream) = `opt0[cm][N-1] + N·uf` — the value of the memory-only DP;
* `C07_diskRevolve`  cost(DiskRevolve stream) = `optInf[N-1] + N·uf` — the value of the Disk-Revolve DP;
* `C07_disk_le_revolve`  cost(DiskRevolve) ≤ cost(Revolve);
* `C07_hopt_antitone`    the hierarchical table is non-increasing in the number of disk units, and never above level 0;
* HRevolve / PeriodicDiskRevolve stream costs: see `C07More.lean` when present.
* `C07_revolve_optimal`, `C07_hrevolve_nodisk_optimal`: Revolve (and HRevolve without disk units) is
  cost-optimal among ALL streams the executor accepts (restart data only);
* `C07_diskRevolve_oneRead`: the DiskRevolve stream is an accepted member of the class `OneRead` (every disk
  checkpoint written by a Forward and read once, by the Move that removes it) and costs the table value;
* `C07_diskRevolve_not_optimal_unrestricted`, `C07_optInf_not_lowerBound`, `C07_hopt_not_lowerBound_plain`:
  kernel-checked counterexamples — OUTSIDE `OneRead` (reading a disk checkpoint twice; copying a RAM
  checkpoint to disk) the executor accepts cheaper streams, so "optimum" for the two-level classes can only
  mean the optimum of the restricted problem the tables solve, as the property text says for DiskRevolve.
* `C07_diskRevolve_optimal` (`LB7.diskOneReadOptimal`): **in the class `OneRead` the Disk-Revolve table IS a lower
  bound** for every accepted complete stream (any `N`, `cm ≥ 1`, any cost vector) — with
  `C07_diskRevolve_oneRead`: DiskRevolve attains the optimum of the problem "each disk checkpoint read once";
* `C07_hrevolve_lowerBound_partial` (`LB7.hrevolveOptimalT_partial`): the H-Revolve table is a lower bound for the
  transfer-aware cost of every accepted stream that loads checkpoints in LIFO order (`Lifo`: every `Copy`/`Move`
  into WORK takes the most recently stored checkpoint still present; RAM and DISK checkpoints may interleave, be
  read any number of times, be dropped early); `C07_hrevolve_optimal_lifo`: the HRevolve stream is accepted, LIFO,
  costs exactly the table value, and no accepted LIFO stream is cheaper; `C07_hrevolve_of_lifo` states what is
  missing for the full `LB7.HRevolveOptimalT` (kept visible, NOT proved: streams that restart from an older
  checkpoint while a newer one is stored; an exact search over a superset of the executor's moves finds the table
  value as the minimum for all (c0, c1) with c0 + c1 ≤ 5 and N ≤ 11-13, 12 cost vectors).
-/
namespace Ckpt

alias C07_revolve := RC.revolve_cost
alias C07_diskRevolve := RC.diskRevolve_cost
alias C07_disk_le_revolve := RC.diskRevolve_le_revolve
alias C07_optInf_le_opt0 := RC.optInf_le_opt0
alias C07_hopt_antitone := RC.hopt1_antitone
alias C07_hopt_le_level0 := RC.hopt1_le_level0

end Ckpt

namespace Ckpt
/-- HRevolve: stream cost = hierarchical DP table value `opt[1][N-1][c1] + N·uf` -/
alias C07_hrevolve := RC.hrevolve_cost
/-- more disk units never cost more (on the streams) -/
alias C07_hrevolve_more_disk := RC.hrevolve_more_disk
/-- cost(PeriodicDiskRevolve) ≥ cost(DiskRevolve) -/
alias C07_disk_le_periodic := RC.diskRevolve_le_periodic
alias C07_periodic_cost := RC.periodic_cost
end Ckpt

namespace Ckpt
-- `Ckpt.C07_revolve_optimal`, `Ckpt.C07_opt0_lowerBound` (Proofs/RevolveOptimal.lean): Revolve is cost-optimal
-- among ALL streams the executor accepts for `cm` RAM units (restart data only)
/-- HRevolve with no disk units likewise -/
alias C07_hrevolve_nodisk_optimal := RC.C07_hrevolve_nodisk_optimal
/-- the DiskRevolve stream: accepted, complete, in `OneRead`, cost = `optInf[N-1] + N·uf` -/
alias C07_diskRevolve_oneRead := LB7.diskRevolve_attains
/-- outside `OneRead` DiskRevolve is NOT optimal (kernel-checked accepted streams that are cheaper) -/
alias C07_diskRevolve_not_optimal_unrestricted := LB7.diskRevolve_not_optimal
alias C07_optInf_not_lowerBound := LB7.optInf_not_lowerBound
alias C07_hopt_not_lowerBound_plain := LB7.hopt_not_lowerBound_obsCost
/-- a (not tight) lower bound for every accepted two-level stream -/
alias C07_hrevolve_cost_ge := LB7.hrevolve_cost_ge
end Ckpt

namespace Ckpt
/-- **DiskRevolve is optimal in its class**: `optInf[N-1] + N·uf` is a lower bound for every accepted complete
stream in which each disk checkpoint is written by a `Forward` and read once, by the `Move` that removes it -/
alias C07_diskRevolve_optimal := LB7.diskOneReadOptimal
/-- the H-Revolve table is a lower bound over all accepted LIFO streams (the full statement is `LB7.HRevolveOptimalT`) -/
alias C07_hrevolve_lowerBound_partial := LB7.hrevolveOptimalT_partial
/-- HRevolve: accepted, LIFO, cost = table value, and optimal among accepted LIFO streams -/
alias C07_hrevolve_optimal_lifo := LB7.C07_hrevolve_optimal_in_lifo
alias C07_hrevolve_lifo_attains := LB7.hrevolve_lifo_attains
/-- what is missing: if every accepted stream were LIFO (or could be made LIFO at no cost) the full statement follows -/
alias C07_hrevolve_of_lifo := LB7.hrevolveOptimalT_of_lifo
end Ckpt

namespace Ckpt
/-- the H-Revolve lower bound under the weaker hypothesis `Lifo'` (loads take the most recently stored checkpoint that is
still alive; any stored checkpoint may be deleted at any time; no transfers into RAM/DISK) -/
alias C07_hrevolve_lowerBound_partial2 := LB7.hrevolveOptimalT_partial2
alias C07_lifo'_of_lifo := LB7.lifo'_of_lifo
/-- every accepted stream is a play of a six-move pebble game of the same forward cost -/
alias C07_game_of_accepted := LB7.game_of_accepted
/-- the full statement follows from the pebble-game lower bound `GameLB` (not proved) -/
alias C07_hrevolve_of_gameLB := LB7.hrevolveOptimalT_of_gameLB
end Ckpt
