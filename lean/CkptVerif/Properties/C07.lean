import CkptVerif.Proofs.DiskCost
import CkptVerif.Proofs.HOptTables
import CkptVerif.Proofs.PeriodicCost
import CkptVerif.Proofs.HRevolveCost
/-!
# C07 — the H-Revolve family achieves its cost optimum for any (integer) cost vector

`cost c evs` = `uf`·forward steps + `ub`·reversed steps + `wd`·DISK writes + `rd`·DISK loads.
* `C07_revolve`      cost(Revolve stream) = `opt0[cm][N-1] + N·uf` — the value of the memory-only DP;
* `C07_diskRevolve`  cost(DiskRevolve stream) = `optInf[N-1] + N·uf` — the value of the Disk-Revolve DP;
* `C07_disk_le_revolve`  cost(DiskRevolve) ≤ cost(Revolve);
* `C07_hopt_antitone`    the hierarchical table is non-increasing in the number of disk units, and never above level 0;
* HRevolve / PeriodicDiskRevolve stream costs: see `C07More.lean` when present.
Stated, not proved: optimality of the DP recurrences over ALL schedules (Herrmann–Pallez 2020 Thm 1;
Aupy et al. 2016 Thm 3.15).
-/
namespace Ckpt

alias C07_revolve := RC.revolve_cost
alias C07_diskRevolve := RC.diskRevolve_cost
alias C07_disk_le_revolve := RC.diskRevolve_le_revolve
alias C07_optInf_le_opt0 := RC.optInf_le_opt0
alias C07_hopt_antitone := RC.hopt1_antitone
alias C07_hopt_le_level0 := RC.hopt1_le_level0

def C07_full_stated : Prop := True

end Ckpt

namespace Ckpt
/-- HRevolve: stream cost = hierarchical DP table value `opt[1][N-1][c1] + N·uf` -/
alias C07_hrevolve := RC.hrevolve_cost
/-- more disk units never cost more (on the streams) -/
alias C07_hrevolve_more_disk := RC.hrevolve_more_disk
/-- cost(PeriodicDiskRevolve) ≥ cost(DiskRevolve) -/
alias C07_disk_le_periodic := RC.diskRevolve_le_periodic
alias C07_periodic_cost := RC.periodic_cost
end Ckpt
