import CkptVerif.Proofs.DiskCost
import CkptVerif.Proofs.HOptTables
import CkptVerif.Proofs.PeriodicCost
import CkptVerif.Proofs.HRevolveCost
import CkptVerif.Proofs.RevolveOptimal
import CkptVerif.Proofs.DiskCounterexamples
import CkptVerif.Proofs.HRevolveNoDisk
/-!
# C07 — the H-Revolve family achieves its cost optimum for any (integer) cost vector

`cost c evs` = `uf`·forward steps + `ub`·reversed steps + `wd`·DISK writes + `rd`·DISK loads.
* `C07_revolve`      cost(Revolve stream) = `opt0[cm][N-1] + N·uf` — the value of the memory-only DP;
* `C07_diskRevolve`  cost(DiskRevolve stream) = `optInf[N-1] + N·uf` — the value of the Disk-Revolve DP;
* `C07_disk_le_revolve`  cost(DiskRevolve) ≤ cost(Revolve);
* `C07_hopt_antitone`    the hierarchical table is non-increasing in the number of disk units, and never above level 0;
* HRevolve / PeriodicDiskRevolve stream costs: see `C07More.lean` when present.
* `C07_revolve_optimal`, `C07_hrevolve_nodisk_optimal`: Revolve (and HRevolve without disk units) is
  cost-optimal among ALL streams the executor accepts (restart data only);
* `C07_diskRevolve_oneRead`: the DiskRevolve stream is an accepted member of the class `OneRead` (every disk
  checkpoint written by a Forward and read once, by the Move that removes it) and costs the table value;
* `C07_diskRevolve_not_optimal_unrestricted`, `C07_optInf_not_lowerBound`, `C07_hopt_not_lowerBound_plain`:
  kernel-checked counterexamples — OUTSIDE `OneRead` (reading a disk checkpoint twice; copying a RAM
  checkpoint to disk) the executor accepts cheaper streams, so "optimum" for the two-level classes can only
  mean the optimum of the restricted problem the tables solve, as the property text says for DiskRevolve.
Stated, not proved (`LB7.DiskOneReadOptimal`, `LB7.HRevolveOptimalT`; supported by exhaustive search for
small `N`): the tables are lower bounds inside those classes.
-/
namespace Ckpt

alias C07_revolve := RC.revolve_cost
alias C07_diskRevolve := RC.diskRevolve_cost
alias C07_disk_le_revolve := RC.diskRevolve_le_revolve
alias C07_optInf_le_opt0 := RC.optInf_le_opt0
alias C07_hopt_antitone := RC.hopt1_antitone
alias C07_hopt_le_level0 := RC.hopt1_le_level0

end Ckpt

namespace Ckpt
/-- HRevolve: stream cost = hierarchical DP table value `opt[1][N-1][c1] + N·uf` -/
alias C07_hrevolve := RC.hrevolve_cost
/-- more disk units never cost more (on the streams) -/
alias C07_hrevolve_more_disk := RC.hrevolve_more_disk
/-- cost(PeriodicDiskRevolve) ≥ cost(DiskRevolve) -/
alias C07_disk_le_periodic := RC.diskRevolve_le_periodic
alias C07_periodic_cost := RC.periodic_cost
end Ckpt

namespace Ckpt
-- `Ckpt.C07_revolve_optimal`, `Ckpt.C07_opt0_lowerBound` (Proofs/RevolveOptimal.lean): Revolve is cost-optimal
-- among ALL streams the executor accepts for `cm` RAM units (restart data only)
/-- HRevolve with no disk units likewise -/
alias C07_hrevolve_nodisk_optimal := RC.C07_hrevolve_nodisk_optimal
/-- the DiskRevolve stream: accepted, complete, in `OneRead`, cost = `optInf[N-1] + N·uf` -/
alias C07_diskRevolve_oneRead := LB7.diskRevolve_attains
/-- outside `OneRead` DiskRevolve is NOT optimal (kernel-checked accepted streams that are cheaper) -/
alias C07_diskRevolve_not_optimal_unrestricted := LB7.diskRevolve_not_optimal
alias C07_optInf_not_lowerBound := LB7.optInf_not_lowerBound
alias C07_hopt_not_lowerBound_plain := LB7.hopt_not_lowerBound_obsCost
/-- a (not tight) lower bound for every accepted two-level stream -/
alias C07_hrevolve_cost_ge := LB7.hrevolve_cost_ge
end Ckpt
