import CkptVerif.Proofs.Machine
/-!
# C10 — `finalize()` accepts exactly the true end of the forward and nothing else

All statements are about the step machine `Sched.next` / `finalize` (Model/Machine.lean) and hold
for every state reachable by ANY history of `next()` and `finalize(k)` calls (no bound on length).
-/
namespace Ckpt

/-- (a) not yet finalised: accepted iff `1 ≤ k ≤ n`; then `max_n = n = k`, nothing else changes. -/
theorem C10_online (m : MSt) (k : Int) (h : m.maxN = none) :
    ((finalize m k).2 = .ok ↔ (1 ≤ k ∧ k ≤ m.n)) ∧
    ((finalize m k).2 = .ok → (finalize m k).1 = { m with n := k.toNat, maxN := some k.toNat }) :=
  finalize_ok_iff_online m k h

/-- (b) `max_n` known: a no-op exactly when `k = max_n` and the forward stands at `max_n`;
the state never changes. -/
theorem C10_known (m : MSt) (k : Int) (M : Nat) (h : m.maxN = some M) :
    ((finalize m k).2 = .ok ↔ (1 ≤ k ∧ (M : Int) = k ∧ (m.n : Int) = k)) ∧ (finalize m k).1 = m :=
  finalize_ok_iff_known m k M h

/-- (c) every other call is rejected, with ValueError iff `k < 1`, RuntimeError otherwise, and
leaves the state — hence the subsequent action stream — unchanged. -/
theorem C10_rejected (m : MSt) (k : Int) (h : (finalize m k).2 ≠ .ok) :
    ((finalize m k).2 = .valueError ↔ k < 1) ∧
    ((finalize m k).2 ≠ .valueError → (finalize m k).2 = .runtimeError) ∧
    (finalize m k).1 = m := finalize_rejected m k h

/-- after an accepted `finalize(k)` of an online schedule the next action is `EndForward`
(instances for the four online classes) -/
theorem C10_next_singleMemory (m : MSt) (k : Int) (hr : Reach singleMemorySched m)
    (hN : m.maxN = none) (hok : (finalize m k).2 = .ok) :
    ∃ m' o, singleMemorySched.next (finalize m k).1 = (m', .act o) ∧ o.act = .endForward ∧
      o.n = k.toNat ∧ o.r = 0 ∧ o.maxN = some k.toNat :=
  singleMemory_endForward_after_finalize m k hr hN hok

theorem C10_next_singleDisk (mv : Bool) (m : MSt) (k : Int) (hr : Reach (singleDiskSched mv) m)
    (hN : m.maxN = none) (hok : (finalize m k).2 = .ok) :
    ∃ m' o, (singleDiskSched mv).next (finalize m k).1 = (m', .act o) ∧ o.act = .endForward ∧
      o.n = k.toNat ∧ o.r = 0 ∧ o.maxN = some k.toNat :=
  singleDisk_endForward_after_finalize mv m k hr hN hok

theorem C10_next_twoLevel (p b : Nat) (st : Storage) (traj : Traj) (s : Sched)
    (h : twoLevelSched p b st traj = .ok s) (m : MSt) (k : Int) (l : List Ev)
    (hl : s.first k.toNat = .ok l) (hr : Reach s m) (hN : m.maxN = none)
    (hok : (finalize m k).2 = .ok) :
    ∃ m' o, s.next (finalize m k).1 = (m', .act o) ∧ o.act = .endForward ∧
      o.n = k.toNat ∧ o.r = 0 ∧ o.maxN = some k.toNat :=
  twoLevel_endForward_after_finalize p b st traj s h m k l hl hr hN hok

/-- offline schedules start with `max_n` known, so (b) applies to every reachable state -/
theorem C10_offline (N : Nat) (evs : Except Err (List Ev)) (uses : Storage → Option Bool)
    {m : MSt} (hr : Reach (offlineSched N evs uses) m) (k : Int) :
    (finalize m k).1 = m ∧ ((finalize m k).2 = .ok ↔ (1 ≤ k ∧ k = (N : Int) ∧ (m.n : Int) = N)) :=
  offline_finalize N evs uses hr k

end Ckpt
