import CkptVerif.Proofs.MixedIterRefine
import CkptVerif.Proofs.MultistageIterRefine
import CkptVerif.Proofs.TwoLevelIterRefine
import CkptVerif.Proofs.BasicIterRefine
import CkptVerif.Proofs.OpsRevolve
import CkptVerif.Proofs.OpsDisk
import CkptVerif.Proofs.OpsPeriodic
import CkptVerif.Proofs.OpsHRevolveMain
/-!
# Refinement: the literal twins of the Python generators equal the stream models

The stream models the property theorems are about read the Python generators *recursively*.  The
twins (`Model/*Iter.lean`, `Model/Ops.lean`) mirror the Python control flow statement by statement
(mutable `_n`, `_r`, the `snapshots` stack, every `raise`; for the Revolve family the two-stage
pipeline: operation sequences with `shift`/`remove_useless_wm`, then the index loop of
`RevolveCheckpointSchedule._iterator` with its look-behind, look-ahead and `_last_reads`).
These theorems show twin = stream model for ALL valid parameters, so every property theorem
transfers to the twin, which a reviewer can compare with the code line by line and which the
driver also runs against the real streams (and the real operation sequences) on every check.
-/
namespace Ckpt

alias twin_mixed := RC.mixedIterEvs_eq_mixedEvs
alias twin_multistage := RC.multistageIterEvs_eq
alias twin_twoLevel := On.twoLevelIterPass_eq_default
alias twin_singleMemory := On.singleMemoryIter_eq_default
alias twin_singleDisk := On.singleDiskIter_eq_default
alias twin_none := On.noneIter_eq
alias twin_revolve := Ops.revolveTwin_eq
alias twin_diskRevolve := Ops.diskRevolveTwin_eq
alias twin_periodic := Ops.periodicTwin_eq
alias twin_hrevolve := Ops.hrevolveTwin_eq

end Ckpt
