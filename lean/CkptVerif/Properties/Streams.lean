import CkptVerif.Proofs.MultistageE2E
import CkptVerif.Proofs.OfflineE2E
import CkptVerif.Proofs.Meaning
/-!
# Stream properties C01, C02, C03, C04, C08, C09, C11, C12, C18 per schedule class

`monitor cfg k trace = []` says the canonical trace of the model object passes EVERY check of the
specification executor and monitor (all tags), so each tagged property holds for that class, for
ALL valid parameters (no bound on n, unit counts, cost vectors).  What "no violation tagged P"
means declaratively is proved class-independently in `Proofs/Meaning.lean` (`meaning_*` below).

| class | theorem |
|---|---|
| Multistage (every RAM/DISK split, both trajectories) | `streams_multistage` |
| Mixed (both storages)                                 | `streams_mixed` |
| Revolve                                               | `streams_revolve` |
| DiskRevolve                                           | `streams_diskRevolve` |
| PeriodicDiskRevolve                                   | `streams_periodic` |
| HRevolve, SingleMemory, SingleDisk, None, TwoLevel    | see `StreamsMore.lean` |
-/
namespace Ckpt

theorem streams_multistage (N ram disk : Nat) (traj : Traj)
    (hv : validMultistage N ram disk = true) :
    ∃ s evs, multistageSched N ram disk traj = .ok s ∧
      multistageEvs N ram disk traj = .ok evs ∧
      ∀ k fuel, evs.length + 4 ≤ fuel →
        monitor (cfgMultistage ram disk N) k (s.canon N k fuel) = [] :=
  multistage_monitor_clean N ram disk traj hv

theorem streams_mixed (N s : Nat) (st : Storage) (hv : validMixed N s st = true) :
    ∃ sch evs, mixedSched memoPlan N s st = .ok sch ∧ mixedEvs memoPlan N s st = .ok evs ∧
      ∀ k fuel, evs.length + 4 ≤ fuel →
        monitor (cfgMixed s st N) k (sch.canon N k fuel) = [] :=
  mixed_monitor_clean N s st hv

theorem streams_revolve (N cm : Nat) (c : Costs) (hv : validRevolve N cm c.uf c.ub = true) :
    ∃ sch evs, revolveSched N cm c = .ok sch ∧ revolveEvs N cm c = .ok evs ∧
      ∀ k fuel, evs.length + 4 ≤ fuel →
        monitor (cfgRevolve cm N) k (sch.canon N k fuel) = [] :=
  revolve_monitor_clean N cm c hv

theorem streams_diskRevolve (N cm : Nat) (c : Costs) (hv : validRevolve N cm c.uf c.ub = true) :
    ∃ sch evs, diskRevolveSched N cm c = .ok sch ∧ diskRevolveEvs N cm c = .ok evs ∧
      ∀ k fuel, evs.length + 4 ≤ fuel →
        monitor (cfgDiskRevolve cm N) k (sch.canon N k fuel) = [] :=
  diskRevolve_monitor_clean N cm c hv

theorem streams_periodic (N cm : Nat) (c : Costs) (hv : validRevolve N cm c.uf c.ub = true) :
    ∃ sch evs, periodicSched N cm c = .ok sch ∧ periodicEvs N cm c = .ok evs ∧
      ∀ k fuel, evs.length + 4 ≤ fuel →
        monitor (cfgDiskRevolve cm N) k (sch.canon N k fuel) = [] :=
  periodic_monitor_clean N cm c hv

/-! ## what the tags mean (class-independent, for arbitrary streams) -/

alias meaning_C03_budgets := Mean.M1_C03
alias meaning_C04_clean_storage := Mean.M2_C04
alias meaning_C02_reverse_tiles := Mean.M3c_tiles
alias meaning_C02_all_reversed := Mean.M3d_tiles
alias meaning_C01_load := Mean.M4_C01_load
alias meaning_C01_reverse := Mean.M4_C01_reverse
alias meaning_C12_one_step := Mean.M5_C12

example : validMultistage 17 2 1 = true ∧ validMixed 9 2 .disk = true ∧ validRevolve 7 2 3 1 = true := by decide

end Ckpt
