import CkptVerif.Proofs.MultistageE2E
/-!
# Stream properties C01, C02, C03, C04, C08, C09, C11, C12, C18 per schedule class

`monitor cfg k trace = []` says the canonical trace of the model object passes EVERY check of the
specification executor and monitor (all tags), so each tagged property holds for that class.

| class | theorem | status |
|---|---|---|
| Multistage | `streams_multistage` | proved, all valid parameters, both trajectories, every split |
-/
namespace Ckpt

theorem streams_multistage (N ram disk : Nat) (traj : Traj)
    (hv : validMultistage N ram disk = true) :
    ∃ s evs, multistageSched N ram disk traj = .ok s ∧
      multistageEvs N ram disk traj = .ok evs ∧
      ∀ k fuel, evs.length + 4 ≤ fuel →
        monitor (cfgMultistage ram disk N) k (s.canon N k fuel) = [] :=
  multistage_monitor_clean N ram disk traj hv

end Ckpt
