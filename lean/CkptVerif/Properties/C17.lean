import CkptVerif.Proofs.MultistageE2E
import CkptVerif.Proofs.MixedOk
import CkptVerif.Proofs.RevolveOk
/-!
# C17 — valid parameters always yield a schedule; invalid ones fail before any action

`C17_invalid_*`: parameter tuples outside the documented domain (`max_n < 1`, `period < 1`, no unit
for `max_n > 1`, a storage other than RAM/DISK) are rejected by the model at `construct` or at
`first-next` — never after an action.  `C17_valid_*`: every tuple in the domain yields a complete
stream (the generator never raises, fuel suffices), including `max_n = 1` and more units than steps.
-/
namespace Ckpt

/-- the stage at which an outcome is rejected -/
def Err.early : Err → Bool
  | .construct _ => true
  | .firstNext _ => true
  | _ => false

theorem C17_invalid_multistage (N ram disk : Nat) (traj : Traj)
    (h : validMultistage N ram disk = false) :
    (∃ e, multistageSched N ram disk traj = .error e ∧ e.early = true) ∨
    (∃ e, multistageEvs N ram disk traj = .error e ∧ e.early = true) := by
  simp only [validMultistage, Bool.and_eq_false_iff, Bool.or_eq_false_iff, decide_eq_false_iff_not] at h
  rcases h with h | ⟨h1, h2⟩
  · left
    refine ⟨.construct "max_n must be positive", ?_, rfl⟩
    unfold multistageSched
    rw [if_pos (by omega)]
  · by_cases hN : N < 1
    · left
      refine ⟨.construct "max_n must be positive", ?_, rfl⟩
      unfold multistageSched
      rw [if_pos hN]
    · right
      have hr : ram = 0 := by omega
      have hd : disk = 0 := by omega
      subst hr; subst hd
      refine ⟨.firstNext "Require at least one snapshot", ?_, rfl⟩
      unfold multistageEvs multistageStorage
      simp only [Nat.zero_min, if_true, hN, if_false, List.replicate_zero, List.length_nil]
      rw [if_pos (by constructor <;> first | omega | trivial)]

theorem C17_invalid_mixed (plan : Planner) (N s : Nat) (st : Storage)
    (h : validMixed N s st = false) :
    ∃ e, mixedSched plan N s st = .error e ∧ e.early = true := by
  simp only [validMixed, Bool.and_eq_false_iff, Bool.or_eq_false_iff, decide_eq_false_iff_not,
    decide_eq_false_iff_not] at h
  unfold mixedSched
  by_cases h1 : s < min 1 (N - 1) ∧ 1 ≤ N
  · rw [if_pos h1]; exact ⟨_, rfl, rfl⟩
  · rw [if_neg h1]
    by_cases h2 : ¬ (st = .ram ∨ st = .disk)
    · rw [if_pos h2]; exact ⟨_, rfl, rfl⟩
    · rw [if_neg h2]
      by_cases h3 : N < 1
      · rw [if_pos h3]; exact ⟨_, rfl, rfl⟩
      · exfalso
        push Not at h2
        rcases h with (h | h) | h
        · omega
        · apply h1; constructor <;> omega
        · rcases h2 with rfl | rfl <;> simp at h

theorem C17_invalid_twoLevel (p b : Nat) (st : Storage) (traj : Traj)
    (h : validTwoLevel p st = false) :
    ∃ e, twoLevelSched p b st traj = .error e ∧ e.early = true := by
  simp only [validTwoLevel, Bool.and_eq_false_iff, Bool.or_eq_false_iff, decide_eq_false_iff_not] at h
  unfold twoLevelSched
  by_cases h1 : p < 1
  · rw [if_pos h1]; exact ⟨_, rfl, rfl⟩
  · rw [if_neg h1]
    by_cases h2 : ¬ (st = .ram ∨ st = .disk)
    · rw [if_pos h2]; exact ⟨_, rfl, rfl⟩
    · exfalso
      push Not at h2
      rcases h with h | h
      · omega
      · rcases h2 with rfl | rfl <;> simp at h

/-- the Revolve family rejects `max_n < 1` and `snapshots_in_ram < 1` at construction -/
theorem C17_invalid_revolve (N cm : Nat) (c : Costs) (h : N < 1 ∨ cm < 1) :
    (∃ e, revolveSched N cm c = .error e ∧ e.early = true) ∧
    (∃ e, diskRevolveSched N cm c = .error e ∧ e.early = true) ∧
    (∃ e, periodicSched N cm c = .error e ∧ e.early = true) ∧
    (∀ c1, ∃ e, hrevolveSched N cm c1 c = .error e ∧ e.early = true) := by
  refine ⟨?_, ?_, ?_, ?_⟩
  · unfold revolveSched; rw [if_pos h]; exact ⟨_, rfl, rfl⟩
  · unfold diskRevolveSched; rw [if_pos h]; exact ⟨_, rfl, rfl⟩
  · unfold periodicSched
    rw [if_pos (by rcases h with h | h; exact Or.inl h; exact Or.inr (Or.inl h))]
    exact ⟨_, rfl, rfl⟩
  · intro c1; unfold hrevolveSched; rw [if_pos h]; exact ⟨_, rfl, rfl⟩

/-- valid Multistage parameters yield a complete stream -/
theorem C17_valid_multistage (N ram disk : Nat) (traj : Traj)
    (hv : validMultistage N ram disk = true) :
    ∃ s evs, multistageSched N ram disk traj = .ok s ∧ multistageEvs N ram disk traj = .ok evs := by
  obtain ⟨s, evs, h1, h2, _⟩ := multistage_monitor_clean N ram disk traj hv
  exact ⟨s, evs, h1, h2⟩

theorem C17_valid_mixed (N s : Nat) (st : Storage) (hv : validMixed N s st = true) :
    ∃ evs, mixedEvs memoPlan N s st = .ok evs := by
  simp only [validMixed, Bool.and_eq_true, Bool.or_eq_true, decide_eq_true_eq] at hv
  obtain ⟨⟨h1, h2⟩, h3⟩ := hv
  have hst : st = .ram ∨ st = .disk := by
    rcases h3 with h | h
    · exact Or.inl h
    · exact Or.inr h
  obtain ⟨evs, _, _, h, _⟩ := mixed_clean N s st hst h1 h2
  exact ⟨_, h⟩

theorem C17_valid_revolve (N cm : Nat) (c : Costs) (hN : 1 ≤ N) (hcm : 1 ≤ cm) :
    (∃ evs, revolveEvs N cm c = .ok evs) ∧ (∃ evs, diskRevolveEvs N cm c = .ok evs) := by
  obtain ⟨e1, _, h1, _⟩ := revolve_clean N cm c hN hcm
  obtain ⟨e2, _, h2, _⟩ := diskRevolve_clean N cm c hN hcm
  exact ⟨⟨_, h1⟩, ⟨_, h2⟩⟩

theorem C17_valid_periodic (N cm : Nat) (c : Costs) (hN : 1 ≤ N) (hcm : 1 ≤ cm) (huf : 0 < c.uf) :
    ∃ evs, periodicEvs N cm c = .ok evs := by
  obtain ⟨e1, _, h1, _⟩ := periodic_clean N cm c hN hcm huf
  exact ⟨_, h1⟩

example : validMultistage 1 0 0 = true ∧ validMultistage 5 9 9 = true ∧ validMultistage 2 0 0 = false := by decide

end Ckpt
