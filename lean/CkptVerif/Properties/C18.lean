import CkptVerif.Proofs.ActionApi
/-!
# C18 — actions are well-formed value objects (value semantics)

Equality of model actions is structural (`DecidableEq`): equal iff same kind and equal parameters.
`C18_repr`: the printer `pyRepr` (= `CheckpointAction.__repr__`, incl. the `sys.maxsize` spelling)
has a left inverse, so `repr` determines the action.  `C18_steps`: iteration/len/membership of
Forward and Reverse enumerate exactly the covered steps (Reverse descending).
Well-formedness of EMITTED actions is the C18-tagged check of the executor (stream theorems).
-/
namespace Ckpt

theorem C18_repr (a : Action) : parseRepr (pyRepr a) = some a := parseRepr_pyRepr a

theorem C18_repr_injective : Function.Injective pyRepr := pyRepr_injective

theorem C18_steps_forward (n0 n1 : Nat) (wi wa : Bool) (st : Storage) :
    steps (.forward n0 n1 wi wa st) = List.range' n0 (n1 - n0) := steps_forward n0 n1 wi wa st

theorem C18_steps_reverse (n1 n0 : Nat) (c : Bool) :
    steps (.reverse n1 n0 c) = (List.range' n0 (n1 - n0)).reverse := steps_reverse n1 n0 c

theorem C18_mem_forward (k n0 n1 : Nat) (wi wa : Bool) (st : Storage) :
    k ∈ steps (.forward n0 n1 wi wa st) ↔ n0 ≤ k ∧ k < n1 := mem_steps_forward k n0 n1 wi wa st

theorem C18_mem_reverse (k n1 n0 : Nat) (c : Bool) :
    k ∈ steps (.reverse n1 n0 c) ↔ n0 ≤ k ∧ k < n1 := mem_steps_reverse k n1 n0 c

example : pyRepr (.forward 0 maxsize false true .work)
    = "Forward(0, sys.maxsize, False, True, StorageType.WORK)" := by decide

end Ckpt
