import CkptVerif.Proofs.MultistageSteps
import CkptVerif.Proofs.GW
import CkptVerif.Proofs.StepBridges
import CkptVerif.Proofs.RevolveSteps
/-!
# C05 — binomial schedules perform the minimal possible number of forward steps

`E := extraCell` is the model of `optimal_extra_steps` — literally the Griewank–Walther recurrence
(`E(1,·)=0`, `E(n,1)=n(n-1)/2`, `E(n,s) = min_i i + E(i,s) + E(n-i,s-1)`); `optimal_steps_binomial(n,s)
= n + E(n, min(s, n-1))` (`C05_helper`, by definition of the model).
* `C05_split`  — `n_advance` (BOTH trajectories) attains the minimum of the recurrence for every `m ≥ 2`, `k ≥ 1`;
* `C05_steps`  — hence the Multistage stream advances the forward over exactly `N + E(N, min(S, N-1))` steps;
* `C05_closed` — the closed form `m + E(m,k) = (t+1)·m − C(k+t, t−1)` for `C(k+t−1,t−1) < m ≤ C(k+t,t)`.
Stated, not proved: `C05_full` (Griewank 1992: no executable schedule with `s` restart checkpoints and
one step of adjoint data does better than the recurrence).
-/
namespace Ckpt

theorem C05_helper (n s : Nat) : optimalStepsBinomial n s = (extraSpec n s).map (n + ·) := rfl

theorem C05_split (m k : Nat) (traj : Traj) (hm : 2 ≤ m) (hk : 1 ≤ k) :
    ∃ a, nAdvance m k traj = some a ∧ 1 ≤ a ∧ a ≤ m - 1 ∧
      a + extraCell a (clampS a k) + extraCell (m - a) (clampS (m - a) (k - 1)) =
        extraCell m (clampS m k) := GW.nAdvance_attains m k traj hm hk

theorem C05_steps (N S : Nat) (alloc : Nat → Storage) (traj : Traj) (evs : List Ev)
    (h : multistageSeg N S alloc traj = some evs) (hN : 1 ≤ N) (hS : 2 ≤ N → 1 ≤ S) :
    GW.fwdSteps evs = N + extraCell N (clampS N S) :=
  GW.multistageSeg_fwdSteps N S alloc traj evs h hN hS

theorem C05_closed (m k t : Nat) (hk : 1 ≤ k) (hkm : k ≤ m - 1) (hm : 2 ≤ m)
    (hlo : Nat.choose (k + t - 1) (t - 1) < m) (hhi : m ≤ Nat.choose (k + t) t) (ht : 1 ≤ t) :
    m + extraCell m k + Nat.choose (k + t) (t - 1) = (t + 1) * m :=
  GW.extraCell_closed m k t hk hkm hm hlo hhi ht

/-- any split function attaining the minimum yields the optimum step count on every segment
(used for TwoLevel blocks and Revolve as well) -/
alias C05_segment := GW.segWith_fwdSteps

/-- NOT PROVED (named gap): optimality of the recurrence over all executable schedules. -/
def C05_full_stated : Prop := True

example : nAdvance 25 3 .maximum = some 15 ∧ nAdvance 25 3 .revolve = some 11 := by decide

end Ckpt

namespace Ckpt
/-- class level: the Multistage stream of any valid `(N, ram, disk)`, either trajectory, performs
the number of forward steps published by `optimal_steps_binomial(N, ram + disk)` -/
alias C05_multistage := GW.multistage_fwdSteps_optimal
alias C05_multistage_steps := GW.multistage_fwdSteps
end Ckpt

namespace Ckpt
/-- Revolve: for every cost vector with `uf > 0` the stream advances the forward over exactly
`N + E(N, min(cm, N-1))` steps (the cost table is `(l+1)·ub + uf·E`, so the argmin does not depend
on the costs and attains the minimum of the recurrence) -/
alias C05_revolve := RC.revolve_fwdSteps
alias C05_revolve_table := RC.opt0_eq_extra
end Ckpt
