import CkptVerif.Proofs.MultistageSteps
import CkptVerif.Proofs.GW
import CkptVerif.Proofs.StepBridges
import CkptVerif.Proofs.RevolveSteps
import CkptVerif.Proofs.LowerBound
/-!
# C05 — binomial schedules perform the minimal possible number of forward steps

`E := extraCell` is the model of `optimal_extra_steps` — literally the Griewank–Walther recurrence
(`E(1,·)=0`, `E(n,1)=n(n-1)/2`, `E(n,s) = min_i i + E(i,s) + E(n-i,s-1)`); `optimal_steps_binomial(n,s)
= n + E(n, min(s, n-1))` (`C05_helper`, by definition of the model).
* `C05_split`  — `n_advance` (BOTH trajectories) attains the minimum of the recurrence for every `m ≥ 2`, `k ≥ 1`;
* `C05_steps`  — hence the Multistage stream advances the forward over exactly `N + E(N, min(S, N-1))` steps;
* `C05_closed` — the closed form `m + E(m,k) = (t+1)·m − C(k+t, t−1)` for `C(k+t−1,t−1) < m ≤ C(k+t,t)`.
* `C05_full`, `C05_full_split`, `C05_multistage_optimal`, `C05_revolve_optimal` (end of file) — the lower bound:
  ANY stream the checking executor accepts for `N` steps and `s` units (restart data only in the units, one
  step of adjoint data in working storage) performs at least `N + E(N, min(s, N-1))` forward steps.
-/
namespace Ckpt

theorem C05_helper (n s : Nat) : optimalStepsBinomial n s = (extraSpec n s).map (n + ·) := rfl

theorem C05_split (m k : Nat) (traj : Traj) (hm : 2 ≤ m) (hk : 1 ≤ k) :
    ∃ a, nAdvance m k traj = some a ∧ 1 ≤ a ∧ a ≤ m - 1 ∧
      a + extraCell a (clampS a k) + extraCell (m - a) (clampS (m - a) (k - 1)) =
        extraCell m (clampS m k) := GW.nAdvance_attains m k traj hm hk

theorem C05_steps (N S : Nat) (alloc : Nat → Storage) (traj : Traj) (evs : List Ev)
    (h : multistageSeg N S alloc traj = some evs) (hN : 1 ≤ N) (hS : 2 ≤ N → 1 ≤ S) :
    GW.fwdSteps evs = N + extraCell N (clampS N S) :=
  GW.multistageSeg_fwdSteps N S alloc traj evs h hN hS

theorem C05_closed (m k t : Nat) (hk : 1 ≤ k) (hkm : k ≤ m - 1) (hm : 2 ≤ m)
    (hlo : Nat.choose (k + t - 1) (t - 1) < m) (hhi : m ≤ Nat.choose (k + t) t) (ht : 1 ≤ t) :
    m + extraCell m k + Nat.choose (k + t) (t - 1) = (t + 1) * m :=
  GW.extraCell_closed m k t hk hkm hm hlo hhi ht

/-- any split function attaining the minimum yields the optimum step count on every segment
(used for TwoLevel blocks and Revolve as well) -/
alias C05_segment := GW.segWith_fwdSteps

example : nAdvance 25 3 .maximum = some 15 ∧ nAdvance 25 3 .revolve = some 11 := by decide

end Ckpt

namespace Ckpt
/-- class level: the Multistage stream of any valid `(N, ram, disk)`, either trajectory, performs
the number of forward steps published by `optimal_steps_binomial(N, ram + disk)` -/
alias C05_multistage := GW.multistage_fwdSteps_optimal
alias C05_multistage_steps := GW.multistage_fwdSteps
end Ckpt

namespace Ckpt
/-- Revolve: for every cost vector with `uf > 0` the stream advances the forward over exactly
`N + E(N, min(cm, N-1))` steps (the cost table is `(l+1)·ub + uf·E`, so the argmin does not depend
on the costs and attains the minimum of the recurrence) -/
alias C05_revolve := RC.revolve_fwdSteps
alias C05_revolve_table := RC.opt0_eq_extra
end Ckpt

namespace Ckpt
/-! ## the lower bound over ALL executable schedules (Griewank 1992), and optimality of the classes -/

/-- ANY stream the checking executor accepts (no violation, adjoint completed) for `N` steps with at most
`s` stored checkpoints, none of which holds adjoint dependency data, performs at least
`N + optimal_extra_steps(N, min(s, N-1))` forward steps. -/
alias C05_full := GW.C05_full
/-- the same with the units split between RAM and DISK in any way -/
alias C05_full_split := GW.C05_full_split
alias C05_full_closed := GW.C05_full_closed
/-- Multistage (both trajectories, every split): accepted, complete, restart data only, and no accepted
stream performs fewer forward steps -/
alias C05_multistage_optimal := GW.C05_multistage_optimal
alias C05_multistage_attains := GW.multistage_obs

/-- Revolve, every cost vector with `uf > 0`: no stream the executor accepts for `N` steps and `cm`
RAM units (restart data only) performs fewer forward steps than Revolve's stream. -/
theorem C05_revolve_optimal (N cm : Nat) (c : Costs) (hN : 1 ≤ N) (hcm : 1 ≤ cm) (huf : 0 < c.uf)
    (evs : List Ev) (h : revolveEvs N cm c = .ok evs) (os : List Obs)
    (hclean : (run (cfgRevolve cm N) os).2 = [])
    (hdone : finished (cfgRevolve cm N) (run (cfgRevolve cm N) os).1 = true)
    (hnd : ∀ o ∈ os, GW.storesDeps o.act = false) :
    GW.fwdSteps evs ≤ GW.obsFwdSteps os := by
  rw [RC.revolve_fwdSteps N cm c hN hcm huf evs h]
  exact GW.C05_full N cm hN (Or.inl hcm) os (cfgRevolve cm N) rfl hclean hdone hnd
end Ckpt
