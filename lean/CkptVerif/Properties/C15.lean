import CkptVerif.Proofs.Cache
/-!
# C15 — a schedule's stream depends only on its own parameters (mechanism: `cache_step`)

In the model a stream is a function of the parameters; the content is that the process-global
memoisation the Python kernels go through is observationally pure: after ANY history of earlier
calls (valid keys), starting from the empty cache, every answer is the value of the recursive
specification at the clamped key.  Proved for all three decorated functions.
-/
namespace Ckpt

theorem C15_memo_mixed_step (calls : List (Nat × Nat))
    (hv : ∀ k, k ∈ calls → validKey k.1 (clampS k.1 k.2) = true) :
    (runCalls memoFM calls []).2 = calls.map (fun k => memoCell k.1 (clampS k.1 k.2)) :=
  memoCalls_pure calls hv

theorem C15_memo_extra_steps (calls : List (Nat × Nat))
    (hv : ∀ k, k ∈ calls → validKey k.1 (clampS k.1 k.2) = true) :
    (runCalls extraFM calls []).2 = calls.map (fun k => extraCell k.1 (clampS k.1 k.2)) :=
  extraCalls_pure calls hv

theorem C15_memo_steps_mixed (calls : List (Nat × Nat))
    (hv : ∀ k, k ∈ calls → validKey k.1 (clampS k.1 k.2) = true) :
    (runCalls optMixedFM calls []).2 = calls.map (fun k => optMixedCell k.1 (clampS k.1 k.2)) :=
  optMixedCalls_pure calls hv

/-- history independence of a single call -/
theorem C15_history (history : List (Nat × Nat))
    (hh : ∀ k, k ∈ history → validKey k.1 (clampS k.1 k.2) = true)
    (fuel n s : Nat) (hfuel : n < fuel) (hv : validKey n (clampS n s) = true) :
    (cachedCall memoFM fuel n s (runCalls memoFM history []).1).2 = memoCell n (clampS n s) :=
  cachedCall_history_independent memoFM memoF memoFM_sim memoF_local history hh fuel n s hfuel hv

example : (runCalls memoFM [(10, 3), (7, 9), (10, 3), (5, 2)] []).2.length = 4 := by decide

end Ckpt
