import CkptVerif.Proofs.Cache
import CkptVerif.Proofs.Process
import CkptVerif.Proofs.ProcessRefine
/-!
# C15 — a schedule's stream depends only on its own parameters (mechanism: `cache_step`)

In the model a stream is a function of the parameters; the content is that the process-global
memoisation the Python kernels go through is observationally pure: after ANY history of earlier
calls (valid keys), starting from the empty cache, every answer is the value of the recursive
specification at the clamped key.  Proved for all three decorated functions.
-/
namespace Ckpt

theorem C15_memo_mixed_step (calls : List (Nat × Nat))
    (hv : ∀ k, k ∈ calls → validKey k.1 (clampS k.1 k.2) = true) :
    (runCalls memoFM calls []).2 = calls.map (fun k => memoCell k.1 (clampS k.1 k.2)) :=
  memoCalls_pure calls hv

theorem C15_memo_extra_steps (calls : List (Nat × Nat))
    (hv : ∀ k, k ∈ calls → validKey k.1 (clampS k.1 k.2) = true) :
    (runCalls extraFM calls []).2 = calls.map (fun k => extraCell k.1 (clampS k.1 k.2)) :=
  extraCalls_pure calls hv

theorem C15_memo_steps_mixed (calls : List (Nat × Nat))
    (hv : ∀ k, k ∈ calls → validKey k.1 (clampS k.1 k.2) = true) :
    (runCalls optMixedFM calls []).2 = calls.map (fun k => optMixedCell k.1 (clampS k.1 k.2)) :=
  optMixedCalls_pure calls hv

/-- history independence of a single call -/
theorem C15_history (history : List (Nat × Nat))
    (hh : ∀ k, k ∈ history → validKey k.1 (clampS k.1 k.2) = true)
    (fuel n s : Nat) (hfuel : n < fuel) (hv : validKey n (clampS n s) = true) :
    (cachedCall memoFM fuel n s (runCalls memoFM history []).1).2 = memoCell n (clampS n s) :=
  cachedCall_history_independent memoFM memoF memoFM_sim memoF_local history hh fuel n s hfuel hv

example : (runCalls memoFM [(10, 3), (7, 9), (10, 3), (5, 2)] []).2.length = 4 := by decide

/-! ## the process level: any interleaving of constructions, `next`/`finalize` calls on any objects,
observer reads and helper calls (`Model/Process.lean`: the three memo tables are process-global state;
a Mixed object on the memoisation path queries the planner lazily, through the shared table, at each
`next()`) -/

/-- the answers object `i` gives (constructor outcome excluded, see `C15_process_constructor`) in ANY
history equal those it gives in a fresh process that runs only its own operations -/
alias C15_process := Proc.C15_process
alias C15_process_constructor := Proc.C15_process_constructor
/-- two objects built with equal parameters at any two points of any two histories and driven by the same
own sequence of `next`/`finalize`/observer calls answer identically -/
alias C15_equal_params := Proc.C15_equal_params
/-- observer reads (`n`, `r`, `max_n`, `is_exhausted`, `is_running`, `uses_storage_type`) leave the whole
process state unchanged, so they can be inserted or removed anywhere -/
alias C15_observers := Proc.C15_observers
alias C15_observer_erase := Proc.C15_observer_erase
/-- the public helpers answer with the value of the recursive specification after any history -/
alias C15_helpers_pure := Proc.C15_helpers_pure
/-- every memo table entry is correct after any history -/
alias C15_caches_ok := Proc.CachesOK_run
/-- the lazily planning Mixed object in any history = the pure `Sched` machine of the stream theorems -/
alias C15_mixed_process := Proc.C15_mixed_process
alias C15_plain_process := Proc.C15_plain_process

end Ckpt
