import CkptVerif.Proofs.Period
import CkptVerif.Proofs.PeriodicOps
import CkptVerif.Proofs.RevolveSteps
/-!
# C19 — PeriodicDiskRevolve really is periodic, with a period independent of `n`

`C19_period`: the period is `beta cm t*` for the least `t*` with `beta(cm+1, t*)·uf > wd + rd`
(the closed form of Aupy & Herrmann 2017 as the code states it); it does not take `n`.
`C19_ops`: for every `n` the model stream writes DISK exactly at `0, m, 2m, …` while more than `m`
steps remain, as its first events; never writes DISK afterwards; loads each DISK checkpoint
exactly once (a `Move`); and is `sweep ++ revSeg[tail] ++ (Move :: revSeg[block])* ++ [EndReverse]`.
-/
namespace Ckpt

theorem C19_period (cm uf wr : Nat) (huf : 0 < uf) :
    ∃ h : ∃ t, wr < beta (cm + 1) t * uf, mxrr cm uf wr = some (beta cm (Nat.find h)) :=
  mxrr_spec cm uf wr huf

theorem C19_beta (x y : Nat) : beta x y = (x + y).choose y := beta_eq x y

alias C19_structure := periodic_structure
alias C19_ops := periodic_disk_ops

example : mxrr 2 1 7 = some 6 := by decide

end Ckpt

namespace Ckpt
/-- each segment (the tail and every period block) is reversed with the memory-only Revolve
optimum number of forward steps -/
alias C19_segments := RC.periodic_segments_fwdSteps
end Ckpt
