import CkptVerif.Proofs.OnlineE2E
import CkptVerif.Proofs.HRevolveE2E
/-!
# Stream properties, remaining classes: HRevolve and the online schedules

With `Properties/Streams.lean` this gives, for EVERY schedule class, a theorem that the canonical
trace of the model object passes the whole monitor (tags C01 C02 C03 C04 C08 C09 C11 C12 C18), for all
valid parameters, every finalisation point `N` of the online classes and every number `k` of requested
adjoint calculations.  (`N ≤ sys.maxsize` for SingleMemory/None: one Forward.)
-/
namespace Ckpt

theorem streams_hrevolve (N c0 c1 : Nat) (c : Costs) (hv : validRevolve N c0 c.uf c.ub = true) :
    ∃ sch evs, hrevolveSched N c0 c1 c = .ok sch ∧ hrevolveEvs N c0 c1 c = .ok evs ∧
      ∀ k fuel, evs.length + 4 ≤ fuel →
        monitor (cfgHRevolve c0 c1 N) k (sch.canon N k fuel) = [] :=
  hrevolve_monitor_clean N c0 c1 c hv

theorem streams_singleMemory (N k fuel : Nat) (hN : 1 ≤ N) (hmax : N ≤ maxsize)
    (hk : 1 ≤ k) (hfuel : 2 * k + 2 ≤ fuel) :
    monitor (cfgSingleMemory N) k (singleMemorySched.canon N k fuel) = [] :=
  singleMemory_monitor_clean N k fuel hN hmax hk hfuel

theorem streams_singleDisk (mv : Bool) (N k fuel : Nat) (hN : 1 ≤ N) (hk : 1 ≤ k)
    (hfuel : N + 2 + k * (2 * N + 1) ≤ fuel) :
    monitor (cfgSingleDisk mv N) k ((singleDiskSched mv).canon N k fuel) = [] :=
  singleDisk_monitor_clean mv N k fuel hN hk hfuel

theorem streams_none (N k fuel : Nat) (hN : 1 ≤ N) (hmax : N ≤ maxsize) (hfuel : 3 ≤ fuel) :
    monitor (cfgNone N) k (noneSched.canon N k fuel) = [] :=
  none_monitor_clean N k fuel hN hmax hfuel

theorem streams_twoLevel (p b N k fuel : Nat) (st : Storage) (traj : Traj)
    (hv : validTwoLevel p st = true) (hN : 1 ≤ N) (hk : 1 ≤ k)
    (hfuel : ceilDiv N p + 1 + k * (twoLevelPass N p b st traj).length ≤ fuel) :
    ∃ s, twoLevelSched p b st traj = .ok s ∧
      monitor (cfgTwoLevel p b st N) k (s.canon N k fuel) = [] :=
  twoLevel_monitor_clean p b N k fuel st traj hv hN hk hfuel

/-- the structural characterisation of "last read" behind the HRevolve stream: the model of the
repaired code's `_last_reads` rule equals a stream that decides Copy/Move structurally -/
alias hrevolve_lastReads_structural := resolveLoads_hR

example : validRevolve 9 2 1 1 = true ∧ validTwoLevel 3 .ram = true := by decide

end Ckpt
