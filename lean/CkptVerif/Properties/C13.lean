import CkptVerif.Proofs.StepBridges
import CkptVerif.Proofs.OnlineE2E
import CkptVerif.Proofs.MultistageLabels
/-!
# C13 — TwoLevel: periodic disk checkpoints, binomially optimal recomputation

`C13_forward`: before finalisation the schedule emits exactly `Forward(n, n+period, True, False, DISK)`
from `n = 0, period, 2·period, …`.  `C13_block`: every period block `[lo, hi)` (full or partial, any
pass, both trajectories, both storages) is recomputed with exactly `L + E(L, min(b+1, L−1))` forward
steps, `L = hi − lo` — the number published by `optimal_steps_binomial(L, b+1)`.  `C13_pass`: the sum over
the blocks.  Extra checkpoints carry only the binomial storage label (`C13_labels`: stack position 0 is
the periodic DISK checkpoint, positions ≥ 1 the binomial storage).  Executability for all passes:
`streams_twoLevel`.
-/
namespace Ckpt

alias C13_forward := GW.twoLevelSched_fwdEv
alias C13_block := GW.block_fwdSteps
alias C13_pass := GW.twoLevelPass_fwdSteps
alias C13_labels := GW.twoLevel_block_labelsOk

end Ckpt
