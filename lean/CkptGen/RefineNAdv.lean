import CkptGen.Src
import CkptVerif.Proofs.NAdv
/-!
# The Lean text generated from `n_advance` (multistage.py) computes the model `nAdvance`

`Ckpt.Py.n_advance` is produced by `harness/py2lean.py` from the current Python source; `Ckpt.nAdvance` is the
hand-written model all stream theorems are about.
-/
namespace Ckpt.Py
open Ckpt

/-- the Python spelling of a trajectory -/
def trajStr : Traj → String
  | .maximum => "maximum"
  | .revolve => "revolve"

/-- `Option` answers of the model as outcomes of the generated function: `none` is `ValueError` -/
def ofOpt {α β : Type} (f : α → β) : Option α → M β
  | some a => .ok (f a)
  | none => .error .valueError

theorem floordiv_nat (a b : Nat) (hb : b ≠ 0) : floordiv (a : Int) (b : Int) = .ok (((a / b : Nat)) : Int) := by
  unfold floordiv
  have : (b : Int) ≠ 0 := by exact_mod_cast hb
  rw [if_neg this]
  show Except.ok _ = _
  congr 1
  rw [Int.fdiv_eq_ediv_of_nonneg _ (by positivity)]
  exact (Int.natCast_ediv a b).symm

/-- the generated loop is the model's loop -/
theorem while1_eq (n s : Nat) : ∀ (fuel t b2 b1 b0 : Nat),
    n_advance.while1 (n : Int) (s : Int) fuel ((t : Int), (b2 : Int), (b1 : Int), (b0 : Int)) =
      match advLoop fuel n s t b2 b1 b0 with
      | none => .error .fuel
      | some (t', c2, c1, c0) => .ok ((t' : Int), (c2 : Int), (c1 : Int), (c0 : Int)) := by
  intro fuel
  induction fuel with
  | zero => intro t b2 b1 b0; rfl
  | succ fuel ih =>
    intro t b2 b1 b0
    unfold n_advance.while1 advLoop
    by_cases hc : b1 ≥ n ∨ n > b0
    · have hc' : ((b1 : Int) ≥ (n : Int)) ∨ ((n : Int) > (b0 : Int)) := by
        rcases hc with h | h
        · left; exact_mod_cast h
        · right; exact_mod_cast h
      simp only [hc, hc', if_true]
      have hd : floordiv ((b0 : Int) * ((s : Int) + ((t : Int) + 1))) ((t : Int) + 1)
          = .ok ((((b0 * (s + (t + 1))) / (t + 1) : Nat)) : Int) := by
        have := floordiv_nat (b0 * (s + (t + 1))) (t + 1) (by omega)
        push_cast at this ⊢
        exact this
      simp only [bind, Except.bind, hd, pure, Except.pure]
      have := ih (t + 1) b1 b0 ((b0 * (s + (t + 1))) / (t + 1))
      push_cast at this
      exact this
    · have hc' : ¬ (((b1 : Int) ≥ (n : Int)) ∨ ((n : Int) > (b0 : Int))) := by
        intro h
        apply hc
        rcases h with h | h
        · left; exact_mod_cast h
        · right; exact_mod_cast h
      simp only [hc, hc', if_false]
      rfl

end Ckpt.Py

namespace Ckpt.Py
open Ckpt Nat

theorem advLoop_fuel_mono (n s : Nat) : ∀ (fuel k t b2 b1 b0 : Nat) (r : Nat × Nat × Nat × Nat),
    advLoop fuel n s t b2 b1 b0 = some r → advLoop (fuel + k) n s t b2 b1 b0 = some r := by
  intro fuel
  induction fuel with
  | zero => intro k t b2 b1 b0 r h; simp [advLoop] at h
  | succ fuel ih =>
    intro k t b2 b1 b0 r h
    have e : fuel + 1 + k = (fuel + k) + 1 := by omega
    rw [e]
    unfold advLoop at h ⊢
    by_cases hc : b1 ≥ n ∨ n > b0
    · rw [if_pos hc] at h ⊢
      exact ih k _ _ _ _ r h
    · rw [if_neg hc] at h ⊢
      exact h

theorem trajStr_max : (trajStr .maximum = "maximum") = True := by simp [trajStr]
theorem trajStr_rev1 : (trajStr .revolve = "maximum") = False := by simp [trajStr]
theorem trajStr_rev2 : (trajStr .revolve = "revolve") = True := by simp [trajStr]

/-- **`n_advance` as generated from the Python source computes the model `nAdvance`** (for every `n`,
`snapshots ≥ 0`, both trajectories; `ValueError` exactly where the model says so), for any fuel `≥ n + 1` -/
theorem n_advance_refines (n s : Nat) (traj : Traj) (fuel : Nat) (hf : n + 1 ≤ fuel) :
    n_advance fuel (n : Int) (s : Int) (trajStr traj) = ofOpt (fun a : Nat => (a : Int)) (nAdvance n s traj) := by
  unfold n_advance nAdvance
  simp only [bind, Except.bind, pure, Except.pure]
  by_cases h1 : n < 1
  · have : (n : Int) < 1 := by exact_mod_cast h1
    simp only [h1, this, if_true]; rfl
  have h1' : ¬ (n : Int) < 1 := by exact_mod_cast h1
  simp only [h1, h1', if_false]
  by_cases h0 : s = 0
  · subst h0
    simp only [Nat.cast_zero, le_refl, if_true]; rfl
  have h0' : ¬ (s : Int) ≤ 0 := by
    have : 0 < s := Nat.pos_of_ne_zero h0
    omega
  simp only [h0, h0', if_false]
  have hcast : max (min (s : Int) ((n : Int) - 1)) 1 = ((max (min s (n - 1)) 1 : Nat) : Int) := by
    push_cast [Nat.cast_sub (show 1 ≤ n by omega)]; rfl
  rw [hcast]
  generalize hs' : max (min s (n - 1)) 1 = s'
  by_cases c1 : s' = 1
  · have : (s' : Int) = 1 := by exact_mod_cast c1
    rw [if_pos this, if_pos c1]
    show Except.ok _ = Except.ok _
    congr 1
    show (n : Int) - 1 = ((n - 1 : Nat) : Int)
    omega
  have c1' : ¬ (s' : Int) = 1 := by exact_mod_cast c1
  rw [if_neg c1, if_neg c1']
  by_cases c2 : s' = n - 1
  · have : (s' : Int) = (n : Int) - 1 := by omega
    rw [if_pos this, if_pos c2]
    rfl
  have c2' : ¬ (s' : Int) = (n : Int) - 1 := by omega
  rw [if_neg c2, if_neg c2']
  have hn : 2 ≤ n := by omega
  have hs'1 : 2 ≤ s' := by omega
  have hs'2 : s' + 2 ≤ n := by omega
  have inv0 : LoopInv n s' 2 1 (s'+1) (((s'+1)*(s'+2))/2) := by
    refine ⟨le_refl _, ?_, ?_, ?_, by omega⟩
    · have := choose_step s' 1
      have e1 : choose (s'+1) 1 = s' + 1 := by simp
      rw [e1] at this
      simpa using this
    · simp
    · simp
  obtain ⟨t, b2, b1, b0, hl, inv, hle⟩ := advLoop_spec (n+1) n s' 2 1 (s'+1) _ (by omega) inv0 (by omega)
  have hl2 : advLoop fuel n s' 2 1 (s'+1) (((s'+1)*(s'+2))/2) = some (t, b2, b1, b0) := by
    have := advLoop_fuel_mono n s' (n+1) (fuel - (n+1)) 2 1 (s'+1) _ _ hl
    have e : n + 1 + (fuel - (n + 1)) = fuel := by omega
    rw [e] at this; exact this
  have hd0 : floordiv (((s' : Int) + 1) * ((s' : Int) + 2)) 2 = .ok ((((s'+1)*(s'+2))/2 : Nat) : Int) := by
    have := floordiv_nat ((s'+1)*(s'+2)) 2 (by omega)
    push_cast at this ⊢
    exact this
  rw [hd0]
  have hw := while1_eq n s' fuel 2 1 (s'+1) (((s'+1)*(s'+2))/2)
  rw [hl2] at hw
  simp only [Nat.cast_ofNat, Nat.cast_one, Nat.cast_add] at hw
  simp only []
  rw [hw, hl]
  simp only []
  have ht := inv.t2
  have hb1lt := inv.lt
  have hb2 : 1 ≤ b2 := by rw [inv.e2]; exact Nat.choose_pos (by omega)
  have hb21 : b2 < b1 := by
    rw [inv.e2, inv.e1]
    have := choose_strict s' (t-2) (by omega)
    have e : t - 2 + 1 = t - 1 := by omega
    rw [e] at this; exact this
  have hm1 : (b1 * s') / (s' + t - 1) = choose (s' - 1 + (t-1)) (t-1) := by
    rw [inv.e1]
    have := choose_lower s' (t-1) (by omega)
    have e : s' + t - 1 = s' + (t-1) := by omega
    rw [e]; exact this
  have hm1pos : 1 ≤ (b1 * s') / (s' + t - 1) := by rw [hm1]; exact Nat.choose_pos (by omega)
  have hm1le : (b1 * s') / (s' + t - 1) ≤ b1 := by
    apply Nat.div_le_of_le_mul
    have : s' ≤ s' + t - 1 := by omega
    calc b1 * s' ≤ b1 * (s' + t - 1) := Nat.mul_le_mul_left _ this
      _ = (s' + t - 1) * b1 := Nat.mul_comm _ _
  -- the three divisions of the generated text are the model's
  have hd1 : floordiv ((b1 : Int) * (s' : Int)) ((s' : Int) + (t : Int) - 1) = .ok (((b1 * s') / (s' + t - 1) : Nat) : Int) := by
    have := floordiv_nat (b1 * s') (s' + t - 1) (by omega)
    push_cast [Nat.cast_sub (show 1 ≤ s' + t by omega)] at this ⊢
    exact this
  have hd3 : floordiv ((b2 : Int) * (s' : Int)) ((s' : Int) + (t : Int) - 2) = .ok (((b2 * s') / (s' + t - 2) : Nat) : Int) := by
    have := floordiv_nat (b2 * s') (s' + t - 2) (by omega)
    push_cast [Nat.cast_sub (show 2 ≤ s' + t by omega)] at this ⊢
    exact this
  have hd2 : ∀ x1 : Nat, floordiv ((x1 : Int) * ((s' : Int) - 1)) ((s' : Int) + (t : Int) - 2)
      = .ok (((x1 * (s' - 1)) / (s' + t - 2) : Nat) : Int) := by
    intro x1
    have := floordiv_nat (x1 * (s' - 1)) (s' + t - 2) (by omega)
    push_cast [Nat.cast_sub (show 2 ≤ s' + t by omega), Nat.cast_sub (show 1 ≤ s' by omega)] at this ⊢
    exact this
  rw [hd1, hd3]
  simp only [hd2]
  generalize (b1 * s') / (s' + t - 1) = x1 at *
  generalize (x1 * (s' - 1)) / (s' + t - 2) = x2 at *
  generalize (b2 * s') / (s' + t - 2) = x3 at *
  cases traj
  · simp only [trajStr_max, if_true, ofOpt]
    split_ifs <;> first | omega | (show Except.ok _ = Except.ok _; congr 1 <;> omega)
  · simp only [trajStr_rev1, trajStr_rev2, if_true, if_false, ofOpt]
    split_ifs <;> first | omega | (show Except.ok _ = Except.ok _; congr 1 <;> omega)

/-- negative arguments: `ValueError` -/
theorem n_advance_invalid (n s : Int) (tr : String) (fuel : Nat) (h : n < 1 ∨ s ≤ 0) :
    n_advance fuel n s tr = .error .valueError := by
  unfold n_advance
  simp only [bind, Except.bind, pure, Except.pure]
  by_cases h1 : n < 1
  · rw [if_pos h1]; rfl
  · rw [if_neg h1]
    have : s ≤ 0 := by rcases h with h | h; exact absurd h h1; exact h
    rw [if_pos this]; rfl

end Ckpt.Py

#print axioms Ckpt.Py.n_advance_refines
#print axioms Ckpt.Py.n_advance_invalid
