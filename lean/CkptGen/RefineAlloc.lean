import CkptGen.Capstone
import CkptVerif.Proofs.TopK
import CkptVerif.Proofs.MultistageE2E
import Mathlib.Tactic
/-!
# `allocate_snapshots` as generated from the Python source, and the oracle-free Multistage capstone

1. `pySortedDescIdx_refines`: the run-time `sorted(enumerate(ws), key=itemgetter(1), reverse=True)[:k]` on natural
   weights is the model's `sortDesc … |>.take k`.
2. `multistage_actions_refines`: the nested schedule object of `allocate_snapshots` (generated constructor with no DISK
   units, generated generator, cut after the first `EndReverse`) yields the actions of `multistageSeg N S (fun _ => .ram)`.
3. `allocate_snapshots_refines`: the generated `allocate_snapshots` with the default weights `1.0 / 1.0 / 0.0` returns the
   model's `allocate N ram disk traj` for every `N ≥ 1` and ALL natural `ram`, `disk`; fuel `multistageFuel N = N + 2`.
4. `sourceOracle` (the generated function as the oracle of the generated constructor), `sourceOracle_agrees`, and the
   oracle-free corollaries `source_multistage_accepted_full`, `source_multistage_C01_C18_full`,
   `source_multistage_budgets_full`, `multistage_construct_then_iterate_full`.
-/
namespace Ckpt.Py
open Ckpt

/-! ## 1. `pySortedDescIdx` -/

/-- a model pair `(index, weight)` as a pair of the generated text -/
def pairQ (q : Nat × Nat) : Int × Rat := ((q.1 : Int), (q.2 : Rat))

theorem insDescQ_map (x : Nat × Nat) : ∀ ys : List (Nat × Nat),
    insDescQ (pairQ x) (ys.map pairQ) = (insDesc x ys).map pairQ
  | [] => rfl
  | y :: ys => by
    simp only [List.map_cons, insDescQ, insDesc]
    have e : ((pairQ x).2 ≤ (pairQ y).2) ↔ y.2 ≥ x.2 := by
      simp only [pairQ, Nat.cast_le, ge_iff_le]
    by_cases h : y.2 ≥ x.2
    · rw [if_pos (e.2 h), if_pos h, List.map_cons, insDescQ_map x ys]
    · rw [if_neg (fun h' => h (e.1 h')), if_neg h]; rfl

theorem foldl_insDescQ_map : ∀ (l acc : List (Nat × Nat)),
    (l.map pairQ).foldl (fun acc x => insDescQ x acc) (acc.map pairQ)
      = (l.foldl (fun acc x => insDesc x acc) acc).map pairQ
  | [], _ => rfl
  | x :: l, acc => by
    simp only [List.map_cons, List.foldl_cons]
    rw [insDescQ_map, foldl_insDescQ_map l]

/-- **`pySortedDescIdx`** on natural weights and a natural `k` is the model's
`((sortDesc (w.zipIdx.map (fun p => (p.2, p.1)))).take k).map (·.1)` -/
theorem pySortedDescIdx_refines (w : List Nat) (k : Nat) :
    pySortedDescIdx (w.map (fun a : Nat => (a : Rat))) (k : Int)
      = (((sortDesc (w.zipIdx.map (fun p => (p.2, p.1)))).take k).map (·.1)).map Int.ofNat := by
  unfold pySortedDescIdx
  have e : ((w.map (fun a : Nat => (a : Rat))).zipIdx.map (fun p => ((p.2 : Int), p.1)))
      = (w.zipIdx.map (fun p => (p.2, p.1))).map pairQ := by
    rw [List.zipIdx_map, List.map_map, List.map_map]
    rfl
  have h : ((w.zipIdx.map (fun p => (p.2, p.1))).map pairQ).foldl (fun acc x => insDescQ x acc) []
      = (sortDesc (w.zipIdx.map (fun p => (p.2, p.1)))).map pairQ :=
    foldl_insDescQ_map (w.zipIdx.map (fun p : Nat × Nat => (p.2, p.1))) []
  simp only [e, h]
  rw [if_neg (by omega), List.length_map]
  have : (min (k : Int) ((sortDesc (w.zipIdx.map (fun p => (p.2, p.1)))).length : Int)).toNat
      = min k (sortDesc (w.zipIdx.map (fun p => (p.2, p.1)))).length := by omega
  rw [this, ← List.map_take, List.map_map, List.map_map, ← List.take_eq_take_min]
  rfl

example : pySortedDescIdx ([3, 1, 3, 2].map (fun a : Nat => (a : Rat))) ((2 : Nat) : Int) = [0, 2] := by
  rw [pySortedDescIdx_refines]; decide


/-! ## 2. the nested schedule of `allocate_snapshots` -/

/-- the stream of a binomial segment reads the labelling only at stack positions `< S` (a split function that
refuses `0` units) -/
theorem segWith_alloc_congr (N : Nat) (σ : Nat → Nat → Option Nat) (S : Nat) (alloc alloc' : Nat → Storage)
    (persist : Bool) (hσ : ∀ m, σ m 0 = none) (hal : ∀ i, i < S → alloc i = alloc' i) :
    ∀ (fuel : Nat) (stored spine : Bool) (lo hi d : Nat), (stored = true → d < S) →
      segWith N σ S alloc persist fuel stored spine lo hi d = segWith N σ S alloc' persist fuel stored spine lo hi d := by
  intro fuel
  induction fuel with
  | zero => intro stored spine lo hi d _; rfl
  | succ fuel ih =>
    intro stored spine lo hi d hd
    rw [segWith, segWith]
    by_cases hu : hi = lo + 1
    · simp only [hu, if_true]
      cases stored
      · rfl
      · rw [hal d (hd rfl)]
    · simp only [hu, if_false]
      by_cases hdS : d < S
      · rw [hal d hdS]
        cases σ (hi - lo) (S - d) with
        | none => rfl
        | some a =>
          simp only
          rw [ih true false lo (lo + a) d (fun _ => hdS), ih false spine _ hi (d + 1) (by intro h; cases h)]
      · have : S - d = 0 := by omega
        rw [this, hσ]

theorem nAdvance_units_zero (m : Nat) (traj : Traj) : nAdvance m 0 traj = none := by
  unfold nAdvance
  by_cases h : m < 1
  · rw [if_pos h]
  · rw [if_neg h, if_pos rfl]

theorem multistageSeg_alloc_congr (N S : Nat) (alloc alloc' : Nat → Storage) (traj : Traj)
    (hal : ∀ i, i < S → alloc i = alloc' i) : multistageSeg N S alloc traj = multistageSeg N S alloc' traj := by
  unfold multistageSeg
  rw [segWith_alloc_congr N _ S alloc alloc' false (fun m => nAdvance_units_zero m traj) hal N false true 0 N 0
    (by intro h; cases h)]

/-- the all-RAM stream exists only with a unit (or for a single step) -/
theorem multistageSeg_units (N S : Nat) (alloc : Nat → Storage) (traj : Traj) (evs : List Ev)
    (h : multistageSeg N S alloc traj = some evs) (hN : 1 ≤ N) : ¬ (N > 1 ∧ S = 0) := by
  rintro ⟨h1, rfl⟩
  unfold multistageSeg at h
  obtain ⟨f, rfl⟩ : ∃ f, N = f + 1 := ⟨N - 1, by omega⟩
  rw [segWith] at h
  rw [if_neg (by omega)] at h
  simp only [Nat.sub_zero, nAdvance_units_zero] at h
  cases h

/-- the `storage` tuple of the nested object: `S` RAM units, no DISK units -/
theorem multistageStorage_ramOnly (N S : Nat) (traj : Traj) (hS : S ≤ N - 1) :
    multistageStorage N S 0 traj = some (List.replicate S .ram) := by
  unfold multistageStorage
  simp only [Nat.min_eq_left hS, Nat.zero_min]
  by_cases h : S = 0
  · subst h; rfl
  · rw [if_neg h, if_pos trivial]

theorem multistageEvs_ramOnly (N S : Nat) (traj : Traj) (evs : List Ev) (hN : 1 ≤ N) (hS : S ≤ N - 1)
    (h : multistageSeg N S (fun _ => .ram) traj = some evs) : multistageEvs N S 0 traj = .ok evs := by
  unfold multistageEvs
  rw [if_neg (by omega), multistageStorage_ramOnly N S traj hS]
  simp only [List.length_replicate]
  rw [if_neg (multistageSeg_units N S _ traj evs h hN),
    multistageSeg_alloc_congr N S _ (fun _ => Storage.ram) traj, h]
  intro i hi
  simp [List.getD, hi]

/-- the generated constructor of the nested object (no DISK units: the allocation is never asked for) -/
theorem multistage_init_ramOnly (N S : Nat) (traj : Traj) (oracle : AllocOracle) (hN : 1 ≤ N) (hS : S ≤ N - 1) :
    multistage_init (N : Int) (S : Int) 0 (trajStr traj) oracle
      = .ok (0, 0, some (N : Int), (((List.replicate S Storage.ram).count .ram : Nat) : Int),
          (((List.replicate S Storage.ram).count .disk : Nat) : Int), (List.replicate S Storage.ram).map stPy, false,
          trajStr traj) := by
  rw [multistage_init_spec, if_neg (by omega), ← msFields_map]
  have e1 : min (S : Int) ((N : Int) - 1) = (S : Int) := by omega
  have e2 : min (0 : Int) ((N : Int) - 1) = 0 := by omega
  rw [e1, e2]
  by_cases h : S = 0
  · subst h; rfl
  · rw [if_neg (by exact_mod_cast h), if_pos rfl, Int.toNat_natCast, List.map_replicate]
    rfl

theorem actPy_endReverse (a : Action) : actPy a = .endReverse ↔ a = .endReverse := by
  cases a <;> simp [actPy]

/-- cutting after the first `EndReverse` a list whose only `EndReverse` is its last element -/
theorem cut_endReverse (a : List PyEv) (x : PyEv) (ha : ∀ e ∈ a, e.act ≠ .endReverse) (hx : x.act = .endReverse) :
    (a ++ [x]).findIdx (fun e => e.act = .endReverse) = a.length := by
  induction a with
  | nil => simp [List.findIdx_cons, hx]
  | cons b a ih =>
    have hb := ha b (by simp)
    rw [List.cons_append, List.findIdx_cons]
    simp only [hb, decide_false, cond_false, List.length_cons]
    rw [ih (fun e he => ha e (List.mem_cons_of_mem _ he))]

/-- **the nested schedule object of `allocate_snapshots`** — the generated constructor with `S` RAM and no DISK
units and a raising oracle, then the generated generator, cut after the first `EndReverse` — yields the actions
of the all-RAM stream `multistageSeg N S (fun _ => .ram)`; fuel `N + 2` -/
theorem multistage_actions_refines (N S : Nat) (traj : Traj) (evs : List Ev) (fuel : Nat)
    (hN : 1 ≤ N) (hS : S ≤ N - 1) (hf : multistageFuel N ≤ fuel)
    (h : multistageSeg N S (fun _ => .ram) traj = some evs) :
    multistage_actions fuel (N : Int) (S : Int) 0 (trajStr traj) = .ok (evs.map (fun e => actPy e.act)) := by
  have hev := multistageEvs_ramOnly N S traj evs hN hS h
  have hit := multistage_iterator_refines N S 0 traj _ evs fuel (multistageStorage_ramOnly N S traj hS) hev hf
  -- the shape of the stream
  unfold multistageSeg at h
  cases hs : segWith N (fun m k => nAdvance m k traj) S (fun _ => Storage.ram) false N false true 0 N 0 with
  | none => rw [hs] at h; cases h
  | some evs0 =>
    rw [hs] at h
    simp only [Option.map_some, Option.some.injEq] at h
    subst h
    have hno := segWith_no_endReverse hs
    unfold multistage_actions
    rw [multistage_init_ramOnly N S traj _ hN hS]
    simp only [bind, Except.bind]
    rw [hit, List.map_append, markLast_append_ne _ _ (by simp)]
    simp only [List.map_cons, List.map_nil, markLast]
    have hcut := cut_endReverse (evs0.map (evPy · false))
      ({ evPy (⟨.endReverse, 1, N⟩ : Ev) false with exhausted := true })
      (by
        intro e he
        rw [List.mem_map] at he
        obtain ⟨e0, he0, rfl⟩ := he
        intro hc
        exact hno e0 he0 ((actPy_endReverse _).1 hc)) rfl
    rw [hcut]
    rw [if_neg (by simp)]
    simp only [pure, Except.pure]
    rw [List.take_of_length_le (by simp)]
    simp [evPy, actPy]

example : (1 : Nat) ≤ 6 ∧ 3 ≤ 6 - 1 ∧ multistageFuel 6 ≤ 8 ∧ (multistageSeg 6 3 (fun _ => .ram) .revolve).isSome = true :=
  ⟨by decide, by decide, by decide, by decide⟩


/-- natural weights as the generated text's `float`s -/
def castQ (w : List Nat) : List Rat := w.map (fun a : Nat => (a : Rat))

theorem castQ_length (w : List Nat) : (castQ w).length = w.length := by simp [castQ]

theorem pySetAt_nat_al {α : Type} (xs : List α) (i : Nat) (v : α) (h : i < xs.length) :
    pySetAt xs (i : Int) v = .ok (xs.set i v) := by
  unfold pySetAt
  have h1 : ¬ ((i : Int) < 0) := by omega
  have h2 : ¬ ((i : Int) < 0 ∨ (i : Int) ≥ (xs.length : Int)) := by omega
  simp only [h1, if_false, Int.toNat_natCast, false_or]
  have h3 : ¬ ((i : Int) ≥ (xs.length : Int)) := by omega
  rw [if_neg h3]
  rfl

theorem pyIndex_castQ (w : List Nat) (i : Nat) (h : i < w.length) :
    pyIndex (castQ w) (i : Int) = .ok ((w[i] : Nat) : Rat) := by
  rw [pyIndex_nat_ms _ _ (by rw [castQ_length]; exact h)]
  simp [castQ]

theorem castQ_bump (w : List Nat) (i : Nat) (h : i < w.length) :
    (castQ w).set i (((w[i] : Nat) : Rat) + 1) = castQ (w.modify i (· + 1)) := by
  apply List.ext_getElem
  · simp [castQ]
  · intro j h1 h2
    simp only [castQ, List.getElem_set, List.getElem_map, List.getElem_modify]
    by_cases hij : i = j
    · subst hij; simp
    · simp [hij]

theorem castQ_keep (w : List Nat) (i : Nat) (h : i < w.length) :
    (castQ w).set i (((w[i] : Nat) : Rat) + 0) = castQ w := by
  apply List.ext_getElem
  · simp [castQ]
  · intro j h1 h2
    simp only [castQ, List.getElem_set, List.getElem_map, add_zero]
    by_cases hij : i = j
    · subst hij; simp
    · simp [hij]

/-- one step of the model's dry run -/
def dryStep (S : Nat) (a : Action) (top : Nat) (w : List Nat) : Option (Nat × List Nat) :=
  match a with
  | .forward _ _ true _ _ => if top + 1 > S then none else some (top + 1, w.modify top (· + 1))
  | .copy _ _ _ => if top = 0 then none else some (top, w.modify (top - 1) (· + 1))
  | .move _ _ dst => if top = 0 then none else some (if dst = .work then top - 1 else top, w.modify (top - 1) (· + 1))
  | _ => some (top, w)

theorem dryRun_cons (S : Nat) (e : Ev) (es : List Ev) (top : Nat) (w : List Nat) :
    dryRun S (e :: es) top w = (dryStep S e.act top w).bind (fun p => dryRun S es p.1 p.2) := by
  obtain ⟨a, n, r⟩ := e
  cases a with
  | forward n0 n1 wi wa st => cases wi <;> simp only [dryRun, dryStep] <;> (try split) <;> rfl
  | copy n0 a b => simp only [dryRun, dryStep]; split <;> rfl
  | move n0 a b => simp only [dryRun, dryStep]; split <;> rfl
  | reverse n1 n0 c => simp only [dryRun, dryStep]; rfl
  | endForward => simp only [dryRun, dryStep]; rfl
  | endReverse => simp only [dryRun, dryStep]; rfl

theorem dryStep_inv (S : Nat) (a : Action) (top : Nat) (w : List Nat) (p : Nat × List Nat)
    (h : dryStep S a top w = some p) (hl : w.length = S) (ht : top ≤ S) : p.2.length = S ∧ p.1 ≤ S := by
  unfold dryStep at h
  split at h
  · split at h
    · cases h
    · cases h; simp only [List.length_modify]; omega
  · split at h
    · cases h
    · cases h; simp only [List.length_modify]; omega
  · split at h
    · cases h
    · cases h; simp only [List.length_modify]; refine ⟨hl, ?_⟩; split <;> omega
  · cases h; exact ⟨hl, ht⟩

/-- what one iteration of the generated dry-run loop has to do -/
def DryBodySpec (S : Nat) (f : PyAction → List Rat × Int → M (ForInStep (List Rat × Int))) : Prop :=
  ∀ (a : Action) (top : Nat) (w : List Nat), w.length = S → top ≤ S →
    f (actPy a) (castQ w, (top : Int) - 1) =
      match dryStep S a top w with
      | some p => .ok (.yield (castQ p.2, (p.1 : Int) - 1))
      | none => .error .runtimeError

theorem forIn_dry (S : Nat) (f : PyAction → List Rat × Int → M (ForInStep (List Rat × Int)))
    (hf : DryBodySpec S f) : ∀ (evs : List Ev) (top : Nat) (w : List Nat) (top' : Nat) (w' : List Nat),
    w.length = S → top ≤ S → dryRun S evs top w = some (top', w') →
    forIn (evs.map (fun e => actPy e.act)) (castQ w, (top : Int) - 1) f = .ok (castQ w', (top' : Int) - 1)
  | [], top, w, top', w', _, _, h => by
    simp only [dryRun, Option.some.injEq, Prod.mk.injEq] at h
    obtain ⟨rfl, rfl⟩ := h
    rfl
  | e :: es, top, w, top', w', hl, ht, h => by
    rw [dryRun_cons] at h
    cases hs : dryStep S e.act top w with
    | none => rw [hs] at h; cases h
    | some p =>
      rw [hs] at h
      obtain ⟨hl', ht'⟩ := dryStep_inv S e.act top w p hs hl ht
      have ih := forIn_dry S f hf es p.1 p.2 top' w' hl' ht' h
      rw [List.map_cons, List.forIn_cons, hf e.act top w hl ht, hs]
      exact ih


/-- the labelling with RAM at the positions satisfying `P`, DISK elsewhere -/
def markRam (P : Nat → Bool) (S : Nat) : List Storage :=
  (List.range S).map (fun i => if P i then Storage.ram else Storage.disk)

theorem markRam_length (P : Nat → Bool) (S : Nat) : (markRam P S).length = S := by simp [markRam]

theorem markRam_set (P : Nat → Bool) (S j : Nat) :
    (markRam P S).set j .ram = markRam (fun i => i == j || P i) S := by
  apply List.ext_getElem
  · simp [markRam]
  · intro i h1 h2
    simp only [markRam, List.getElem_set, List.getElem_map, List.getElem_range]
    by_cases hij : j = i
    · subst hij; simp
    · have : (i == j) = false := by simp; omega
      simp [hij, this]

theorem forIn_mark (S : Nat) (f : Int → List StorageType → M (ForInStep (List StorageType)))
    (hf : ∀ (j : Nat) (al : List StorageType), j < al.length → f (j : Int) al = .ok (.yield (al.set j .ram))) :
    ∀ (order : List Nat) (P : Nat → Bool), (∀ j ∈ order, j < S) →
      forIn (order.map Int.ofNat) ((markRam P S).map stPy) f
        = .ok ((markRam (fun i => order.contains i || P i) S).map stPy)
  | [], P, _ => by simp only [List.map_nil, List.forIn_nil, List.contains_nil, Bool.false_or]; rfl
  | j :: rest, P, h => by
    have hj := h j (by simp)
    rw [List.map_cons, List.forIn_cons]
    have e : f (Int.ofNat j) ((markRam P S).map stPy) = .ok (.yield ((markRam (fun i => i == j || P i) S).map stPy)) := by
      rw [show Int.ofNat j = (j : Int) from rfl, hf j _ (by rw [List.length_map, markRam_length]; exact hj),
        ← markRam_set, List.map_set]
      rfl
    rw [e]
    have ih := forIn_mark S f hf rest (fun i => i == j || P i) (fun k hk => h k (List.mem_cons_of_mem _ hk))
    refine ih.trans ?_
    congr 3
    funext i
    simp only [List.contains_cons]
    cases (i == j) <;> cases (rest.contains i) <;> cases P i <;> rfl

theorem allocate_snapshots_refines (N ram disk : Nat) (traj : Traj) (w : List Nat) (al : List Storage) (fuel : Nat)
    (hN : 1 ≤ N) (hfuel : multistageFuel N ≤ fuel)
    (h : allocate N ram disk traj = some (w, al)) :
    allocate_snapshots fuel (N : Int) (ram : Int) (disk : Int) 1 1 0 (trajStr traj)
      = .ok (w.map (fun a : Nat => (a : Rat)), al.map stPy) := by
  unfold allocate at h
  simp only at h
  cases hseg : multistageSeg N (min (min ram (N - 1) + min disk (N - 1)) (N - 1)) (fun _ => Storage.ram) traj with
  | none => rw [hseg] at h; cases h
  | some evs =>
    rw [hseg] at h
    simp only at h
    cases hdry : dryRun (min (min ram (N - 1) + min disk (N - 1)) (N - 1)) evs 0
        (List.replicate (min (min ram (N - 1) + min disk (N - 1)) (N - 1)) 0) with
    | none => rw [hdry] at h; cases h
    | some p =>
      obtain ⟨top, w'⟩ := p
      rw [hdry] at h
      simp only at h
      by_cases htop : top ≠ 0
      · rw [if_pos htop] at h; cases h
      rw [if_neg htop] at h
      simp only [Option.some.injEq, Prod.mk.injEq] at h
      obtain ⟨rfl, rfl⟩ := h
      have htop0 : top = 0 := by omega
      subst htop0
      generalize hS : min (min ram (N - 1) + min disk (N - 1)) (N - 1) = S at hseg hdry
      have hSN : S ≤ N - 1 := by omega
      unfold allocate_snapshots
      have e1 := clamp_cast_in N ram hN
      have e2 := clamp_cast_in N disk hN
      have e3 : min (((min ram (N - 1) : Nat) : Int) + ((min disk (N - 1) : Nat) : Int)) ((N : Int) - 1) = (S : Int) := by
        omega
      simp only [e1, e2, e3, Int.sub_zero, Int.toNat_natCast]
      rw [multistage_actions_refines N S traj evs fuel hN hSN hfuel hseg]
      simp only [bind, Except.bind]
      have hw0 : List.replicate S (0 : Rat) = castQ (List.replicate S 0) := by simp [castQ]
      rw [hw0, show (-1 : Int) = ((0 : Nat) : Int) - 1 from rfl]
      rw [forIn_dry S _ ?hf evs 0 (List.replicate S 0) 0 w' (by simp) (by omega) hdry]
      case hf =>
        intro a top w hl ht
        cases a with
        | forward n0 n1 wi wa st =>
          cases wi
          · simp only [actPy, dryStep]
            rfl
          · simp only [actPy, dryStep, if_true]
            have e : (top : Int) - 1 + 1 = (top : Int) := by omega
            simp only [e]
            by_cases hts : top + 1 > S
            · rw [if_pos (by omega : (top : Int) ≥ (S : Int)), if_pos hts]; rfl
            · rw [if_neg (by omega : ¬ (top : Int) ≥ (S : Int)), if_neg hts, pyIndex_castQ w top (by omega)]
              simp only []
              rw [pySetAt_nat_al _ _ _ (by rw [castQ_length]; omega), castQ_bump w top (by omega)]
              simp only []
              have e' : ((top + 1 : Nat) : Int) - 1 = (top : Int) := by omega
              rw [e']; rfl
        | reverse n1 n0 c => simp only [actPy, dryStep]; rfl
        | endForward => simp only [actPy, dryStep]; rfl
        | endReverse => simp only [actPy, dryStep]; rfl
        | copy n0 a b =>
          simp only [actPy, dryStep]
          by_cases ht0 : top = 0
          · subst ht0
            rw [if_pos (by omega : ((0 : Nat) : Int) - 1 < 0), if_pos rfl]; rfl
          · obtain ⟨t, rfl⟩ : ∃ t, top = t + 1 := ⟨top - 1, by omega⟩
            have e : ((t + 1 : Nat) : Int) - 1 = (t : Int) := by omega
            simp only [e, Nat.add_sub_cancel]
            rw [if_neg (by omega : ¬ (t : Int) < 0), if_neg ht0, pyIndex_castQ w t (by omega)]
            simp only []
            rw [pySetAt_nat_al _ _ _ (by rw [castQ_length]; omega), castQ_bump w t (by omega)]
            simp only [e]
            rfl
        | move n0 a b =>
          simp only [actPy, dryStep]
          by_cases ht0 : top = 0
          · subst ht0
            rw [if_pos (by omega : ((0 : Nat) : Int) - 1 < 0), if_pos rfl]; rfl
          · obtain ⟨t, rfl⟩ : ∃ t, top = t + 1 := ⟨top - 1, by omega⟩
            have e : ((t + 1 : Nat) : Int) - 1 = (t : Int) := by omega
            simp only [e, Nat.add_sub_cancel]
            rw [if_neg (by omega : ¬ (t : Int) < 0), if_neg ht0, pyIndex_castQ w t (by omega)]
            simp only []
            rw [pySetAt_nat_al _ _ _ (by rw [castQ_length]; omega), castQ_bump w t (by omega)]
            simp only []
            have hl2 : t < (w.modify t (· + 1)).length := by rw [List.length_modify]; omega
            cases b
            case work =>
              simp only [stPy, or_self, if_true]
              rw [pyIndex_castQ _ t hl2]
              simp only []
              rw [pySetAt_nat_al _ _ _ (by rw [castQ_length]; exact hl2), castQ_keep _ t hl2]
              simp only []
              rfl
            all_goals
              simp only [stPy, or_self, reduceCtorEq, if_false, e]
              rfl
      simp only []
      rw [if_neg (by simp)]
      have hwl : w'.length = S := by
        have := dryRun_length _ _ _ _ _ _ hdry
        rw [List.length_replicate] at this
        exact this
      have hlt : ∀ j ∈ ((sortDesc (w'.zipIdx.map (fun p => (p.2, p.1)))).take (min ram (N - 1))).map (·.1), j < S := by
        intro j hj
        have := ramIdx_lt w' (min ram (N - 1)) j hj
        omega
      have hrep : List.replicate S StorageType.disk = (markRam (fun _ => false) S).map stPy := by
        simp [markRam, stPy]
      unfold castQ
      rw [pySortedDescIdx_refines, hrep, forIn_mark S _ ?hf2 _ (fun _ => false) hlt]
      case hf2 =>
        intro j al hj
        rw [pySetAt_nat_al _ _ _ hj]
        rfl
      simp only [Bool.or_false, markRam]
      rfl


example : (1 : Nat) ≤ 6 ∧ multistageFuel 6 ≤ 8 ∧
    allocate 6 2 1 .revolve = some ([2, 3, 3], [.disk, .ram, .ram]) :=
  ⟨by decide, by decide, by decide⟩
example : allocate_snapshots 8 6 2 1 1 1 0 "revolve"
    = .ok (([2, 3, 3] : List Nat).map (fun a : Nat => (a : Rat)), ([.disk, .ram, .ram] : List Storage).map stPy) :=
  allocate_snapshots_refines 6 2 1 .revolve _ _ 8 (by decide) (by decide) (by decide)
/-- the generated text evaluated -/
example : (allocate_snapshots 8 6 2 1 1 1 0 "revolve").toOption.map (·.2) = some [.disk, .ram, .ram] := by
  decide +kernel

/-! ## 4. the oracle that IS the generated function; the oracle-free capstone -/

/-- the generated `allocate_snapshots` (default weights) as the oracle of the generated constructor, which uses
only the second component: `_, storage = allocate_snapshots(…)` -/
def sourceOracle (fuel : Nat) : AllocOracle := fun a b c t => do
  let r ← allocate_snapshots fuel a b c 1 1 0 t
  pure ([], r.2)

theorem sourceOracle_agrees (N ram disk : Nat) (traj : Traj) (fuel : Nat) (hN : 1 ≤ N)
    (hf : multistageFuel N ≤ fuel) : OracleAgrees (sourceOracle fuel) N ram disk traj := by
  intro wa h
  refine ⟨[], ?_⟩
  unfold sourceOracle
  rw [allocate_snapshots_refines N (min ram (N - 1)) (min disk (N - 1)) traj wa.1 wa.2 fuel hN hf h]
  rfl

theorem validMultistage_pos {N ram disk : Nat} (hv : validMultistage N ram disk = true) : 1 ≤ N := by
  simp only [validMultistage, Bool.and_eq_true, decide_eq_true_eq] at hv
  exact hv.1

/-- **Multistage, the translated source, no oracle**: constructor, `allocate_snapshots` (with its nested schedule
object) and generator are all the generated text; for all valid parameters and fuel `N + 2` the executor accepts -/
theorem source_multistage_accepted_full (N ram disk : Nat) (traj : Traj) (hv : validMultistage N ram disk = true)
    (fuel : Nat) (hf : multistageFuel N ≤ fuel) (k : Nat) :
    ∃ pevs, multistage_run fuel (N : Int) (ram : Int) (disk : Int) (trajStr traj) (sourceOracle fuel) = .ok pevs ∧
      Accepted (cfgMultistage ram disk N) k (obsOfPy false N pevs) :=
  source_multistage_accepted N ram disk traj _ (sourceOracle_agrees N ram disk traj fuel (validMultistage_pos hv) hf)
    hv fuel hf k

theorem source_multistage_C01_C18_full (N ram disk : Nat) (traj : Traj) (hv : validMultistage N ram disk = true)
    (fuel : Nat) (hf : multistageFuel N ≤ fuel) :
    ∃ pevs, multistage_run fuel (N : Int) (ram : Int) (disk : Int) (trajStr traj) (sourceOracle fuel) = .ok pevs ∧
      NoViolation (cfgMultistage ram disk N) (obsOfPy false N pevs) ∧
      finished (cfgMultistage ram disk N) (run (cfgMultistage ram disk N) (obsOfPy false N pevs)).1 = true :=
  source_multistage_C01_C18 N ram disk traj _ (sourceOracle_agrees N ram disk traj fuel (validMultistage_pos hv) hf)
    hv fuel hf

theorem source_multistage_budgets_full (N ram disk : Nat) (traj : Traj) (hv : validMultistage N ram disk = true)
    (fuel : Nat) (hf : multistageFuel N ≤ fuel) :
    ∃ pevs, multistage_run fuel (N : Int) (ram : Int) (disk : Int) (trajStr traj) (sourceOracle fuel) = .ok pevs ∧
      ∀ p, p <+: obsOfPy false N pevs →
        countSt (run (cfgMultistage ram disk N) p).1.cps .ram ≤ ram ∧
        countSt (run (cfgMultistage ram disk N) p).1.cps .disk ≤ disk :=
  source_multistage_budgets N ram disk traj _ (sourceOracle_agrees N ram disk traj fuel (validMultistage_pos hv) hf)
    hv fuel hf

/-- construct (with the generated `allocate_snapshots`), then iterate = the stream model `multistageEvs` -/
theorem multistage_construct_then_iterate_full (N ram disk : Nat) (traj : Traj) (fuel : Nat)
    (hv : validMultistage N ram disk = true) (hf : multistageFuel N ≤ fuel) :
    ∃ evs, multistageEvs N ram disk traj = .ok evs ∧
      multistage_run fuel (N : Int) (ram : Int) (disk : Int) (trajStr traj) (sourceOracle fuel)
        = .ok (markLast (evs.map (evPy · false))) :=
  multistage_construct_then_iterate N ram disk traj _ fuel
    (sourceOracle_agrees N ram disk traj fuel (validMultistage_pos hv) hf) hv hf

example : validMultistage 6 2 1 = true ∧ multistageFuel 6 ≤ 8 := ⟨by decide, by decide⟩
example := source_multistage_accepted_full 6 2 1 .revolve (by decide) 8 (by decide) 1
example := multistage_construct_then_iterate_full 6 2 1 .revolve 8 (by decide) (by decide)

end Ckpt.Py

#print axioms Ckpt.Py.pySortedDescIdx_refines
#print axioms Ckpt.Py.multistage_actions_refines
#print axioms Ckpt.Py.allocate_snapshots_refines
#print axioms Ckpt.Py.sourceOracle_agrees
#print axioms Ckpt.Py.source_multistage_accepted_full
#print axioms Ckpt.Py.source_multistage_C01_C18_full
#print axioms Ckpt.Py.source_multistage_budgets_full
#print axioms Ckpt.Py.multistage_construct_then_iterate_full
