import CkptGen.RefineMixed
import CkptVerif.Properties.Twins
import Mathlib.Tactic
import CkptGen.RefineCommon
/-!
# The Lean text generated from `MixedCheckpointSchedule._iterator` (mixed.py) emits the model's stream

`Ckpt.Py.mixed_iterator` is produced by `harness/py2lean.py` from the current Python source (the memoisation
path).  It is related, by a simulation with a state-correspondence invariant, to the literal twin
`mixInner`/`mixTurn`/`mixReload` (`CkptVerif/Model/MixedIter.lean`) run with the memoised planner
`memoPlan = memoSpec`, and through `mixedIter_of_mixedEvs` (the content of `twin_mixed`) to the stream model
`mixedEvs memoPlan` all property theorems are about.
-/
set_option linter.unusedSimpArgs false
namespace Ckpt.Py
open Ckpt

/-! ## the model's values as values of the generated text

(`stPy`, `actPy`, `evPy` are spelled exactly as in the shared `CkptGen/RefineCommon.lean` of the main tree; when
that file is available these three definitions can be replaced by `import CkptGen.RefineCommon`) -/

theorem stPy_work_mx : stPy .work = .work := rfl

/-- a model event as a `yield` of the generated text with `self._exhausted = False` -/
abbrev evF (e : Ev) : PyEv := evPy e false

/-- the last event carries `exhausted = true` -/
def markLast_mx : List PyEv → List PyEv
  | [] => []
  | [e] => [{ e with exhausted := true }]
  | e :: e' :: es => e :: markLast_mx (e' :: es)

theorem markLast_cons_ne_mx (e : PyEv) (l : List PyEv) (h : l ≠ []) : markLast_mx (e :: l) = e :: markLast_mx l := by
  cases l with
  | nil => exact absurd rfl h
  | cons a l => rfl

theorem markLast_append_ne_mx (a b : List PyEv) (h : b ≠ []) : markLast_mx (a ++ b) = a ++ markLast_mx b := by
  induction a with
  | nil => rfl
  | cons x a ih =>
    rw [List.cons_append, markLast_cons_ne_mx _ _ (by simp [h]), ih, List.cons_append]

/-- a snapshot entry `(step_type, n0, n1)` of the twin as the Python tuple -/
def tupPy (x : Nat × Nat × Nat) : StepType × Int × Int := (stepTypeOfNat x.1, (x.2.1 : Int), (x.2.2 : Int))

/-! ## list support -/

theorem pyIndex_last_mx {α : Type} (xs : List α) (x : α) : pyIndex (xs ++ [x]) (-1) = .ok x := by
  unfold pyIndex
  have e : (-1 : Int) + ((xs ++ [x]).length : Int) = (xs.length : Nat) := by simp
  have h0 : ((-1 : Int) < 0) := by omega
  have h1 : ¬ (((xs.length : Nat) : Int) < 0) := by omega
  simp only [h0, if_true, e, h1, if_false, Int.toNat_natCast]
  simp
  rfl

theorem pyPop_snoc_mx {α : Type} (xs : List α) (x : α) : pyPop (xs ++ [x]) = .ok xs := by
  unfold pyPop
  simp
  rfl

/-! ## step types -/

theorem stepTypeOfNat_big (k : Nat) (h : 7 ≤ k) : stepTypeOfNat k = .none := by
  obtain ⟨j, rfl⟩ : ∃ j, k = j + 7 := ⟨k - 7, by omega⟩
  rfl

theorem stepType_fr (k : Nat) : stepTypeOfNat k = .forward_reverse ↔ k = 2 := by
  constructor
  · intro h
    by_cases hk : k ≤ 6
    · interval_cases k <;> first | rfl | cases h
    · rw [stepTypeOfNat_big k (by omega)] at h; cases h
  · rintro rfl; rfl

theorem stepType_fw (k : Nat) : stepTypeOfNat k = .forward ↔ k = 1 := by
  constructor
  · intro h
    by_cases hk : k ≤ 6
    · interval_cases k <;> first | rfl | cases h
    · rw [stepTypeOfNat_big k (by omega)] at h; cases h
  · rintro rfl; rfl

theorem stepType_wad (k : Nat) : stepTypeOfNat k = .write_adj_deps ↔ k = 3 := by
  constructor
  · intro h
    by_cases hk : k ≤ 6
    · interval_cases k <;> first | rfl | cases h
    · rw [stepTypeOfNat_big k (by omega)] at h; cases h
  · rintro rfl; rfl

theorem stepType_wics (k : Nat) : stepTypeOfNat k = .write_ics ↔ k = 4 := by
  constructor
  · intro h
    by_cases hk : k ≤ 6
    · interval_cases k <;> first | rfl | cases h
    · rw [stepTypeOfNat_big k (by omega)] at h; cases h
  · rintro rfl; rfl

/-! ## the planner's answers -/

theorem memoPlan_eq_memoSpec : memoPlan = memoSpec := rfl

/-- shape of the answers of `mixed_step_memoization` -/
theorem memoSpec_shape (m k : Nat) (c : Cell) (h : memoSpec m k = some c) :
    (m = 1 ∧ c.kind = 2 ∧ c.len = 1) ∨
    (2 ≤ m ∧ 1 ≤ k ∧ ((c.kind = 3 ∧ c.len = 1) ∨ (c.kind = 4 ∧ 2 ≤ c.len ∧ c.len ≤ m - 1))) := by
  by_cases hv : validKey m (clampS m k) = true
  · rw [memoSpec_valid m k hv] at h
    injection h with h
    have hv' := (validKey_clamp_iff m k).1 hv
    by_cases h1 : m = 1
    · left
      subst h1
      rw [memoCell_one] at h
      subst h
      exact ⟨rfl, rfl, rfl⟩
    · right
      have hm : 2 ≤ m := by omega
      refine ⟨hm, by omega, ?_⟩
      obtain ⟨_, hc | hc⟩ := memoCell_cases m (clampS m k) hv hm
      · left; rw [← h]; exact ⟨hc.1, hc.2.1⟩
      · right; rw [← h]; exact ⟨hc.1, hc.2.1, hc.2.2.1⟩
  · rw [memoSpec_invalid m k hv] at h
    cases h

/-! ## the correspondence of the two stores -/

/-- the Python set `snapshot_n` (a duplicate-free list of `Int`) against the twin's list of keys -/
abbrev KeysRel (gs : List Int) (ks : List Nat) : Prop := gs.Perm (ks.map (fun k : Nat => (k : Int)))

theorem KeysRel.mem {gs : List Int} {ks : List Nat} (h : KeysRel gs ks) (n : Nat) : (n : Int) ∈ gs ↔ n ∈ ks := by
  rw [h.mem_iff, List.mem_map]
  constructor
  · rintro ⟨a, ha, e⟩
    have : a = n := by exact_mod_cast e
    rwa [← this]
  · intro hn; exact ⟨n, hn, rfl⟩

theorem KeysRel.add {gs : List Int} {ks : List Nat} (h : KeysRel gs ks) (n : Nat) (hn : n ∉ ks) :
    KeysRel (pySetAdd gs (n : Int)) (n :: ks) := by
  unfold pySetAdd
  rw [if_neg (by rw [h.mem]; exact hn)]
  show (gs ++ [(n : Int)]).Perm ((n : Int) :: ks.map _)
  exact (List.perm_append_singleton _ _).trans (List.Perm.cons _ h)

theorem KeysRel.remove {gs : List Int} {ks : List Nat} (h : KeysRel gs ks) (n : Nat) (hn : n ∈ ks) :
    ∃ gs', pySetRemove gs (n : Int) = .ok gs' ∧ KeysRel gs' (ks.erase n) := by
  refine ⟨gs.erase (n : Int), ?_, ?_⟩
  · unfold pySetRemove
    rw [if_pos (by rw [h.mem]; exact hn)]; rfl
  · show (gs.erase (n : Int)).Perm ((ks.erase n).map _)
    rw [List.map_erase (f := fun k : Nat => (k : Int)) (fun a b e => by simpa using e)]
    exact h.erase _

theorem KeysRel.nil_iff {gs : List Int} {ks : List Nat} (h : KeysRel gs ks) : gs = [] ↔ ks = [] := by
  constructor
  · intro e; subst e
    have := h.length_eq
    simp at this
    exact List.length_eq_zero_iff.1 this.symm
  · intro e; subst e
    exact List.perm_nil.1 h

/-- the Python list `snapshots` (appended at the end) against the twin's stack (most recent first) -/
abbrev StackRel (ss : List (StepType × Int × Int)) (stack : List (Nat × Nat × Nat)) : Prop :=
  ss = stack.reverse.map tupPy

theorem StackRel.length {ss} {stack} (h : StackRel ss stack) : ss.length = stack.length := by
  rw [h]; simp

theorem StackRel.cons {ss} {stack} (h : StackRel ss stack) (x : Nat × Nat × Nat) :
    StackRel (ss ++ [tupPy x]) (x :: stack) := by
  show _ = ((x :: stack).reverse).map tupPy
  rw [List.reverse_cons, List.map_append, ← h]; rfl

theorem StackRel.snoc {ss} {stack} {x} (h : StackRel ss (x :: stack)) :
    ss = stack.reverse.map tupPy ++ [tupPy x] := by
  rw [h, List.reverse_cons, List.map_append]; rfl

/-! ## one iteration of the generated forward loop `mixed_iterator.while2` -/

section gen
variable (N S : Nat) (st : Storage)

theorem g_inner_exit (g n r : Nat) (ty : StepType) (out : List PyEv) (gs : List Int)
    (ss : List (StepType × Int × Int)) (hr : r ≤ N) (h : ¬ n < N - r) :
    mixed_iterator.while2 (some (N : Int)) (r : Int) (S : Int) (stPy st) false (g + 1) (ty, (n : Int), out, gs, ss)
      = .ok (ty, (n : Int), out, gs, ss) := by
  rw [mixed_iterator.while2]
  simp only [bind, Except.bind, pure, Except.pure, unwrap]
  have hc : ¬ (n : Int) < (N : Int) - (r : Int) := by omega
  rw [if_neg hc]

theorem g_inner_FR (g n r : Nat) (ks : List Nat) (stack : List (Nat × Nat × Nat)) (ty : StepType)
    (out : List PyEv) (gs : List Int) (ss : List (StepType × Int × Int)) (c : Cell)
    (hks : KeysRel gs ks) (hss : StackRel ss stack) (hlen : stack.length ≤ S) (hlt : n < N - r)
    (hc : memoSpec (N - r - n) (S - stack.length + (if ks.contains n then 1 else 0)) = some c)
    (hk : c.kind = 2) (hl : c.len = 1)
    (hbad : n ∉ ks ∨ ∃ m1 rest, stack = (2, n, m1) :: rest ∧ n + 1 ≤ m1)
    (hg : N - r - n + 1 ≤ g) :
    mixed_iterator.while2 (some (N : Int)) (r : Int) (S : Int) (stPy st) false (g + 1) (ty, (n : Int), out, gs, ss)
      = mixed_iterator.while2 (some (N : Int)) (r : Int) (S : Int) (stPy st) false g
          (.forward_reverse, ((n + 1 : Nat) : Int),
            out ++ [evF ⟨.forward n (n + 1) false true .work, n + 1, r⟩], gs, ss) := by
  rw [mixed_iterator.while2]
  simp only [bind, Except.bind, pure, Except.pure, unwrap]
  have hc1 : (n : Int) < (N : Int) - (r : Int) := by omega
  have e1 : (N : Int) - (r : Int) - (n : Int) = ((N - r - n : Nat) : Int) := by omega
  have e2 : (S : Int) - (ss.length : Int) + (if decide ((n : Int) ∈ gs) = true then 1 else 0)
      = ((S - stack.length + (if ks.contains n then 1 else 0) : Nat) : Int) := by
    rw [hss.length]
    by_cases hm : n ∈ ks
    · have : (n : Int) ∈ gs := (hks.mem n).2 hm
      simp only [this, hm, decide_true, if_true, List.contains_iff_mem]
      omega
    · have : ¬ (n : Int) ∈ gs := fun h => hm ((hks.mem n).1 h)
      simp only [this, hm, decide_false, List.contains_iff_mem]
      simp
      omega
  rw [if_pos hc1, e1, e2, mixed_step_memoization_refines _ _ _ hg, hc]
  simp only [ofOpt, cellTuple, hk, hl]
  have hst2 : stepTypeOfNat 2 = StepType.forward_reverse := rfl
  have e6 : ((1 : Nat) : Int) + (n : Int) = (n : Int) + 1 := by omega
  have h3 : ¬ ((n : Int) + 1 > (n : Int) + 1) := by omega
  have h4 : ¬ ((n : Int) + 1 ≤ (n : Int)) := by omega
  have e5 : (n : Int) + 1 - 1 = (n : Int) := by omega
  rcases hbad with hm | ⟨m1, rest, hstk, hm1⟩
  · have hm' : ¬ (n : Int) ∈ gs := fun h => hm ((hks.mem n).1 h)
    simp only [hm', decide_false, Bool.false_eq_true, if_false, hst2, if_true, e6, h3, h4, e5]
    simp only [evF, evPy, actPy, stPy_work_mx]
    push_cast
    rfl
  · subst hstk
    rw [hss.snoc]
    simp only [pyIndex_last_mx, tupPy, hst2]
    have h5 : ¬ (m1 : Int) < (n : Int) + 1 := by omega
    simp only [ne_eq, not_true_eq_false, if_false, e6, h5, decide_false, Bool.false_eq_true, ite_self, if_true,
      h3, h4, e5]
    simp only [evF, evPy, actPy, stPy_work_mx]
    push_cast
    rfl

theorem g_inner_WAD (g n r : Nat) (ks : List Nat) (stack : List (Nat × Nat × Nat)) (ty : StepType)
    (out : List PyEv) (gs : List Int) (ss : List (StepType × Int × Int)) (c : Cell)
    (hks : KeysRel gs ks) (hss : StackRel ss stack) (hlen : stack.length < S) (hlt : n < N - r)
    (hc : memoSpec (N - r - n) (S - stack.length + (if ks.contains n then 1 else 0)) = some c)
    (hk : c.kind = 3) (hl : c.len = 1) (hre : n ∉ ks)
    (hg : N - r - n + 1 ≤ g) :
    mixed_iterator.while2 (some (N : Int)) (r : Int) (S : Int) (stPy st) false (g + 1) (ty, (n : Int), out, gs, ss)
      = mixed_iterator.while2 (some (N : Int)) (r : Int) (S : Int) (stPy st) false g
          (.write_adj_deps, ((n + 1 : Nat) : Int),
            out ++ [evF ⟨.forward n (n + 1) false true st, n + 1, r⟩], pySetAdd gs (n : Int),
            ss ++ [tupPy (3, n, n + 1)]) := by
  rw [mixed_iterator.while2]
  simp only [bind, Except.bind, pure, Except.pure, unwrap]
  have hc1 : (n : Int) < (N : Int) - (r : Int) := by omega
  have e1 : (N : Int) - (r : Int) - (n : Int) = ((N - r - n : Nat) : Int) := by omega
  have e2 : (S : Int) - (ss.length : Int) + (if decide ((n : Int) ∈ gs) = true then 1 else 0)
      = ((S - stack.length + (if ks.contains n then 1 else 0) : Nat) : Int) := by
    rw [hss.length]
    by_cases hm : n ∈ ks
    · have : (n : Int) ∈ gs := (hks.mem n).2 hm
      simp only [this, hm, decide_true, if_true, List.contains_iff_mem]
      omega
    · have : ¬ (n : Int) ∈ gs := fun h => hm ((hks.mem n).1 h)
      simp only [this, hm, decide_false, List.contains_iff_mem]
      simp
      omega
  rw [if_pos hc1, e1, e2, mixed_step_memoization_refines _ _ _ hg, hc]
  simp only [ofOpt, cellTuple, hk, hl]
  have hst : stepTypeOfNat 3 = StepType.write_adj_deps := rfl
  have e6 : ((1 : Nat) : Int) + (n : Int) = (n : Int) + 1 := by omega
  have hm' : ¬ (n : Int) ∈ gs := fun h => hre ((hks.mem n).1 h)
  have h7 : ¬ ((ss.length : Int) > (S : Int) - 1) := by rw [hss.length]; omega
  simp only [hm', decide_false, Bool.false_eq_true, if_false, hst, if_true, e6, ne_eq, not_true_eq_false, h7,
    reduceCtorEq]
  simp only [evF, evPy, actPy, tupPy, hst]
  push_cast
  rfl

theorem g_inner_WICS_new (g n r : Nat) (ks : List Nat) (stack : List (Nat × Nat × Nat)) (ty : StepType)
    (out : List PyEv) (gs : List Int) (ss : List (StepType × Int × Int)) (c : Cell)
    (hks : KeysRel gs ks) (hss : StackRel ss stack) (hlen : stack.length < S) (hlt : n < N - r)
    (hc : memoSpec (N - r - n) (S - stack.length + (if ks.contains n then 1 else 0)) = some c)
    (hk : c.kind = 4) (hl : 2 ≤ c.len) (hre : n ∉ ks)
    (hg : N - r - n + 1 ≤ g) :
    mixed_iterator.while2 (some (N : Int)) (r : Int) (S : Int) (stPy st) false (g + 1) (ty, (n : Int), out, gs, ss)
      = mixed_iterator.while2 (some (N : Int)) (r : Int) (S : Int) (stPy st) false g
          (.write_ics, ((n + c.len : Nat) : Int),
            out ++ [evF ⟨.forward n (n + c.len) true false st, n + c.len, r⟩], pySetAdd gs (n : Int),
            ss ++ [tupPy (4, n, n + c.len)]) := by
  rw [mixed_iterator.while2]
  simp only [bind, Except.bind, pure, Except.pure, unwrap]
  have hc1 : (n : Int) < (N : Int) - (r : Int) := by omega
  have e1 : (N : Int) - (r : Int) - (n : Int) = ((N - r - n : Nat) : Int) := by omega
  have e2 : (S : Int) - (ss.length : Int) + (if decide ((n : Int) ∈ gs) = true then 1 else 0)
      = ((S - stack.length + (if ks.contains n then 1 else 0) : Nat) : Int) := by
    rw [hss.length]
    by_cases hm : n ∈ ks
    · have : (n : Int) ∈ gs := (hks.mem n).2 hm
      simp only [this, hm, decide_true, if_true, List.contains_iff_mem]
      omega
    · have : ¬ (n : Int) ∈ gs := fun h => hm ((hks.mem n).1 h)
      simp only [this, hm, decide_false, List.contains_iff_mem]
      simp
      omega
  rw [if_pos hc1, e1, e2, mixed_step_memoization_refines _ _ _ hg, hc]
  simp only [ofOpt, cellTuple, hk]
  have hst : stepTypeOfNat 4 = StepType.write_ics := rfl
  have e6 : (c.len : Int) + (n : Int) = (n : Int) + (c.len : Int) := by omega
  have hm' : ¬ (n : Int) ∈ gs := fun h => hre ((hks.mem n).1 h)
  have h7 : ¬ ((ss.length : Int) > (S : Int) - 1) := by rw [hss.length]; omega
  have h8 : ¬ ((n : Int) + (c.len : Int) ≤ (n : Int) + 1) := by omega
  simp only [hm', decide_false, Bool.false_eq_true, if_false, hst, if_true, e6, h7, h8, reduceCtorEq]
  simp only [evF, evPy, actPy, tupPy, hst]
  push_cast
  rfl

theorem g_inner_WICS_reuse (g n r : Nat) (ks : List Nat) (rest : List (Nat × Nat × Nat)) (m1 : Nat) (ty : StepType)
    (out : List PyEv) (gs : List Int) (ss : List (StepType × Int × Int)) (c : Cell)
    (hks : KeysRel gs ks) (hss : StackRel ss ((4, n, m1) :: rest)) (hlt : n < N - r)
    (hc : memoSpec (N - r - n) (S - ((4, n, m1) :: rest).length + (if ks.contains n then 1 else 0)) = some c)
    (hlen : ((4, n, m1) :: rest).length ≤ S)
    (hk : c.kind = 4) (hl : 2 ≤ c.len) (hre : n ∈ ks) (hm1 : n + c.len ≤ m1)
    (hg : N - r - n + 1 ≤ g) :
    mixed_iterator.while2 (some (N : Int)) (r : Int) (S : Int) (stPy st) false (g + 1) (ty, (n : Int), out, gs, ss)
      = mixed_iterator.while2 (some (N : Int)) (r : Int) (S : Int) (stPy st) false g
          (.write_ics, ((n + c.len : Nat) : Int),
            out ++ [evF ⟨.forward n (n + c.len) false false .work, n + c.len, r⟩], gs, ss) := by
  generalize hstk : ((4, n, m1) :: rest : List (Nat × Nat × Nat)) = stack at hss hc hlen
  rw [mixed_iterator.while2]
  simp only [bind, Except.bind, pure, Except.pure, unwrap]
  have hc1 : (n : Int) < (N : Int) - (r : Int) := by omega
  have e1 : (N : Int) - (r : Int) - (n : Int) = ((N - r - n : Nat) : Int) := by omega
  have e2 : (S : Int) - (ss.length : Int) + (if decide ((n : Int) ∈ gs) = true then 1 else 0)
      = ((S - stack.length + (if ks.contains n then 1 else 0) : Nat) : Int) := by
    rw [hss.length]
    by_cases hm : n ∈ ks
    · have : (n : Int) ∈ gs := (hks.mem n).2 hm
      simp only [this, hm, decide_true, if_true, List.contains_iff_mem]
      omega
    · have : ¬ (n : Int) ∈ gs := fun h => hm ((hks.mem n).1 h)
      simp only [this, hm, decide_false, List.contains_iff_mem]
      simp
      omega
  rw [if_pos hc1, e1, e2, mixed_step_memoization_refines _ _ _ hg, hc]
  simp only [ofOpt, cellTuple, hk]
  have hst : stepTypeOfNat 4 = StepType.write_ics := rfl
  have e6 : (c.len : Int) + (n : Int) = (n : Int) + (c.len : Int) := by omega
  have hm' : (n : Int) ∈ gs := (hks.mem n).2 hre
  have h8 : ¬ ((n : Int) + (c.len : Int) ≤ (n : Int) + 1) := by omega
  have h5 : ¬ (m1 : Int) < (n : Int) + (c.len : Int) := by omega
  subst hstk
  rw [hss.snoc]
  simp only [pyIndex_last_mx, tupPy, hst]
  simp only [hm', decide_true, if_true, ne_eq, not_true_eq_false, if_false, e6, h5, decide_false,
    Bool.false_eq_true, h8, reduceCtorEq]
  simp only [evF, evPy, actPy, stPy_work_mx]
  push_cast
  rfl

/-! ## the forward loop against the twin's `mixInner` -/

theorem yieldEv_ok {e : Ev} {k : Except Err (List Ev)} {evs : List Ev} (h : yieldEv e k = .ok evs) :
    ∃ es, k = .ok es ∧ evs = e :: es := by
  cases k with
  | error x => cases h
  | ok es => exact ⟨es, rfl, by injection h with h; exact h.symm⟩

theorem ite_mixErr {p : Prop} [Decidable p] {k : Except Err (List Ev)} {evs : List Ev}
    (h : (if p then mixErr else k) = .ok evs) : ¬ p ∧ k = .ok evs := by
  by_cases hp : p
  · rw [if_pos hp] at h; cases h
  · rw [if_neg hp] at h; exact ⟨hp, h⟩

/-- one iteration of the forward loop, both sides -/
theorem sim_inner_step (f g n r : Nat) (ks : List Nat) (stack : List (Nat × Nat × Nat)) (ty : Nat)
    (gs : List Int) (ss : List (StepType × Int × Int)) (evs : List Ev)
    (hks : KeysRel gs ks) (hss : StackRel ss stack) (hlen : stack.length ≤ S) (hlt : n < N - r)
    (hg : N - r - n + 1 ≤ g)
    (h : mixInner memoSpec N S st (f + 1) ⟨n, r, ks, stack⟩ ty = .ok evs) :
    ∃ n' ks' stack' ty' e rest gs' ss', n < n' ∧ KeysRel gs' ks' ∧ StackRel ss' stack' ∧ stack'.length ≤ S ∧
      mixInner memoSpec N S st f ⟨n', r, ks', stack'⟩ ty' = .ok rest ∧ evs = e :: rest ∧
      ∀ (ty0 : StepType) (out : List PyEv),
        mixed_iterator.while2 (some (N : Int)) (r : Int) (S : Int) (stPy st) false (g + 1)
          (ty0, (n : Int), out, gs, ss)
        = mixed_iterator.while2 (some (N : Int)) (r : Int) (S : Int) (stPy st) false g
          (stepTypeOfNat ty', (n' : Int), out ++ [evF e], gs', ss') := by
  rw [mixInner] at h
  simp only [hlt, if_true] at h
  cases hc : memoSpec (N - r - n) (S - stack.length + if ks.contains n = true then 1 else 0) with
  | none => rw [hc] at h; cases h
  | some c =>
    rw [hc] at h
    simp only [] at h
    obtain ⟨hbad, h⟩ := ite_mixErr h
    have hbad' : n ∉ ks ∨ ∃ m1 rest, stack = (c.kind, n, m1) :: rest ∧ c.len + n ≤ m1 := by
      by_cases hmem : n ∈ ks
      · right
        cases stack with
        | nil => simp [hmem] at hbad
        | cons x rest =>
          obtain ⟨t0, m0, m1⟩ := x
          simp [hmem] at hbad
          obtain ⟨⟨rfl, rfl⟩, h2⟩ := hbad
          exact ⟨m1, rest, rfl, h2⟩
      · exact Or.inl hmem
    clear hbad
    rcases memoSpec_shape _ _ _ hc with ⟨hm, hk, hl⟩ | ⟨hm, hk1, ⟨hk, hl⟩ | ⟨hk, hl, hl2⟩⟩
    · -- FORWARD_REVERSE, one step
      have hk' : c.kind = stForwardReverse := hk
      have h3 : ¬ (c.len + n > n + 1) := by omega
      have h4 : ¬ (c.len + n ≤ n) := by omega
      have e1 : c.len + n - 1 = n := by omega
      have e2 : c.len + n = n + 1 := by omega
      rw [if_pos hk', if_neg h3, if_neg h4, e1, e2] at h
      obtain ⟨es, hes, rfl⟩ := yieldEv_ok h
      refine ⟨n + 1, ks, stack, c.kind, _, es, gs, ss, by omega, hks, hss, hlen, hes, rfl, ?_⟩
      intro ty0 out
      rw [hk]
      refine g_inner_FR N S st g n r ks stack ty0 out gs ss c hks hss hlen hlt hc hk hl ?_ hg
      rcases hbad' with hb | ⟨m1, rest, hb1, hb2⟩
      · exact Or.inl hb
      · exact Or.inr ⟨m1, rest, by rw [hb1, hk], by omega⟩
    · -- WRITE_ADJ_DEPS
      have hk0 : ¬ c.kind = stForwardReverse := by rw [hk]; decide
      have hk1' : ¬ c.kind = stForward := by rw [hk]; decide
      have hk' : c.kind = stWriteAdjDeps := hk
      have h3 : ¬ (c.len + n ≠ n + 1) := by omega
      have e2 : c.len + n = n + 1 := by omega
      rw [if_neg hk0, if_neg hk1', if_pos hk', if_neg h3, e2] at h
      by_cases hre : ks.contains n = true
      · rw [if_pos hre] at h; cases h
      rw [if_neg hre] at h
      by_cases hS : stack.length > S - 1
      · rw [if_pos hS] at h; cases h
      rw [if_neg hS] at h
      rw [if_neg hre] at hk1
      have hre' : n ∉ ks := by simpa using hre
      obtain ⟨es, hes, rfl⟩ := yieldEv_ok h
      refine ⟨n + 1, n :: ks, (stWriteAdjDeps, n, n + 1) :: stack, c.kind, _, es, pySetAdd gs (n : Int),
        ss ++ [tupPy (3, n, n + 1)], by omega, hks.add n hre', hss.cons _, by simp; omega, hes, rfl, ?_⟩
      intro ty0 out
      rw [hk]
      exact g_inner_WAD N S st g n r ks stack ty0 out gs ss c hks hss (by omega) hlt hc hk hl hre' hg
    · -- WRITE_ICS
      have hk0 : ¬ c.kind = stForwardReverse := by rw [hk]; decide
      have hk1' : ¬ c.kind = stForward := by rw [hk]; decide
      have hk2 : ¬ c.kind = stWriteAdjDeps := by rw [hk]; decide
      have hk' : c.kind = stWriteIcs := hk
      have h3 : ¬ (c.len + n ≤ n + 1) := by omega
      have e2 : c.len + n = n + c.len := by omega
      rw [if_neg hk0, if_neg hk1', if_neg hk2, if_pos hk', if_neg h3, e2] at h
      by_cases hre : ks.contains n = true
      · rw [if_pos hre] at h
        have hre' : n ∈ ks := by simpa using hre
        obtain ⟨es, hes, rfl⟩ := yieldEv_ok h
        rcases hbad' with hb | ⟨m1, rest, hb1, hb2⟩
        · exact absurd hre' hb
        refine ⟨n + c.len, ks, stack, c.kind, _, es, gs, ss, by omega, hks, hss, hlen, hes, rfl, ?_⟩
        intro ty0 out
        rw [hk] at hb1 ⊢
        subst hb1
        exact g_inner_WICS_reuse N S st g n r ks rest m1 ty0 out gs ss c hks hss hlt hc hlen hk hl hre'
          (by omega) hg
      · rw [if_neg hre] at h
        rw [if_neg hre] at hk1
        have hre' : n ∉ ks := by simpa using hre
        obtain ⟨es, hes, rfl⟩ := yieldEv_ok h
        by_cases hS : stack.length > S - 1
        · rw [if_pos hS] at hes; cases hes
        rw [if_neg hS] at hes
        refine ⟨n + c.len, n :: ks, (stWriteIcs, n, n + c.len) :: stack, c.kind, _, es, pySetAdd gs (n : Int),
          ss ++ [tupPy (4, n, n + c.len)], by omega, hks.add n hre', hss.cons _, by simp; omega, hes, rfl, ?_⟩
        intro ty0 out
        rw [hk]
        exact g_inner_WICS_new N S st g n r ks stack ty0 out gs ss c hks hss (by omega) hlt hc hk hl hre' hg

/-- the whole forward loop: the generated `while2` returns the state at which the twin enters `mixTurn` -/
theorem sim_inner : ∀ (f g n r : Nat) (ks : List Nat) (stack : List (Nat × Nat × Nat)) (ty : Nat)
    (gs : List Int) (ss : List (StepType × Int × Int)) (evs : List Ev) (out : List PyEv),
    KeysRel gs ks → StackRel ss stack → stack.length ≤ S → r ≤ N → N - r - n + 2 ≤ g →
    mixInner memoSpec N S st f ⟨n, r, ks, stack⟩ ty = .ok evs →
    ∃ f' n' ks' stack' ty' pre rest gs' ss', f' < f ∧ KeysRel gs' ks' ∧ StackRel ss' stack' ∧ stack'.length ≤ S ∧
      mixTurn memoSpec N S st f' ⟨n', r, ks', stack'⟩ ty' = .ok rest ∧ evs = pre ++ rest ∧
      mixed_iterator.while2 (some (N : Int)) (r : Int) (S : Int) (stPy st) false g
          (stepTypeOfNat ty, (n : Int), out, gs, ss)
        = .ok (stepTypeOfNat ty', (n' : Int), out ++ pre.map evF, gs', ss') := by
  intro f
  induction f with
  | zero => intro g n r ks stack ty gs ss evs out _ _ _ _ _ h; rw [mixInner] at h; cases h
  | succ f ih =>
    intro g n r ks stack ty gs ss evs out hks hss hlen hr hg h
    obtain ⟨g, rfl⟩ : ∃ g', g = g' + 1 := ⟨g - 1, by omega⟩
    by_cases hlt : n < N - r
    · obtain ⟨n', ks', stack', ty', e, rest, gs', ss', hn', hks', hss', hlen', hrest, rfl, hgen⟩ :=
        sim_inner_step N S st f g n r ks stack ty gs ss evs hks hss hlen hlt (by omega) h
      obtain ⟨f', n'', ks'', stack'', ty'', pre, rest', gs'', ss'', hf', hks'', hss'', hlen'', hturn, rfl, hgen'⟩ :=
        ih g n' r ks' stack' ty' gs' ss' rest (out ++ [evF e]) hks' hss' hlen' hr (by omega) hrest
      refine ⟨f', n'', ks'', stack'', ty'', e :: pre, rest', gs'', ss'', by omega, hks'', hss'', hlen'', hturn,
        rfl, ?_⟩
      rw [hgen, hgen', List.map_cons, List.append_assoc]
      rfl
    · rw [mixInner] at h
      simp only [hlt, if_false] at h
      refine ⟨f, n, ks, stack, ty, [], evs, gs, ss, by omega, hks, hss, hlen, h, rfl, ?_⟩
      rw [g_inner_exit N S st g n r _ out gs ss hr hlt]
      simp

/-! ## one iteration of the generated outer loop `mixed_iterator.while1` -/

/-- the events of lines 140-147: `EndForward` (first turn only) and the `Reverse` -/
def turnEvs (n r : Nat) : List Ev :=
  (if r = 0 then [(⟨.endForward, n, r⟩ : Ev)] else []) ++
    [⟨.reverse (N - (r + 1) + 1) (N - (r + 1)) true, n, r + 1⟩]

theorem g_outer_break (g n r : Nat) (out : List PyEv) (gs : List Int) (ss : List (StepType × Int × Int))
    (ty' n' : Nat) (out' : List PyEv) (gs' : List Int) (ss' : List (StepType × Int × Int))
    (hw : mixed_iterator.while2 (some (N : Int)) (r : Int) (S : Int) (stPy st) false g
      (StepType.none, (n : Int), out, gs, ss) = .ok (stepTypeOfNat ty', (n' : Int), out', gs', ss'))
    (hn' : n' = N - r) (hty : ty' = 0 ∨ ty' = 2) (hr : r + 1 = N) :
    mixed_iterator.while1 (some (N : Int)) (S : Int) (stPy st) false (g + 1) ((n : Int), (r : Int), out, gs, ss)
      = .ok ((n' : Int), ((r + 1 : Nat) : Int), out' ++ (turnEvs N n' r).map evF, gs', ss') := by
  rw [mixed_iterator.while1]
  simp only [bind, Except.bind, pure, Except.pure, unwrap, if_true, hw]
  have h1 : ¬ ((n' : Int) ≠ (N : Int) - (r : Int)) := by omega
  have h2 : ¬ ¬ (stepTypeOfNat ty' = StepType.none ∨ stepTypeOfNat ty' = StepType.forward_reverse) := by
    rcases hty with h | h <;> subst h <;> simp [stepTypeOfNat]
  have h3 : (r : Int) + 1 = (N : Int) := by omega
  rw [if_neg h1, if_neg h2]
  have e1 : (N : Int) - ((r : Int) + 1) + 1 = ((N - (r + 1) + 1 : Nat) : Int) := by omega
  have e2 : (N : Int) - ((r : Int) + 1) = ((N - (r + 1) : Nat) : Int) := by omega
  by_cases hr0 : r = 0
  · have hr0' : (r : Int) = 0 := by omega
    rw [if_pos hr0', if_pos h3, e1, e2]
    simp only [turnEvs, if_pos hr0, evF, evPy, actPy, List.map_append, List.map_cons, List.map_nil, List.append_assoc]
    push_cast
    rfl
  · have hr0' : ¬ (r : Int) = 0 := by omega
    rw [if_neg hr0', if_pos h3, e1, e2]
    simp only [turnEvs, if_neg hr0, evF, evPy, actPy, List.map_append, List.map_cons, List.map_nil, List.append_assoc,
      List.nil_append]
    push_cast
    rfl

theorem g_outer_WICS_copy (g n r : Nat) (out : List PyEv) (gs : List Int) (ss : List (StepType × Int × Int))
    (ty' n' : Nat) (out' : List PyEv) (gs' : List Int) (ss' : List (StepType × Int × Int))
    (cpN e0 : Nat) (rest : List (Nat × Nat × Nat)) (c2 : Cell)
    (hw : mixed_iterator.while2 (some (N : Int)) (r : Int) (S : Int) (stPy st) false g
      (StepType.none, (n : Int), out, gs, ss) = .ok (stepTypeOfNat ty', (n' : Int), out', gs', ss'))
    (hn' : n' = N - r) (hty : ty' = 0 ∨ ty' = 2) (hr : r + 1 < N)
    (hss' : StackRel ss' ((4, cpN, e0) :: rest)) (hlen : rest.length + 1 ≤ S)
    (hc : memoSpec (N - (r + 1) - cpN) (S - (rest.length + 1) + 1) = some c2) (hk : c2.kind = 4)
    (hlt : cpN + 1 < N - (r + 1)) (hg : N - (r + 1) - cpN + 1 ≤ g) :
    mixed_iterator.while1 (some (N : Int)) (S : Int) (stPy st) false (g + 1) ((n : Int), (r : Int), out, gs, ss)
      = mixed_iterator.while1 (some (N : Int)) (S : Int) (stPy st) false g
          ((cpN : Int), ((r + 1 : Nat) : Int),
            out' ++ (turnEvs N n' r).map evF ++ [evF ⟨.copy cpN st .work, cpN, r + 1⟩], gs', ss') := by
  rw [mixed_iterator.while1]
  simp only [bind, Except.bind, pure, Except.pure, unwrap, if_true, hw]
  have h1 : ¬ ((n' : Int) ≠ (N : Int) - (r : Int)) := by omega
  have h2 : ¬ ¬ (stepTypeOfNat ty' = StepType.none ∨ stepTypeOfNat ty' = StepType.forward_reverse) := by
    rcases hty with h | h <;> subst h <;> simp [stepTypeOfNat]
  have h3 : ¬ (r : Int) + 1 = (N : Int) := by omega
  rw [if_neg h1, if_neg h2]
  have e1 : (N : Int) - ((r : Int) + 1) + 1 = ((N - (r + 1) + 1 : Nat) : Int) := by omega
  have e2 : (N : Int) - ((r : Int) + 1) = ((N - (r + 1) : Nat) : Int) := by omega
  have e3 : (S : Int) - (ss'.length : Int) + 1 = ((S - (rest.length + 1) + 1 : Nat) : Int) := by
    rw [hss'.length]; simp only [List.length_cons]; omega
  have e4 : (N : Int) - ((r : Int) + 1) - (cpN : Int) = ((N - (r + 1) - cpN : Nat) : Int) := by omega
  have hidx : pyIndex ss' (-1) = .ok (tupPy (4, cpN, e0)) := by rw [hss'.snoc]; exact pyIndex_last_mx _ _
  have hpop : pyPop ss' = .ok (rest.reverse.map tupPy) := by rw [hss'.snoc]; exact pyPop_snoc_mx _ _
  by_cases hr0 : r = 0
  on_goal 1 =>
    have hr0' : (r : Int) = 0 := by omega
    have eo : out' ++ [PyEv.mk PyAction.endForward (n' : Int) (r : Int) false] ++
        [PyEv.mk (PyAction.reverse ((N : Int) - ((r : Int) + 1) + 1) ((N : Int) - ((r : Int) + 1)) true)
          (n' : Int) ((r : Int) + 1) false] = out' ++ (turnEvs N n' r).map evF := by
      rw [e1, e2]
      simp only [turnEvs, if_pos hr0, evF, evPy, actPy, List.map_append, List.map_cons, List.map_nil, List.append_assoc]
      push_cast
      rfl
    rw [if_pos hr0', if_neg h3, eo]
  on_goal 2 =>
    have hr0' : ¬ (r : Int) = 0 := by omega
    have eo : out' ++
        [PyEv.mk (PyAction.reverse ((N : Int) - ((r : Int) + 1) + 1) ((N : Int) - ((r : Int) + 1)) true)
          (n' : Int) ((r : Int) + 1) false] = out' ++ (turnEvs N n' r).map evF := by
      rw [e1, e2]
      simp only [turnEvs, if_neg hr0, evF, evPy, actPy, List.map_append, List.map_cons, List.map_nil, List.append_assoc,
        List.nil_append]
      push_cast
      rfl
    rw [if_neg hr0', if_neg h3, eo]
  all_goals
    generalize out' ++ (turnEvs N n' r).map evF = o
    have hst : stepTypeOfNat 4 = StepType.write_ics := rfl
    have h5 : ¬ ((cpN : Int) + 1 ≥ ((N - (r + 1) : Nat) : Int)) := by omega
    rw [hidx]
    simp only [tupPy, hst, e2, e3]
    rw [← e2, e4, mixed_step_memoization_refines _ _ _ hg, hc]
    simp only [ofOpt, cellTuple, hk, hst, e2, h5, true_or, not_true_eq_false, if_false, ne_eq, decide_false,
      decide_not, Bool.not_true, Bool.false_eq_true, if_true]
    simp only [evF, evPy, actPy, stPy_work_mx]
    push_cast
    rfl

theorem g_outer_WICS_move (g n r : Nat) (out : List PyEv) (gs : List Int) (ss : List (StepType × Int × Int))
    (ty' n' : Nat) (out' : List PyEv) (gs' gs'' : List Int) (ss' : List (StepType × Int × Int))
    (cpN e0 : Nat) (rest : List (Nat × Nat × Nat)) (c2 : Cell)
    (hw : mixed_iterator.while2 (some (N : Int)) (r : Int) (S : Int) (stPy st) false g
      (StepType.none, (n : Int), out, gs, ss) = .ok (stepTypeOfNat ty', (n' : Int), out', gs', ss'))
    (hn' : n' = N - r) (hty : ty' = 0 ∨ ty' = 2) (hr : r + 1 < N)
    (hss' : StackRel ss' ((4, cpN, e0) :: rest)) (hlen : rest.length + 1 ≤ S)
    (hc : memoSpec (N - (r + 1) - cpN) (S - (rest.length + 1) + 1) = some c2) (hk : c2.kind ≠ 4)
    (hrem : pySetRemove gs' (cpN : Int) = .ok gs'')
    (hlt : cpN + 1 < N - (r + 1)) (hg : N - (r + 1) - cpN + 1 ≤ g) :
    mixed_iterator.while1 (some (N : Int)) (S : Int) (stPy st) false (g + 1) ((n : Int), (r : Int), out, gs, ss)
      = mixed_iterator.while1 (some (N : Int)) (S : Int) (stPy st) false g
          ((cpN : Int), ((r + 1 : Nat) : Int),
            out' ++ (turnEvs N n' r).map evF ++ [evF ⟨.move cpN st .work, cpN, r + 1⟩], gs'',
            rest.reverse.map tupPy) := by
  rw [mixed_iterator.while1]
  simp only [bind, Except.bind, pure, Except.pure, unwrap, if_true, hw]
  have h1 : ¬ ((n' : Int) ≠ (N : Int) - (r : Int)) := by omega
  have h2 : ¬ ¬ (stepTypeOfNat ty' = StepType.none ∨ stepTypeOfNat ty' = StepType.forward_reverse) := by
    rcases hty with h | h <;> subst h <;> simp [stepTypeOfNat]
  have h3 : ¬ (r : Int) + 1 = (N : Int) := by omega
  rw [if_neg h1, if_neg h2]
  have e1 : (N : Int) - ((r : Int) + 1) + 1 = ((N - (r + 1) + 1 : Nat) : Int) := by omega
  have e2 : (N : Int) - ((r : Int) + 1) = ((N - (r + 1) : Nat) : Int) := by omega
  have e3 : (S : Int) - (ss'.length : Int) + 1 = ((S - (rest.length + 1) + 1 : Nat) : Int) := by
    rw [hss'.length]; simp only [List.length_cons]; omega
  have e4 : (N : Int) - ((r : Int) + 1) - (cpN : Int) = ((N - (r + 1) - cpN : Nat) : Int) := by omega
  have hidx : pyIndex ss' (-1) = .ok (tupPy (4, cpN, e0)) := by rw [hss'.snoc]; exact pyIndex_last_mx _ _
  have hpop : pyPop ss' = .ok (rest.reverse.map tupPy) := by rw [hss'.snoc]; exact pyPop_snoc_mx _ _
  by_cases hr0 : r = 0
  on_goal 1 =>
    have hr0' : (r : Int) = 0 := by omega
    have eo : out' ++ [PyEv.mk PyAction.endForward (n' : Int) (r : Int) false] ++
        [PyEv.mk (PyAction.reverse ((N : Int) - ((r : Int) + 1) + 1) ((N : Int) - ((r : Int) + 1)) true)
          (n' : Int) ((r : Int) + 1) false] = out' ++ (turnEvs N n' r).map evF := by
      rw [e1, e2]
      simp only [turnEvs, if_pos hr0, evF, evPy, actPy, List.map_append, List.map_cons, List.map_nil, List.append_assoc]
      push_cast
      rfl
    rw [if_pos hr0', if_neg h3, eo]
  on_goal 2 =>
    have hr0' : ¬ (r : Int) = 0 := by omega
    have eo : out' ++
        [PyEv.mk (PyAction.reverse ((N : Int) - ((r : Int) + 1) + 1) ((N : Int) - ((r : Int) + 1)) true)
          (n' : Int) ((r : Int) + 1) false] = out' ++ (turnEvs N n' r).map evF := by
      rw [e1, e2]
      simp only [turnEvs, if_neg hr0, evF, evPy, actPy, List.map_append, List.map_cons, List.map_nil, List.append_assoc,
        List.nil_append]
      push_cast
      rfl
    rw [if_neg hr0', if_neg h3, eo]
  all_goals
    generalize out' ++ (turnEvs N n' r).map evF = o
    have hst : stepTypeOfNat 4 = StepType.write_ics := rfl
    have h5 : ¬ ((cpN : Int) + 1 ≥ ((N - (r + 1) : Nat) : Int)) := by omega
    have hk' : ¬ StepType.write_ics = stepTypeOfNat c2.kind := fun h => hk ((stepType_wics _).1 h.symm)
    rw [hidx]
    simp only [tupPy, hst, e2, e3]
    rw [← e2, e4, mixed_step_memoization_refines _ _ _ hg, hc]
    simp only [ofOpt, cellTuple, hk', hst, e2, h5, true_or, not_true_eq_false, if_false, ne_eq, decide_true,
      decide_not, Bool.not_false, not_false_eq_true, if_true, hrem, hpop]
    simp only [evF, evPy, actPy, stPy_work_mx]
    push_cast
    rfl

theorem g_outer_WAD_move (g n r : Nat) (out : List PyEv) (gs : List Int) (ss : List (StepType × Int × Int))
    (ty' n' : Nat) (out' : List PyEv) (gs' gs'' : List Int) (ss' : List (StepType × Int × Int))
    (cpN e0 : Nat) (rest : List (Nat × Nat × Nat)) (c2 : Cell)
    (hw : mixed_iterator.while2 (some (N : Int)) (r : Int) (S : Int) (stPy st) false g
      (StepType.none, (n : Int), out, gs, ss) = .ok (stepTypeOfNat ty', (n' : Int), out', gs', ss'))
    (hn' : n' = N - r) (hty : ty' = 0 ∨ ty' = 2) (hr : r + 1 < N)
    (hss' : StackRel ss' ((3, cpN, e0) :: rest)) (hlen : rest.length + 1 ≤ S)
    (hc : memoSpec (N - (r + 1) - cpN) (S - (rest.length + 1) + 1) = some c2) (hk : c2.kind ≠ 3)
    (hrem : pySetRemove gs' (cpN : Int) = .ok gs'')
    (hlt : cpN + 1 = N - (r + 1)) (hg : N - (r + 1) - cpN + 1 ≤ g) :
    mixed_iterator.while1 (some (N : Int)) (S : Int) (stPy st) false (g + 1) ((n : Int), (r : Int), out, gs, ss)
      = mixed_iterator.while1 (some (N : Int)) (S : Int) (stPy st) false g
          (((cpN + 1 : Nat) : Int), ((r + 1 : Nat) : Int),
            out' ++ (turnEvs N n' r).map evF ++ [evF ⟨.move cpN st .work, cpN + 1, r + 1⟩], gs'',
            rest.reverse.map tupPy) := by
  rw [mixed_iterator.while1]
  simp only [bind, Except.bind, pure, Except.pure, unwrap, if_true, hw]
  have h1 : ¬ ((n' : Int) ≠ (N : Int) - (r : Int)) := by omega
  have h2 : ¬ ¬ (stepTypeOfNat ty' = StepType.none ∨ stepTypeOfNat ty' = StepType.forward_reverse) := by
    rcases hty with h | h <;> subst h <;> simp [stepTypeOfNat]
  have h3 : ¬ (r : Int) + 1 = (N : Int) := by omega
  rw [if_neg h1, if_neg h2]
  have e1 : (N : Int) - ((r : Int) + 1) + 1 = ((N - (r + 1) + 1 : Nat) : Int) := by omega
  have e2 : (N : Int) - ((r : Int) + 1) = ((N - (r + 1) : Nat) : Int) := by omega
  have e3 : (S : Int) - (ss'.length : Int) + 1 = ((S - (rest.length + 1) + 1 : Nat) : Int) := by
    rw [hss'.length]; simp only [List.length_cons]; omega
  have e4 : (N : Int) - ((r : Int) + 1) - (cpN : Int) = ((N - (r + 1) - cpN : Nat) : Int) := by omega
  have hidx : pyIndex ss' (-1) = .ok (tupPy (3, cpN, e0)) := by rw [hss'.snoc]; exact pyIndex_last_mx _ _
  have hpop : pyPop ss' = .ok (rest.reverse.map tupPy) := by rw [hss'.snoc]; exact pyPop_snoc_mx _ _
  by_cases hr0 : r = 0
  on_goal 1 =>
    have hr0' : (r : Int) = 0 := by omega
    have eo : out' ++ [PyEv.mk PyAction.endForward (n' : Int) (r : Int) false] ++
        [PyEv.mk (PyAction.reverse ((N : Int) - ((r : Int) + 1) + 1) ((N : Int) - ((r : Int) + 1)) true)
          (n' : Int) ((r : Int) + 1) false] = out' ++ (turnEvs N n' r).map evF := by
      rw [e1, e2]
      simp only [turnEvs, if_pos hr0, evF, evPy, actPy, List.map_append, List.map_cons, List.map_nil, List.append_assoc]
      push_cast
      rfl
    rw [if_pos hr0', if_neg h3, eo]
  on_goal 2 =>
    have hr0' : ¬ (r : Int) = 0 := by omega
    have eo : out' ++
        [PyEv.mk (PyAction.reverse ((N : Int) - ((r : Int) + 1) + 1) ((N : Int) - ((r : Int) + 1)) true)
          (n' : Int) ((r : Int) + 1) false] = out' ++ (turnEvs N n' r).map evF := by
      rw [e1, e2]
      simp only [turnEvs, if_neg hr0, evF, evPy, actPy, List.map_append, List.map_cons, List.map_nil, List.append_assoc,
        List.nil_append]
      push_cast
      rfl
    rw [if_neg hr0', if_neg h3, eo]
  all_goals
    generalize out' ++ (turnEvs N n' r).map evF = o
    have hst : stepTypeOfNat 3 = StepType.write_adj_deps := rfl
    have h5 : ¬ ((cpN : Int) + 1 ≠ ((N - (r + 1) : Nat) : Int)) := by omega
    have hk' : ¬ StepType.write_adj_deps = stepTypeOfNat c2.kind := fun h => hk ((stepType_wad _).1 h.symm)
    rw [hidx]
    simp only [tupPy, hst, e2, e3]
    rw [← e2, e4, mixed_step_memoization_refines _ _ _ hg, hc]
    simp only [ofOpt, cellTuple, hk', hst, e2, h5, or_true, not_true_eq_false, if_false, ne_eq, decide_true,
      decide_false, decide_not, Bool.not_false, not_false_eq_true, if_true, hrem, hpop, reduceCtorEq,
      Bool.false_eq_true]
    simp only [evF, evPy, actPy, stPy_work_mx]
    push_cast
    rfl

/-! ## the twin's `mixTurn` and `mixReload`, inverted -/

theorem reload_inv (f n r : Nat) (ks : List Nat) (stack : List (Nat × Nat × Nat)) (evs : List Ev) (hr : r ≠ N)
    (h : mixReload memoSpec N S st (f + 1) ⟨n, r, ks, stack⟩ = .ok evs) :
    ∃ cpT cpN e0 rest c2 es, stack = (cpT, cpN, e0) :: rest ∧
      memoSpec (N - r - cpN) (S - (rest.length + 1) + 1) = some c2 ∧
      ((cpT = 4 ∧ c2.kind = 4 ∧ cpN + 1 < N - r ∧
          mixInner memoSpec N S st f ⟨cpN, r, ks, stack⟩ stNone = .ok es ∧
          evs = ⟨.copy cpN st .work, cpN, r⟩ :: es) ∨
       (cpT = 4 ∧ c2.kind ≠ 4 ∧ cpN ∈ ks ∧ cpN + 1 < N - r ∧
          mixInner memoSpec N S st f ⟨cpN, r, ks.erase cpN, rest⟩ stNone = .ok es ∧
          evs = ⟨.move cpN st .work, cpN, r⟩ :: es) ∨
       (cpT = 3 ∧ c2.kind ≠ 3 ∧ cpN ∈ ks ∧ cpN + 1 = N - r ∧
          mixInner memoSpec N S st f ⟨cpN + 1, r, ks.erase cpN, rest⟩ stNone = .ok es ∧
          evs = ⟨.move cpN st .work, cpN + 1, r⟩ :: es)) := by
  rw [mixReload] at h
  simp only [hr, if_false] at h
  cases stack with
  | nil => cases h
  | cons x rest =>
    obtain ⟨cpT, cpN, e0⟩ := x
    simp only [] at h
    obtain ⟨hT, h⟩ := ite_mixErr h
    simp only [List.length_cons] at h
    cases hc : memoSpec (N - r - cpN) (S - (rest.length + 1) + 1) with
    | none => rw [hc] at h; cases h
    | some c2 =>
      rw [hc] at h
      simp only [] at h
      refine ⟨cpT, cpN, e0, rest, c2, ?_⟩
      by_cases hd : cpT = c2.kind
      · -- the checkpoint is kept
        have hd1 : decide (cpT ≠ c2.kind) = false := by simp [hd]
        simp only [hd1, Bool.false_and, Bool.false_eq_true, if_false, Bool.not_false, true_or, if_true] at h
        by_cases h4 : cpT = stWriteIcs
        · rw [if_pos h4] at h
          obtain ⟨h5, h⟩ := ite_mixErr h
          obtain ⟨es, hes, rfl⟩ := yieldEv_ok h
          exact ⟨es, rfl, hc, Or.inl ⟨h4, by rw [← hd]; exact h4, by omega, hes, rfl⟩⟩
        · rw [if_neg h4] at h; cases h
      · have hd1 : decide (cpT ≠ c2.kind) = true := by simp [hd]
        simp only [hd1, Bool.true_and, Bool.not_true, Bool.false_eq_true, false_or, if_true] at h
        by_cases hmem : cpN ∈ ks
        · have hmem' : (!ks.contains cpN) = false := by simp [hmem]
          simp only [hmem', Bool.false_eq_true, if_false] at h
          by_cases h4 : cpT = stWriteIcs
          · rw [if_pos h4] at h
            obtain ⟨h5, h⟩ := ite_mixErr h
            obtain ⟨es, hes, rfl⟩ := yieldEv_ok h
            exact ⟨es, rfl, hc, Or.inr (Or.inl ⟨h4, fun e => hd (by rw [h4, e]; rfl), hmem, by omega, hes, rfl⟩)⟩
          · rw [if_neg h4] at h
            have h3 : cpT = stWriteAdjDeps := by
              by_contra h3; exact hT ⟨h4, h3⟩
            obtain ⟨h5, h⟩ := ite_mixErr h
            obtain ⟨es, hes, rfl⟩ := yieldEv_ok h
            exact ⟨es, rfl, hc, Or.inr (Or.inr ⟨h3, fun e => hd (by rw [h3, e]; rfl), hmem, by omega, hes, rfl⟩)⟩
        · have hmem' : (!ks.contains cpN) = true := by simp [hmem]
          simp only [hmem', if_true] at h
          cases h

theorem turn_inv (f n r : Nat) (ks : List Nat) (stack : List (Nat × Nat × Nat)) (ty : Nat) (evs : List Ev)
    (h : mixTurn memoSpec N S st (f + 1) ⟨n, r, ks, stack⟩ ty = .ok evs) :
    n = N - r ∧ (ty = 0 ∨ ty = 2) ∧
      ∃ es, mixReload memoSpec N S st f ⟨n, r + 1, ks, stack⟩ = .ok es ∧ evs = turnEvs N n r ++ es := by
  rw [mixTurn] at h
  obtain ⟨h1, hx⟩ := ite_mixErr h
  obtain ⟨h2, hy⟩ := ite_mixErr hx
  clear h hx
  simp only [] at hy
  rename' hy => h
  have h1' : n = N - r := by simpa using h1
  have h2' : ty = 0 ∨ ty = 2 := by
    by_cases h0 : ty = stNone
    · exact Or.inl h0
    · right
      by_contra h3
      exact h2 ⟨h0, h3⟩
  refine ⟨h1', h2', ?_⟩
  by_cases hr0 : r = 0
  · rw [if_pos hr0] at h
    obtain ⟨es1, ha, rfl⟩ := yieldEv_ok h
    obtain ⟨es, hb, rfl⟩ := yieldEv_ok ha
    exact ⟨es, hb, by simp [turnEvs, hr0]⟩
  · rw [if_neg hr0] at h
    obtain ⟨es, ha, rfl⟩ := yieldEv_ok h
    exact ⟨es, ha, by simp [turnEvs, hr0]⟩

theorem reload_break_inv (f n : Nat) (ks : List Nat) (stack : List (Nat × Nat × Nat)) (evs : List Ev)
    (h : mixReload memoSpec N S st (f + 1) ⟨n, N, ks, stack⟩ = .ok evs) :
    ks = [] ∧ stack = [] ∧ evs = [⟨.endReverse, n, N⟩] := by
  rw [mixReload] at h
  simp only [if_true] at h
  obtain ⟨h1, h⟩ := ite_mixErr h
  injection h with h
  refine ⟨?_, ?_, h.symm⟩
  · by_contra hk; exact h1 (Or.inl hk)
  · by_contra hk; exact h1 (Or.inr hk)

/-! ## the outer loop against the twin -/

theorem sim_outer : ∀ (f g n r : Nat) (ks : List Nat) (stack : List (Nat × Nat × Nat))
    (gs : List Int) (ss : List (StepType × Int × Int)) (evs : List Ev) (out : List PyEv),
    KeysRel gs ks → StackRel ss stack → stack.length ≤ S → r < N → (N - r) + N + 3 ≤ g →
    mixInner memoSpec N S st f ⟨n, r, ks, stack⟩ stNone = .ok evs →
    ∃ (pre : List Ev) (nf : Nat), evs = pre ++ [⟨.endReverse, nf, N⟩] ∧
      mixed_iterator.while1 (some (N : Int)) (S : Int) (stPy st) false g ((n : Int), (r : Int), out, gs, ss)
        = .ok ((nf : Int), (N : Int), out ++ pre.map evF, [], []) := by
  intro f
  induction f using Nat.strongRecOn with
  | ind f ih =>
    intro g n r ks stack gs ss evs out hks hss hlen hr hg h
    obtain ⟨g, rfl⟩ : ∃ g', g = g' + 1 := ⟨g - 1, by omega⟩
    obtain ⟨f1, n', ks', stack', ty', pre, rest, gs', ss', hf1, hks', hss', hlen', hturn, rfl, hw⟩ :=
      sim_inner N S st f g n r ks stack stNone gs ss evs out hks hss hlen (by omega) (by omega) h
    have hw' : mixed_iterator.while2 (some (N : Int)) (r : Int) (S : Int) (stPy st) false g
        (StepType.none, (n : Int), out, gs, ss) = .ok (stepTypeOfNat ty', (n' : Int), out ++ pre.map evF, gs', ss') := hw
    obtain ⟨f2, rfl⟩ : ∃ f2, f1 = f2 + 1 := by
      cases f1 with
      | zero => rw [mixTurn] at hturn; cases hturn
      | succ f2 => exact ⟨f2, rfl⟩
    obtain ⟨hn', hty, es, hrel, rfl⟩ := turn_inv N S st f2 n' r ks' stack' ty' rest hturn
    obtain ⟨f3, rfl⟩ : ∃ f3, f2 = f3 + 1 := by
      cases f2 with
      | zero => rw [mixReload] at hrel; cases hrel
      | succ f3 => exact ⟨f3, rfl⟩
    by_cases hrN : r + 1 = N
    · -- the last turn: `break`
      rw [hrN] at hrel
      obtain ⟨rfl, rfl, rfl⟩ := reload_break_inv N S st f3 n' ks' stack' es hrel
      have hgs : gs' = [] := hks'.nil_iff.2 rfl
      have hss0 : ss' = [] := hss'
      subst hgs hss0
      refine ⟨pre ++ turnEvs N n' r, n', by simp, ?_⟩
      rw [g_outer_break N S st g n r out gs ss ty' n' _ _ _ hw' hn' hty hrN, List.map_append, List.append_assoc]
      congr 3
      omega
    · have hr1 : r + 1 < N := by omega
      obtain ⟨cpT, cpN, e0, rest, c2, es', hstk, hc, hcase⟩ :=
        reload_inv N S st f3 n' (r + 1) ks' stack' es hrN hrel
      subst hstk
      have hlen1 : rest.length + 1 ≤ S := by simpa using hlen'
      rcases hcase with ⟨hT, hk, hlt, hin, rfl⟩ | ⟨hT, hk, hmem, hlt, hin, rfl⟩ | ⟨hT, hk, hmem, hlt, hin, rfl⟩
      · subst hT
        obtain ⟨pre', nf, rfl, hgen⟩ := ih f3 (by omega) g cpN (r + 1) ks' _ gs' ss' es'
          (out ++ pre.map evF ++ (turnEvs N n' r).map evF ++ [evF ⟨.copy cpN st .work, cpN, r + 1⟩])
          hks' hss' hlen' hr1 (by omega) hin
        refine ⟨pre ++ turnEvs N n' r ++ ⟨.copy cpN st .work, cpN, r + 1⟩ :: pre', nf, by simp, ?_⟩
        rw [g_outer_WICS_copy N S st g n r out gs ss ty' n' _ gs' ss' cpN e0 rest c2 hw' hn' hty hr1 hss' hlen1
          hc hk hlt (by omega), hgen]
        simp
      · subst hT
        obtain ⟨gs'', hrem, hks''⟩ := hks'.remove cpN hmem
        obtain ⟨pre', nf, rfl, hgen⟩ := ih f3 (by omega) g cpN (r + 1) (ks'.erase cpN) rest gs''
          (rest.reverse.map tupPy) es'
          (out ++ pre.map evF ++ (turnEvs N n' r).map evF ++ [evF ⟨.move cpN st .work, cpN, r + 1⟩])
          hks'' rfl (by omega) hr1 (by omega) hin
        refine ⟨pre ++ turnEvs N n' r ++ ⟨.move cpN st .work, cpN, r + 1⟩ :: pre', nf, by simp, ?_⟩
        rw [g_outer_WICS_move N S st g n r out gs ss ty' n' _ gs' gs'' ss' cpN e0 rest c2 hw' hn' hty hr1 hss'
          hlen1 hc hk hrem hlt (by omega), hgen]
        simp
      · subst hT
        obtain ⟨gs'', hrem, hks''⟩ := hks'.remove cpN hmem
        obtain ⟨pre', nf, rfl, hgen⟩ := ih f3 (by omega) g (cpN + 1) (r + 1) (ks'.erase cpN) rest gs''
          (rest.reverse.map tupPy) es'
          (out ++ pre.map evF ++ (turnEvs N n' r).map evF ++ [evF ⟨.move cpN st .work, cpN + 1, r + 1⟩])
          hks'' rfl (by omega) hr1 (by omega) hin
        refine ⟨pre ++ turnEvs N n' r ++ ⟨.move cpN st .work, cpN + 1, r + 1⟩ :: pre', nf, by simp, ?_⟩
        rw [g_outer_WAD_move N S st g n r out gs ss ty' n' _ gs' gs'' ss' cpN e0 rest c2 hw' hn' hty hr1 hss'
          hlen1 hc hk hrem hlt (by omega), hgen]
        simp

end gen

/-! ## the whole generator -/

/-- fuel that always suffices: `N` turns of the outer loop, each with at most `N` forward iterations and planner
calls on at most `N` steps -/
def mixedIterFuelBound (N : Nat) : Nat := 2 * N + 3

/-- the generated generator against the literal twin `mixedIter` (any twin fuel for which the twin answers) -/
theorem mixed_iterator_refines_twin (N S : Nat) (st : Storage) (evs : List Ev) (fuel twinFuel : Nat)
    (hN : 1 ≤ N) (hev : mixedIter memoPlan N S st twinFuel = .ok evs) (hf : mixedIterFuelBound N ≤ fuel) :
    mixed_iterator fuel 0 0 (some (N : Int)) (S : Int) (stPy st) false = .ok (markLast_mx (evs.map evF)) := by
  unfold mixedIterFuelBound at hf
  unfold mixedIter MixSt.init at hev
  obtain ⟨pre, nf, rfl, hgen⟩ := sim_outer N S st twinFuel fuel 0 0 [] [] [] [] evs []
    (List.Perm.refl _) rfl (Nat.zero_le _) (by omega) (by omega) hev
  unfold mixed_iterator
  simp only [bind, Except.bind, pure, Except.pure, unwrap, reduceCtorEq, if_false]
  have hgen' : mixed_iterator.while1 (some (N : Int)) (S : Int) (stPy st) false fuel (0, 0, [], [], [])
      = .ok ((nf : Int), (N : Int), [] ++ pre.map evF, [], []) := hgen
  rw [hgen']
  simp only [List.length_nil, Nat.cast_zero, gt_iff_lt, lt_self_iff_false, or_self, if_false, List.nil_append,
    List.map_append, List.map_cons, List.map_nil]
  rw [markLast_append_ne_mx _ _ (by simp)]
  rfl


/-- **`MixedCheckpointSchedule._iterator` as generated from the Python source emits the stream model `mixedEvs`**
(with the memoised planner `memoPlan = memoSpec`, i.e. `mixed_step_memoization`): the same actions with the same
values of `self._n`, `self._r` at every `yield`; `self._exhausted` is `False` at every `yield` but the last
(`EndReverse`), where it is `True`.  Any fuel `≥ 2 N + 3` suffices. -/
theorem mixed_iterator_refines (N s : Nat) (st : Storage) (evs : List Ev) (fuel : Nat)
    (hev : mixedEvs memoPlan N s st = .ok evs) (hf : mixedIterFuelBound N ≤ fuel) :
    mixed_iterator fuel 0 0 (some (N : Int)) ((min s (N - 1) : Nat) : Int) (stPy st) false
      = .ok (markLast_mx (evs.map (fun e => evPy e false))) := by
  have hN : 1 ≤ N := by
    cases N with
    | zero => simp [mixedEvs, mseg] at hev
    | succ n => omega
  exact mixed_iterator_refines_twin N (min s (N - 1)) st evs fuel (6 * N - 2) hN
    (RC.mixedIter_of_mixedEvs memoPlan memoPlan_hyp N s st hN evs hev _ (le_refl _)) hf

/-- the same against the literal twin `mixedIterEvs` (the subject of `twin_mixed`) -/
theorem mixed_iterator_refines_twinEvs (N s : Nat) (st : Storage) (evs : List Ev) (fuel : Nat) (hN : 1 ≤ N)
    (hev : mixedIterEvs memoPlan N s st = .ok evs) (hf : mixedIterFuelBound N ≤ fuel) :
    mixed_iterator fuel 0 0 (some (N : Int)) ((min s (N - 1) : Nat) : Int) (stPy st) false
      = .ok (markLast_mx (evs.map (fun e => evPy e false))) :=
  mixed_iterator_refines_twin N (min s (N - 1)) st evs fuel _ hN hev hf

/-- for all valid parameters (`storage` RAM or DISK, `max_n ≥ 1`, `snapshots ≥ min(1, max_n - 1)`) the model
answers, and the generated generator emits its stream -/
theorem mixed_iterator_refines_valid (N s : Nat) (st : Storage) (fuel : Nat)
    (hst : st = .ram ∨ st = .disk) (hN : 1 ≤ N) (hs : min 1 (N - 1) ≤ s) (hf : mixedIterFuelBound N ≤ fuel) :
    ∃ evs, mixedEvs memoPlan N s st = .ok evs ∧ mixedIterEvs memoPlan N s st = .ok evs ∧
      mixed_iterator fuel 0 0 (some (N : Int)) ((min s (N - 1) : Nat) : Int) (stPy st) false
        = .ok (markLast_mx (evs.map (fun e => evPy e false))) := by
  obtain ⟨evs, _, _, hev, _⟩ := mixed_clean N s st hst hN hs
  exact ⟨_, hev, by rw [twin_mixed memoPlan memoPlan_hyp N s st hst hN hs]; exact hev,
    mixed_iterator_refines N s st _ fuel hev hf⟩

/-! ## non-vacuity -/

-- the hypotheses of `mixed_iterator_refines` hold for a concrete parameter tuple …
example : ∃ evs, mixedEvs memoPlan 5 2 .disk = .ok evs := by
  obtain ⟨evs, _, _, h, _⟩ := mixed_clean 5 2 .disk (Or.inr rfl) (by decide) (by decide)
  exact ⟨_, h⟩

-- … and `mixed_iterator_refines_valid` applies: max_n = 5, snapshots = 2, storage = DISK, fuel 13
example : ∃ evs, mixedEvs memoPlan 5 2 .disk = .ok evs ∧ mixedIterEvs memoPlan 5 2 .disk = .ok evs ∧
    mixed_iterator 13 0 0 (some 5) 2 (stPy .disk) false = .ok (markLast_mx (evs.map (fun e => evPy e false))) :=
  mixed_iterator_refines_valid 5 2 .disk 13 (Or.inr rfl) (by decide) (by decide) (by decide)

-- the fuel bound is a concrete number
example : mixedIterFuelBound 5 = 13 := rfl

-- a concrete instance of the hypothesis `hev` and of the conclusion, computed: max_n = 1
example : mixedEvs memoPlan 1 0 .ram = .ok
    [⟨.forward 0 1 false true .work, 1, 0⟩, ⟨.endForward, 1, 0⟩, ⟨.reverse 1 0 true, 1, 1⟩, ⟨.endReverse, 1, 1⟩] := by
  simp [mixedEvs, mseg, memoPlan, clampS, validKey, memoCell_one, stForwardReverse]

example : mixed_iterator 5 0 0 (some 1) 0 .ram false = .ok
    [⟨.forward 0 1 false true .work, 1, 0, false⟩, ⟨.endForward, 1, 0, false⟩, ⟨.reverse 1 0 true, 1, 1, false⟩,
     ⟨.endReverse, 1, 1, true⟩] :=
  mixed_iterator_refines 1 0 .ram
    [⟨.forward 0 1 false true .work, 1, 0⟩, ⟨.endForward, 1, 0⟩, ⟨.reverse 1 0 true, 1, 1⟩, ⟨.endReverse, 1, 1⟩] 5
    (by simp [mixedEvs, mseg, memoPlan, clampS, validKey, memoCell_one, stForwardReverse]) (by decide)

end Ckpt.Py

#print axioms Ckpt.Py.mixed_iterator_refines
#print axioms Ckpt.Py.mixed_iterator_refines_twin
#print axioms Ckpt.Py.mixed_iterator_refines_twinEvs
#print axioms Ckpt.Py.mixed_iterator_refines_valid
