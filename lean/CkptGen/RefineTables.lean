import CkptGen.RefineTab
import CkptVerif.Proofs.OptInf
import CkptVerif.Proofs.RevolveSteps
import CkptVerif.Properties.C05
import Mathlib.Tactic
/-!
# The Lean text generated from `get_opt_0_table` (revolve.py) and `get_opt_inf_table` (disk_revolve.py)
computes the models `opt0Table` / `optInfTable`

Costs are natural numbers, cast to `Rat` (the generated code computes with exact rationals standing for Python's
floats).  `rowQ`/`tabQ` cast a row / a table of the model entry by entry.

* `get_opt_0_table_refines` : for `1 ≤ mmax ∨ lmax ≤ 1` the generated function returns `tabQ (opt0Table lmax mmax uf ub)`;
  `get_opt_0_table_raises` : for `mmax = 0 ∧ 2 ≤ lmax` it raises `IndexError` (at `opt[1]`), so the domain is exact
  (`get_opt_0_table_cases`: both in one `if`);
  `opt0Table_shape`, `get_opt_0_table_entries` : the shape (`mmax+1` rows, row `0` of length 1, the other rows of length
  `max lmax 1 + 1`) and the entries `T[m][l] = opt0Get … m l`.
* `get_opt_inf_table_some` : with `opt_0 = some T`, `T[cm][l] = opt0Get t0 cm l` for `l ≤ lmax`, the result is
  `rowQ (optInfTable lmax cm uf ub (wd+rd) t0)` (every `cm`, including the `cm = 0` branch, entry 1 = `wd+uf+2ub+rd`);
  `get_opt_inf_table_refines` : `opt_0 = none` and `opt_0 = some (the generated table)`, for `1 ≤ cm`;
  `get_opt_inf_table_larger` : `opt_0 = some` (a table for more steps / more slots);
  `get_opt_inf_table_cm_zero`, `get_opt_inf_table_cm_zero_raises` : `cm = 0` with `opt_0 = none` (`lmax ≤ 1`: the table
  `[ub, wd+uf+2ub+rd]`; `lmax ≥ 2`: `IndexError` from `get_opt_0_table`); `get_opt_inf_table_cm_zero_some_raises`:
  `cm = 0`, `lmax ≥ 2`, `opt_0 = some [[ub]]`: `IndexError` at `opt_0[0][2]` (the model reads `0` outside a table where the
  code raises: for `cm = 0`, `lmax ≥ 2` the refinement `get_opt_inf_table_some` needs a row `0` with `lmax + 1` entries).
* corollaries: `get_opt_0_table_extra` (C05 `C05_revolve_table`: the entries are `(l+1)·ub + uf·E(l+1, m)`),
  `get_opt_0_table_gwT` (`opt0_eq_gwT`), `get_opt_inf_table_rec` (`optInf_rec`), `get_opt_inf_table_le` (`optInf_le_opt0`).

No fuel: both functions have only `for` loops.
-/

namespace Ckpt.Py
open Ckpt

/-! ## casts -/

/-- a row of the model's table as a list of (exact) floats -/
def rowQ (r : Array Nat) : List Rat := r.toList.map (fun x : Nat => (x : Rat))
/-- the model's table as a list of lists -/
def tabQ (t : Array (Array Nat)) : List (List Rat) := t.toList.map rowQ

theorem rowQ_length (r : Array Nat) : (rowQ r).length = r.size := by unfold rowQ; simp

theorem rowQ_getElem? (r : Array Nat) (i : Nat) : (rowQ r)[i]? = r[i]?.map (fun x : Nat => (x : Rat)) := by
  unfold rowQ; rw [List.getElem?_map, Array.getElem?_toList]

theorem rowQ_push (r : Array Nat) (x : Nat) : rowQ (r.push x) = rowQ r ++ [(x : Rat)] := by
  unfold rowQ; simp

theorem tabQ_length (t : Array (Array Nat)) : (tabQ t).length = t.size := by unfold tabQ; simp

theorem tabQ_getElem? (t : Array (Array Nat)) (i : Nat) : (tabQ t)[i]? = t[i]?.map rowQ := by
  unfold tabQ; rw [List.getElem?_map, Array.getElem?_toList]

theorem tabQ_push (t : Array (Array Nat)) (r : Array Nat) : tabQ (t.push r) = tabQ t ++ [rowQ r] := by
  unfold tabQ; simp

/-- reading entry `i < r.size` of a cast row -/
theorem pyIndex_rowQ (r : Array Nat) (i : Nat) (h : i < r.size) :
    pyIndex (rowQ r) (i : Int) = .ok ((r.getD i 0 : Nat) : Rat) := by
  apply pyIndex_of_getElem?
  rw [rowQ_getElem?, Array.getD_eq_getD_getElem?, Array.getElem?_eq_getElem h]
  rfl

/-! ## run-time support -/

theorem pySetAt_nat_tbl {α : Type} (xs : List α) (i : Nat) (v : α) (h : i < xs.length) :
    pySetAt xs (i : Int) v = .ok (xs.set i v) := by
  unfold pySetAt
  have c1 : ¬ ((i : Int) < 0) := by omega
  have c2 : ¬ ((i : Int) < 0 ∨ (i : Int) ≥ (xs.length : Int)) := by omega
  simp only [if_neg c1, if_neg c2, Int.toNat_natCast]
  rfl

theorem pyIndex_oob {α : Type} (xs : List α) (i : Nat) (h : xs.length ≤ i) :
    pyIndex xs (i : Int) = .error .indexError := by
  unfold pyIndex
  have c1 : ¬ ((i : Int) < 0) := by omega
  simp only [c1, if_false, Int.toNat_natCast, List.getElem?_eq_none h]
  rfl

/-- a list comprehension whose body never raises -/
theorem mapM_ok_map {α β γ : Type} (c : α → β) (f : β → M γ) (g : α → γ) :
    ∀ (l : List α), (∀ a ∈ l, f (c a) = .ok (g a)) → (l.map c).mapM f = .ok (l.map g)
  | [], _ => rfl
  | a :: l, h => by
    rw [List.map_cons, List.mapM_cons, h a (by simp),
      mapM_ok_map c f g l (fun b hb => h b (by simp [hb]))]
    rfl

theorem foldl_pyMin_cast (xs : List Nat) : ∀ m : Nat,
    (xs.map (fun x : Nat => (x : Rat))).foldl (fun m y => if y < m then y else m) (m : Rat)
      = ((xs.foldl min m : Nat) : Rat) := by
  induction xs with
  | nil => intro m; rfl
  | cons y ys ih =>
    intro m
    rw [List.map_cons, List.foldl_cons, List.foldl_cons]
    by_cases h : y < m
    · have h' : (y : Rat) < (m : Rat) := by exact_mod_cast h
      rw [if_pos h', Nat.min_eq_right (by omega)]
      exact ih y
    · have h' : ¬ (y : Rat) < (m : Rat) := by exact_mod_cast h
      rw [if_neg h', Nat.min_eq_left (by omega)]
      exact ih m

/-- `min` of a non-empty list of casts is the cast of the model's minimum -/
theorem pyMin_cast (l : List Nat) (h : l ≠ []) :
    pyMin (l.map (fun x : Nat => (x : Rat))) = .ok ((l.foldl min (l.headD 0) : Nat) : Rat) := by
  cases l with
  | nil => exact absurd rfl h
  | cons x xs =>
    rw [List.map_cons, List.headD_cons, List.foldl_cons, Nat.min_self]
    show Except.ok _ = Except.ok _
    rw [foldl_pyMin_cast]

/-- `l (l+1) / 2` is exact -/
theorem tri_cast (l : Nat) : ((l : Rat) * ((l : Rat) + 1)) / 2 = ((l * (l + 1) / 2 : Nat) : Rat) := by
  have h2 : 2 ∣ l * (l + 1) := (Nat.even_mul_succ_self l).two_dvd
  rw [Nat.cast_div h2 (by norm_num)]
  push_cast
  rfl

/-! ## lists of rows -/

theorem getElem?_mid {α : Type} (A B : List α) (x : α) (n : Nat) (h : A.length = n) :
    (A ++ x :: B)[n]? = some x := by
  subst h; simp

theorem set_mid {α : Type} (A B : List α) (x y : α) (n : Nat) (h : A.length = n) :
    (A ++ x :: B).set n y = A ++ y :: B := by
  subst h; simp

/-- a `for` loop over the row indices `pre.length, …, pre.length + k - 1` that replaces row `i` by `f (row i)` -/
theorem forIn_rows (f : List Rat → List Rat) (body : Int → List (List Rat) → M (ForInStep (List (List Rat))))
    (hb : ∀ (s : List (List Rat)) (i : Nat) (r : List Rat), s[i]? = some r →
      body (i : Int) s = .ok (.yield (s.set i (f r)))) :
    ∀ (k : Nat) (pre : List (List Rat)) (r : List Rat),
      forIn ((List.range' pre.length k).map (fun k : Nat => (k : Int))) (pre ++ List.replicate k r) body
        = .ok (pre ++ List.replicate k (f r)) := by
  intro k
  induction k with
  | zero => intro pre r; rfl
  | succ k ih =>
    intro pre r
    rw [List.range'_succ, List.map_cons, List.forIn_cons, List.replicate_succ,
      hb _ _ r (getElem?_mid pre _ r _ rfl), set_mid pre _ r _ _ rfl]
    show forIn (List.map (fun k : Nat => (k : Int)) (List.range' (pre.length + 1) k))
      (pre ++ f r :: List.replicate k r) body = _
    have e : pre ++ f r :: List.replicate k r = (pre ++ [f r]) ++ List.replicate k r := by simp
    have e' : pre.length + 1 = (pre ++ [f r]).length := by simp
    rw [e, e', ih (pre ++ [f r]) r, List.replicate_succ]
    simp

theorem forIn_rows' (f : List Rat → List Rat) (body : Int → List (List Rat) → M (ForInStep (List (List Rat))))
    (k : Nat) (pre : List (List Rat)) (r : List Rat) (l : List Int) (init : List (List Rat))
    (hl : l = (List.range' pre.length k).map (fun k : Nat => (k : Int)))
    (hi : init = pre ++ List.replicate k r)
    (hb : ∀ (s : List (List Rat)) (i : Nat) (r : List Rat), s[i]? = some r →
      body (i : Int) s = .ok (.yield (s.set i (f r)))) :
    forIn l init body = .ok (pre ++ List.replicate k (f r)) := by
  subst hl hi; exact forIn_rows f body hb k pre r


theorem pyRange_two (n : Nat) :
    pyRange 2 ((n : Int) + 1) = (List.range' 2 (n - 1)).map (fun k : Nat => (k : Int)) := by
  unfold pyRange
  have : ((n : Int) + 1 - 2).toNat = n - 1 := by omega
  rw [this, List.range'_eq_map_range, List.map_map]
  apply List.map_congr_left
  intro k _
  simp

theorem pyRange_one (l : Nat) :
    pyRange 1 (l : Int) = (List.range' 1 (l - 1)).map (fun k : Nat => (k : Int)) := by
  unfold pyRange
  have : ((l : Int) - 1).toNat = l - 1 := by omega
  rw [this, List.range'_eq_map_range, List.map_map]
  apply List.map_congr_left
  intro k _
  simp

theorem ratDiv_two_tbl (a : Rat) : ratDiv a (((2 : Int) : Int) : Rat) = .ok (a / 2) := by
  unfold ratDiv
  have : ¬ ((((2 : Int) : Int) : Rat) = 0) := by norm_num
  rw [if_neg this]
  norm_num
  rfl

theorem pyIndex_one {α : Type} (xs : List α) (a : α) (h : xs[1]? = some a) : pyIndex xs 1 = .ok a :=
  pyIndex_of_getElem? xs 1 a h

theorem pySetAt_one {α : Type} (xs : List α) (v : α) (h : 1 < xs.length) : pySetAt xs 1 v = .ok (xs.set 1 v) :=
  pySetAt_nat_tbl xs 1 v h

/-! ## model side: sizes -/

theorem opt0Row1_size (lmax uf ub : Nat) : (opt0Row1 lmax uf ub).size = 2 + (lmax - 1) :=
  (pushFold_spec (fun (_ : Array Nat) l => (l + 1) * ub + l * (l + 1) / 2 * uf) (lmax - 1) 2
    #[ub, uf + 2 * ub] rfl).1

theorem opt0Row_size (uf ub lmax : Nat) (prev : Array Nat) : (opt0Row uf ub lmax prev).size = 2 + (lmax - 1) := by
  rw [opt0Row_eq]
  exact (pushFold_spec (fun row l =>
    (opt0Cands uf prev row l).foldl min ((opt0Cands uf prev row l).headD 0)) (lmax - 1) 2
    #[ub, uf + 2 * ub] rfl).1

/-! ## `get_opt_0_table` -/

theorem init2_eq (uf ub : Nat) :
    [(ub : Rat)] ++ [(uf : Rat) + (((2 : Int) : Int) : Rat) * (ub : Rat)] = rowQ #[ub, uf + 2 * ub] := by
  unfold rowQ
  simp

/-- the body shared by the first two loops: `opt[m].append(v)` -/
theorem append_body (v : Rat) (s : List (List Rat)) (i : Nat) (r : List Rat) (h : s[i]? = some r) :
    (pyIndex s (i : Int) >>= fun w => pySetAt s (i : Int) (w ++ [v]) >>= fun w =>
        (Except.ok (ForInStep.yield w) : M _))
      = .ok (.yield (s.set i (r ++ [v]))) := by
  obtain ⟨hi, _⟩ := List.getElem?_eq_some_iff.1 h
  simp only [bind, Except.bind]
  rw [pyIndex_of_getElem? _ _ _ h]
  simp only []
  rw [pySetAt_nat_tbl _ _ _ hi]

theorem opt0_ok_pos (lmax p uf ub : Nat) :
    get_opt_0_table (lmax : Int) ((p + 1 : Nat) : Int) (uf : Rat) (ub : Rat)
      = .ok (tabQ (opt0Table lmax (p + 1) uf ub)) := by
  unfold get_opt_0_table
  simp only [bind, Except.bind, pure, Except.pure]
  -- `for m in range(mmax + 1): opt[m].append(ub)`
  rw [forIn_rows' (· ++ [(ub : Rat)]) _ (p + 2) [] [] _ _
    (pyRange_eq 0 (p + 2) _ _ (by simp) (by push_cast; ring))
    (by have e : (((p + 1 : Nat) : Int) + 1 - 0).toNat = p + 2 := by omega
        rw [e]; rfl)
    (fun s i r h => append_body _ s i r h)]
  simp only []
  -- `for m in range(1, mmax + 1): opt[m].append(uf + 2 * ub)`
  rw [forIn_rows' (· ++ [(uf : Rat) + (((2 : Int) : Int) : Rat) * (ub : Rat)]) _ (p + 1) [[(ub : Rat)]] [(ub : Rat)] _ _
    (pyRange_eq 1 (p + 1) _ _ (by simp) (by push_cast; ring))
    (by simp [List.replicate_succ])
    (fun s i r h => append_body _ s i r h)]
  simp only []
  -- `for l in range(2, lmax + 1): opt[1].append((l+1) * ub + l * (l + 1) / 2 * uf)`
  rw [forIn_range_sim' (fun row => [(ub : Rat)] :: rowQ row :: List.replicate p (rowQ #[ub, uf + 2 * ub]))
    (fun row l => row.push ((l + 1) * ub + l * (l + 1) / 2 * uf)) (fun _ _ => True) (lmax - 1) 2
    #[ub, uf + 2 * ub] _ _ _ (pyRange_two lmax)
    (by rw [init2_eq, List.replicate_succ]; rfl) trivial]
  swap
  · intro x row _ _ _
    refine ⟨?_, trivial⟩
    rw [ratDiv_two_tbl]
    simp only []
    rw [pyIndex_one _ (rowQ row) rfl]
    simp only []
    rw [pySetAt_one _ _ (by simp)]
    rw [rowQ_push]
    have e : (((((x : Int) + 1 : Int)) : Rat) * (ub : Rat) + ((((x : Int) * ((x : Int) + 1) : Int)) : Rat) / 2 * (uf : Rat))
        = (((x + 1) * ub + x * (x + 1) / 2 * uf : Nat) : Rat) := by
      push_cast
      rw [← tri_cast]
    rw [e]
    rfl
  simp only []
  have e0 : List.foldl (fun (row : Array Nat) l => row.push ((l + 1) * ub + l * (l + 1) / 2 * uf))
      #[ub, uf + 2 * ub] (List.range' 2 (lmax - 1)) = opt0Row1 lmax uf ub := rfl
  rw [e0]
  -- `for m in range(2, mmax + 1): for l in range(2, lmax + 1): opt[m].append(min([… for j in range(1, l)]))`
  rw [forIn_range_sim' (fun t => tabQ t ++ List.replicate (p + 2 - t.size) (rowQ #[ub, uf + 2 * ub]))
    (fun t m => t.push (opt0Row uf ub lmax (t.getD (m - 1) #[])))
    (fun m t => t.size = m ∧ (t.getD (m - 1) #[]).size = 2 + (lmax - 1)) p 2
    #[#[ub], opt0Row1 lmax uf ub] _ _ _ (pyRange_two (p + 1)) (by rfl) ⟨rfl, opt0Row1_size lmax uf ub⟩]
  · simp only []
    rw [opt0Table_pos lmax (p + 1) uf ub (by omega)]
    have hsz := (pushFold_spec (fun (t : Array (Array Nat)) m =>
      opt0Row uf ub lmax (t.getD (m - 1) #[])) p 2 #[#[ub], opt0Row1 lmax uf ub] rfl).1
    show Except.ok (tabQ _ ++ List.replicate (p + 2 - Array.size _) _) = Except.ok (tabQ _)
    rw [hsz]
    have : p + 2 - (2 + p) = 0 := by omega
    rw [this]
    simp
  intro m t hm1 hm2 ⟨hsz, hprev⟩
  refine ⟨?_, by simp [hsz], by
    have : m + 1 - 1 = t.size := by omega
    rw [this, Array.getD_eq_getD_getElem?, Array.getElem?_push_size]
    exact opt0Row_size uf ub lmax _⟩
  generalize hprevdef : t.getD (m - 1) #[] = prev at hprev ⊢
  have hprevE : t[m - 1]? = some prev := by
    rw [← hprevdef, Array.getD_eq_getD_getElem?, Array.getElem?_eq_getElem (by omega : m - 1 < t.size)]
    rfl
  have hA : ∀ row : Array Nat, (tabQ t ++ rowQ row :: List.replicate (p + 1 - m) (rowQ #[ub, uf + 2 * ub]))[m - 1]?
      = some (rowQ prev) := by
    intro row
    rw [List.getElem?_append_left (by rw [tabQ_length]; omega), tabQ_getElem?, hprevE]
    rfl
  have hB : ∀ row : Array Nat, (tabQ t ++ rowQ row :: List.replicate (p + 1 - m) (rowQ #[ub, uf + 2 * ub]))[m]?
      = some (rowQ row) := fun row => getElem?_mid _ _ _ _ (by rw [tabQ_length]; exact hsz)
  rw [forIn_range_sim' (fun row => tabQ t ++ rowQ row :: List.replicate (p + 1 - m) (rowQ #[ub, uf + 2 * ub]))
    (fun row l => row.push ((opt0Cands uf prev row l).foldl min ((opt0Cands uf prev row l).headD 0)))
    (fun l row => row.size = l) (lmax - 1) 2 #[ub, uf + 2 * ub] _ _ _ (pyRange_two lmax)
    (by have : p + 2 - t.size = (p + 1 - m) + 1 := by omega
        rw [this, List.replicate_succ]) (by rfl)]
  · simp only []
    rw [← opt0Row_eq, tabQ_push, Array.size_push]
    have : p + 2 - (t.size + 1) = p + 1 - m := by omega
    rw [this]
    simp
  intro l row hl1 hl2 hrow
  refine ⟨?_, by simp [hrow]⟩
  have hne : opt0Cands uf prev row l ≠ [] := by
    intro h
    have := congrArg List.length h
    simp [opt0Cands] at this
    omega
  rw [pyRange_one l, mapM_ok_map _ _
    ((fun x : Nat => (x : Rat)) ∘ (fun j => j * uf + prev.getD (l - j) 0 + row.getD (j - 1) 0))]
  swap
  · intro j hj
    have hj' := List.mem_range'_1.1 hj
    have em : (m : Int) - 1 = ((m - 1 : Nat) : Int) := by omega
    have el : (l : Int) - (j : Int) = ((l - j : Nat) : Int) := by omega
    have ej : (j : Int) - 1 = ((j - 1 : Nat) : Int) := by omega
    simp only [Function.comp_apply]
    rw [em, pyIndex_of_getElem? _ _ _ (hA row)]
    simp only []
    rw [el, pyIndex_rowQ prev (l - j) (by omega), pyIndex_of_getElem? _ _ _ (hB row)]
    simp only []
    rw [ej, pyIndex_rowQ row (j - 1) (by omega)]
    simp only []
    push_cast
    rfl
  simp only []
  rw [← List.map_map]
  have ec : List.map (fun j => j * uf + prev.getD (l - j) 0 + row.getD (j - 1) 0) (List.range' 1 (l - 1))
      = opt0Cands uf prev row l := rfl
  rw [ec, pyMin_cast _ hne]
  simp only []
  rw [pyIndex_of_getElem? _ _ _ (hB row)]
  simp only []
  rw [pySetAt_nat_tbl _ _ _ (by rw [List.length_append, tabQ_length, List.length_cons]; omega),
    set_mid _ _ _ _ _ (by rw [tabQ_length]; exact hsz), rowQ_push]


theorem opt0_ok_zero (lmax uf ub : Nat) (h : lmax ≤ 1) :
    get_opt_0_table (lmax : Int) ((0 : Nat) : Int) (uf : Rat) (ub : Rat) = .ok (tabQ (opt0Table lmax 0 uf ub)) := by
  unfold get_opt_0_table
  simp only [bind, Except.bind, pure, Except.pure]
  rw [forIn_rows' (· ++ [(ub : Rat)]) _ 1 [] [] _ _
    (pyRange_eq 0 1 _ _ (by simp) (by simp)) (by rfl) (fun s i r h => append_body _ s i r h)]
  simp only []
  have e1 : pyRange 1 (((0 : Nat) : Int) + 1) = [] := rfl
  have e2 : pyRange 2 ((lmax : Int) + 1) = [] := by
    rw [pyRange_two]
    have : lmax - 1 = 0 := by omega
    rw [this]; rfl
  have e3 : pyRange 2 (((0 : Nat) : Int) + 1) = [] := rfl
  rw [e1, e2, e3, opt0Table_zero]
  rfl

/-- `mmax = 0`, `lmax ≥ 2`: `opt[1]` does not exist -/
theorem opt0_raises (lmax uf ub : Nat) (h : 2 ≤ lmax) :
    get_opt_0_table (lmax : Int) ((0 : Nat) : Int) (uf : Rat) (ub : Rat) = .error .indexError := by
  unfold get_opt_0_table
  simp only [bind, Except.bind, pure, Except.pure]
  rw [forIn_rows' (· ++ [(ub : Rat)]) _ 1 [] [] _ _
    (pyRange_eq 0 1 _ _ (by simp) (by simp)) (by rfl) (fun s i r h => append_body _ s i r h)]
  simp only []
  have e1 : pyRange 1 (((0 : Nat) : Int) + 1) = [] := rfl
  obtain ⟨k, rfl⟩ : ∃ k, lmax = k + 2 := ⟨lmax - 2, by omega⟩
  rw [e1, pyRange_two]
  have e2 : k + 2 - 1 = k + 1 := by omega
  rw [e2, List.range'_succ, List.map_cons]
  simp only [List.forIn_nil, List.forIn_cons, pure, Except.pure]
  rw [ratDiv_two_tbl]
  simp only []
  rw [show pyIndex ([] ++ List.replicate 1 ([] ++ [(ub : Rat)])) 1 = .error .indexError from
    pyIndex_oob _ 1 (by simp)]
  rfl


/-- **`get_opt_0_table` as generated from revolve.py computes the model `opt0Table`** on the exact domain on which
the Python code does not raise: `mmax ≥ 1` (every `lmax`), or `mmax = 0` with `lmax ≤ 1`. -/
theorem get_opt_0_table_refines (lmax mmax uf ub : Nat) (h : 1 ≤ mmax ∨ lmax ≤ 1) :
    get_opt_0_table (lmax : Int) (mmax : Int) (uf : Rat) (ub : Rat)
      = .ok (tabQ (opt0Table lmax mmax uf ub)) := by
  rcases Nat.eq_zero_or_pos mmax with rfl | hpos
  · exact opt0_ok_zero lmax uf ub (by omega)
  · obtain ⟨p, rfl⟩ : ∃ p, mmax = p + 1 := ⟨mmax - 1, by omega⟩
    exact opt0_ok_pos lmax p uf ub

/-- outside that domain (`mmax = 0`, `lmax ≥ 2`) the third loop raises `IndexError` at `opt[1]` -/
theorem get_opt_0_table_raises (lmax mmax uf ub : Nat) (h : ¬ (1 ≤ mmax ∨ lmax ≤ 1)) :
    get_opt_0_table (lmax : Int) (mmax : Int) (uf : Rat) (ub : Rat) = .error .indexError := by
  have h0 : mmax = 0 := by omega
  subst h0
  exact opt0_raises lmax uf ub (by omega)

/-- both cases in one statement -/
theorem get_opt_0_table_cases (lmax mmax uf ub : Nat) :
    get_opt_0_table (lmax : Int) (mmax : Int) (uf : Rat) (ub : Rat)
      = if 1 ≤ mmax ∨ lmax ≤ 1 then .ok (tabQ (opt0Table lmax mmax uf ub)) else .error .indexError := by
  split
  · next h => exact get_opt_0_table_refines lmax mmax uf ub h
  · next h => exact get_opt_0_table_raises lmax mmax uf ub h

example : (1 ≤ 3 ∨ 6 ≤ 1) ∧ ¬ (1 ≤ 0 ∨ 2 ≤ 1) := by decide
example : get_opt_0_table ((3 : Nat) : Int) ((2 : Nat) : Int) ((1 : Nat) : Rat) ((1 : Nat) : Rat)
    = .ok (tabQ (opt0Table 3 2 1 1)) := get_opt_0_table_refines 3 2 1 1 (by decide)
example : tabQ (opt0Table 3 2 1 1) = [[1], [1, 3, 6, 10], [1, 3, 5, 8]] := by decide +kernel
example : get_opt_0_table ((2 : Nat) : Int) ((0 : Nat) : Int) ((1 : Nat) : Rat) ((1 : Nat) : Rat)
    = .error .indexError := get_opt_0_table_raises 2 0 1 1 (by decide)
example : get_opt_0_table ((1 : Nat) : Int) ((0 : Nat) : Int) ((1 : Nat) : Rat) ((1 : Nat) : Rat)
    = .ok [[1]] := get_opt_0_table_refines 1 0 1 1 (by decide)

/-- the shape of the table: `mmax + 1` rows; row `0` is `[ub]`; the rows `1 … mmax` have `max lmax 1 + 1` entries
(`l = 0 … max lmax 1`: the entry `l = 1` is appended whatever `lmax`) -/
theorem opt0Table_shape (lmax mmax uf ub : Nat) :
    (opt0Table lmax mmax uf ub).size = mmax + 1 ∧
    (opt0Table lmax mmax uf ub).getD 0 #[] = #[ub] ∧
    ∀ m, 1 ≤ m → m ≤ mmax → ((opt0Table lmax mmax uf ub).getD m #[]).size = max lmax 1 + 1 := by
  rcases Nat.eq_zero_or_pos mmax with rfl | hpos
  · rw [opt0Table_zero]
    exact ⟨rfl, rfl, fun m h1 h2 => by omega⟩
  · obtain ⟨r0, r1, r2⟩ := opt0Table_rows lmax mmax uf ub hpos
    refine ⟨?_, r0, ?_⟩
    · rw [opt0Table_pos lmax mmax uf ub hpos]
      have := (pushFold_spec (fun (t : Array (Array Nat)) m =>
        opt0Row uf ub lmax (t.getD (m - 1) #[])) (mmax - 1) 2 #[#[ub], opt0Row1 lmax uf ub] rfl).1
      rw [this]; omega
    · intro m hm1 hm
      rcases Nat.lt_or_ge m 2 with hlt | hge
      · have : m = 1 := by omega
        subst this
        rw [r1, opt0Row1_size]; omega
      · rw [r2 m hge hm, opt0Row_size]; omega

/-- entry by entry: `T[m][l] = opt0Get (opt0Table lmax mmax uf ub) m l`, with the row lengths -/
theorem get_opt_0_table_entries (lmax mmax uf ub : Nat) (h : 1 ≤ mmax ∨ lmax ≤ 1) :
    ∃ T, get_opt_0_table (lmax : Int) (mmax : Int) (uf : Rat) (ub : Rat) = .ok T ∧ T.length = mmax + 1 ∧
      ∀ m, m ≤ mmax → ∃ row, T[m]? = some row ∧
        row.length = (if m = 0 then 1 else max lmax 1 + 1) ∧
        ∀ l, l < row.length → row[l]? = some ((opt0Get (opt0Table lmax mmax uf ub) m l : Nat) : Rat) := by
  obtain ⟨hs, h0, hr⟩ := opt0Table_shape lmax mmax uf ub
  refine ⟨_, get_opt_0_table_refines lmax mmax uf ub h, by rw [tabQ_length, hs], ?_⟩
  intro m hm
  have hlen : ((opt0Table lmax mmax uf ub).getD m #[]).size = (if m = 0 then 1 else max lmax 1 + 1) := by
    by_cases hm0 : m = 0
    · subst hm0; rw [h0, if_pos rfl]; rfl
    · rw [if_neg hm0]; exact hr m (by omega) hm
  refine ⟨rowQ ((opt0Table lmax mmax uf ub).getD m #[]), ?_, by rw [rowQ_length, hlen], ?_⟩
  · rw [tabQ_getElem?, Array.getD_eq_getD_getElem?, Array.getElem?_eq_getElem (by omega)]; rfl
  · intro l hl
    rw [rowQ_length] at hl
    rw [rowQ_getElem?, Array.getElem?_eq_getElem hl]
    unfold opt0Get
    generalize (opt0Table lmax mmax uf ub).getD m #[] = r at hl ⊢
    rw [Array.getD_eq_getD_getElem?, Array.getElem?_eq_getElem hl]
    rfl


/-! ## `get_opt_inf_table` -/

open Ckpt.RC in
/-- `opt_0 = some T`: only row `cm` of `T` is read, at the entries `0 … lmax` (and only when `lmax ≥ 2`).  Every `cm`:
the `cm = 0` branch (entry 1 is `wd + uf + 2·ub + rd`) is the `if cm = 0` of the model. -/
theorem get_opt_inf_table_some (lmax cm uf ub rd wd : Nat) (T : List (List Rat)) (t0 : Array (Array Nat))
    (hT : 2 ≤ lmax → ∃ rowc, T[cm]? = some rowc ∧
      ∀ l, l ≤ lmax → rowc[l]? = some ((opt0Get t0 cm l : Nat) : Rat)) :
    get_opt_inf_table (lmax : Int) (cm : Int) (uf : Rat) (ub : Rat) (rd : Rat) (wd : Rat) (some T)
      = .ok (rowQ (optInfTable lmax cm uf ub (wd + rd) t0)) := by
  unfold get_opt_inf_table
  simp only [bind, Except.bind, pure, Except.pure]
  rw [if_neg (Option.some_ne_none T)]
  by_cases hcm : cm = 0
  on_goal 1 => rw [if_pos (by omega : ((cm : Nat) : Int) = 0)]
  on_goal 2 => rw [if_neg (by omega : ¬ ((cm : Nat) : Int) = 0)]
  all_goals
    rw [forIn_range_sim' rowQ (fun tab l => tab.push (min (opt0Get t0 cm l)
        ((optInfCands cm uf (wd + rd) t0 tab l).foldl min ((optInfCands cm uf (wd + rd) t0 tab l).headD 0))))
      (fun l tab => tab.size = l) (lmax - 1) 2
      #[ub, if cm = 0 then wd + rd + uf + 2 * ub else uf + 2 * ub] _ _ _ (pyRange_two lmax)
      (by simp [rowQ, hcm]
          try ring) (by rfl)]
    · simp only []
      rw [optInfTable_eq]
    intro l tab hl1 hl2 hsz
    refine ⟨?_, by simp [hsz]⟩
    obtain ⟨rowc, hTc, hrow⟩ := hT (by omega)
    have hne : optInfCands cm uf (wd + rd) t0 tab l ≠ [] := by
      intro h
      have := congrArg List.length h
      simp [optInfCands] at this
      omega
    have hu : unwrap (some T) = Except.ok T := rfl
    rw [pyRange_one l, mapM_ok_map _ _
      ((fun x : Nat => (x : Rat)) ∘ (fun j => wd + rd + j * uf + tab.getD (l - j) 0 + opt0Get t0 cm (j - 1)))]
    swap
    · intro j hj
      have hj' := List.mem_range'_1.1 hj
      have el : (l : Int) - (j : Int) = ((l - j : Nat) : Int) := by omega
      have ej : (j : Int) - 1 = ((j - 1 : Nat) : Int) := by omega
      simp only [Function.comp_apply]
      rw [el, pyIndex_rowQ tab (l - j) (by omega), hu]
      simp only []
      rw [pyIndex_of_getElem? _ _ _ hTc]
      simp only []
      rw [ej, pyIndex_of_getElem? _ _ _ (hrow (j - 1) (by omega))]
      simp only []
      push_cast
      congr 1
      ring
    simp only []
    rw [← List.map_map]
    have ec : List.map (fun j => wd + rd + j * uf + tab.getD (l - j) 0 + opt0Get t0 cm (j - 1))
        (List.range' 1 (l - 1)) = optInfCands cm uf (wd + rd) t0 tab l := rfl
    rw [ec, pyMin_cast _ hne, hu]
    simp only []
    rw [pyIndex_of_getElem? _ _ _ hTc]
    simp only []
    rw [pyIndex_of_getElem? _ _ _ (hrow l (by omega))]
    simp only []
    rw [rowQ_push, Nat.cast_min]


/-- `opt_0 = None`: the table is computed first -/
theorem get_opt_inf_table_none_eq (lmax cm : Int) (uf ub rd wd : Rat) :
    get_opt_inf_table lmax cm uf ub rd wd none
      = (get_opt_0_table lmax cm uf ub >>= fun T => get_opt_inf_table lmax cm uf ub rd wd (some T)) := by
  unfold get_opt_inf_table
  simp only [bind, Except.bind, pure, Except.pure]
  rw [if_pos trivial]
  cases get_opt_0_table lmax cm uf ub with
  | error e => rfl
  | ok T =>
    simp only []
    rw [if_neg (Option.some_ne_none T)]

/-- row `cm ≥ 1` of a (possibly larger) memory-only table is long enough for `get_opt_inf_table` -/
theorem tabQ_row_ok (lmax0 mmax uf ub cm lmax : Nat) (hcm1 : 1 ≤ cm) (hcm : cm ≤ mmax) (hl : lmax ≤ max lmax0 1) :
    ∃ rowc, (tabQ (opt0Table lmax0 mmax uf ub))[cm]? = some rowc ∧
      ∀ l, l ≤ lmax → rowc[l]? = some ((opt0Get (opt0Table lmax0 mmax uf ub) cm l : Nat) : Rat) := by
  obtain ⟨hs, _, hr⟩ := opt0Table_shape lmax0 mmax uf ub
  have hsz := hr cm hcm1 hcm
  refine ⟨rowQ ((opt0Table lmax0 mmax uf ub).getD cm #[]), ?_, ?_⟩
  · rw [tabQ_getElem?, Array.getD_eq_getD_getElem?, Array.getElem?_eq_getElem (by omega)]; rfl
  · intro l hl'
    unfold opt0Get
    generalize (opt0Table lmax0 mmax uf ub).getD cm #[] = r at hsz ⊢
    have hlt : l < r.size := by omega
    rw [rowQ_getElem?, Array.getElem?_eq_getElem hlt, Array.getD_eq_getD_getElem?,
      Array.getElem?_eq_getElem hlt]
    rfl

/-- **`get_opt_inf_table` as generated from disk_revolve.py (`one_read_disk`) computes the model `optInfTable`**,
`cm ≥ 1`: with `opt_0 = None`, and with `opt_0` = the table `get_opt_0_table(lmax, cm, uf, ub)` returns. -/
theorem get_opt_inf_table_refines (lmax cm uf ub rd wd : Nat) (hcm : 1 ≤ cm) :
    get_opt_inf_table (lmax : Int) (cm : Int) (uf : Rat) (ub : Rat) (rd : Rat) (wd : Rat) none
      = .ok (rowQ (optInfTable lmax cm uf ub (wd + rd) (opt0Table lmax cm uf ub))) ∧
    ∀ T, get_opt_0_table (lmax : Int) (cm : Int) (uf : Rat) (ub : Rat) = .ok T →
      get_opt_inf_table (lmax : Int) (cm : Int) (uf : Rat) (ub : Rat) (rd : Rat) (wd : Rat) (some T)
        = .ok (rowQ (optInfTable lmax cm uf ub (wd + rd) (opt0Table lmax cm uf ub))) := by
  have h0 := get_opt_0_table_refines lmax cm uf ub (Or.inl hcm)
  have h1 := get_opt_inf_table_some lmax cm uf ub rd wd _ (opt0Table lmax cm uf ub)
    (fun _ => tabQ_row_ok lmax cm uf ub cm lmax hcm (Nat.le_refl _) (by omega))
  refine ⟨?_, ?_⟩
  · rw [get_opt_inf_table_none_eq, h0]
    exact h1
  · intro T hT
    rw [h0] at hT
    cases hT
    exact h1

/-- the same for a memory-only table computed for more steps and more slots (`lmax ≤ lmax0`, `cm ≤ mmax`) -/
theorem get_opt_inf_table_larger (lmax lmax0 cm mmax uf ub rd wd : Nat) (hcm : 1 ≤ cm) (hcm' : cm ≤ mmax)
    (hl : lmax ≤ lmax0) :
    get_opt_inf_table (lmax : Int) (cm : Int) (uf : Rat) (ub : Rat) (rd : Rat) (wd : Rat)
        (some (tabQ (opt0Table lmax0 mmax uf ub)))
      = .ok (rowQ (optInfTable lmax cm uf ub (wd + rd) (opt0Table lmax0 mmax uf ub))) :=
  get_opt_inf_table_some lmax cm uf ub rd wd _ (opt0Table lmax0 mmax uf ub)
    (fun _ => tabQ_row_ok lmax0 mmax uf ub cm lmax hcm hcm' (by omega))

/-- `cm = 0`, `lmax ≤ 1`: the table `[ub, wd + uf + 2·ub + rd]` -/
theorem get_opt_inf_table_cm_zero (lmax uf ub rd wd : Nat) (h : lmax ≤ 1) :
    get_opt_inf_table (lmax : Int) ((0 : Nat) : Int) (uf : Rat) (ub : Rat) (rd : Rat) (wd : Rat) none
      = .ok (rowQ (optInfTable lmax 0 uf ub (wd + rd) (opt0Table lmax 0 uf ub))) ∧
    rowQ (optInfTable lmax 0 uf ub (wd + rd) (opt0Table lmax 0 uf ub))
      = [(ub : Rat), (wd : Rat) + (uf : Rat) + 2 * (ub : Rat) + (rd : Rat)] := by
  refine ⟨?_, ?_⟩
  · rw [get_opt_inf_table_none_eq, get_opt_0_table_refines lmax 0 uf ub (Or.inr h)]
    exact get_opt_inf_table_some lmax 0 uf ub rd wd _ _ (fun h2 => by omega)
  · have : lmax - 1 = 0 := by omega
    unfold optInfTable
    rw [this]
    simp [rowQ]
    ring

/-- `cm = 0`, `lmax ≥ 2`, `opt_0 = None`: `get_opt_0_table` raises `IndexError` -/
theorem get_opt_inf_table_cm_zero_raises (lmax uf ub rd wd : Nat) (h : 2 ≤ lmax) :
    get_opt_inf_table (lmax : Int) ((0 : Nat) : Int) (uf : Rat) (ub : Rat) (rd : Rat) (wd : Rat) none
      = .error .indexError := by
  rw [get_opt_inf_table_none_eq, get_opt_0_table_raises lmax 0 uf ub (by omega)]
  rfl

example : get_opt_inf_table ((8 : Nat) : Int) ((1 : Nat) : Int) ((1 : Nat) : Rat) ((1 : Nat) : Rat) ((1 : Nat) : Rat)
    ((1 : Nat) : Rat) none = .ok (rowQ (optInfTable 8 1 1 1 (1 + 1) (opt0Table 8 1 1 1))) :=
  (get_opt_inf_table_refines 8 1 1 1 1 1 (by decide)).1
example : rowQ (optInfTable 4 1 1 1 (1 + 1) (opt0Table 4 1 1 1)) = [1, 3, 6, 10, 13] := by decide +kernel
/-- a table for more steps and slots (`lmax0 = 6`, `mmax = 3`) passed as `opt_0` -/
example : get_opt_inf_table ((4 : Nat) : Int) ((2 : Nat) : Int) ((1 : Nat) : Rat) ((1 : Nat) : Rat) ((1 : Nat) : Rat)
    ((1 : Nat) : Rat) (some (tabQ (opt0Table 6 3 1 1))) = .ok (rowQ (optInfTable 4 2 1 1 (1 + 1) (opt0Table 6 3 1 1))) :=
  get_opt_inf_table_larger 4 6 2 3 1 1 1 1 (by decide) (by decide) (by decide)
example : get_opt_inf_table ((1 : Nat) : Int) ((0 : Nat) : Int) ((1 : Nat) : Rat) ((1 : Nat) : Rat) ((3 : Nat) : Rat)
    ((2 : Nat) : Rat) none = .ok [1, 2 + 1 + 2 * 1 + 3] := by
  have h := get_opt_inf_table_cm_zero 1 1 1 3 2 (by decide)
  rw [h.1, h.2]; norm_num
example : get_opt_inf_table ((2 : Nat) : Int) ((0 : Nat) : Int) ((1 : Nat) : Rat) ((1 : Nat) : Rat) ((3 : Nat) : Rat)
    ((2 : Nat) : Rat) none = .error .indexError := get_opt_inf_table_cm_zero_raises 2 1 1 3 2 (by decide)


/-- `cm = 0`, `lmax ≥ 2`, `opt_0` = a table built with `mmax = 0` (its only row is `[ub]`): `opt_0[0][2]` raises -/
theorem get_opt_inf_table_cm_zero_some_raises (lmax lmax0 uf ub rd wd : Nat) (h : 2 ≤ lmax) :
    get_opt_inf_table (lmax : Int) ((0 : Nat) : Int) (uf : Rat) (ub : Rat) (rd : Rat) (wd : Rat)
      (some (tabQ (opt0Table lmax0 0 uf ub))) = .error .indexError := by
  unfold get_opt_inf_table
  simp only [bind, Except.bind, pure, Except.pure]
  rw [if_neg (Option.some_ne_none _), if_pos (by rfl : ((0 : Nat) : Int) = 0), opt0Table_zero]
  obtain ⟨k, rfl⟩ : ∃ k, lmax = k + 2 := ⟨lmax - 2, by omega⟩
  rw [pyRange_two]
  have e2 : k + 2 - 1 = k + 1 := by omega
  rw [e2, List.range'_succ, List.map_cons, List.forIn_cons]
  have hu : ∀ T : List (List Rat), unwrap (some T) = Except.ok T := fun _ => rfl
  have e1 : pyRange 1 ((2 : Nat) : Int) = [1] := rfl
  have i0 : pyIndex (tabQ #[#[ub]]) ((0 : Nat) : Int) = .ok [(ub : Rat)] := pyIndex_of_getElem? _ 0 _ rfl
  have i1 : ∀ x : Rat, pyIndex ([] ++ [(ub : Rat)] ++ [x]) (((2 : Nat) : Int) - 1) = .ok x :=
    fun x => pyIndex_of_getElem? _ 1 _ rfl
  have i2 : pyIndex [(ub : Rat)] ((1 : Int) - 1) = .ok (ub : Rat) := pyIndex_of_getElem? _ 0 _ rfl
  have i3 : pyIndex [(ub : Rat)] ((2 : Nat) : Int) = .error .indexError := pyIndex_oob _ 2 (by simp)
  simp only [e1, List.mapM_cons, List.mapM_nil, hu, i0, i1, i2, i3, bind, Except.bind, pure, Except.pure, pyMin,
    List.foldl_nil]

/-! ## the generated tables and the property theorems -/

/-- C05 (`C05_revolve_table`, `opt0_eq_extra`): every entry `m ≥ 1` of the table the GENERATED `get_opt_0_table`
returns is `(l+1)·ub + uf·E(l+1, min(m, l))`, `E` the Griewank–Walther recurrence (`optimal_extra_steps`). -/
theorem get_opt_0_table_extra (lmax mmax uf ub : Nat) (hmm : 1 ≤ mmax) :
    ∃ T, get_opt_0_table (lmax : Int) (mmax : Int) (uf : Rat) (ub : Rat) = .ok T ∧
      ∀ m l, 1 ≤ m → m ≤ mmax → l ≤ lmax → ∃ row, T[m]? = some row ∧
        row[l]? = some ((l + 1 : Nat) * (ub : Rat) + (uf : Rat) * (extraCell (l + 1) (clampS (l + 1) m) : Nat)) := by
  refine ⟨_, get_opt_0_table_refines lmax mmax uf ub (Or.inl hmm), ?_⟩
  intro m l hm1 hm hl
  obtain ⟨row, h1, h2⟩ := tabQ_row_ok lmax mmax uf ub m lmax hm1 hm (by omega)
  refine ⟨row, h1, ?_⟩
  rw [h2 l hl, C05_revolve_table lmax mmax uf ub l m hl hm1 hm]
  push_cast
  rfl

/-- the same through `opt0_eq_gwT`: `T[m][l] + (l+1)·uf = (l+1)·ub + uf·T_GW(l+1, m)`, `T_GW(n, s) = n + E(n, s)` the
minimal number of forward steps (`optimal_steps_binomial`) -/
theorem get_opt_0_table_gwT (lmax mmax uf ub : Nat) (hmm : 1 ≤ mmax) :
    ∃ T, get_opt_0_table (lmax : Int) (mmax : Int) (uf : Rat) (ub : Rat) = .ok T ∧
      ∀ m l, 1 ≤ m → m ≤ mmax → l ≤ lmax → ∃ row x, T[m]? = some row ∧ row[l]? = some x ∧
        x + (l + 1 : Nat) * (uf : Rat) = (l + 1 : Nat) * (ub : Rat) + (uf : Rat) * (GW.gwT (l + 1) m : Nat) := by
  refine ⟨_, get_opt_0_table_refines lmax mmax uf ub (Or.inl hmm), ?_⟩
  intro m l hm1 hm hl
  obtain ⟨row, h1, h2⟩ := tabQ_row_ok lmax mmax uf ub m lmax hm1 hm (by omega)
  refine ⟨row, _, h1, h2 l hl, ?_⟩
  have := RC.opt0_eq_gwT lmax mmax uf ub l m hl hm1 hm
  exact_mod_cast this

theorem optInfTable_size (lmax cm uf ub wr : Nat) (t0 : Array (Array Nat)) :
    (optInfTable lmax cm uf ub wr t0).size = max lmax 1 + 1 := by
  rw [RC.optInfTable_eq]
  have := (pushFold_spec (fun tab l => min (opt0Get t0 cm l)
    ((RC.optInfCands cm uf wr t0 tab l).foldl min ((RC.optInfCands cm uf wr t0 tab l).headD 0)))
    (lmax - 1) 2 #[ub, if cm = 0 then wr + uf + 2 * ub else uf + 2 * ub] rfl).1
  rw [this]; omega

/-- `optInf_rec`, `optInf_le_opt0`: the table `V` the GENERATED `get_opt_inf_table` returns (`cm ≥ 1`, `opt_0 = None`) has
`max lmax 1 + 1` entries, `V[0] = ub`, `V[1] = uf + 2·ub`, and for `2 ≤ l ≤ lmax` satisfies the Disk-Revolve recurrence
`V[l] = min(opt_0[cm][l], min_{1≤j<l} (wd + rd + j·uf + V[l-j] + opt_0[cm][j-1]))`, hence `V[l] ≤ opt_0[cm][l]`
(`v l` is the natural number whose cast is `V[l]`). -/
theorem get_opt_inf_table_rec (lmax cm uf ub rd wd : Nat) (hcm : 1 ≤ cm) :
    ∃ (V : List Rat) (v : Nat → Nat),
      get_opt_inf_table (lmax : Int) (cm : Int) (uf : Rat) (ub : Rat) (rd : Rat) (wd : Rat) none = .ok V ∧
      V.length = max lmax 1 + 1 ∧ (∀ l, l ≤ max lmax 1 → V[l]? = some ((v l : Nat) : Rat)) ∧
      v 0 = ub ∧ v 1 = uf + 2 * ub ∧
      ∀ l, 2 ≤ l → l ≤ lmax →
        (let t0 := opt0Table lmax cm uf ub
         let cands := (List.range' 1 (l - 1)).map (fun j => wd + rd + j * uf + v (l - j) + opt0Get t0 cm (j - 1))
         v l = min (opt0Get t0 cm l) (cands.foldl min (cands.headD 0))) ∧
        v l ≤ opt0Get (opt0Table lmax cm uf ub) cm l := by
  refine ⟨_, fun l => (optInfTable lmax cm uf ub (wd + rd) (opt0Table lmax cm uf ub)).getD l 0,
    (get_opt_inf_table_refines lmax cm uf ub rd wd hcm).1, ?_, ?_, ?_, ?_, ?_⟩
  · rw [rowQ_length, optInfTable_size]
  · intro l hl
    have hsz := optInfTable_size lmax cm uf ub (wd + rd) (opt0Table lmax cm uf ub)
    generalize optInfTable lmax cm uf ub (wd + rd) (opt0Table lmax cm uf ub) = tab at hsz ⊢
    have hlt : l < tab.size := by omega
    show _ = some ((tab.getD l 0 : Nat) : Rat)
    rw [rowQ_getElem?, Array.getElem?_eq_getElem hlt, Array.getD_eq_getD_getElem?, Array.getElem?_eq_getElem hlt]
    rfl
  · exact (RC.optInfTable_spec lmax cm uf ub (wd + rd) _).1
  · exact (RC.optInfTable_spec lmax cm uf ub (wd + rd) _).2.1 hcm
  · intro l hl2 hl
    exact ⟨RC.optInf_rec lmax cm uf ub (wd + rd) _ l hl2 hl,
      RC.optInf_le_opt0 lmax lmax cm cm uf ub (wd + rd) hcm (Nat.le_refl _) l hl⟩

/-- non-vacuity of the corollaries: `lmax = 4`, `mmax = cm = 2`, unit costs (`wd = rd = 1`) -/
example : ∃ T, get_opt_0_table ((4 : Nat) : Int) ((2 : Nat) : Int) ((1 : Nat) : Rat) ((1 : Nat) : Rat) = .ok T :=
  let ⟨T, h, _⟩ := get_opt_0_table_extra 4 2 1 1 (by decide); ⟨T, h⟩
example : ∃ V, get_opt_inf_table ((4 : Nat) : Int) ((2 : Nat) : Int) ((1 : Nat) : Rat) ((1 : Nat) : Rat)
    ((1 : Nat) : Rat) ((1 : Nat) : Rat) none = .ok V :=
  let ⟨V, _, h, _⟩ := get_opt_inf_table_rec 4 2 1 1 1 1 (by decide); ⟨V, h⟩

#print axioms get_opt_0_table_refines
#print axioms get_opt_0_table_raises
#print axioms get_opt_0_table_cases
#print axioms get_opt_0_table_entries
#print axioms get_opt_inf_table_some
#print axioms get_opt_inf_table_refines
#print axioms get_opt_inf_table_larger
#print axioms get_opt_inf_table_cm_zero
#print axioms get_opt_inf_table_cm_zero_raises
#print axioms get_opt_inf_table_cm_zero_some_raises
#print axioms get_opt_0_table_extra
#print axioms get_opt_0_table_gwT
#print axioms get_opt_inf_table_rec

end Ckpt.Py
