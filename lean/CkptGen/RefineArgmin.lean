import CkptGen.RefineNAdv
import CkptVerif.Proofs.Argmin
/-!
# The Lean text generated from `argmin` (hrevolve_sequences/basic_functions.py) computes the model `argminO`
-/
namespace Ckpt.Py
open Ckpt

/-- a `for` loop in `Except` whose body always yields is a `foldl` -/
theorem forIn_yield {σ α : Type} (xs : List α) (f : α → σ → M (ForInStep σ)) (g : σ → α → σ)
    (h : ∀ x ∈ xs, ∀ s, f x s = .ok (.yield (g s x))) (s : σ) :
    forIn xs s f = .ok (xs.foldl g s) := by
  induction xs generalizing s with
  | nil => rfl
  | cons x xs ih =>
    rw [List.forIn_cons, h x (List.mem_cons_self ..) s]
    simp only [bind, Except.bind, List.foldl_cons]
    exact ih (fun y hy => h y (List.mem_cons_of_mem _ hy)) _

theorem pyRange_zero (n : Nat) : pyRange 0 (n : Int) = (List.range n).map (fun k : Nat => (k : Int)) := by
  unfold pyRange
  simp

theorem pyIndex_nat (l : List Int) (k : Nat) (h : k < l.length) : pyIndex l (k : Int) = .ok l[k]! := by
  unfold pyIndex
  have h1 : ¬ ((k : Int) < 0) := by omega
  simp only [h1, if_false, Int.toNat_natCast, List.getElem?_eq_getElem h, getElem!_pos l k h]
  rfl

theorem pyIndex_nil (i : Int) : pyIndex ([] : List Int) i = .error .indexError := by
  unfold pyIndex
  simp only [List.length_nil, Int.natCast_zero, Int.add_zero, ite_self, List.getElem?_nil]
  rfl

/-- the body of the loop -/
def argStepI (l : List Int) (s : Int × Int) (k : Nat) : Int × Int :=
  if l[k]! ≤ s.2 then ((k : Int), l[k]!) else s

theorem argLoopI_inv (l : List Int) (n : Nat) : ∃ i : Nat,
    (List.range n).foldl (argStepI l) ((0 : Int), l[0]!) = ((i : Int), l[i]!) ∧ (i < n ∨ i = 0) ∧
    (∀ j, j < n → l[i]! ≤ l[j]!) ∧ (∀ j, i < j → j < n → l[i]! < l[j]!) := by
  induction n with
  | zero => exact ⟨0, rfl, Or.inr rfl, by intro j hj; omega, by intro j _ hj; omega⟩
  | succ n ih =>
    obtain ⟨i, e, hi, hle, hlt⟩ := ih
    rw [List.range_succ, List.foldl_append, e]
    simp only [List.foldl_cons, List.foldl_nil, argStepI]
    by_cases hc : l[n]! ≤ l[i]!
    · rw [if_pos hc]
      refine ⟨n, rfl, Or.inl (by omega), ?_, ?_⟩
      · intro j hj
        rcases Nat.lt_succ_iff_lt_or_eq.1 hj with h | h
        · exact le_trans hc (hle j h)
        · rw [h]
      · intro j h1 h2; omega
    · rw [if_neg hc]
      refine ⟨i, rfl, ?_, ?_, ?_⟩
      · rcases hi with h | h
        · left; omega
        · right; exact h
      · intro j hj
        rcases Nat.lt_succ_iff_lt_or_eq.1 hj with h | h
        · exact hle j h
        · rw [h]; omega
      · intro j h1 h2
        rcases Nat.lt_succ_iff_lt_or_eq.1 h2 with h | h
        · exact hlt j h1 h
        · rw [h]; omega

/-- the generated function is the fold -/
theorem argmin_eq_fold (l : List Int) (h : l ≠ []) :
    argmin l = .ok ((1 : Int) + ((List.range l.length).foldl (argStepI l) ((0 : Int), l[0]!)).1) := by
  have hpos : 0 < l.length := List.length_pos_iff.2 h
  unfold argmin
  simp only [bind, Except.bind, pure, Except.pure]
  have h0 := pyIndex_nat l 0 hpos
  simp only [Nat.cast_zero] at h0
  rw [h0]
  simp only []
  rw [pyRange_zero, forIn_yield (g := fun s (i : Int) => argStepI l s i.toNat), List.foldl_map]
  · simp only [Int.toNat_natCast]
  · intro x hx s
    obtain ⟨k, hk, rfl⟩ := List.mem_map.1 hx
    have hk' : k < l.length := List.mem_range.1 hk
    simp only [pyIndex_nat l k hk', Int.toNat_natCast, argStepI]
    split_ifs <;> rfl

/-- `list[0]` on an empty list -/
theorem argmin_empty : argmin [] = .error .indexError := by
  unfold argmin
  simp only [bind, Except.bind, pyIndex_nil]

/-- characterisation independent of the model: the result is the 1-based index of the LAST minimum -/
theorem argmin_spec (l : List Int) (h : l ≠ []) :
    ∃ k : Nat, argmin l = .ok ((k : Int) + 1) ∧ k < l.length ∧
      (∀ j, j < l.length → l[k]! ≤ l[j]!) ∧ (∀ j, k < j → j < l.length → l[k]! < l[j]!) := by
  have hpos : 0 < l.length := List.length_pos_iff.2 h
  obtain ⟨i, e, hi, hle, hlt⟩ := argLoopI_inv l l.length
  refine ⟨i, ?_, by omega, hle, hlt⟩
  rw [argmin_eq_fold l h, e, Int.add_comm]

theorem argmin_refines (l : List Nat) (h : l ≠ []) :
    argmin (l.map (fun a : Nat => (a : Int))) = .ok ((argminO (l.map some) : Nat) : Int) := by
  obtain ⟨k, e, hk, hle, hlt⟩ := argmin_spec (l.map (fun a : Nat => (a : Int))) (by simpa using h)
  obtain ⟨⟨p1, p2⟩, pget, pmin, plast⟩ := argminO_map_some_spec l h
  simp only [List.length_map] at hk hle hlt
  have cast : ∀ j (hj : j < l.length), (l.map (fun a : Nat => (a : Int)))[j]! = ((l[j] : Nat) : Int) := by
    intro j hj
    rw [getElem!_pos _ j (by simpa using hj), List.getElem_map]
  have hp : argminO (l.map some) - 1 < l.length := by omega
  have pget' : l[argminO (l.map some) - 1] = l.foldl min (l.headD 0) := by
    have := List.getElem?_eq_getElem hp
    rw [this] at pget
    exact Option.some.inj pget
  have key : argminO (l.map some) = k + 1 := by
    rcases Nat.lt_trichotomy (argminO (l.map some) - 1) k with c | c | c
    · have a1 := plast k hk c
      have a2 := hle _ hp
      rw [cast _ hk, cast _ hp, pget'] at a2
      omega
    · omega
    · have a1 := hlt _ c hp
      rw [cast _ hk, cast _ hp, pget'] at a1
      have a2 := pmin l[k] (List.getElem_mem hk)
      omega
  rw [e, key]
  push_cast
  rfl

end Ckpt.Py

#print axioms Ckpt.Py.argmin_refines
#print axioms Ckpt.Py.argmin_empty
#print axioms Ckpt.Py.argmin_spec
