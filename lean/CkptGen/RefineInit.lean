import CkptGen.RefineCommon
import CkptGen.RefineMethods
import CkptGen.RefineMixedIter
import CkptGen.RefineTwoLevel
import CkptGen.RefineMultistage
import CkptVerif.Spec.Configs
import CkptVerif.Proofs.ActionApi
import CkptVerif.Properties.C17
import Mathlib.Tactic
/-!
# The Lean text generated from the CONSTRUCTORS and from `Forward/Reverse.__len__/__contains__`

`Ckpt.Py.mixed_init`, `twoLevel_init`, `multistage_init` (each returns the tuple of object fields that the Python
`__init__` sets, or raises) and `forward_len`, `forward_contains`, `reverse_len`, `reverse_contains` are produced by
`harness/py2lean.py` from the current Python source (`CkptGen/Src.lean`).  This file proves

* a closed form of every constructor FOR ALL INTEGER ARGUMENTS (`*_init_spec`), and from it "raises `ValueError`
  exactly when …" (`*_init_error_iff`, `*_init_negative`);
* the refinement to the model constructors `mixedSched`, `twoLevelSched`, `multistageSched`/`multistageStorage`
  (`Model/Mixed.lean`, `Model/Online.lean`, `Model/Multistage.lean`): the generated constructor raises exactly when
  the model rejects the tuple at construction (`Err.construct`), and otherwise returns exactly the fields with which
  the refinement theorems of the generators start the generated `_iterator`
  (`mixed_iterator_refines`, `twoLevel_iterator_refines`, `multistage_iterator_refines`);
* the compositions `*_construct_then_iterate`: for every valid parameter tuple (`validMixed`, `validTwoLevel`,
  `validMultistage` of `Spec/Configs.lean`, the domains of the C17 theorems) constructing with the generated
  constructor and then running the generated generator on the fields it returned yields the stream model;
* the four action helpers against `steps` of `Model/ActionApi.lean`.

The untranslated `allocate_snapshots` is an ORACLE parameter of `multistage_init`; the hypothesis `OracleAgrees`
says that, called with the clamped arguments with which the constructor calls it, it returns the allocation that the
model `allocate` returns (the weights, which the constructor discards, are left free).
-/
namespace Ckpt.Py
open Ckpt

/-! ## the mapping -/

theorem stPy_tl_eq : TwoLevel.stPy_tl = stPy := by
  funext st; cases st <;> rfl

theorem stPy_inj : Function.Injective stPy := by
  intro a b h; exact (stPy_injective a b).1 h

theorem stPy_ram_or_disk (st : Storage) : (stPy st = .ram ∨ stPy st = .disk) ↔ (st = .ram ∨ st = .disk) := by
  cases st <;> simp [stPy]

/-- every value of the generated `StorageType` is the image of a model `Storage` -/
theorem stPy_surjective (x : StorageType) : ∃ st, stPy st = x := by
  cases x
  · exact ⟨.ram, rfl⟩
  · exact ⟨.disk, rfl⟩
  · exact ⟨.work, rfl⟩
  · exact ⟨.none, rfl⟩

/-- the clamp `min(s, max_n - 1)` on integers is the model's clamp on naturals (for `max_n ≥ 1`) -/
theorem clamp_cast_in (N s : Nat) (hN : 1 ≤ N) : min (s : Int) ((N : Int) - 1) = ((min s (N - 1) : Nat) : Int) := by
  omega

/-! ## 1. `MixedCheckpointSchedule.__init__` -/

/-- the generated constructor in closed form, for all integers and all storage types; the checks in the order of
the source: `snapshots`, `storage`, then `max_n` (in `super().__init__`) -/
theorem mixed_init_spec (max_n snapshots : Int) (storage : StorageType) :
    mixed_init max_n snapshots storage =
      if snapshots < min 1 (max_n - 1) then .error .valueError
      else if ¬ (storage = .ram ∨ storage = .disk) then .error .valueError
      else if max_n < 1 then .error .valueError
      else .ok (0, 0, some max_n, false, min snapshots (max_n - 1), storage) := by
  unfold mixed_init
  rw [init_spec]
  by_cases h1 : snapshots < min 1 (max_n - 1)
  · simp only [h1, if_true]; rfl
  · by_cases h2 : ¬ (storage = .ram ∨ storage = .disk)
    · simp only [h1, if_false, h2]; rfl
    · by_cases h3 : max_n < 1
      · simp only [h1, if_false, h2, h3, if_true, bind, Except.bind]
      · simp only [h1, if_false, h2, h3, bind, Except.bind, pure, Except.pure]

/-- for all integers: the constructor raises (and then it is `ValueError`) exactly for `max_n < 1`,
`snapshots < min(1, max_n - 1)`, or a storage other than RAM/DISK; otherwise it returns the fields -/
theorem mixed_init_error_iff (max_n snapshots : Int) (storage : StorageType) :
    (mixed_init max_n snapshots storage = .error .valueError ↔
      (max_n < 1 ∨ snapshots < min 1 (max_n - 1) ∨ ¬ (storage = .ram ∨ storage = .disk))) ∧
    (¬ (max_n < 1 ∨ snapshots < min 1 (max_n - 1) ∨ ¬ (storage = .ram ∨ storage = .disk)) →
      mixed_init max_n snapshots storage
        = .ok (0, 0, some max_n, false, min snapshots (max_n - 1), storage)) := by
  rw [mixed_init_spec]
  by_cases h1 : snapshots < min 1 (max_n - 1)
  · simp [h1]
  · by_cases h2 : ¬ (storage = .ram ∨ storage = .disk)
    · simp only [h1, if_false, h2]; simp
    · by_cases h3 : max_n < 1
      · simp only [h1, if_false, h2, h3, if_true]; simp
      · simp only [h1, if_false, h2, h3]; simp

/-- integers that are not natural numbers are always rejected: the model's parameter space `Nat × Nat × Storage`
loses nothing -/
theorem mixed_init_negative (max_n snapshots : Int) (storage : StorageType) (h : max_n < 0 ∨ snapshots < 0) :
    mixed_init max_n snapshots storage = .error .valueError := by
  rw [(mixed_init_error_iff max_n snapshots storage).1]
  by_cases h1 : max_n < 1
  · exact Or.inl h1
  · exact Or.inr (Or.inl (by omega))

/-- the fields with which the generated generator is started, as the model outcome prescribes them -/
def mixedInitOf (N s : Nat) (st : Storage) : Except Err Sched →
    M (Int × Int × Option Int × Bool × Int × StorageType)
  | .ok _ => .ok (0, 0, some (N : Int), false, ((min s (N - 1) : Nat) : Int), stPy st)
  | .error _ => .error .valueError

/-- the model constructor rejects only at construction, and does so exactly outside `validMixed` -/
theorem mixedSched_outcome (plan : Planner) (N s : Nat) (st : Storage) :
    (validMixed N s st = true →
      mixedSched plan N s st = .ok (offlineSched N (mixedEvs plan N s st) (fun x => some (x = st)))) ∧
    (validMixed N s st = false → ∃ msg, mixedSched plan N s st = .error (.construct msg)) := by
  unfold mixedSched
  constructor
  · intro hv
    simp only [validMixed, Bool.and_eq_true, Bool.or_eq_true, decide_eq_true_eq] at hv
    obtain ⟨⟨h1, h2⟩, h3⟩ := hv
    have hst : st = .ram ∨ st = .disk := by simpa using h3
    rw [if_neg (by omega), if_neg (not_not.mpr hst), if_neg (by omega)]
  · intro hv
    by_cases h1 : s < min 1 (N - 1) ∧ 1 ≤ N
    · rw [if_pos h1]; exact ⟨_, rfl⟩
    · rw [if_neg h1]
      by_cases h2 : ¬ (st = .ram ∨ st = .disk)
      · rw [if_pos h2]; exact ⟨_, rfl⟩
      · rw [if_neg h2]
        by_cases h3 : N < 1
        · rw [if_pos h3]; exact ⟨_, rfl⟩
        · exfalso
          have : validMixed N s st = true := by
            simp only [validMixed, Bool.and_eq_true, Bool.or_eq_true, decide_eq_true_eq]
            refine ⟨⟨by omega, by omega⟩, ?_⟩
            push Not at h2
            simpa using h2
          rw [this] at hv; cases hv

/-- **`MixedCheckpointSchedule.__init__` refines `mixedSched`**: for every natural `max_n`, `snapshots` and every
storage the generated constructor raises `ValueError` exactly when the model rejects the tuple (always at
construction), and otherwise returns `_n = 0, _r = 0, _max_n = max_n, _exhausted = False,
_snapshots = min(snapshots, max_n - 1), _storage = storage` — the arguments of `mixed_iterator_refines`.
(Non-natural integers: `mixed_init_negative`.) -/
theorem mixed_init_refines (plan : Planner) (N s : Nat) (st : Storage) :
    mixed_init (N : Int) (s : Int) (stPy st) = mixedInitOf N s st (mixedSched plan N s st) := by
  rw [mixed_init_spec]
  unfold mixedSched
  have e1 : ((s : Int) < min 1 ((N : Int) - 1)) ↔ (s < min 1 (N - 1) ∧ 1 ≤ N) := by omega
  have e3 : ((N : Int) < 1) ↔ N < 1 := by omega
  simp only [e1, e3, stPy_ram_or_disk]
  by_cases h1 : s < min 1 (N - 1) ∧ 1 ≤ N
  · simp only [h1, and_self, if_true, mixedInitOf]
  · by_cases h2 : ¬ (st = .ram ∨ st = .disk)
    · simp only [h1, if_false, h2, not_false_eq_true, if_true, mixedInitOf]
    · by_cases h3 : N < 1
      · simp only [h1, if_false, h2, h3, if_true, mixedInitOf]
      · simp only [h1, if_false, h2, h3, mixedInitOf]
        rw [clamp_cast_in N s (by omega)]

/-- the same, split by the documented domain `validMixed` (the hypothesis of `C17_valid_mixed` /
`C17_invalid_mixed`): inside it the fields, outside it `ValueError` and a `construct` rejection of the model;
the fields `_n, _r, _max_n` are those of the model's initial machine state -/
theorem mixed_init_valid_iff (plan : Planner) (N s : Nat) (st : Storage) :
    (validMixed N s st = true →
      ∃ sch, mixedSched plan N s st = .ok sch ∧
        mixed_init (N : Int) (s : Int) (stPy st)
          = .ok ((sch.init.n : Int), (sch.init.r : Int), optInt sch.init.maxN, false,
                 ((clampS N s : Nat) : Int), stPy st) ∧
        mixed_init (N : Int) (s : Int) (stPy st)
          = .ok (0, 0, some (N : Int), false, ((min s (N - 1) : Nat) : Int), stPy st)) ∧
    (validMixed N s st = false →
      mixed_init (N : Int) (s : Int) (stPy st) = .error .valueError ∧
      ∃ msg, mixedSched plan N s st = .error (.construct msg)) := by
  constructor
  · intro hv
    have h := (mixedSched_outcome plan N s st).1 hv
    refine ⟨_, h, ?_, ?_⟩
    · rw [mixed_init_refines plan, h]; rfl
    · rw [mixed_init_refines plan, h]; rfl
  · intro hv
    obtain ⟨msg, h⟩ := (mixedSched_outcome plan N s st).2 hv
    exact ⟨by rw [mixed_init_refines plan, h]; rfl, msg, h⟩

/-- construct, then iterate: the generated `__init__` followed by the generated `_iterator` on the fields it set -/
def mixed_run (fuel : Nat) (max_n snapshots : Int) (storage : StorageType) : M (List PyEv) := do
  let (n, r, mx, ex, sn, sto) ← mixed_init max_n snapshots storage
  mixed_iterator fuel n r mx sn sto ex

/-- **Composition**: for every valid `(N, s, st)` constructing with the generated constructor and then iterating
the generated generator yields the stream model `mixedEvs` (the subject of the Mixed property theorems), every
event with `_exhausted = False` but the last; fuel `2 N + 3`. -/
theorem mixed_construct_then_iterate (N s : Nat) (st : Storage) (fuel : Nat)
    (hv : validMixed N s st = true) (hf : mixedIterFuelBound N ≤ fuel) :
    ∃ evs, mixedEvs memoPlan N s st = .ok evs ∧ mixedIterEvs memoPlan N s st = .ok evs ∧
      mixed_run fuel (N : Int) (s : Int) (stPy st) = .ok (markLast_mx (evs.map (fun e => evPy e false))) := by
  have hv' := hv
  simp only [validMixed, Bool.and_eq_true, Bool.or_eq_true, decide_eq_true_eq] at hv'
  obtain ⟨⟨h1, h2⟩, h3⟩ := hv'
  have hst : st = .ram ∨ st = .disk := by simpa using h3
  obtain ⟨evs, hev, htw, hrun⟩ := mixed_iterator_refines_valid N s st fuel hst h1 h2 hf
  refine ⟨evs, hev, htw, ?_⟩
  obtain ⟨_, _, _, hinit⟩ := (mixed_init_valid_iff memoPlan N s st).1 hv
  unfold mixed_run
  rw [hinit]
  exact hrun

/-- outside the domain the composition raises `ValueError` before any action -/
theorem mixed_run_invalid (N s : Nat) (st : Storage) (fuel : Nat) (hv : validMixed N s st = false) :
    mixed_run fuel (N : Int) (s : Int) (stPy st) = .error .valueError := by
  unfold mixed_run
  rw [((mixed_init_valid_iff memoPlan N s st).2 hv).1]
  rfl

/-! non-vacuity -/
example : validMixed 5 2 .disk = true := by decide
example : mixedIterFuelBound 5 ≤ 13 := by decide
example : mixed_init 5 2 .disk = .ok (0, 0, some 5, false, 2, .disk) := rfl
example : mixed_init 5 9 .ram = .ok (0, 0, some 5, false, 4, .ram) := rfl
example : mixed_init 1 0 .ram = .ok (0, 0, some 1, false, 0, .ram) := rfl
example : mixed_init 5 0 .ram = .error .valueError ∧ mixed_init 5 2 .work = .error .valueError ∧
    mixed_init 0 2 .ram = .error .valueError ∧ mixed_init (-3) (-7) .ram = .error .valueError := ⟨rfl, rfl, rfl, rfl⟩
example : ∃ evs, mixedEvs memoPlan 5 2 .disk = .ok evs ∧ mixedIterEvs memoPlan 5 2 .disk = .ok evs ∧
    mixed_run 13 5 2 .disk = .ok (markLast_mx (evs.map (fun e => evPy e false))) :=
  mixed_construct_then_iterate 5 2 .disk 13 (by decide) (by decide)

/-! ## 2. `TwoLevelCheckpointSchedule.__init__` -/

/-- the generated constructor in closed form, for all integers, storage types and trajectory strings -/
theorem twoLevel_init_spec (period b : Int) (storage : StorageType) (traj : String) :
    twoLevel_init period b storage traj =
      if period < 1 then .error .valueError
      else if ¬ (storage = .ram ∨ storage = .disk) then .error .valueError
      else .ok (0, 0, none, period, b, storage, traj) := by
  unfold twoLevel_init
  rw [init_spec]
  by_cases h1 : period < 1
  · simp only [h1, if_true, bind, Except.bind]; rfl
  · by_cases h2 : ¬ (storage = .ram ∨ storage = .disk)
    · simp only [h1, if_false, h2, bind, Except.bind]; rfl
    · simp only [h1, if_false, h2, bind, Except.bind, pure, Except.pure]

theorem twoLevel_init_error_iff (period b : Int) (storage : StorageType) (traj : String) :
    (twoLevel_init period b storage traj = .error .valueError ↔
      (period < 1 ∨ ¬ (storage = .ram ∨ storage = .disk))) ∧
    (¬ (period < 1 ∨ ¬ (storage = .ram ∨ storage = .disk)) →
      twoLevel_init period b storage traj = .ok (0, 0, none, period, b, storage, traj)) := by
  rw [twoLevel_init_spec]
  by_cases h1 : period < 1
  · simp [h1]
  · by_cases h2 : ¬ (storage = .ram ∨ storage = .disk)
    · simp only [h1, if_false, h2]; simp
    · simp only [h1, if_false, h2]; simp

def twoLevelInitOf (p b : Nat) (st : Storage) (traj : Traj) : Except Err Sched →
    M (Int × Int × Option Int × Int × Int × StorageType × String)
  | .ok _ => .ok (0, 0, none, (p : Int), (b : Int), stPy st, trajStr traj)
  | .error _ => .error .valueError

/-- **`TwoLevelCheckpointSchedule.__init__` refines `twoLevelSched`**: `ValueError` exactly when the model rejects
(`period < 1`, storage not RAM/DISK), otherwise `_n = 0, _r = 0, _max_n = None` and the four arguments — the
arguments of `twoLevel_iterator_refines`. -/
theorem twoLevel_init_refines (p b : Nat) (st : Storage) (traj : Traj) :
    twoLevel_init (p : Int) (b : Int) (stPy st) (trajStr traj)
      = twoLevelInitOf p b st traj (twoLevelSched p b st traj) := by
  rw [twoLevel_init_spec]
  unfold twoLevelSched
  have e1 : ((p : Int) < 1) ↔ p < 1 := by omega
  simp only [e1, stPy_ram_or_disk]
  by_cases h1 : p < 1
  · simp only [h1, if_true, twoLevelInitOf]
  · by_cases h2 : ¬ (st = .ram ∨ st = .disk)
    · simp only [h1, if_false, h2, not_false_eq_true, if_true, twoLevelInitOf]
    · simp only [h1, if_false, h2, twoLevelInitOf]

/-- a negative period is rejected whatever the other arguments are -/
theorem twoLevel_init_negative (period b : Int) (storage : StorageType) (traj : String) (h : period < 0) :
    twoLevel_init period b storage traj = .error .valueError := by
  rw [(twoLevel_init_error_iff period b storage traj).1]; exact Or.inl (by omega)

/-- split by the documented domain `validTwoLevel` (the hypothesis of `C17_invalid_twoLevel`) -/
theorem twoLevel_init_valid_iff (p b : Nat) (st : Storage) (traj : Traj) :
    (validTwoLevel p st = true →
      ∃ sch, twoLevelSched p b st traj = .ok sch ∧
        twoLevel_init (p : Int) (b : Int) (stPy st) (trajStr traj)
          = .ok ((sch.init.n : Int), (sch.init.r : Int), optInt sch.init.maxN, (p : Int), (b : Int), stPy st,
                 trajStr traj) ∧
        twoLevel_init (p : Int) (b : Int) (stPy st) (trajStr traj)
          = .ok (0, 0, none, (p : Int), (b : Int), stPy st, trajStr traj)) ∧
    (validTwoLevel p st = false →
      twoLevel_init (p : Int) (b : Int) (stPy st) (trajStr traj) = .error .valueError ∧
      ∃ msg, twoLevelSched p b st traj = .error (.construct msg)) := by
  constructor
  · intro hv
    simp only [validTwoLevel, Bool.and_eq_true, Bool.or_eq_true, decide_eq_true_eq] at hv
    obtain ⟨h1, h2⟩ := hv
    have hst : st = .ram ∨ st = .disk := by simpa using h2
    have h := On.twoLevelSched_ok p b st traj h1 hst
    refine ⟨_, h, ?_, ?_⟩
    · rw [twoLevel_init_refines, h]; rfl
    · rw [twoLevel_init_refines, h]; rfl
  · intro hv
    have hrej : ∃ msg, twoLevelSched p b st traj = .error (.construct msg) := by
      unfold twoLevelSched
      by_cases h1 : p < 1
      · rw [if_pos h1]; exact ⟨_, rfl⟩
      · rw [if_neg h1]
        by_cases h2 : ¬ (st = .ram ∨ st = .disk)
        · rw [if_pos h2]; exact ⟨_, rfl⟩
        · exfalso
          have : validTwoLevel p st = true := by
            simp only [validTwoLevel, Bool.and_eq_true, Bool.or_eq_true, decide_eq_true_eq]
            push Not at h2
            exact ⟨by omega, by simpa using h2⟩
          rw [this] at hv; cases hv
    obtain ⟨msg, h⟩ := hrej
    exact ⟨by rw [twoLevel_init_refines, h]; rfl, msg, h⟩

/-- construct, then iterate with the canonical client (`clientN` steps, `passes` adjoint calculations) -/
def twoLevel_run (fuel : Nat) (period b : Int) (storage : StorageType) (traj : String) (passes clientN : Int) :
    M (List PyEv) := do
  let (n, r, mx, p, bs, sto, tr) ← twoLevel_init period b storage traj
  twoLevel_iterator fuel n r mx p bs sto tr passes clientN

/-- **Composition**: for all valid parameters, `N ≥ 1` steps and `k ≥ 1` adjoint calculations: constructing and
then iterating the generated code yields the forward events `s.fwdEv`, `s.first N` and `k - 1` times `s.again N`
of the `Sched` that `twoLevelSched` returns; fuel `2 N + k + 4`. -/
theorem twoLevel_construct_then_iterate (p b N k : Nat) (st : Storage) (traj : Traj) (fuel : Nat)
    (hv : validTwoLevel p st = true) (hN : 1 ≤ N) (hk : 1 ≤ k) (hf : twoLevelFuel N k ≤ fuel) :
    ∃ s first, twoLevelSched p b st traj = .ok s ∧ s.first N = .ok first ∧
      twoLevel_run fuel (p : Int) (b : Int) (stPy st) (trajStr traj) (k : Int) (N : Int)
        = .ok (((List.range (ceilDiv N p)).map (fun j => s.fwdEv (j * p)) ++ first ++ agains s N (k - 1)).map
                (fun e => evPy e false)) := by
  have hv' := hv
  simp only [validTwoLevel, Bool.and_eq_true, Bool.or_eq_true, decide_eq_true_eq] at hv'
  obtain ⟨h1, h2⟩ := hv'
  have hst : st = .ram ∨ st = .disk := by simpa using h2
  obtain ⟨s, first, hs, hfirst, hrun⟩ := twoLevel_iterator_refines p b N k st traj h1 hst hN hk fuel hf
  refine ⟨s, first, hs, hfirst, ?_⟩
  obtain ⟨_, _, _, hinit⟩ := (twoLevel_init_valid_iff p b st traj).1 hv
  unfold twoLevel_run
  rw [hinit]
  rw [stPy_tl_eq] at hrun
  simp only [bind, Except.bind]
  rw [hrun]
  simp only [TwoLevel.evsPy, TwoLevel.evPy_tl, evPy]
  congr 1

theorem twoLevel_run_invalid (p b : Nat) (st : Storage) (traj : Traj) (fuel : Nat) (k N : Int)
    (hv : validTwoLevel p st = false) :
    twoLevel_run fuel (p : Int) (b : Int) (stPy st) (trajStr traj) k N = .error .valueError := by
  unfold twoLevel_run
  rw [((twoLevel_init_valid_iff p b st traj).2 hv).1]
  rfl

/-! non-vacuity -/
example : validTwoLevel 3 .ram = true := by decide
example : twoLevelFuel 10 2 ≤ 26 := by decide
example : twoLevel_init 3 2 .ram "maximum" = .ok (0, 0, none, 3, 2, .ram, "maximum") := rfl
example : twoLevel_init 0 2 .ram "maximum" = .error .valueError ∧
    twoLevel_init 3 2 .work "maximum" = .error .valueError ∧
    twoLevel_init (-1) 2 .none "revolve" = .error .valueError := ⟨rfl, rfl, rfl⟩
example : ∃ s first, twoLevelSched 3 2 .ram .maximum = .ok s ∧ s.first 10 = .ok first ∧
    twoLevel_run 26 3 2 .ram "maximum" 2 10
      = .ok (((List.range (ceilDiv 10 3)).map (fun j => s.fwdEv (j * 3)) ++ first ++ agains s 10 (2 - 1)).map
              (fun e => evPy e false)) :=
  twoLevel_construct_then_iterate 3 2 10 2 .ram .maximum 26 (by decide) (by decide) (by decide) (by decide)

/-! ## 3. `MultistageCheckpointSchedule.__init__` -/

/-- the type of the translated `allocate_snapshots(max_n, ram, disk, trajectory=…)`: `(weights, allocation)` -/
abbrev AllocOracle := Int → Int → Int → String → M (List Int × List StorageType)

/-- the fields that the constructor sets once the `storage` tuple is known -/
def msFields (max_n : Int) (traj : String) (storage : List StorageType) :
    Int × Int × Option Int × Int × Int × List StorageType × Bool × String :=
  (0, 0, some max_n, ((List.count StorageType.ram storage : Nat) : Int),
    ((List.count StorageType.disk storage : Nat) : Int), storage, false, traj)

/-- the generated constructor in closed form, for all integers and EVERY oracle: `max_n < 1` is rejected first
(in `super().__init__`); the oracle is consulted only when both clamped numbers are non-zero, with the clamped
numbers, and only the second component of its answer is used; its exception propagates -/
theorem multistage_init_spec (max_n ram disk : Int) (traj : String) (oracle : AllocOracle) :
    multistage_init max_n ram disk traj oracle =
      if max_n < 1 then .error .valueError
      else if min ram (max_n - 1) = 0 then
        .ok (msFields max_n traj (List.replicate (min disk (max_n - 1)).toNat .disk))
      else if min disk (max_n - 1) = 0 then
        .ok (msFields max_n traj (List.replicate (min ram (max_n - 1)).toNat .ram))
      else match oracle max_n (min ram (max_n - 1)) (min disk (max_n - 1)) traj with
        | .ok t => .ok (msFields max_n traj t.2)
        | .error e => .error e := by
  unfold multistage_init
  rw [init_spec]
  by_cases h0 : max_n < 1
  · simp only [h0, if_true, bind, Except.bind]
  · by_cases h1 : min ram (max_n - 1) = 0
    · simp only [h0, if_false, h1, if_true, bind, Except.bind, pure, Except.pure, msFields]
    · by_cases h2 : min disk (max_n - 1) = 0
      · simp only [h0, if_false, h1, h2, if_true, bind, Except.bind, pure, Except.pure, msFields]
      · simp only [h0, if_false, h1, h2, bind, Except.bind, pure, Except.pure, msFields]
        cases oracle max_n (min ram (max_n - 1)) (min disk (max_n - 1)) traj with
        | ok t => rfl
        | error e => rfl

/-- `max_n < 1`: `ValueError`, for every oracle and all other arguments -/
theorem multistage_init_rejects (max_n ram disk : Int) (traj : String) (oracle : AllocOracle) (h : max_n < 1) :
    multistage_init max_n ram disk traj oracle = .error .valueError := by
  rw [multistage_init_spec, if_pos h]

/-- **The oracle hypothesis**: called as the constructor calls it — `max_n = N` and the CLAMPED numbers
`min(ram, N - 1)`, `min(disk, N - 1)` — whenever the model `allocate` (`Model/Multistage.lean`) answers
`(weights, allocation)`, the oracle returns that allocation (with any weights: the constructor discards them). -/
def OracleAgrees (oracle : AllocOracle) (N ram disk : Nat) (traj : Traj) : Prop :=
  ∀ wa, allocate N (min ram (N - 1)) (min disk (N - 1)) traj = some wa →
    ∃ w', oracle (N : Int) ((min ram (N - 1) : Nat) : Int) ((min disk (N - 1) : Nat) : Int) (trajStr traj)
      = .ok (w', wa.2.map stPy)

/-- the oracle that is the model: it agrees -/
def modelOracle (N ram disk : Nat) (traj : Traj) : AllocOracle := fun _ _ _ _ =>
  match allocate N (min ram (N - 1)) (min disk (N - 1)) traj with
  | some wa => .ok (wa.1.map (fun k : Nat => (k : Int)), wa.2.map stPy)
  | none => .error .runtimeError

theorem modelOracle_agrees (N ram disk : Nat) (traj : Traj) :
    OracleAgrees (modelOracle N ram disk traj) N ram disk traj := by
  intro wa h
  exact ⟨wa.1.map (fun k : Nat => (k : Int)), by simp only [modelOracle, h]⟩

theorem count_stPy (l : List Storage) (x : Storage) : List.count (stPy x) (l.map stPy) = l.count x :=
  List.count_map_of_injective l stPy stPy_inj x

/-- the fields, for a `storage` tuple that comes from the model -/
theorem msFields_map (N : Nat) (traj : Traj) (storage : List Storage) :
    msFields (N : Int) (trajStr traj) (storage.map stPy) =
      (0, 0, some (N : Int), ((storage.count .ram : Nat) : Int), ((storage.count .disk : Nat) : Int),
        storage.map stPy, false, trajStr traj) := by
  have h1 := count_stPy storage .ram
  have h2 := count_stPy storage .disk
  simp only [stPy] at h1 h2
  simp only [msFields, h1, h2]

/-- **`MultistageCheckpointSchedule.__init__` refines `multistageStorage`/`multistageSched`**: if the oracle returns
what the model's `allocate_snapshots` returns (`OracleAgrees`), then for `N ≥ 1` the generated constructor returns
`_n = 0, _r = 0, _max_n = N, _snapshots_in_ram = storage.count(RAM), _snapshots_on_disk = storage.count(DISK),
_storage = storage, _exhausted = False, _trajectory` where `storage` is the model's `multistageStorage N ram disk
traj` (which exists) — the arguments of `multistage_iterator_refines`; and the model constructor accepts. -/
theorem multistage_init_refines (N ram disk : Nat) (traj : Traj) (oracle : AllocOracle)
    (hor : OracleAgrees oracle N ram disk traj) (hN : 1 ≤ N) :
    ∃ storage sch, multistageStorage N ram disk traj = some storage ∧
      multistageSched N ram disk traj = .ok sch ∧
      multistage_init (N : Int) (ram : Int) (disk : Int) (trajStr traj) oracle
        = .ok (0, 0, some (N : Int), ((storage.count .ram : Nat) : Int), ((storage.count .disk : Nat) : Int),
            storage.map stPy, false, trajStr traj) ∧
      ((0 : Int), (0 : Int), some (N : Int)) = ((sch.init.n : Int), (sch.init.r : Int), optInt sch.init.maxN) := by
  obtain ⟨storage, hst, _⟩ := multistageStorage_spec N ram disk traj hN
  have hsch : ∃ sch, multistageSched N ram disk traj = .ok sch ∧
      ((0 : Int), (0 : Int), some (N : Int)) = ((sch.init.n : Int), (sch.init.r : Int), optInt sch.init.maxN) := by
    unfold multistageSched
    rw [if_neg (by omega), hst]
    exact ⟨_, rfl, rfl⟩
  obtain ⟨sch, hsch, hinit⟩ := hsch
  refine ⟨storage, sch, hst, hsch, ?_, hinit⟩
  rw [multistage_init_spec, if_neg (by omega), clamp_cast_in N ram hN, clamp_cast_in N disk hN, ← msFields_map]
  have hst' := hst
  unfold multistageStorage at hst'
  simp only at hst'
  by_cases h1 : min ram (N - 1) = 0
  · rw [if_pos h1] at hst'
    cases hst'
    rw [if_pos (by exact_mod_cast h1), Int.toNat_natCast, List.map_replicate]
    rfl
  · rw [if_neg h1] at hst'
    rw [if_neg (by exact_mod_cast h1)]
    by_cases h2 : min disk (N - 1) = 0
    · rw [if_pos h2] at hst'
      cases hst'
      rw [if_pos (by exact_mod_cast h2), Int.toNat_natCast, List.map_replicate]
      rfl
    · rw [if_neg h2] at hst'
      rw [if_neg (by exact_mod_cast h2)]
      cases ha : allocate N (min ram (N - 1)) (min disk (N - 1)) traj with
      | none => rw [ha] at hst'; cases hst'
      | some wa =>
        rw [ha] at hst'
        cases hst'
        obtain ⟨w', hw⟩ := hor wa ha
        rw [hw]

/-- `max_n < 1` against the model: `ValueError`, and the model rejects at construction -/
theorem multistage_init_refines_invalid (N ram disk : Nat) (traj : Traj) (oracle : AllocOracle) (hN : N < 1) :
    multistage_init (N : Int) (ram : Int) (disk : Int) (trajStr traj) oracle = .error .valueError ∧
    multistageSched N ram disk traj = .error (.construct "max_n must be positive") ∧
    multistageEvs N ram disk traj = .error (.construct "max_n must be positive") :=
  ⟨multistage_init_rejects _ _ _ _ _ (by omega), by simp [multistageSched, hN], by simp [multistageEvs, hN]⟩

/-- construct, then iterate -/
def multistage_run (fuel : Nat) (max_n ram disk : Int) (traj : String) (oracle : AllocOracle) : M (List PyEv) := do
  let (n, r, mx, sr, sd, sto, ex, tr) ← multistage_init max_n ram disk traj oracle
  multistage_iterator fuel n r mx sr sd sto tr ex

/-- **Composition**: for all valid parameters (`validMultistage`: `N ≥ 1`, and a unit unless `N = 1`) and every
oracle that agrees with the model's `allocate_snapshots`: constructing with the generated constructor and then
iterating the generated generator yields the stream model `multistageEvs`; fuel `N + 2`. -/
theorem multistage_construct_then_iterate (N ram disk : Nat) (traj : Traj) (oracle : AllocOracle) (fuel : Nat)
    (hor : OracleAgrees oracle N ram disk traj)
    (hv : validMultistage N ram disk = true) (hf : multistageFuel N ≤ fuel) :
    ∃ evs, multistageEvs N ram disk traj = .ok evs ∧
      multistage_run fuel (N : Int) (ram : Int) (disk : Int) (trajStr traj) oracle
        = .ok (markLast (evs.map (evPy · false))) := by
  obtain ⟨_, evs, _, hev⟩ := C17_valid_multistage N ram disk traj hv
  have hN : 1 ≤ N := by
    simp only [validMultistage, Bool.and_eq_true, decide_eq_true_eq] at hv
    exact hv.1
  obtain ⟨storage, _, hst, _, hinit, _⟩ := multistage_init_refines N ram disk traj oracle hor hN
  refine ⟨evs, hev, ?_⟩
  unfold multistage_run
  rw [hinit]
  exact multistage_iterator_refines N ram disk traj storage evs fuel hst hev hf

/-- `max_n < 1`: the composition raises `ValueError` before any action, whatever the oracle -/
theorem multistage_run_invalid (N ram disk : Nat) (traj : Traj) (oracle : AllocOracle) (fuel : Nat) (hN : N < 1) :
    multistage_run fuel (N : Int) (ram : Int) (disk : Int) (trajStr traj) oracle = .error .valueError := by
  unfold multistage_run
  rw [(multistage_init_refines_invalid N ram disk traj oracle hN).1]
  rfl

/-! non-vacuity: the oracle hypothesis is satisfiable for every tuple (`modelOracle_agrees`); concrete tuples -/
example : validMultistage 6 2 1 = true := by decide
example : multistageFuel 6 ≤ 8 := by decide
example : OracleAgrees (modelOracle 6 2 1 .revolve) 6 2 1 .revolve := modelOracle_agrees 6 2 1 .revolve
example : multistageStorage 6 2 1 .revolve = some [.disk, .ram, .ram] := by decide
example : multistage_init 4 2 0 "maximum" (fun _ _ _ _ => .error .runtimeError)
    = .ok (0, 0, some 4, 2, 0, [.ram, .ram], false, "maximum") := rfl
example : multistage_init 4 0 7 "maximum" (fun _ _ _ _ => .error .runtimeError)
    = .ok (0, 0, some 4, 0, 3, [.disk, .disk, .disk], false, "maximum") := rfl
example : multistage_init 0 2 2 "maximum" (fun _ _ _ _ => .ok ([], [])) = .error .valueError := rfl
example : ∃ evs, multistageEvs 6 2 1 .revolve = .ok evs ∧
    multistage_run 8 6 2 1 "revolve" (modelOracle 6 2 1 .revolve) = .ok (markLast (evs.map (evPy · false))) :=
  multistage_construct_then_iterate 6 2 1 .revolve _ 8 (modelOracle_agrees _ _ _ _) (by decide) (by decide)

/-! ## 4. `Forward/Reverse.__len__`, `__contains__` -/

/-- the `n0`, `n1` fields of a Forward/Reverse as the generated helpers receive them -/
theorem forward_len_spec (n0 n1 : Int) : forward_len n0 n1 = .ok (n1 - n0) := rfl
theorem reverse_len_spec (n0 n1 : Int) : reverse_len n0 n1 = .ok (n1 - n0) := rfl
theorem forward_contains_spec (step n0 n1 : Int) :
    forward_contains step n0 n1 = .ok (decide (n0 ≤ step ∧ step < n1)) := rfl
theorem reverse_contains_spec (step n0 n1 : Int) :
    reverse_contains step n0 n1 = .ok (decide (n0 ≤ step ∧ step < n1)) := rfl

/-- **`Forward.__len__`** = the number of steps of the model action (`n1 - n0` of them), for `n0 ≤ n1` -/
theorem forward_len_refines (n0 n1 : Nat) (wi wa : Bool) (st : Storage) (h : n0 ≤ n1) :
    forward_len (n0 : Int) (n1 : Int) = .ok (((steps (.forward n0 n1 wi wa st)).length : Nat) : Int) := by
  rw [forward_len_spec, length_steps_forward, Nat.cast_sub h]

/-- … and for every `n0`, `n1`: the value is `n1 - n0`, whose non-negative part is the model's length (for
`n1 < n0` the value is negative, where Python's `len()` raises, and the model action has no steps) -/
theorem forward_len_toNat (n0 n1 : Nat) (wi wa : Bool) (st : Storage) :
    ∃ v, forward_len (n0 : Int) (n1 : Int) = .ok v ∧ v = (n1 : Int) - (n0 : Int) ∧
      v.toNat = (steps (.forward n0 n1 wi wa st)).length := by
  refine ⟨_, rfl, rfl, ?_⟩
  rw [length_steps_forward]; omega

/-- **`Reverse.__len__`** (`Reverse(n1, n0, …)`: the fields are passed as `self_n0 = n0`, `self_n1 = n1`) -/
theorem reverse_len_refines (n1 n0 : Nat) (c : Bool) (h : n0 ≤ n1) :
    reverse_len (n0 : Int) (n1 : Int) = .ok (((steps (.reverse n1 n0 c)).length : Nat) : Int) := by
  rw [reverse_len_spec, length_steps_reverse, Nat.cast_sub h]

theorem reverse_len_toNat (n1 n0 : Nat) (c : Bool) :
    ∃ v, reverse_len (n0 : Int) (n1 : Int) = .ok v ∧ v = (n1 : Int) - (n0 : Int) ∧
      v.toNat = (steps (.reverse n1 n0 c)).length := by
  refine ⟨_, rfl, rfl, ?_⟩
  rw [length_steps_reverse]; omega

theorem mem_map_cast (step : Int) (l : List Nat) (P : Nat → Prop) (h : ∀ k, k ∈ l ↔ P k) :
    step ∈ l.map (fun k : Nat => (k : Int)) ↔ 0 ≤ step ∧ P step.toNat := by
  rw [List.mem_map]
  constructor
  · rintro ⟨k, hk, rfl⟩
    exact ⟨by omega, by rw [Int.toNat_natCast]; exact (h k).1 hk⟩
  · rintro ⟨h0, hp⟩
    exact ⟨step.toNat, (h _).2 hp, by omega⟩

/-- **`Forward.__contains__`**, for every integer `step`: membership in the steps of the model action -/
theorem forward_contains_refines (step : Int) (n0 n1 : Nat) (wi wa : Bool) (st : Storage) :
    forward_contains step (n0 : Int) (n1 : Int)
      = .ok (decide (step ∈ (steps (.forward n0 n1 wi wa st)).map (fun k : Nat => (k : Int)))) := by
  rw [forward_contains_spec]
  congr 1
  rw [decide_eq_decide,
    mem_map_cast step _ _ (fun k => mem_steps_forward k n0 n1 wi wa st)]
  omega

/-- for a natural `step`: `step in Forward(n0, n1, …)` iff `step ∈ steps`, iff `n0 ≤ step < n1` -/
theorem forward_contains_nat (k n0 n1 : Nat) (wi wa : Bool) (st : Storage) :
    forward_contains (k : Int) (n0 : Int) (n1 : Int) = .ok (decide (k ∈ steps (.forward n0 n1 wi wa st))) ∧
    forward_contains (k : Int) (n0 : Int) (n1 : Int) = .ok (decide (n0 ≤ k ∧ k < n1)) := by
  rw [forward_contains_spec]
  constructor
  · congr 1; rw [decide_eq_decide, mem_steps_forward]; omega
  · congr 1; rw [decide_eq_decide]; omega

/-- **`Reverse.__contains__`**, for every integer `step` -/
theorem reverse_contains_refines (step : Int) (n1 n0 : Nat) (c : Bool) :
    reverse_contains step (n0 : Int) (n1 : Int)
      = .ok (decide (step ∈ (steps (.reverse n1 n0 c)).map (fun k : Nat => (k : Int)))) := by
  rw [reverse_contains_spec]
  congr 1
  rw [decide_eq_decide,
    mem_map_cast step _ _ (fun k => mem_steps_reverse k n1 n0 c)]
  omega

theorem reverse_contains_nat (k n1 n0 : Nat) (c : Bool) :
    reverse_contains (k : Int) (n0 : Int) (n1 : Int) = .ok (decide (k ∈ steps (.reverse n1 n0 c))) ∧
    reverse_contains (k : Int) (n0 : Int) (n1 : Int) = .ok (decide (n0 ≤ k ∧ k < n1)) := by
  rw [reverse_contains_spec]
  constructor
  · congr 1; rw [decide_eq_decide, mem_steps_reverse]; omega
  · congr 1; rw [decide_eq_decide]; omega

/-- a negative `step` is in no action -/
theorem contains_negative (step : Int) (n0 n1 : Nat) (h : step < 0) :
    forward_contains step (n0 : Int) (n1 : Int) = .ok false ∧
    reverse_contains step (n0 : Int) (n1 : Int) = .ok false := by
  rw [forward_contains_spec, reverse_contains_spec]
  have : ¬ ((n0 : Int) ≤ step ∧ step < (n1 : Int)) := by omega
  simp only [this, decide_false, and_self]

/-! non-vacuity -/
example : forward_len 2 5 = .ok 3 ∧ steps (.forward 2 5 true false .ram) = [2, 3, 4] := by decide
example : reverse_len 2 5 = .ok 3 ∧ steps (.reverse 5 2 true) = [4, 3, 2] := by decide
example : forward_contains 4 2 5 = .ok true ∧ forward_contains 5 2 5 = .ok false ∧
    forward_contains (-1) 2 5 = .ok false := by decide
example : reverse_contains 2 2 5 = .ok true ∧ reverse_contains 1 2 5 = .ok false := by decide
example : (2 : Nat) ≤ 5 := by decide

end Ckpt.Py

#print axioms Ckpt.Py.mixed_init_spec
#print axioms Ckpt.Py.mixed_init_error_iff
#print axioms Ckpt.Py.mixed_init_negative
#print axioms Ckpt.Py.mixed_init_refines
#print axioms Ckpt.Py.mixed_init_valid_iff
#print axioms Ckpt.Py.mixed_construct_then_iterate
#print axioms Ckpt.Py.mixed_run_invalid
#print axioms Ckpt.Py.twoLevel_init_spec
#print axioms Ckpt.Py.twoLevel_init_error_iff
#print axioms Ckpt.Py.twoLevel_init_negative
#print axioms Ckpt.Py.twoLevel_init_refines
#print axioms Ckpt.Py.twoLevel_init_valid_iff
#print axioms Ckpt.Py.twoLevel_construct_then_iterate
#print axioms Ckpt.Py.twoLevel_run_invalid
#print axioms Ckpt.Py.multistage_init_spec
#print axioms Ckpt.Py.multistage_init_rejects
#print axioms Ckpt.Py.modelOracle_agrees
#print axioms Ckpt.Py.multistage_init_refines
#print axioms Ckpt.Py.multistage_init_refines_invalid
#print axioms Ckpt.Py.multistage_construct_then_iterate
#print axioms Ckpt.Py.multistage_run_invalid
#print axioms Ckpt.Py.forward_len_refines
#print axioms Ckpt.Py.forward_len_toNat
#print axioms Ckpt.Py.reverse_len_refines
#print axioms Ckpt.Py.reverse_len_toNat
#print axioms Ckpt.Py.forward_contains_refines
#print axioms Ckpt.Py.forward_contains_nat
#print axioms Ckpt.Py.reverse_contains_refines
#print axioms Ckpt.Py.reverse_contains_nat
#print axioms Ckpt.Py.contains_negative
